(** C10 — proofs, part 2: the networkx primitives of model/C10_Model.v seen through the two lookups
    [label] (node -> attribute dictionary) and [adj] (unordered pair -> edge dictionary).
    Everything later (hydrogen conversions, GML round trip) is proved through these views. *)
From Coq Require Import List NArith ZArith Bool Lia.
From SK Require Import lib.Tok lib.LGraph lib.StrJoin model.C10_Model.
Import ListNotations.
Local Open Scope Z_scope.

(** brute-force case analysis on node-id tests *)
Ltac neq :=
  repeat match goal with
         | |- context [N.eqb ?a ?b] => destruct (N.eqb_spec a b)
         | H : context [N.eqb ?a ?b] |- _ => destruct (N.eqb_spec a b)
         end; subst; simpl in *; try congruence; try reflexivity; auto.

(** unordered-pair test used by find_edge / upd_edge: {a,b} = {u,v} *)
Definition pair_eqb (a b u v : N) : bool := (N.eqb a u && N.eqb b v) || (N.eqb a v && N.eqb b u).

Lemma pair_eqb_spec a b u v : pair_eqb a b u v = true <-> (a = u /\ b = v) \/ (a = v /\ b = u).
Proof.
  unfold pair_eqb. rewrite orb_true_iff, !andb_true_iff, !N.eqb_eq. tauto.
Qed.
Lemma pair_eqb_swap a b u v : pair_eqb a b u v = pair_eqb a b v u.
Proof. unfold pair_eqb. apply orb_comm. Qed.
Lemma pair_eqb_sym a b u v : pair_eqb a b u v = pair_eqb u v a b.
Proof. unfold pair_eqb. neq. Qed.
Lemma pair_eqb_refl a b : pair_eqb a b a b = true.
Proof. unfold pair_eqb. rewrite !N.eqb_refl. reflexivity. Qed.
Lemma pair_eqb_trans a b u v x y : pair_eqb a b u v = true -> pair_eqb a b x y = pair_eqb u v x y.
Proof. intros H. apply pair_eqb_spec in H. unfold pair_eqb. destruct H as [[-> ->]|[-> ->]]; [reflexivity|]. neq. Qed.

Lemma find_edge_cons (u v a b : N) (x : eatt) r :
  find_edge u v ((a, b, x) :: r) = if pair_eqb a b u v then Some x else find_edge u v r.
Proof. reflexivity. Qed.

(** ** attribute dictionaries *)
Lemma na_update_empty a : na_update na_empty a = a.
Proof. destruct a; reflexivity. Qed.
Lemma orelse_idem {A} (x : option A) : orelse x x = x.
Proof. destruct x; reflexivity. Qed.
Lemma ea_update_idem a : ea_update a a = a.
Proof. destruct a as [o s]; unfold ea_update; simpl. rewrite !orelse_idem. reflexivity. Qed.

(** ** assoc *)
Lemma assoc_app {V} k (l1 l2 : list (N * V)) :
  assoc k (l1 ++ l2) = match assoc k l1 with Some v => Some v | None => assoc k l2 end.
Proof. induction l1 as [|[k' v] r IH]; simpl; [reflexivity|]. destruct (N.eqb k k'); auto. Qed.

Lemma assoc_none_iff {V} k (l : list (N * V)) : assoc k l = None <-> ~ In k (map fst l).
Proof.
  induction l as [|[k' v] r IH]; simpl; [tauto|].
  destruct (N.eqb_spec k k') as [->|Hne].
  - split; [discriminate|]. intros H. exfalso. apply H. left. reflexivity.
  - rewrite IH. split; [intros H [E|E]; [congruence|tauto]|tauto].
Qed.
Lemma assoc_some_in {V} k (l : list (N * V)) v : assoc k l = Some v -> In k (map fst l).
Proof. intros H. destruct (in_dec N.eq_dec k (map fst l)) as [i|n]; [exact i|]. apply assoc_none_iff in n. congruence. Qed.

Lemma assoc_upd_node m n f l :
  assoc m (upd_node n f l) = if N.eqb m n then option_map f (assoc m l) else assoc m l.
Proof.
  induction l as [|[k a] r IH]; simpl; [destruct (N.eqb m n); reflexivity|].
  destruct (N.eqb_spec k n) as [->|Hkn]; simpl.
  - destruct (N.eqb_spec m n) as [->|Hmn]; simpl; reflexivity.
  - destruct (N.eqb_spec m k) as [->|Hmk].
    + destruct (N.eqb_spec k n); [congruence|reflexivity].
    + exact IH.
Qed.
Lemma fst_upd_node n f l : map fst (upd_node n f l) = map fst l.
Proof. induction l as [|[k a] r IH]; simpl; [reflexivity|]. destruct (N.eqb k n); simpl; congruence. Qed.
Lemma upd_node_id n f l : (forall a, f a = a) -> upd_node n f l = l.
Proof. intros Hf. induction l as [|[k a] r IH]; simpl; [reflexivity|]. destruct (N.eqb k n); rewrite ?Hf, ?IH; reflexivity. Qed.
Lemma upd_node_absent n f l : ~ In n (map fst l) -> upd_node n f l = l.
Proof.
  induction l as [|[k a] r IH]; simpl; [reflexivity|]. intros H.
  destruct (N.eqb_spec k n); [exfalso; apply H; left; assumption|]. rewrite IH; tauto.
Qed.

(** ** has_node / label *)
Lemma has_node_label (g : gr) n : has_node g n = true <-> exists a, label g n = Some a.
Proof.
  unfold has_node. destruct (label g n) as [a|]; split; intros H; eauto; try discriminate.
  destruct H; discriminate.
Qed.
Lemma has_node_in (g : gr) n : has_node g n = true <-> In n (node_ids g).
Proof.
  unfold has_node, label, node_ids. destruct (assoc n (gnodes g)) eqn:E.
  - split; [intros _; eapply assoc_some_in; eauto|reflexivity].
  - split; [discriminate|]. intros H. apply assoc_none_iff in E. tauto.
Qed.
Lemma has_node_false (g : gr) n : has_node g n = false <-> label g n = None.
Proof. unfold has_node. destruct (label g n); split; congruence. Qed.

(** ** set_node *)
Lemma label_set_node (g : gr) n f m :
  label (set_node g n f) m = if N.eqb m n then option_map f (label g m) else label g m.
Proof. apply assoc_upd_node. Qed.
Lemma adj_set_node (g : gr) n f u v : adj (set_node g n f) u v = adj g u v.
Proof. reflexivity. Qed.
Lemma gedges_set_node (g : gr) n f : gedges (set_node g n f) = gedges g.
Proof. reflexivity. Qed.
Lemma node_ids_set_node (g : gr) n f : node_ids (set_node g n f) = node_ids g.
Proof. apply fst_upd_node. Qed.
Lemma has_node_set_node (g : gr) n f m : has_node (set_node g n f) m = has_node g m.
Proof. unfold has_node. rewrite label_set_node. destruct (N.eqb m n), (label g m); reflexivity. Qed.

(** ** add_node *)
Lemma label_add_node (g : gr) n a m :
  label (add_node g n a) m =
  if N.eqb m n then Some (match label g n with Some old => na_update a old | None => a end) else label g m.
Proof.
  unfold add_node, has_node. destruct (label g n) as [old|] eqn:E.
  - rewrite label_set_node. destruct (N.eqb_spec m n) as [->|]; [rewrite E|]; reflexivity.
  - unfold label in *. simpl. rewrite assoc_app. simpl.
    destruct (N.eqb_spec m n) as [->|]; [rewrite E; reflexivity|]. destruct (assoc m (gnodes g)); reflexivity.
Qed.
Lemma gedges_add_node (g : gr) n a : gedges (add_node g n a) = gedges g.
Proof. unfold add_node. destruct (has_node g n); reflexivity. Qed.
Lemma adj_add_node (g : gr) n a u v : adj (add_node g n a) u v = adj g u v.
Proof. unfold adj. rewrite gedges_add_node. reflexivity. Qed.
Lemma has_node_add_node (g : gr) n a m : has_node (add_node g n a) m = N.eqb m n || has_node g m.
Proof. unfold has_node at 1. rewrite label_add_node. unfold has_node. destruct (N.eqb m n); reflexivity. Qed.
Lemma add_node_fresh (g : gr) n a : has_node g n = false -> add_node g n a = LG (gnodes g ++ [(n, a)]) (gedges g).
Proof. unfold add_node. intros ->. reflexivity. Qed.
Lemma gnodes_add_node_empty (g : gr) n : has_node g n = true -> gnodes (add_node g n na_empty) = gnodes g.
Proof. unfold add_node. intros ->. simpl. apply upd_node_id. apply na_update_empty. Qed.
Lemma node_ids_add_node (g : gr) n a :
  node_ids (add_node g n a) = if has_node g n then node_ids g else node_ids g ++ [n].
Proof.
  unfold add_node. destruct (has_node g n); [apply node_ids_set_node|].
  unfold node_ids. simpl. rewrite map_app. reflexivity.
Qed.

(** ** find_edge on updated / extended lists *)
Lemma find_edge_app u v (l1 l2 : list (N * N * eatt)) :
  find_edge u v (l1 ++ l2) = match find_edge u v l1 with Some x => Some x | None => find_edge u v l2 end.
Proof.
  induction l1 as [|[[a b] x] r IH]; [reflexivity|]. simpl app. rewrite !find_edge_cons.
  destruct (pair_eqb a b u v); auto.
Qed.
Lemma find_edge_upd x y u v f es :
  find_edge x y (upd_edge u v f es) = if pair_eqb u v x y then option_map f (find_edge x y es) else find_edge x y es.
Proof.
  induction es as [|[[a b] e] r IH]; [simpl; destruct (pair_eqb u v x y); reflexivity|].
  simpl upd_edge. fold (pair_eqb a b u v). destruct (pair_eqb a b u v) eqn:E.
  - rewrite !find_edge_cons. rewrite (pair_eqb_trans _ _ _ _ x y E).
    destruct (pair_eqb u v x y); reflexivity.
  - rewrite !find_edge_cons. destruct (pair_eqb a b x y) eqn:E2.
    + destruct (pair_eqb u v x y) eqn:E3; [|reflexivity].
      exfalso. rewrite (pair_eqb_sym u v x y) in E3. rewrite (pair_eqb_sym a b x y) in E2.
      rewrite (pair_eqb_trans _ _ _ _ u v E2) in E3. rewrite pair_eqb_sym in E3. rewrite pair_eqb_sym in E. congruence.
    + exact IH.
Qed.

(** ** add_edge *)
Definition ends_exist (g : gr) (u v : N) : gr := add_node (add_node g u na_empty) v na_empty.
Lemma label_ends_exist (g : gr) u v m :
  label (ends_exist g u v) m = if N.eqb m u || N.eqb m v then Some (dflt (label g m) na_empty) else label g m.
Proof.
  unfold ends_exist. rewrite !label_add_node.
  neq; repeat match goal with |- context [label g ?z] => destruct (label g z) end; simpl;
    rewrite ?na_update_empty; reflexivity.
Qed.
Lemma gedges_ends_exist (g : gr) u v : gedges (ends_exist g u v) = gedges g.
Proof. unfold ends_exist. rewrite !gedges_add_node. reflexivity. Qed.

Lemma add_edge_unfold (g : gr) u v a :
  add_edge g u v a =
  let g1 := ends_exist g u v in
  if has_edge g1 u v then LG (gnodes g1) (upd_edge u v (ea_update a) (gedges g1))
  else LG (gnodes g1) (gedges g1 ++ [(u, v, a)]).
Proof. reflexivity. Qed.

Lemma label_add_edge (g : gr) u v a m :
  label (add_edge g u v a) m = if N.eqb m u || N.eqb m v then Some (dflt (label g m) na_empty) else label g m.
Proof.
  rewrite add_edge_unfold. cbv zeta. destruct (has_edge _ u v); unfold label; simpl; apply label_ends_exist.
Qed.
Lemma has_node_add_edge (g : gr) u v a m : has_node (add_edge g u v a) m = N.eqb m u || N.eqb m v || has_node g m.
Proof. unfold has_node at 1. rewrite label_add_edge. unfold has_node. destruct (N.eqb m u || N.eqb m v); reflexivity. Qed.

Lemma adj_add_edge (g : gr) u v a x y :
  adj (add_edge g u v a) x y =
  if pair_eqb u v x y then Some (match adj g u v with Some old => ea_update a old | None => a end) else adj g x y.
Proof.
  rewrite add_edge_unfold. cbv zeta. unfold has_edge, adj. rewrite gedges_ends_exist.
  destruct (find_edge u v (gedges g)) as [old|] eqn:E; simpl.
  - rewrite find_edge_upd. destruct (pair_eqb u v x y) eqn:P; [|reflexivity].
    assert (find_edge x y (gedges g) = Some old) as ->; [|reflexivity].
    apply pair_eqb_spec in P. destruct P as [[-> ->]|[-> ->]]; [exact E|]. rewrite find_edge_sym. exact E.
  - rewrite find_edge_app. simpl. fold (pair_eqb u v x y).
    destruct (pair_eqb u v x y) eqn:P.
    + assert (find_edge x y (gedges g) = None) as ->; [|reflexivity].
      apply pair_eqb_spec in P. destruct P as [[-> ->]|[-> ->]]; [exact E|]. rewrite find_edge_sym. exact E.
    + destruct (find_edge x y (gedges g)); reflexivity.
Qed.

(** when both end points exist the node list is untouched *)
Lemma gnodes_add_edge_exist (g : gr) u v a :
  has_node g u = true -> has_node g v = true -> gnodes (add_edge g u v a) = gnodes g.
Proof.
  intros Hu Hv. rewrite add_edge_unfold. cbv zeta.
  assert (gnodes (ends_exist g u v) = gnodes g) as E.
  { unfold ends_exist. rewrite gnodes_add_node_empty; [apply gnodes_add_node_empty; exact Hu|].
    rewrite has_node_add_node, Hv. apply orb_true_r. }
  destruct (has_edge _ u v); simpl; exact E.
Qed.

(** ** remove_node *)
Lemma assoc_filter_ne {V} m n (l : list (N * V)) :
  assoc m (filter (fun p => negb (N.eqb (fst p) n)) l) = if N.eqb m n then None else assoc m l.
Proof.
  induction l as [|[k a] r IH]; simpl; [destruct (N.eqb m n); reflexivity|].
  destruct (N.eqb_spec k n) as [->|Hkn]; simpl.
  - rewrite IH. destruct (N.eqb_spec m n); reflexivity.
  - rewrite IH. destruct (N.eqb_spec m k) as [->|]; [|reflexivity].
    destruct (N.eqb_spec k n); [congruence|reflexivity].
Qed.
Lemma label_remove_node (g : gr) n m : label (remove_node g n) m = if N.eqb m n then None else label g m.
Proof. apply assoc_filter_ne. Qed.
Lemma find_edge_filter_ne u v n (es : list (N * N * eatt)) :
  find_edge u v (filter (fun e : N * N * eatt => let '(a, b, _) := e in negb (N.eqb a n || N.eqb b n)) es) =
  if N.eqb u n || N.eqb v n then None else find_edge u v es.
Proof.
  induction es as [|[[a b] x] r IH]; [simpl; destruct (N.eqb u n || N.eqb v n); reflexivity|].
  simpl filter. destruct (N.eqb a n || N.eqb b n) eqn:E; simpl negb; cbv iota.
  - rewrite IH, find_edge_cons. destruct (N.eqb u n || N.eqb v n) eqn:E2; [reflexivity|].
    destruct (pair_eqb a b u v) eqn:P; [|reflexivity].
    exfalso. apply pair_eqb_spec in P. destruct P as [[-> ->]|[-> ->]]; [congruence|]. rewrite orb_comm in E. congruence.
  - rewrite !find_edge_cons, IH. destruct (pair_eqb a b u v) eqn:P; [|reflexivity].
    apply pair_eqb_spec in P. destruct P as [[-> ->]|[-> ->]]; [rewrite E; reflexivity|]. rewrite orb_comm, E. reflexivity.
Qed.
Lemma adj_remove_node (g : gr) n u v :
  adj (remove_node g n) u v = if N.eqb u n || N.eqb v n then None else adj g u v.
Proof. apply find_edge_filter_ne. Qed.

(** ** neighbours *)
Lemma in_nbrs (g : gr) u w : In w (nbrs g u) <-> exists x, In (u, w, x) (gedges g) \/ In (w, u, x) (gedges g).
Proof.
  unfold nbrs. rewrite in_flat_map. split.
  - intros ([[a b] x] & Hin & H). destruct (N.eqb_spec a u) as [->|].
    + destruct H as [<-|[]]. exists x. left. exact Hin.
    + destruct (N.eqb_spec b u) as [->|]; [|destruct H]. destruct H as [<-|[]]. exists x. right. exact Hin.
  - intros (x & [H|H]).
    + exists (u, w, x). split; [exact H|]. rewrite N.eqb_refl. left. reflexivity.
    + exists (w, u, x). split; [exact H|]. destruct (N.eqb_spec w u) as [->|]; [left; reflexivity|].
      rewrite N.eqb_refl. left. reflexivity.
Qed.
