(** C08 — vocabulary for the repaired SynRule equality (two-sided ITS graph), definitions only. *)
From Coq Require Import List NArith ZArith Bool Arith Permutation.
From SK Require Import lib.LGraph lib.StrJoin model.C08_Model model.C08_Rule2 proof.C08_Spec.
Import ListNotations.

(** the labels of an ITS atom: (element, charge, aromatic, hcount) before AND after; of an ITS bond: (before, after, standard_order) *)
Definition ncov2 (a : nattr2) := (ncov (fst a), ncov (snd a)).
Definition cov2_nodes (g : graph2) := map (fun p : N * nattr2 => (fst p, ncov2 (snd p))) (gnodes g).
Definition cov2_edges (g : graph2) : list (N * N * ecv) := map cove (gedges g).
Definition geq2 (g h : graph2) : Prop :=
  Permutation (cov2_nodes g) (cov2_nodes h) /\ Permutation (cov2_edges g) (cov2_edges h).
(** isomorphic as ITS graphs: ONE bijection preserving the two-sided atom labels and the (before, after) bond labels *)
Definition iso2 (g h : graph2) : Prop := exists f, inj_on f (node_ids g) /\ geq2 (relabel f g) h.

(** element symbols of an ITS graph: ASCII letters and digits *)
Definition alnum (c : N) : bool := ((48 <=? c) && (c <=? 57) || (65 <=? c) && (c <=? 90) || (97 <=? c) && (c <=? 122))%N.
Definition el2_ok (s : str) : Prop := forallb alnum s = true.
Definition els2_ok (g : graph2) : Prop := forall p, In p (gnodes g) -> el2_ok (el (fst (snd p))) /\ el2_ok (el (snd (snd p))).
