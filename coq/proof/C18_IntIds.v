(** C18 — integer_ids (model/C18_IntIdsModel.v): on a network without a view-id collision the numbering is an injective renaming
    of all node names, so the canonical graph is the same with and without the option. *)
From Coq Require Import List NArith ZArith Bool Arith Lia Permutation.
From SK Require Import lib.IRSortKeys lib.IRCore lib.IRSearch lib.C18_IRValid model.C18_Model model.C18_IntIdsModel
  proof.C18_Spec proof.C18_Graph proof.C18_Canon proof.C18_View proof.C18_NetBip proof.C18_Net.
Import ListNotations.

Lemma index_of_range x l : forall i, In x l -> (i <= index_of x l i < i + N.of_nat (length l))%N.
Proof.
  induction l as [|y l IH]; intros i Hx; [contradiction|]. cbn [index_of length].
  destruct (N.eqb_spec y x) as [->|Hne]; [lia|]. destruct Hx as [E|Hx]; [congruence|]. specialize (IH (i + 1)%N Hx). lia.
Qed.
Lemma index_of_inj l : forall i x y, In x l -> In y l -> index_of x l i = index_of y l i -> x = y.
Proof.
  induction l as [|z l IH]; intros i x y Hx Hy; [contradiction|]. cbn [index_of].
  destruct (N.eqb_spec z x) as [Ex|Nx], (N.eqb_spec z y) as [Ey|Ny]; try congruence.
  - destruct Hy as [E|Hy]; [congruence|]. pose proof (index_of_range y l (i + 1)%N Hy). lia.
  - destruct Hx as [E|Hx]; [congruence|]. pose proof (index_of_range x l (i + 1)%N Hx). lia.
  - destruct Hx as [E|Hx]; [congruence|]. destruct Hy as [E|Hy]; [congruence|]. apply IH; auto.
Qed.

(** the numbering as ONE map on the shared namespace (possible exactly because species labels and reaction ids are disjoint) *)
Definition int_f (n : net) (x : N) : N := if memN x (nspecies n) then int_sp n x else int_rx n x.

Lemma sortN_length l : NoDup l -> length (sortN l) = length l.
Proof. intros H. apply Permutation_length. apply sortN_perm. exact H. Qed.

Lemma int_f_inj n : NoDup (nspecies n ++ map rid (nrxns n)) -> inj_on (int_f n) (nspecies n ++ map rid (nrxns n)).
Proof.
  intros Hnd x y Hx Hy. unfold int_f.
  assert (Hsp : forall z, In z (nspecies n) -> (1 <= int_sp n z <= N.of_nat (length (sortN (nspecies n))))%N).
  { intros z Hz. unfold int_sp. pose proof (index_of_range z (sortN (nspecies n)) 0%N (proj2 (sortN_in _ _) Hz)). lia. }
  assert (Hrx : forall z, (N.of_nat (length (sortN (nspecies n))) < int_rx n z)%N) by (intros z; unfold int_rx; lia).
  assert (Hcase : forall z, In z (nspecies n ++ map rid (nrxns n)) -> memN z (nspecies n) = false -> In z (map rid (nrxns n))).
  { intros z Hz Hm. apply in_app_or in Hz. destruct Hz as [Hz|Hz]; auto. apply memN_spec in Hz. congruence. }
  destruct (memN x (nspecies n)) eqn:Mx, (memN y (nspecies n)) eqn:My.
  - apply memN_spec in Mx, My. unfold int_sp. intros E.
    apply (index_of_inj (sortN (nspecies n)) 0%N); try (apply sortN_in; auto). lia.
  - apply memN_spec in Mx. intros E. pose proof (Hsp x Mx). pose proof (Hrx y). lia.
  - apply memN_spec in My. intros E. pose proof (Hsp y My). pose proof (Hrx x). lia.
  - unfold int_rx. intros E.
    apply (index_of_inj (sortN (map rid (nrxns n))) 0%N); try (apply sortN_in; auto). lia.
Qed.

Lemma intids_is_rename n : NoDup (nspecies n ++ map rid (nrxns n)) -> net_closed n -> intids_net n = rename_net (int_f n) n.
Proof.
  intros Hnd Hcl. unfold intids_net, rename_net. f_equal.
  - apply map_ext_in. intros s Hs. unfold int_f. apply memN_spec in Hs. rewrite Hs. reflexivity.
  - apply map_ext_in. intros r Hr. unfold rename_rxn. f_equal.
    + unfold int_f. destruct (memN (rid r) (nspecies n)) eqn:M; auto. apply memN_spec in M. exfalso.
      apply (NoDup_app_disj _ _ (rid r) Hnd M). apply in_map. exact Hr.
    + unfold int_side, rename_side. apply map_ext_in. intros sc Hsc. unfold int_f.
      assert (Hin : In (fst sc) (nspecies n)) by (apply (Hcl r Hr); apply in_or_app; auto).
      apply memN_spec in Hin. rewrite Hin. reflexivity.
    + unfold int_side, rename_side. apply map_ext_in. intros sc Hsc. unfold int_f.
      assert (Hin : In (fst sc) (nspecies n)) by (apply (Hcl r Hr); apply in_or_app; auto).
      apply memN_spec in Hin. rewrite Hin. reflexivity.
Qed.

(** an injective renaming of all names keeps a network inside the domain of the network theorems *)
Lemma arcs_of_rename st f n : arcs_of st (rename_net f n) = map (relab f) (arcs_of st n).
Proof.
  unfold arcs_of, rename_net. simpl. induction (nrxns n) as [|r l IH]; [reflexivity|]. simpl. rewrite map_app, IH. f_equal.
  unfold arcs_of_rxn, rename_rxn, rename_side, relab. simpl. rewrite !map_app, !map_map. reflexivity.
Qed.
Lemma net_ok_rename st f n : net_ok st n -> inj_on f (nspecies n ++ map rid (nrxns n)) -> net_ok st (rename_net f n).
Proof.
  intros (Hnd & Hcl & Ha) Hf. split; [|split].
  - unfold rename_net. simpl. rewrite map_map. change (map (fun x => rid (rename_rxn f x)) (nrxns n)) with (map (fun x => f (rid x)) (nrxns n)).
    rewrite <- (map_map rid f), <- map_app. apply NoDup_map_inj_on; auto.
  - intros r' Hr' sc' Hsc'. unfold rename_net in *. simpl in *. apply in_map_iff in Hr'. destruct Hr' as (r & <- & Hr).
    unfold rename_rxn, rename_side in Hsc'. simpl in Hsc'. rewrite <- map_app in Hsc'. apply in_map_iff in Hsc'.
    destruct Hsc' as (sc & <- & Hsc). simpl. apply in_map. apply (Hcl r Hr sc Hsc).
  - rewrite arcs_of_rename, map_map.
    assert (Hends : forall e, In e (arcs_of st n) -> In (asrc e) (nspecies n ++ map rid (nrxns n)) /\ In (adst e) (nspecies n ++ map rid (nrxns n))).
    { intros e He. unfold arcs_of in He. apply in_flat_map in He. destruct He as (r & Hr & He). unfold arcs_of_rxn in He.
      apply in_app_or in He. destruct He as [He|He]; apply in_map_iff in He; destruct He as (sc & <- & Hsc); unfold asrc, adst; simpl; split;
        apply in_or_app; try (right; apply in_map; exact Hr); left; apply (Hcl r Hr); apply in_or_app; auto. }
    change (fun x => akey (relab f x)) with (fun x : arc => (f (asrc x), f (adst x))).
    assert (G : forall l : list arc, (forall e, In e l -> In e (arcs_of st n)) -> NoDup (map akey l) -> NoDup (map (fun x : arc => (f (asrc x), f (adst x))) l)).
    { induction l as [|e l IH]; intros Hin Hn; [constructor|]. simpl in *. inversion Hn; subst. constructor; [|apply IH; auto].
      intros Hc. apply in_map_iff in Hc. destruct Hc as (e' & E & He'). inversion E as [[E1 E2]].
      destruct (Hends e (Hin e (or_introl eq_refl))) as [A1 A2]. destruct (Hends e' (Hin e' (or_intror He'))) as [B1 B2].
      apply Hf in E1; auto. apply Hf in E2; auto. apply H1. apply in_map_iff. exists e'. split; auto. unfold akey. congruence. }
    apply G; auto.
Qed.

(** integer_ids=True gives the identical canonical graph (bipartite view) *)
Theorem net_intids_canon st n lab p lab' p' :
  net_ok st n -> coeffs_ok n ->
  fst (canon_search (view true st n)) = Some (lab, p) ->
  fst (canon_search (view true st (intids_net n))) = Some (lab', p') ->
  lab' = lab /\ geq (canon_graph (view true st (intids_net n)) p') (canon_graph (view true st n) p).
Proof.
  intros Hn Hc Hb Hb'. pose proof Hn as (Hnd & Hcl & _).
  pose proof (int_f_inj n Hnd) as Hf. rewrite (intids_is_rename n Hnd Hcl) in *.
  apply (net_renamed_ids_bip st (int_f n) n lab p lab' p'); auto. apply net_ok_rename; auto.
Qed.
