(** C03 — [left_of_rcb] and [edges_closedb] of the rule prepared in the DEFAULT mode, from the template (templates whose
    atoms have the same element on both sides): the left graph of the prepared rule is the reactant side of its rule graph
    as far as matching goes, and every bond of the rule joins two of its atoms if that holds for the template.  With
    them the hypotheses of C03_its_list_instances_matcher that concern the rule are discharged from the template.
    Stdlib lists only. *)
From Coq Require Import List NArith ZArith Bool Lia.
From SK Require Import lib.Tok lib.LGraph model.C03_Model model.C03_Order model.C03_Reactor proof.C03_Proof proof.C03_Glue
                       proof.C03_Backward proof.C03_Skeleton proof.C03_StripCounts proof.C03_StripExact proof.C03_StripCor
                       proof.C03_ReactorSpec.
Import ListNotations.
Local Open Scope Z_scope.

Lemma Forall2_length' {A B} (R : A -> B -> Prop) l1 l2 : Forall2 R l1 l2 -> length l1 = length l2.
Proof. induction 1; simpl; congruence. Qed.

Lemma filter_map_len {A B} (f : A -> B) (p : B -> bool) (q : A -> bool) l :
  (forall x, p (f x) = q x) -> length (filter p (map f l)) = length (filter q l).
Proof. intros H. induction l as [|x r IH]; simpl; [reflexivity|]. rewrite H. destruct (q x); simpl; congruence. Qed.

Theorem default_left_of_rcb (tpl rc : its) (l r : molg) :
  nodupb (node_ids tpl) = true -> (forall k a, In (k, a) (gnodes tpl) -> a_el (iH a) = a_el (iG a)) ->
  synrule tpl true = Some (rc, l, r) -> left_of_rcb rc l = true.
Proof.
  intros Hnd0 Hel H. pose proof (nodupb_NoDup _ Hnd0) as Hnd.
  destruct (synrule_default_exact tpl rc l r Hnd0 Hel H) as (R & Memb & (KK & Erc) & (LL & El) & _ & Fc).
  unfold left_of_rcb. apply andb_true_intro. split; [apply andb_true_intro; split|].
  - apply Nat.eqb_eq. rewrite (Forall2_length' _ _ _ KK), (Forall2_length' _ _ _ LL), side0_nodes_G.
    apply filter_map_len. intros [k a]. reflexivity.
  - apply forallb_forall. intros [k a] I. unfold node_same. cbn [fst snd].
    destruct (Fc k a I) as (la & ra & Ll & _ & Hg & _). rewrite Ll.
    (* the template atom behind (k, a) and behind (k, la) *)
    destruct (Forall2_in_l _ _ _ _ KK I) as ([k0 a0] & I0 & (E1 & E2 & _)). cbn [fst snd] in *. subst k0.
    apply filter_In in I0. destruct I0 as [I0 _].
    unfold label in Ll. apply assoc_in in Ll.
    destruct (Forall2_in_l _ _ _ _ LL Ll) as ([k1 q] & I1 & (F1 & F2 & _ & F4 & _)). cbn [fst snd] in *. subst k1.
    apply filter_In in I1. destruct I1 as [I1 _]. rewrite side0_nodes_G in I1. apply in_map_iff in I1.
    destruct I1 as ([k2 a2] & Eq & I2). cbn [fst snd] in Eq. inversion Eq; subst k2 q. clear Eq.
    assert (a2 = a0).
    { pose proof (assoc_nodup_in k (gnodes tpl) a2 Hnd I2) as A2. pose proof (assoc_nodup_in k (gnodes tpl) a0 Hnd I0) as A0. congruence. }
    subst a2. cbn [n0 m_el m_ch] in F2, F4.
    assert (Ee : a_el (iG a) = a_el (iG a0)) by (destruct (iG a), (iG a0); inversion E2; reflexivity).
    assert (Eq : a_ch (iG a) = a_ch (iG a0)) by (destruct (iG a), (iG a0); inversion E2; reflexivity).
    rewrite F2, F4, Ee, Eq, Hg, N.eqb_refl, !Z.eqb_refl. reflexivity.
  - apply forallb_forall. intros [[u v] x] I. unfold edge_same. cbn [fst snd]. destruct (0 <? eG x) eqn:Ep; [|reflexivity].
    rewrite Erc in I. apply filter_In in I. destruct I as [I Hk]. unfold keepe in Hk. cbn [fst snd] in Hk.
    apply existsb_exists. exists (u, v, eG x). split.
    + rewrite El. apply filter_In. split.
      * rewrite side0_edges. apply in_flat_map. exists (u, v, x). split; [exact I|]. rewrite Ep. left. reflexivity.
      * unfold mkeepe. cbn [fst snd]. exact Hk.
    + cbn [fst snd]. unfold peq. rewrite !N.eqb_refl, Z.eqb_refl. reflexivity.
Qed.

Theorem default_edges_closedb (tpl rc : its) (l r : molg) :
  nodupb (node_ids tpl) = true -> (forall k a, In (k, a) (gnodes tpl) -> a_el (iH a) = a_el (iG a)) ->
  synrule tpl true = Some (rc, l, r) -> edges_closedb tpl = true -> edges_closedb rc = true.
Proof.
  intros Hnd0 Hel H Hc.
  destruct (synrule_default_pointwise tpl rc l r Hnd0 Hel H) as (R & _ & _ & Eids & _ & _ & _ & Erc & _).
  unfold edges_closedb in *. rewrite forallb_forall in Hc. apply forallb_forall. intros [[u v] x] I.
  rewrite Erc in I. apply filter_In in I. destruct I as [I Hk]. specialize (Hc _ I). cbn [fst snd] in *.
  unfold keepe in Hk. cbn [fst snd] in Hk. apply andb_prop in Hk. destruct Hk as [Hu Hv].
  apply andb_prop in Hc. destruct Hc as [Cu Cv]. apply mem_spec in Cu, Cv.
  rewrite Eids. apply andb_true_intro. split; apply mem_spec; apply filter_In; auto.
Qed.

(** well-formedness of the prepared rule from the template's *)
Lemma NoDup_nodupb' l : NoDup l -> nodupb l = true.
Proof.
  induction 1 as [|x r Hx _ IH]; [reflexivity|]. cbn [nodupb]. rewrite IH, andb_true_r.
  destruct (mem x r) eqn:E; [apply mem_spec in E; contradiction|reflexivity].
Qed.
Lemma existsb_filter_false {A} (p q : A -> bool) l : existsb p l = false -> existsb p (filter q l) = false.
Proof.
  induction l as [|x r IH]; simpl; intros H; [reflexivity|]. apply orb_false_elim in H. destruct H as [H1 H2].
  destruct (q x); simpl; [rewrite H1|]; auto.
Qed.
Lemma simple_edgesb_filter {B} (q : N * N * B -> bool) (es : list (N * N * B)) :
  simple_edgesb es = true -> simple_edgesb (filter q es) = true.
Proof.
  induction es as [|[[a b] x] r IH]; [reflexivity|]. cbn [simple_edgesb filter]. intros H.
  apply andb_prop in H. destruct H as [H H3]. apply andb_prop in H. destruct H as [H1 H2].
  destruct (q (a, b, x)); [|exact (IH H3)]. cbn [simple_edgesb]. rewrite H1, (IH H3), andb_true_r. cbn [andb].
  apply negb_true_iff in H2. apply negb_true_iff. exact (existsb_filter_false _ q r H2).
Qed.
Lemma forallb_filter {A} (p q : A -> bool) l : forallb p l = true -> forallb p (filter q l) = true.
Proof.
  induction l as [|x r IH]; simpl; intros H; [reflexivity|]. apply andb_prop in H. destruct H as [H1 H2].
  destruct (q x); simpl; [rewrite H1|]; auto.
Qed.

Theorem default_wf_rcb (tpl rc : its) (l r : molg) :
  (forall k a, In (k, a) (gnodes tpl) -> a_el (iH a) = a_el (iG a)) ->
  synrule tpl true = Some (rc, l, r) -> wf_rcb tpl = true -> wf_rcb rc = true.
Proof.
  intros Hel H Hw. unfold wf_rcb in Hw. apply andb_prop in Hw. destruct Hw as [Hw W3]. apply andb_prop in Hw. destruct Hw as [W1 W2].
  destruct (synrule_default_pointwise tpl rc l r W1 Hel H) as (R & _ & _ & _ & _ & _ & Nrc & Erc & _).
  unfold wf_rcb. rewrite (NoDup_nodupb' _ Nrc), Erc, (simple_edgesb_filter _ _ W2), (forallb_filter _ _ _ W3). reflexivity.
Qed.

(** all hypotheses of C03_its_list_instances_matcher that concern the RULE, from the template, in the default mode *)
Theorem default_rule_hyps (tpl rc : its) (l r : molg) :
  (forall k a, In (k, a) (gnodes tpl) -> a_el (iH a) = a_el (iG a)) ->
  wf_rcb tpl = true -> edges_closedb tpl = true -> synrule tpl true = Some (rc, l, r) ->
  wf_rcb rc = true /\ edges_closedb rc = true /\ left_of_rcb rc l = true.
Proof.
  intros Hel Hw Hc H.
  assert (Hnd : nodupb (node_ids tpl) = true).
  { unfold wf_rcb in Hw. apply andb_prop in Hw. destruct Hw as [Hw _]. apply andb_prop in Hw. exact (proj1 Hw). }
  split; [exact (default_wf_rcb tpl rc l r Hel H Hw)|]. split; [exact (default_edges_closedb tpl rc l r Hnd Hel H Hc)|].
  exact (default_left_of_rcb tpl rc l r Hnd Hel H).
Qed.

(** * the default mode end to end, hypotheses on the TEMPLATE, the SUBSTRATE and the MATCHER'S CONTRACT only *)
From SK Require Import proof.C03_DefaultEnd proof.C03_Capstone.
Theorem its_list_default_end_to_end inp tpl rc l r gs :
  i_rule inp = synrule tpl true -> synrule tpl true = Some (rc, l, r) ->
  (forall k a, In (k, a) (gnodes tpl) -> a_el (iH a) = a_el (iG a)) ->
  wf_rcb tpl = true -> edges_closedb tpl = true -> tpl_condition tpl ->
  wf_hostb (i_host inp) = true -> forallb (call_okm (i_host inp) l) (i_calls inp) = true ->
  spec_its inp = Some gs ->
  forall g, In g gs ->
    instance_of (i_host inp) rc g /\
    (forall e, elem_count e (fst (its_decompose g)) = elem_count e (snd (its_decompose g))) /\
    total_charge (fst (its_decompose g)) = total_charge (snd (its_decompose g)).
Proof.
  intros Ei Es Hel Hw Hc Hcond Hwh Hcalls Hits g Ig. rewrite Es in Ei.
  destruct (default_rule_hyps tpl rc l r Hel Hw Hc Es) as (R1 & R2 & R3).
  assert (Hm : matcher_hyps_okb (i_rule inp) (i_host inp) (i_calls inp) = true).
  { rewrite Ei. unfold matcher_hyps_okb. rewrite Hwh, R1, R2, R3, Hcalls. reflexivity. }
  pose proof (its_list_sound_matcher inp rc l r gs Ei Hm Hits g Ig) as Hi. split; [exact Hi|].
  destruct Hi as (hb & m & T & tbl & _ & _ & _ & _ & _ & _ & _ & _ & _ & A4 & _).
  assert (Hnd : nodupb (node_ids tpl) = true /\ simple_edgesb (gedges tpl) = true).
  { unfold wf_rcb in Hw. apply andb_prop in Hw. destruct Hw as [Hw _]. apply andb_prop in Hw. exact Hw. }
  exact (A4 (default_rule_balanced tpl rc l r (proj1 Hnd) Hel (proj2 Hnd) Es Hcond)).
Qed.
