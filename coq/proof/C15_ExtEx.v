(** C15 (round 3) — non-vacuity of the theorems about the extended history
    language: one concrete history that exercises every new kind of op, and the
    facts the theorems speak about evaluated on it. *)
From stdpp Require Import gmap strings sets pretty sorting.
From SK Require Import lib.Tok model.C15_Model model.C15_Ext proof.C15_Proof proof.C15_Ext proof.C15_ExtQ.
Local Open Scope string_scope.

Local Instance qerr_eq_dec : EqDecision qerr.
Proof. solve_decision. Defined.
Local Instance err_eq_dec2 : EqDecision err.
Proof. solve_decision. Defined.

Definition ex2_ops : list op2 :=
  [ OAddItems 0 [IPair "A" 1; ILabel "r_2"; ILabel ""; IPair "A" 2; IPair "Q" (-1)] [ILabel "B"; ILabel "B"] "" None;
    OBase (OAdd 0 [("B", 1%Z)] [("C", 1%Z); ("x", 1%Z)] "q" (Some "x"));
    OBase (OSetMolMap 0 [("A", "9"); ("r_1", "e"); ("B", ""); ("A", "0")] false false);
    OPoolNew 0 [ILabel "C"];
    OPoolNew 1 [IPair "A" 2];
    OAddPool 0 0 1 "r" None;
    OPoolEdit 0 "Z" 5;
    OSideSet 0 "r_1" true "A" 7;
    OSideSet 0 "r_1" true "Q" 7;
    OAddFrom 1 0 "x" "r" None;
    OMergeRaw 1 [(None, "", [ILabel "x"], [IPair "D" 2]); (Some "r_1", "r", [ILabel "D"], [])] false;
    OQuery 0 (QPaths "C" "B" 4 None);
    OBase (ORemoveSpecies 0 "B" true) ].

Definition ex2_w0 : world2 := fold_left (λ w o, (step2 w o).1.1) (take 12 ex2_ops) (init_world2 2 2).
Definition ex2_w : world2 := fold_left (λ w o, (step2 w o).1.1) ex2_ops (init_world2 2 2).
Definition ex2_n0 : net := getn (nets ex2_w0) 0.
Definition ex2_n0' : net := getn (nets ex2_w) 0.
Definition ex2_n1 : net := getn (nets ex2_w) 1.

Example C15_ext_inv_nonvacuous : Forall Inv (nets ex2_w) ∧ Forall Inv (nets ex2_w0).
Proof. split; apply run2_Inv, init_world_Inv. Qed.

(** input forms, generated ids next to look-alike names, labels (later entry
    wins, falsy values kept, the reaction id r_1 never labelled), caller-held
    objects edited after the call, coefficient edit (and a refused key-set
    edit), sides taken from another network, duck-typed merge *)
Example C15_ext_state_nonvacuous :
  order ex2_n0 = ["r_1"; "x"; "r_2"] ∧
  (r_lhs <$> edges ex2_n0 !! "r_1") = Some {[ "A" := 7%positive; "r_2" := 1%positive ]} ∧
  (r_rhs <$> edges ex2_n0 !! "r_1") = Some {[ "B" := 2%positive ]} ∧
  (r_lhs <$> edges ex2_n0 !! "r_2") = Some {[ "C" := 1%positive ]} ∧
  pool ex2_w0 = [ {[ "C" := 1%positive; "Z" := 5%positive ]}; {[ "A" := 2%positive ]} ] ∧
  mol ex2_n0 = {[ "A" := "0"; "B" := "" ]} ∧
  get_mol ex2_n0 "A" = inr "0" ∧ get_mol ex2_n0 "B" = inr "" ∧
  get_mol ex2_n0 "r_1" = inl QKeyError ∧ get_mol ex2_n0 "C" = inl QNoLabel ∧
  contains ex2_n0 "r_1" = true ∧ contains ex2_n0 "r_2" = true ∧ contains ex2_n0 "Q" = false ∧
  len ex2_n0 = 3%nat ∧
  order ex2_n1 = ["r_1"; "_1"; "r_2"] ∧
  (r_rhs <$> edges ex2_n1 !! "_1") = Some {[ "D" := 2%positive ]} ∧
  (r_rule <$> edges ex2_n1 !! "_1") = Some "r".
Proof. split_and!; apply (bool_decide_unpack _); vm_compute; exact Logic.I. Qed.

Example C15_ext_queries_nonvacuous :
  species_list ex2_n0 = ["A"; "B"; "C"; "r_2"; "x"] ∧
  edge_ids_sorted ex2_n0 = ["r_1"; "r_2"; "x"] ∧
  neighbors ex2_n0 "B" = inr {[ "C"; "x" ]} ∧
  neighbors ex2_n0 "r_1" = inl QKeyError ∧
  paths ex2_n0 "C" "B" 4 None = inr [["C"; "A"; "B"]] ∧
  paths ex2_n0 "C" "B" 1 None = inr [] ∧
  paths ex2_n0 "B" "B" 0 (Some 0%Z) = inr [["B"]] ∧
  paths ex2_n0 "B" "x" 4 (Some 5%Z) = inr [["B"; "x"]] ∧
  dense ex2_n0 = Some [ [(-7)%Z; 2%Z; 0%Z]; [2%Z; 0%Z; (-1)%Z]; [0%Z; (-1)%Z; 1%Z]; [(-1)%Z; 0%Z; 0%Z]; [0%Z; 0%Z; 1%Z] ].
Proof. split_and!; apply (bool_decide_unpack _); vm_compute; exact Logic.I. Qed.

(** after remove_species the copy of x's sides held by network 1 is untouched *)
Example C15_ext_independent_nonvacuous :
  species ex2_n0' = {[ "A"; "C"; "r_2"; "x" ]} ∧ mol ex2_n0' = {[ "A" := "0" ]} ∧
  (r_lhs <$> edges ex2_n0' !! "x") = Some ∅ ∧
  (r_lhs <$> edges ex2_n1 !! "r_1") = Some {[ "B" := 1%positive ]}.
Proof. split_and!; apply (bool_decide_unpack _); vm_compute; exact Logic.I. Qed.

(** the hypotheses of set_mol_map_absent / set_mol_map_present are inhabited *)
Definition ex2_pre : net := getn (nets (fold_left (λ w o, (step2 w o).1.1) (take 2 ex2_ops) (init_world2 2 2))) 0.
Example C15_ext_labels_nonvacuous :
  is_Some (edges ex2_pre !! "r_1") ∧ "r_1" ∉ species ex2_pre ∧
  (set_mol_map ex2_pre [("A", "9"); ("r_1", "e")] true false).2 = Some KeyError ∧
  (set_mol_map ex2_pre [("A", "9"); ("r_1", "e")] false false).2 = None ∧
  mol (set_mol_map ex2_pre [("A", "9"); ("r_1", "e")] false false).1 = {[ "A" := "9" ]} ∧
  (assign_mol ex2_pre "r_1" "e").2 = Some KeyError ∧
  (assign_mol ex2_pre "x" "").2 = None.
Proof. split_and!; apply (bool_decide_unpack _); vm_compute; exact Logic.I. Qed.

Example C15_ext_normalize_nonvacuous :
  normalize_items [IPair "A" 1; ILabel "r_2"; ILabel ""; IPair "A" 2; IPair "Q" (-1); IPair "" 3; IPair "Z" 0] =
  {[ "A" := 3%positive; "r_2" := 1%positive; "" := 3%positive ]}.
Proof. apply (bool_decide_unpack _); vm_compute; exact Logic.I. Qed.

(** the premise of the two paths theorems is inhabited: C -> A -> B is a chain *)
Local Instance rxn_eq_dec : EqDecision rxn.
Proof. solve_decision. Defined.
Definition ex2_r1 : rxn := default (Rxn "" ∅ ∅) (edges ex2_n0 !! "r_1").
Definition ex2_r2 : rxn := default (Rxn "" ∅ ∅) (edges ex2_n0 !! "r_2").
Example C15_ext_rpath_nonvacuous : rpath ex2_n0 "C" ["B"; "A"; "C"].
Proof.
  assert (H1 : edges ex2_n0 !! "r_1" = Some ex2_r1) by (apply (bool_decide_unpack _); vm_compute; exact Logic.I).
  assert (H2 : edges ex2_n0 !! "r_2" = Some ex2_r2) by (apply (bool_decide_unpack _); vm_compute; exact Logic.I).
  apply rp_step; [apply rp_step; [apply rp_src| |]| |].
  - exists "r_2", ex2_r2. split; [exact H2|]. split; apply (bool_decide_unpack _); vm_compute; exact Logic.I.
  - apply (bool_decide_unpack _); vm_compute; exact Logic.I.
  - exists "r_1", ex2_r1. split; [exact H1|]. split; apply (bool_decide_unpack _); vm_compute; exact Logic.I.
  - apply (bool_decide_unpack _); vm_compute; exact Logic.I.
Qed.

(** duck-typed merge: a missing id and a taken id are regenerated (from the RAW
    rule), an edge that normalises to nothing stops the merge with ValueError
    after the edges before it were merged *)
Definition ex2_raw_ok : list raw_edge :=
  [ (None, "", [ILabel "x"], [IPair "D" 2]); (Some "r_1", "r", [ILabel "D"], []); (Some "k", "q", [ILabel "D"], [ILabel "D"]) ].
Definition ex2_raw_bad : list raw_edge :=
  [ (Some "k", "q", [ILabel "D"], []); (Some "k2", "r", [IPair "A" 0], [ILabel ""]); (Some "k3", "q", [ILabel "D"], []) ].
Example C15_ext_merge_raw_nonvacuous :
  (merge_raw ex2_pre ex2_raw_ok false).2 = None ∧
  order (merge_raw ex2_pre ex2_raw_ok false).1 = ["r_1"; "x"; "_1"; "r_2"; "k"] ∧
  order (merge_raw ex2_pre ex2_raw_ok true).1 = ["r_1"; "x"; "_1"; "r_2"; "q_1"] ∧
  (merge_raw ex2_pre ex2_raw_bad false).2 = Some ValueError ∧
  order (merge_raw ex2_pre ex2_raw_bad false).1 = ["r_1"; "x"; "k"].
Proof. split_and!; apply (bool_decide_unpack _); vm_compute; exact Logic.I. Qed.
