(** C08 — equivariance of the nauty search of the model: if [h] is, on the covered attributes, the graph [g]
    renumbered by an injective [pi] (any insertion order, edge orientation, atom maps), then every ingredient of the
    search is related ([attr_rel], [sigN_rel], [init_rel], [nlabel_rel]), the leaf enumerations correspond up to
    order (IRCore / C08_IR [leaves2_rel]) and the minimal label is the same ([nauty_label_rel]). *)
From Coq Require Import List NArith ZArith Bool Arith Lia Permutation.
From SK Require Import lib.LGraph lib.IRSortKeys lib.IRCore lib.IRSearch lib.StrJoin.
From SK Require Import model.C08_Model proof.C08_Spec proof.C08_Sort proof.C08_Faithful proof.C08_Cov proof.C08_SigFun
                       proof.C08_Render proof.C08_IR proof.C08_Nauty.
From SK Require lib.IRInst.
Import ListNotations.

(* ---------------- lookups through the covered view ---------------- *)
Lemma assoc_map_snd {V W} (f : V -> W) k (l : list (N * V)) :
  assoc k (map (fun p => (fst p, f (snd p))) l) = option_map f (assoc k l).
Proof. induction l as [|[k' v] l IH]; simpl; auto. destruct (N.eqb k k'); auto. Qed.
Lemma assoc_none {V} k (l : list (N * V)) : assoc k l = None <-> ~ In k (map fst l).
Proof.
  induction l as [|[k' v] l IH]; simpl; [tauto|].
  destruct (N.eqb_spec k k') as [->|Hne]; [split; [discriminate|intros H; exfalso; apply H; auto]|].
  rewrite IH. split; intros H; [intros [E|I]; [congruence|auto]|intro I; apply H; auto].
Qed.
Lemma assoc_perm {V} k (l l' : list (N * V)) : NoDup (map fst l) -> Permutation l l' -> assoc k l = assoc k l'.
Proof.
  intros Hnd Hp. destruct (assoc k l) as [v|] eqn:E.
  - symmetry. apply assoc_nodup_in.
    + eapply Permutation_NoDup; [apply Permutation_map; exact Hp|exact Hnd].
    + apply (Permutation_in _ Hp). apply assoc_in. exact E.
  - symmetry. apply assoc_none. apply assoc_none in E. intro I. apply E.
    apply (Permutation_in _ (Permutation_sym (Permutation_map fst Hp))). exact I.
Qed.

Definition dflt : nattr := NA [] false 0 0 None.
Lemma ncov_attr_cov (g : graph) v :
  ncov (attr_of g v) = match assoc v (cov_nodes g) with Some c => c | None => ncov dflt end.
Proof.
  unfold attr_of, label, cov_nodes, covn. rewrite (assoc_map_snd ncov). destruct (assoc v (gnodes g)); reflexivity.
Qed.
Lemma ncov_attr_geq_cov g h v : NoDup (node_ids g) -> geq_cov g h -> ncov (attr_of g v) = ncov (attr_of h v).
Proof.
  intros Hnd [H _]. rewrite !ncov_attr_cov. rewrite (assoc_perm v (cov_nodes g) (cov_nodes h)); auto.
  rewrite <- node_ids_cov. exact Hnd.
Qed.

(* adjacency through the covered edge list *)
Definition ckey (u v : N) (c : N * N * ecv) : bool :=
  N.eqb (fst (fst c)) (N.min u v) && N.eqb (snd (fst c)) (N.max u v).
Definition clook (u v : N) (l : list (N * N * ecv)) : option ecv :=
  option_map snd (find (ckey u v) l).
Lemma ckey_cove u v a b x :
  ckey u v (cove (a, b, x)) = (N.eqb a u && N.eqb b v) || (N.eqb a v && N.eqb b u).
Proof.
  unfold ckey, cove. cbn [fst snd].
  destruct (N.eqb_spec a u), (N.eqb_spec b v), (N.eqb_spec a v), (N.eqb_spec b u),
           (N.eqb_spec (N.min a b) (N.min u v)), (N.eqb_spec (N.max a b) (N.max u v)); simpl; auto; lia.
Qed.
Lemma adj_cov (g : graph) u v : option_map ecov (adj g u v) = clook u v (cov_edges g).
Proof.
  unfold adj, clook, cov_edges. induction (gedges g) as [|[[a b] x] l IH]; [reflexivity|].
  cbn [map find find_edge]. rewrite ckey_cove.
  destruct ((N.eqb a u && N.eqb b v) || (N.eqb a v && N.eqb b u)); [reflexivity|exact IH].
Qed.
Lemma clook_perm u v l l' : NoDup (map fst l) -> Permutation l l' -> clook u v l = clook u v l'.
Proof.
  intros Hnd Hp. unfold clook.
  assert (Hnd' : NoDup (map fst l')) by (eapply Permutation_NoDup; [apply Permutation_map; exact Hp|exact Hnd]).
  assert (K : forall c d, ckey u v c = true -> ckey u v d = true -> fst c = fst d).
  { intros [[a b] x] [[a' b'] y]. unfold ckey. cbn [fst snd]. intros H1 H2.
    apply andb_prop in H1, H2. destruct H1 as [A1 A2], H2 as [B1 B2]. apply N.eqb_eq in A1, A2, B1, B2. congruence. }
  destruct (find (ckey u v) l) as [c|] eqn:E.
  - apply find_some in E. destruct E as [I Hk].
    destruct (find (ckey u v) l') as [d|] eqn:E'.
    + apply find_some in E'. destruct E' as [I' Hk']. f_equal. f_equal.
      apply (NoDup_map_key_inj fst l' Hnd'); auto. apply (Permutation_in _ Hp). exact I.
    + exfalso. pose proof (find_none _ _ E' c (Permutation_in _ Hp I)) as H. congruence.
  - destruct (find (ckey u v) l') as [d|] eqn:E'; auto.
    apply find_some in E'. destruct E' as [I' Hk']. exfalso.
    pose proof (find_none _ _ E d (Permutation_in _ (Permutation_sym Hp) I')) as H. congruence.
Qed.
Lemma adj_geq_cov g h u v : simple g -> geq_cov g h -> option_map ecov (adj g u v) = option_map ecov (adj h u v).
Proof. intros [_ Hs] [_ H]. rewrite !adj_cov. apply clook_perm; auto. Qed.

(* ---------------- literal relabelling by an injective map ---------------- *)
Section Rel.
Variable pi : N -> N.
Hypothesis pi_inj : forall x y, pi x = pi y -> x = y.

Lemma eqb_pi x y : N.eqb (pi x) (pi y) = N.eqb x y.
Proof.
  destruct (N.eqb_spec x y) as [->|H]; [apply N.eqb_refl|].
  apply N.eqb_neq. intro E. apply H. apply pi_inj. exact E.
Qed.
Lemma attr_relabel (g : graph) v : attr_of (relabel pi g) (pi v) = attr_of g v.
Proof.
  unfold attr_of, label, relabel. cbn [gnodes]. induction (gnodes g) as [|[n a] l IH]; simpl; auto.
  rewrite eqb_pi. destruct (N.eqb v n); auto.
Qed.
Lemma adj_relabel (g : graph) u v : adj (relabel pi g) (pi u) (pi v) = adj g u v.
Proof.
  unfold adj, relabel. cbn [gedges]. induction (gedges g) as [|[[a b] x] l IH]; simpl; auto.
  rewrite !eqb_pi, IH. reflexivity.
Qed.
Lemma inc_relabel (g : graph) v : inc (relabel pi g) (pi v) = map (fun p => (pi (fst p), snd p)) (inc g v).
Proof.
  rewrite !inc_flat. unfold relabel. cbn [gedges]. induction (gedges g) as [|[[a b] x] l IH]; simpl; auto.
  rewrite map_app, <- IH. f_equal. rewrite !eqb_pi. destruct (N.eqb a v), (N.eqb b v); reflexivity.
Qed.

Variables g h : graph.
Hypothesis Hg : wf g.
Hypothesis Hq : geq_cov (relabel pi g) h.

Lemma pi_inj_on : C08_Spec.inj_on pi (node_ids g).
Proof. intros x y _ _. apply pi_inj. Qed.
Lemma simple_pig : simple (relabel pi g).
Proof. apply simple_relabel; [exact Hg|apply pi_inj_on]. Qed.

Lemma attr_rel v : ncov (attr_of h (pi v)) = ncov (attr_of g v).
Proof. rewrite <- (ncov_attr_geq_cov _ _ _ (proj1 simple_pig) Hq). rewrite attr_relabel. reflexivity. Qed.
Lemma adj_rel u v : option_map ecov (adj h (pi u) (pi v)) = option_map ecov (adj g u v).
Proof. rewrite <- (adj_geq_cov _ _ _ _ simple_pig Hq). rewrite adj_relabel. reflexivity. Qed.
Lemma inc_rel v : Permutation (map ce (inc h (pi v))) (map (fun p => (pi (fst p), snd p)) (map ce (inc g v))).
Proof.
  eapply perm_trans; [apply Permutation_sym, (inc_geq_cov _ _ (pi v) Hq)|].
  rewrite inc_relabel, !map_map. apply Permutation_refl.
Qed.

(* codes are functions of the covered values *)
Definition AC (c : list N * Z * bool * Z) : list Z := let '(e, c0, a, h0) := c in enc_str e ++ [b2z a; c0; h0].
Lemma acode_cov (k : graph) v : acode k v = AC (ncov (attr_of k v)).
Proof. unfold acode, AC, ncov. destruct (attr_of k v). reflexivity. Qed.
Lemma acode_rel v : acode h (pi v) = acode g v.
Proof. rewrite !acode_cov, attr_rel. reflexivity. Qed.
Lemma node_str_rel v : node_str h (pi v) = node_str g v.
Proof. rewrite !node_str_cov, attr_rel. reflexivity. Qed.
Lemma edge_bit_rel ab : edge_bit h (pi (fst ab), pi (snd ab)) = edge_bit g ab.
Proof. rewrite !edge_bit_cov. cbn [fst snd]. rewrite adj_rel. reflexivity. Qed.

Lemma degree_rel v : degree h (pi v) = degree g v.
Proof.
  unfold degree. f_equal. pose proof (Permutation_length (inc_rel v)) as E. rewrite !map_length in E. exact E.
Qed.

Definition EC (x : ecv) : list Z :=
  let '(o, t, s) := x in
  match t with
  | None => [o; (match s with Some _ => 1 | None => 0 end)%Z; sd0 s]
  | Some b => [Z.min o b; Z.max o b; (match s with Some _ => 1 | None => 0 end)%Z; sd0 s]
  end.
Lemma ecode_cov a : ecode a = EC (ecov a).
Proof. destruct a as [o [s|] [t|]]; reflexivity. Qed.

Lemma cnt_perm c ns ns' : Permutation ns ns' -> IRInst.cnt c ns = IRInst.cnt c ns'.
Proof. intros H. unfold IRInst.cnt. f_equal. apply Permutation_length. apply Permutation_filter. exact H. Qed.

Lemma nbrs_rel v : Permutation (map fst (inc h (pi v))) (map pi (map fst (inc g v))).
Proof.
  pose proof (Permutation_map fst (inc_rel v)) as H. rewrite !map_map in H. cbn [fst ce] in H.
  rewrite map_map. exact H.
Qed.
Lemma ecodes_rel v : Permutation (map (fun p => ecode (snd p)) (inc h (pi v))) (map (fun p => ecode (snd p)) (inc g v)).
Proof.
  pose proof (Permutation_map (fun p : N * ecv => EC (snd p)) (inc_rel v)) as H. rewrite !map_map in H. cbn [snd ce] in H.
  rewrite (map_ext (fun p => ecode (snd p)) (fun p => EC (ecov (snd p)))) by (intros; apply ecode_cov).
  exact H.
Qed.

Theorem sigN_rel P P' v : partR pi P P' -> sigN h P' (pi v) = sigN g P v.
Proof.
  intros HP. unfold sigN. rewrite acode_rel, degree_rel. f_equal. f_equal. f_equal.
  - induction HP as [|c c' P P' Hc HP IH]; simpl; auto. f_equal; auto.
    rewrite (cnt_perm c' _ _ (nbrs_rel v)). apply IRInst.cnt_rel; auto.
  - f_equal. apply sort_by_perm_eq; [apply ecodes_rel|]. intros x y _ _ E. exact E.
Qed.

(* ---------------- initial partition ---------------- *)
Lemma ids_rel : Permutation (map pi (node_ids g)) (node_ids h).
Proof. rewrite <- node_ids_relabel. apply geq_cov_ids. exact Hq. Qed.
Lemma nnodes_rel : length (gnodes h) = length (gnodes g).
Proof. rewrite <- (geq_cov_length _ _ Hq). unfold relabel. cbn [gnodes]. apply map_length. Qed.

Theorem init_rel : partR pi (init_partition g) (init_partition h).
Proof.
  unfold init_partition. pose proof nnodes_rel as Hl.
  destruct (gnodes g) as [|p l] eqn:Eg, (gnodes h) as [|p' l'] eqn:Eh; try discriminate; [constructor|].
  apply (@split_rel (list Z) lexleb IRInst.lexleb_total IRInst.lexleb_trans IRInst.lexleb_antisym pi
           (fun _ v => acode g v) (fun _ v => acode h v)).
  - intros _ _ v _. apply acode_rel.
  - constructor.
  - unfold cellR. eapply perm_trans; [apply Permutation_map; apply sorted_ids_perm|].
    eapply perm_trans; [apply ids_rel|]. apply Permutation_sym, sorted_ids_perm.
Qed.

(* ---------------- labels ---------------- *)
Lemma pairs_map (p : list N) : pairs (map pi p) = map (fun ab => (pi (fst ab), pi (snd ab))) (pairs p).
Proof.
  induction p as [|x p IH]; simpl; auto. rewrite map_app, IH, !map_map. reflexivity.
Qed.
Theorem nlabel_rel p : nlabel h (map pi p) = nlabel g p.
Proof.
  unfold nlabel, node_seg. rewrite pairs_map, !map_map.
  rewrite (map_ext (fun x => node_str h (pi x)) (node_str g)) by apply node_str_rel.
  rewrite (map_ext (fun x => edge_bit h (pi (fst x), pi (snd x))) (edge_bit g)) by apply edge_bit_rel.
  reflexivity.
Qed.

(* ---------------- leaves and the minimal label ---------------- *)
Lemma fuel_rel : rfuel h = rfuel g /\ sfuel h = sfuel g.
Proof. unfold rfuel, sfuel. rewrite nnodes_rel. auto. Qed.

Theorem leaves_rel : Permutation (map (map pi) (leaves2 _ lexleb (sigN g) (rfuel g) (children g) (sfuel g) (init_partition g) []))
                                 (leaves2 _ lexleb (sigN h) (rfuel h) (children h) (sfuel h) (init_partition h) []).
Proof.
  destruct fuel_rel as [-> ->].
  apply (leaves2_rel _ lexleb IRInst.lexleb_total IRInst.lexleb_trans IRInst.lexleb_antisym pi pi_inj (sigN g) (sigN h)
           sigN_rel (children g) (children h) (children_perm g) (children_perm h) (rfuel g) (sfuel g)
           (init_partition g) (init_partition h) [] init_rel).
Qed.

Lemma nauty_label_fold (k : graph) :
  nauty_label k = fold_left (minl strleb) (map (nlabel k) (leaves2 _ lexleb (sigN k) (rfuel k) (children k) (sfuel k) (init_partition k) [])) None.
Proof.
  unfold nauty_label, nauty_acc. rewrite nsearch_is_fold.
  exact (best_label_fold strleb (nlabel k) _ (None, [])).
Qed.

Theorem nauty_label_rel : nauty_label h = nauty_label g.
Proof.
  rewrite !nauty_label_fold.
  apply (fold_minl_perm strleb strleb_total strleb_trans strleb_antisym).
  eapply perm_trans; [apply Permutation_map; apply Permutation_sym; apply leaves_rel|].
  rewrite map_map. rewrite (map_ext (fun x => nlabel h (map pi x)) (nlabel g)) by apply nlabel_rel.
  apply Permutation_refl.
Qed.
End Rel.

Print Assumptions nauty_label_rel.
