(** C19 — the decimal printer of model/C19_Text.v: reading the digits back gives the number (so equal texts mean equal numbers). *)
From Coq Require Import String List NArith ZArith Bool Arith Lia.
From SK Require Import model.C17_Model model.C19_Model model.C19_Text.
Import ListNotations.
Local Open Scope N_scope.

Definition val (s : str) : N := fold_left (fun a d => a * 10 + (d - 48)) s 0.
Definition val_Z (s : str) : Z := match s with 45 :: t => (- Z.of_N (val t))%Z | _ => Z.of_N (val s) end.

Lemma fold_val s : forall a, fold_left (fun a d => a * 10 + (d - 48)) s a = a * 10 ^ N.of_nat (length s) + val s.
Proof.
  unfold val. induction s as [|d s IH]; intros a; [simpl; lia|].
  cbn [fold_left length]. rewrite (IH (a * 10 + (d - 48))), (IH (0 * 10 + (d - 48))). rewrite Nat2N.inj_succ, N.pow_succ_r'. ring.
Qed.

Lemma dec_fuel_val f : forall n acc, n < 10 ^ N.of_nat f ->
  val (dec_fuel f n acc) = n * 10 ^ N.of_nat (length acc) + val acc.
Proof.
  induction f as [|f IH]; intros n acc H.
  - simpl in *. assert (n = 0) by lia. subst. lia.
  - cbn [dec_fuel]. cbv zeta. rewrite Nat2N.inj_succ, N.pow_succ_r' in H.
    assert (Hd : n = 10 * (n / 10) + n mod 10) by (apply N.div_mod'). assert (Hm : n mod 10 < 10) by (apply N.mod_lt; discriminate).
    assert (Hv : val ((48 + n mod 10) :: acc) = (n mod 10) * 10 ^ N.of_nat (length acc) + val acc).
    { unfold val at 1. cbn [fold_left]. rewrite fold_val. f_equal. f_equal. clear. generalize (n mod 10). intros x. lia. }
    destruct (N.eqb_spec (n / 10) 0) as [E|NE].
    + rewrite Hv. f_equal. f_equal. lia.
    + rewrite IH by (apply N.div_lt_upper_bound; lia). rewrite Hv. simpl length. rewrite Nat2N.inj_succ, N.pow_succ_r'. lia.
Qed.

(** the fuel of dec_N suffices *)
Lemma log2_pow10 n : n < 10 ^ N.of_nat (S (N.to_nat (N.log2 n))).
Proof.
  rewrite Nat2N.inj_succ, N2Nat.id. destruct n as [|p]; [simpl; lia|].
  eapply N.lt_le_trans; [apply (proj2 (N.log2_spec (N.pos p) (eq_refl)))|].
  apply N.pow_le_mono_l. lia.
Qed.

Theorem dec_N_val n : val (dec_N n) = n.
Proof.
  unfold dec_N. rewrite dec_fuel_val by apply log2_pow10.
  change (N.of_nat (length (@nil N))) with 0. change (val []) with 0. rewrite N.pow_0_r. lia.
Qed.

Lemma dec_fuel_digits f : forall n acc, (forall d, In d acc -> 48 <= d < 58) -> forall d, In d (dec_fuel f n acc) -> 48 <= d < 58.
Proof.
  induction f as [|f IH]; intros n acc H d I; cbn [dec_fuel] in I; cbv zeta in I; [apply H; exact I|].
  assert (Hm : n mod 10 < 10) by (apply N.mod_lt; discriminate).
  assert (H' : forall d, In d ((48 + n mod 10) :: acc) -> 48 <= d < 58)
    by (intros d' [<-|I']; [revert Hm; generalize (n mod 10); intros x Hx; lia|apply H; exact I']).
  destruct (n / 10 =? 0); [apply H'; exact I|eapply IH; [exact H'|exact I]].
Qed.

(** reading back what f"{int}" printed gives the integer: sign, then the digits *)
Theorem dec_Z_val z : val_Z (dec_Z z) = z.
Proof.
  destruct z as [|p|p]; [reflexivity| |].
  - unfold dec_Z, val_Z. assert (D := dec_fuel_digits (S (N.to_nat (N.log2 (N.pos p)))) (N.pos p) [] (fun d I => match I with end)).
    fold (dec_N (N.pos p)) in D. destruct (dec_N (N.pos p)) as [|d t] eqn:E; [rewrite <- E, dec_N_val; reflexivity|].
    assert (48 <= d < 58) by (apply D; left; reflexivity). destruct (N.eqb_spec d 45) as [->|NE]; [lia|].
    assert (X : Z.of_N (val (d :: t)) = Z.pos p) by (rewrite <- E, dec_N_val; reflexivity).
    destruct d as [|q]; [lia|]. repeat (destruct q as [q|q|]; try exact X; try lia).
  - unfold dec_Z, val_Z. rewrite dec_N_val. reflexivity.
Qed.

Lemma text_spec :
  (forall z, val_Z (dec_Z z) = z) /\ (forall z1 z2, dec_Z z1 = dec_Z z2 -> z1 = z2) /\
  (forall n d, In d (dec_N n) -> 48 <= d < 58) /\
  (forall s1 s2, repr_str (Some s1) = repr_str (Some s2) -> deficiency s1 = deficiency s2).
Proof.
  split; [exact dec_Z_val|]. assert (Inj : forall z1 z2, dec_Z z1 = dec_Z z2 -> z1 = z2).
  { intros z1 z2 E. rewrite <- (dec_Z_val z1), <- (dec_Z_val z2), E. reflexivity. }
  split; [exact Inj|]. split.
  - intros n d I. eapply dec_fuel_digits; [|exact I]. intros d' [].
  - intros s1 s2 E. unfold repr_str in E. apply app_inv_head in E. apply app_inv_tail in E. apply Inj. exact E.
Qed.

Example ex_text :
  explain_str (Some (Summary 3 3 3 1 2 0 false)) = codes "Deficiency=0, Linkage-classes=1, Weakly-reversible=False"%string /\
  explain_str (Some (Summary 1 2 3 12 1 (-2) true)) = codes "Deficiency=-2, Linkage-classes=12, Weakly-reversible=True"%string /\
  repr_str None = codes "<DeficiencyAnalyzer deficiency=NA>"%string /\ repr_str (Some (Summary 3 3 3 1 2 105 false)) = codes "<DeficiencyAnalyzer deficiency=105>"%string /\
  dec_N 1000000 = [49; 48; 48; 48; 48; 48; 48].
Proof. repeat split. Qed.
