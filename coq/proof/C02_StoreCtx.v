(** C02 (round 5) — the radius-k context on ITS graphs of ANY label shape (pair labels of store=True, absent labels) and for
    ANY list of start atoms: find_nearest_neighbors + extract_subgraph = induced subgraph on the distance-<=k ball, generic in the
    node and bond types; instance: extract_k on [sits] (model/C02_Store.v). *)
From Coq Require Import List NArith ZArith Bool Lia.
From SK Require Import lib.LGraph lib.Reach lib.C01_GraphLemmas model.C01_Model model.C01_Opts model.C02_Model
                       model.C02_Store proof.C02_Proof proof.C02_Opts proof.C02_OptsEquiv proof.C02_Store.
(* [extract_k_S] below is the definition of model/C02_Store.v (proof/C02_Proof.v has a lemma of that name) *)
From SK Require Import model.C02_Store.
Import ListNotations.
Local Open Scope Z_scope.

Section CtxG.
Context {A B : Type}.
Variable g : lgraph A B.

Lemma dist_le_g_mono S k k' n : (k <= k')%nat -> dist_le_g g S k n -> dist_le_g g S k' n.
Proof. intros Hk (s & m & I & Hm & Wk). exists s, m. repeat split; auto. lia. Qed.

Lemma knn_g_spec S k n : In n (knn_g g S k) <-> dist_le_g g S k n.
Proof.
  revert n. induction k as [|k IH]; intros n.
  - unfold knn_g. simpl. rewrite add_all_in. split.
    + intros [I|[]]. exists n, O. repeat split; auto. constructor.
    + intros (s & m & I & Hm & Wk). left. assert (m = O) as -> by lia. inversion Wk; subst. exact I.
  - unfold knn_g in *. simpl. rewrite step_in. split.
    + intros [I|(u & Iu & In)].
      * apply IH in I. eapply dist_le_g_mono; [|exact I]. lia.
      * apply IH in Iu. destruct Iu as (s & m & I & Hm & Wk). exists s, (Datatypes.S m). repeat split; [exact I|lia|].
        econstructor; [exact Wk|]. apply in_nbrs. exact In.
    + intros (s & m & I & Hm & Wk). destruct (Nat.eq_dec m (Datatypes.S k)) as [->|Hne].
      * inversion Wk; subst. right. exists u. split; [|apply in_nbrs; assumption].
        apply IH. exists s, k. repeat split; auto.
      * left. apply IH. exists s, m. repeat split; auto. lia.
Qed.

Lemma walk_g_in_nodes s n m : wf g -> In s (node_ids g) -> walk_g g s n m -> In n (node_ids g).
Proof.
  intros W Is Wk. induction Wk as [s|s u n m Wk IH Ad]; [exact Is|].
  destruct (adj g u n) as [e|] eqn:E; [|congruence]. apply (wf_adj_iff W) in E.
  destruct E as [E|E]; destruct (wf_edge_nodes W E) as (P & Q & _); assumption.
Qed.

Lemma dist_le_g_in_nodes S k n : wf g -> (forall s, In s S -> In s (node_ids g)) -> dist_le_g g S k n -> In n (node_ids g).
Proof. intros W HS (s & m & I & _ & Wk). eapply walk_g_in_nodes; eauto. Qed.

Lemma mem_in_knn_g S k n : LGraph.mem n (knn_g g S k) = true <-> dist_le_g g S k n.
Proof. rewrite LGraph.mem_spec. apply knn_g_spec. Qed.

(** find_nearest_neighbors(G, S, k) then extract_subgraph: the induced subgraph on the atoms within k bonds of S *)
Theorem ball_sub_spec S k : wf g -> (forall s, In s S -> In s (node_ids g)) ->
  let Bk := dist_le_g g S k in
  (forall n, In n (node_ids (ball_sub g S k)) <-> Bk n) /\
  (forall n a, label (ball_sub g S k) n = Some a <-> label g n = Some a /\ Bk n) /\
  (forall u v e, adj (ball_sub g S k) u v = Some e <-> adj g u v = Some e /\ Bk u /\ Bk v).
Proof.
  intros W HS Bk. unfold ball_sub. split; [|split].
  - intros n. rewrite node_ids_induced, knn_g_spec. split; [tauto|]. intros H. split; [|exact H].
    eapply dist_le_g_in_nodes; eauto.
  - intros n a. rewrite label_induced. destruct (LGraph.mem n (knn_g g S k)) eqn:M.
    + apply mem_in_knn_g in M. tauto.
    + split; [discriminate|]. intros [_ Bn]. apply mem_in_knn_g in Bn. congruence.
  - intros u v e. rewrite (adj_induced _ _ _ W).
    destruct (LGraph.mem u (knn_g g S k)) eqn:Mu; destruct (LGraph.mem v (knn_g g S k)) eqn:Mv; simpl.
    + apply mem_in_knn_g in Mu, Mv. tauto.
    + split; [discriminate|]. intros (_ & _ & Bv). apply mem_in_knn_g in Bv. congruence.
    + split; [discriminate|]. intros (_ & Bu & _). apply mem_in_knn_g in Bu. congruence.
    + split; [discriminate|]. intros (_ & Bu & _). apply mem_in_knn_g in Bu. congruence.
Qed.

(** start atoms that are not atoms of the graph contribute only themselves to the ball, and the subgraph drops them *)
Lemma ball_sub_nodes_any S k n : wf g -> In n (node_ids (ball_sub g S k)) <-> In n (node_ids g) /\ dist_le_g g S k n.
Proof. intros W. unfold ball_sub. rewrite node_ids_induced, knn_g_spec. tauto. Qed.

(** balls grow with the radius *)
Lemma ball_sub_mono S k k' : wf g -> (k <= k')%nat ->
  (forall n, In n (node_ids (ball_sub g S k)) -> In n (node_ids (ball_sub g S k'))) /\
  (forall u v e, adj (ball_sub g S k) u v = Some e -> adj (ball_sub g S k') u v = Some e).
Proof.
  intros W Hk. split.
  - intros n. rewrite !ball_sub_nodes_any by exact W. intros [I D]. split; [exact I|eapply dist_le_g_mono; eauto].
  - intros u v e. unfold ball_sub. rewrite !(adj_induced _ _ _ W).
    destruct (LGraph.mem u (knn_g g S k)) eqn:Mu; destruct (LGraph.mem v (knn_g g S k)) eqn:Mv; simpl; try discriminate.
    apply mem_in_knn_g in Mu, Mv. apply (dist_le_g_mono S k k' _ Hk) in Mu. apply (dist_le_g_mono S k k' _ Hk) in Mv.
    apply mem_in_knn_g in Mu, Mv. rewrite Mu, Mv. simpl. auto.
Qed.
End CtxG.

(** the generic vocabulary instantiated at [its] is the vocabulary of model/C02_Model.v *)
Lemma walk_g_its (g : its) s n m : walk_g g s n m <-> walk g s n m.
Proof. split; induction 1; econstructor; eauto. Qed.
Lemma dist_le_g_its (g : its) S k n : dist_le_g g S k n <-> dist_le g S k n.
Proof. unfold dist_le_g, dist_le. split; intros (s & m & H1 & H2 & H3); exists s, m; repeat split; auto; apply walk_g_its; exact H3. Qed.
Lemma knn_g_its (g : its) S k : knn_g g S k = knn g S k.
Proof. reflexivity. Qed.

(** * extract_k on ITS graphs with pair / absent labels *)
Lemma rcS_nodes_in K d m (g : sits) n : NoDup (node_ids g) -> In n (node_ids (get_rc_S K d m g)) -> In n (node_ids g).
Proof.
  intros Hnd I. destruct (assoc_is_some n (gnodes (get_rc_S K d m g)) I) as (b & Lb).
  destruct (rcS_labels K d m g Hnd n b Lb) as (a & La & _). eapply label_some_node; eauto.
Qed.

Theorem ctxS_spec (g : sits) : wf g -> forall k, (1 <= k)%nat ->
  let Bk := dist_le_g g (node_ids (get_rc_S K_default false false g)) k in
  (forall n, In n (node_ids (extract_k_S g k)) <-> Bk n) /\
  (forall n a, label (extract_k_S g k) n = Some a <-> label g n = Some a /\ Bk n) /\
  (forall u v e, adj (extract_k_S g k) u v = Some e <-> adj g u v = Some e /\ Bk u /\ Bk v).
Proof.
  intros W k Hk. destruct k as [|k]; [lia|].
  change (extract_k_S g (S k)) with (ball_sub g (node_ids (get_rc_S K_default false false g)) (S k)).
  apply ball_sub_spec; [exact W|]. intros s. apply rcS_nodes_in. destruct W as [W _]. exact W.
Qed.

(** the centre on such graphs is well-formed (through the flattened graph) *)
Lemma rcS_wf K d m (g : sits) : wf g -> wf (get_rc_S K d m g).
Proof.
  intros W. pose proof (rcx_wf K d m (gmapn flat g) (wf_gmapn flat g W)) as Wx.
  rewrite <- rcS_flat in Wx. destruct Wx as (X1 & X2 & X3). rewrite node_ids_gmapn in X1, X2.
  split; [exact X1|]. split; [exact X2|exact X3].
Qed.

Lemma adj_some_nodes {A B} (g : lgraph A B) u v e : wf g -> adj g u v = Some e -> In u (node_ids g) /\ In v (node_ids g).
Proof.
  intros W Ad. apply (wf_adj_iff W) in Ad. destruct Ad as [Ad|Ad]; destruct (wf_edge_nodes W Ad) as (P & Q & _); auto.
Qed.

(** centre = context(0) within context(k) within context(k') within the ITS, as atom sets and as sets of bonded pairs
    (the centre's bonds carry is_mtg = data.get("is_mtg", False), the ITS bond may lack the key: bond ATTRIBUTES are compared
    from radius 1 on) *)
Theorem ctxS_chain (g : sits) : wf g -> forall k k', (k <= k')%nat ->
  extract_k_S g 0 = get_rc_S K_default false false g /\
  (forall n, In n (node_ids (extract_k_S g k)) -> In n (node_ids (extract_k_S g k'))) /\
  (forall u v, adj (extract_k_S g k) u v <> None -> adj (extract_k_S g k') u v <> None) /\
  ((1 <= k)%nat -> forall u v e, adj (extract_k_S g k) u v = Some e -> adj (extract_k_S g k') u v = Some e) /\
  (forall n, In n (node_ids (extract_k_S g k')) -> In n (node_ids g)) /\
  (forall u v, adj (extract_k_S g k') u v <> None -> adj g u v <> None).
Proof.
  intros W k k' Hk. split; [reflexivity|].
  set (C := get_rc_S K_default false false g).
  assert (NoDup (node_ids g)) as Hnd by (destruct W as [W _]; exact W).
  assert (forall n, In n (node_ids C) -> In n (node_ids g)) as HC by (intros n; apply rcS_nodes_in; exact Hnd).
  assert (forall u v, adj C u v <> None -> adj g u v <> None) as HCe.
  { intros u v Ad. destruct (adj C u v) as [y|] eqn:E; [|congruence]. apply (rcS_edges K_default false false g W) in E.
    destruct E as (x & Ax & _). congruence. }
  assert (forall j, (forall n, In n (node_ids (extract_k_S g j)) -> In n (node_ids g)) /\
                    (forall u v, adj (extract_k_S g j) u v <> None -> adj g u v <> None)) as Hsub.
  { intros [|j]; [split; [exact HC|exact HCe]|].
    destruct (ctxS_spec g W (S j) ltac:(lia)) as (N1 & _ & A1). split.
    - intros n I. apply N1 in I. eapply dist_le_g_in_nodes; eauto.
    - intros u v Ad. destruct (adj (extract_k_S g (S j)) u v) as [e|] eqn:E; [|congruence]. apply A1 in E. destruct E as [E _]. congruence. }
  assert (forall j u v e, adj (extract_k_S g (S j)) u v = Some e -> (S j <= k')%nat -> adj (extract_k_S g k') u v = Some e) as Hmono.
  { intros j u v e Ad Hj. destruct k' as [|k']; [lia|].
    exact (proj2 (ball_sub_mono g (node_ids C) (S j) (S k') W Hj) u v e Ad). }
  split; [|split; [|split; [|split; apply Hsub]]].
  - intros n I. destruct k' as [|k']; [assert (k = O) as -> by lia; exact I|].
    destruct (ctxS_spec g W (S k') ltac:(lia)) as (N1 & _ & _). apply N1. destruct k as [|k].
    + exists n, O. repeat split; [exact I|lia|constructor].
    + destruct (ctxS_spec g W (S k) ltac:(lia)) as (N0 & _ & _). apply N0 in I. eapply dist_le_g_mono; [|exact I]. lia.
  - intros u v Ad. destruct k as [|k].
    + destruct k' as [|k']; [exact Ad|].
      destruct (adj (extract_k_S g 0) u v) as [y|] eqn:E; [|congruence].
      destruct (adj_some_nodes _ u v y (rcS_wf K_default false false g W) E) as [Iu Iv].
      destruct (adj g u v) as [x|] eqn:Ax; [|exfalso; apply (HCe u v); [change (extract_k_S g 0) with C in E; rewrite E; discriminate|exact Ax]].
      destruct (ctxS_spec g W (S k') ltac:(lia)) as (_ & _ & A1).
      assert (adj (extract_k_S g (S k')) u v = Some x) as R.
      { apply A1. split; [exact Ax|]. split; [exists u, O|exists v, O]; repeat split; auto; try lia; constructor. }
      rewrite R. discriminate.
    + destruct (adj (extract_k_S g (S k)) u v) as [e|] eqn:E; [|congruence]. rewrite (Hmono k u v e E Hk). discriminate.
  - intros H1 u v e Ad. destruct k as [|k]; [lia|]. exact (Hmono k u v e Ad Hk).
Qed.

(** non-vacuity: the store=True ITS of  H-H + C=C -> H-H + C-C  with a spectator chain: centre {1,2,3,4} (H-H forced), radius 1 adds 5 *)
Definition ctxS_node (n : Z) (el : N) : inodeS := INS n (el, el) (false, false) (0, 0) (0, 0) ([], []) (NA el false 0 0 []) (NA el false 0 0 []).
Definition ctxS_ex : itsS :=
  LG [(1%N, ctxS_node 1 2%N); (2%N, ctxS_node 2 2%N); (3%N, ctxS_node 3 70%N); (4%N, ctxS_node 4 70%N); (5%N, ctxS_node 5 70%N); (6%N, ctxS_node 6 70%N)]
     [(1%N, 2%N, IE 2 2 0); (3%N, 4%N, IE 4 2 2); (4%N, 5%N, IE 2 2 0); (5%N, 6%N, IE 2 2 0)].
Example C02_ctxS_nonvacuous :
  wf (emb_S ctxS_ex) /\
  node_ids (extract_k_S (emb_S ctxS_ex) 0) = [3%N; 4%N; 1%N; 2%N] /\
  node_ids (extract_k_S (emb_S ctxS_ex) 1) = [1%N; 2%N; 3%N; 4%N; 5%N] /\
  node_ids (ball_sub (emb_S ctxS_ex) [6%N; 99%N] 1) = [5%N; 6%N] /\
  dist_le_g (emb_S ctxS_ex) [3%N] 2 5%N.
Proof.
  split; [|split; [|split; [|split]]]; try (vm_compute; reflexivity).
  - apply wf_gmap. apply wf_intro; simpl.
    + repeat constructor; simpl; intuition discriminate.
    + intros a b x H. repeat (destruct H as [H|H]; [inversion H; subst; simpl; intuition discriminate|]). destruct H.
    + repeat constructor.
  - exists 3%N, 2%nat. split; [left; reflexivity|]. split; [lia|].
    apply (walk_g_step _ 3%N 4%N 5%N 1%nat); [apply (walk_g_step _ 3%N 3%N 4%N 0%nat); [constructor|vm_compute; discriminate]|vm_compute; discriminate].
Qed.
