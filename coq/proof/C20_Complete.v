(** C20 — completeness of [is_realizable] within the search bounds, stated on the PATHWAY itself
    (edge list, flow, orderings, (fired counts, species marking) states) — no extended net in the premises.

    Three ingredients on top of proof/C20_Build.v:
      1. converse simulation: an ordering of the pathway that fires each edge flow times IS a firing sequence of the
         extended net from M0 to MT ([realizes_path]);
      2. depth: every firing sequence from M0 consumes one supply token per step, so it is no longer than the sum of
         the positive flows ([path_length_bound]);
      3. states: a marking of the extended net reachable from M0 is determined by (how often each edge has fired,
         species marking) ([reachable_tuple_decoded]). *)
From Coq Require Import ZArith NArith List Bool Arith Lia.
Import ListNotations.
From SK Require Import model.C20_Model proof.C20_Spec proof.C20_Petri proof.C20_Bfs proof.C20_Build.
Local Open Scope Z_scope.

(** * Small facts about dicts and the transitions of the built net *)

Lemma set_In_inv d p c q w : In (q, w) (set d p c) -> In (q, w) d \/ (q = p /\ w = c).
Proof.
  induction d as [|[r c'] d IH]; simpl.
  - intros [H|[]]. inversion H; auto.
  - destruct (N.eqb r p) eqn:E; simpl.
    + apply N.eqb_eq in E. subst r. intros [H|H]; [inversion H; auto|auto].
    + intros [H|H]; auto. destruct (IH H); auto.
Qed.

Lemma set_In_same d p c : In (p, c) (set d p c).
Proof.
  induction d as [|[r c'] d IH]; simpl; auto.
  destruct (N.eqb r p) eqn:E; simpl; auto.
  apply N.eqb_eq in E. subst. auto.
Qed.

Lemma pos_part_In_inv d p w : In (p, w) (pos_part d) -> exists s, p = sp_place s /\ In (s, w) d /\ 0 < w.
Proof.
  unfold pos_part. intros H. apply in_map_iff in H as [[s w'] [E Hin]]. simpl in E. inversion E; subst.
  apply filter_In in Hin as [Hin Hw]. simpl in Hw. apply Z.ltb_lt in Hw. eauto.
Qed.

Lemma it_pre_ext it j : weight (it_pre it) (ext_place j) = if N.eqb (it_id it) j then 1 else 0.
Proof.
  unfold it_pre. destruct (N.eqb (it_id it) j) eqn:E.
  - apply N.eqb_eq in E. subst. apply weight_set_fresh, ext_notin_pos.
  - apply N.eqb_neq in E. rewrite weight_set_other; [apply weight_pos_part_ext|].
    intros H. apply ext_inj in H. congruence.
Qed.

Lemma it_post_ext it j : weight (it_post it) (ext_place j) = 0.
Proof.
  unfold it_post. rewrite weight_set_other; [apply weight_pos_part_ext|].
  intros H. symmetry in H. now apply ext_tgt in H.
Qed.

Lemma fold_net_step_in_inv its : forall nt p, In p (pn_places (fold_left net_step its nt)) ->
  In p (pn_places nt) \/
  exists it, In it its /\ (p = ext_place (it_id it) \/ p = tgt_place (it_id it) \/
                           In p (map fst (it_pre it) ++ map fst (it_post it))).
Proof.
  induction its as [|it its IH]; intros nt p H; simpl in *; auto.
  apply IH in H as [H|[it' [H1 H2]]].
  - apply net_step_in in H as [H|H]; auto. right. exists it. auto.
  - right. exists it'. auto.
Qed.

Lemma tuple_eq_get (ps : list N) : NoDup ps -> forall a b : list Z,
  length a = length ps -> length b = length ps ->
  (forall p, In p ps -> get (combine ps a) p = get (combine ps b) p) -> a = b.
Proof.
  induction 1 as [|q ps Hq Hnd IH]; intros [|x a] [|y b] Ha Hb H; simpl in *; try discriminate; auto.
  f_equal.
  - specialize (H q (or_introl eq_refl)). now rewrite N.eqb_refl in H.
  - apply IH; auto. intros p Hp. specialize (H p (or_intror Hp)).
    destruct (N.eqb q p) eqn:E; auto. apply N.eqb_eq in E. subst. tauto.
Qed.

(** sums over an index range *)
Fixpoint sumf (f : nat -> Z) (n : nat) : Z :=
  match n with O => 0 | S k => sumf f k + f k end.

Lemma sumf_le f g n : (forall k, (k < n)%nat -> f k <= g k) -> sumf f n <= sumf g n.
Proof.
  induction n as [|n IH]; intros H; simpl; [lia|].
  assert (sumf f n <= sumf g n) by (apply IH; intros; apply H; lia).
  specialize (H n (Nat.lt_succ_diag_r n)). lia.
Qed.

Lemma sumf_ext f g n : (forall k, (k < n)%nat -> f k = g k) -> sumf f n = sumf g n.
Proof.
  induction n as [|n IH]; intros H; simpl; auto.
  rewrite IH by (intros; apply H; lia). rewrite (H n) by lia. reflexivity.
Qed.

Lemma sumf_plus f g n : sumf (fun k => f k + g k) n = sumf f n + sumf g n.
Proof. induction n as [|n IH]; simpl; lia. Qed.

Lemma sumf_indicator j n :
  sumf (fun k => if N.eqb j (N.of_nat k) then 1 else 0) n = if (N.to_nat j <? n)%nat then 1 else 0.
Proof.
  induction n as [|n IH]; simpl; auto. rewrite IH.
  destruct (N.eqb j (N.of_nat n)) eqn:E.
  - apply N.eqb_eq in E. subst j. rewrite Nat2N.id.
    rewrite Nat.ltb_irrefl.
    replace (n <? S n)%nat with true by (symmetry; apply Nat.ltb_lt; lia). lia.
  - apply N.eqb_neq in E.
    destruct (N.to_nat j <? n)%nat eqn:E1.
    + apply Nat.ltb_lt in E1. replace (N.to_nat j <? S n)%nat with true by (symmetry; apply Nat.ltb_lt; lia). lia.
    + apply Nat.ltb_ge in E1.
      replace (N.to_nat j <? S n)%nat with false; [lia|].
      symmetry. apply Nat.ltb_ge. assert (N.to_nat j <> n) by (intros X; apply E; subst n; now rewrite N2Nat.id). lia.
Qed.

(** the length of a sequence over 0..n-1 is the sum of the occurrence counts *)
Lemma length_sum_counts n : forall sq : list N, (forall j, In j sq -> (N.to_nat j < n)%nat) ->
  Z.of_nat (length sq) = sumf (fun k => count (N.of_nat k) sq) n.
Proof.
  induction sq as [|j sq IH]; intros H.
  - clear H. simpl. induction n as [|n IHn]; simpl; auto. rewrite <- IHn. unfold count. simpl. lia.
  - rewrite (sumf_ext _ (fun k => (if N.eqb j (N.of_nat k) then 1 else 0) + count (N.of_nat k) sq))
      by (intros; apply count_cons).
    rewrite sumf_plus, sumf_indicator, <- IH by (intros; apply H; simpl; auto).
    replace (N.to_nat j <? n)%nat with true by (symmetry; apply Nat.ltb_lt, H; simpl; auto).
    simpl length. lia.
Qed.

Lemma count_notin j sq : ~ In j sq -> count j sq = 0.
Proof. intros H. unfold count. rewrite (proj1 (count_occ_not_In N.eq_dec sq j) H). reflexivity. Qed.

Lemma count_nonneg j sq : 0 <= count j sq.
Proof. unfold count. lia. Qed.

Lemma count_in_pos j sq : In j sq -> 1 <= count j sq.
Proof. intros H. unfold count. apply (count_occ_In N.eq_dec) in H. lia. Qed.

Lemma ordering_in_range edges sq : forall m m', ordering edges m sq m' ->
  forall j, In j sq -> (N.to_nat j < length edges)%nat.
Proof.
  induction sq as [|j sq IH]; intros m m' H j0 Hin; [destruct Hin|].
  inversion H; subst. destruct Hin as [<-|Hin].
  - apply nth_error_Some. congruence.
  - eapply IH; eauto.
Qed.

(** the sum of the positive flows: an upper bound on the length of every firing sequence *)
Definition total_flow (edges : list edge) (flow : list Z) : Z :=
  sumf (fun k => Z.max 0 (nth k flow 0)) (length edges).

(** the extended marking that stands for "edge k has fired [nth k fired 0] times, species marking [m]" *)
Definition decode (flow : list Z) (fired : list Z) (m : smarking) (p : N) : Z :=
  let q := N.div p 3 in
  match N.modulo p 3 with
  | 0%N => m q
  | 1%N => nth (N.to_nat q) flow 0 - nth (N.to_nat q) fired 0
  | _ => nth (N.to_nat q) fired 0
  end.

Lemma decode_sp flow fired m s : decode flow fired m (sp_place s) = m s.
Proof.
  unfold decode, sp_place.
  assert (E1 : (3 * s mod 3 = 0)%N) by (symmetry; apply (N.mod_unique (3 * s) 3 s 0); lia).
  assert (E2 : (3 * s / 3 = s)%N) by (symmetry; apply (N.div_unique (3 * s) 3 s 0); lia).
  now rewrite E1, E2.
Qed.

Lemma decode_ext flow fired m j :
  decode flow fired m (ext_place j) = nth (N.to_nat j) flow 0 - nth (N.to_nat j) fired 0.
Proof.
  unfold decode, ext_place.
  assert (E1 : ((3 * j + 1) mod 3 = 1)%N) by (symmetry; apply (N.mod_unique (3 * j + 1) 3 j 1); lia).
  assert (E2 : ((3 * j + 1) / 3 = j)%N) by (symmetry; apply (N.div_unique (3 * j + 1) 3 j 1); lia).
  now rewrite E1, E2.
Qed.

Lemma decode_tgt flow fired m j : decode flow fired m (tgt_place j) = nth (N.to_nat j) fired 0.
Proof.
  unfold decode, tgt_place.
  assert (E1 : ((3 * j + 2) mod 3 = 2)%N) by (symmetry; apply (N.mod_unique (3 * j + 2) 3 j 2); lia).
  assert (E2 : ((3 * j + 2) / 3 = j)%N) by (symmetry; apply (N.div_unique (3 * j + 2) 3 j 2); lia).
  now rewrite E1, E2.
Qed.

Section Complete.
Variables (vertices : list N) (edges : list edge) (flow : list Z).

Let items := zip_flow (index_from 0%N edges) flow.
Let b := build_petri_net_from_flow vertices edges flow.
Let net := b_net b.
Let places := pn_places net.
Let start := marking_to_tuple net (b_M0 b).
Let target := marking_to_tuple net (b_MT b).
Notation mv := (mv vertices edges flow).
Notation sm := (sm vertices edges flow).

Lemma M0_ext it : In it items -> get (b_M0 b) (ext_place (it_id it)) = snd it.
Proof.
  intros H. unfold b. rewrite b_M0_eq. apply kfold_at; auto using items_nodup. apply ext_inj.
Qed.

Lemma MT_ext j : get (b_MT b) (ext_place j) = 0.
Proof.
  unfold b. rewrite b_MT_eq, kfold_other; [apply base_zero|].
  intros it _ H. symmetry in H. now apply ext_tgt in H.
Qed.

Lemma places_shape p : In p places ->
  (exists s, p = sp_place s) \/
  (exists it, In it items /\ (p = ext_place (it_id it) \/ p = tgt_place (it_id it))).
Proof.
  unfold places, net, b. rewrite b_net_eq. intros H.
  apply fold_net_step_in_inv in H as [H|[it [Hit [H|[H|H]]]]].
  - left. apply fold_add_place_in in H as [[]|H]. apply in_map_iff in H as [v [<- _]]. eauto.
  - right. exists it. auto.
  - right. exists it. auto.
  - apply in_app_iff in H as [H|H].
    + unfold it_pre in H. apply set_keys in H as [H|H].
      * left. now apply pos_part_keys in H.
      * right. exists it. auto.
    + unfold it_post in H. apply set_keys in H as [H|H].
      * left. now apply pos_part_keys in H.
      * right. exists it. auto.
Qed.

Lemma item_in_range it : In it items -> (N.to_nat (it_id it) < length edges)%nat.
Proof. intros H. destruct (item_edge edges flow it H) as [H1 _]. apply nth_error_Some. congruence. Qed.

Lemma ext_in_places it : In it items -> In (ext_place (it_id it)) places.
Proof. intros H. apply (places_mentions vertices edges flow it); auto. Qed.

Lemma tgt_in_places it : In it items -> In (tgt_place (it_id it)) places.
Proof. intros H. apply (places_mentions vertices edges flow it); auto. Qed.

Lemma ext_place_item j : In (ext_place j) places -> exists it, In it items /\ it_id it = j.
Proof.
  intros H. apply places_shape in H as [[s H]|[it [Hit [H|H]]]].
  - symmetry in H. now apply sp_ext in H.
  - apply ext_inj in H. eauto.
  - now apply ext_tgt in H.
Qed.

(** one firing of the transition of an item, read at the supply places and at the species places *)
Lemma step_ext it mt m1 : In it items -> tstep net (mk_trans it) mt = Some m1 ->
  forall j, mv m1 (ext_place j) = mv mt (ext_place j) - (if N.eqb (it_id it) j then 1 else 0).
Proof.
  intros Hit Hstep j. destruct (tstep_effect vertices edges flow _ _ _ Hstep) as [_ [Heff Hout]]. simpl in *.
  destruct (in_dec N.eq_dec (ext_place j) places) as [Hin|Hni].
  - rewrite Heff by exact Hin. rewrite it_pre_ext, it_post_ext. lia.
  - rewrite Hout by exact Hni. rewrite (mv_notin vertices edges flow mt) by exact Hni.
    destruct (N.eqb (it_id it) j) eqn:E; [|lia].
    apply N.eqb_eq in E. subst j. exfalso. apply Hni. now apply ext_in_places.
Qed.

Lemma step_sm it mt m1 : In it items -> tstep net (mk_trans it) mt = Some m1 ->
  forall s, sm m1 s = fire_edge (it_edge it) (sm mt) s.
Proof.
  intros Hit Hstep s0. destruct (tstep_effect vertices edges flow _ _ _ Hstep) as [_ [Heff Hout]]. simpl in *.
  unfold C20_Build.sm, fire_edge.
  destruct (in_dec N.eq_dec (sp_place s0) places) as [Hin|Hni].
  - rewrite Heff by exact Hin. now rewrite it_pre_sp, it_post_sp.
  - rewrite Hout by exact Hni. rewrite (mv_notin vertices edges flow mt) by exact Hni.
    assert (pweight (fst (it_edge it)) s0 = 0).
    { destruct (Z.eq_dec (pweight (fst (it_edge it)) s0) 0); auto. exfalso. apply Hni.
      apply (places_mentions vertices edges flow it); auto. right. right. apply in_app_iff. left.
      apply weight_nonzero_in. now rewrite it_pre_sp. }
    assert (pweight (snd (it_edge it)) s0 = 0).
    { destruct (Z.eq_dec (pweight (snd (it_edge it)) s0) 0); auto. exfalso. apply Hni.
      apply (places_mentions vertices edges flow it); auto. right. right. apply in_app_iff. right.
      apply weight_nonzero_in. now rewrite it_post_sp. }
    lia.
Qed.

(** * 1. Converse simulation: an ordering of the pathway is a firing sequence of the extended net *)
Lemma ordering_path sq : forall m mt m',
  ordering edges m sq m' ->
  (forall s, sm mt s = m s) ->
  (forall j, In j sq -> count j sq <= mv mt (ext_place j)) ->
  exists mt', path net mt sq mt' /\ (forall s, sm mt' s = m' s) /\
              (forall j, mv mt' (ext_place j) = mv mt (ext_place j) - count j sq).
Proof.
  induction sq as [|j sq IH]; intros m mt m' Ho Hsm Hsup.
  - inversion Ho; subst. exists mt. split; [constructor|]. split.
    + intros s. rewrite Hsm. auto.
    + intros j. unfold count. simpl. lia.
  - inversion Ho as [|m0 j0 e sq0 m0' Hnth Hcov Ho']; subst.
    assert (Hj : (N.to_nat j < length edges)%nat) by (apply nth_error_Some; congruence).
    destruct (item_of_index edges flow j Hj) as [it [Hit Hid]].
    destruct (item_edge edges flow it Hit) as [Hedge _]. rewrite Hid in Hedge.
    assert (He : e = it_edge it) by congruence. subst e.
    assert (Ht : In (mk_trans it) (pn_trans net)).
    { unfold net, b. rewrite trans_eq. now apply in_map. }
    assert (Hen : enabled_t (mk_trans it) (combine places mt) = true).
    { apply enabled_t_spec. intros p w Hin. simpl in Hin. unfold it_pre in Hin.
      apply set_In_inv in Hin as [Hin|[-> ->]].
      - apply pos_part_In_inv in Hin as [s [-> [Hin Hw]]].
        specialize (Hcov s w Hin Hw). rewrite <- Hsm in Hcov. exact Hcov.
      - rewrite Hid. specialize (Hsup j (or_introl eq_refl)).
        apply Z.le_trans with (count j (j :: sq)); [apply count_in_pos; simpl; auto|exact Hsup]. }
    set (m1 := marking_to_tuple net (fire_t (mk_trans it) (combine places mt))).
    assert (Hstep : tstep net (mk_trans it) mt = Some m1).
    { unfold tstep. fold places. now rewrite Hen. }
    destruct (IH (fire_edge (it_edge it) m) m1 m' Ho') as [mt' [Hp [Hsm' Hext']]].
    + intros s. rewrite (step_sm it mt m1 Hit Hstep). unfold fire_edge. now rewrite Hsm.
    + intros j' Hj'. rewrite (step_ext it mt m1 Hit Hstep), Hid.
      specialize (Hsup j' (or_intror Hj')). rewrite count_cons in Hsup. lia.
    + exists mt'. split; [|split; auto].
      * replace j with (t_id (mk_trans it)) by exact Hid. econstructor; eauto.
      * intros j'. rewrite Hext', (step_ext it mt m1 Hit Hstep), Hid, count_cons. lia.
Qed.

Lemma path_length m s m' : path net m s m' -> length m = length places -> length m' = length places.
Proof.
  induction 1 as [m|m t m1 s m' Ht Hstep Hp IH]; auto.
  intros _. apply IH. unfold tstep in Hstep.
  destruct (enabled_t t (combine (pn_places net) m)); [|discriminate].
  inversion Hstep. apply marking_to_tuple_length.
Qed.

Lemma start_length : length start = length places.
Proof. apply marking_to_tuple_length. Qed.

Lemma mv_start_ext it : In it items -> mv start (ext_place (it_id it)) = snd it.
Proof.
  intros H. unfold start, net, b. rewrite mv_tuple.
  destruct (in_dec _ _ _) as [_|Hni]; [now apply M0_ext|]. exfalso. apply Hni. now apply ext_in_places.
Qed.

Lemma mv_start_tgt j : mv start (tgt_place j) = 0.
Proof. unfold start, net, b. rewrite mv_tuple. destruct (in_dec _ _ _); auto. apply M0_tgt. Qed.

Lemma tuple_eq_mv (a c : tuple) : length a = length places -> length c = length places ->
  (forall p, In p places -> mv a p = mv c p) -> a = c.
Proof. intros Ha Hc H. apply (tuple_eq_get places); auto. apply places_nodup. Qed.

Lemma realizes_path sq : realizes edges flow sq -> path net start sq target.
Proof.
  intros [Ho [Hcnt Hrng]].
  destruct (ordering_path sq zero start zero Ho) as [mt' [Hp [Hsm Hext]]].
  - intros s. apply sm_start.
  - intros j Hj. destruct (item_of_index edges flow j (Hrng j Hj)) as [it [Hit <-]].
    rewrite mv_start_ext by exact Hit. destruct (item_edge edges flow it Hit) as [_ ->].
    rewrite Hcnt by (now apply item_in_range). lia.
  - replace target with mt'; auto.
    destruct (path_ordering vertices edges flow _ _ _ Hp) as [_ [Htgt _]].
    apply tuple_eq_mv.
    + eapply path_length; eauto. apply start_length.
    + apply marking_to_tuple_length.
    + intros p Hp'. unfold target, net, b. rewrite mv_tuple.
      destruct (in_dec _ _ _) as [_|Hni]; [|tauto].
      destruct (places_shape p Hp') as [[s ->]|[it [Hit [->| ->]]]].
      * rewrite MT_sp. apply Hsm.
      * rewrite MT_ext, Hext, mv_start_ext by exact Hit.
        destruct (item_edge edges flow it Hit) as [_ ->].
        rewrite Hcnt by (now apply item_in_range). lia.
      * rewrite MT_tgt by exact Hit. rewrite Htgt. fold net start. rewrite mv_start_tgt.
        destruct (item_edge edges flow it Hit) as [_ ->].
        rewrite Hcnt by (now apply item_in_range). lia.
Qed.

(** * 2. Every firing consumes a supply token *)
Lemma path_ext m s m' : path net m s m' ->
  (forall j, mv m' (ext_place j) = mv m (ext_place j) - count j s) /\
  (forall j, In j s -> 0 <= mv m' (ext_place j)).
Proof.
  induction 1 as [m|m t m1 s m' Ht Hstep Hp [IH1 IH2]].
  - split; [intros; unfold count; simpl; lia|intros j []].
  - unfold net, b in Ht. rewrite trans_eq in Ht. apply in_map_iff in Ht as [it [<- Hit]].
    pose proof (step_ext it m m1 Hit Hstep) as Hse. simpl.
    split.
    + intros j. rewrite IH1, Hse, count_cons. lia.
    + intros j Hj. destruct (in_dec N.eq_dec j s) as [Hin|Hni]; [auto|].
      destruct Hj as [Hj|Hj]; [|tauto]. subst j.
      rewrite IH1, (count_notin _ _ Hni), Hse, N.eqb_refl.
      destruct (tstep_effect vertices edges flow _ _ _ Hstep) as [Hen _]. simpl in Hen.
      specialize (Hen (ext_place (it_id it)) 1 (set_In_same _ _ _)). lia.
Qed.

Lemma path_counts_bounded s m : path net start s m ->
  (forall j, In j s -> (N.to_nat j < length edges)%nat) /\
  (forall j, In j s -> count j s <= nth (N.to_nat j) flow 0).
Proof.
  intros Hp. destruct (path_ordering vertices edges flow _ _ _ Hp) as [_ [_ Hrng]].
  split; auto. intros j Hj.
  destruct (path_ext _ _ _ Hp) as [H1 H2]. specialize (H1 j). specialize (H2 j Hj).
  destruct (item_of_index edges flow j (Hrng j Hj)) as [it [Hit <-]].
  rewrite mv_start_ext in H1 by exact Hit. destruct (item_edge edges flow it Hit) as [_ E]. rewrite E in H1. lia.
Qed.

Lemma path_length_bound s m : path net start s m -> Z.of_nat (length s) <= total_flow edges flow.
Proof.
  intros Hp. destruct (path_counts_bounded s m Hp) as [Hrng Hcnt].
  rewrite (length_sum_counts (length edges) s Hrng). unfold total_flow. apply sumf_le.
  intros k Hk. destruct (in_dec N.eq_dec (N.of_nat k) s) as [Hin|Hni].
  - specialize (Hcnt _ Hin). rewrite Nat2N.id in Hcnt. lia.
  - rewrite (count_notin _ _ Hni). lia.
Qed.

(** * 3. A reachable extended marking is determined by (fired counts, species marking) *)
Definition tuple_of (cm : list Z * smarking) : tuple := map (decode flow (fst cm) (snd cm)) places.

Lemma reachable_tuple_decoded s m (cm : list Z * smarking) : path net start s m ->
  (forall k, (k < length edges)%nat -> nth k (fst cm) 0 = count (N.of_nat k) s) ->
  (forall x, snd cm x = sm m x) ->
  m = tuple_of cm.
Proof.
  intros Hp Hc Hs.
  destruct (path_ordering vertices edges flow _ _ _ Hp) as [_ [Htgt _]].
  destruct (path_ext _ _ _ Hp) as [Hext _].
  apply tuple_eq_mv.
  - eapply path_length; eauto. apply start_length.
  - unfold tuple_of. apply map_length.
  - intros p Hp'. unfold tuple_of. unfold C20_Build.mv at 2. fold net places.
    rewrite get_combine_map by exact Hp'.
    destruct (places_shape p Hp') as [[x ->]|[it [Hit [->| ->]]]].
    + rewrite decode_sp, Hs. reflexivity.
    + rewrite decode_ext, Hext, mv_start_ext by exact Hit.
      destruct (item_edge edges flow it Hit) as [_ ->].
      rewrite Hc by (now apply item_in_range). now rewrite N2Nat.id.
    + rewrite decode_tgt, Htgt. fold net start. rewrite mv_start_tgt.
      rewrite Hc by (now apply item_in_range). rewrite N2Nat.id. lia.
Qed.

(** * Completeness within the bounds, stated on the pathway *)
Lemma is_realizable_complete_pathway (max_states max_depth : N) (R : list (list Z * smarking)) :
  (exists sq, realizes edges flow sq) ->
  (forall sq m, ordering edges zero sq m ->
                (forall j, In j sq -> (N.to_nat j < length edges)%nat) ->
                (forall j, In j sq -> count j sq <= nth (N.to_nat j) flow 0) ->
     exists cm, In cm R /\ (forall k, (k < length edges)%nat -> nth k (fst cm) 0 = count (N.of_nat k) sq) /\
                (forall x, snd cm x = m x)) ->
  (N.of_nat (length R) <= max_states)%N ->
  total_flow edges flow <= Z.of_N max_depth ->
  exists sq', bo_verdict (is_realizable b max_states max_depth) = Found sq'.
Proof.
  intros [sq Hsq] HR Hlen Hdepth.
  apply (is_realizable_complete vertices edges flow max_states max_depth (map tuple_of R)).
  - exists sq. now apply realizes_path.
  - intros s m Hp. fold b net start in Hp.
    destruct (path_ordering vertices edges flow _ _ _ Hp) as [Ho _].
    destruct (path_counts_bounded s m Hp) as [Hrng Hcnt].
    assert (Ho' : ordering edges zero s (sm m)).
    { eapply ordering_ext; [| |exact Ho]; auto. intros x. apply sm_start. }
    destruct (HR s (sm m) Ho' Hrng Hcnt) as [cm [Hin [Hc Hs]]].
    apply in_map_iff. exists cm. split; auto. symmetry. eapply reachable_tuple_decoded; eauto.
  - rewrite map_length. exact Hlen.
  - intros s m Hp. fold b net start in Hp. pose proof (path_length_bound s m Hp). lia.
Qed.
End Complete.

Lemma main_realizable_complete :
  forall (vertices : list N) (edges : list edge) (flow : list Z) (max_states max_depth : N)
         (R : list (list Z * smarking)),
  (exists sq, realizes edges flow sq) ->
  (forall sq m, ordering edges zero sq m ->
                (forall j, In j sq -> (N.to_nat j < length edges)%nat) ->
                (forall j, In j sq -> count j sq <= nth (N.to_nat j) flow 0) ->
     exists cm, In cm R /\ (forall k, (k < length edges)%nat -> nth k (fst cm) 0 = count (N.of_nat k) sq) /\
                (forall x, snd cm x = m x)) ->
  (N.of_nat (length R) <= max_states)%N ->
  total_flow edges flow <= Z.of_N max_depth ->
  exists sq', bo_verdict (is_realizable (build_petri_net_from_flow vertices edges flow) max_states max_depth)
              = Found sq'.
Proof. intros. eapply is_realizable_complete_pathway; eauto. Qed.

(** non-vacuity: the pathway  0 -> A, A -> 0  with flow (1, 1): three reachable states
    (nothing fired / edge 0 fired, one A / both fired), the longest ordering has two steps; with
    max_states = 3 and max_depth = 2 every premise holds and the search answers [0; 1]. *)
Definition ex_edges : list edge := [([], [(0%N, 1)]); ([(0%N, 1)], [])].
Definition ex_A1 : smarking := fun s => if N.eqb s 0 then 1 else 0.
Definition ex_R : list (list Z * smarking) := [([0; 0], zero); ([1; 0], ex_A1); ([1; 1], zero)].

Lemma ex_range j : (N.to_nat j < 2)%nat -> j = 0%N \/ j = 1%N.
Proof. lia. Qed.

Ltac ex_cnt H :=
  rewrite !count_cons in H;
  try change (N.eqb 0 0) with true in H; try change (N.eqb 1 1) with true in H;
  try change (N.eqb 1 0) with false in H; try change (N.eqb 0 1) with false in H;
  try change (nth (N.to_nat 0) [1; 1] 0) with 1 in H; try change (nth (N.to_nat 1) [1; 1] 0) with 1 in H;
  cbv iota in H.

Example realizable_complete_nonvacuous :
  (exists sq, realizes ex_edges [1; 1] sq) /\
  (forall sq m, ordering ex_edges zero sq m ->
                (forall j, In j sq -> (N.to_nat j < length ex_edges)%nat) ->
                (forall j, In j sq -> count j sq <= nth (N.to_nat j) [1; 1] 0) ->
     exists cm, In cm ex_R /\ (forall k, (k < length ex_edges)%nat -> nth k (fst cm) 0 = count (N.of_nat k) sq) /\
                (forall x, snd cm x = m x)) /\
  (N.of_nat (length ex_R) <= 3)%N /\
  total_flow ex_edges [1; 1] <= Z.of_N 2 /\
  bo_verdict (is_realizable (build_petri_net_from_flow [0%N] ex_edges [1; 1]) 3 2) = Found [0%N; 1%N].
Proof.
  split; [|split; [|split; [|split]]].
  - exists [0%N; 1%N]. split; [|split].
    + apply ord_cons with (e := ([], [(0%N, 1)])); [reflexivity|intros s w []|].
      apply ord_cons with (e := ([(0%N, 1)], [])); [reflexivity| |].
      * intros s w [H|[]] _. inversion H; subst. vm_compute. discriminate.
      * constructor. intros s. unfold fire_edge, pweight, zero. simpl. destruct s; lia.
    + intros j Hj. destruct (ex_range j Hj) as [-> | ->]; reflexivity.
    + intros j [<-|[<-|[]]]; simpl; lia.
  - intros sq m Ho Hrng Hcnt. simpl length in Hrng.
    destruct sq as [|j1 sq].
    { inversion Ho as [ma mb Heq|]; subst. exists ([0; 0], zero). split; [simpl; auto|]. split.
      - intros k Hk. simpl in Hk. destruct k as [|[|]]; try lia; reflexivity.
      - intros x. simpl. apply Heq. }
    inversion Ho as [|m0 j0 e sq0 m0' Hnth Hcov Ho1]; subst.
    destruct (ex_range j1 (Hrng j1 (or_introl eq_refl))) as [-> | ->].
    2: { simpl in Hnth. inversion Hnth; subst e.
         specialize (Hcov 0%N 1 (or_introl eq_refl)). unfold zero in Hcov. lia. }
    simpl in Hnth. inversion Hnth; subst e. clear Hnth Hcov.
    destruct sq as [|j2 sq].
    { inversion Ho1 as [ma mb Heq|]; subst. exists ([1; 0], ex_A1). split; [simpl; auto|]. split.
      - intros k Hk. simpl in Hk. destruct k as [|[|]]; try lia; reflexivity.
      - intros x. rewrite <- Heq. unfold ex_A1, fire_edge, pweight, zero. simpl.
        destruct x; reflexivity. }
    inversion Ho1 as [|m0 j0 e sq0 m0' Hnth2 Hcov2 Ho2]; subst.
    destruct (ex_range j2 (Hrng j2 (or_intror (or_introl eq_refl)))) as [-> | ->].
    { exfalso. specialize (Hcnt 0%N (or_introl eq_refl)). ex_cnt Hcnt.
      pose proof (count_nonneg 0 sq). lia. }
    simpl in Hnth2. inversion Hnth2; subst e. clear Hnth2 Hcov2.
    destruct sq as [|j3 sq].
    { inversion Ho2 as [ma mb Heq|]; subst. exists ([1; 1], zero). split; [simpl; auto|]. split.
      - intros k Hk. simpl in Hk. destruct k as [|[|]]; try lia; reflexivity.
      - intros x. rewrite <- Heq. unfold fire_edge, pweight, zero. simpl. destruct x; lia. }
    exfalso.
    destruct (ex_range j3 (Hrng j3 (or_intror (or_intror (or_introl eq_refl))))) as [-> | ->].
    + specialize (Hcnt 0%N (or_introl eq_refl)). ex_cnt Hcnt.
      pose proof (count_nonneg 0 sq). lia.
    + specialize (Hcnt 1%N (or_intror (or_introl eq_refl))). ex_cnt Hcnt.
      pose proof (count_nonneg 1 sq). lia.
  - simpl. lia.
  - vm_compute. discriminate.
  - vm_compute. reflexivity.
Qed.
