(** C01 — GraphToMol on graphs with absent attributes (model/C01_G2M.v) *)
From Coq Require Import List NArith ZArith Bool.
From SK Require Import lib.LGraph model.C01_Model model.C01_String model.C01_G2M.
Import ListNotations.
Local Open Scope Z_scope.

(** with every attribute present it is graph_to_mol of model/C01_String.v, for every option value *)
Theorem g2m_lift ibo uhc (g : mgraph) : graph_to_wmol_g ibo uhc (lift_graph g) = graph_to_wmol_o ibo uhc g.
Proof.
  unfold graph_to_wmol_g, graph_to_wmol_o, graph_to_wmol, lift_graph, node_ids. cbn [gnodes gedges].
  rewrite !map_map. cbn [fst snd].
  assert (map (fun x : N * N * Z => edge_g (let '(u, v, o) := x in (u, v, Some o))) (gedges g) = gedges g) as ->.
  { induction (gedges g) as [|[[u v] o] r IH]; [reflexivity|]. cbn. rewrite IH. reflexivity. }
  destruct (w_bonds (map fst (gnodes g)) (gedges g)) as [bs|]; [|reflexivity].
  f_equal. f_equal. rewrite map_map. apply map_ext. intros [n a]. unfold watom_g, lift_node. cbn. destruct uhc; reflexivity.
Qed.

(** an absent attribute is its documented default: element "*", charge 0, no atom map (= 0), order 1; an absent hcount
    leaves the hydrogens to RDKit (-1), exactly as use_h_count=False does for every atom *)
Theorem g2m_absent ibo uhc (g : ggraph) w :
  graph_to_wmol_g ibo uhc g = Some w ->
  fst w = map (fun p => watom_g uhc (snd p)) (gnodes g) /\
  (forall a, watom_g uhc a =
     WA (match gg_el a with Some e => e | None => EL_STAR end) (match gg_ch a with Some c => c | None => 0 end)
        (match gg_amap a with Some m => m | None => 0 end)
        (match gg_hc a with Some h => if uhc then h else -1 | None => -1 end)) /\
  graph_to_wmol_g ibo uhc g =
  graph_to_wmol_g ibo uhc (LG (gnodes g) (map (fun e : N * N * option Z => let '(u, v, o) := e in (u, v, Some (dflt 2 o))) (gedges g))).
Proof.
  intros E. split; [|split].
  - unfold graph_to_wmol_g in E. destruct (w_bonds _ _); inversion E. reflexivity.
  - intros a. unfold watom_g, dflt. destruct (gg_hc a), uhc; reflexivity.
  - unfold graph_to_wmol_g. cbn [gnodes gedges node_ids]. rewrite map_map.
    assert (map (fun x : N * N * option Z => edge_g (let '(u, v, o) := x in (u, v, Some (dflt 2 o)))) (gedges g) = map edge_g (gedges g)) as ->
      by (apply map_ext; intros [[u v] o]; reflexivity).
    reflexivity.
Qed.

Definition ex_gg : ggraph :=
  LG [(1%N, GG (Some 70%N) None (Some 1) (Some 3)); (2%N, GG None (Some (-1)) None None)] [(1%N, 2%N, None)].
Example C01_g2m_absent_nonvacuous :
  graph_to_wmol_g false true ex_gg = Some ([WA 70%N 0 1 3; WA EL_STAR (-1) 0 (-1)], [(0%nat, 1%nat, 1%N)]) /\
  graph_to_wmol_g true false ex_gg = Some ([WA 70%N 0 1 (-1); WA EL_STAR (-1) 0 (-1)], [(0%nat, 1%nat, 1%N)]).
Proof. split; reflexivity. Qed.
