(** C01 — what its_to_rsmi hands to GraphToMol depends only on the label and bond maps of the ITS: the reaction centre,
    the list of its hydrogens (as a set), the folding of the other hydrogens.  Together with C01_RewriteProof this carries
    "every re-rooting / fragment reordering" through to the writer's input. *)
From Coq Require Import List NArith ZArith Bool Lia Arith Permutation.
From SK Require Import lib.LGraph lib.C01_GraphLemmas model.C01_Model model.C02_Model model.C01_String model.C01_Rewrite
  proof.C01_Proof proof.C02_Proof proof.C01_StringProof proof.C01_StringHyd proof.C01_StringHydExt proof.C01_StringPipe proof.C01_RenumWrite proof.C01_RewriteProof.
Import ListNotations.
Local Open Scope Z_scope.

(** * the reaction centre *)
Lemma rc_keys_adj (g : its) k : wf g ->
  (In k (node_ids (get_rc g)) <->
   In k (node_ids g) /\ exists v x, adj g k v = Some x /\ (changed x = true \/ is_hh g k v = true)).
Proof.
  intros W. rewrite rc_keys. split.
  - intros (a & b & x & I & Hs & Hk & Ik). split; [exact Ik|]. destruct Hk as [-> | ->].
    + exists b, x. split; [apply (wf_in_adj W I)|exact Hs].
    + exists a, x. split; [rewrite adj_sym; apply (wf_in_adj W I)|]. rewrite is_hh_sym. exact Hs.
  - intros (Ik & v & x & A & Hs). apply (wf_adj_iff W) in A. destruct A as [A|A].
    + exists k, v, x. auto.
    + exists v, k, x. rewrite is_hh_sym. auto.
Qed.

Section RcExt.
Variables g g' : its.
Hypothesis W : wf g.
Hypothesis W' : wf g'.
Hypothesis E : geq g' g.

Lemma is_h_ext n : is_h g' n = is_h g n.
Proof. unfold is_h. destruct E as [L _]. rewrite L. reflexivity. Qed.

Lemma rc_keys_ext k : In k (node_ids (get_rc g')) <-> In k (node_ids (get_rc g)).
Proof.
  rewrite (rc_keys_adj g' k W'), (rc_keys_adj g k W). destruct E as [L A].
  rewrite (geq_node_ids g g' k L). unfold is_hh.
  split; intros (Ik & v & x & Ad & Hs); (split; [exact Ik|]); exists v, x.
  - rewrite <- A, <- !is_h_ext. auto.
  - rewrite A, !is_h_ext. auto.
Qed.

Lemma rc_label_ext n : label (get_rc g') n = label (get_rc g) n.
Proof.
  destruct E as [L A]. apply option_ext. intros b. split; intros Lb.
  - pose proof (label_some_node Lb) as Ik. apply rc_keys_ext in Ik.
    apply rc_label_sound in Lb. destruct Lb as (a & La & ->). rewrite L in La. apply rc_label_keys; assumption.
  - pose proof (label_some_node Lb) as Ik. apply rc_keys_ext in Ik.
    apply rc_label_sound in Lb. destruct Lb as (a & La & ->). rewrite <- L in La. apply rc_label_keys; assumption.
Qed.
End RcExt.

(** * the preserve list, as a set *)
Lemma hlist_members (I : its) z : wf I ->
  (In z (hlist I) <-> exists n b, label (get_rc I) n = Some b /\ N.eqb (i_el b) EL_H = true /\ i_amap b = z).
Proof.
  intros W. pose proof (rc_wf I W) as Wr. unfold hlist. rewrite in_map_iff. split.
  - intros ([n b] & <- & F). apply filter_In in F. destruct F as [F Hb]. exists n, b. split; [|split; [exact Hb|reflexivity]].
    apply assoc_nodup_in; [apply Wr|exact F].
  - intros (n & b & L & Hb & <-). exists (n, b). split; [reflexivity|]. apply filter_In. split; [apply assoc_in; exact L|exact Hb].
Qed.

Lemma hlist_ext (I I' : its) : wf I -> wf I' -> geq I' I -> forall z, In z (hlist I') <-> In z (hlist I).
Proof.
  intros W W' E z. rewrite (hlist_members I' z W'), (hlist_members I z W).
  split; intros (n & b & L & K); exists n, b; (split; [|exact K]).
  - rewrite <- (rc_label_ext I I' W W' E). exact L.
  - rewrite (rc_label_ext I I' W W' E). exact L.
Qed.

(** * implicit_hydrogen reads the preserve list as a set *)
Lemma memZ_members p p' z : (forall x, In x p <-> In x p') -> memZ z p = memZ z p'.
Proof.
  intros M. destruct (memZ z p) eqn:E1, (memZ z p') eqn:E2; try reflexivity; exfalso.
  - apply memZ_spec, M, memZ_spec in E1. congruence.
  - apply memZ_spec, M, memZ_spec in E2. congruence.
Qed.

Lemma implicit_hydrogen_pres_set (g : mgraph) p p' : (forall x, In x p <-> In x p') -> implicit_hydrogen g p = implicit_hydrogen g p'.
Proof.
  intros M. assert (preserved g p = preserved g p') as EP.
  { unfold preserved. f_equal. apply filter_ext. intros [n a]. cbn [snd]. rewrite (memZ_members p p' _ M). reflexivity. }
  unfold implicit_hydrogen, ih_removed. rewrite EP. reflexivity.
Qed.

Lemma smi_graph_ext (g g' : mgraph) p p' : wf g -> wf g' -> geq g' g -> (forall x, In x p' <-> In x p) ->
  geq (smi_graph g' p') (smi_graph g p).
Proof.
  intros W W' [L A] M. destruct p as [|z p], p' as [|z' p'].
  - split; assumption.
  - exfalso. apply (proj1 (M z')). left. reflexivity.
  - exfalso. apply (proj2 (M z)). left. reflexivity.
  - cbn [smi_graph]. rewrite (implicit_hydrogen_pres_set g' (z' :: p') (z :: p) M).
    apply implicit_hydrogen_ext; assumption.
Qed.

(** * what its_to_rsmi hands to GraphToMol *)
Theorem its_to_graphs_ext (I I' : its) : wf I -> wf I' -> geq I' I ->
  geq (fst (its_to_graphs I')) (fst (its_to_graphs I)) /\ geq (snd (its_to_graphs I')) (snd (its_to_graphs I)).
Proof.
  intros W W' E. destruct (decompose_ext I I' W W' E) as [Eg Eh]. unfold its_to_graphs. cbn [fst snd].
  split; apply smi_graph_ext; try assumption; try (apply dec_wf; assumption); apply hlist_ext; assumption.
Qed.

(** ... for a reaction written with its sides re-rooted / reordered *)
Theorem rewritten_written sr sp mr mr' mp mp' :
  rewritten sr mr mr' -> rewritten sp mp mp' -> rmol_ok mr -> rmol_ok mr' -> rmol_ok mp -> rmol_ok mp' ->
  wf (graph_of mr) -> wf (graph_of mp) -> wf (graph_of mr') -> wf (graph_of mp') ->
  let I := its_construct (graph_of mr) (graph_of mp) in
  let I' := its_construct (graph_of mr') (graph_of mp') in
  (forall z, In z (hlist I') <-> In z (hlist I)) /\
  geq (fst (its_to_graphs I')) (fst (its_to_graphs I)) /\ geq (snd (its_to_graphs I')) (snd (its_to_graphs I)).
Proof.
  intros Rr Rp Or Or' Op Op' Wr Wp Wr' Wp' I I'.
  destruct (rewritten_its sr sp mr mr' mp mp' Rr Rp Or Or' Op Op' Wr Wp Wr' Wp') as (_ & _ & GI & _).
  assert (wf I /\ wf I') as [WI WI'] by (split; apply its_wf; assumption).
  split; [apply hlist_ext; assumption|apply its_to_graphs_ext; assumption].
Qed.

(** non-vacuity: hydrogenation of ethene with mapped H2 (C01_StringPipeH.ex_hr / ex_hp), product side with its atoms in another order *)
Definition ex_hp_rw : rmol :=
  RM [RA EL_H false 0 0 4%N [70%N]; RA 70%N false 2 0 2%N [70%N; EL_H]; RA 70%N false 2 0 1%N [70%N; EL_H]; RA EL_H false 0 0 3%N [70%N]]
     [(1%nat, 0%nat, 2); (3%nat, 2%nat, 2); (2%nat, 1%nat, 2)].
Definition ex_hs (i : nat) : nat := match i with 0 => 2 | 1 => 3 | 2 => 1 | 3 => 0 | n => n end%nat.

Example C01_rewritten_written_nonvacuous :
  rewritten ex_hs ex_hp ex_hp_rw /\ rewritten (fun i => i) ex_hr ex_hr /\ rmol_ok ex_hp_rw /\ wf (graph_of ex_hp_rw) /\
  hlist (its_construct (graph_of ex_hr) (graph_of ex_hp_rw)) = [3; 4] /\ hlist (its_construct (graph_of ex_hr) (graph_of ex_hp)) = [3; 4] /\
  gnodes (graph_of ex_hp_rw) <> gnodes (graph_of ex_hp) /\ gedges (graph_of ex_hp_rw) <> gedges (graph_of ex_hp).
Proof.
  split; [|split; [|split; [|split; [|split; [|split]]]]].
  - split; [reflexivity|]. split.
    { intros i j Hi Hj E. cbn in Hi, Hj. destruct i as [|[|[|[|i]]]]; destruct j as [|[|[|[|j]]]]; cbn in E; try lia; try congruence. }
    split.
    { intros i a E. destruct i as [|[|[|[|i]]]]; cbn in E |- *; exact E. }
    split.
    { intros i j o I. cbn in I. destruct I as [I|[I|[I|[]]]]; inversion I; subst; cbn; intuition reflexivity. }
    split.
    { intros i j o I. cbn in I. destruct I as [I|[I|[I|[]]]]; inversion I; subst.
      - exists 2%nat, 3%nat. cbn. intuition reflexivity.
      - exists 1%nat, 0%nat. cbn. intuition reflexivity.
      - exists 0%nat, 2%nat. cbn. intuition reflexivity. }
    intros i j o I. cbn in I. destruct I as [I|[I|[I|[]]]]; inversion I; subst; cbn; lia.
  - split; [reflexivity|]. split; [intros; assumption|]. split; [intros; assumption|]. split; [intros; left; assumption|].
    split; [intros i j o I; exists i, j; auto|].
    intros i j o I. cbn in I. destruct I as [I|[I|[]]]; inversion I; subst; cbn; lia.
  - split; cbn; repeat constructor; cbn; intuition discriminate.
  - apply graph_of_wf; [split; cbn; repeat constructor; cbn; intuition discriminate|].
    intros u v o I; cbn in I; repeat (destruct I as [E|I]; [inversion E; discriminate|]); destruct I.
  - reflexivity.
  - reflexivity.
  - split; discriminate.
Qed.

(** both halves of theorem C01_written_invariant in one statement *)
Lemma written_invariant_all :
  (forall I I' : its, wf I -> wf I' -> geq I' I ->
     (forall z, In z (hlist I') <-> In z (hlist I)) /\
     geq (fst (its_to_graphs I')) (fst (its_to_graphs I)) /\ geq (snd (its_to_graphs I')) (snd (its_to_graphs I))) /\
  (forall (sr sp : nat -> nat) (mr mr' mp mp' : rmol),
     rewritten sr mr mr' -> rewritten sp mp mp' -> rmol_ok mr -> rmol_ok mr' -> rmol_ok mp -> rmol_ok mp' ->
     wf (graph_of mr) -> wf (graph_of mp) -> wf (graph_of mr') -> wf (graph_of mp') ->
     let I := its_construct (graph_of mr) (graph_of mp) in
     let I' := its_construct (graph_of mr') (graph_of mp') in
     (forall z, In z (hlist I') <-> In z (hlist I)) /\
     geq (fst (its_to_graphs I')) (fst (its_to_graphs I)) /\ geq (snd (its_to_graphs I')) (snd (its_to_graphs I))).
Proof.
  split.
  - intros I I' W W' E. split; [apply hlist_ext; assumption|apply its_to_graphs_ext; assumption].
  - exact rewritten_written.
Qed.
