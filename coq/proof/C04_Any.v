(** C04 — regeneration along ANY mapping that fits: the identity composed with a symmetry of the rule (what the pruning by
    rule automorphisms may keep instead of the identity) regenerates the reaction as well. *)
From Coq Require Import List NArith ZArith Bool Lia Permutation.
From SK Require Import lib.Tok lib.LGraph model.C03_Model model.C04_Model proof.C03_Proof proof.C03_Glue proof.C03_Backward
                       proof.C04_Glue proof.C04_Template.
Import ListNotations.
Local Open Scope Z_scope.

Lemma mget_in_nodup (m : mapping) p h : NoDup (map fst m) -> In (p, h) m -> mget m p = Some h.
Proof. intros Hnd I. unfold mget. apply assoc_nodup_in; assumption. Qed.
Lemma in_snd_mget (m : mapping) h : NoDup (map fst m) -> In h (map snd m) -> exists p, mget m p = Some h.
Proof.
  intros Hnd I. apply in_map_iff in I. destruct I as ([p h'] & E & I). simpl in E; subst. exists p. apply mget_in_nodup; assumption.
Qed.
Lemma mget_in_snd (m : mapping) p h : mget m p = Some h -> In h (map snd m).
Proof. intros E. unfold mget in E. apply assoc_in in E. change h with (snd (p, h)). apply in_map. exact E. Qed.

Section RegenM.
  Variables (A B : hostg) (tpl : its) (m : mapping).
  Hypothesis PW : pair_wf A B.
  Hypothesis Hwr : wf_rcb tpl = true.
  Hypothesis Hm : match_rcb A tpl m = true.
  Hypothesis MN : forall n a, In (n, a) (gnodes tpl) ->
    exists h x y, mget m n = Some h /\ label A h = Some x /\ label B h = Some y /\ node_fit a x y.
  Hypothesis ME : forall u v x, In (u, v, x) (gedges tpl) ->
    exists hu hv, mget m u = Some hu /\ mget m v = Some hv /\ eG x = order_in A hu hv /\ eH x = order_in B hu hv.
  Hypothesis MCe : forall a b, order_in A a b <> order_in B a b -> find_hit m (gedges tpl) a b <> None.
  Hypothesis MCn : forall h x y, label A h = Some x -> label B h = Some y -> sel x <> sel y -> In h (map snd m).
  Let HA := pw_A _ _ PW.
  Let HB := pw_B _ _ PW.
  Let MO : match_ok A tpl m := match_rcb_sound A tpl m (wf_rc_nodup tpl Hwr) Hm.

  Lemma keys_in_tpl p h : mget m p = Some h -> In p (node_ids tpl).
  Proof.
    intros E. apply (Permutation_in _ (Permutation_sym (mo_perm _ _ _ MO))).
    unfold mget in E. apply assoc_in in E. change p with (fst (p, h)). apply in_map. exact E.
  Qed.

  Lemma m_glue_some : exists T, glue A tpl m = Some T.
  Proof.
    destruct (glue A tpl m) as [T|] eqn:E; [eauto|]. exfalso.
    apply (glue_none_iff A tpl m Hwr Hm) in E.
    destruct E as (u & v & x & hu & hv & o & I & E0 & E1 & E2 & Ea & _).
    destruct (ME u v x I) as (hu' & hv' & E1' & E2' & Eg & _). rewrite E1 in E1'. rewrite E2 in E2'.
    inversion E1'; inversion E2'; subst hu' hv'. destruct (order_in_pos A hu hv o HA Ea). lia.
  Qed.

  Variable T : its.
  Hypothesis Hg : glue A tpl m = Some T.

  Lemma mT_left : node_ids T = node_ids A /\ (forall n, option_map iG (label T n) = label A n) /\ (forall a b, bondG T a b = adj A a b).
  Proof. c03 (left_is_host A tpl m T) as H. exact H. Qed.
  Lemma mT_nodup : NoDup (node_ids T).
  Proof. c03 (glued_nodup A tpl m T) as H. exact H. Qed.
  Lemma mT_simple : simpleP (pairs (gedges T)).
  Proof. c03 (glued_simple A tpl m T) as H. exact H. Qed.

  Lemma m_product_nodes h : option_map (fun a => sel (iH a)) (label T h) = option_map sel (label B h).
  Proof.
    destruct (label A h) as [x|] eqn:Ex.
    - destruct (in_ids_label B h (proj1 (pw_ids _ _ PW h) (label_some_in A h x Ex))) as [y Ey]. rewrite Ey. simpl.
      destruct (in_dec N.eq_dec h (map snd m)) as [I|NI].
      + destruct (in_snd_mget m h (mo_keys _ _ _ MO) I) as [p Ep].
        destruct (in_ids_label tpl p (keys_in_tpl p h Ep)) as [pn Epn].
        assert (Ip : In (p, pn) (gnodes tpl)) by (apply assoc_in; exact Epn).
        c03 (glued_node A tpl m T) as GN. destruct (GN p h pn Ep Ip) as (hn & Eh & ET).
        rewrite ET. simpl. rewrite Ex in Eh. inversion Eh; subst hn.
        destruct (MN p pn Ip) as (h' & x' & y' & Ep' & Ex' & Ey' & _ & _ & _ & E4 & _ & E6).
        rewrite Ep in Ep'. inversion Ep'; subst h'. rewrite Ex in Ex'. rewrite Ey in Ey'. inversion Ex'; inversion Ey'; subst x' y'.
        unfold sel; simpl. rewrite (pw_el _ _ PW h x y Ex Ey), E4. f_equal. f_equal. f_equal. lia.
      + c03 (unglued_node A tpl m T) as UN. rewrite (UN h) by exact NI. rewrite Ex. simpl. f_equal.
        destruct (sel_dec x y) as [E|NE]; [exact E|]. exfalso. exact (NI (MCn h x y Ex Ey NE)).
    - assert (HT : label T h = None).
      { destruct (label T h) as [a|] eqn:ET; [|reflexivity]. exfalso.
        apply (label_none A h Ex). rewrite <- (proj1 mT_left). exact (label_some_in T h a ET). }
      rewrite HT. destruct (label B h) as [y|] eqn:Ey; [|reflexivity]. exfalso.
      apply (label_none A h Ex). apply (pw_ids _ _ PW h). exact (label_some_in B h y Ey).
  Qed.

  Lemma m_product_bonds a b : bondH T a b = adj B a b.
  Proof.
    unfold bondH. c03 (glue_adj A tpl m T) as H. specialize (H a b).
    destruct (find_hit m (gedges tpl) a b) as [x|] eqn:Ef.
    - destruct H as (r & Hr & Ha). rewrite Ha.
      c03 (hit_edge A tpl m) as HE. destruct (HE a b x Ef) as (u & v & hu & hv & I & E1 & E2 & Hp & _).
      destruct (ME u v x I) as (hu' & hv' & E1' & E2' & Eg & Eh). rewrite E1 in E1'. rewrite E2 in E2'.
      inversion E1'; inversion E2'; subst hu' hv'.
      rewrite (order_in_peq A hu hv a b Hp) in Eg. rewrite (order_in_peq B hu hv a b Hp) in Eh.
      assert (Er : eH r = order_in B a b).
      { destruct (adj A a b) as [o|] eqn:Ea; simpl in Hr.
        - destruct (order_in_pos A a b o HA Ea) as [Eo Ho]. destruct (Z.eqb_spec (eG x) 0) as [E0|E0]; [lia|].
          inversion Hr; subst. exact Eh.
        - inversion Hr; subst. exact Eh. }
      rewrite Er. apply order_in_bond. exact HB.
    - rewrite H. assert (E : order_in A a b = order_in B a b).
      { destruct (Z.eq_dec (order_in A a b) (order_in B a b)) as [E|NE]; [exact E|]. exfalso. exact (MCe a b NE Ef). }
      rewrite <- (order_in_eq_adj A B a b HA HB E). destruct (adj A a b) as [o|] eqn:Ea; simpl; [|reflexivity].
      unfold lift, eH; simpl. pose proof (wf_host_pos A a b o HA Ea). destruct (Z.ltb_spec 0 o); [reflexivity|lia].
  Qed.

  Theorem m_regen_exact : regen_exact T A B = true.
  Proof.
    unfold regen_exact, its_decompose. apply andb_true_intro; split.
    - apply mol_eqb_intro.
      + apply dec_nodes_ok. exact mT_nodup.
      + apply molg_of_nodes_ok. exact (wf_host_nodup A HA).
      + apply dec_edges_ok. exact mT_simple.
      + apply molg_of_edges_ok. exact HA.
      + intros n. rewrite dec_label, molg_of_label. pose proof (proj1 (proj2 mT_left) n) as E. rewrite <- E.
        destruct (label T n); reflexivity.
      + intros u v. rewrite (dec_adj iG eG T u v mT_simple). exact (proj2 (proj2 mT_left) u v).
    - apply mol_eqb_intro.
      + apply dec_nodes_ok. exact mT_nodup.
      + apply molg_of_nodes_ok. exact (wf_host_nodup B HB).
      + apply dec_edges_ok. exact mT_simple.
      + apply molg_of_edges_ok. exact HB.
      + intros n. rewrite dec_label, molg_of_label. pose proof (m_product_nodes n) as E.
        destruct (label T n) as [a|], (label B n) as [y|]; simpl in *; try discriminate; [|reflexivity].
        unfold sel in E. inversion E. unfold sel3; simpl. congruence.
      + intros u v. rewrite (dec_adj iH eH T u v mT_simple). exact (m_product_bonds u v).
  Qed.
End RegenM.

(** * a symmetry of the rule: a bijection of its atoms (with inverse [s']) preserving both tuples of every atom and the
      label of every bond *)
Record rule_aut (t : its) (s s' : N -> N) : Prop := {
  ra_in : forall n, In n (node_ids t) -> In (s n) (node_ids t) /\ In (s' n) (node_ids t) /\ s' (s n) = n /\ s (s' n) = n;
  ra_node : forall n a, label t n = Some a -> exists a', label t (s n) = Some a' /\ iG a' = iG a /\ iH a' = iH a;
  ra_edge : forall u v x, In (u, v, x) (gedges t) -> adj t (s u) (s v) = Some x;
  ra_edge' : forall u v x, In (u, v, x) (gedges t) -> adj t (s' u) (s' v) = Some x }.
(** the identity match composed with it: pattern atom n on substrate atom s n *)
Definition aut_map (t : its) (s : N -> N) : mapping := map (fun n => (n, s n)) (node_ids t).

Lemma aut_map_fst t s : map fst (aut_map t s) = node_ids t.
Proof. unfold aut_map. rewrite map_map. simpl. apply map_id. Qed.
Lemma aut_map_snd t s : map snd (aut_map t s) = map s (node_ids t).
Proof. unfold aut_map. rewrite map_map. reflexivity. Qed.
Lemma mget_aut t s n : In n (node_ids t) -> mget (aut_map t s) n = Some (s n).
Proof.
  unfold mget, aut_map. induction (node_ids t) as [|k r IH]; simpl; [intros []|].
  destruct (N.eqb_spec n k) as [->|Hne]; [reflexivity|]. intros [E|I]; [congruence|auto].
Qed.
Lemma mget_aut_inv t s n h : mget (aut_map t s) n = Some h -> h = s n /\ In n (node_ids t).
Proof.
  unfold mget, aut_map. induction (node_ids t) as [|k r IH]; simpl; [discriminate|].
  destruct (N.eqb_spec n k) as [->|Hne].
  - intros [= <-]. auto.
  - intros H. destruct (IH H). auto.
Qed.
Lemma NoDup_map_inj {X Y} (f : X -> Y) (l : list X) : NoDup l -> (forall a b, In a l -> In b l -> f a = f b -> a = b) -> NoDup (map f l).
Proof.
  induction l as [|x r IH]; simpl; intros Hnd Hi; [constructor|]. inversion Hnd; subst. constructor.
  - intros I. apply in_map_iff in I. destruct I as (y & E & I). assert (y = x) by (apply Hi; auto). subst. contradiction.
  - apply IH; auto.
Qed.

Section Aut.
  Variables (A B : hostg) (tpl : its) (s s' : N -> N).
  Hypothesis PW : pair_wf A B.
  Hypothesis D : describes A B tpl.
  Hypothesis RA : rule_aut tpl s s'.
  Let m := aut_map tpl s.
  Let Hwr := d_wf _ _ _ D.
  Let HA := pw_A _ _ PW.
  Let Hnd : NoDup (node_ids tpl) := wf_rc_nodup tpl Hwr.

  Lemma aut_MN n a : In (n, a) (gnodes tpl) ->
    exists h x y, mget m n = Some h /\ label A h = Some x /\ label B h = Some y /\ node_fit a x y.
  Proof.
    intros I. assert (In_ : In n (node_ids tpl)) by (unfold node_ids; change n with (fst (n, a)); apply in_map; exact I).
    exists (s n). destruct (ra_node _ _ _ RA n a (label_in tpl n a Hnd I)) as (a' & Ea' & EG & EH).
    destruct (d_nodes _ _ _ D (s n) a' (assoc_in (s n) (gnodes tpl) Ea')) as (x & y & Ex & Ey & NF).
    exists x, y. split; [exact (mget_aut tpl s n In_)|]. split; [exact Ex|]. split; [exact Ey|].
    unfold node_fit in *. rewrite <- EG, <- EH. exact NF.
  Qed.

  Lemma aut_ME u v x : In (u, v, x) (gedges tpl) ->
    exists hu hv, mget m u = Some hu /\ mget m v = Some hv /\ eG x = order_in A hu hv /\ eH x = order_in B hu hv.
  Proof.
    intros I. destruct (d_edges _ _ _ D u v x I) as (Iu & Iv & _ & _).
    exists (s u), (s v). split; [exact (mget_aut tpl s u Iu)|]. split; [exact (mget_aut tpl s v Iv)|].
    pose proof (ra_edge _ _ _ RA u v x I) as Ea. unfold adj in Ea. apply find_edge_in in Ea. destruct Ea as (p & q & I' & Hp).
    destruct (d_edges _ _ _ D p q x I') as (_ & _ & Eg & Eh).
    rewrite (order_in_peq A p q (s u) (s v) Hp) in Eg. rewrite (order_in_peq B p q (s u) (s v) Hp) in Eh. auto.
  Qed.

  Lemma aut_match : match_rcb A tpl m = true.
  Proof.
    unfold match_rcb, m. rewrite aut_map_fst, aut_map_snd.
    rewrite (fits_nodupb A B tpl (d_fits _ _ _ D)). simpl.
    apply andb_true_intro; split; [apply andb_true_intro; split; [apply andb_true_intro; split|]|].
    - apply NoDup_nodupb. apply NoDup_map_inj; [exact Hnd|]. intros a b Ia Ib E.
      destruct (ra_in _ _ _ RA a Ia) as (_ & _ & Ea & _). destruct (ra_in _ _ _ RA b Ib) as (_ & _ & Eb & _). congruence.
    - unfold aut_map, node_ids. rewrite !map_length. apply Nat.eqb_refl.
    - apply forallb_forall. intros [n a] I. unfold rc_node_okb. simpl.
      destruct (aut_MN n a I) as (h & x & y & Eh & Ex & _ & E1 & _ & E3 & _ & E5 & _). fold m. rewrite Eh, Ex.
      rewrite E1, E3, N.eqb_refl, Z.eqb_refl. simpl. apply Z.leb_le. exact E5.
    - apply forallb_forall. intros [[u v] x] I. unfold rc_edge_okb.
      destruct (aut_ME u v x I) as (hu & hv & E1 & E2 & Eg & _). fold m. rewrite E1, E2.
      destruct (0 <? eG x) eqn:E; [|reflexivity]. apply Z.ltb_lt in E.
      rewrite Eg in E. unfold order_in in E, Eg. destruct (adj A hu hv) as [o|]; [|lia]. apply Z.eqb_eq. congruence.
  Qed.

  Lemma aut_MCe a b : order_in A a b <> order_in B a b -> find_hit m (gedges tpl) a b <> None.
  Proof.
    intros NE Ef. destruct (d_cover_e _ _ _ D a b NE) as [x Ex]. unfold adj in Ex. apply find_edge_in in Ex.
    destruct Ex as (p & q & I & Hp). destruct (d_edges _ _ _ D p q x I) as (Ip & Iq & _).
    pose proof (ra_edge' _ _ _ RA p q x I) as Ea. unfold adj in Ea. apply find_edge_in in Ea. destruct Ea as (u & v & I' & Hp').
    destruct (d_edges _ _ _ D u v x I') as (Iu & Iv & _).
    pose proof (find_hit_none_in m (gedges tpl) a b (u, v, x) Ef I') as Hh.
    unfold hits, img, m in Hh. rewrite (mget_aut tpl s u Iu), (mget_aut tpl s v Iv) in Hh.
    destruct (ra_in _ _ _ RA p Ip) as (_ & _ & _ & Ep). destruct (ra_in _ _ _ RA q Iq) as (_ & _ & _ & Eq).
    (* {u, v} = {s' p, s' q}, hence {s u, s v} = {p, q} = {a, b} *)
    assert (Hs : peq (s u) (s v) p q = true).
    { unfold peq in Hp' |- *. apply orb_prop in Hp'. destruct Hp' as [H|H]; apply andb_prop in H; destruct H as [H1 H2];
        apply N.eqb_eq in H1; apply N.eqb_eq in H2; subst u v; rewrite Ep, Eq, !N.eqb_refl; simpl; [reflexivity|apply orb_true_r]. }
    rewrite (peq_trans _ _ _ _ _ _ (eq_trans (peq_swap p q (s u) (s v)) Hs) Hp) in Hh. discriminate.
  Qed.

  Lemma aut_MCn h x y : label A h = Some x -> label B h = Some y -> sel x <> sel y -> In h (map snd m).
  Proof.
    intros Ex Ey NE. pose proof (d_cover_n _ _ _ D h x y Ex Ey NE) as I.
    destruct (ra_in _ _ _ RA h I) as (_ & I' & _ & E). unfold m. rewrite aut_map_snd. rewrite <- E. apply in_map. exact I'.
  Qed.

  (** the identity composed with a symmetry of the rule is a valid match, and gluing along it gives the reaction again *)
  Theorem aut_regen : match_rcb A tpl (aut_map tpl s) = true /\
    exists T, glue A tpl (aut_map tpl s) = Some T /\ regen_exact T A B = true.
  Proof.
    split; [exact aut_match|].
    destruct (m_glue_some A B tpl m PW Hwr aut_match aut_ME) as [T ET]. exists T. split; [exact ET|].
    exact (m_regen_exact A B tpl m PW Hwr aut_match aut_MN aut_ME aut_MCe aut_MCn T ET).
  Qed.
End Aut.
