(** C03 — which partner _explicit_h chooses INSIDE a hydrogen-transfer group, in closed form.

    The code walks the donors in visiting order and, for every hydrogen a donor has to give, takes the first recipient
    that still has room (first fit).  Proved: the list of (donor, recipient) pairs of one group is exactly

        combine (donors, each repeated as often as its surplus) (recipients, each repeated as often as its deficit)

    i.e. the k-th hydrogen given goes to the k-th free place; the pairing exists iff the places suffice.  So the pairing
    is a function of the two visiting orders alone — nothing else of the graph enters.  Stdlib lists only. *)
From Coq Require Import List NArith ZArith Bool Lia.
From SK Require Import lib.Tok lib.LGraph model.C03_Model model.C03_Order proof.C03_Proof proof.C03_Glue proof.C03_ExplicitH
                       proof.C03_ExplicitTotal proof.C03_WiringCount proof.C03_Ord.
Import ListNotations.
Local Open Scope Z_scope.

(** the free places of a working list of recipients *)
Definition rslots (rs : list (N * Z)) : list N := flat_map (fun p => repeat (fst p) (Z.to_nat (snd p))) rs.

Lemma take_recip_slots rs : forall x rs', take_recip rs = Some (x, rs') -> rslots rs = x :: rslots rs'.
Proof.
  induction rs as [|[r cap] rest IH]; simpl; intros x rs' H; [discriminate|].
  destruct (Z.ltb_spec 0 cap) as [Hp|Hp].
  - inversion H; subst. unfold rslots. simpl. replace (Z.to_nat cap) with (S (Z.to_nat (cap - 1))) by lia. reflexivity.
  - destruct (take_recip rest) as [[x' rest']|] eqn:E; [|discriminate]. inversion H; subst.
    unfold rslots in *. simpl. replace (Z.to_nat cap) with O by lia. simpl. exact (IH x rest' eq_refl).
Qed.
Lemma take_recip_none_slots rs : take_recip rs = None -> rslots rs = [].
Proof.
  induction rs as [|[r cap] rest IH]; simpl; intros H; [reflexivity|].
  destruct (Z.ltb_spec 0 cap) as [Hp|Hp]; [discriminate|].
  destruct (take_recip rest) as [[x' rest']|] eqn:E; [discriminate|].
  unfold rslots in *. simpl. replace (Z.to_nat cap) with O by lia. simpl. exact (IH eq_refl).
Qed.

Lemma combine_app {A B} (a1 a2 : list A) (b1 b2 : list B) : length a1 = length b1 ->
  combine (a1 ++ a2) (b1 ++ b2) = combine a1 b1 ++ combine a2 b2.
Proof.
  revert b1. induction a1 as [|x r IH]; intros [|y s] H; simpl in *; try discriminate; [reflexivity|].
  rewrite IH by lia. reflexivity.
Qed.
Lemma combine_repeat {B} (d : N) (l : list B) : combine (repeat d (length l)) l = map (pair d) l.
Proof. induction l as [|y s IH]; simpl; [reflexivity|]. rewrite IH. reflexivity. Qed.
Lemma combine_short {A B} (a : list A) (b s : list B) : length a = length b -> combine a (b ++ s) = combine a b.
Proof.
  revert b. induction a as [|x r IH]; intros [|y t] H; simpl in *; try discriminate; [reflexivity|].
  rewrite IH by lia. reflexivity.
Qed.

Lemma donate_zip d k : forall rs acc rs' acc', donate d k rs acc = Some (rs', acc') ->
  exists pre, rslots rs = pre ++ rslots rs' /\ length pre = k /\ acc' = acc ++ map (pair d) pre.
Proof.
  induction k as [|k IH]; intros rs acc rs' acc' H.
  - simpl in H. inversion H; subst. exists []. simpl. rewrite app_nil_r. auto.
  - cbn [donate] in H. destruct (take_recip rs) as [[r rs1]|] eqn:E; [|discriminate].
    destruct (IH _ _ _ _ H) as (pre & P1 & P2 & P3). exists (r :: pre). split; [|split].
    + rewrite (take_recip_slots rs r rs1 E), P1. reflexivity.
    + simpl. lia.
    + rewrite P3, <- app_assoc. reflexivity.
Qed.

Lemma slots_cons f d r : slots f (d :: r) = repeat d (Z.to_nat (f d)) ++ slots f r.
Proof. reflexivity. Qed.

Lemma donor_fold_zip dl ds : forall rs acc rs' acc', fold_left (donor_step dl) ds (Some (rs, acc)) = Some (rs', acc') ->
  exists pre, rslots rs = pre ++ rslots rs' /\ length pre = length (slots dl ds) /\ acc' = acc ++ combine (slots dl ds) pre.
Proof.
  induction ds as [|d r IH]; cbn [fold_left]; intros rs acc rs' acc' H.
  - inversion H; subst. exists []. simpl. rewrite app_nil_r. auto.
  - unfold donor_step at 2 in H. destruct (donate d (Z.to_nat (dl d)) rs acc) as [[rs1 acc1]|] eqn:E;
      [|rewrite donor_fold_none in H; discriminate].
    destruct (donate_zip d _ _ _ _ _ E) as (pre1 & A1 & A2 & A3).
    destruct (IH _ _ _ _ H) as (pre2 & B1 & B2 & B3).
    exists (pre1 ++ pre2). rewrite slots_cons. split; [|split].
    + rewrite A1, B1, app_assoc. reflexivity.
    + rewrite !app_length, repeat_length. lia.
    + rewrite combine_app by (rewrite repeat_length; lia). rewrite <- A2, combine_repeat, B3, A3, <- app_assoc. reflexivity.
Qed.

Lemma rslots_map (f : N -> Z) l : rslots (map (fun n => (n, f n)) l) = slots f l.
Proof. unfold rslots, slots. induction l as [|x r IH]; simpl; [reflexivity|]. rewrite IH. reflexivity. Qed.

Lemma zip_migrations_eq T comp :
  zip_migrations T comp =
  combine (slots (dl_of T) (filter (fun n => 0 <? dl_of T n) comp)) (slots (fun n => - dl_of T n) (filter (fun n => dl_of T n <? 0) comp)).
Proof. reflexivity. Qed.

(** first fit = zip *)
Lemma donor_fold_zip_all dl (f : N -> Z) ds recs rs acc :
  fold_left (donor_step dl) ds (Some (map (fun n => (n, f n)) recs, [])) = Some (rs, acc) ->
  acc = combine (slots dl ds) (slots f recs).
Proof.
  intros E. destruct (donor_fold_zip _ _ _ _ _ _ E) as (pre & P1 & P2 & P3).
  rewrite (rslots_map f) in P1. rewrite P1, P3, combine_short by (symmetry; exact P2). reflexivity.
Qed.

Theorem first_fit_zip T comp ms : migrations_of T comp = Some ms -> ms = zip_migrations T comp.
Proof.
  unfold migrations_of, zip_migrations. cbv zeta.
  set (dl := fun n : N => match label T n with Some a => delta_h a | None => 0 end).
  change (fold_left _ (filter (fun n => 0 <? dl n) comp) (Some (map (fun n => (n, - dl n)) (filter (fun n => dl n <? 0) comp), [])))
    with (fold_left (donor_step dl) (filter (fun n => 0 <? dl n) comp)
                    (Some (map (fun n => (n, - dl n)) (filter (fun n => dl n <? 0) comp), []))).
  destruct (fold_left _ _ _) as [[rs acc]|] eqn:E; [|discriminate]. intros H. inversion H; subst acc.
  exact (donor_fold_zip_all dl (fun n => - dl n) _ _ _ _ E).
Qed.

(** the closed form of the pairing of one group *)
Theorem migrations_of_closed T comp :
  migrations_of T comp = if comp_balancedb T comp then Some (zip_migrations T comp) else None.
Proof.
  pose proof (migrations_of_total T comp) as Ht. rewrite comp_okb_balancedb in Ht.
  destruct (migrations_of T comp) as [ms|] eqn:E; rewrite Ht; [|reflexivity].
  rewrite (first_fit_zip T comp ms E). reflexivity.
Qed.

Lemma pairs_eqb_refl l : pairs_eqb l l = true.
Proof. induction l as [|[a b] r IH]; simpl; [reflexivity|]. unfold pair_eqb. simpl. rewrite !N.eqb_refl, IH. reflexivity. Qed.

(** the bit the correspondence evaluates on every graph is always true *)
Theorem zip_okb_true ord T : zip_okb ord T = true.
Proof.
  unfold zip_okb. apply forallb_forall. intros c _. destruct (migrations_of T (ord c)) as [ms|] eqn:E; [|reflexivity].
  rewrite (first_fit_zip T (ord c) ms E). apply pairs_eqb_refl.
Qed.

(** all groups together: the list of migrations of _explicit_h is the concatenation of the groups' zips *)
Lemma comp_foldo_zip ord T cs : forall acc res, fold_left (comp_step_ord ord T) cs (Some acc) = Some res ->
  res = acc ++ flat_map (fun c => zip_migrations T (ord c)) cs.
Proof.
  induction cs as [|c r IH]; cbn [fold_left]; intros acc res H.
  - inversion H; subst. simpl. rewrite app_nil_r. reflexivity.
  - unfold comp_step_ord at 2 in H. destruct (migrations_of T (ord c)) as [ms|] eqn:E; [|rewrite comp_foldo_none in H; discriminate].
    rewrite (IH _ _ H), (first_fit_zip T (ord c) ms E). simpl. rewrite <- app_assoc. reflexivity.
Qed.

Theorem explicit_h_ord_migrations ord T T' ms : explicit_h_ord ord T = Some (T', ms) ->
  ms = flat_map (fun c => zip_migrations T (ord c)) (components (pair_to_nodes T)) /\ T' = apply_migrations T ms.
Proof.
  unfold explicit_h_ord. destruct (all_migrations_ord ord T) as [l|] eqn:E; [|discriminate]. intros H. inversion H; subst.
  split; [|reflexivity]. unfold all_migrations_ord in E. exact (comp_foldo_zip ord T _ [] ms E).
Qed.
