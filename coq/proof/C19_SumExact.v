(** C19 — the last clause of the property WITHOUT certificates: with the exact (MathComp) ranks over the rationals, for every
    network the linkage-class deficiencies n_c - 1 - rank D_c sum to at most n - l - rank S.  MathComp style. *)
From mathcomp Require Import all_ssreflect all_algebra.
From mathcomp Require Import ssrZ zify.
From Coq Require Import ZArith.
From SK Require Import lib.RankBridge.
Require SK.model.C17_Model SK.model.C19_Model SK.proof.C19_Complexes SK.proof.C19_Linkage SK.proof.C19_Bridge SK.proof.C19_Rank SK.proof.C19_ClassRank.
Set Implicit Arguments. Unset Strict Implicit. Unset Printing Implicit Defensive.

Lemma length_concat_sum T (L : seq (seq T)) : length (List.concat L) = List.list_sum (List.map (@length T) L).
Proof. by elim: L => [|c L IH] //=; rewrite List.app_length IH. Qed.

Section Exact.
Variables (net : seq C17_Model.rxn) (iso : seq C17_Model.str).
Let cs := fst (C19_Model.complex_graph net iso).
Let arcs := snd (C19_Model.complex_graph net iso).
Let L := C19_Model.linkage_classes arcs (length cs).
Let l := length L.
Let m := length (C17_Model.species_order net iso).
Let r := length (C17_Model.reaction_order net).
Let S := C17_Model.build_S net iso.
Let nc (c : 'I_l) : nat := length (List.nth c L nil).
Let rho (c : 'I_l) : nat := \rank (C19_Rank.Dm (net:=net) (iso:=iso) c).

Lemma rho_bound c : (rho c + 1 <= nc c)%nat.
Proof. by have /ltP H := ltn_ord c; exact: (@C19_ClassRank.class_rank_bound net iso c H). Qed.

Lemma sum_sizes : (\sum_(c < l) nc c)%nat = length cs.
Proof.
rewrite -(C19_Bridge.concat_classes_length net iso) -/cs -/arcs -/L length_concat_sum.
by rewrite -(C19_Rank.sum_nth _ _ nil) big_mkord.
Qed.

(** rank S + sum_c (n_c - 1 - rank D_c) + l <= n   (all subtractions are exact: rank D_c + 1 <= n_c) *)
Theorem linkage_sum_exact :
  (\rank (toM m r S) + \sum_(c < l) (nc c - 1 - rho c) + l <= length cs)%nat.
Proof.
have B : (\rank (toM m r S) <= \sum_(c < l) rho c)%nat := C19_Rank.rank_le_class_ranks net iso.
have E1 : (\sum_(c < l) (nc c - 1 - rho c) + \sum_(c < l) rho c = \sum_(c < l) (nc c - 1))%nat.
  by rewrite -big_split /=; apply: eq_bigr => c _; have := rho_bound c; lia.
have E2 : (\sum_(c < l) (nc c - 1) + l = \sum_(c < l) nc c)%nat.
  have E3 : (\sum_(c < l) 1 = l)%nat by rewrite sum_nat_const card_ord muln1.
  rewrite -[X in (_ + X)%nat]E3 -big_split /=.
  by apply: eq_bigr => c _; have := rho_bound c; lia.
rewrite -sum_sizes -E2 -E1. lia.
Qed.

(** the same with the standard library's list sum over the classes *)
Theorem linkage_sum_exact_list :
  let rank_c (c : seq N) := \rank (toM (length (C19_Model.class_diffs cs arcs c)) m (C19_Model.class_diffs cs arcs c)) in
  Peano.le (Nat.add (Nat.add (\rank (toM m r S)) (List.list_sum (List.map (fun c => Nat.sub (Nat.sub (length c) 1) (rank_c c)) L))) (length L))
           (length cs).
Proof.
move=> rank_c; apply/leP; rewrite !plusE.
rewrite -(C19_Rank.sum_nth (fun c => Nat.sub (Nat.sub (length c) 1) (rank_c c)) L nil) big_mkord.
exact: linkage_sum_exact.
Qed.
End Exact.

Print Assumptions linkage_sum_exact_list.

(* non-vacuity: A + B <-> C, C -> 2A has one class of three complexes: rank S + (3 - 1 - rank D) + 1 <= 3 *)
Example ex_sum_exact :
  let cs := fst (C19_Model.complex_graph C19_Complexes.ex_net nil) in
  let arcs := snd (C19_Model.complex_graph C19_Complexes.ex_net nil) in
  length cs = 3%nat /\ length (C19_Model.linkage_classes arcs (length cs)) = 1%nat /\
  length (C19_Model.class_diffs cs arcs (List.nth 0 (C19_Model.linkage_classes arcs (length cs)) nil)) = 3%nat.
Proof. by split; [|split]; vm_compute. Qed.
