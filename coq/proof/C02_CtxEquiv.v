(** C02 — the radius-k context commutes with every injective renumbering (the renumbering clause of the property,
    extended from the centre to the contexts). *)
From Coq Require Import List NArith ZArith Bool Lia.
From SK Require Import lib.LGraph lib.Reach lib.C01_GraphLemmas model.C01_Model model.C02_Model proof.C02_Proof.
Import ListNotations.
Local Open Scope Z_scope.

Lemma filter_map_swap {A B} (p : B -> bool) (h : A -> B) (l : list A) :
  filter p (map h l) = map h (filter (fun x => p (h x)) l).
Proof. induction l as [|x l IH]; simpl; [reflexivity|]. destruct (p (h x)); simpl; rewrite IH; reflexivity. Qed.

Section CtxEquiv.
Variable f : N -> N.
Hypothesis Hinj : forall a b, f a = f b -> a = b.

Lemma rmem_map x l : Reach.mem (f x) (map f l) = Reach.mem x l.
Proof. change (LGraph.mem (f x) (map f l) = LGraph.mem x l). apply (mem_map_inj Hinj). Qed.

Lemma add_all_map l : forall S, add_all (map f l) (map f S) = map f (add_all l S).
Proof.
  induction l as [|x l IH]; intros S; simpl; [reflexivity|]. rewrite rmem_map.
  destruct (Reach.mem x S); [apply IH|]. apply (IH (x :: S)).
Qed.

Lemma flat_nbrs_map (g : its) S : flat_map (nbrs (relabel f g)) (map f S) = map f (flat_map (nbrs g) S).
Proof.
  induction S as [|u S IH]; simpl; [reflexivity|]. rewrite (nbrs_relabel Hinj), map_app, IH. reflexivity.
Qed.

Lemma step_map (g : its) S : step (nbrs (relabel f g)) (map f S) = map f (step (nbrs g) S).
Proof. unfold step. rewrite flat_nbrs_map. apply add_all_map. Qed.

Lemma knn_map (g : its) seeds k : knn (relabel f g) (map f seeds) k = map f (knn g seeds k).
Proof.
  unfold knn. induction k as [|k IH]; simpl.
  - apply (add_all_map seeds []).
  - rewrite IH. apply step_map.
Qed.

Lemma induced_map (g : its) L : induced_sub (relabel f g) (map f L) = relabel f (induced_sub g L).
Proof.
  unfold induced_sub, relabel. simpl. rewrite !filter_map_swap. f_equal.
  - f_equal. apply filter_ext. intros [n a]. simpl. apply (mem_map_inj Hinj).
  - f_equal. apply filter_ext. intros [[a b] x]. simpl. rewrite !(mem_map_inj Hinj). reflexivity.
Qed.

Theorem ctx_equivariant (g : its) k : extract_k (relabel f g) k = relabel f (extract_k g k).
Proof.
  destruct k as [|k]; [apply (rc_equivariant f Hinj)|].
  rewrite !extract_k_S, (rc_equivariant f Hinj), node_ids_relabel, knn_map. apply induced_map.
Qed.
End CtxEquiv.

Example C02_ctx_equivariant_nonvacuous :
  extract_k (relabel (N.add 10) ex_its) 2 = relabel (N.add 10) (extract_k ex_its 2) /\
  length (gnodes (extract_k ex_its 2)) = 7%nat.
Proof. split; [apply ctx_equivariant; intros a b; apply N.add_cancel_l|reflexivity]. Qed.
