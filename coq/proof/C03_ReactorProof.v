(** C03 — the reactor as a state machine (model/C03_Reactor.v): whatever is read, in whatever order and however often,
    every read returns the value the inputs determine ([spec_val]) — unless _explicit_h raises, in which case the
    second read of its_list silently returns the glued graphs; and the string half of the serialisation (direction of
    the returned reaction, what smiles_list extracts).  Stdlib lists only. *)
From Coq Require Import List NArith ZArith Bool Lia.
From SK Require Import lib.Tok lib.LGraph model.C03_Model model.C03_Order model.C03_Reactor.
Import ListNotations.
Local Open Scope Z_scope.

(** * strings *)
Lemma split_aux_nogt p : ~ In GT p -> forall cur, split_gt_aux cur p = [rev cur ++ p].
Proof.
  induction p as [|a r IH]; intros Hn cur; [simpl; rewrite app_nil_r; reflexivity|].
  assert (Ha : N.eqb a GT = false) by (apply N.eqb_neq; intros ->; apply Hn; left; reflexivity).
  assert (Hr : ~ In GT r) by (intros I; apply Hn; right; exact I).
  destruct r as [|b r'].
  - simpl. reflexivity.
  - change (split_gt_aux cur (a :: b :: r')) with (if N.eqb a GT && N.eqb b GT then rev cur :: split_gt_aux [] r' else split_gt_aux (a :: cur) (b :: r')).
    rewrite Ha. cbn [andb]. rewrite (IH Hr (a :: cur)). simpl. rewrite <- app_assoc. reflexivity.
Qed.

Lemma split_aux_join r p : ~ In GT r -> ~ In GT p -> forall cur, split_gt_aux cur (r ++ GT :: GT :: p) = [rev cur ++ r; p].
Proof.
  intros Hr Hp. induction r as [|a r0 IH]; intros cur.
  - cbn [app]. change (split_gt_aux cur (GT :: GT :: p)) with (if N.eqb GT GT && N.eqb GT GT then rev cur :: split_gt_aux [] p else split_gt_aux (GT :: cur) (GT :: p)).
    rewrite N.eqb_refl. cbn [andb]. rewrite (split_aux_nogt p Hp []). rewrite app_nil_r. reflexivity.
  - assert (Ha : N.eqb a GT = false) by (apply N.eqb_neq; intros ->; apply Hr; left; reflexivity).
    assert (Hr0 : ~ In GT r0) by (intros I; apply Hr; right; exact I).
    cbn [app]. destruct (r0 ++ GT :: GT :: p) as [|b t] eqn:E; [destruct r0; discriminate|].
    change (split_gt_aux cur (a :: b :: t)) with (if N.eqb a GT && N.eqb b GT then rev cur :: split_gt_aux [] t else split_gt_aux (a :: cur) (b :: t)).
    rewrite Ha. cbn [andb]. rewrite (IH Hr0 (a :: cur)). simpl. rewrite <- app_assoc. reflexivity.
Qed.

Lemma split_join r p : ~ In GT r -> ~ In GT p -> split_gt (join_gt r p) = [r; p].
Proof. intros Hr Hp. unfold split_gt, join_gt. cbn [app]. exact (split_aux_join r p Hr Hp []). Qed.

Lemma reverse_join r p : ~ In GT r -> ~ In GT p -> reverse_reaction (join_gt r p) = join_gt p r.
Proof. intros Hr Hp. unfold reverse_reaction. rewrite (split_join r p Hr Hp). reflexivity. Qed.
Lemma last_join r p : ~ In GT r -> ~ In GT p -> last_part (join_gt r p) = p.
Proof. intros Hr Hp. unfold last_part. rewrite (split_join r p Hr Hp). reflexivity. Qed.
Lemma reverse_involutive r p : ~ In GT r -> ~ In GT p -> reverse_reaction (reverse_reaction (join_gt r p)) = join_gt r p.
Proof. intros Hr Hp. rewrite (reverse_join r p Hr Hp), (reverse_join p r Hp Hr). reflexivity. Qed.

Lemma truthy_join r p : truthy (join_gt r p) = true.
Proof. unfold join_gt. destruct r; reflexivity. Qed.

(** what smarts_list holds, entry by entry: the i-th graph contributes nothing if RDKit refused one side, otherwise
    "r>>p" forwards and "p>>r" backwards *)
Definition entry (invert : bool) (rp : option str * option str) : list str :=
  match rp with
  | (Some r, Some p) => [if invert then join_gt p r else join_gt r p]
  | _ => []
  end.
Definition side_entry (invert : bool) (rp : option str * option str) : list str :=
  match rp with
  | (Some r, Some p) => [if invert then r else p]
  | _ => []
  end.

Section Ser.
  Variable ser : nat -> its -> option str * option str.
  Hypothesis ser_nogt : forall i g r p, ser i g = (Some r, Some p) -> ~ In GT r /\ ~ In GT p.

  Lemma smarts_of_entries (invert : bool) (gs : list its) : forall i0,
    (if invert
     then map reverse_reaction (flat_map (fun o : option str => match o with Some s => if truthy s then [s] else [] | None => [] end)
                                         (mapi (fun i g => to_smarts (ser i g)) i0 gs))
     else flat_map (fun o : option str => match o with Some s => if truthy s then [s] else [] | None => [] end)
                   (mapi (fun i g => to_smarts (ser i g)) i0 gs))
    = flat_map (fun x : list str => x) (mapi (fun i g => entry invert (ser i g)) i0 gs).
  Proof.
    induction gs as [|g r IH]; intros i0; [destruct invert; reflexivity|].
    cbn [mapi flat_map]. specialize (IH (S i0)).
    destruct (ser i0 g) as [[rs|] [ps|]] eqn:E; cbn [to_smarts entry].
    - rewrite truthy_join. destruct (ser_nogt i0 g rs ps E) as [H1 H2]. destruct invert.
      + rewrite map_app. cbn [map]. rewrite (reverse_join rs ps H1 H2), IH. reflexivity.
      + rewrite IH. reflexivity.
    - cbn [app]. exact IH.
    - cbn [app]. exact IH.
    - cbn [app]. exact IH.
  Qed.

  Theorem smarts_of_spec (invert : bool) (gs : list its) :
    smarts_of invert ser gs = flat_map (fun x : list str => x) (mapi (fun i g => entry invert (ser i g)) O gs) /\
    map last_part (smarts_of invert ser gs) = flat_map (fun x : list str => x) (mapi (fun i g => side_entry invert (ser i g)) O gs).
  Proof.
    unfold smarts_of. cbv zeta. rewrite (smarts_of_entries invert gs O). split; [reflexivity|].
    generalize O. induction gs as [|g r IH]; intros i0; [reflexivity|].
    cbn [mapi flat_map]. rewrite map_app, IH. f_equal.
    destruct (ser i0 g) as [[rs|] [ps|]] eqn:E; cbn [entry side_entry map]; try reflexivity.
    destruct (ser_nogt i0 g rs ps E) as [H1 H2]. destruct invert; [rewrite (last_join ps rs H2 H1)|rewrite (last_join rs ps H1 H2)]; reflexivity.
  Qed.
End Ser.

(** * the caches hold nothing but what the inputs determine *)
Definition nocrash (inp : rin) : Prop := i_explicit inp = true -> explicit_all (spec_glued inp) <> None.

Record inv0 (inp : rin) (st : rstate) : Prop := {
  iv_rule : forall r, s_rule st = Some r -> r = i_rule inp;
  iv_maps : forall m, s_maps st = Some m -> m = i_calls inp /\ i_rule inp <> None /\ s_flag st = spec_flag inp;
  iv_flag : s_flag st = true -> spec_flag inp = true;
  iv_its : forall gs, s_its st = Some gs -> spec_its inp = Some gs;
  iv_smarts : forall s, s_smarts st = Some s -> spec_smarts inp = Some s }.

Lemma inv0_rs0 inp : inv0 inp rs0.
Proof. constructor; simpl; intros; discriminate. Qed.

Lemma rd_rule_spec inp st : inv0 inp st ->
  forall st' r, rd_rule inp st = (st', r) ->
    r = i_rule inp /\ inv0 inp st' /\ s_maps st' = s_maps st /\ s_flag st' = s_flag st /\ s_its st' = s_its st /\ s_smarts st' = s_smarts st.
Proof.
  intros Hinv st' r H. unfold rd_rule in H. destruct (s_rule st) as [r0|] eqn:E.
  - inversion H; subst. split; [exact (iv_rule _ _ Hinv _ E)|]. split; [exact Hinv|]. repeat split.
  - inversion H; subst. pose proof Hinv as [I1 I2 I3 I4 I5]. split; [reflexivity|]. split; [|repeat split].
    constructor; cbn [s_rule s_maps s_flag s_its s_smarts]; try assumption. intros r Hr. inversion Hr. reflexivity.
Qed.

Lemma rd_maps_spec inp st : inv0 inp st ->
  forall st' r, rd_maps inp st = (st', r) ->
    r = match i_rule inp with Some _ => Some (i_calls inp) | None => None end /\ inv0 inp st' /\
    (i_rule inp <> None -> s_flag st' = spec_flag inp) /\ s_its st' = s_its st /\ s_smarts st' = s_smarts st.
Proof.
  intros Hinv st' r H. unfold rd_maps in H. destruct (s_maps st) as [m|] eqn:E.
  - inversion H; subst. destruct (iv_maps _ _ Hinv m E) as (-> & Hne & Hf). split; [destruct (i_rule inp); [reflexivity|congruence]|].
    split; [exact Hinv|]. repeat split. intros _. exact Hf.
  - destruct (rd_rule inp st) as [st1 r1] eqn:E1. destruct (rd_rule_spec inp st Hinv st1 r1 E1) as (-> & Hinv1 & K2 & K3 & K4 & K5).
    destruct (i_rule inp) as [[[rc l] r']|] eqn:Er; pose proof Hinv1 as [J1 J2 J3 J4 J5].
    + inversion H; subst. split; [reflexivity|].
      assert (Hf : (s_flag st1 || has_XH l)%bool = spec_flag inp).
      { pose proof J3 as S. unfold spec_flag in *. rewrite Er in *. destruct (s_flag st1); [rewrite (S eq_refl)|]; reflexivity. }
      split; [|repeat split; cbn [s_flag s_its s_smarts]; try assumption; intros _; exact Hf].
      constructor; cbn [s_rule s_maps s_flag s_its s_smarts]; try assumption.
      * intros m Hm. inversion Hm. split; [reflexivity|]. split; [rewrite Er; discriminate|exact Hf].
      * intros Hx. rewrite <- Hf. exact Hx.
    + inversion H; subst. split; [reflexivity|]. split; [exact Hinv1|]. repeat split; try assumption. intros C. congruence.
Qed.

Lemma rd_its_spec inp st : nocrash inp -> inv0 inp st ->
  forall st' r, rd_its inp st = (st', r) -> r = spec_its inp /\ inv0 inp st' /\ s_smarts st' = s_smarts st.
Proof.
  intros Hnc Hinv st' r H. unfold rd_its in H. destruct (s_its st) as [gs|] eqn:E.
  - inversion H; subst. split; [symmetry; exact (iv_its _ _ Hinv _ E)|]. split; [exact Hinv|reflexivity].
  - destruct (rd_rule inp st) as [st1 r1] eqn:E1. destruct (rd_rule_spec inp st Hinv st1 r1 E1) as (-> & Hinv1 & K2 & K3 & K4 & K5).
    destruct (i_rule inp) as [[[rc l] r']|] eqn:Er.
    + destruct (rd_maps inp st1) as [st2 m] eqn:E2.
      destruct (rd_maps_spec inp st1 Hinv1 st2 m E2) as (-> & [J1 J2 J3 J4 J5] & Hf & L4 & L5). rewrite Er in H.
      assert (Hg : glue_all (s_flag st2) (i_host inp) rc (i_calls inp) (i_tbls inp) = spec_glued inp).
      { unfold spec_glued. rewrite Er, (Hf ltac:(rewrite Er; discriminate)). reflexivity. }
      rewrite Hg in H. unfold spec_its. rewrite Er.
      destruct (i_explicit inp) eqn:Ex.
      * destruct (explicit_all (spec_glued inp)) as [gs|] eqn:Ea; [|exfalso; exact (Hnc Ex Ea)].
        inversion H; subst. split; [reflexivity|]. split; [|cbn [s_smarts]; congruence].
        constructor; cbn [s_rule s_maps s_flag s_its s_smarts]; try assumption.
        intros gs' Hgs. inversion Hgs; subst. unfold spec_its. rewrite Er, Ex. exact Ea.
      * inversion H; subst. split; [reflexivity|]. split; [|cbn [s_smarts]; congruence].
        constructor; cbn [s_rule s_maps s_flag s_its s_smarts]; try assumption.
        intros gs' Hgs. inversion Hgs; subst. unfold spec_its. rewrite Er, Ex. reflexivity.
    + inversion H; subst. unfold spec_its. rewrite Er. split; [reflexivity|]. split; [exact Hinv1|exact K5].
Qed.

Lemma rd_smarts_spec inp st : nocrash inp -> inv0 inp st ->
  forall st' r, rd_smarts inp st = (st', r) -> r = spec_smarts inp /\ inv0 inp st'.
Proof.
  intros Hnc Hinv st' r H. unfold rd_smarts in H. destruct (s_smarts st) as [s|] eqn:E.
  - inversion H; subst. split; [symmetry; exact (iv_smarts _ _ Hinv _ E)|exact Hinv].
  - destruct (rd_its inp st) as [st1 r1] eqn:E1. destruct (rd_its_spec inp st Hnc Hinv st1 r1 E1) as (-> & Hinv1 & K5).
    unfold spec_smarts. destruct (spec_its inp) as [gs|] eqn:Es.
    + inversion H; subst. split; [reflexivity|]. pose proof Hinv1 as [J1 J2 J3 J4 J5].
      constructor; cbn [s_rule s_maps s_flag s_its s_smarts]; try assumption.
      intros s Hs. inversion Hs; subst. unfold spec_smarts. rewrite Es. reflexivity.
    + inversion H; subst. split; [reflexivity|exact Hinv1].
Qed.

(** one read: the value is the specified one, the invariant is kept *)
Theorem step_spec inp st op : nocrash inp -> inv0 inp st ->
  forall st' v, step inp st op = (st', v) -> v = spec_val inp op /\ inv0 inp st'.
Proof.
  intros Hnc Hinv st' v H. destruct op; cbn [step spec_val] in *.
  - destruct (rd_rule inp st) as [st1 r] eqn:E. destruct (rd_rule_spec inp st Hinv st1 r E) as (-> & Hi & _).
    inversion H; subst. split; [reflexivity|exact Hi].
  - destruct (rd_maps inp st) as [st1 r] eqn:E. destruct (rd_maps_spec inp st Hinv st1 r E) as (-> & Hi & _).
    inversion H; subst. split; [destruct (i_rule inp); reflexivity|exact Hi].
  - destruct (rd_maps inp st) as [st1 r] eqn:E. destruct (rd_maps_spec inp st Hinv st1 r E) as (-> & Hi & _).
    inversion H; subst. split; [destruct (i_rule inp); reflexivity|exact Hi].
  - destruct (rd_its inp st) as [st1 r] eqn:E. destruct (rd_its_spec inp st Hnc Hinv st1 r E) as (-> & Hi & _).
    inversion H; subst. split; [reflexivity|exact Hi].
  - destruct (rd_smarts inp st) as [st1 r] eqn:E. destruct (rd_smarts_spec inp st Hnc Hinv st1 r E) as (-> & Hi).
    inversion H; subst. split; [reflexivity|exact Hi].
  - destruct (rd_smarts inp st) as [st1 r] eqn:E. destruct (rd_smarts_spec inp st Hnc Hinv st1 r E) as (-> & Hi).
    inversion H; subst. split; [reflexivity|exact Hi].
Qed.

(** any script of reads on a fresh reactor: every read returns the value the inputs determine *)
Theorem run_ops_spec inp : nocrash inp -> forall ops st, inv0 inp st -> run_ops inp st ops = map (spec_val inp) ops.
Proof.
  intros Hnc. induction ops as [|op r IH]; intros st Hinv; [reflexivity|].
  cbn [run_ops map]. destruct (step inp st op) as [st' v] eqn:E.
  destruct (step_spec inp st op Hnc Hinv st' v E) as [-> Hi]. rewrite (IH st' Hi). reflexivity.
Qed.

Corollary reads_stable inp ops : nocrash inp -> run_ops inp rs0 ops = map (spec_val inp) ops.
Proof. intros Hnc. exact (run_ops_spec inp Hnc ops rs0 (inv0_rs0 inp)). Qed.

(** * when _explicit_h raises: the first read of its_list raises, the second returns the glued graphs *)
Theorem reads_after_crash inp rc l r :
  i_rule inp = Some (rc, l, r) -> i_explicit inp = true -> explicit_all (spec_glued inp) = None ->
  run_ops inp rs0 [Oits; Oits; Oits] = [Vraise; Vits (map fst (spec_glued inp)); Vits (map fst (spec_glued inp))].
Proof.
  intros Er Ex Ea.
  assert (Hg : glue_all (false || has_XH l) (i_host inp) rc (i_calls inp) (i_tbls inp) = spec_glued inp).
  { unfold spec_glued, spec_flag. rewrite Er. reflexivity. }
  cbv beta iota zeta delta [run_ops step rd_its rd_maps rd_rule rs0 s_rule s_maps s_flag s_its s_smarts].
  rewrite Er. cbv beta iota zeta delta [s_rule s_maps s_flag s_its s_smarts].
  rewrite Hg, Ex, Ea. reflexivity.
Qed.

(** the flag: after any read that needs the mappings it is the pattern's, and its_list on a FRESH reactor takes the route
    the pattern calls for (the flag is read after `self.mappings` has set it) *)
Theorem fresh_its_route inp rc l r :
  i_rule inp = Some (rc, l, r) -> nocrash inp ->
  forall st' v, step inp rs0 Oits = (st', v) ->
    s_flag st' = has_XH l /\
    v = match spec_its inp with Some gs => Vits gs | None => Vraise end /\
    (i_explicit inp = false -> v = Vits (map fst (glue_all (has_XH l) (i_host inp) rc (i_calls inp) (i_tbls inp)))).
Proof.
  intros Er Hnc st' v H. destruct (step_spec inp rs0 Oits Hnc (inv0_rs0 inp) st' v H) as [Hv Hi].
  split; [|split; [exact Hv|]].
  - revert H. cbv beta iota zeta delta [step rd_its rd_maps rd_rule rs0 s_rule s_maps s_flag s_its s_smarts].
    rewrite Er. cbv beta iota zeta delta [s_rule s_maps s_flag s_its s_smarts].
    destruct (i_explicit inp); [destruct (explicit_all _)|]; intros H; inversion H; reflexivity.
  - intros Ex. rewrite Hv. cbn [spec_val]. unfold spec_its, spec_glued, spec_flag. rewrite Er, Ex. reflexivity.
Qed.
