(** C04 — non-vacuity of C04_explicit_h_total_criterion: the glued ITS of proton transfer O-H . N -> O- . H-N+ (C03's example
    [ex_T_h]: the oxygen gives one hydrogen, the nitrogen takes one, both carry pair id 1) is covered by ONE transfer, and
    _explicit_h indeed returns on it. *)
From Coq Require Import List NArith ZArith Bool Arith Lia.
From SK Require Import lib.Tok lib.LGraph model.C03_Model proof.C03_Proof proof.C03_Spec proof.C03_Examples proof.C04_Total.
Import ListNotations.
Local Open Scope Z_scope.

Definition ind (a : N) (v : Z) (n : N) : Z := if N.eqb n a then v else 0.
Lemma sumF_ind a v c : NoDup c -> sumF (ind a v) c = if mem a c then v else 0.
Proof.
  induction c as [|x r IH]; intros H; simpl; [reflexivity|]. inversion H as [|? ? Hx Hr]; subst. rewrite (IH Hr). unfold ind at 1.
  rewrite (N.eqb_sym a x). destruct (N.eqb_spec x a) as [->|Ne]; simpl.
  - destruct (mem a r) eqn:E; [apply mem_spec in E; contradiction|lia].
  - reflexivity.
Qed.
Lemma sumF_add (f g : N -> Z) c : sumF (fun n => f n + g n) c = sumF f c + sumF g c.
Proof. induction c as [|x r IH]; simpl; [reflexivity|]. rewrite IH. lia. Qed.

Definition ex_w (_ : unit) (n : N) : Z := ind 2%N 1 n + ind 3%N (-1) n.
Example criterion_example :
  (forall n, dl_of ex_T_h n = sumX (fun h => ex_w h n) [tt]) /\
  (forall h, In h [tt] -> exists pid, forall n, ex_w h n <> 0 -> exists A, In (n, A) (gnodes ex_T_h) /\ In pid (hp_of A)) /\
  (forall h c, In h [tt] -> NoDup c -> (forall n, ex_w h n <> 0 -> In n c) -> sumF (ex_w h) c <= 0) /\
  explicit_h ex_T_h <> None.
Proof.
  assert (EG : gnodes ex_T_h = [(1%N, IN (NA 67%N false 3 0 []) (NA 67%N false 3 0 []) 0 None);
                                (2%N, IN (NA 79%N false 1 0 []) (NA 79%N false 0 (-1) []) 0 (Some [1%N]));
                                (3%N, IN (NA 78%N false 3 0 []) (NA 78%N false 4 1 []) 0 (Some [1%N]))]) by (vm_compute; reflexivity).
  assert (H1 : forall n, dl_of ex_T_h n = sumX (fun h => ex_w h n) [tt]).
  { intros n.
    destruct (N.eqb_spec n 1) as [E1|N1]; [subst n; vm_compute; reflexivity|].
    destruct (N.eqb_spec n 2) as [E2|N2]; [subst n; vm_compute; reflexivity|].
    destruct (N.eqb_spec n 3) as [E3|N3]; [subst n; vm_compute; reflexivity|].
    apply N.eqb_neq in N1, N2, N3.
    unfold dl_of, label. rewrite EG. cbn [assoc]. rewrite N1, N2, N3. unfold sumX, ex_w, ind. cbn [fold_right]. rewrite N2, N3. reflexivity. }
  assert (H2 : forall h, In h [tt] -> exists pid, forall n, ex_w h n <> 0 -> exists A, In (n, A) (gnodes ex_T_h) /\ In pid (hp_of A)).
  { intros h _. exists 1%N. intros n Hn. rewrite EG. unfold ex_w, ind in Hn.
    destruct (N.eqb n 2) eqn:E2.
    - apply N.eqb_eq in E2. subst n. eexists. split; [right; left; reflexivity|left; reflexivity].
    - destruct (N.eqb n 3) eqn:E3; [|exfalso; apply Hn; reflexivity].
      apply N.eqb_eq in E3. subst n. eexists. split; [right; right; left; reflexivity|left; reflexivity]. }
  assert (H3 : forall h c, In h [tt] -> NoDup c -> (forall n, ex_w h n <> 0 -> In n c) -> sumF (ex_w h) c <= 0).
  { intros h c _ Hc Hin. unfold ex_w. rewrite sumF_add, !(sumF_ind _ _ c Hc).
    assert (I2 : mem 2%N c = true) by (apply mem_spec; apply Hin; unfold ex_w, ind; simpl; lia).
    assert (I3 : mem 3%N c = true) by (apply mem_spec; apply Hin; unfold ex_w, ind; simpl; lia).
    rewrite I2, I3. lia. }
  split; [exact H1|]. split; [exact H2|]. split; [exact H3|].
  exact (explicit_h_total ex_T_h unit [tt] ex_w H1 H2 H3).
Qed.

(** C04_identity_default_end_total: on bromoethane + water written with explicit centre hydrogens (dG / dH) the boolean holds for
    both templates and both directions (each migrating hydrogen has one bond before and one after); it fails for a template in
    which a hydrogen has a bond on the reactant side only *)
From SK Require Import model.C04_Model model.C04_Reactor proof.C04_Examples proof.C04_TotalDefault proof.C04_TotalEnd.
Example valence_example :
  forallb (fun ci : bool * bool => own_valence_okb (fst ci) (snd ci) dG dH) [(true, false); (false, false); (true, true); (false, true)] = true.
Proof. vm_compute. reflexivity. Qed.
Definition v_tpl : its :=
  LG [(1%N, IN (NA 79%N false 0 0 []) (NA 79%N false 0 0 []) 0 None); (2%N, IN (NA 72%N false 0 0 []) (NA 72%N false 0 0 []) 0 None);
      (3%N, IN (NA 78%N false 0 0 []) (NA 78%N false 0 0 []) 0 None)]
     [(1%N, 2%N, (2, 2, 0)); (2%N, 3%N, (2, 0, 2))].
Example valence_counterexample :
  match synrule v_tpl true with Some (rc, _, _) => valence_okb v_tpl rc | None => true end = false.
Proof. vm_compute. reflexivity. Qed.

(** C04_in_results_engine_default (no premise about _explicit_h): on dG / dH, all four template / direction combinations, the
    boolean hypotheses hold (valence_example, default_chain_example in proof/C04_ObjectExamples.v) and the reactor's its_list
    contains the folded reaction; C04_any_match_explicit_h_total: _explicit_h returns on EVERY ITS the reactor glues there *)
From SK Require Import lib.Mono model.C06_Model.
Example default_total_example :
  forallb (fun ci : bool * bool =>
    match rule_of (fst ci) (snd ci) dG dH with
    | Some (rc, l, r) =>
        let host := substrate (snd ci) dG dH in
        match compute_mappings (api_engine (monos_on (tr_host host) (tr_pat l))) (own_opts (snd ci) true (SMember 0%N) None false) host (rc, l, r) with
        | Some ms => negb (Nat.eqb (length ms) 0)
                     && forallb (fun y => match glue host rc y with
                                          | Some T => match explicit_h T with Some _ => true | None => false end
                                          | None => true end) ms
        | None => false
        end
    | None => false
    end) [(true, false); (false, false); (true, true); (false, true)] = true.
Proof. vm_compute. reflexivity. Qed.

(** C04_own_{comp,bt}_{implicit,default}_object: on dG / dH (default mode) the reactor under comp and bt returns an its_list
    with the folded reaction, all four template / direction combinations (the identity separates: own_default_comp_bt_hyps) *)
Example default_compbt_object_example :
  forallb (fun sci : N * (bool * bool) =>
    let s := fst sci in let core := fst (snd sci) in let inv := snd (snd sci) in
    match rule_of core inv dG dH with
    | Some (rc, l, r) =>
        let host := substrate inv dG dH in
        match read_its (api_engine (monos_on (tr_host host) (tr_pat l))) (fun _ _ _ => []) (own_opts inv true (SMember s) (Some 100%N) false) host (rc, l, r) C04_Reactor.fresh with
        | (Some gs, _) => existsb (fun T' => regen_folded T' (if inv then dH else dG) (if inv then dG else dH)) gs
        | _ => false end
    | None => false
    end) [(1%N, (true, false)); (2%N, (true, false)); (1%N, (false, true)); (2%N, (false, true)); (1%N, (true, true)); (2%N, (false, false))] = true.
Proof. vm_compute. reflexivity. Qed.

(** C04_explicit_h_any_order_keeps_reaction / C04_any_match_explicit_h_total_any_order: the REVERSED listing is an admissible
    visiting order; with it _explicit_h also returns on the glued ITS of dG / dH and the result folds to the reaction *)
From SK Require Import model.C03_Order proof.C04_ObjectExamples.
Example any_order_example :
  (forall (l : list N) x, In x (rev l) <-> In x l) /\ (forall l : list N, NoDup l -> NoDup (rev l)) /\
  forallb (fun ci : bool * bool =>
    match d_glued (fst ci) (snd ci) with
    | Some T => match explicit_h_ord (@rev N) T with
                | Some (T', _) => regen_folded T' (if snd ci then dH else dG) (if snd ci then dG else dH)
                | None => false end
    | None => false end) [(true, false); (false, false); (true, true); (false, true)] = true.
Proof.
  split; [intros l x; symmetry; apply in_rev|]. split; [intros l H; apply NoDup_rev; exact H|]. vm_compute. reflexivity.
Qed.

(** C04_own_*_object / C04_{comp,bt}_regenerates_at: the explicit threshold bound is tiny on the examples (C06's comp_bound and the
    number of exhaustive matches against the default 5000) *)
From SK Require Import proof.C06_Comp.
Example bound_example :
  (N.max (comp_bound (monos_on (tr_host rG_) (tr_pat r_l)) true (tr_host rG_) (tr_pat r_l))
         (lenN (monos_on (tr_host rG_) (tr_pat r_l) (node_ids (tr_host rG_)) (node_ids (tr_pat r_l)))) <=? dflt DEFAULT_THRESHOLD None)%N = true /\
  forallb (fun ci : bool * bool =>
    match rule_of (fst ci) (snd ci) dG dH with
    | Some (rc, l, r) =>
        let Hh := tr_host (substrate (snd ci) dG dH) in let Pp := tr_pat l in
        (N.max (comp_bound (monos_on Hh Pp) true Hh Pp) (lenN (monos_on Hh Pp (node_ids Hh) (node_ids Pp))) <=? dflt DEFAULT_THRESHOLD None)%N
    | None => false end) [(true, false); (false, false); (true, true); (false, true)] = true.
Proof. vm_compute. split; reflexivity. Qed.
