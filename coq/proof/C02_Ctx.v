(** C02 — proofs about the RadiusExpand helpers (find_unequal_order_edges, remove_normal_edges, extract_k option
    handling, context extraction over a list) and about ITS graphs built with ignore_aromaticity=True. *)
From Coq Require Import List NArith ZArith Bool Lia.
From SK Require Import lib.LGraph lib.Reach lib.C01_GraphLemmas model.C01_Model model.C02_Model proof.C02_Proof proof.C02_Opts.
Import ListNotations.
Local Open Scope Z_scope.

(** * find_unequal_order_edges *)
Lemma unequal_fold L : forall S n,
  In n (fold_left (fun S (e : N * N * iedge) => let '(u, v, x) := e in if unequal x then add_all [u; v] S else S) L S) <->
  In n S \/ exists a b x, In (a, b, x) L /\ unequal x = true /\ (n = a \/ n = b).
Proof.
  induction L as [|[[u v] y] L IH]; intros S n; cbn [fold_left].
  - split; [auto|]. intros [I|(a & b & x & [] & _)]. exact I.
  - rewrite IH. destruct (unequal y) eqn:U.
    + rewrite add_all_in. cbn [In]. split.
      * intros [[[E|[E|[]]]|I]|(a & b & x & I & Ux & Hn)].
        -- right. exists u, v, y. split; [left; reflexivity|auto].
        -- right. exists u, v, y. split; [left; reflexivity|auto].
        -- left. exact I.
        -- right. exists a, b, x. split; [right; exact I|auto].
      * intros [I|(a & b & x & [E|I] & Ux & Hn)].
        -- left. right. exact I.
        -- inversion E; subst. left. left. destruct Hn as [->| ->]; auto.
        -- right. exists a, b, x. auto.
    + split.
      * intros [I|(a & b & x & I & Ux & Hn)]; [left; exact I|]. right. exists a, b, x. split; [right; exact I|auto].
      * intros [I|(a & b & x & [E|I] & Ux & Hn)]; [left; exact I| |].
        -- inversion E; subst. congruence.
        -- right. exists a, b, x. auto.
Qed.

Lemma unequal_nodes_spec g n :
  In n (unequal_nodes g) <-> exists a b x, In (a, b, x) (gedges g) /\ unequal x = true /\ (n = a \/ n = b).
Proof. unfold unequal_nodes. rewrite unequal_fold. simpl. tauto. Qed.

Lemma unequal_changed x : unequal x = true -> changed x = true.
Proof. unfold unequal, changed. rewrite andb_true_iff. tauto. Qed.

(** in general: a subset of the centre atoms *)
Theorem unequal_sub_rc (g : its) : wf g -> forall n, In n (unequal_nodes g) -> In n (node_ids (get_rc g)).
Proof.
  intros W n I. apply unequal_nodes_spec in I. destruct I as (a & b & x & I & U & Hn). apply rc_keys.
  exists a, b, x. repeat split; auto; [left; apply unequal_changed; exact U|].
  destruct (wf_edge_nodes W I) as (Ia & Ib & _). destruct Hn as [->| ->]; assumption.
Qed.

(** standard_order != 0 only on bonds whose two orders differ: holds for both ways ITSGraph computes standard_order *)
Definition std_sound (g : its) : Prop := forall u v x, In (u, v, x) (gedges g) -> e_std x <> 0 -> e_G x <> e_H x.

Lemma std_consistent_sound g : std_consistent g -> std_sound g.
Proof. intros H u v x I. rewrite (H u v x I). lia. Qed.
Lemma ia_consistent_sound g : ia_consistent g -> std_sound g.
Proof. intros H u v x I. rewrite (H u v x I). destruct (Z.abs (e_G x - e_H x) <? 2); lia. Qed.

Theorem unequal_eq_rc (g : its) : wf g -> (std_consistent g \/ ia_consistent g) ->
  (forall u v x, In (u, v, x) (gedges g) -> is_hh g u v = true -> e_std x <> 0) ->
  forall n, In n (unequal_nodes g) <-> In n (node_ids (get_rc g)).
Proof.
  intros W Hc Hh n. split; [apply unequal_sub_rc; exact W|].
  assert (std_sound g) as Hs by (destruct Hc; [apply std_consistent_sound|apply ia_consistent_sound]; assumption).
  intros I. apply rc_keys in I. destruct I as (a & b & x & I & Hx & Hn & _). apply unequal_nodes_spec.
  exists a, b, x. repeat split; auto.
  assert (e_std x <> 0) as Hne.
  { destruct Hx as [C|Hhh]; [|eapply Hh; eauto]. unfold changed in C. rewrite negb_true_iff, Z.eqb_neq in C. exact C. }
  unfold unequal. rewrite andb_true_iff, !negb_true_iff, !Z.eqb_neq. split; [eapply Hs; eauto|exact Hne].
Qed.

(** strictness: an unchanged H-H bond is in the centre, its atoms are not reported by find_unequal_order_edges *)
Theorem unequal_strict : exists (g : its) (n : N),
  wf g /\ std_consistent g /\ In n (node_ids (get_rc g)) /\ ~ In n (unequal_nodes g).
Proof.
  exists ex_its, 8%N. split; [apply ex_its_wf|]. split; [apply ex_its_std|]. split.
  - vm_compute. tauto.
  - vm_compute. intuition discriminate.
Qed.

(** * remove_normal_edges(., "standard_order") *)
Theorem remove_normal_spec (g : its) : wf g ->
  gnodes (remove_normal g) = gnodes g /\
  (forall u v e, adj (remove_normal g) u v = Some e <-> adj g u v = Some e /\ e_std e <> 0) /\
  (forall u v e, adj (remove_normal g) u v = Some e -> adj (get_rc g) u v = Some e).
Proof.
  intros W. split; [reflexivity|].
  assert (forall u v, adj (remove_normal g) u v = match adj g u v with Some x => if changed x then Some x else None | None => None end) as E.
  { intros u v. unfold adj, remove_normal. simpl.
    apply (find_edge_filter (fun _ _ x => changed x) (gedges g) (wf_simple W)). reflexivity. }
  assert (forall u v e, adj (remove_normal g) u v = Some e <-> adj g u v = Some e /\ changed e = true) as E'.
  { intros u v e. rewrite E. destruct (adj g u v) as [x|]; [|split; [discriminate|intros [? _]; discriminate]].
    destruct (changed x) eqn:C; split.
    - intros [= <-]. auto.
    - intros [[= <-] _]. reflexivity.
    - discriminate.
    - intros [[= <-] C']. congruence. }
  split.
  - intros u v e. rewrite E'. unfold changed. rewrite negb_true_iff, Z.eqb_neq. tauto.
  - intros u v e A. apply E' in A. apply (rc_adj g W). tauto.
Qed.

Theorem remove_normal_mtg_spec (g : xits) : wf g ->
  gnodes (remove_normal_mtg g) = gnodes g /\
  (forall u v x, adj (remove_normal_mtg g) u v = Some x <-> adj g u v = Some x /\ snd x <> Some false).
Proof.
  intros W. split; [reflexivity|]. intros u v x. unfold adj, remove_normal_mtg. simpl.
  rewrite (find_edge_filter (fun _ _ y => negb (mtg_is_false y)) (gedges g) (wf_simple W)); [|reflexivity].
  destruct (find_edge u v (gedges g)) as [y|]; [|split; [discriminate|intros [? _]; discriminate]].
  unfold mtg_is_false. destruct y as [e [[|]|]]; simpl; split; try discriminate; try (intros [= <-]; split; [reflexivity|discriminate]);
    try (intros [[= <-] _]; reflexivity); intros [[= <-] H]; exfalso; apply H; reflexivity.
Qed.

(** extract_subgraph: the induced subgraph on the listed atoms that exist *)
Theorem extract_subgraph_spec (g : its) (ids : list N) : wf g ->
  (forall n a, label (extract_subgraph g ids) n = Some a <-> label g n = Some a /\ In n ids) /\
  (forall u v e, adj (extract_subgraph g ids) u v = Some e <-> adj g u v = Some e /\ In u ids /\ In v ids).
Proof.
  intros W. unfold extract_subgraph. split.
  - intros n a. rewrite label_induced. destruct (LGraph.mem n ids) eqn:M.
    + apply LGraph.mem_spec in M. tauto.
    + split; [discriminate|]. intros [_ I]. apply LGraph.mem_spec in I. congruence.
  - intros u v e. rewrite (adj_induced _ _ _ W).
    destruct (LGraph.mem u ids) eqn:Mu; destruct (LGraph.mem v ids) eqn:Mv; simpl;
      try (apply LGraph.mem_spec in Mu); try (apply LGraph.mem_spec in Mv); try tauto;
      (split; [discriminate|]); intros (_ & Iu & Iv); try (apply LGraph.mem_spec in Iu); try (apply LGraph.mem_spec in Iv); congruence.
Qed.

(** * extract_k: option handling *)
Theorem extract_k_z_nonneg (g : its) k : 0 <= k -> extract_k_z g k = extract_k g (Z.to_nat k).
Proof.
  intros Hk. unfold extract_k_z. destruct (Z.eqb_spec k 0) as [->|Hne]; [reflexivity|].
  destruct (Z.eqb_spec k (-1)) as [->|_]; [lia|].
  destruct (Z.to_nat k) as [|j] eqn:Ej; [lia|]. reflexivity.
Qed.

Theorem extract_k_z_minus1 (g : its) : wf g ->
  let rcn := node_ids (get_rc g) in
  let r := length (lre g rcn) in
  extract_k_z g (-1) = induced_sub g (knn g rcn r) /\
  (forall n, In n (node_ids (extract_k_z g (-1))) <-> dist_le g rcn r n).
Proof.
  intros W rcn r. split; [reflexivity|]. intros n. change (extract_k_z g (-1)) with (induced_sub g (knn g rcn r)).
  rewrite node_ids_induced, knn_spec. split; [tauto|]. intros H. split; [|exact H].
  eapply dist_le_in_nodes; eauto.
Qed.

(** * context extraction over a list of reactions: element i of the result is computed from element i alone *)
Theorem context_list_spec (gs : list its) k :
  length (context_list gs k) = length gs /\
  forall i, nth_error (context_list gs k) i = option_map (fun g => (g, extract_k_z g k)) (nth_error gs i).
Proof. unfold context_list. split; [apply map_length|]. intros i. apply nth_error_map. Qed.

(** * ITSGraph(ignore_aromaticity, balance_its) *)
Theorem its_construct_o_default G H : its_construct_ab false false G H = its_construct G H.
Proof. reflexivity. Qed.

Theorem its_construct_ia_consistent bal G H : ia_consistent (its_construct_ab true bal G H).
Proof.
  intros u v x I. unfold its_construct_ab in I. simpl in I. apply in_app_iff in I.
  destruct I as [I|I]; apply in_map_iff in I; destruct I as ([[a b] o] & E & _); inversion E; subst; reflexivity.
Qed.

Theorem its_construct_noia_consistent bal G H : std_consistent (its_construct_ab false bal G H).
Proof.
  intros u v x I. unfold its_construct_ab in I. simpl in I. apply in_app_iff in I.
  destruct I as [I|I]; apply in_map_iff in I; destruct I as ([[a b] o] & E & _); inversion E; subst; reflexivity.
Qed.

Lemma changed_ia g u v e : ia_consistent g -> In (u, v, e) (gedges g) \/ In (v, u, e) (gedges g) ->
  (changed e = true <-> 2 <= Z.abs (e_G e - e_H e)).
Proof.
  intros Hc I. assert (e_std e = if Z.abs (e_G e - e_H e) <? 2 then 0 else e_G e - e_H e) as E
      by (destruct I as [I|I]; eapply Hc; eauto).
  unfold changed. rewrite negb_true_iff, Z.eqb_neq, E. destruct (Z.ltb_spec (Z.abs (e_G e - e_H e)) 2); lia.
Qed.

(** centre of an ignore_aromaticity ITS: bonds whose orders differ by at least 1 (2 half-units), or H-H *)
Theorem rc_edges_ia (g : its) : wf g -> ia_consistent g -> forall u v e,
  adj (get_rc g) u v = Some e <->
  adj g u v = Some e /\ (2 <= Z.abs (e_G e - e_H e) \/ (is_h g u = true /\ is_h g v = true)).
Proof.
  intros W Hc u v e. rewrite (rc_adj g W). unfold is_hh. rewrite andb_true_iff. split.
  - intros [A Hs]. split; [exact A|]. apply (wf_adj_iff W) in A. rewrite <- (changed_ia g u v e Hc A). exact Hs.
  - intros [A Hs]. split; [exact A|]. pose proof (proj1 (wf_adj_iff W u v e) A) as A'.
    rewrite (changed_ia g u v e Hc A'). exact Hs.
Qed.

(** there "order differs => in the centre" fails: an aromatic bond (1.5) that becomes single (1.0) *)
Definition ia_G : mgraph := LG [(1%N, GN 70%N true 1 0 None 1); (2%N, GN 70%N true 1 0 None 2)] [(1%N, 2%N, 3)].
Definition ia_H : mgraph := LG [(1%N, GN 70%N false 2 0 None 1); (2%N, GN 70%N false 2 0 None 2)] [(1%N, 2%N, 2)].
Definition ia_its : its := its_construct_ab true false ia_G ia_H.

Lemma ia_its_wf : wf ia_its.
Proof.
  apply wf_intro; simpl.
  - repeat constructor; simpl; intuition discriminate.
  - intros a b x I. vm_compute in I. destruct I as [E|[]]. inversion E; subst. simpl. intuition discriminate.
  - vm_compute. repeat constructor.
Qed.

Theorem rc_edges_ia_refuted : exists (g : its) (u v : N) (e : iedge),
  wf g /\ ia_consistent g /\ adj g u v = Some e /\ e_G e <> e_H e /\ adj (get_rc g) u v = None /\ gnodes (get_rc g) = [].
Proof.
  exists ia_its, 1%N, 2%N, (IE 3 2 0). split; [apply ia_its_wf|]. split; [apply its_construct_ia_consistent|].
  vm_compute. repeat split; try reflexivity. discriminate.
Qed.

(** * non-vacuity *)
Definition xex : xits :=
  LG [(1%N, XN (Some 70%N) (Some 0) (Some 1) None None None (Some (NA 70%N false 0 0 [], NA 70%N false 0 0 [])));
      (2%N, XN (Some 70%N) (Some 0) (Some 2) None None None (Some (NA 70%N false 0 0 [], NA 70%N false 0 0 [])));
      (3%N, XN (Some 82%N) (Some 0) (Some 3) None None None (Some (NA 82%N false 0 (-1) [], NA 82%N false 0 0 [])));
      (4%N, XN (Some 2%N) (Some 0) (Some 4) None None None None);
      (5%N, XN (Some 2%N) (Some 0) (Some 5) None None None None);
      (6%N, XN (Some 70%N) (Some 0) (Some 6) None None None (Some (NA 70%N false 0 0 [], NA 70%N false 0 0 [])))]
     [(1%N, 2%N, (IE 2 4 (-2), None)); (2%N, 3%N, (IE 2 2 0, None)); (4%N, 5%N, (IE 2 2 0, Some false));
      (2%N, 6%N, (IE 2 2 0, Some true))].

Lemma xex_wf : wf xex.
Proof.
  apply wf_intro; simpl.
  - repeat constructor; simpl; intuition discriminate.
  - intros a b x I. repeat (destruct I as [E|I]; [inversion E; subst; simpl; intuition discriminate|]). destruct I.
  - repeat constructor.
Qed.

(** default: bonds 1-2 (changed), 4-5 (H-H, fallback typesGH written); keep_mtg adds 2-6; disconnected adds atom 3
    and the bond 2-3 without is_mtg; element_key = [element] drops the other labels but H atoms keep typesGH *)
Example C02_opts_nonvacuous :
  wf xex /\
  map fst (gnodes (get_rc_x K_default false false xex)) = [1; 2; 4; 5]%N /\
  map fst (gnodes (get_rc_x K_default false true xex)) = [1; 2; 6; 4; 5]%N /\
  map fst (gnodes (get_rc_x K_default true false xex)) = [1; 2; 4; 5; 3]%N /\
  adj (get_rc_x K_default true false xex) 2%N 3%N = Some (IE 2 2 0, None) /\
  adj (get_rc_x K_default false true xex) 2%N 6%N = Some (IE 2 2 0, Some true) /\
  adj (get_rc_x K_default false false xex) 2%N 6%N = None /\
  label (get_rc_x (KS true false false false false false false) false false xex) 4%N =
    Some (XN (Some 2%N) None None None None None (Some HH_FALLBACK)) /\
  label (get_rc_x (KS true false false false false false false) false false xex) 1%N =
    Some (XN (Some 70%N) None None None None None None).
Proof. split; [apply xex_wf|]. vm_compute. repeat split. Qed.

Example C02_default_emb_nonvacuous :
  get_rc_x K_default false false (emb ex_its) = gmap xn_of (fun e : iedge => (e, Some false)) (get_rc ex_its) /\
  length (gnodes (get_rc ex_its)) = 5%nat.
Proof. split; [apply rcx_default_emb|reflexivity]. Qed.

(** helpers: ex_its has the unchanged H-H bond 4-8: find_unequal_order_edges misses atom 8; remove_normal_edges keeps the 4
    changed bonds; n_knn = -1 on ex_its: the longest extension 1-5-6-7 has 4 atoms, so the context is the whole ITS *)
Example C02_helpers_nonvacuous :
  length (unequal_nodes ex_its) = 4%nat /\ length (gnodes (get_rc ex_its)) = 5%nat /\
  length (gedges (remove_normal ex_its)) = 4%nat /\
  lre ex_its (node_ids (get_rc ex_its)) = [1; 5; 6; 7]%N /\
  length (gnodes (extract_k_z ex_its (-1))) = 8%nat /\
  extract_k_z ex_its 2 = extract_k ex_its 2 /\
  map (fun p => length (gnodes (snd p))) (context_list [ex_its; get_rc ex_its; ex_its] 1) = [6; 5; 6]%nat.
Proof. vm_compute. repeat split. Qed.

(** the hypotheses of unequal_eq_rc are satisfiable with a non-empty centre: ex_its without the H-H bond *)
Definition ex_its2 : its := LG (gnodes ex_its) (removelast (gedges ex_its)).
Example C02_unequal_eq_nonvacuous :
  wf ex_its2 /\ std_consistent ex_its2 /\
  (forall u v x, In (u, v, x) (gedges ex_its2) -> is_hh ex_its2 u v = true -> e_std x <> 0) /\
  length (unequal_nodes ex_its2) = 4%nat.
Proof.
  split; [|split; [|split; [|reflexivity]]].
  - apply wf_intro; simpl.
    + repeat constructor; simpl; intuition discriminate.
    + intros a b x I. repeat (destruct I as [E|I]; [inversion E; subst; simpl; intuition discriminate|]). destruct I.
    + repeat constructor.
  - intros u v x I. simpl in I. repeat (destruct I as [E|I]; [inversion E; reflexivity|]). destruct I.
  - intros u v x I. simpl in I. repeat (destruct I as [E|I]; [inversion E; subst; vm_compute; intros; discriminate|]). destruct I.
Qed.

(** an ignore_aromaticity ITS with a non-empty centre: 1.5 -> 1 is ignored, 2 -> 1 is kept *)
Definition ia_G2 : mgraph := LG (gnodes ia_G ++ [(3%N, GN 82%N false 0 0 None 3)]) [(1%N, 2%N, 3); (2%N, 3%N, 4)].
Definition ia_H2 : mgraph := LG (gnodes ia_H ++ [(3%N, GN 82%N false 1 0 None 3)]) [(1%N, 2%N, 2); (2%N, 3%N, 2)].
Example C02_ia_nonvacuous :
  ia_consistent (its_construct_ab true true ia_G2 ia_H2) /\
  map fst (gnodes (get_rc (its_construct_ab true true ia_G2 ia_H2))) = [2; 3]%N /\
  map fst (gnodes (get_rc (its_construct_ab false true ia_G2 ia_H2))) = [1; 2; 3]%N.
Proof. split; [apply its_construct_ia_consistent|]. vm_compute. split; reflexivity. Qed.
