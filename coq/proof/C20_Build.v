(** C20 — the extended Petri net built from (vertices, edges, flow) and what a firing sequence of it
    means for the pathway: soundness of [is_realizable] in terms of the edge list itself. *)
From Coq Require Import ZArith NArith List Bool Arith Lia.
Import ListNotations.
From SK Require Import model.C20_Model proof.C20_Spec proof.C20_Petri proof.C20_Bfs.
Local Open Scope Z_scope.

(** * Places and transitions under [add_place] / [add_transition] *)

Lemma memN_spec x l : memN x l = true <-> In x l.
Proof.
  unfold memN. rewrite existsb_exists. split.
  - intros [y [H1 H2]]. apply N.eqb_eq in H2. now subst.
  - intros H. exists x. split; auto. apply N.eqb_refl.
Qed.

Lemma NoDup_snoc (l : list N) x : NoDup l -> ~ In x l -> NoDup (l ++ [x]).
Proof.
  induction 1; intros Hx; simpl.
  - constructor; [simpl; tauto|constructor].
  - constructor.
    + rewrite in_app_iff. simpl. intros [Hi|[E|[]]]; [tauto|]. subst. apply Hx. simpl; auto.
    + apply IHNoDup. intros Hi. apply Hx. simpl; auto.
Qed.

Lemma add_place_in nt q p : In p (pn_places (add_place nt q)) <-> In p (pn_places nt) \/ p = q.
Proof.
  unfold add_place. destruct (memN q (pn_places nt)) eqn:E; simpl.
  - apply memN_spec in E. split; [auto|]. intros [H| ->]; auto.
  - rewrite in_app_iff. simpl. intuition congruence.
Qed.

Lemma add_place_trans nt q : pn_trans (add_place nt q) = pn_trans nt.
Proof. unfold add_place. destruct (memN q (pn_places nt)); reflexivity. Qed.

Lemma add_place_nodup nt q : NoDup (pn_places nt) -> NoDup (pn_places (add_place nt q)).
Proof.
  unfold add_place. destruct (memN q (pn_places nt)) eqn:E; simpl; auto.
  intros H. apply NoDup_snoc; auto. intros Hi. apply memN_spec in Hi. congruence.
Qed.

Lemma fold_add_place_in l : forall nt p,
  In p (pn_places (fold_left add_place l nt)) <-> In p (pn_places nt) \/ In p l.
Proof.
  induction l as [|q l IH]; intros nt p; simpl; [tauto|].
  rewrite IH, add_place_in. intuition congruence.
Qed.

Lemma fold_add_place_trans l : forall nt, pn_trans (fold_left add_place l nt) = pn_trans nt.
Proof. induction l; intros nt; simpl; auto. now rewrite IHl, add_place_trans. Qed.

Lemma fold_add_place_nodup l : forall nt,
  NoDup (pn_places nt) -> NoDup (pn_places (fold_left add_place l nt)).
Proof. induction l; intros nt H; simpl; auto. apply IHl, add_place_nodup, H. Qed.

Lemma upsert_fresh ts t : (forall u, In u ts -> t_id u <> t_id t) -> upsert ts t = ts ++ [t].
Proof.
  induction ts as [|u ts IH]; intros H; simpl; auto.
  destruct (N.eqb (t_id u) (t_id t)) eqn:E.
  - apply N.eqb_eq in E. exfalso. apply (H u); simpl; auto.
  - f_equal. apply IH. intros; apply H; simpl; auto.
Qed.

(** * One loop iteration of [build_petri_net_from_flow], component by component *)

Definition item := (N * edge * Z)%type.
Definition it_id (it : item) : N := fst (fst it).
Definition it_edge (it : item) : edge := snd (fst it).
Definition it_pre (it : item) : dict := set (pos_part (fst (it_edge it))) (ext_place (it_id it)) 1.
Definition it_post (it : item) : dict := set (pos_part (snd (it_edge it))) (tgt_place (it_id it)) 1.
Definition mk_trans (it : item) : transition := T (it_id it) (it_pre it) (it_post it).

Definition net_step (nt : petri) (it : item) : petri :=
  add_transition (add_place (add_place nt (ext_place (it_id it))) (tgt_place (it_id it)))
                 (it_id it) (it_pre it) (it_post it).

Lemma build_edge_net st it : b_net (build_edge st it) = net_step (b_net st) it.
Proof. destruct it as [[j [tail head]] f]. reflexivity. Qed.
Lemma build_edge_M0 st it : b_M0 (build_edge st it) = set (b_M0 st) (ext_place (it_id it)) (snd it).
Proof. destruct it as [[j [tail head]] f]. reflexivity. Qed.
Lemma build_edge_MT st it : b_MT (build_edge st it) = set (b_MT st) (tgt_place (it_id it)) (snd it).
Proof. destruct it as [[j [tail head]] f]. reflexivity. Qed.

Definition kfold (key : N -> N) (items : list item) (m : dict) : dict :=
  fold_left (fun m it => set m (key (it_id it)) (snd it)) items m.

Lemma fold_build_net items : forall st,
  b_net (fold_left build_edge items st) = fold_left net_step items (b_net st).
Proof. induction items; intros st; simpl; auto. now rewrite IHitems, build_edge_net. Qed.
Lemma fold_build_M0 items : forall st,
  b_M0 (fold_left build_edge items st) = kfold ext_place items (b_M0 st).
Proof. induction items; intros st; simpl; auto. rewrite IHitems, build_edge_M0. reflexivity. Qed.
Lemma fold_build_MT items : forall st,
  b_MT (fold_left build_edge items st) = kfold tgt_place items (b_MT st).
Proof. induction items; intros st; simpl; auto. rewrite IHitems, build_edge_MT. reflexivity. Qed.

Lemma net_step_in nt it p :
  In p (pn_places (net_step nt it)) <->
  In p (pn_places nt) \/ p = ext_place (it_id it) \/ p = tgt_place (it_id it) \/
  In p (map fst (it_pre it) ++ map fst (it_post it)).
Proof.
  unfold net_step, add_transition. simpl. rewrite fold_add_place_in, !add_place_in. tauto.
Qed.

Lemma net_step_nodup nt it : NoDup (pn_places nt) -> NoDup (pn_places (net_step nt it)).
Proof.
  intros H. unfold net_step, add_transition. simpl.
  apply fold_add_place_nodup, add_place_nodup, add_place_nodup, H.
Qed.

Lemma net_step_trans nt it : pn_trans (net_step nt it) = upsert (pn_trans nt) (mk_trans it).
Proof.
  unfold net_step, add_transition. simpl. now rewrite fold_add_place_trans, !add_place_trans.
Qed.

Lemma fold_net_step_mono items : forall nt p,
  In p (pn_places nt) -> In p (pn_places (fold_left net_step items nt)).
Proof.
  induction items as [|it items IH]; intros nt p H; simpl; auto.
  apply IH. apply net_step_in. auto.
Qed.

Lemma fold_net_step_nodup items : forall nt,
  NoDup (pn_places nt) -> NoDup (pn_places (fold_left net_step items nt)).
Proof. induction items; intros nt H; simpl; auto. apply IHitems, net_step_nodup, H. Qed.

Lemma fold_net_step_mentions items : forall nt it p, In it items ->
  (p = ext_place (it_id it) \/ p = tgt_place (it_id it) \/
   In p (map fst (it_pre it) ++ map fst (it_post it))) ->
  In p (pn_places (fold_left net_step items nt)).
Proof.
  induction items as [|it0 items IH]; intros nt it p Hin Hp; simpl in *; [tauto|].
  destruct Hin as [->|Hin]; [|eapply IH; eauto].
  apply fold_net_step_mono. apply net_step_in. tauto.
Qed.

Fixpoint ids_from (j0 : N) (items : list item) : Prop :=
  match items with
  | [] => True
  | it :: r => it_id it = j0 /\ ids_from (N.succ j0) r
  end.

Lemma ids_from_ge items : forall j0 it, ids_from j0 items -> In it items -> (j0 <= it_id it)%N.
Proof.
  induction items as [|it0 items IH]; intros j0 it H Hin; simpl in *; [tauto|].
  destruct H as [H1 H2]. destruct Hin as [->|Hin]; [lia|].
  specialize (IH _ _ H2 Hin). lia.
Qed.

Lemma ids_from_nodup items : forall j0, ids_from j0 items -> NoDup (map it_id items).
Proof.
  induction items as [|it0 items IH]; intros j0 H; simpl in *; constructor.
  - destruct H as [H1 H2]. intros Hin. apply in_map_iff in Hin as [it [E Hin]].
    pose proof (ids_from_ge _ _ _ H2 Hin). lia.
  - destruct H as [_ H2]. eapply IH; eauto.
Qed.

Lemma fold_net_step_trans items : forall j0 nt,
  ids_from j0 items -> (forall u, In u (pn_trans nt) -> (t_id u < j0)%N) ->
  pn_trans (fold_left net_step items nt) = pn_trans nt ++ map mk_trans items.
Proof.
  induction items as [|it items IH]; intros j0 nt Hids Hlt; simpl.
  - now rewrite app_nil_r.
  - destruct Hids as [Hid Hids].
    assert (E : pn_trans (net_step nt it) = pn_trans nt ++ [mk_trans it]).
    { rewrite net_step_trans. apply upsert_fresh. intros u Hu. specialize (Hlt u Hu). simpl. lia. }
    rewrite (IH (N.succ j0)); auto.
    + rewrite E, <- app_assoc. reflexivity.
    + intros u Hu. rewrite E in Hu. apply in_app_iff in Hu as [Hu|[<-|[]]].
      * specialize (Hlt u Hu). lia.
      * simpl. lia.
Qed.

Lemma ids_from_items es : forall j0 fl, ids_from j0 (zip_flow (index_from j0 es) fl).
Proof. induction es as [|e es IH]; intros j0 fl; simpl; auto. Qed.

Lemma in_items es : forall j0 fl it, In it (zip_flow (index_from j0 es) fl) ->
  exists k, it_id it = (j0 + N.of_nat k)%N /\ nth_error es k = Some (it_edge it) /\ snd it = nth k fl 0.
Proof.
  induction es as [|e es IH]; intros j0 fl it Hin; simpl in *; [tauto|].
  destruct Hin as [<-|Hin].
  - exists 0%nat. simpl. split; [unfold it_id; simpl; lia|]. split; auto. destruct fl; reflexivity.
  - destruct (IH _ _ _ Hin) as [k [H1 [H2 H3]]]. exists (S k). split; [lia|]. split; auto.
    rewrite H3. destruct fl; simpl; auto. destruct k; reflexivity.
Qed.

(** * Dictionaries: [set], [weight], [pos_part] *)

Lemma set_keys d p c q : In q (map fst (set d p c)) <-> In q (map fst d) \/ q = p.
Proof.
  induction d as [|[r c'] d IH]; simpl.
  - intuition congruence.
  - destruct (N.eqb r p) eqn:E; simpl.
    + apply N.eqb_eq in E. subst. intuition congruence.
    + rewrite IH. tauto.
Qed.

Lemma set_In_other d p c q w : q <> p -> In (q, w) d -> In (q, w) (set d p c).
Proof.
  intros Hne. induction d as [|[r c'] d IH]; simpl; [tauto|].
  intros [H|H]; destruct (N.eqb r p) eqn:E; simpl; auto.
  apply N.eqb_eq in E. inversion H; subst. congruence.
Qed.

Lemma weight_set_other d p c q : p <> q -> weight (set d p c) q = weight d q.
Proof.
  intros Hne. induction d as [|[r c'] d IH]; simpl.
  - destruct (N.eqb p q) eqn:E; [apply N.eqb_eq in E; congruence|lia].
  - destruct (N.eqb r p) eqn:E; simpl.
    + apply N.eqb_eq in E. subst r. destruct (N.eqb p q) eqn:E2; [apply N.eqb_eq in E2; congruence|lia].
    + rewrite IH. reflexivity.
Qed.

Lemma weight_set_fresh d p c : ~ In p (map fst d) -> weight (set d p c) p = c.
Proof.
  induction d as [|[r c'] d IH]; simpl; intros H.
  - rewrite N.eqb_refl. lia.
  - destruct (N.eqb r p) eqn:E; [apply N.eqb_eq in E; subst; tauto|].
    simpl. rewrite E, IH; [lia|tauto].
Qed.

Lemma weight_nonzero_in d p : weight d p <> 0 -> In p (map fst d).
Proof.
  intros H. destruct (in_dec N.eq_dec p (map fst d)); auto.
  exfalso. apply H. now apply weight_notin.
Qed.

Lemma sp_ext s j : sp_place s <> ext_place j. Proof. unfold sp_place, ext_place. lia. Qed.
Lemma sp_tgt s j : sp_place s <> tgt_place j. Proof. unfold sp_place, tgt_place. lia. Qed.
Lemma ext_tgt i j : ext_place i <> tgt_place j. Proof. unfold ext_place, tgt_place. lia. Qed.
Lemma sp_inj s s' : sp_place s = sp_place s' -> s = s'. Proof. unfold sp_place. lia. Qed.
Lemma ext_inj s s' : ext_place s = ext_place s' -> s = s'. Proof. unfold ext_place. lia. Qed.
Lemma tgt_inj s s' : tgt_place s = tgt_place s' -> s = s'. Proof. unfold tgt_place. lia. Qed.

Lemma pos_part_keys d p : In p (map fst (pos_part d)) -> exists s, p = sp_place s.
Proof.
  unfold pos_part. rewrite map_map. simpl. intros H. apply in_map_iff in H as [[s w] [<- _]]. eauto.
Qed.

Lemma pos_part_In d s w : In (s, w) d -> 0 < w -> In (sp_place s, w) (pos_part d).
Proof.
  intros H Hw. unfold pos_part. apply in_map_iff. exists (s, w). split; auto.
  apply filter_In. split; auto. simpl. now apply Z.ltb_lt.
Qed.

Lemma weight_map_sp l s : weight (map (fun sw : N * Z => (sp_place (fst sw), snd sw)) l) (sp_place s) = weight l s.
Proof.
  induction l as [|[q c] l IH]; simpl; auto. rewrite IH.
  replace (N.eqb (sp_place q) (sp_place s)) with (N.eqb q s); auto.
  destruct (N.eqb q s) eqn:E.
  - apply N.eqb_eq in E. subst. symmetry. apply N.eqb_refl.
  - symmetry. apply N.eqb_neq. apply N.eqb_neq in E. intros H. apply sp_inj in H. congruence.
Qed.

Lemma weight_pos_part d s : weight (pos_part d) (sp_place s) = pweight d s.
Proof. unfold pos_part, pweight. apply weight_map_sp. Qed.

Lemma weight_pos_part_ext d j : weight (pos_part d) (ext_place j) = 0.
Proof. apply weight_notin. intros H. apply pos_part_keys in H as [s H]. symmetry in H. now apply sp_ext in H. Qed.
Lemma weight_pos_part_tgt d j : weight (pos_part d) (tgt_place j) = 0.
Proof. apply weight_notin. intros H. apply pos_part_keys in H as [s H]. symmetry in H. now apply sp_tgt in H. Qed.

Lemma ext_notin_pos d j : ~ In (ext_place j) (map fst (pos_part d)).
Proof. intros H. apply pos_part_keys in H as [s H]. symmetry in H. now apply sp_ext in H. Qed.
Lemma tgt_notin_pos d j : ~ In (tgt_place j) (map fst (pos_part d)).
Proof. intros H. apply pos_part_keys in H as [s H]. symmetry in H. now apply sp_tgt in H. Qed.

(** weights of the transition of an item *)
Lemma it_pre_sp it s : weight (it_pre it) (sp_place s) = pweight (fst (it_edge it)) s.
Proof. unfold it_pre. rewrite weight_set_other by (intros H; symmetry in H; now apply sp_ext in H). apply weight_pos_part. Qed.
Lemma it_post_sp it s : weight (it_post it) (sp_place s) = pweight (snd (it_edge it)) s.
Proof. unfold it_post. rewrite weight_set_other by (intros H; symmetry in H; now apply sp_tgt in H). apply weight_pos_part. Qed.
Lemma it_pre_tgt it j : weight (it_pre it) (tgt_place j) = 0.
Proof. unfold it_pre. rewrite weight_set_other by apply ext_tgt. apply weight_pos_part_tgt. Qed.
Lemma it_post_tgt it j : weight (it_post it) (tgt_place j) = if N.eqb (it_id it) j then 1 else 0.
Proof.
  unfold it_post. destruct (N.eqb (it_id it) j) eqn:E.
  - apply N.eqb_eq in E. subst. apply weight_set_fresh, tgt_notin_pos.
  - apply N.eqb_neq in E. rewrite weight_set_other; [apply weight_pos_part_tgt|].
    intros H. apply tgt_inj in H. congruence.
Qed.

(** * The markings M0 / MT *)

Lemma kfold_other key items : forall m p,
  (forall it, In it items -> key (it_id it) <> p) -> get (kfold key items m) p = get m p.
Proof.
  induction items as [|it items IH]; intros m p H; simpl; auto.
  unfold kfold in *. simpl. rewrite IH by (intros; apply H; simpl; auto).
  apply get_set_other. apply H. simpl; auto.
Qed.

Lemma kfold_at key items : (forall a b, key a = key b -> a = b) ->
  forall m it, NoDup (map it_id items) -> In it items ->
  get (kfold key items m) (key (it_id it)) = snd it.
Proof.
  intros Hinj. induction items as [|it0 items IH]; intros m it Hnd Hin; simpl in *; [tauto|].
  inversion Hnd; subst. destruct Hin as [->|Hin].
  - unfold kfold. simpl. fold (kfold key items (set m (key (it_id it)) (snd it))).
    rewrite kfold_other; [apply get_set_same|].
    intros it' Hit' E. apply Hinj in E. apply H1. rewrite <- E. now apply in_map.
  - unfold kfold. simpl. apply IH; auto.
Qed.

Lemma kfold_keys key items : forall m p, In p (map fst m) -> In p (map fst (kfold key items m)).
Proof.
  induction items as [|it items IH]; intros m p H; simpl; auto.
  unfold kfold in *. simpl. apply IH. apply set_keys. auto.
Qed.

Lemma kfold_key_in key items : forall m it, In it items -> In (key (it_id it)) (map fst (kfold key items m)).
Proof.
  induction items as [|it0 items IH]; intros m it Hin; simpl in *; [tauto|].
  destruct Hin as [->|Hin].
  - unfold kfold. simpl. apply kfold_keys. apply set_keys. auto.
  - unfold kfold. simpl. apply IH. auto.
Qed.

Lemma zero_fold vs : forall m, (forall p, get m p = 0) ->
  forall p, get (fold_left (fun m v => set m (sp_place v) 0) vs m) p = 0.
Proof.
  induction vs as [|v vs IH]; intros m H p; simpl; auto.
  apply IH. intros q. rewrite get_set. destruct (N.eqb (sp_place v) q); auto.
Qed.

Lemma kfold_keys_inv key items : forall m p, In p (map fst (kfold key items m)) ->
  In p (map fst m) \/ exists it, In it items /\ p = key (it_id it).
Proof.
  induction items as [|it items IH]; intros m p H; simpl in *; auto.
  unfold kfold in H. simpl in H. apply IH in H as [H|[it' [H1 H2]]]; eauto.
  apply set_keys in H as [H|H]; eauto.
Qed.

Lemma zero_fold_keys vs : forall m p,
  In p (map fst (fold_left (fun m v => set m (sp_place v) 0) vs m)) ->
  In p (map fst m) \/ exists v, In v vs /\ p = sp_place v.
Proof.
  induction vs as [|v vs IH]; intros m p H; simpl in *; auto.
  apply IH in H as [H|[v' [H1 H2]]]; eauto.
  apply set_keys in H as [H|H]; eauto.
Qed.

(** * Interpretation of the built net *)

Section Built.
Variables (vertices : list N) (edges : list edge) (flow : list Z).

Let items := zip_flow (index_from 0%N edges) flow.
Let net0 := fold_left add_place (map sp_place vertices) empty_petri.
Let base := fold_left (fun m v => set m (sp_place v) 0) vertices [].
Let b := build_petri_net_from_flow vertices edges flow.
Let net := b_net b.
Let places := pn_places net.

Lemma b_net_eq : net = fold_left net_step items net0.
Proof. unfold net, b, build_petri_net_from_flow. now rewrite fold_build_net. Qed.
Lemma b_M0_eq : b_M0 b = kfold ext_place items base.
Proof. unfold b, build_petri_net_from_flow. now rewrite fold_build_M0. Qed.
Lemma b_MT_eq : b_MT b = kfold tgt_place items base.
Proof. unfold b, build_petri_net_from_flow. now rewrite fold_build_MT. Qed.

Lemma base_zero p : get base p = 0.
Proof. unfold base. apply zero_fold. reflexivity. Qed.

Lemma items_ids : ids_from 0%N items.
Proof. apply ids_from_items. Qed.

Lemma items_nodup : NoDup (map it_id items).
Proof. eapply ids_from_nodup, items_ids. Qed.

Lemma item_edge it : In it items ->
  nth_error edges (N.to_nat (it_id it)) = Some (it_edge it) /\ snd it = nth (N.to_nat (it_id it)) flow 0.
Proof.
  intros H. apply in_items in H as [k [H1 [H2 H3]]].
  replace (N.to_nat (it_id it)) with k by lia. auto.
Qed.

Lemma item_of_index j : (N.to_nat j < length edges)%nat -> exists it, In it items /\ it_id it = j.
Proof.
  intros H. unfold items.
  assert (G : forall es j0 fl k, (k < length es)%nat ->
            exists it, In it (zip_flow (index_from j0 es) fl) /\ it_id it = (j0 + N.of_nat k)%N).
  { induction es as [|e es IH]; intros j0 fl k Hk; simpl in *; [lia|].
    destruct k.
    - eexists. split; [left; reflexivity|]. unfold it_id; simpl. lia.
    - destruct (IH (N.succ j0) (tl fl) k) as [it [H1 H2]]; [lia|].
      exists it. split; auto. lia. }
  destruct (G edges 0%N flow (N.to_nat j) H) as [it [H1 H2]]. exists it. split; auto. lia.
Qed.

Lemma trans_eq : pn_trans net = map mk_trans items.
Proof.
  rewrite b_net_eq. rewrite (fold_net_step_trans items 0%N net0 items_ids).
  - unfold net0. rewrite fold_add_place_trans. reflexivity.
  - unfold net0. rewrite fold_add_place_trans. simpl. tauto.
Qed.

Lemma places_nodup : NoDup places.
Proof.
  unfold places. rewrite b_net_eq. apply fold_net_step_nodup.
  unfold net0. apply fold_add_place_nodup. constructor.
Qed.

Lemma places_mentions it p : In it items ->
  (p = ext_place (it_id it) \/ p = tgt_place (it_id it) \/
   In p (map fst (it_pre it) ++ map fst (it_post it))) -> In p places.
Proof. intros. unfold places. rewrite b_net_eq. eapply fold_net_step_mentions; eauto. Qed.

Lemma M0_sp s : get (b_M0 b) (sp_place s) = 0.
Proof. rewrite b_M0_eq, kfold_other; [apply base_zero|]. intros it _ H. symmetry in H. now apply sp_ext in H. Qed.
Lemma MT_sp s : get (b_MT b) (sp_place s) = 0.
Proof. rewrite b_MT_eq, kfold_other; [apply base_zero|]. intros it _ H. symmetry in H. now apply sp_tgt in H. Qed.
Lemma M0_tgt j : get (b_M0 b) (tgt_place j) = 0.
Proof. rewrite b_M0_eq, kfold_other; [apply base_zero|]. intros it _ H. now apply ext_tgt in H. Qed.
Lemma MT_tgt it : In it items -> get (b_MT b) (tgt_place (it_id it)) = snd it.
Proof. intros H. rewrite b_MT_eq. apply kfold_at; auto using items_nodup. apply tgt_inj. Qed.

(** the marking a tuple stands for *)
Definition mv (mt : tuple) (p : N) : Z := get (combine places mt) p.
Definition sm (mt : tuple) : smarking := fun s => mv mt (sp_place s).

Lemma mv_tuple d p : mv (marking_to_tuple net d) p = if in_dec N.eq_dec p places then get d p else 0.
Proof.
  unfold mv, marking_to_tuple. fold places. destruct (in_dec N.eq_dec p places).
  - now apply get_combine_map.
  - now apply get_combine_notin.
Qed.

Lemma mv_notin mt p : ~ In p places -> mv mt p = 0.
Proof. apply get_combine_notin. Qed.

Lemma tstep_effect t mt m1 : tstep net t mt = Some m1 ->
  (forall p w, In (p, w) (t_pre t) -> w <= mv mt p) /\
  (forall p, In p places -> mv m1 p = mv mt p - weight (t_pre t) p + weight (t_post t) p) /\
  (forall p, ~ In p places -> mv m1 p = 0).
Proof.
  unfold tstep. fold places. destruct (enabled_t t (combine places mt)) eqn:En; [|discriminate].
  intros H. inversion H; subst. split; [|split].
  - apply enabled_t_spec. exact En.
  - intros p Hp. rewrite mv_tuple. destruct (in_dec N.eq_dec p places); [|tauto]. apply fire_t_spec.
  - intros p Hp. now apply mv_notin.
Qed.

Lemma sm_start s : sm (marking_to_tuple net (b_M0 b)) s = 0.
Proof. unfold sm. rewrite mv_tuple. destruct (in_dec _ _ _); auto. apply M0_sp. Qed.
Lemma sm_target s : sm (marking_to_tuple net (b_MT b)) s = 0.
Proof. unfold sm. rewrite mv_tuple. destruct (in_dec _ _ _); auto. apply MT_sp. Qed.

(** pointwise-equal markings are interchangeable in [ordering] *)
Lemma fire_edge_ext e m1 m2 : (forall s, m1 s = m2 s) -> forall s, fire_edge e m1 s = fire_edge e m2 s.
Proof. intros H s. unfold fire_edge. now rewrite H. Qed.

Lemma ordering_ext sq : forall m1 m2 m' m'',
  (forall s, m1 s = m2 s) -> (forall s, m' s = m'' s) ->
  ordering edges m1 sq m' -> ordering edges m2 sq m''.
Proof.
  induction sq as [|j sq IH]; intros m1 m2 m' m'' H1 H2 Ho; inversion Ho; subst.
  - constructor. intros s. rewrite <- H1, <- H2. auto.
  - econstructor; eauto.
    + intros s w Hin Hw. rewrite <- H1. eauto.
    + eapply IH; [| |eassumption]; auto using fire_edge_ext.
Qed.

Lemma count_cons j j' sq : count j' (j :: sq) = (if N.eqb j j' then 1 else 0) + count j' sq.
Proof.
  unfold count. simpl. destruct (N.eq_dec j j') as [E|E].
  - subst. rewrite N.eqb_refl. lia.
  - apply N.eqb_neq in E. rewrite E. lia.
Qed.

(** a firing sequence of the extended net is an ordering of the pathway *)
Lemma path_ordering m sq m' : path net m sq m' ->
  ordering edges (sm m) sq (sm m') /\
  (forall j, mv m' (tgt_place j) = mv m (tgt_place j) + count j sq) /\
  (forall j, In j sq -> (N.to_nat j < length edges)%nat).
Proof.
  induction 1 as [m|m t m1 s m' Ht Hstep Hp [IH1 [IH2 IH3]]].
  - split; [constructor; auto|]. split; [intros; unfold count; simpl; lia|]. intros j [].
  - rewrite trans_eq in Ht. apply in_map_iff in Ht as [it [<- Hit]].
    destruct (item_edge it Hit) as [Hedge _].
    destruct (tstep_effect _ _ _ Hstep) as [Hen [Heff Hout]]. simpl in *.
    split; [|split].
    + apply ord_cons with (e := it_edge it); auto.
      * intros s0 w Hin Hw. apply Hen. unfold it_pre.
        apply set_In_other; [apply sp_ext|]. now apply pos_part_In.
      * eapply ordering_ext; [| |exact IH1]; auto.
        intros s0. unfold sm, fire_edge.
        destruct (in_dec N.eq_dec (sp_place s0) places) as [Hin|Hni].
        -- rewrite Heff by auto. now rewrite it_pre_sp, it_post_sp.
        -- rewrite Hout by auto. rewrite mv_notin by auto.
           assert (pweight (fst (it_edge it)) s0 = 0).
           { destruct (Z.eq_dec (pweight (fst (it_edge it)) s0) 0); auto. exfalso. apply Hni.
             apply (places_mentions it); auto. right. right. apply in_app_iff. left.
             apply weight_nonzero_in. now rewrite it_pre_sp. }
           assert (pweight (snd (it_edge it)) s0 = 0).
           { destruct (Z.eq_dec (pweight (snd (it_edge it)) s0) 0); auto. exfalso. apply Hni.
             apply (places_mentions it); auto. right. right. apply in_app_iff. right.
             apply weight_nonzero_in. now rewrite it_post_sp. }
           lia.
    + intros j. rewrite IH2, count_cons.
      destruct (in_dec N.eq_dec (tgt_place j) places) as [Hin|Hni].
      * rewrite Heff by auto. rewrite it_pre_tgt, it_post_tgt. lia.
      * rewrite Hout by auto. rewrite (mv_notin m) by auto.
        destruct (N.eqb (it_id it) j) eqn:E; [|lia].
        apply N.eqb_eq in E. subst j. exfalso. apply Hni. apply (places_mentions it); auto.
    + intros j [<-|Hj]; auto. apply nth_error_Some. congruence.
Qed.

(** ** Soundness of [is_realizable] *)
Lemma is_realizable_sound max_states max_depth sq :
  bo_verdict (is_realizable b max_states max_depth) = Found sq -> realizes edges flow sq.
Proof.
  unfold is_realizable. fold net. destruct (markings_equal (b_M0 b) (b_MT b)) eqn:Eq.
  - simpl. intros H. inversion H; subst. split; [constructor; auto|]. split; [|intros j []].
    intros j Hj. unfold count. simpl.
    destruct (item_of_index j Hj) as [it [Hit <-]].
    destruct (item_edge it Hit) as [_ Hf]. rewrite <- Hf.
    unfold markings_equal in Eq. rewrite forallb_forall in Eq.
    specialize (Eq (tgt_place (it_id it))). rewrite M0_tgt, MT_tgt in Eq by auto.
    assert (In (tgt_place (it_id it)) (map fst (b_MT b) ++ map fst (b_M0 b))).
    { apply in_app_iff. left. rewrite b_MT_eq. now apply kfold_key_in. }
    apply Eq, Z.eqb_eq in H0. lia.
  - intros H. apply bfs_sound with (start := marking_to_tuple net (b_M0 b)) in H.
    + destruct (path_ordering _ _ _ H) as [Ho [Hc Hr]]. split; [|split]; auto.
      * eapply ordering_ext; [| |exact Ho]; intros s; [apply sm_start|apply sm_target].
      * intros j Hj. destruct (item_of_index j Hj) as [it [Hit <-]].
        destruct (item_edge it Hit) as [_ Hf]. rewrite <- Hf.
        specialize (Hc (it_id it)). rewrite !mv_tuple in Hc.
        destruct (in_dec N.eq_dec (tgt_place (it_id it)) places) as [Hin|Hni].
        -- rewrite M0_tgt, MT_tgt in Hc by auto. lia.
        -- exfalso. apply Hni. apply (places_mentions it); auto.
    + intros m s [E|[]]. inversion E; subst. constructor.
Qed.
(** ** Completeness of [is_realizable] within the bounds (bounds stated on the extended net) *)
Lemma keys_in_places p : In p (map fst (b_MT b) ++ map fst (b_M0 b)) -> In p places.
Proof.
  assert (Hbase : forall q, In q (map fst base) -> In q places).
  { intros q Hq. unfold base in Hq. apply zero_fold_keys in Hq as [[]|[v [Hv ->]]].
    unfold places. rewrite b_net_eq. apply fold_net_step_mono. unfold net0.
    apply fold_add_place_in. right. now apply in_map. }
  intros H. apply in_app_iff in H as [H|H].
  - rewrite b_MT_eq in H. apply kfold_keys_inv in H as [H|[it [Hit ->]]]; auto.
    apply (places_mentions it); auto.
  - rewrite b_M0_eq in H. apply kfold_keys_inv in H as [H|[it [Hit ->]]]; auto.
    apply (places_mentions it); auto.
Qed.

Lemma start_ne_target : markings_equal (b_M0 b) (b_MT b) = false ->
  marking_to_tuple net (b_M0 b) <> marking_to_tuple net (b_MT b).
Proof.
  intros Hf E. unfold marking_to_tuple in E. fold places in E.
  assert (markings_equal (b_M0 b) (b_MT b) = true); [|congruence].
  unfold markings_equal. apply forallb_forall. intros p Hp. apply Z.eqb_eq.
  apply keys_in_places in Hp. revert p Hp. apply map_ext_in_iff. exact E.
Qed.

Lemma is_realizable_complete max_states max_depth (R : list tuple) :
  let start := marking_to_tuple net (b_M0 b) in
  let target := marking_to_tuple net (b_MT b) in
  (exists sq, path net start sq target) ->
  (forall s m, path net start s m -> In m R) ->
  (N.of_nat (length R) <= max_states)%N ->
  (forall s m, path net start s m -> (N.of_nat (length s) <= max_depth)%N) ->
  exists sq', bo_verdict (is_realizable b max_states max_depth) = Found sq'.
Proof.
  intros start target Hgoal HR HRlen Hdepth. unfold is_realizable. fold net.
  destruct (markings_equal (b_M0 b) (b_MT b)) eqn:Eq.
  - exists []. reflexivity.
  - apply bfs_complete with (R := R); auto. now apply start_ne_target.
Qed.
End Built.

(** every intermediate marking of an ordering that starts non-negative is non-negative:
    "never drives a species count negative" *)
Lemma pweight_nonneg d s : 0 <= pweight d s.
Proof.
  unfold pweight. induction d as [|[q c] d IH]; simpl; [lia|].
  destruct (0 <? c) eqn:E; simpl; auto. apply Z.ltb_lt in E. destruct (N.eqb q s); lia.
Qed.

Lemma covers_pweight m d s : (forall s, 0 <= m s) -> covers m d -> NoDup (map fst d) -> pweight d s <= m s.
Proof.
  intros Hm Hc Hnd. unfold pweight.
  assert (G : forall l, NoDup (map fst l) -> (forall q w, In (q, w) l -> 0 < w -> w <= m q) ->
              weight (filter (fun sw => 0 <? snd sw) l) s <= m s).
  { induction l as [|[q c] l IH]; simpl; intros Hn H; [apply Hm|].
    inversion Hn; subst.
    destruct (0 <? c) eqn:E; simpl.
    - apply Z.ltb_lt in E. destruct (N.eqb q s) eqn:E2.
      + apply N.eqb_eq in E2. subst q.
        rewrite weight_notin.
        * specialize (H s c (or_introl eq_refl) E). lia.
        * intros Hin. apply H2. apply in_map_iff in Hin as [[a b0] [Ha Hb]]. simpl in Ha. subst a.
          apply filter_In in Hb as [Hb _]. apply in_map_iff. exists (s, b0). auto.
      + apply IH; auto; intros; eapply H; eauto.
    - apply IH; auto; intros; eapply H; eauto. }
  apply G; auto.
Qed.

Lemma ordering_nonneg edges : (forall e, In e edges -> NoDup (map fst (fst e))) ->
  forall sq m m', nonneg m -> ordering edges m sq m' -> Forall nonneg (markings_along edges m sq).
Proof.
  intros Hwf. induction sq as [|j sq IH]; intros m m' Hm Ho; inversion Ho; subst; simpl.
  - constructor; auto.
  - constructor; auto. rewrite H1. eapply IH; eauto.
    intros s. unfold fire_edge.
    assert (pweight (fst e) s <= m s).
    { apply covers_pweight; auto. apply Hwf. eapply nth_error_In; eauto. }
    pose proof (pweight_nonneg (snd e) s). lia.
Qed.

(** non-vacuity: a realizable pathway  0 -> A, A -> B, B -> 0  with flow (1,1,1) *)
Example realizable_example :
  let edges := [([], [(0%N, 1)]); ([(0%N, 1)], [(1%N, 1)]); ([(1%N, 1)], [])] in
  bo_verdict (is_realizable (build_petri_net_from_flow [0%N; 1%N] edges [1; 1; 1]) 100 100)
  = Found [0%N; 1%N; 2%N].
Proof. vm_compute. reflexivity. Qed.

Example unrealizable_example :      (* A + X -> 2X needs a borrowed X *)
  let edges := [([(0%N, 1); (1%N, 1)], [(1%N, 2)]); ([], [(0%N, 1)]); ([(1%N, 1)], [])] in
  bo_verdict (is_realizable (build_petri_net_from_flow [0%N; 1%N] edges [1; 1; 1]) 100 100) = NotFound.
Proof. vm_compute. reflexivity. Qed.

(** non-vacuity of the completeness premises: the pathway with the single edge 0 -> 0 fired once *)
Example complete_premises_satisfiable :
  let b := build_petri_net_from_flow [] [([], [])] [1] in
  let net := b_net b in
  let start := marking_to_tuple net (b_M0 b) in
  let target := marking_to_tuple net (b_MT b) in
  (exists sq, path net start sq target) /\
  (forall s m, path net start s m -> In m [start; target]) /\
  (N.of_nat (length [start; target]) <= 2)%N /\
  (forall s m, path net start s m -> (N.of_nat (length s) <= 1)%N) /\
  bo_verdict (is_realizable b 2 1) = Found [0%N].
Proof.
  intros b net start target.
  assert (H1 : forall t m1, In t (pn_trans net) -> tstep net t start = Some m1 -> m1 = target).
  { intros t m1 [<-|[]]. vm_compute. intros H. inversion H. reflexivity. }
  assert (H2 : forall t m1, In t (pn_trans net) -> tstep net t target = Some m1 -> False).
  { intros t m1 [<-|[]]. vm_compute. discriminate. }
  assert (H3 : forall s m, path net start s m ->
               (m = start /\ s = []) \/ (m = target /\ length s = 1%nat)).
  { intros s m Hp. inversion Hp as [|m0 t m1 s0 m' Ht Hs Hp']; subst; auto. right.
    apply H1 in Hs; auto. subst m1.
    inversion Hp' as [|m0 t' m1 s1 m'' Ht' Hs' Hp'']; subst; auto.
    exfalso. eapply H2; eauto. }
  split; [|split; [|split; [|split]]].
  - exists [0%N]. apply (path_cons net start (T 0 [(1%N, 1)] [(2%N, 1)]) target [] target).
    + vm_compute. auto.
    + vm_compute. reflexivity.
    + constructor.
  - intros s m Hp. destruct (H3 s m Hp) as [[-> _]|[-> _]]; simpl; auto.
  - simpl. lia.
  - intros s m Hp. destruct (H3 s m Hp) as [[_ ->]|[_ E]]; simpl; [lia|rewrite E; lia].
  - vm_compute. reflexivity.
Qed.

Example fuel_example :
  bo_verdict (is_realizable (build_petri_net_from_flow [0%N] [([], [(0%N, 1)])] [1]) 0 5) = NotFound.
Proof. vm_compute. reflexivity. Qed.
