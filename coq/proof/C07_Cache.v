(** C07 — round 5: what the class-level WL cache can contain (the key sets the correspondence observes after every query), and the
    agreement of the two engine entry points on equal-sized graphs.  Stdlib lists. *)
From Coq Require Import List NArith Bool Arith Lia.
From SK Require Import lib.Tok lib.LGraph lib.Mono model.C07_Model
  proof.C07_Spec proof.C07_History proof.C07_Filters proof.C07_Main proof.C07_WL proof.C07_Relabel proof.C07_Final.
Import ListNotations.

Definition keys (c : cache) : list ckey := map fst c.
(** a key that a filtering engine of the case may write: its own node_attrs (in its own order) *)
Definition key_of_filtering_engine (es : list engine) (k : ckey) : Prop :=
  exists e, e_wl (enth es e) = true /\ snd k = e_na (enth es e).

Lemma wl_cached_keys na gi g c :
  incl (keys c) (keys (snd (wl_cached na gi g c))) /\
  (forall k, In k (keys (snd (wl_cached na gi g c))) -> In k (keys c) \/ k = (gi, na)).
Proof.
  unfold wl_cached. destruct (cache_get (gi, na) c); simpl.
  - split; [apply incl_refl | auto].
  - split; [intros k I; right; exact I | intros k [E|I]; auto].
Qed.

Lemma pre_check_keys e hi H pi P c :
  incl (keys c) (keys (snd (pre_check e hi H pi P c))) /\
  (forall k, In k (keys (snd (pre_check e hi H pi P c))) -> In k (keys c) \/ (e_wl e = true /\ snd k = e_na e)).
Proof.
  unfold pre_check. destruct ((n_nodes H <? n_nodes P) || (n_edges H <? n_edges P)); [split; [apply incl_refl | auto]|].
  destruct (e_wl e) eqn:W; simpl; [|split; [apply incl_refl | auto]].
  destruct (negb (n_nodes H =? n_nodes P)); [split; [apply incl_refl | auto]|].
  pose proof (wl_cached_keys (e_na e) hi H c) as (A1 & A2). destruct (wl_cached (e_na e) hi H c) as [hw c1]. simpl in *.
  pose proof (wl_cached_keys (e_na e) pi P c1) as (B1 & B2). destruct (wl_cached (e_na e) pi P c1) as [pw c2]. simpl in *.
  split; [intros k I; apply B1, A1, I|].
  intros k I. destruct (B2 k I) as [I1| ->]; [|right; auto]. destruct (A2 k I1) as [I0| ->]; [left; exact I0 | right; auto].
Qed.

Section Keys.
Variable vf2b : bool -> (attrs -> attrs -> bool) -> (attrs -> attrs -> bool) -> graph -> graph -> bool.
Variable enum : (attrs -> attrs -> bool) -> (attrs -> attrs -> bool) -> graph -> graph -> list mapping.

Lemma isomorphic_keys e i g1 j g2 c :
  incl (keys c) (keys (snd (isomorphic vf2b e i g1 j g2 c))) /\
  (forall k, In k (keys (snd (isomorphic vf2b e i g1 j g2 c))) -> In k (keys c) \/ (e_wl e = true /\ snd k = e_na e)).
Proof.
  unfold isomorphic. destruct (n_nodes g2 <? n_nodes g1).
  - pose proof (pre_check_keys e i g1 j g2 c) as K. destruct (pre_check e i g1 j g2 c) as [ok c']. simpl in *. destruct (negb ok); exact K.
  - pose proof (pre_check_keys e j g2 i g1 c) as K. destruct (pre_check e j g2 i g1 c) as [ok c']. simpl in *. destruct (negb ok); exact K.
Qed.

Lemma get_mappings_keys e hi H pi P c :
  incl (keys c) (keys (snd (get_mappings vf2b enum e hi H pi P c))) /\
  (forall k, In k (keys (snd (get_mappings vf2b enum e hi H pi P c))) -> In k (keys c) \/ (e_wl e = true /\ snd k = e_na e)).
Proof.
  unfold get_mappings. pose proof (pre_check_keys e hi H pi P c) as K. destruct (pre_check e hi H pi P c) as [ok c']. simpl in *.
  destruct (negb ok); [exact K|]. destruct ((n_nodes P =? n_nodes H) && (n_edges P =? n_edges H)); exact K.
Qed.

(** one query: the cache only grows, and only by keys of filtering engines *)
Theorem step_keys gs es q c :
  incl (keys c) (keys (snd (step vf2b enum gs es q c))) /\
  (forall k, In k (keys (snd (step vf2b enum gs es q c))) -> In k (keys c) \/ key_of_filtering_engine es k).
Proof.
  assert (R : incl (keys c) (keys c) /\ (forall k, In k (keys c) -> In k (keys c) \/ key_of_filtering_engine es k))
    by (split; [apply incl_refl | auto]).
  destruct q as [e i j|e h p|e h p|gm ch pa f ind nc ec names eattr|i j a b d|i j|i j ud fa a b d|fn ch pa o|r|mp e [i|] [j|]|t1 t2 i j ud fa a b d|h p na ea thr];
    simpl; try exact R.
  - pose proof (isomorphic_keys (enth es e) i (gnth gs i) j (gnth gs j) c) as (A & B).
    destruct (isomorphic vf2b (enth es e) i (gnth gs i) j (gnth gs j) c) as [b c']. simpl in *. split; auto.
    intros k I. destruct (B k I) as [I0|(W & E)]; [left; exact I0 | right; exists e; auto].
  - pose proof (get_mappings_keys (enth es e) h (gnth gs h) p (gnth gs p) c) as (A & B).
    destruct (get_mappings vf2b enum (enth es e) h (gnth gs h) p (gnth gs p) c) as [l c']. simpl in *. split; auto.
    intros k I. destruct (B k I) as [I0|(W & E)]; [left; exact I0 | right; exists e; auto].
  - pose proof (pre_check_keys (enth es e) h (gnth gs h) p (gnth gs p) c) as (A & B).
    destruct (pre_check (enth es e) h (gnth gs h) p (gnth gs p) c) as [b c']. simpl in *. split; auto.
    intros k I. destruct (B k I) as [I0|(W & E)]; [left; exact I0 | right; exists e; auto].
  - destruct mp.
    + pose proof (get_mappings_keys (enth es e) i (gnth gs i) j (gnth gs j) c) as (A & B).
      destruct (get_mappings vf2b enum (enth es e) i (gnth gs i) j (gnth gs j) c) as [l c']. simpl in *. split; auto.
      intros k I. destruct (B k I) as [I0|(W & E)]; [left; exact I0 | right; exists e; auto].
    + pose proof (isomorphic_keys (enth es e) i (gnth gs i) j (gnth gs j) c) as (A & B).
      destruct (isomorphic vf2b (enth es e) i (gnth gs i) j (gnth gs j) c) as [b c']. simpl in *. split; auto.
      intros k I. destruct (B k I) as [I0|(W & E)]; [left; exact I0 | right; exists e; auto].
Qed.

(** a whole history from the empty cache: every key is a filtering engine's own attribute selection *)
Theorem end_cache_keys gs es qs : forall c,
  (forall k, In k (keys c) -> key_of_filtering_engine es k) ->
  forall k, In k (keys (end_cache vf2b enum gs es qs c)) -> key_of_filtering_engine es k.
Proof.
  induction qs as [|q qs IH]; intros c Hc k I; simpl in I; [apply Hc; exact I|].
  apply (IH (snd (step vf2b enum gs es q c))); [|exact I].
  intros k' I'. destruct (proj2 (step_keys gs es q c) k' I') as [I0|F]; auto.
Qed.

(** the observed trace of key sets is increasing *)
Theorem cache_trace_grows gs es qs : forall c ks,
  nth_error (cache_trace vf2b enum gs es qs c) 0 = Some ks -> incl (keys c) ks.
Proof.
  intros c ks. destruct qs as [|q qs]; simpl; [discriminate|]. intros [= <-]. apply step_keys.
Qed.

Theorem cache_trace_chain gs es qs : forall c n k1 k2,
  nth_error (cache_trace vf2b enum gs es qs c) n = Some k1 ->
  nth_error (cache_trace vf2b enum gs es qs c) (S n) = Some k2 -> incl k1 k2.
Proof.
  induction qs as [|q qs IH]; intros c n k1 k2; simpl; [destruct n; discriminate|].
  destruct n as [|n]; simpl.
  - intros [= <-] E2. apply (cache_trace_grows gs es qs _ _ E2).
  - apply IH.
Qed.

(* ------------------------------------------------------------------ isomorphic and get_mappings agree on equal-sized graphs *)
Hypothesis VB : vf2b_contract vf2b.
Hypothesis EN : enum_contract enum.

Theorem iso_maps_consistent gs e i j c c' : cache_inv gs c -> cache_inv gs c' -> gwf (gnth gs i) -> gwf (gnth gs j) ->
  n_nodes (gnth gs i) = n_nodes (gnth gs j) -> e_mm e <> Some 0%N ->
  (fst (isomorphic vf2b e i (gnth gs i) j (gnth gs j) c) = true <->
   fst (get_mappings vf2b enum e i (gnth gs i) j (gnth gs j) c') <> []).
Proof.
  intros Hc Hc' Wi Wj En Hmm. rewrite (iso_verdict vf2b VB gs e i j c Hc Wi Wj).
  destruct (embeddings vf2b enum VB EN gs e i j c' Hc' Wi Wj) as (Va & Ne). split.
  - intros (f & (He & _)). apply Ne; auto. exists f. exact He.
  - intros Hn. destruct (fst (get_mappings vf2b enum e i (gnth gs i) j (gnth gs j) c')) as [|m r] eqn:E; [congruence|].
    destruct (Va m (or_introl eq_refl)) as (_ & _ & He). exists (mfun m). apply emb_onto; auto.
Qed.
End Keys.

Lemma keys_nil es : forall k, In k (keys []) -> key_of_filtering_engine es k.
Proof. intros k []. Qed.

Theorem cache_keys_all vf2b enum gs es :
  (forall q c, incl (keys c) (keys (snd (step vf2b enum gs es q c))) /\
               (forall k, In k (keys (snd (step vf2b enum gs es q c))) -> In k (keys c) \/ key_of_filtering_engine es k)) /\
  (forall qs k, In k (keys (end_cache vf2b enum gs es qs [])) -> key_of_filtering_engine es k) /\
  (forall qs c n k1 k2, nth_error (cache_trace vf2b enum gs es qs c) n = Some k1 ->
                        nth_error (cache_trace vf2b enum gs es qs c) (S n) = Some k2 -> incl k1 k2).
Proof.
  split; [intros q c; apply step_keys|]. split.
  - intros qs k. apply end_cache_keys. apply keys_nil.
  - intros qs. apply cache_trace_chain.
Qed.

(* ------------------------------------------------------------------ isomorphic is a preorder on graphs (an equivalence when hcounts agree) *)
Lemma nm_eng_refl e a : nm_eng e a a = true.
Proof. apply nm_eng_spec. split; [reflexivity | lia]. Qed.
Lemma em_eng_refl e a : em_eng e a a = true.
Proof. apply em_eng_spec. reflexivity. Qed.
Lemma nm_eng_trans e a b c : nm_eng e a b = true -> nm_eng e b c = true -> nm_eng e a c = true.
Proof. rewrite !nm_eng_spec. intros (A1 & A2) (B1 & B2). split; [intros k I; rewrite A1, B1; auto | lia]. Qed.
Lemma em_eng_trans e a b c : em_eng e a b = true -> em_eng e b c = true -> em_eng e a c = true.
Proof. rewrite !em_eng_spec. intros A B k I. rewrite A, B; auto. Qed.

Lemma iso_map_id e g : gwf g -> iso_map (nm_eng e) (em_eng e) g g (fun u => u).
Proof.
  intros W. split; [split; [|split]|].
  - intros u Iu. split; [exact Iu | apply nm_eng_refl].
  - auto.
  - intros u v Iu Iv Hne. destruct (LGraph.adj g u v); [apply em_eng_refl | exact Logic.I].
  - intros h Ih. exists h. auto.
Qed.

Lemma iso_map_compose e g1 g2 g3 f g : iso_map (nm_eng e) (em_eng e) g1 g2 f -> iso_map (nm_eng e) (em_eng e) g2 g3 g ->
  iso_map (nm_eng e) (em_eng e) g1 g3 (fun u => f (g u)).
Proof.
  intros ((F1 & F2 & F3) & Fo) ((G1 & G2 & G3) & Go). split; [split; [|split]|].
  - intros u Iu. destruct (G1 u Iu) as (Ig & Ng). destruct (F1 (g u) Ig) as (If & Nf). split; [exact If | eapply nm_eng_trans; eauto].
  - intros u v Iu Iv E. apply G2; auto. apply F2; auto; [apply G1; auto | apply G1; auto].
  - intros u v Iu Iv Hne.
    assert (Hg : g u <> g v) by (intros E; apply Hne; apply G2; auto).
    specialize (G3 u v Iu Iv Hne). specialize (F3 (g u) (g v) (proj1 (G1 u Iu)) (proj1 (G1 v Iv)) Hg).
    destruct (LGraph.adj g3 u v), (LGraph.adj g2 (g u) (g v)), (LGraph.adj g1 (f (g u)) (f (g v))); auto; try discriminate; try contradiction.
    eapply em_eng_trans; eauto.
  - intros h Ih. destruct (Fo h Ih) as (m & Im & <-). destruct (Go m Im) as (u & Iu & <-). exists u. auto.
Qed.

Section Preorder.
Variable vf2b : bool -> (attrs -> attrs -> bool) -> (attrs -> attrs -> bool) -> graph -> graph -> bool.
Hypothesis VB : vf2b_contract vf2b.

Theorem iso_preorder gs e :
  (forall i c, cache_inv gs c -> gwf (gnth gs i) -> fst (isomorphic vf2b e i (gnth gs i) i (gnth gs i) c) = true) /\
  (forall i j k c1 c2 c3, cache_inv gs c1 -> cache_inv gs c2 -> cache_inv gs c3 -> gwf (gnth gs i) -> gwf (gnth gs j) -> gwf (gnth gs k) ->
     fst (isomorphic vf2b e i (gnth gs i) j (gnth gs j) c1) = true -> fst (isomorphic vf2b e j (gnth gs j) k (gnth gs k) c2) = true ->
     fst (isomorphic vf2b e i (gnth gs i) k (gnth gs k) c3) = true).
Proof.
  split.
  - intros i c Hc W. apply (iso_verdict vf2b VB gs e i i c Hc W W). eexists. apply iso_map_id. exact W.
  - intros i j k c1 c2 c3 H1 H2 H3 Wi Wj Wk A B.
    apply (iso_verdict vf2b VB gs e i j c1 H1 Wi Wj) in A. apply (iso_verdict vf2b VB gs e j k c2 H2 Wj Wk) in B.
    destruct A as (f & Hf). destruct B as (g & Hg). apply (iso_verdict vf2b VB gs e i k c3 H3 Wi Wk).
    eexists. eapply iso_map_compose; eauto.
Qed.
End Preorder.

(* ------------------------------------------------------------------ corollaries *)
Section Corollaries.
Variable vf2b : bool -> (attrs -> attrs -> bool) -> (attrs -> attrs -> bool) -> graph -> graph -> bool.
Variable enum : (attrs -> attrs -> bool) -> (attrs -> attrs -> bool) -> graph -> graph -> list mapping.
Hypothesis VB : vf2b_contract vf2b.
Hypothesis EN : enum_contract enum.

(** get_mappings returns something exactly when the pattern is contained (max_mappings <> 0) *)
Theorem embeddings_iff gs e hi pi c : cache_inv gs c -> gwf (gnth gs hi) -> gwf (gnth gs pi) -> e_mm e <> Some 0%N ->
  (fst (get_mappings vf2b enum e hi (gnth gs hi) pi (gnth gs pi) c) <> [] <->
   contained true (nm_eng e) (em_eng e) (gnth gs hi) (gnth gs pi)).
Proof.
  intros Hc WH WP Hmm. destruct (embeddings vf2b enum VB EN gs e hi pi c Hc WH WP) as (Va & Ne). split.
  - intros Hn. destruct (fst (get_mappings vf2b enum e hi (gnth gs hi) pi (gnth gs pi) c)) as [|m r] eqn:E; [congruence|].
    destruct (Va m (or_introl eq_refl)) as (_ & _ & He). exists (mfun m). exact He.
  - intros C. apply Ne; auto.
Qed.

(** isomorphic never means "is a subgraph of": graphs with different numbers of nodes are not isomorphic for any engine *)
Theorem iso_unequal_orders gs e i j c : cache_inv gs c -> gwf (gnth gs i) -> gwf (gnth gs j) ->
  n_nodes (gnth gs i) <> n_nodes (gnth gs j) -> fst (isomorphic vf2b e i (gnth gs i) j (gnth gs j) c) = false.
Proof.
  intros Hc Wi Wj Hne. destruct (fst (isomorphic vf2b e i (gnth gs i) j (gnth gs j) c)) eqn:E; [|reflexivity].
  apply (iso_verdict vf2b VB gs e i j c Hc Wi Wj) in E. destruct E as (f & Hi). exfalso. apply Hne. eapply iso_sizes; eauto.
Qed.
End Corollaries.

(** argument guards of the entry points as the model evaluates them: an engine method handed a non-Graph argument raises TypeError
    before anything else (the cache is not touched); find_graph_isomorphism on two different networkx classes answers None *)
Theorem argument_guards vf2b enum gs es c :
  (forall mp e i j, (i = None \/ j = None) -> step vf2b enum gs es (QObj mp e i j) c = (L [tN 99; tN 1], c)) /\
  (forall t1 t2 i j ud fa a b d, t1 <> t2 -> step vf2b enum gs es (QFgiT t1 t2 i j ud fa a b d) c = (tbool false, c)).
Proof.
  split.
  - intros mp e [i|] [j|] [H|H]; try discriminate; reflexivity.
  - intros t1 t2 i j ud fa a b d Hne. simpl. replace (N.eqb t1 t2) with false by (symmetry; apply N.eqb_neq; exact Hne). reflexivity.
Qed.

(* ------------------------------------------------------------------ exactly when the cache is written *)
Lemma cache_get_some_in k c h : cache_get k c = Some h -> In k (keys c).
Proof.
  induction c as [|[k' h'] r IH]; simpl; [discriminate|]. destruct (ckey_eqb k k') eqn:E.
  - intros _. left. apply ckey_eqb_eq in E. auto.
  - intros H. right. apply IH. exact H.
Qed.

Lemma wl_cached_has na gi g c : In (gi, na) (keys (snd (wl_cached na gi g c))).
Proof.
  unfold wl_cached. destruct (cache_get (gi, na) c) eqn:E; simpl; [eapply cache_get_some_in; eauto | left; reflexivity].
Qed.

(** _pre_check touches the cache EXACTLY when the engine filters, the orders are equal and the host has at least the pattern's number of
    edges; then both (graph, node_attrs) entries are present afterwards; otherwise the cache is returned as it was *)
Theorem pre_check_writes e hi H pi P c :
  (e_wl e = true /\ n_nodes H = n_nodes P /\ n_edges P <= n_edges H ->
     In (hi, e_na e) (keys (snd (pre_check e hi H pi P c))) /\ In (pi, e_na e) (keys (snd (pre_check e hi H pi P c)))) /\
  (~ (e_wl e = true /\ n_nodes H = n_nodes P /\ n_edges P <= n_edges H) -> snd (pre_check e hi H pi P c) = c).
Proof.
  unfold pre_check. split.
  - intros (W & En & Ee).
    replace (n_nodes H <? n_nodes P) with false by (symmetry; apply Nat.ltb_ge; lia).
    replace (n_edges H <? n_edges P) with false by (symmetry; apply Nat.ltb_ge; lia).
    rewrite W. simpl. replace (n_nodes H =? n_nodes P) with true by (symmetry; apply Nat.eqb_eq; exact En). simpl.
    pose proof (wl_cached_has (e_na e) hi H c) as A. pose proof (wl_cached_keys (e_na e) hi H c) as (A1 & _).
    destruct (wl_cached (e_na e) hi H c) as [hw c1]. simpl in *.
    pose proof (wl_cached_has (e_na e) pi P c1) as B. pose proof (wl_cached_keys (e_na e) pi P c1) as (B1 & _).
    destruct (wl_cached (e_na e) pi P c1) as [pw c2]. simpl in *. split; [apply B1; exact A | exact B].
  - intros Hn. destruct ((n_nodes H <? n_nodes P) || (n_edges H <? n_edges P)) eqn:T; [reflexivity|].
    apply orb_false_iff in T. destruct T as (T1 & T2). apply Nat.ltb_ge in T1. apply Nat.ltb_ge in T2.
    destruct (e_wl e) eqn:W; simpl; [|reflexivity].
    destruct (n_nodes H =? n_nodes P) eqn:En; simpl; [|reflexivity].
    apply Nat.eqb_eq in En. exfalso. apply Hn. auto.
Qed.
