(** C10 — proofs, part 29: GraphToMol.graph_to_mol described by the two lookups, for EVERY molecule-shaped graph (any node ids, any
    insertion order): the atoms handed to RDKit are the node list in order, and the bond between the atoms at positions i, j is
    get_bond_type_from_order of the bond dictionary of the two nodes — whatever the order edges_iter walks the bonds in. *)
From Coq Require Import String List NArith ZArith Bool Lia.
From SK Require Import lib.Tok lib.LGraph lib.StrJoin model.C10_Model proof.C10_Views proof.C10_Build proof.C10_Copy proof.C10_MolGraph
  proof.C10_Light.
Import ListNotations.
Local Open Scope Z_scope.

Definition ordz (x : eatt) : Z := match e_ord x with Some (OS z) => z | _ => 2 end.
Definition scalar_ord (x : eatt) : Prop := match e_ord x with Some (OP _ _) => False | _ => True end.

Lemma index_of_some x l : forall i, In x l -> exists j, index_of x l i = Some j.
Proof.
  induction l as [|y r IH]; intros i Hin; [destruct Hin|]. simpl. destruct (N.eqb_spec y x); [eauto|].
  destruct Hin as [E|Hin]; [contradiction|]. apply IH, Hin.
Qed.
Lemma index_of_ge x l : forall k j, index_of x l k = Some j -> (k <= j)%N.
Proof.
  induction l as [|w t IH]; intros k j; simpl; [discriminate|]. destruct (N.eqb w x); [intros [= <-]; lia|].
  intros H. apply IH in H. lia.
Qed.
Lemma index_of_inj l : forall k x y j, index_of x l k = Some j -> index_of y l k = Some j -> x = y.
Proof.
  induction l as [|w t IH]; intros k x y j; simpl; [discriminate|].
  destruct (N.eqb_spec w x) as [Ex|Hx]; destruct (N.eqb_spec w y) as [Ey|Hy].
  - intros _ _. congruence.
  - intros [= <-] H. apply index_of_ge in H. lia.
  - intros H [= <-]. apply index_of_ge in H. lia.
  - apply IH.
Qed.

Section Spec.
Variable G : gr.
Hypothesis W : gwf G.
Hypothesis Hmol : forall u v x, adj G u v = Some x -> u <> v /\ scalar_ord x.
Let ids := node_ids G.

Lemma edge_entry u v x : In (u, v, x) (edges_iter G) ->
  adj G u v = Some x /\ exists i j, index_of u ids 0 = Some i /\ index_of v ids 0 = Some j /\ i <> j /\
    g2m_bond ids (u, v, x) = Some (i, j, bond_type (ordz x)).
Proof.
  intros Hin. pose proof (edges_iter_data G u v x W Hin) as A. split; [exact A|].
  destruct (Hmol u v x A) as [Huv Hs].
  apply in_edges_from in Hin.
  assert (has_node G u = true /\ has_node G v = true) as [Hu Hv] by (destruct Hin as [H|H]; destruct (gwf_cl G W _ _ _ H); auto).
  apply has_node_in in Hu, Hv. destruct (index_of_some u ids 0%N Hu) as [i Ei]. destruct (index_of_some v ids 0%N Hv) as [j Ej].
  exists i, j. split; [exact Ei|split; [exact Ej|]].
  assert (i <> j) as Hij by (intros ->; apply Huv; apply (index_of_inj ids 0%N u v j Ei Ej)).
  split; [exact Hij|]. unfold g2m_bond, ordz. unfold scalar_ord in Hs. rewrite Ei, Ej.
  destruct (e_ord x) as [[z|a b]|]; try contradiction; destruct (N.eqb_spec i j); try contradiction; reflexivity.
Qed.

Theorem graph_to_mol_spec :
  exists bonds', graph_to_mol G = Some (map (fun p : N * natt => g2m_atom (snd p)) (gnodes G), bonds') /\
    (forall u v i j, index_of u ids 0 = Some i -> index_of v ids 0 = Some j ->
       bond_find i j bonds' = option_map (fun x => bond_type (ordz x)) (adj G u v)) /\
    (forall i j t, bond_find i j bonds' = Some t -> exists u v, index_of u ids 0 = Some i /\ index_of v ids 0 = Some j).
Proof.
  unfold graph_to_mol. fold ids.
  assert (forallb (fun b : option (N * N * Z) => match b with Some _ => true | None => false end)
            (map (g2m_bond ids) (edges_iter G)) = true) as ->.
  { apply forallb_forall. intros ob Hin. apply in_map_iff in Hin. destruct Hin as ([[u v] x] & <- & Hin).
    destruct (edge_entry u v x Hin) as (_ & i & j & _ & _ & _ & ->). reflexivity. }
  eexists. split; [reflexivity|].
  set (bonds' := flat_map _ _).
  assert (forall i j t, In (i, j, t) bonds' ->
            exists u v x, In (u, v, x) (edges_iter G) /\ index_of u ids 0 = Some i /\ index_of v ids 0 = Some j /\ t = bond_type (ordz x) /\
                          adj G u v = Some x) as Hin'.
  { intros i j t Hin. unfold bonds' in Hin. apply in_flat_map in Hin. destruct Hin as (ob & Hob & Ht).
    apply in_map_iff in Hob. destruct Hob as ([[u v] x] & <- & Hin). destruct (edge_entry u v x Hin) as (A & i' & j' & Ei & Ej & _ & E).
    rewrite E in Ht. destruct Ht as [Ht|[]]. inversion Ht; subst. exists u, v, x. auto. }
  split.
  - intros u v i j Ei Ej. destruct (bond_find i j bonds') as [t|] eqn:F.
    + destruct (bond_find_ends i j bonds' t F) as (b & e & Hin & Hbe). destruct (Hin' b e t Hin) as (u' & v' & x & _ & Eu & Ev & -> & A).
      destruct Hbe as [[-> ->]|[-> ->]].
      * rewrite (index_of_inj ids 0%N u u' i Ei Eu), (index_of_inj ids 0%N v v' j Ej Ev), A. reflexivity.
      * rewrite (index_of_inj ids 0%N u v' i Ei Ev), (index_of_inj ids 0%N v u' j Ej Eu), adj_sym, A. reflexivity.
    + destruct (adj G u v) as [x|] eqn:A; [|reflexivity]. exfalso.
      assert (has_pair u v (edges_iter G) = true) as HP by (rewrite has_pair_edges_iter, A by exact W; reflexivity).
      unfold has_pair in HP. apply existsb_exists in HP. destruct HP as ([[u' v'] x'] & Hin & P). simpl in P.
      destruct (edge_entry u' v' x' Hin) as (A' & i' & j' & Ei' & Ej' & _ & E).
      assert (In (i', j', bond_type (ordz x')) bonds') as Hin2.
      { unfold bonds'. apply in_flat_map. exists (Some (i', j', bond_type (ordz x'))). split; [|left; reflexivity].
        apply in_map_iff. exists (u', v', x'). auto. }
      assert (find_edge i j (bonds_e bonds') <> None) as NE.
      { apply (in_find_some _ i' j' (EA (Some (OS (bond_type (ordz x')))) None)).
        - unfold bonds_e. apply in_map_iff. exists (i', j', bond_type (ordz x')). auto.
        - apply pair_eqb_spec in P. apply pair_eqb_spec. destruct P as [[-> ->]|[-> ->]]; [left|right]; split; congruence. }
      rewrite bond_find_e, F in NE. apply NE. reflexivity.
  - intros i j t F. destruct (bond_find_ends i j bonds' t F) as (b & e & Hin & Hbe). destruct (Hin' b e t Hin) as (u' & v' & x & _ & Eu & Ev & _).
    destruct Hbe as [[-> ->]|[-> ->]]; eauto.
Qed.
End Spec.
