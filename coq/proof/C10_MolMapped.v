(** C10 — proofs, part 30: molecule -> graph -> molecule on the REACTION path (rsmi_to_graph: drop_non_aam = use_index_as_atom_map =
    True, node id = atom-map number) for a fully mapped molecule: the RWMol handed back to RDKit has the atoms that were read, in
    order, and between every pair of atom indices the bond that was read — as C10_mol_graph_roundtrip states for the default flags.
    Uses the lookup description of graph_to_mol (proof/C10_G2MSpec.v). *)
From Coq Require Import String List NArith ZArith Bool Lia.
From SK Require Import lib.Tok lib.LGraph lib.StrJoin model.C10_Model proof.C10_Views proof.C10_Build proof.C10_Copy proof.C10_MolGraph
  proof.C10_Light proof.C10_MolOk proof.C10_Smart proof.C10_G2MSpec.
Import ListNotations.
Local Open Scope Z_scope.

Definition mapped (a : ratom) : bool := negb (r_map a =? 0).

(** atom index <-> node id of a fully mapped atom list *)
Lemma i2T_index l : forall idx i0 k, forallb mapped l = true -> NoDup (map fst (numT l)) -> (k < N.of_nat (List.length l))%N ->
  exists u, assoc (idx + k)%N (i2T idx l) = Some u /\ index_of u (map fst (numT l)) i0 = Some (i0 + k)%N.
Proof.
  induction l as [|a r IH]; intros idx i0 k Hm Hnd Hk; [simpl in Hk; lia|].
  simpl in Hm. apply andb_true_iff in Hm. destruct Hm as [Ha Hr]. unfold mapped in Ha. apply negb_true_iff in Ha.
  cbn [i2T numT] in *. rewrite Ha in *. cbn [app map fst] in *. inversion Hnd as [|? ? Hnot Hnd']; subst.
  destruct (N.eq_dec k 0) as [->|Hk0].
  - exists (Z.to_N (r_map a)). rewrite !N.add_0_r. simpl. rewrite !N.eqb_refl. auto.
  - destruct (IH (N.succ idx) (N.succ i0) (N.pred k) Hr Hnd') as (u & A & I); [simpl List.length in Hk; lia|].
    exists u. replace (N.succ idx + N.pred k)%N with (idx + k)%N in A by lia. replace (N.succ i0 + N.pred k)%N with (i0 + k)%N in I by lia.
    split.
    + simpl. destruct (N.eqb_spec (idx + k) idx); [lia|]. exact A.
    + simpl. destruct (N.eqb_spec (Z.to_N (r_map a)) u) as [E|_]; [|exact I].
      exfalso. apply Hnot. rewrite E. apply (index_of_in _ _ _ _ I).
Qed.
Lemma index_of_lt x l : forall k j, index_of x l k = Some j -> (j < k + N.of_nat (List.length l))%N.
Proof.
  induction l as [|w t IH]; intros k j; simpl; [discriminate|]. destruct (N.eqb w x); [intros [= <-]; lia|].
  intros H. apply IH in H. lia.
Qed.
Lemma numT_full l : forallb mapped l = true -> numT l = map (fun a => (Z.to_N (r_map a), atom_att a)) l.
Proof.
  induction l as [|a r IH]; [reflexivity|]. simpl. intros H. apply andb_true_iff in H. destruct H as [Ha Hr].
  unfold mapped in Ha. apply negb_true_iff in Ha. rewrite Ha. simpl. f_equal. apply IH, Hr.
Qed.

Section Mapped.
Variable m : rmol.
Hypothesis Hok : rdmol_ok m = true.
Hypothesis Hfull : forallb mapped (fst m) = true.
Let atoms := fst m.
Let bonds := snd m.
Let n := N.of_nat (List.length atoms).
Let ids := map fst (numT atoms).
Let st := m2g_nodes true true 0%N atoms (g_empty, []).
Let g0 := fst st.
Let G := mol_to_graph m true true.

Lemma ok_parts : wf_mol m = true /\ NoDup ids /\ forall b e o, In (b, e, o) bonds -> okord o = true.
Proof.
  unfold rdmol_ok in Hok. rewrite !andb_true_iff in Hok. destruct Hok as [[[H1 _] H3] H4]. split; [exact H1|split; [apply nodupb_NoDup, H4|]].
  intros b e o Hin. rewrite forallb_forall in H3. apply (H3 _ Hin).
Qed.
Let Hwf := proj1 ok_parts.
Let Hnd := proj1 (proj2 ok_parts).

Lemma bonds_facts_t : uniq_pairs (bonds_e bonds) = true /\ forall b e o, In (b, e, o) bonds -> (b < n)%N /\ (e < n)%N /\ b <> e.
Proof. apply wf_bonds_spec. exact Hwf. Qed.
Lemma bond_find_in_t b e o : In (b, e, o) bonds -> bond_find b e bonds = Some o.
Proof.
  intros Hin. destruct bonds_facts_t as [U _].
  assert (In (b, e, EA (Some (OS o)) None) (bonds_e bonds)) as Hin'.
  { unfold bonds_e. apply in_map_iff. exists (b, e, o). auto. }
  pose proof (uniq_find _ b e _ b e U Hin' (pair_eqb_refl b e)) as F. rewrite bond_find_e in F.
  destruct (bond_find b e bonds) as [o'|]; [|discriminate]. simpl in F. congruence.
Qed.

Definition Tm (i : N) : N := dflt (assoc i (i2T 0 atoms)) 0%N.
Lemma T_index k : (k < n)%N -> assoc k (i2T 0 atoms) = Some (Tm k) /\ index_of (Tm k) ids 0 = Some k.
Proof.
  intros Hk. destruct (i2T_index atoms 0%N 0%N k Hfull Hnd Hk) as (u & A & I). rewrite N.add_0_l in A, I. unfold Tm. rewrite A. auto.
Qed.
Lemma index_T u i : index_of u ids 0 = Some i -> (i < n)%N /\ u = Tm i.
Proof.
  intros I. pose proof (index_of_lt u ids 0%N i I) as L. unfold ids in L. rewrite map_length, (numT_full atoms Hfull), map_length in L.
  fold n in L. split; [lia|]. destruct (T_index i) as [_ I']; [lia|]. apply (index_of_inj ids 0%N u (Tm i) i I I').
Qed.

Definition mdT (x y : N) : option eatt :=
  match index_of x ids 0, index_of y ids 0 with
  | Some b, Some e => option_map (fun o => EA (Some (OS o)) None) (bond_find b e bonds)
  | _, _ => None
  end.
Lemma mdT_sym x y : mdT x y = mdT y x.
Proof. unfold mdT. destruct (index_of x ids 0), (index_of y ids 0); try reflexivity. rewrite bond_find_sym. reflexivity. Qed.
Let pairs := map (fun b : N * N * Z => (Tm (fst (fst b)), Tm (snd (fst b)))) bonds.

Lemma st_facts_t : gnodes g0 = numT atoms /\ gedges g0 = [] /\ gwf g0 /\ forall bi, assoc bi (snd st) = assoc bi (i2T 0 atoms).
Proof. apply (st_tt m Hnd). Qed.

Lemma G_fold_t : G = fold_left (estep mdT) pairs g0.
Proof.
  unfold G, mol_to_graph. fold atoms. fold st. fold g0. unfold pairs. rewrite fold_left_map'. apply fold_left_ext_in.
  intros acc [[b e] o] Hin. unfold m2g_bond, estep. simpl fst. simpl snd.
  destruct st_facts_t as (_ & _ & _ & HA). destruct bonds_facts_t as [_ HB]. destruct (HB b e o Hin) as (Hb & He & _).
  rewrite !HA. destruct (T_index b Hb) as [Ab Ib]. destruct (T_index e He) as [Ae Ie]. rewrite Ab, Ae.
  unfold mdT. rewrite Ib, Ie, (bond_find_in_t b e o Hin). reflexivity.
Qed.
Lemma g0_has_t k : (k < n)%N -> has_node g0 (Tm k) = true.
Proof.
  intros Hk. apply has_node_in. unfold node_ids. destruct st_facts_t as (E & _). rewrite E. fold ids.
  destruct (T_index k Hk) as [_ I]. apply (index_of_in _ _ _ _ I).
Qed.
Lemma G_gwf_t : gwf G.
Proof. rewrite G_fold_t. apply fold_estep_gwf. apply st_facts_t. Qed.
Lemma G_gnodes_t : gnodes G = numT atoms.
Proof.
  rewrite G_fold_t, fold_estep_node_ids; [apply st_facts_t|].
  intros e He. unfold pairs in He. apply in_map_iff in He. destruct He as ([[b e'] o] & <- & Hin). simpl.
  destruct bonds_facts_t as [_ HB]. destruct (HB b e' o Hin) as (Hb & He' & _). split; apply g0_has_t; assumption.
Qed.
Lemma G_adj_t x y : adj G x y = mdT x y.
Proof.
  rewrite G_fold_t, (fold_estep_adj mdT mdT_sym); [|left; unfold adj; destruct st_facts_t as (_ & -> & _); reflexivity].
  unfold adj at 1. destruct st_facts_t as (_ & -> & _). simpl.
  destruct (pmatch x y pairs) eqn:PM; [reflexivity|]. destruct (mdT x y) as [z|] eqn:D; [|reflexivity]. exfalso.
  unfold mdT in D. destruct (index_of x ids 0) as [b|] eqn:Ix; [|discriminate]. destruct (index_of y ids 0) as [e|] eqn:Iy; [|discriminate].
  destruct (bond_find b e bonds) as [o|] eqn:F; [|discriminate].
  destruct (bond_find_ends b e bonds o F) as (b' & e' & Hin & Hbe).
  destruct (index_T x b Ix) as [_ ->]. destruct (index_T y e Iy) as [_ ->].
  assert (pmatch (Tm b) (Tm e) pairs = true); [|congruence]. unfold pmatch. apply existsb_exists. exists (Tm b', Tm e'). split.
  - unfold pairs. apply in_map_iff. exists (b', e', o). auto.
  - simpl. apply pair_eqb_spec. destruct Hbe as [[-> ->]|[-> ->]]; auto.
Qed.

Theorem mol_graph_roundtrip_mapped :
  exists bonds', graph_to_mol G = Some (map atom_back atoms, bonds') /\
                 forall i j, bond_find i j bonds' = option_map bond_type (bond_find i j bonds).
Proof.
  assert (forall u v x, adj G u v = Some x -> u <> v /\ scalar_ord x) as Hmol.
  { intros u v x A. rewrite G_adj_t in A. unfold mdT in A.
    destruct (index_of u ids 0) as [b|] eqn:Iu; [|discriminate]. destruct (index_of v ids 0) as [e|] eqn:Iv; [|discriminate].
    destruct (bond_find b e bonds) as [o|] eqn:F; [|discriminate]. injection A as <-. split; [|exact Logic.I].
    destruct (bond_find_ends b e bonds o F) as (b' & e' & Hin & Hbe). destruct bonds_facts_t as [_ HB]. destruct (HB b' e' o Hin) as (_ & _ & Hne).
    intros ->. rewrite Iu in Iv. injection Iv as ->. destruct Hbe as [[-> ->]|[-> ->]]; congruence. }
  destruct (graph_to_mol_spec G G_gwf_t Hmol) as (bonds' & E & S1 & S2).
  exists bonds'. split.
  - rewrite E, G_gnodes_t, (numT_full atoms Hfull), map_map. f_equal.
  - intros i j. assert (node_ids G = ids) as Eids by (unfold node_ids; rewrite G_gnodes_t; reflexivity). rewrite Eids in S1, S2.
    destruct (N.ltb_spec i n) as [Hi|Hi]; [destruct (N.ltb_spec j n) as [Hj|Hj]|].
    + destruct (T_index i Hi) as [_ Ii]. destruct (T_index j Hj) as [_ Ij].
      rewrite (S1 (Tm i) (Tm j) i j Ii Ij), G_adj_t. unfold mdT. rewrite Ii, Ij. destruct (bond_find i j bonds); reflexivity.
    + assert (bond_find i j bonds = None) as ->.
      { destruct (bond_find i j bonds) as [o|] eqn:F; [|reflexivity]. destruct (bond_find_ends i j bonds o F) as (b & e & Hin & Hbe).
        destruct bonds_facts_t as [_ HB]. destruct (HB b e o Hin) as (Hb & He & _). destruct Hbe as [[-> ->]|[-> ->]]; lia. }
      destruct (bond_find i j bonds') as [t|] eqn:F; [|reflexivity]. destruct (S2 i j t F) as (u & v & _ & Iv). apply index_T in Iv. lia.
    + assert (bond_find i j bonds = None) as ->.
      { destruct (bond_find i j bonds) as [o|] eqn:F; [|reflexivity]. destruct (bond_find_ends i j bonds o F) as (b & e & Hin & Hbe).
        destruct bonds_facts_t as [_ HB]. destruct (HB b e o Hin) as (Hb & He & _). destruct Hbe as [[-> ->]|[-> ->]]; lia. }
      destruct (bond_find i j bonds') as [t|] eqn:F; [|reflexivity]. destruct (S2 i j t F) as (u & v & Iu & _). apply index_T in Iu. lia.
Qed.
End Mapped.

(** non-vacuity: the mapped acetate-like record [CH3:5][O-:2] *)
Local Open Scope string_scope.
Definition ex_mapped : rmol := ([RAt (s2l "C") false 3 0 5; RAt (s2l "O") false 0 (-1) 2], [(0%N, 1%N, 2)]).
Example mol_graph_roundtrip_mapped_ex :
  rdmol_ok ex_mapped = true /\ forallb mapped (fst ex_mapped) = true /\
  node_ids (mol_to_graph ex_mapped true true) = [5%N; 2%N] /\
  graph_to_mol (mol_to_graph ex_mapped true true) = Some (map atom_back (fst ex_mapped), [(0%N, 1%N, 2)]).
Proof. vm_compute. repeat split. Qed.

(** ** the reaction path under the two RDKit contracts (as C10_smiles_roundtrip_under_rdkit_contract for the default flags) *)
Theorem rsmi_side_roundtrip_under_contract
  (Smi : Type) (read : Smi -> option rmol) (write : list watom * list (N * N * Z) -> option Smi) (canon : Smi -> Smi) :
  (forall s m, read s = Some m -> rdmol_ok m = true /\ forallb mapped (fst m) = true) ->
  (forall s m bonds', read s = Some m -> (forall i j, bond_find i j bonds' = bond_find i j (snd m)) ->
                      write (map atom_back (fst m), bonds') = Some (canon s)) ->
  forall s m, read s = Some m ->
    match graph_to_mol (mol_to_graph m true true) with Some w => write w | None => None end = Some (canon s).
Proof.
  intros C1 C2 s m R. destruct (C1 s m R) as [Hok Hfull]. destruct (mol_graph_roundtrip_mapped m Hok Hfull) as (bonds' & E & Hb).
  rewrite E. apply (C2 s m bonds' R). intros i j. rewrite Hb. destruct (bond_find i j (snd m)) as [o|] eqn:F; [|reflexivity].
  simpl. destruct (bond_find_in_list i j _ o F) as (b & e & Hin).
  unfold rdmol_ok in Hok. rewrite !andb_true_iff in Hok. destruct Hok as [[_ H3] _]. rewrite forallb_forall in H3. specialize (H3 _ Hin).
  simpl in H3. unfold okord in H3. rewrite !orb_true_iff, !Z.eqb_eq in H3. f_equal. destruct H3 as [[[-> | ->] | ->] | ->]; reflexivity.
Qed.
Example rsmi_side_contract_ex :
  let read := fun _ : unit => Some ex_mapped in
  let write := fun _ : list watom * list (N * N * Z) => Some tt in
  (forall s m, read s = Some m -> rdmol_ok m = true /\ forallb mapped (fst m) = true) /\
  match graph_to_mol (mol_to_graph ex_mapped true true) with Some w => write w | None => None end = Some tt.
Proof. cbv zeta. split; [intros s m [= <-]; split; reflexivity|vm_compute; reflexivity]. Qed.
