(** C03 — _explicit_h never raises on a graph glued from a rule that was prepared in the default mode from a template
    satisfying [tpl_condition] (templates with the same element on both sides of every atom): every hydrogen-transfer group
    is EXACT — as many hydrogens to give as to take.

    T-level: a hydrogen LEDGER of an ITS graph (one entry per migrating hydrogen: the atoms it leaves, the atoms it joins).
    If the ledger accounts for every atom's hydrogen change, the atoms of one entry carry a common pair id, and every entry
    leaves as many atoms as it joins, then the sum of the hydrogen changes over every group is 0 ([ledger_sound]).
    Instantiation: the removed hydrogens of the template, with the images under the match of the kept non-hydrogen atoms
    they are bonded to on the left / right side ([default_glued_exact]).  Stdlib lists only. *)
From Coq Require Import List NArith ZArith Bool Lia Permutation.
From SK Require Import lib.Tok lib.LGraph model.C03_Model model.C03_Order proof.C03_Proof proof.C03_Glue proof.C03_Backward proof.C03_Skeleton
                       proof.C03_ExplicitH proof.C03_ExplicitTotal proof.C03_Wiring proof.C03_WiringCount proof.C03_PairIds
                       proof.C03_StripCounts proof.C03_StripExact proof.C03_StripCor proof.C03_PairIdsComplete proof.C03_Ord
                       model.C03_Reactor proof.C03_ReactorSpec.
Import ListNotations.
Local Open Scope Z_scope.


Lemma sumF_add (f g : N -> Z) l : sumF (fun n => f n + g n) l = sumF f l + sumF g l.
Proof. induction l as [|a r IH]; simpl; lia. Qed.
Lemma sumF_sub (f g : N -> Z) l : sumF (fun n => f n - g n) l = sumF f l - sumF g l.
Proof. induction l as [|a r IH]; simpl; lia. Qed.
Lemma sumF_zero l : sumF (fun _ => 0) l = 0.
Proof. induction l; simpl; lia. Qed.
Lemma sumF_ext (f g : N -> Z) l : (forall n, In n l -> f n = g n) -> sumF f l = sumF g l.
Proof. induction l as [|a r IH]; simpl; intros H; [reflexivity|]. rewrite (H a (or_introl eq_refl)), IH; auto. Qed.

(** how many atoms of [l] lie in the duplicate-free list [c] = the sum over c of their multiplicities in l *)
Lemma sum_indicator c x : NoDup c -> sumF (fun n => if N.eqb n x then 1 else 0) c = if mem x c then 1 else 0.
Proof.
  induction 1 as [|a r Ha _ IH]; simpl; [reflexivity|]. rewrite IH. unfold mem at 2. simpl.
  destruct (N.eqb_spec a x) as [->|Ne].
  - rewrite N.eqb_refl. simpl. destruct (mem x r) eqn:E; [apply mem_spec in E; contradiction|reflexivity].
  - destruct (N.eqb_spec x a); [congruence|]. simpl. fold (mem x r). lia.
Qed.
Lemma sum_occurrences c l : NoDup c -> sumF (fun n => occurrences n l) c = Z.of_nat (length (filter (fun x => mem x c) l)).
Proof.
  intros Hc. induction l as [|x r IH]; [simpl; apply sumF_zero|].
  rewrite (sumF_ext _ (fun n => (if N.eqb n x then 1 else 0) + occurrences n r)) by (intros; apply occurrences_cons).
  rewrite sumF_add, IH, (sum_indicator c x Hc). simpl. destruct (mem x c); simpl length; lia.
Qed.

Lemma filter_all {A} (f : A -> bool) l : (forall x, In x l -> f x = true) -> filter f l = l.
Proof. induction l as [|a r IH]; simpl; intros H; [reflexivity|]. rewrite (H a (or_introl eq_refl)), IH; auto. Qed.
Lemma filter_none {A} (f : A -> bool) l : (forall x, In x l -> f x = false) -> filter f l = [].
Proof. induction l as [|a r IH]; simpl; intros H; [reflexivity|]. rewrite (H a (or_introl eq_refl)), IH; auto. Qed.

Section Ledger.
  Variables (T : its) (lg : ledger).
  Hypothesis Hdl : forall n, dl_of T n = ledger_dl lg n.
  Hypothesis Hcl : forall h c, In h lg -> In c (components (pair_to_nodes T)) ->
    (forall x, In x (fst h ++ snd h) -> In x c) \/ (forall x, In x (fst h ++ snd h) -> ~ In x c).
  Hypothesis Hlen : forall h, In h lg -> length (fst h) = length (snd h).

  Lemma comp_sum_zero c : In c (components (pair_to_nodes T)) -> NoDup c -> sumF (dl_of T) c = 0.
  Proof.
    intros Ic Hc. rewrite (sumF_ext _ (ledger_dl lg)) by (intros; apply Hdl).
    assert (G : forall l, (forall h, In h l -> In h lg) -> sumF (ledger_dl l) c = 0).
    { induction l as [|h r IH]; intros Hs; [simpl; apply sumF_zero|].
      unfold ledger_dl; cbn [fold_right]. fold (ledger_dl r).
      rewrite (sumF_add (fun n => occurrences n (fst h) - occurrences n (snd h)) (ledger_dl r)), sumF_sub, !sum_occurrences by exact Hc.
      rewrite IH by (intros; apply Hs; right; assumption).
      assert (Ih : In h lg) by (apply Hs; left; reflexivity).
      destruct (Hcl h c Ih Ic) as [A|A].
      - rewrite !filter_all; [rewrite (Hlen h Ih); lia| |]; intros x I; apply mem_spec; apply A; apply in_or_app; auto.
      - rewrite !filter_none; [simpl; lia| |]; intros x I; apply Bool.not_true_is_false; intros E; apply mem_spec in E; apply (A x); auto; apply in_or_app; auto. }
    apply G. auto.
  Qed.

  Lemma sumF_split (f : N -> Z) l :
    sumF f l = sumF f (filter (fun n => 0 <? f n) l) - sumF (fun n => - f n) (filter (fun n => f n <? 0) l).
  Proof.
    induction l as [|a r IH]; simpl; [reflexivity|]. rewrite IH.
    destruct (Z.ltb_spec 0 (f a)), (Z.ltb_spec (f a) 0); simpl; lia.
  Qed.

  Theorem ledger_pairs_exact : pairs_exactb T = true /\ pairs_okb T = true.
  Proof.
    pose proof (components_good _ (pair_to_nodes_nodup T)) as [G1 _]. rewrite Forall_forall in G1.
    assert (K : forall c, In c (components (pair_to_nodes T)) -> comp_exactb T (sort_N c) = true).
    { intros c Ic. pose proof (G1 c Ic) as Hc.
      assert (P : Permutation (sort_N c) c).
      { apply NoDup_Permutation; [apply nodup_sort_N; exact Hc|exact Hc|]. intros x. apply in_sort_N_iff. }
      rewrite (comp_exactb_perm T _ _ P). unfold comp_exactb. apply Z.eqb_eq.
      pose proof (comp_sum_zero c Ic Hc) as Z0. rewrite (sumF_split (dl_of T) c) in Z0. lia. }
    split.
    - unfold pairs_exactb. apply forallb_forall. exact K.
    - unfold pairs_okb. apply forallb_forall. intros c Ic. specialize (K c Ic). unfold comp_exactb in K. apply Z.eqb_eq in K.
      unfold comp_balancedb. apply Z.leb_le. lia.
  Qed.

  Theorem ledger_nocrash ord : (forall l x, In x (ord l) <-> In x l) -> (forall l, NoDup l -> NoDup (ord l)) ->
    explicit_h_ord ord T <> None.
  Proof.
    intros Hin Hnd C. apply (explicit_h_ord_crash_iff ord Hin Hnd T) in C. rewrite (proj2 ledger_pairs_exact) in C. discriminate.
  Qed.
End Ledger.

(** atoms that carry a common pair id lie in the same component; components are pairwise disjoint *)
Lemma pt_add_keys pt pid n : NoDup (map fst pt) -> NoDup (map fst (pt_add pt pid n)).
Proof.
  induction pt as [|[q ns] r IH]; simpl; intros H; [repeat constructor; intros []|].
  inversion H as [|? ? H1 H2]; subst. destruct (N.eqb_spec q pid) as [->|Ne]; simpl; [constructor; assumption|].
  constructor; [|apply IH; exact H2]. intros I. apply H1.
  clear - I Ne. induction r as [|[q' ns'] r IH]; simpl in *; [destruct I as [E|[]]; congruence|].
  destruct (N.eqb q' pid); simpl in *; [exact I|]. destruct I as [E|I]; [left; exact E|right; apply IH; exact I].
Qed.
Lemma pair_to_nodes_keys T : NoDup (map fst (pair_to_nodes T)).
Proof.
  unfold pair_to_nodes.
  assert (H : forall nodes pt, NoDup (map fst pt) -> NoDup (map fst (fold_left (fun pt (p : N * inode) =>
               fold_left (fun pt' pid => pt_add pt' pid (fst p)) (match i_hp (snd p) with Some l => l | None => [] end) pt) nodes pt))).
  { induction nodes as [|[k A] r IH]; intros pt Hpt; [exact Hpt|]. cbn [fold_left]. apply IH. cbn [fst snd].
    generalize (match i_hp A with Some l => l | None => [] end). intros pids. revert pt Hpt.
    induction pids as [|pid ps IHp]; intros pt Hpt; [exact Hpt|]. cbn [fold_left]. apply IHp. apply pt_add_keys. exact Hpt. }
  apply H. constructor.
Qed.
Lemma nodup_keys_same {V} (l : list (N * V)) k v v' : NoDup (map fst l) -> In (k, v) l -> In (k, v') l -> v = v'.
Proof.
  induction l as [|[k0 v0] r IH]; simpl; intros H I I'; [destruct I|]. inversion H as [|? ? H1 H2]; subst.
  destruct I as [I|I], I' as [I'|I'].
  - congruence.
  - inversion I; subst. exfalso. apply H1. change k with (fst (k, v')). apply in_map. exact I'.
  - inversion I'; subst. exfalso. apply H1. change k with (fst (k, v)). apply in_map. exact I.
  - exact (IH H2 I I').
Qed.

Lemma common_pid_closed T (l : list N) p c :
  (forall x, In x l -> exists A, In (x, A) (gnodes T) /\ In p (hp_of A)) ->
  In c (components (pair_to_nodes T)) ->
  (forall x, In x l -> In x c) \/ (forall x, In x l -> ~ In x c).
Proof.
  intros Hp Ic.
  destruct l as [|x0 r]; [left; intros x []|].
  destruct (Hp x0 (or_introl eq_refl)) as (A0 & I0 & P0).
  destruct (pair_to_nodes_complete T x0 A0 p I0 P0) as (ns & Ins & Ix0).
  destruct (components_cover _ (p, ns) Ins) as (c0 & Ic0 & S0). cbn [snd] in S0.
  assert (All : forall x, In x (x0 :: r) -> In x c0).
  { intros x Ix. destruct (Hp x Ix) as (A & IA & PA). destruct (pair_to_nodes_complete T x A p IA PA) as (ns' & Ins' & Ix').
    rewrite (nodup_keys_same _ p ns' ns (pair_to_nodes_keys T) Ins' Ins) in Ix'. apply S0. exact Ix'. }
  pose proof (components_good _ (pair_to_nodes_nodup T)) as [_ G2].
  assert (Same : forall x, In x c0 -> In x c -> c = c0).
  { intros x X0 X. destruct (ForallOrdPairs_In G2 c c0 Ic Ic0) as [E|[D|D]]; [exact E| |]; exfalso; [exact (D x X X0)|exact (D x X0 X)]. }
  destruct (in_dec N.eq_dec x0 c) as [Y|Nn].
  - left. intros x Ix. rewrite (Same x0 (All x0 (or_introl eq_refl)) Y). apply All. exact Ix.
  - right. intros x Ix X. apply Nn. rewrite (Same x (All x Ix) X). apply All. left. reflexivity.
Qed.

(** the T-level theorem with the "common pair id" form of closedness *)
Theorem ledger_sound T (lg : ledger) :
  (forall n, dl_of T n = ledger_dl lg n) ->
  (forall h, In h lg -> exists p, forall x, In x (fst h ++ snd h) -> exists A, In (x, A) (gnodes T) /\ In p (hp_of A)) ->
  (forall h, In h lg -> length (fst h) = length (snd h)) ->
  pairs_exactb T = true /\ pairs_okb T = true /\
  forall ord, (forall l x, In x (ord l) <-> In x l) -> (forall l, NoDup l -> NoDup (ord l)) -> explicit_h_ord ord T <> None.
Proof.
  intros H1 H2 H3.
  assert (Hcl : forall h c, In h lg -> In c (components (pair_to_nodes T)) ->
            (forall x, In x (fst h ++ snd h) -> In x c) \/ (forall x, In x (fst h ++ snd h) -> ~ In x c)).
  { intros h c Ih Ic. destruct (H2 h Ih) as (p & Hp). exact (common_pid_closed T _ p c Hp Ic). }
  destruct (ledger_pairs_exact T lg H1 Hcl H3) as [A B]. split; [exact A|]. split; [exact B|].
  intros ord Hin Hnd. exact (ledger_nocrash T lg H1 Hcl H3 ord Hin Hnd).
Qed.

(** images of a weighted list of rule atoms under the match *)
Definition imgs (m : mapping) (w : N -> Z) (K : list N) : list N :=
  flat_map (fun k => match mget m k with Some x => repeat x (Z.to_nat (w k)) | None => [] end) K.

Lemma occurrences_repeat x y n : occurrences x (repeat y n) = if N.eqb x y then Z.of_nat n else 0.
Proof.
  induction n as [|n IH]; simpl repeat; [destruct (N.eqb x y); reflexivity|].
  rewrite occurrences_cons, IH. destruct (N.eqb x y); lia.
Qed.

Lemma occ_imgs_other m w K x : (forall k, In k K -> mget m k <> Some x) -> occurrences x (imgs m w K) = 0.
Proof.
  unfold imgs. induction K as [|k r IH]; intros H; [reflexivity|]. cbn [flat_map]. rewrite occurrences_app, IH by (intros; apply H; right; assumption).
  destruct (mget m k) as [y|] eqn:E; [|reflexivity]. rewrite occurrences_repeat.
  destruct (N.eqb_spec x y) as [->|]; [exfalso; exact (H k (or_introl eq_refl) E)|reflexivity].
Qed.

Lemma occ_imgs m w K k0 x0 : NoDup K -> In k0 K -> mget m k0 = Some x0 -> 0 <= w k0 ->
  (forall k, In k K -> mget m k = Some x0 -> k = k0) -> occurrences x0 (imgs m w K) = w k0.
Proof.
  unfold imgs. induction K as [|k r IH]; intros Hnd I E Hw Hinj; [destruct I|]. inversion Hnd as [|? ? N1 N2]; subst.
  cbn [flat_map]. rewrite occurrences_app. destruct I as [->|I].
  - rewrite E, occurrences_repeat, N.eqb_refl.
    fold (imgs m w r). rewrite (occ_imgs_other m w r x0).
    + rewrite Z2Nat.id by exact Hw. lia.
    + intros k Ik Ek. apply N1. rewrite (Hinj k (or_intror Ik) Ek) in Ik. exact Ik.
  - rewrite (IH N2 I E Hw) by (intros; apply Hinj; [right; assumption|assumption]).
    destruct (mget m k) as [y|] eqn:Ek; [|reflexivity]. rewrite occurrences_repeat.
    destruct (N.eqb_spec x0 y) as [->|]; [|lia]. exfalso. apply N1. rewrite (Hinj k (or_introl eq_refl) Ek). exact I.
Qed.

Lemma length_imgs m w K : (forall k, In k K -> exists x, mget m k = Some x) ->
  Z.of_nat (length (imgs m w K)) = fold_right (fun k acc => Z.of_nat (Z.to_nat (w k)) + acc) 0 K.
Proof.
  unfold imgs. induction K as [|k r IH]; intros H; [reflexivity|]. cbn [flat_map fold_right]. rewrite app_length, Nat2Z.inj_add, IH by (intros; apply H; right; assumption).
  destruct (H k (or_introl eq_refl)) as [x ->]. rewrite repeat_length. reflexivity.
Qed.

(** sums over the removed hydrogens *)
Lemma ledger_dl_map (R : list N) (A B : N -> list N) n :
  ledger_dl (map (fun h => (A h, B h)) R) n = fold_right (fun h acc => occurrences n (A h) - occurrences n (B h) + acc) 0 R.
Proof. induction R as [|h r IH]; simpl; [reflexivity|]. unfold ledger_dl in *. cbn [fold_right map fst snd]. rewrite IH. reflexivity. Qed.

Lemma sum_cnt_diff esL esR R k :
  sum_cnt esL R k - sum_cnt esR R k = fold_right (fun h acc => cnt esL h k - cnt esR h k + acc) 0 R.
Proof. induction R as [|h r IH]; simpl; [reflexivity|]. unfold sum_cnt in *. cbn [fold_right]. lia. Qed.

Lemma in_imgs m w K x : In x (imgs m w K) -> exists k, In k K /\ mget m k = Some x /\ 0 < w k.
Proof.
  unfold imgs. intros I. apply in_flat_map in I. destruct I as (k & Ik & Ix). exists k. split; [exact Ik|].
  destruct (mget m k) as [y|]; [|destruct Ix]. apply repeat_spec in Ix as E. subst y. split; [reflexivity|].
  destruct (Z.to_nat (w k)) eqn:En; [destruct Ix|]. lia.
Qed.

Lemma cnt_pos_nbrs sn se tpl h k : simple_edgesb (gedges tpl) = true ->
  0 < cnt (gedges (side0 sn se tpl)) h k -> In k (nbrs tpl h).
Proof.
  intros Hs H. unfold cnt in H.
  destruct (filter (fun e : N * N * Z => peq (fst (fst e)) (snd (fst e)) h k) (gedges (side0 sn se tpl))) as [|e r] eqn:E; [simpl in H; lia|].
  assert (Ie : In e (filter (fun e : N * N * Z => peq (fst (fst e)) (snd (fst e)) h k) (gedges (side0 sn se tpl)))) by (rewrite E; left; reflexivity).
  apply filter_In in Ie. destruct Ie as [Ie Pe]. rewrite side0_edges in Ie. apply in_flat_map in Ie.
  destruct Ie as ([[u v] x] & It & Ix). destruct (0 <? se x); [|destruct Ix]. destruct Ix as [<-|[]]. cbn [fst snd] in Pe.
  pose proof (simple_edges_ne (gedges tpl) u v x Hs It) as Ne.
  apply nbrs_in. exists (u, v, x). split; [exact It|]. cbn [fst snd]. unfold peq in Pe. apply orb_prop in Pe.
  destruct Pe as [Pe|Pe]; apply andb_prop in Pe; destruct Pe as [P1 P2]; apply N.eqb_eq in P1; apply N.eqb_eq in P2; subst.
  - left. auto.
  - right. repeat split; auto.
Qed.

Lemma sum_cnt_countZ sn se tpl h K : simple_edgesb (gedges tpl) = true ->
  fold_right (fun k acc => Z.of_nat (Z.to_nat (cnt (gedges (side0 sn se tpl)) h k)) + acc) 0 K = countZ (fun k => bonded se tpl k h) K.
Proof.
  intros Hs. unfold countZ. induction K as [|k r IH]; [reflexivity|]. cbn [fold_right filter]. rewrite IH, (cnt_indicator sn se tpl h k Hs).
  unfold bonded. destruct (match adj tpl k h with Some x => 0 <? se x | None => false end); cbn [length]; lia.
Qed.

Section Default.
  Variables (tpl rc : its) (l r : molg) (host : hostg) (m : mapping) (T : its).
  Hypothesis Hnd0 : nodupb (node_ids tpl) = true.
  Hypothesis Hel : forall k a, In (k, a) (gnodes tpl) -> a_el (iH a) = a_el (iG a).
  Hypothesis Hsimple : simple_edgesb (gedges tpl) = true.
  Hypothesis Hs : synrule tpl true = Some (rc, l, r).
  Hypothesis Hcond : tpl_condition tpl.
  Hypothesis Hwh : wf_hostb host = true.
  Hypothesis Hwr : wf_rcb rc = true.
  Hypothesis Hm : match_rcb host rc m = true.
  Hypothesis Hg : glue host rc m = Some T.

  Theorem default_glued_exact :
    pairs_exactb T = true /\ pairs_okb T = true /\
    forall ord, (forall l x, In x (ord l) <-> In x l) -> (forall l, NoDup l -> NoDup (ord l)) -> explicit_h_ord ord T <> None.
  Proof.
    pose proof (nodupb_NoDup _ Hnd0) as Hnd.
    destruct (synrule_default_pointwise tpl rc l r Hnd0 Hel Hs) as (R & NR & Memb & Eids & _ & _ & Nrc & _ & Pt & _).
    pose proof (match_rcb_sound host rc m (wf_rc_nodup rc Hwr) Hm) as MO.
    set (K := filter (fun k => negb (is_H_i tpl k)) (node_ids tpl)).
    set (EL := gedges (side0 iG eG tpl)). set (ER := gedges (side0 iH eH tpl)).
    assert (NK : NoDup K) by (apply NoDup_filter; exact Hnd).
    assert (HK : forall k, In k K <-> In k (node_ids tpl) /\ is_H_i tpl k = false).
    { intros k. unfold K. rewrite filter_In. split; intros [A B]; (split; [exact A|]); [apply negb_true_iff in B; exact B|rewrite B; reflexivity]. }
    assert (RH : forall h, In h R -> is_H_i tpl h = true) by (intros h I; exact (proj1 (proj1 (Memb h) I))).
    (* atoms of rc *)
    assert (Irc : forall k, In k (node_ids rc) <-> In k (node_ids tpl) /\ ~ In k R).
    { intros k. rewrite Eids, filter_In. split; intros [A B]; (split; [exact A|]).
      - intros C. apply mem_spec in C. rewrite C in B. discriminate.
      - destruct (mem k R) eqn:E; [apply mem_spec in E; contradiction|reflexivity]. }
    assert (Krc : forall k, In k K -> In k (node_ids rc)).
    { intros k Ik. apply HK in Ik. apply Irc. split; [exact (proj1 Ik)|]. intros C. rewrite (RH k C) in Ik. destruct Ik; discriminate. }
    assert (Kimg : forall k, In k K -> exists x, mget m k = Some x).
    { intros k Ik. pose proof (Krc k Ik) as I. unfold node_ids in I. apply in_map_iff in I. destruct I as ([k' pn] & E & I). cbn [fst] in E. subst k'.
      destruct (mo_nodes _ _ _ MO k pn I) as (x & hn & E & _). eauto. }
    assert (Inj : forall k k' x, mget m k = Some x -> mget m k' = Some x -> k = k').
    { intros k k' x E E'. exact (mget_inj m k k' x (mo_vals _ _ _ MO) E E'). }
    (* the rule atom behind an image, with its two hydrogen counts *)
    assert (Cnt : forall k pn, In (k, pn) (gnodes rc) ->
              a_hc (iG pn) - a_hc (iH pn) = if is_H_i tpl k then 0 else sum_cnt EL R k - sum_cnt ER R k).
    { intros k pn I. assert (Ik : In k (node_ids rc)) by (change k with (fst (k, pn)); apply in_map; exact I).
      apply Irc in Ik. destruct Ik as [It Nr]. unfold node_ids in It. apply in_map_iff in It. destruct It as ([k' a0] & E & It). cbn [fst] in E. subst k'.
      pose proof (assoc_nodup_in k (gnodes tpl) a0 Hnd It) as Lt. fold (label tpl k) in Lt.
      destruct (Pt k a0 Lt Nr) as (a & La & _ & _ & G1 & G2).
      pose proof (assoc_nodup_in k (gnodes rc) pn Nrc I) as Lr. fold (label rc k) in Lr. rewrite Lr in La. inversion La; subst a.
      unfold is_H_i. rewrite Lt. rewrite G1, G2. destruct (N.eqb (a_el (iG a0)) EL_H); reflexivity. }
    set (lg := map (fun h => (imgs m (cnt EL h) K, imgs m (cnt ER h) K)) R).
    apply (ledger_sound T lg).
    - (* (i) *)
      intros n. unfold lg. rewrite ledger_dl_map.
      destruct (in_dec N.eq_dec n (map snd m)) as [I|NI].
      + apply in_map_iff in I. destruct I as ([k n'] & E & I). cbn [snd] in E. subst n'.
        assert (Ek : mget m k = Some n) by (apply assoc_nodup_in; [exact (mo_keys _ _ _ MO)|exact I]).
        assert (Ik : In k (node_ids rc)).
        { apply (Permutation_in _ (Permutation_sym (mo_perm _ _ _ MO))). change k with (fst (k, n)). apply in_map. exact I. }
        unfold node_ids in Ik. apply in_map_iff in Ik. destruct Ik as ([k' pn] & E & Ik). cbn [fst] in E. subst k'.
        destruct (glued_node host rc m T Hwr Hm Hg k n pn Ek Ik) as (hn & _ & Hl).
        assert (Dl : dl_of T n = a_hc (iG pn) - a_hc (iH pn)).
        { unfold dl_of. rewrite Hl. unfold delta_h. cbn [iG iH a_hc]. lia. }
        rewrite Dl, (Cnt k pn Ik).
        destruct (is_H_i tpl k) eqn:Eh.
        * (* a kept explicit hydrogen: not in K *)
          assert (Z0 : forall w, occurrences n (imgs m w K) = 0).
          { intros w. apply occ_imgs_other. intros k' Ik' Ek'. rewrite (Inj k' k n Ek' Ek) in Ik'. apply HK in Ik'. rewrite Eh in Ik'. destruct Ik'; discriminate. }
          clear - Z0. induction R as [|h rr IH]; [reflexivity|]. cbn [fold_right]. rewrite !Z0, <- IH. lia.
        * assert (IkK : In k K).
          { apply HK. split; [|exact Eh]. assert (I2 : In k (node_ids rc)) by (change k with (fst (k, pn)); apply in_map; exact Ik). exact (proj1 (proj1 (Irc k) I2)). }
          assert (Oc : forall es h, occurrences n (imgs m (cnt es h) K) = cnt es h k).
          { intros es h. apply (occ_imgs m (cnt es h) K k n NK IkK Ek); [unfold cnt; lia|]. intros k' _ Ek'. exact (Inj k' k n Ek' Ek). }
          rewrite sum_cnt_diff. clear - Oc. induction R as [|h rr IH]; [reflexivity|]. cbn [fold_right]. rewrite !Oc, IH. reflexivity.
      + assert (Dl : dl_of T n = 0).
        { unfold dl_of. rewrite (unglued_node host rc m T Hg n NI). destruct (label host n); cbn [option_map]; [unfold delta_h; cbn [iG iH]; lia|reflexivity]. }
        assert (Z0 : forall w, occurrences n (imgs m w K) = 0).
        { intros w. apply occ_imgs_other. intros k' _ Ek'. apply NI. unfold mget in Ek'. apply assoc_in in Ek'. change n with (snd (k', n)). apply in_map. exact Ek'. }
        rewrite Dl. clear - Z0. induction R as [|h rr IH]; [reflexivity|]. cbn [fold_right]. rewrite !Z0, <- IH. lia.
    - (* (ii) a common pair id *)
      intros hh Ih. unfold lg in Ih. apply in_map_iff in Ih. destruct Ih as (h & <- & IhR). cbn [fst snd].
      destruct (proj1 (Memb h) IhR) as (M1 & M2 & M3).
      destruct (synrule_default_pairs_complete tpl rc l r Hnd0 Hel Hs h M1 M2 M3) as (p & Hp). exists p.
      intros x Ix. apply in_app_or in Ix.
      assert (G : forall sn se, In x (imgs m (cnt (gedges (side0 sn se tpl)) h) K) -> exists A, In (x, A) (gnodes T) /\ In p (hp_of A)).
      { intros sn se I. destruct (in_imgs _ _ _ _ I) as (k & Ik & Ek & Pos).
        pose proof (cnt_pos_nbrs sn se tpl h k Hsimple Pos) as Nb. apply HK in Ik as Ik'. destruct Ik' as [It Nh].
        destruct (Hp k Nb Nh (proj2 (has_node_in tpl k) It)) as (A & La & PA).
        unfold label in La. apply assoc_in in La.
        destruct (glued_node host rc m T Hwr Hm Hg k x A Ek La) as (hn & _ & Hl).
        eexists. split; [unfold label in Hl; apply assoc_in in Hl; exact Hl|]. unfold hp_of in *. cbn [i_hp]. destruct (i_hp A); exact PA. }
      destruct Ix as [Ix|Ix]; [exact (G iG eG Ix)|exact (G iH eH Ix)].
    - (* (iii) *)
      intros hh Ih. unfold lg in Ih. apply in_map_iff in Ih. destruct Ih as (h & <- & IhR). cbn [fst snd].
      apply Nat2Z.inj. rewrite !(length_imgs m _ K Kimg). unfold EL, ER. rewrite !(sum_cnt_countZ _ _ tpl h K Hsimple).
      destruct (Hcond R K NR NK Memb HK) as [E _]. symmetry. exact (E h IhR).
  Qed.
End Default.
