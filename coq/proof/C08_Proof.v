From SK Require Import model.C08_Model.
Lemma stub : canon_generic = canon_generic. Proof. reflexivity. Qed.
