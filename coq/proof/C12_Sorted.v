(** C12 -- the returned list is sorted by the key (-len(d), tuple(sorted(d.items()))): larger mappings first, equal sizes in
    lexicographic order of their sorted item tuples.  [result_le a b] := not (b < a) in that order. *)
From Coq Require Import List NArith ZArith Bool Arith Lia Sorted.
From SK Require Import lib.LGraph model.C12_Model proof.C12_Search proof.C12_Proof.
Import ListNotations.

Definition result_le (a b : mapping) : Prop := result_ltb b a = false.

Lemma result_ltb_meaning a b :
  result_ltb a b = true <-> length b < length a \/ (length a = length b /\ items_ltb a b = true).
Proof.
  unfold result_ltb. rewrite orb_true_iff, andb_true_iff, Nat.ltb_lt, Nat.eqb_eq. reflexivity.
Qed.

Lemma pair_ltb_asym x y : pair_ltb x y = true -> pair_ltb y x = false /\ pair_eqb y x = false /\ pair_eqb x y = false.
Proof.
  destruct x as [x1 x2], y as [y1 y2]. unfold pair_ltb, pair_eqb. simpl. intros H.
  apply orb_prop in H.
  assert (G : (x1 < y1 \/ (x1 = y1 /\ x2 < y2))%N).
  { destruct H as [H|H]; [left; now apply N.ltb_lt|right]. apply andb_prop in H. destruct H as [H1 H2].
    apply N.eqb_eq in H1. apply N.ltb_lt in H2. auto. }
  repeat split.
  - apply orb_false_iff. split; [apply N.ltb_ge; lia|]. apply andb_false_iff.
    destruct (N.eqb_spec y1 x1); [right; apply N.ltb_ge; lia|now left].
  - apply andb_false_iff. destruct (N.eqb_spec y1 x1); [right; apply N.eqb_neq; lia|now left].
  - apply andb_false_iff. destruct (N.eqb_spec x1 y1); [right; apply N.eqb_neq; lia|now left].
Qed.

Lemma pair_eqb_sym x y : pair_eqb x y = pair_eqb y x.
Proof. unfold pair_eqb. now rewrite (N.eqb_sym (fst x)), (N.eqb_sym (snd x)). Qed.

Lemma items_ltb_asym : forall a b, items_ltb a b = true -> items_ltb b a = false.
Proof.
  induction a as [|x a IH]; intros [|y b] H; simpl in *; try discriminate; try reflexivity.
  apply orb_prop in H. destruct H as [H|H].
  - destruct (pair_ltb_asym _ _ H) as (H1 & H2 & _). now rewrite H1, H2.
  - apply andb_prop in H. destruct H as [He Hl]. rewrite (pair_eqb_sym y x), He. simpl. rewrite (IH _ Hl), orb_false_r.
    destruct (pair_ltb y x) eqn:E; [|reflexivity]. destruct (pair_ltb_asym _ _ E) as (_ & E2 & _). congruence.
Qed.

Lemma result_ltb_asym a b : result_ltb a b = true -> result_ltb b a = false.
Proof.
  unfold result_ltb. intros H. apply orb_prop in H. destruct H as [H|H].
  - apply Nat.ltb_lt in H. apply orb_false_iff. split; [apply Nat.ltb_ge; lia|].
    apply andb_false_iff. left. apply Nat.eqb_neq. lia.
  - apply andb_prop in H. destruct H as [He Hl]. apply Nat.eqb_eq in He.
    apply orb_false_iff. split; [apply Nat.ltb_ge; lia|]. rewrite (items_ltb_asym _ _ Hl). apply andb_false_r.
Qed.

Lemma insert_result_hd x l a : HdRel result_le a l -> result_le a x -> HdRel result_le a (insert_result x l).
Proof.
  intros Hl Hx. destruct l as [|y r]; simpl; [now constructor|].
  destruct (result_ltb x y); constructor; [exact Hx|]. now inversion Hl.
Qed.

Lemma insert_result_sorted x l : Sorted result_le l -> Sorted result_le (insert_result x l).
Proof.
  induction 1 as [|y r Hs IH Hh]; simpl; [repeat constructor|].
  destruct (result_ltb x y) eqn:E.
  - constructor; [now constructor|]. constructor. unfold result_le. now apply result_ltb_asym.
  - constructor; [exact IH|]. apply insert_result_hd; [exact Hh|exact E].
Qed.

Theorem sort_results_sorted l : Sorted result_le (sort_results l).
Proof. unfold sort_results. induction l as [|x r IH]; simpl; [constructor|now apply insert_result_sorted]. Qed.

Theorem search_results_sorted nm em pattern host mcs : Sorted result_le (fst (fst (search_subgraphs nm em pattern host mcs))).
Proof.
  unfold search_subgraphs.
  destruct (search_loop nm em mcs pattern host (Nat.min (n_nodes pattern) (n_nodes host)) [] 0 0) as [[acc best] tr].
  cbn [fst]. apply sort_results_sorted.
Qed.

(** pattern -> host list of find_common_subgraph (the order in which the code returns it; inverting every mapping for a
    direction request keeps the positions) *)
Theorem fcs_sorted defs prune wc (g1 g2 : graph) mcs :
  Sorted result_le (get_mappings PatternToHost (find_common_subgraph defs prune wc g1 g2 mcs)).
Proof.
  destruct (n_nodes (prune_graph prune wc g1) <=? n_nodes (prune_graph prune wc g2)) eqn:Eo.
  - rewrite (fcs_le defs prune wc g1 g2 mcs Eo). cbn [get_mappings r_maps]. apply search_results_sorted.
  - rewrite (fcs_gt defs prune wc g1 g2 mcs Eo). cbn [get_mappings r_maps]. apply search_results_sorted.
Qed.

Module Example_sorted.
Open Scope N_scope.
Definition nd (i e : N) : N * nattr := (i, (Some e, [Some e])).
Definition ga : graph := LG [nd 1 1; nd 2 1; nd 3 2] [((1,2), [Some 2%Z]); ((2,3), [Some 4%Z])].
Definition gb : graph := LG [nd 10 2; nd 11 1; nd 12 1] [((10,11), [Some 4%Z]); ((11,12), [Some 2%Z])].
Example sorted_nonvacuous :
  get_mappings PatternToHost (find_common_subgraph [9] false 9 ga gb false) =
    [[(1, 12); (2, 11); (3, 10)]; [(1, 11); (2, 12)]; [(1, 12); (2, 11)]; [(1, 12); (3, 10)]; [(2, 11); (3, 10)];
     [(1, 11)]; [(1, 12)]; [(2, 11)]; [(2, 12)]; [(3, 10)]] /\
  Sorted result_le (get_mappings PatternToHost (find_common_subgraph [9] false 9 ga gb false)) /\
  ~ result_le [(1, 11)] [(2, 11); (3, 10)].
Proof.
  split; [vm_compute; reflexivity|]. split; [apply fcs_sorted|]. unfold result_le. vm_compute. discriminate.
Qed.
End Example_sorted.

(* ------------------------------------------------------------------ prune_automorphisms: the host node sets *)
Lemma insertN_perm x l : Permutation.Permutation (insertN x l) (x :: l).
Proof.
  induction l as [|y r IH]; simpl; [reflexivity|]. destruct (N.leb x y); [reflexivity|].
  eapply Permutation.perm_trans; [apply Permutation.perm_skip; exact IH|apply Permutation.perm_swap].
Qed.

Lemma host_set_perm m : Permutation.Permutation (host_set m) (map snd m).
Proof.
  unfold host_set. induction (map snd m) as [|x r IH]; simpl; [constructor|].
  eapply Permutation.perm_trans; [apply insertN_perm|now apply Permutation.perm_skip].
Qed.

Lemma nlist_eqb_eq a b : nlist_eqb a b = true <-> a = b.
Proof.
  revert b. induction a as [|x a IH]; intros [|y b]; simpl; split; try discriminate; try reflexivity.
  - intros H. apply andb_prop in H. destruct H as [H1 H2]. apply N.eqb_eq in H1. apply IH in H2. congruence.
  - intros E. inversion E; subst. rewrite N.eqb_refl. simpl. now apply IH.
Qed.

Lemma dedupe_sets_spec l : (forall x, In x (dedupe_sets l) <-> In x l) /\ NoDup (dedupe_sets l).
Proof.
  induction l as [|x r (IH1 & IH2)]; simpl; [split; [tauto|constructor]|].
  destruct (existsb (nlist_eqb x) r) eqn:E.
  - apply existsb_exists in E. destruct E as (y & Hy & Ey). apply nlist_eqb_eq in Ey. subst y.
    split; [|exact IH2]. intros z. rewrite IH1. split; [auto|intros [<-|H]; auto].
  - split.
    + intros z. simpl. rewrite IH1. tauto.
    + constructor; [|exact IH2]. intros I. apply IH1 in I.
      assert (existsb (nlist_eqb x) r = true) by (apply existsb_exists; exists x; split; [exact I|now apply nlist_eqb_eq]).
      congruence.
Qed.

(** the host node sets that keep a representative under prune_automorphisms: each occurs once, and they are exactly the
    (sorted) host node sets of the mappings the unpruned search returns *)
Theorem host_sets_spec maps :
  NoDup (host_sets maps) /\
  (forall hs, In hs (host_sets maps) <-> exists m, In m maps /\ host_set m = hs) /\
  (forall m, Permutation.Permutation (host_set m) (map snd m)).
Proof.
  unfold host_sets. destruct (dedupe_sets_spec (map host_set maps)) as (H1 & H2).
  split; [exact H2|]. split; [|exact host_set_perm].
  intros hs. rewrite H1, in_map_iff. split; intros (m & A & B); exists m; auto.
Qed.

Module Example_auto.
Import Example_sorted.
Open Scope N_scope.
(** ga = C1-C2=O3 against gb = O10=C11-C12, all sizes: 10 mappings, 7 host node sets keep a representative *)
Example host_sets_nonvacuous :
  length (r_maps (find_common_subgraph [9] false 9 ga gb false)) = 10%nat /\
  host_sets (r_maps (find_common_subgraph [9] false 9 ga gb false)) =
    [[10; 11; 12]; [11; 12]; [10; 12]; [10; 11]; [11]; [12]; [10]] /\
  NoDup (host_sets (r_maps (find_common_subgraph [9] false 9 ga gb false))).
Proof. split; [vm_compute; reflexivity|]. split; [vm_compute; reflexivity|apply host_sets_spec]. Qed.
End Example_auto.

(* ------------------------------------------------------------------ VF2's choices as a parameter (round 4) *)
Lemma insertN_comm x y l : insertN x (insertN y l) = insertN y (insertN x l).
Proof.
  induction l as [|z r IH]; simpl.
  - destruct (N.leb_spec x y), (N.leb_spec y x); try reflexivity; try lia.
    assert (x = y) by lia. now subst.
  - destruct (N.leb_spec y z), (N.leb_spec x z); simpl;
      repeat match goal with |- context [N.leb ?a ?b] => destruct (N.leb_spec a b) end;
      try reflexivity; try lia; try (assert (x = y) by lia; subst; reflexivity); try (now rewrite IH).
Qed.

Lemma sortN_perm_eq l l' : Permutation.Permutation l l' -> fold_right insertN [] l = fold_right insertN [] l'.
Proof.
  induction 1; simpl; try congruence. apply insertN_comm.
Qed.

Lemma host_set_perm_eq m m' : Permutation.Permutation m m' -> host_set m = host_set m'.
Proof. intros P. unfold host_set. apply sortN_perm_eq. now apply Permutation.Permutation_map. Qed.

Lemma nodup_sets_spec l : nodup_sets l = true -> NoDup l.
Proof.
  induction l as [|x r IH]; simpl; intros H; [constructor|]. apply andb_prop in H. destruct H as [H1 H2].
  constructor; [|now apply IH]. intros I. apply negb_true_iff in H1.
  assert (existsb (nlist_eqb x) r = true) by (apply existsb_exists; exists x; split; [exact I|now apply nlist_eqb_eq]). congruence.
Qed.

Theorem apply_choices_spec maps choices kept : apply_choices maps choices = Some kept ->
  (forall k, In k kept -> In k maps /\ exists c, In c choices /\ k = sort_items c) /\
  NoDup (map host_set kept) /\
  (forall m, In m maps -> exists k, In k kept /\ host_set k = host_set m) /\
  Sorted result_le kept.
Proof.
  unfold apply_choices. set (cs := filter (fun c => seen c maps) (map sort_items choices)).
  destruct (nodup_sets (map host_set cs) && forallb (fun hs => existsb (nlist_eqb hs) (map host_set cs)) (host_sets maps)) eqn:E;
    [|discriminate].
  intros [= <-]. apply andb_prop in E. destruct E as [E1 E2].
  assert (Hin : forall k, In k (sort_results cs) <-> In k cs) by (intros; apply sort_results_in).
  split; [|split; [|split]].
  - intros k Hk. apply Hin in Hk. unfold cs in Hk. apply filter_In in Hk. destruct Hk as (Hk & Hs).
    split; [now apply seen_spec|]. apply in_map_iff in Hk. destruct Hk as (c & <- & Ic). eauto.
  - eapply Permutation.Permutation_NoDup; [apply Permutation.Permutation_map, Permutation.Permutation_sym, sort_results_perm|].
    now apply nodup_sets_spec.
  - intros m Hm. rewrite forallb_forall in E2.
    assert (Ih : In (host_set m) (host_sets maps)) by (apply host_sets_spec; eauto).
    specialize (E2 _ Ih). apply existsb_exists in E2. destruct E2 as (hs & Ihs & Eq). apply nlist_eqb_eq in Eq. subst hs.
    apply in_map_iff in Ihs. destruct Ihs as (k & Ek & Ik). exists k. split; [now apply Hin|exact Ek].
  - apply sort_results_sorted.
Qed.

(** prune_automorphisms=True with VF2's choices as a parameter: whatever accepted choices are supplied, the kept mappings
    are valid (for the oriented pair), have pairwise different host node sets, are sorted, and in maximum mode every
    maximum common induced mapping has its host node set represented *)
Theorem prune_auto_choices_valid defs prune wc (g1 g2 : graph) mcs choices kept :
  NoDup (node_ids g1) -> NoDup (node_ids g2) ->
  let r := find_common_subgraph defs prune wc g1 g2 mcs in
  let ga := if r_pattern_is_g1 r then prune_graph prune wc g1 else prune_graph prune wc g2 in
  let gb := if r_pattern_is_g1 r then prune_graph prune wc g2 else prune_graph prune wc g1 in
  apply_choices (r_maps r) choices = Some kept ->
  (forall k, In k kept -> common_induced (node_match defs) edge_match ga gb k /\ In k (r_maps r) /\
                          exists c, In c choices /\ k = sort_items c) /\
  NoDup (map host_set kept) /\ Sorted result_le kept /\
  (mcs = true -> (forall k, In k kept -> length k = r_last r) /\
     forall m, common_induced (node_match defs) edge_match ga gb m -> length m = r_last r -> 1 <= r_last r ->
               exists k, In k kept /\ host_set k = host_set m).
Proof.
  intros N1 N2 r ga gb E.
  destruct (apply_choices_spec _ _ _ E) as (S1 & S2 & S3 & S4).
  assert (Hp2h : get_mappings PatternToHost r = r_maps r) by reflexivity.
  split; [|split; [exact S2|split; [exact S4|]]].
  - intros k Hk. destruct (S1 k Hk) as (Ik & Hc). split; [|split; [exact Ik|exact Hc]].
    pose proof (proj2 (proj2 (fcs_valid defs prune wc g1 g2 N1 N2 mcs k))) as V. fold r in V.
    specialize (V Ik). unfold ga, gb. destruct (r_pattern_is_g1 r); exact V.
  - intros ->. destruct (fcs_maximum defs prune wc g1 g2 N1 N2) as (M12 & M21). fold r in M12, M21.
    assert (M : MaxSpec (node_match defs) edge_match ga gb (r_maps r) (r_last r)).
    { unfold ga, gb. unfold get_mappings in M12, M21. destruct (r_pattern_is_g1 r); assumption. }
    destruct M as (A1 & A2 & A3 & A4). split.
    + intros k Hk. apply A1. now apply S1.
    + intros m Hm Hl H1. destruct (A3 m Hm Hl H1) as (m' & I' & P). destruct (S3 m' I') as (k & Ik & Ek).
      exists k. split; [exact Ik|]. rewrite Ek. symmetry. now apply host_set_perm_eq.
Qed.

Module Example_choices.
Import Example_sorted.
Open Scope N_scope.
(** ga = C1-C2=O3, gb = O10=C11-C12, all sizes.  Two possible VF2 choices for the host set {11,12}: both accepted, giving
    different kept lists; a choice that is not a mapping of the result is ignored and then {10} has no representative *)
Definition base := [[(1, 12); (2, 11); (3, 10)]; [(1, 12); (3, 10)]; [(2, 11); (3, 10)]; [(1, 11)]; [(1, 12)]; [(3, 10)]].
Example choices_nonvacuous :
  apply_choices (r_maps (find_common_subgraph [9] false 9 ga gb false)) (([(1, 11); (2, 12)] : mapping) :: base) =
    Some [[(1, 12); (2, 11); (3, 10)]; [(1, 11); (2, 12)]; [(1, 12); (3, 10)]; [(2, 11); (3, 10)]; [(1, 11)]; [(1, 12)]; [(3, 10)]] /\
  apply_choices (r_maps (find_common_subgraph [9] false 9 ga gb false)) (([(2, 11); (1, 12)] : mapping) :: base) =
    Some [[(1, 12); (2, 11); (3, 10)]; [(1, 12); (2, 11)]; [(1, 12); (3, 10)]; [(2, 11); (3, 10)]; [(1, 11)]; [(1, 12)]; [(3, 10)]] /\
  apply_choices (r_maps (find_common_subgraph [9] false 9 ga gb false)) (([(1, 11); (2, 12)] : mapping) :: [(1, 10)] :: removelast base) = None.
Proof. repeat split; vm_compute; reflexivity. Qed.
End Example_choices.
