(** C12 -- the returned list is sorted by the key (-len(d), tuple(sorted(d.items()))): larger mappings first, equal sizes in
    lexicographic order of their sorted item tuples.  [result_le a b] := not (b < a) in that order. *)
From Coq Require Import List NArith ZArith Bool Arith Lia Sorted.
From SK Require Import lib.LGraph model.C12_Model proof.C12_Search proof.C12_Proof.
Import ListNotations.

Definition result_le (a b : mapping) : Prop := result_ltb b a = false.

Lemma result_ltb_meaning a b :
  result_ltb a b = true <-> length b < length a \/ (length a = length b /\ items_ltb a b = true).
Proof.
  unfold result_ltb. rewrite orb_true_iff, andb_true_iff, Nat.ltb_lt, Nat.eqb_eq. reflexivity.
Qed.

Lemma pair_ltb_asym x y : pair_ltb x y = true -> pair_ltb y x = false /\ pair_eqb y x = false /\ pair_eqb x y = false.
Proof.
  destruct x as [x1 x2], y as [y1 y2]. unfold pair_ltb, pair_eqb. simpl. intros H.
  apply orb_prop in H.
  assert (G : (x1 < y1 \/ (x1 = y1 /\ x2 < y2))%N).
  { destruct H as [H|H]; [left; now apply N.ltb_lt|right]. apply andb_prop in H. destruct H as [H1 H2].
    apply N.eqb_eq in H1. apply N.ltb_lt in H2. auto. }
  repeat split.
  - apply orb_false_iff. split; [apply N.ltb_ge; lia|]. apply andb_false_iff.
    destruct (N.eqb_spec y1 x1); [right; apply N.ltb_ge; lia|now left].
  - apply andb_false_iff. destruct (N.eqb_spec y1 x1); [right; apply N.eqb_neq; lia|now left].
  - apply andb_false_iff. destruct (N.eqb_spec x1 y1); [right; apply N.eqb_neq; lia|now left].
Qed.

Lemma pair_eqb_sym x y : pair_eqb x y = pair_eqb y x.
Proof. unfold pair_eqb. now rewrite (N.eqb_sym (fst x)), (N.eqb_sym (snd x)). Qed.

Lemma items_ltb_asym : forall a b, items_ltb a b = true -> items_ltb b a = false.
Proof.
  induction a as [|x a IH]; intros [|y b] H; simpl in *; try discriminate; try reflexivity.
  apply orb_prop in H. destruct H as [H|H].
  - destruct (pair_ltb_asym _ _ H) as (H1 & H2 & _). now rewrite H1, H2.
  - apply andb_prop in H. destruct H as [He Hl]. rewrite (pair_eqb_sym y x), He. simpl. rewrite (IH _ Hl), orb_false_r.
    destruct (pair_ltb y x) eqn:E; [|reflexivity]. destruct (pair_ltb_asym _ _ E) as (_ & E2 & _). congruence.
Qed.

Lemma result_ltb_asym a b : result_ltb a b = true -> result_ltb b a = false.
Proof.
  unfold result_ltb. intros H. apply orb_prop in H. destruct H as [H|H].
  - apply Nat.ltb_lt in H. apply orb_false_iff. split; [apply Nat.ltb_ge; lia|].
    apply andb_false_iff. left. apply Nat.eqb_neq. lia.
  - apply andb_prop in H. destruct H as [He Hl]. apply Nat.eqb_eq in He.
    apply orb_false_iff. split; [apply Nat.ltb_ge; lia|]. rewrite (items_ltb_asym _ _ Hl). apply andb_false_r.
Qed.

Lemma insert_result_hd x l a : HdRel result_le a l -> result_le a x -> HdRel result_le a (insert_result x l).
Proof.
  intros Hl Hx. destruct l as [|y r]; simpl; [now constructor|].
  destruct (result_ltb x y); constructor; [exact Hx|]. now inversion Hl.
Qed.

Lemma insert_result_sorted x l : Sorted result_le l -> Sorted result_le (insert_result x l).
Proof.
  induction 1 as [|y r Hs IH Hh]; simpl; [repeat constructor|].
  destruct (result_ltb x y) eqn:E.
  - constructor; [now constructor|]. constructor. unfold result_le. now apply result_ltb_asym.
  - constructor; [exact IH|]. apply insert_result_hd; [exact Hh|exact E].
Qed.

Theorem sort_results_sorted l : Sorted result_le (sort_results l).
Proof. unfold sort_results. induction l as [|x r IH]; simpl; [constructor|now apply insert_result_sorted]. Qed.

Theorem search_results_sorted nm em pattern host mcs : Sorted result_le (fst (fst (search_subgraphs nm em pattern host mcs))).
Proof.
  unfold search_subgraphs.
  destruct (search_loop nm em mcs pattern host (Nat.min (n_nodes pattern) (n_nodes host)) [] 0 0) as [[acc best] tr].
  cbn [fst]. apply sort_results_sorted.
Qed.

(** pattern -> host list of find_common_subgraph (the order in which the code returns it; inverting every mapping for a
    direction request keeps the positions) *)
Theorem fcs_sorted defs prune wc (g1 g2 : graph) mcs :
  Sorted result_le (get_mappings PatternToHost (find_common_subgraph defs prune wc g1 g2 mcs)).
Proof.
  destruct (n_nodes (prune_graph prune wc g1) <=? n_nodes (prune_graph prune wc g2)) eqn:Eo.
  - rewrite (fcs_le defs prune wc g1 g2 mcs Eo). cbn [get_mappings r_maps]. apply search_results_sorted.
  - rewrite (fcs_gt defs prune wc g1 g2 mcs Eo). cbn [get_mappings r_maps]. apply search_results_sorted.
Qed.

Module Example_sorted.
Open Scope N_scope.
Definition nd (i e : N) : N * nattr := (i, (Some e, [Some e])).
Definition ga : graph := LG [nd 1 1; nd 2 1; nd 3 2] [((1,2), [Some 2%Z]); ((2,3), [Some 4%Z])].
Definition gb : graph := LG [nd 10 2; nd 11 1; nd 12 1] [((10,11), [Some 4%Z]); ((11,12), [Some 2%Z])].
Example sorted_nonvacuous :
  get_mappings PatternToHost (find_common_subgraph [9] false 9 ga gb false) =
    [[(1, 12); (2, 11); (3, 10)]; [(1, 11); (2, 12)]; [(1, 12); (2, 11)]; [(1, 12); (3, 10)]; [(2, 11); (3, 10)];
     [(1, 11)]; [(1, 12)]; [(2, 11)]; [(2, 12)]; [(3, 10)]] /\
  Sorted result_le (get_mappings PatternToHost (find_common_subgraph [9] false 9 ga gb false)) /\
  ~ result_le [(1, 11)] [(2, 11); (3, 10)].
Proof.
  split; [vm_compute; reflexivity|]. split; [apply fcs_sorted|]. unfold result_le. vm_compute. discriminate.
Qed.
End Example_sorted.

(* ------------------------------------------------------------------ prune_automorphisms: the host node sets *)
Lemma insertN_perm x l : Permutation.Permutation (insertN x l) (x :: l).
Proof.
  induction l as [|y r IH]; simpl; [reflexivity|]. destruct (N.leb x y); [reflexivity|].
  eapply Permutation.perm_trans; [apply Permutation.perm_skip; exact IH|apply Permutation.perm_swap].
Qed.

Lemma host_set_perm m : Permutation.Permutation (host_set m) (map snd m).
Proof.
  unfold host_set. induction (map snd m) as [|x r IH]; simpl; [constructor|].
  eapply Permutation.perm_trans; [apply insertN_perm|now apply Permutation.perm_skip].
Qed.

Lemma nlist_eqb_eq a b : nlist_eqb a b = true <-> a = b.
Proof.
  revert b. induction a as [|x a IH]; intros [|y b]; simpl; split; try discriminate; try reflexivity.
  - intros H. apply andb_prop in H. destruct H as [H1 H2]. apply N.eqb_eq in H1. apply IH in H2. congruence.
  - intros E. inversion E; subst. rewrite N.eqb_refl. simpl. now apply IH.
Qed.

Lemma dedupe_sets_spec l : (forall x, In x (dedupe_sets l) <-> In x l) /\ NoDup (dedupe_sets l).
Proof.
  induction l as [|x r (IH1 & IH2)]; simpl; [split; [tauto|constructor]|].
  destruct (existsb (nlist_eqb x) r) eqn:E.
  - apply existsb_exists in E. destruct E as (y & Hy & Ey). apply nlist_eqb_eq in Ey. subst y.
    split; [|exact IH2]. intros z. rewrite IH1. split; [auto|intros [<-|H]; auto].
  - split.
    + intros z. simpl. rewrite IH1. tauto.
    + constructor; [|exact IH2]. intros I. apply IH1 in I.
      assert (existsb (nlist_eqb x) r = true) by (apply existsb_exists; exists x; split; [exact I|now apply nlist_eqb_eq]).
      congruence.
Qed.

(** the host node sets that keep a representative under prune_automorphisms: each occurs once, and they are exactly the
    (sorted) host node sets of the mappings the unpruned search returns *)
Theorem host_sets_spec maps :
  NoDup (host_sets maps) /\
  (forall hs, In hs (host_sets maps) <-> exists m, In m maps /\ host_set m = hs) /\
  (forall m, Permutation.Permutation (host_set m) (map snd m)).
Proof.
  unfold host_sets. destruct (dedupe_sets_spec (map host_set maps)) as (H1 & H2).
  split; [exact H2|]. split; [|exact host_set_perm].
  intros hs. rewrite H1, in_map_iff. split; intros (m & A & B); exists m; auto.
Qed.

Module Example_auto.
Import Example_sorted.
Open Scope N_scope.
(** ga = C1-C2=O3 against gb = O10=C11-C12, all sizes: 10 mappings, 7 host node sets keep a representative *)
Example host_sets_nonvacuous :
  length (r_maps (find_common_subgraph [9] false 9 ga gb false)) = 10%nat /\
  host_sets (r_maps (find_common_subgraph [9] false 9 ga gb false)) =
    [[10; 11; 12]; [11; 12]; [10; 12]; [10; 11]; [11]; [12]; [10]] /\
  NoDup (host_sets (r_maps (find_common_subgraph [9] false 9 ga gb false))).
Proof. split; [vm_compute; reflexivity|]. split; [vm_compute; reflexivity|apply host_sets_spec]. Qed.
End Example_auto.
