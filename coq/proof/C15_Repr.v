(** C15 (round 5) — what the three __repr__ methods print (model/C15_Repr.v). *)
From stdpp Require Import gmap strings sets pretty sorting.
From Coq Require Import Ascii.
From SK Require Import lib.Tok model.C15_Model model.C15_Ext proof.C15_Proof model.C16_Model proof.C16_Defs proof.C16_Chars proof.C16_Str
                       model.C15_Repr.
Local Open Scope string_scope.
Local Open Scope list_scope.

(** * 1. repr(RXNSide) is read back by RXNSide.from_str (the parser theorem of C16) *)
Lemma repr_side_parses (sd : side) : side_labels_ok sd = true → from_str (repr_side sd) = Some sd.
Proof.
  intros Hok. unfold from_str, repr_side.
  pose proof (from_chars_side sd [] [] Hok (Forall_nil_2 _) (Forall_nil_2 _)) as Hp.
  by rewrite app_nil_l, app_nil_r in Hp.
Qed.

Lemma filter_none {A} (P : A → Prop) `{∀ x, Decision (P x)} (l : list A) : (∀ z, z ∈ l → ¬ P z) → filter P l = [].
Proof.
  induction l as [|y t IH]; intros Hn; [done|]. rewrite filter_cons, decide_False by (apply Hn; by left).
  apply IH. intros z Hz. apply Hn. by right.
Qed.

(** * 2. a stable insertion sort *)
Section stable.
  Context {A K : Type} `{EqDecision K} (key : A → K) (kle : K → K → bool).
  Context (kle_total : ∀ a b, kle a b = true ∨ kle b a = true).
  Context (kle_trans : ∀ a b c, kle a b = true → kle b c = true → kle a c = true).
  Let le (x y : A) : bool := kle (key x) (key y).
  Let R (x y : A) : Prop := le x y = true.

  Lemma insert_stable_perm x l : insert_stable le x l ≡ₚ x :: l.
  Proof.
    induction l as [|y t IH]; [done|]. cbn. destruct (le y x); [|done].
    rewrite IH. apply perm_swap.
  Qed.
  Lemma sort_stable_perm_acc l : ∀ acc, foldl (λ acc x, insert_stable le x acc) acc l ≡ₚ acc ++ l.
  Proof.
    induction l as [|x l IH]; intros acc; cbn; [by rewrite app_nil_r|].
    rewrite IH, insert_stable_perm. by rewrite <-Permutation_middle.
  Qed.
  Lemma sort_stable_perm l : sort_stable le l ≡ₚ l.
  Proof. unfold sort_stable. by rewrite sort_stable_perm_acc. Qed.

  Lemma insert_stable_sorted x l : StronglySorted R l → StronglySorted R (insert_stable le x l).
  Proof.
    induction 1 as [|y t Hs IH Hall]; cbn; [repeat constructor|].
    destruct (le y x) eqn:E.
    - constructor; [done|]. apply Forall_forall. intros z Hz.
      rewrite insert_stable_perm in Hz. apply elem_of_cons in Hz as [->|Hz]; [done|].
      by apply (proj1 (Forall_forall _ _) Hall).
    - assert (R x y) as Hxy by (destruct (kle_total (key x) (key y)) as [?|Hq]; [done|unfold le in E; congruence]).
      constructor; [by constructor|]. constructor; [done|].
      apply Forall_forall. intros z Hz. unfold R, le. eapply kle_trans; [exact Hxy|].
      by apply (proj1 (Forall_forall _ _) Hall).
  Qed.
  Lemma sort_stable_sorted_acc l : ∀ acc, StronglySorted R acc → StronglySorted R (foldl (λ acc x, insert_stable le x acc) acc l).
  Proof. induction l as [|x l IH]; intros acc Hs; cbn; [done|]. by apply IH, insert_stable_sorted. Qed.
  Lemma sort_stable_sorted l : StronglySorted R (sort_stable le l).
  Proof. apply sort_stable_sorted_acc. constructor. Qed.

  (** stability: elements with the same key keep their relative order *)
  Context (kle_antisym : ∀ a b, kle a b = true → kle b a = true → a = b).
  Lemma kle_refl a : kle a a = true.
  Proof. by destruct (kle_total a a). Qed.

  Lemma insert_stable_class x l k : StronglySorted R l →
    filter (λ z, key z = k) (insert_stable le x l) = filter (λ z, key z = k) l ++ (if decide (key x = k) then [x] else []).
  Proof.
    induction 1 as [|y t Hs IH Hall]; cbn [insert_stable].
    - rewrite filter_cons, !filter_nil. by destruct (decide (key x = k)).
    - destruct (le y x) eqn:E.
      + rewrite !filter_cons, IH. by destruct (decide (key y = k)).
      + assert (∀ z, z ∈ y :: t → key z ≠ key x) as Hne.
        { intros z Hz Heq. assert (R y z) as Hyz.
          { apply elem_of_cons in Hz as [->|Hz]; [apply kle_refl|]. by apply (proj1 (Forall_forall _ _) Hall). }
          unfold R, le in *. rewrite Heq in Hyz. congruence. }
        rewrite (filter_cons _ x). destruct (decide (key x = k)) as [<-|Hk].
        * assert (filter (λ z, key z = key x) (y :: t) = []) as ->; [|done].
          apply filter_none. intros z Hz. by apply Hne.
        * by rewrite app_nil_r.
  Qed.
  Lemma sort_stable_class_acc l k : ∀ acc, StronglySorted R acc →
    filter (λ z, key z = k) (foldl (λ acc x, insert_stable le x acc) acc l) = filter (λ z, key z = k) (acc ++ l).
  Proof.
    induction l as [|x l IH]; intros acc Hs; cbn; [by rewrite app_nil_r|].
    rewrite IH by (by apply insert_stable_sorted). rewrite !filter_app, insert_stable_class by done.
    rewrite filter_cons. rewrite <-(assoc_L (++)). by destruct (decide (key x = k)).
  Qed.
  Lemma sort_stable_class l k : filter (λ z, key z = k) (sort_stable le l) = filter (λ z, key z = k) l.
  Proof. unfold sort_stable. rewrite sort_stable_class_acc by constructor. done. Qed.
End stable.

(** * 3. the order of the reaction lines: (id without digits, number made of the digits) *)
Lemma compare_refl s : String.compare s s = Eq.
Proof. induction s as [|a s IH]; [done|]. cbn. unfold Ascii.compare. by rewrite N.compare_refl. Qed.
Lemma compare_Eq_iff a b : String.compare a b = Eq ↔ a = b.
Proof. split; [apply String.compare_eq_iff|intros ->; apply compare_refl]. Qed.
Lemma compare_Lt_Gt a b : String.compare a b = Lt ↔ String.compare b a = Gt.
Proof. rewrite (String.compare_antisym b a). destruct (String.compare a b); cbn; split; congruence. Qed.

Lemma compare_trans_Lt a : ∀ b c, String.compare a b = Lt → String.compare b c = Lt → String.compare a c = Lt.
Proof.
  induction a as [|ca a IH]; intros [|cb b] [|cc c]; cbn; try done.
  unfold Ascii.compare.
  destruct (N.compare_spec (N_of_ascii ca) (N_of_ascii cb)) as [E1|E1|E1],
           (N.compare_spec (N_of_ascii cb) (N_of_ascii cc)) as [E2|E2|E2],
           (N.compare_spec (N_of_ascii ca) (N_of_ascii cc)) as [E3|E3|E3];
    try done; try lia.
  apply IH.
Qed.

Lemma ekey_le_total a b : ekey_le a b = true ∨ ekey_le b a = true.
Proof.
  unfold ekey_le. destruct (String.compare a.1 b.1) eqn:E.
  - apply compare_Eq_iff in E. rewrite E, compare_refl. destruct (N.leb_spec a.2 b.2); [by left|right]. apply N.leb_le. lia.
  - by left.
  - right. apply compare_Lt_Gt in E. by rewrite E.
Qed.
Lemma ekey_le_trans a b c : ekey_le a b = true → ekey_le b c = true → ekey_le a c = true.
Proof.
  unfold ekey_le. destruct (String.compare a.1 b.1) eqn:E1; [|
    |done]; destruct (String.compare b.1 c.1) eqn:E2; try done.
  - apply compare_Eq_iff in E1, E2. rewrite E1, E2, compare_refl. intros ?%N.leb_le ?%N.leb_le. apply N.leb_le. lia.
  - apply compare_Eq_iff in E1. by rewrite E1, E2.
  - apply compare_Eq_iff in E2. by rewrite <-E2, E1.
  - by rewrite (compare_trans_Lt _ _ _ E1 E2).
Qed.
Lemma ekey_le_antisym a b : ekey_le a b = true → ekey_le b a = true → a = b.
Proof.
  unfold ekey_le. destruct (String.compare a.1 b.1) eqn:E1.
  - apply compare_Eq_iff in E1. rewrite E1, compare_refl. intros ?%N.leb_le ?%N.leb_le.
    destruct a, b; cbn in *. f_equal; [done|lia].
  - apply compare_Lt_Gt in E1. by rewrite E1.
  - done.
Qed.

(** the reaction lines of repr(H): every stored reaction exactly once, ordered by the key, ties in insertion order *)
Lemma sorted_edges_spec (s : net) :
  sorted_edges s ≡ₚ edge_seq s ∧
  StronglySorted (λ p q, ekey_le (edge_key p.1) (edge_key q.1) = true) (sorted_edges s) ∧
  ∀ k, filter (λ p, edge_key p.1 = k) (sorted_edges s) = filter (λ p, edge_key p.1 = k) (edge_seq s).
Proof.
  unfold sorted_edges. split; [|split].
  - apply (sort_stable_perm (λ p : string * rxn, edge_key p.1) ekey_le).
  - apply (sort_stable_sorted (λ p : string * rxn, edge_key p.1) ekey_le ekey_le_total ekey_le_trans).
  - intros k. apply (sort_stable_class (λ p : string * rxn, edge_key p.1) ekey_le ekey_le_total ekey_le_trans).
Qed.

Lemma sorted_edges_stored (s : net) : Inv s →
  (∀ e rx, (e, rx) ∈ sorted_edges s ↔ edges s !! e = Some rx) ∧ NoDup (sorted_edges s).*1.
Proof.
  intros HI. destruct (sorted_edges_spec s) as (Hp & _ & _). split.
  - intros e rx. rewrite Hp, elem_of_edge_seq, (inv_order _ HI). split; [by intros [_ ?]|]. split; [eauto|done].
  - rewrite Hp. rewrite edge_seq_fst; [apply HI|]. intros ?. apply HI.
Qed.

(** the text: header, one line per reaction, the species line, the label line exactly when labels exist *)
Lemma repr_lines_shape (s : net) :
  ∃ tail, repr_lines s = "CRNHyperGraph:" :: ((λ p, "  " +:+ repr_edge p.1 p.2) <$> sorted_edges s) ++ tail ∧
          length tail = (if decide (mol s = ∅) then 1 else 2)%nat.
Proof.
  unfold repr_lines. destruct (decide (mol s = ∅)); eexists; (split; [cbn; reflexivity|]); by rewrite ?app_length.
Qed.

(** * non-vacuity: ids "r_1", "r_10", "r_2", "r1_" (same key as r_1), "x", "" and labels *)
Definition exr_ops : list op2 :=
  [ OBase (OAdd 0 [("B", 2%Z); ("A", 1%Z)] [("C", 1%Z)] "r" None);
    OBase (OAdd 0 [("C", 12%Z)] [] "r" (Some "r_10"));
    OBase (OAdd 0 [("A", 1%Z)] [("A", 1%Z); ("D", 3%Z)] "r" (Some "r_2"));
    OBase (OAdd 0 [("D", 1%Z)] [("E", 1%Z)] "q" (Some "r1_"));
    OBase (OAdd 0 [("E", 1%Z)] [("A", 2%Z)] "q" (Some "x"));
    OBase (OAssignMol 0 "A" """CCO""") ].
Definition exr_net : net := getn (nets (fold_left (λ w o, (step2 w o).1.1) exr_ops (init_world2 1 0))) 0.
Example ex_repr_nonvacuous :
  (sorted_edges exr_net).*1 = ["r_1"; "r1_"; "r_2"; "r_10"; "x"] ∧
  (edge_seq exr_net).*1 = ["r_1"; "r_10"; "r_2"; "r1_"; "x"] ∧
  edge_key "r_1" = edge_key "r1_" ∧
  repr_edge "r_1" (default (Rxn "" ∅ ∅) (edges exr_net !! "r_1")) = "r_1: A + 2B >> C  (rule=r)" ∧
  length (repr_lines exr_net) = 8%nat ∧
  side_labels_ok (r_lhs (default (Rxn "" ∅ ∅) (edges exr_net !! "r_1"))) = true ∧
  bool_decide (from_str (repr_side (r_lhs (default (Rxn "" ∅ ∅) (edges exr_net !! "r_1"))))
               = Some (r_lhs (default (Rxn "" ∅ ∅) (edges exr_net !! "r_1")))) = true.
Proof. split_and!; by vm_compute. Qed.
