(** C20 — the obligations of props/C20.v with their proofs (generated together with props/C20.v so that
    the statements are identical). *)
From Coq Require Import ZArith NArith List Lia.
Import ListNotations.
From SK Require Import model.C20_Model proof.C20_Spec proof.C20_Siphon proof.C20_Petri proof.C20_Bfs proof.C20_Build.
Local Open Scope nat_scope.

Lemma main_siphon_pred :
  forall (n : nat) (rs : list rxn) (X : list nat),
  wf_net n rs -> in_range n X ->
  let G := bipartite_of n rs in
  is_siphon_indices G (species_nodes_sorted G) (g_reactions G) X = true <-> siphon rs X.
Proof.
  intros n rs X Hwf HX. exact (siphon_pred n rs Hwf X HX).
Qed.

Lemma main_trap_pred :
  forall (n : nat) (rs : list rxn) (X : list nat),
  wf_net n rs -> in_range n X ->
  let G := bipartite_of n rs in
  is_trap_indices G (species_nodes_sorted G) (g_reactions G) X = true <-> trap rs X.
Proof.
  intros n rs X Hwf HX. exact (trap_pred n rs Hwf X HX).
Qed.

Lemma main_minimal_sets :
  forall (cands : list (list nat)),
  (forall X, In X (minimal_sets cands) ->
     In X cands /\ forall T, In T cands -> incl T X -> incl X T) /\
  (forall X, In X cands -> (forall T, In T cands -> incl T X -> incl X T) ->
     exists X', In X' (minimal_sets cands) /\ same_set X' X) /\
  antichain (minimal_sets cands).
Proof.
  intros cands. split; [|split].
  - apply minimal_sets_sound.
  - apply minimal_sets_complete.
  - apply minimal_sets_antichain.
Qed.

Lemma main_find_siphons :
  forall (n : nat) (rs : list rxn) (max_size : option nat),
  wf_net n rs -> n <> 0 -> rs <> [] ->
  exists out, find_siphons (bipartite_of n rs) max_size = Some out /\
    (forall X, In X out ->
       in_range n X /\ length X <= match max_size with None => n | Some k => k end /\
       minimal_among (fun Y => in_range n Y /\ siphon rs Y) X) /\
    (forall Y, NoDup Y -> length Y <= match max_size with None => n | Some k => k end ->
       minimal_among (fun Y => in_range n Y /\ siphon rs Y) Y ->
       exists X, In X out /\ same_set X Y) /\
    antichain out.
Proof.
  intros n rs max_size Hwf Hn Hrs. exact (find_siphons_spec n rs max_size Hwf Hn Hrs).
Qed.

Lemma main_find_traps :
  forall (n : nat) (rs : list rxn) (max_size : option nat),
  wf_net n rs -> n <> 0 -> rs <> [] ->
  exists out, find_traps (bipartite_of n rs) max_size = Some out /\
    (forall X, In X out ->
       in_range n X /\ length X <= match max_size with None => n | Some k => k end /\
       minimal_among (fun Y => in_range n Y /\ trap rs Y) X) /\
    (forall Y, NoDup Y -> length Y <= match max_size with None => n | Some k => k end ->
       minimal_among (fun Y => in_range n Y /\ trap rs Y) Y ->
       exists X, In X out /\ same_set X Y) /\
    antichain out.
Proof.
  intros n rs max_size Hwf Hn Hrs. exact (find_traps_spec n rs max_size Hwf Hn Hrs).
Qed.

Lemma main_fire :
  forall (t : transition) (m : dict),
  (enabled_t t m = true <-> forall p w, In (p, w) (t_pre t) -> (w <= get m p)%Z) /\
  (forall p, get (fire_t t m) p = (get m p - weight (t_pre t) p + weight (t_post t) p)%Z) /\
  (forall net i p, nth_error (pn_places net) i = Some p ->
                   nth_error (marking_to_tuple net (fire_t t m)) i = Some (get (fire_t t m) p)).
Proof.
  intros t m. split; [apply enabled_t_spec|split; [apply fire_t_spec|]].
  intros net i p. apply marking_to_tuple_nth.
Qed.

Lemma main_bfs_fuel_enough :
  forall net target max_states max_depth q visited nen nfire,
  bo_verdict (bfs (S (N.to_nat max_states)) net target max_states max_depth q visited 0 nen nfire)
  <> OutOfFuel.
Proof.
  intros. apply bfs_fuel; simpl; lia.
Qed.

Lemma main_realizable_sound :
  forall (vertices : list N) (edges : list edge) (flow : list Z) (max_states max_depth : N) (sq : list N),
  bo_verdict (is_realizable (build_petri_net_from_flow vertices edges flow) max_states max_depth) = Found sq ->
  realizes edges flow sq /\
  ((forall e, In e edges -> NoDup (map fst (fst e))) -> Forall nonneg (markings_along edges zero sq)).
Proof.
  intros vertices edges flow ms md sq H.
  pose proof (is_realizable_sound vertices edges flow ms md sq H) as Hr.
  split; auto. intros Hwf. destruct Hr as [Ho _].
  eapply ordering_nonneg; eauto. intros s. unfold zero. lia.
Qed.

Lemma main_realizable_complete_partial :
  forall (vertices : list N) (edges : list edge) (flow : list Z) (max_states max_depth : N) (R : list tuple),
  let b := build_petri_net_from_flow vertices edges flow in
  let net := b_net b in
  let start := marking_to_tuple net (b_M0 b) in
  let target := marking_to_tuple net (b_MT b) in
  (exists sq, path net start sq target) ->
  (forall s m, path net start s m -> In m R) ->
  (N.of_nat (length R) <= max_states)%N ->
  (forall s m, path net start s m -> (N.of_nat (length s) <= max_depth)%N) ->
  exists sq', bo_verdict (is_realizable b max_states max_depth) = Found sq'.
Proof.
  intros vertices edges flow ms md R. exact (is_realizable_complete vertices edges flow ms md R).
Qed.

