(** C09 — BalanceReactionCheck on records (model/C09_Records.v). *)
From Coq Require Import List NArith ZArith Bool Permutation.
From SK Require Import lib.StrJoin model.C09_Strings model.C09_Records.
From SK Require model.C08_Model proof.C08_Value.
Import ListNotations.

Lemma seqb_eq a b : seqb a b = true <-> a = b.
Proof. apply C08_Value.str_eqb_spec. Qed.
Lemma seqb_refl a : seqb a a = true.
Proof. apply seqb_eq. reflexivity. Qed.
Lemma seqb_neq a b : a <> b -> seqb a b = false.
Proof. intros H. destruct (seqb a b) eqn:E; [apply seqb_eq in E; contradiction|reflexivity]. Qed.

Lemma rget_rset_same k v r : rget k (rset k v r) = Some v.
Proof.
  induction r as [|[k' v'] r IH]; simpl; [rewrite seqb_refl; reflexivity|].
  destruct (seqb k k') eqn:E; simpl; [rewrite seqb_refl; reflexivity|rewrite E; exact IH].
Qed.
Lemma rget_rset_other k k' v r : k' <> k -> rget k' (rset k v r) = rget k' r.
Proof.
  intros Hne. induction r as [|[k2 v2] r IH]; simpl; [rewrite (seqb_neq _ _ Hne); reflexivity|].
  destruct (seqb k k2) eqn:E; simpl.
  - apply seqb_eq in E. subst k2. rewrite (seqb_neq _ _ Hne). reflexivity.
  - destruct (seqb k' k2); [reflexivity|exact IH].
Qed.
Lemma rset_keys k v r : map fst (rset k v r) = map fst r \/ (rget k r = None /\ map fst (rset k v r) = map fst r ++ [k]).
Proof.
  induction r as [|[k' v'] r IH]; simpl; [right; split; reflexivity|].
  destruct (seqb k k') eqn:E; simpl.
  - left. apply seqb_eq in E. subst. reflexivity.
  - destruct IH as [IH|[N0 IH]]; [left|right; split; [exact N0|]]; rewrite IH; reflexivity.
Qed.

(** dict_balance_check: the value stored under "balanced" is the verdict of THIS record's reaction - also when the input
    already carried a "balanced" key (repair 7b06bf6) -, every other key keeps its value, the key order is kept and
    "balanced" is appended only when it was absent *)
Theorem dict_balance_check_spec formula r col r' : dict_balance_check formula r col = Some r' ->
  exists s b, rget col r = Some (VS s) /\ rsmi_balance_check formula s = Some b /\
    rget BALANCED r' = Some (VB b) /\ (forall k, k <> BALANCED -> rget k r' = rget k r) /\
    (map fst r' = map fst r \/ (rget BALANCED r = None /\ map fst r' = map fst r ++ [BALANCED])).
Proof.
  unfold dict_balance_check. destruct (rget col r) as [[s| |]|] eqn:E; try discriminate.
  destruct (rsmi_balance_check formula s) as [b|] eqn:V; [|discriminate]. intros T. injection T as <-.
  exists s, b. split; [reflexivity|]. split; [exact V|]. split; [apply rget_rset_same|]. split.
  - intros k Hk. apply rget_rset_other. exact Hk.
  - apply rset_keys.
Qed.

Lemma all_some_spec {A} (l : list (option A)) res : all_some l = Some res -> l = map Some res.
Proof.
  revert res. induction l as [|[x|] l IH]; intros res E; simpl in E; [injection E as <-; reflexivity| |discriminate].
  destruct (all_some l) as [xs|]; [|discriminate]. injection E as <-. simpl. f_equal. apply IH. reflexivity.
Qed.

(** dicts_balance_check: every parsed record gives exactly one result, in input order; the two lists are a loss-free split and
    a result is in the first list exactly when the verdict of its reaction is True *)
Theorem dicts_balance_check_spec formula inp col A B : dicts_balance_check formula inp col = Some (A, B) ->
  exists rs res, parse_input inp col = Some rs /\
    Forall2 (fun r r' => dict_balance_check formula r col = Some r') rs res /\
    A = filter is_balanced res /\ B = filter (fun r => negb (is_balanced r)) res /\ Permutation (A ++ B) res /\
    (forall r r', In r' res -> dict_balance_check formula r col = Some r' ->
       exists s, rget col r = Some (VS s) /\ rsmi_balance_check formula s = Some (is_balanced r')).
Proof.
  unfold dicts_balance_check. destruct (parse_input inp col) as [rs|]; [|discriminate].
  destruct (all_some (map (fun r => dict_balance_check formula r col) rs)) as [res|] eqn:E; [|discriminate].
  intros T. injection T as <- <-. exists rs, res. split; [reflexivity|].
  apply all_some_spec in E. split; [|split; [reflexivity|split; [reflexivity|split]]].
  - revert res E. induction rs as [|r rs IH]; intros [|r' res] E; simpl in E; try discriminate; constructor.
    + injection E as E1 E2. exact E1.
    + apply IH. injection E as E1 E2. exact E2.
  - clear E. induction res as [|x res IH]; simpl; [constructor|]. destruct (is_balanced x); simpl.
    + constructor. exact IH.
    + eapply perm_trans; [apply Permutation_sym, Permutation_middle|]. constructor. exact IH.
  - intros r r' _ D. destruct (dict_balance_check_spec formula r col r' D) as (s & b & E1 & E2 & E3 & _).
    exists s. split; [exact E1|]. unfold is_balanced. rewrite E3. destruct b; exact E2.
Qed.

(** parse_input: a string is wrapped, in a list every string is wrapped and every dict that has the column is kept, in order;
    nothing else survives *)
Theorem parse_input_spec col :
  (forall s, parse_input (InStr s) col = Some [[(col, VS s)]]) /\ parse_input InOther col = None /\
  (forall l, exists rs, parse_input (InList l) col = Some rs /\
     forall r, In r rs <-> exists it, In it l /\ ((exists s, it = IStr s /\ r = [(col, VS s)]) \/ (it = IDict r /\ rget col r <> None))).
Proof.
  split; [reflexivity|]. split; [reflexivity|]. intros l. eexists. split; [reflexivity|]. intros r. rewrite in_flat_map. split.
  - intros (it & I & J). exists it. split; [exact I|]. destruct it as [s|r0|]; simpl in J.
    + destruct J as [<-|[]]. left. exists s. split; reflexivity.
    + destruct (rget col r0) eqn:E; simpl in J; [|contradiction]. destruct J as [<-|[]]. right. split; [reflexivity|congruence].
    + contradiction.
  - intros (it & I & [(s & -> & ->)|(-> & Hn)]); eexists; (split; [exact I|]); simpl; [left; reflexivity|].
    destruct (rget col r); [left; reflexivity|congruence].
Qed.

(** non-vacuity: a record that already says "balanced": "old" gets the computed verdict at the same position *)
Example ex_dict_balance :
  dict_balance_check (fun x => Some x) [([105; 100]%N, VO 7); (BALANCED, VS [111]%N); ([114]%N, VS [67; 62; 62; 67]%N)] [114]%N
  = Some [([105; 100]%N, VO 7); (BALANCED, VB true); ([114]%N, VS [67; 62; 62; 67]%N)] /\
  dicts_balance_check (fun x => Some x) (InList [IStr [67; 62; 62; 67]%N; IOther; IDict [([120]%N, VO 1)]; IStr [67; 62; 62; 79]%N]) [114]%N
  = Some ([[([114]%N, VS [67; 62; 62; 67]%N); (BALANCED, VB true)]], [[([114]%N, VS [67; 62; 62; 79]%N); (BALANCED, VB false)]]).
Proof. vm_compute. split; reflexivity. Qed.
