(** C12 -- what wildcard pruning (MCSMatcher._prune_graph) means for the theorems: a common induced mapping of the
    PRUNED graphs is exactly a common induced mapping of the ORIGINAL graphs that touches no wildcard atom.
    Also: two results that satisfy the maximum-mode specification for the same pair of graphs agree (used for the
    orientation swap with graphs of equal size). *)
From Coq Require Import List NArith ZArith Bool Arith Lia Permutation.
From SK Require Import lib.LGraph lib.Mono model.C12_Model proof.C12_Search proof.C12_Proof.
Import ListNotations.

Definition kept (wc : N) (g : graph) : list N :=
  map fst (filter (fun p => negb (is_wc wc (snd p))) (gnodes g)).

(** is node [p] of [g] a wildcard atom (its element attribute equals the wildcard element) *)
Definition wc_node (wc : N) (g : graph) (p : N) : bool :=
  match label g p with Some a => is_wc wc a | None => false end.

Lemma prune_true wc g : prune_graph true wc g = induced_sub g (kept wc g).
Proof. reflexivity. Qed.

Lemma assoc_filter_keep {V} (keep : list N) (l : list (N * V)) k :
  assoc k (filter (fun p => mem (fst p) keep) l) = if mem k keep then assoc k l else None.
Proof.
  induction l as [|[k' v] r IH]; simpl; [destruct (mem k keep); reflexivity|].
  destruct (mem k' keep) eqn:Ek'; simpl.
  - destruct (N.eqb_spec k k') as [->|Hne]; [now rewrite Ek'|exact IH].
  - destruct (N.eqb_spec k k') as [->|Hne]; [now rewrite IH, Ek'|exact IH].
Qed.

Lemma find_edge_filter_keep {B} (keep : list N) (es : list (N * N * B)) u v :
  mem u keep = true -> mem v keep = true ->
  find_edge u v (filter (fun e => let '(a, b, _) := e in mem a keep && mem b keep) es) = find_edge u v es.
Proof.
  intros Hu Hv. induction es as [|[[a b] x] r IH]; simpl; [reflexivity|].
  destruct ((N.eqb a u && N.eqb b v) || (N.eqb a v && N.eqb b u)) eqn:Em.
  - assert (Hk : mem a keep && mem b keep = true).
    { apply orb_prop in Em. destruct Em as [Em|Em]; apply andb_prop in Em; destruct Em as [E1 E2];
        apply N.eqb_eq in E1, E2; subst; now rewrite Hu, Hv. }
    rewrite Hk. simpl. now rewrite Em.
  - destruct (mem a keep && mem b keep); simpl; [rewrite Em|]; exact IH.
Qed.

Section Prune.
Variable wc : N.
Variable g : graph.
Hypothesis g_nodup : NoDup (node_ids g).

Lemma kept_spec p : In p (kept wc g) <-> In p (node_ids g) /\ wc_node wc g p = false.
Proof.
  unfold kept, wc_node, label. rewrite in_map_iff. split.
  - intros ([p' a] & <- & I). apply filter_In in I. destruct I as (I & Hw). simpl in *.
    split; [change p' with (fst (p', a)); now apply in_map|].
    rewrite (assoc_nodup_in _ _ _ g_nodup I). now apply negb_true_iff.
  - intros (I & Hw). apply in_map_iff in I. destruct I as ([p' a] & <- & I). simpl in *.
    rewrite (assoc_nodup_in _ _ _ g_nodup I) in Hw.
    exists (p', a). split; [reflexivity|]. apply filter_In. split; [exact I|]. simpl. now rewrite Hw.
Qed.

Lemma pruned_nodes p : In p (node_ids (prune_graph true wc g)) <-> In p (kept wc g).
Proof.
  rewrite prune_true. unfold node_ids at 1, induced_sub. simpl. rewrite in_map_iff. split.
  - intros ([p' a] & <- & I). apply filter_In in I. simpl in I. now apply mem_spec.
  - intros I. pose proof I as I'. apply kept_spec in I'. destruct I' as (I' & _).
    apply in_map_iff in I'. destruct I' as ([p' a] & <- & Ia). exists (p', a). split; [reflexivity|].
    apply filter_In. split; [exact Ia|]. simpl. now apply mem_spec.
Qed.

Lemma pruned_label p : In p (kept wc g) -> label (prune_graph true wc g) p = label g p.
Proof.
  intros I. rewrite prune_true. unfold label, induced_sub. simpl. rewrite assoc_filter_keep.
  apply mem_spec in I. now rewrite I.
Qed.

Lemma pruned_adj p q : In p (kept wc g) -> In q (kept wc g) -> LGraph.adj (prune_graph true wc g) p q = LGraph.adj g p q.
Proof.
  intros Ip Iq. rewrite prune_true. unfold LGraph.adj, induced_sub. simpl.
  apply find_edge_filter_keep; now apply mem_spec.
Qed.

End Prune.

Theorem prune_ci_iff nm em wc (g1 g2 : graph) m : NoDup (node_ids g1) -> NoDup (node_ids g2) ->
  (common_induced nm em (prune_graph true wc g1) (prune_graph true wc g2) m <->
   common_induced nm em g1 g2 m /\
   forall p h, In (p, h) m -> wc_node wc g1 p = false /\ wc_node wc g2 h = false).
Proof.
  intros N1 N2. split.
  - intros (H1 & H2 & H3 & H4).
    assert (K : forall p h, In (p, h) m -> In p (kept wc g1) /\ In h (kept wc g2)).
    { intros p h I. destruct (H3 p h I) as (Hp & Hh & _). split; now apply pruned_nodes. }
    split; [split; [exact H1|split; [exact H2|split]]|].
    + intros p h I. destruct (K p h I) as (Kp & Kh). destruct (H3 p h I) as (_ & _ & Hn).
      rewrite (pruned_label wc g1 p Kp), (pruned_label wc g2 h Kh) in Hn.
      split; [now apply (kept_spec wc g1 N1)|]. split; [now apply (kept_spec wc g2 N2)|exact Hn].
    + intros p h p' h' I I' Hp. destruct (K p h I) as (Kp & Kh). destruct (K p' h' I') as (Kp' & Kh').
      specialize (H4 p h p' h' I I' Hp).
      now rewrite (pruned_adj wc g1 p p' Kp Kp'), (pruned_adj wc g2 h h' Kh Kh') in H4.
    + intros p h I. destruct (K p h I) as (Kp & Kh).
      split; [now apply (kept_spec wc g1 N1)|now apply (kept_spec wc g2 N2)].
  - intros ((H1 & H2 & H3 & H4) & Hw).
    assert (K : forall p h, In (p, h) m -> In p (kept wc g1) /\ In h (kept wc g2)).
    { intros p h I. destruct (H3 p h I) as (Hp & Hh & _). destruct (Hw p h I) as (W1 & W2).
      split; [apply (kept_spec wc g1 N1)|apply (kept_spec wc g2 N2)]; auto. }
    split; [exact H1|split; [exact H2|split]].
    + intros p h I. destruct (K p h I) as (Kp & Kh). destruct (H3 p h I) as (_ & _ & Hn).
      rewrite (pruned_label wc g1 p Kp), (pruned_label wc g2 h Kh).
      split; [now apply pruned_nodes|]. split; [now apply pruned_nodes|exact Hn].
    + intros p h p' h' I I' Hp. destruct (K p h I) as (Kp & Kh). destruct (K p' h' I') as (Kp' & Kh').
      rewrite (pruned_adj wc g1 p p' Kp Kp'), (pruned_adj wc g2 h h' Kh Kh'). now apply H4.
Qed.

(** consequence for the matcher with prune_wc on: every returned G1->G2 mapping is a common induced mapping of the
    ORIGINAL graphs and maps no wildcard atom *)
Corollary fcs_valid_original defs wc (g1 g2 : graph) mcs m : NoDup (node_ids g1) -> NoDup (node_ids g2) ->
  In m (get_mappings G1toG2 (find_common_subgraph defs true wc g1 g2 mcs)) ->
  common_induced (node_match defs) edge_match g1 g2 m /\
  forall p h, In (p, h) m -> wc_node wc g1 p = false /\ wc_node wc g2 h = false.
Proof.
  intros N1 N2 I. apply (prune_ci_iff _ _ wc g1 g2 m N1 N2).
  exact (proj1 (proj1 (fcs_valid defs true wc g1 g2 N1 N2 mcs m) I)).
Qed.

(* ------------------------------------------------------------------ two maximum results for the same pair agree *)
Lemma MaxSpec_unique nm em ga gb maps last maps' last' :
  MaxSpec nm em ga gb maps last -> MaxSpec nm em ga gb maps' last' ->
  last = last' /\ forall m, In m maps -> exists m', In m' maps' /\ Permutation m m'.
Proof.
  intros (S1 & S2 & S3 & S4) (T1 & T2 & T3 & T4).
  assert (Hle : forall (mp : list mapping) l l', (forall m, In m mp -> common_induced nm em ga gb m /\ length m = l) ->
                 (mp = [] <-> l = 0) -> (forall m, common_induced nm em ga gb m -> length m <= l') -> l <= l').
  { intros mp l l' A1 A4 B2. destruct mp as [|m0 r].
    - assert (l = 0) by (now apply A4). lia.
    - destruct (A1 m0 (or_introl eq_refl)) as (Hc & <-). now apply B2. }
  assert (E : last = last') by (apply Nat.le_antisymm; [eapply (Hle maps last last'); eauto|eapply (Hle maps' last' last); eauto]).
  split; [exact E|]. subst last'. intros m I. destruct (S1 m I) as (Hc & Hl).
  apply T3; [exact Hc|exact Hl|]. destruct last; [|lia]. assert (maps = []) by (now apply S4). subst. destruct I.
Qed.

(** orientation in general (also for graphs of equal size, where the two calls use different patterns): exchanging
    the arguments gives the same size and, up to the order of pairs inside a mapping, the same G1->G2 answers *)
Theorem orientation_general defs prune wc (g1 g2 : graph) : NoDup (node_ids g1) -> NoDup (node_ids g2) ->
  r_last (find_common_subgraph defs prune wc g1 g2 true) = r_last (find_common_subgraph defs prune wc g2 g1 true) /\
  forall m, In m (get_mappings G1toG2 (find_common_subgraph defs prune wc g1 g2 true)) ->
            exists m', In m' (get_mappings G2toG1 (find_common_subgraph defs prune wc g2 g1 true)) /\ Permutation m m'.
Proof.
  intros N1 N2.
  exact (MaxSpec_unique _ _ _ _ _ _ _ _ (proj1 (fcs_maximum defs prune wc g1 g2 N1 N2))
                        (proj2 (fcs_maximum defs prune wc g2 g1 N2 N1))).
Qed.

(* ------------------------------------------------------------------ non-vacuity *)
Module Example_prune.
Open Scope N_scope.
Definition nd (i e : N) : N * nattr := (i, (Some e, [Some e])).
(** g1: C1-*2-O3 (wildcard element 9 in the middle), g2: C5-*6 *)
Definition g1 : graph := LG [nd 1 1; nd 2 9; nd 3 2] [((1,2), [Some 2%Z]); ((2,3), [Some 2%Z])].
Definition g2 : graph := LG [nd 5 1; nd 6 9] [((5,6), [Some 2%Z])].
Lemma g1_nodup : NoDup (node_ids g1). Proof. vm_compute. repeat constructor; simpl; intuition discriminate. Qed.
Lemma g2_nodup : NoDup (node_ids g2). Proof. vm_compute. repeat constructor; simpl; intuition discriminate. Qed.

Example prune_nonvacuous :
  get_mappings G1toG2 (find_common_subgraph [9] true 9 g1 g2 true) = [[(1, 5)]] /\
  get_mappings G1toG2 (find_common_subgraph [9] false 9 g1 g2 true) = [[(1, 5); (2, 6)]] /\
  wc_node 9 g1 2 = true /\
  (common_induced (node_match [9]) edge_match g1 g2 [(1, 5)] /\
   forall p h, In (p, h) [(1, 5)] -> wc_node 9 g1 p = false /\ wc_node 9 g2 h = false).
Proof.
  split; [vm_compute; reflexivity|]. split; [vm_compute; reflexivity|]. split; [reflexivity|].
  apply (fcs_valid_original [9] 9 g1 g2 true [(1, 5)] g1_nodup g2_nodup). vm_compute. now left.
Qed.

(** equal sizes: the two calls search with different patterns and still agree *)
Definition h1 : graph := LG [nd 1 1; nd 2 2] [((1,2), [Some 4%Z])].
Definition h2 : graph := LG [nd 8 2; nd 9 1] [((8,9), [Some 4%Z])].
Example orientation_general_nonvacuous :
  get_mappings G1toG2 (find_common_subgraph [9] false 9 h1 h2 true) = [[(1, 9); (2, 8)]] /\
  get_mappings G2toG1 (find_common_subgraph [9] false 9 h2 h1 true) = [[(2, 8); (1, 9)]] /\
  r_pattern_is_g1 (find_common_subgraph [9] false 9 h1 h2 true) = true /\
  r_pattern_is_g1 (find_common_subgraph [9] false 9 h2 h1 true) = true.
Proof. repeat split; vm_compute; reflexivity. Qed.
End Example_prune.

(* ------------------------------------------------------------------ what the matchers compare (one configured attribute each) *)
Lemma matchers_single (d : N) (e e' : option N) (a b : option N) (x y : option Z) :
  (node_match [d] (Some (e, [a])) (Some (e', [b])) = true <->
     match a with Some v => v | None => d end = match b with Some v => v | None => d end) /\
  (edge_match [x] [y] = true <-> x = y) /\
  (edge_match_mtg [x] [y] = true <-> x = y).
Proof.
  split; [|split].
  - simpl. rewrite andb_true_r. apply N.eqb_eq.
  - destruct x, y; simpl; try rewrite andb_true_r; try rewrite Z.eqb_eq; split; intros H; try congruence; try discriminate; auto.
  - destruct x, y; simpl; try rewrite Z.eqb_eq; split; intros H; try congruence; try discriminate; auto.
Qed.
