(** C10 — proofs, part 22: reindex=True together with explicit_hydrogen=True (graphs without implicit hydrogens): the last
    cell of the option matrix of its_to_gml for reaction centres. *)
From Coq Require Import String List NArith ZArith Bool Lia.
From SK Require Import lib.Tok lib.LGraph lib.StrJoin model.C10_Model proof.C10_Proof proof.C10_Views proof.C10_Build
  proof.C10_Copy proof.C10_GmlRead proof.C10_GmlWrite proof.C10_Relabel proof.C10_Reindex proof.C10_Hydrogen proof.C10_HRound
  proof.C10_GmlEH.
Import ListNotations.
Local Open Scope Z_scope.

Lemma its_to_gml_rec_reindex_eh c : IOK c ->
  its_to_gml c false true true =
  let m := enum_from 1%N (node_ids c) in
  let sL := nx_relabel m (side_graph c false) in
  let sR := nx_relabel m (side_graph c true) in
  let K := nx_relabel m (h_to_explicit c None false) in
  let ch := find_changed sL sR in
  [(SLeft, side_entries sL ch); (SContext, context_entries K ch true); (SRight, side_entries sR ch)].
Proof.
  intros Hok. unfold its_to_gml. rewrite its_decompose_sides by exact Hok. unfold nx_to_gml.
  rewrite (side_graph_node_ids c false Hok). reflexivity.
Qed.

Theorem gml_roundtrip_reindex_eh_iok c : IOK c -> (forall n a, label c n = Some a -> cval a <= 0) ->
  let ids := node_ids c in
  let f := mapget (enum_from 1%N ids) in
  let I' := gml_to_its (its_to_gml c false true true) in
  (forall k, has_node I' k = true <-> exists n, In n ids /\ k = f n) /\
  (forall n a, label c n = Some a ->
     label I' (f n) = Some (gml_node (f n) (tg_el (tG_of a)) (tg_ch (tG_of a)) (tg_ch (tH_of a)))) /\
  (forall u v, In u ids -> In v ids -> adj I' (f u) (f v) = adj c u v).
Proof.
  intros Hok Hc ids f I'. pose proof (iok_gwf c Hok) as Wc.
  destruct (h_explicit_nohc c Wc Hc) as (Kids & KL & KA & KW). cbv zeta in Kids, KL, KA, KW.
  set (K1 := h_to_explicit c None false) in *.
  assert (forall a b, In a ids -> In b ids -> f a = f b -> a = b) as finj by (apply (f_inj c Hok)).
  pose proof (gwf_nd c Wc) as ids_nd.
  assert (forall n, mapget (enum_from 1%N ids) n = f n) as Hm by reflexivity.
  (* the relabelled context has the lookups of the relabelled ITS *)
  assert (gwf (RL c K1)) as WK by (apply (RL_gwf c Hok K1 KW Kids)).
  assert (forall k, label (RL c K1) k = label (RL c c) k) as LK.
  { intros k. rewrite (RL_label c Hok K1 k KW Kids), (RL_label c Hok c k Wc eq_refl).
    destruct (finv _ _ k); [apply KL|reflexivity]. }
  assert (forall k l, adj (RL c K1) k l = adj (RL c c) k l) as AK.
  { intros k l. rewrite (RL_adj c Hok K1 k l KW Kids), (RL_adj c Hok c k l Wc eq_refl).
    destruct (finv _ _ k); [|reflexivity]. destruct (finv _ _ l); [apply KA|reflexivity]. }
  unfold I', gml_to_its. rewrite its_to_gml_rec_reindex_eh by exact Hok. cbv zeta. fold K1.
  destruct (gml_pipeline_ctx (RL c c) (RL c (side_graph c false)) (RL c (side_graph c true)) (context_entries (RL c K1) (find_changed (RL c (side_graph c false)) (RL c (side_graph c true))) true)
              (RL_IOK c Hok) (RL_side c Hok false) (RL_side c Hok true)) as (P1 & P2 & P3).
  { apply ctx_like_eh; [apply (RL_IOK c Hok)|exact WK|exact LK|exact AK]. }
  cbv zeta in P1, P2, P3. unfold RL in P1, P2, P3. fold ids.
  split; [|split].
  - intros k. rewrite P1. fold (RL c c). unfold has_node. rewrite (RL_label c Hok c k Wc eq_refl). fold ids. fold f. split.
    + destruct (finv f ids k) as [n|] eqn:F; [|discriminate]. intros _. apply finv_some in F. exists n. tauto.
    + intros (n & Hn & ->). rewrite (finv_f f ids ids_nd finj n Hn).
      apply has_node_in, has_node_label in Hn. destruct Hn as [a ->]. reflexivity.
  - intros n a L. apply P2. fold (RL c c). rewrite (RL_label c Hok c (f n) Wc eq_refl). fold ids. fold f.
    assert (In n ids) as Hn by (apply has_node_in, has_node_label; eauto).
    rewrite (finv_f f ids ids_nd finj n Hn). exact L.
  - intros u v Hu Hv. rewrite P3. fold (RL c c). rewrite (RL_adj c Hok c (f u) (f v) Wc eq_refl). fold ids. fold f.
    rewrite (finv_f f ids ids_nd finj u Hu), (finv_f f ids ids_nd finj v Hv). reflexivity.
Qed.

Theorem gml_roundtrip_reindex_eh c : its_ok c = true -> hc_free c = true ->
  let f := mapget (enum_from 1%N (node_ids c)) in
  let I' := gml_to_its (its_to_gml c false true true) in
  (forall k, has_node I' k = true <-> exists n, In n (node_ids c) /\ k = f n) /\
  (forall n a, label c n = Some a ->
     label I' (f n) = Some (gml_node (f n) (tg_el (tG_of a)) (tg_ch (tG_of a)) (tg_ch (tH_of a)))) /\
  (forall u v, In u (node_ids c) -> In v (node_ids c) -> adj I' (f u) (f v) = adj c u v).
Proof.
  intros H Hf. apply gml_roundtrip_reindex_eh_iok; [apply its_ok_IOK; exact H|].
  intros n a L. apply assoc_in in L. unfold hc_free in Hf. rewrite forallb_forall in Hf. specialize (Hf _ L). simpl in Hf.
  apply Z.leb_le in Hf. exact Hf.
Qed.

Example gml_roundtrip_reindex_eh_ex :
  its_ok ex_centre_eh' = true /\ hc_free ex_centre_eh' = true /\
  mapget (enum_from 1%N (node_ids ex_centre_eh')) 40%N = 4%N /\
  adj (gml_to_its (its_to_gml ex_centre_eh' false true true)) 1%N 4%N = Some (EA (Some (OP 4 4)) (Some 0)).
Proof. vm_compute. repeat split. Qed.
