(** C01 — proofs about model/C01_CleanWc.v *)
From Coq Require Import List String Ascii Bool Arith Lia.
From SK Require Import model.C01_CleanWc.
Import ListNotations.
Local Open Scope string_scope.

Lemma longest_spec best l :
  let r := longest best l in
  In r (best :: l) /\ (forall f, In f (best :: l) -> String.length f <= String.length r).
Proof.
  revert best. induction l as [|f l IH]; intros best; cbn [longest].
  - split; [left; reflexivity|]. intros f [<-|[]]. lia.
  - destruct (Nat.ltb_spec (String.length best) (String.length f)) as [Hlt|Hge].
    + destruct (IH f) as [I M]. split; [right; exact I|]. intros x [<-|Ix]; [|apply M; exact Ix].
      specialize (M f (or_introl eq_refl)). lia.
    + destruct (IH best) as [I M]. split.
      * destruct I as [<-|I]; [left; reflexivity|right; right; exact I].
      * intros x [<-|[<-|Ix]]; [apply M; left; reflexivity| |apply M; right; exact Ix].
        specialize (M best (or_introl eq_refl)). lia.
Qed.

(** C01_clean_wildcards: the cleaned product side is the product side itself when every fragment contains '*', otherwise one of
    its star-free '.'-fragments, of maximal length among them; the reactant side is untouched *)
Theorem clean_wc_spec react prod :
  fst (clean_wc react prod) = react /\
  let sf := filter (fun f => negb (has_star f)) (split_dot prod) in
  (sf = [] -> snd (clean_wc react prod) = prod) /\
  (sf <> [] -> In (snd (clean_wc react prod)) sf /\
               forall f, In f sf -> String.length f <= String.length (snd (clean_wc react prod))).
Proof.
  split; [reflexivity|]. cbv zeta. unfold clean_wc, clean_side. cbn [snd].
  destruct (filter (fun f => negb (has_star f)) (split_dot prod)) as [|f r]; split; try congruence; try reflexivity.
  intros _. apply (longest_spec f r).
Qed.

(** ... so the option is LOSSY on every reaction with two star-free product fragments, wildcards or not:
    the string round trip of the property does not hold under clean_wildcards=True (by design of clean_wc) *)
Theorem clean_wc_lossy :
  has_star cw_prod = false /\ split_dot cw_prod = cw_frag1 :: cw_frag2 :: nil /\
  snd (clean_wc cw_react cw_prod) = cw_frag1 /\ snd (clean_wc cw_react cw_prod) <> cw_prod.
Proof. repeat split. discriminate. Qed.

Example C01_clean_wc_nonvacuous :
  snd (clean_wc "A" "C.[*:5]") = "C" /\ snd (clean_wc "A" "[*:1]C.[*:2]") = "[*:1]C.[*:2]" /\ snd (clean_wc "A" "CC.OO.N") = "CC".
Proof. repeat split. Qed.
