(** C03 — clause (c) for the hydrogens, end to end in the default mode: every hydrogen that _explicit_h re-materialises
    moves between the images of two template atoms that belong to ONE hydrogen-transfer group of the TEMPLATE (atoms
    linked through removed template hydrogens they are bonded to).  Stdlib lists only. *)
From Coq Require Import List NArith ZArith Bool Lia.
From SK Require Import lib.Tok lib.LGraph model.C03_Model proof.C03_Proof proof.C03_Glue proof.C03_Backward proof.C03_Skeleton
                       proof.C03_Wiring proof.C03_PairIds proof.C03_ExplicitH proof.C03_ExplicitShape.
Import ListNotations.
Local Open Scope Z_scope.

Section Chain.
  Variables (tpl rc : its) (l r : molg) (host : hostg) (m : mapping) (T : its).
  Hypothesis Hnd : nodupb (node_ids tpl) = true.
  Hypothesis Hnone : forall k n, In (k, n) (gnodes tpl) -> i_hp n = None.
  Hypothesis Hs : synrule tpl true = Some (rc, l, r).
  Hypothesis Hwh : wf_hostb host = true.
  Hypothesis Hwr : wf_rcb rc = true.
  Hypothesis Hm : match_rcb host rc m = true.
  Hypothesis Hg : glue host rc m = Some T.

  Lemma group_chain a c : same_group T a c -> forall x, mget m x = Some a -> exists y, mget m y = Some c /\ tpl_group tpl x y.
  Proof.
    pose proof (match_rcb_sound host rc m (wf_rc_nodup rc Hwr) Hm) as MO.
    induction 1 as [a|a b c Hsp Hgr IH]; intros x Ex; [exists x; split; [exact Ex|constructor]|].
    destruct (default_share_pair_template tpl rc l r host m T a b Hnd Hnone Hs Hwh Hwr Hm Hg Hsp) as (x1 & y1 & h & E1 & E2 & Hh & N1 & N2).
    assert (x1 = x) by (exact (mget_inj m x1 x a (mo_vals _ _ _ MO) E1 Ex)). subst x1.
    destruct (IH y1 E2) as (y & Ey & Gy). exists y. split; [exact Ey|]. eapply tg_step; [|exact Gy]. exists h. auto.
  Qed.

  Theorem default_migrations_in_template_groups T' ms : explicit_h T = Some (T', ms) ->
    forall sd, In sd ms ->
      exists x y, mget m x = Some (fst sd) /\ mget m y = Some (snd sd) /\ tpl_group tpl x y /\
                  0 < dl_of T (fst sd) /\ dl_of T (snd sd) < 0.
  Proof.
    intros He sd I.
    destruct (explicit_h_wiring T T' ms (glued_nodup host rc m T Hwh Hwr Hm Hg) He) as [_ W].
    destruct (W sd I) as (G & D1 & D2).
    inversion G as [a Ea Eb|a b c Hsp Hgr Ea Ec].
    - exfalso. assert (Eq : fst sd = snd sd) by congruence. rewrite Eq in D1. lia.
    - destruct (default_share_pair_template tpl rc l r host m T _ b Hnd Hnone Hs Hwh Hwr Hm Hg Hsp) as (x1 & y1 & h & E1 & E2 & _).
      destruct (group_chain (fst sd) (snd sd) G x1 E1) as (y & Ey & Gy). exists x1, y. auto.
  Qed.
End Chain.
