(** C10 — proofs, part 25: explicit_hydrogen=True exports of an ITS WITH implicit hydrogens.  The context section is written from
    h_to_explicit(context): every implicit hydrogen becomes a context node "H" with a context edge "-" to its atom, the reader
    copies both into left and right, and the ITS read back is the ITS with those hydrogens explicit:
        gml_to_its (its_to_gml c, explicit_hydrogen=True)  reads as  normalize_edge_orders (h_to_explicit c)
    on atoms, charges and (before, after) bond dictionaries. *)
From Coq Require Import String List NArith ZArith Bool Lia.
From SK Require Import lib.Tok lib.LGraph lib.StrJoin model.C10_Model model.C10_Rxn proof.C10_Proof proof.C10_Views proof.C10_Build
  proof.C10_Copy proof.C10_GmlRead proof.C10_GmlWrite proof.C10_Hydrogen proof.C10_HRound proof.C10_GmlEH proof.C10_HRoundIts.
Import ListNotations.
Local Open Scope Z_scope.

(** * _synchronize_nodes_and_edges in general: context edges missing from the side are added *)
Definition sstep (acc : gr) (e : N * N * eatt) : gr :=
  let '(u, v, x) := e in if has_edge acc u v then acc else add_edge acc u v x.
Lemma sync_side_sstep (ctx side : gr) :
  sync_side ctx side = fold_left sstep (edges_iter ctx) (fold_left (nstep snd) (gnodes ctx) side).
Proof. reflexivity. Qed.

Lemma sstep_adj es : forall (s : gr) p q,
  adj (fold_left sstep es s) p q = match adj s p q with Some y => Some y | None => find_edge p q es end.
Proof.
  induction es as [|[[u v] x] r IH]; intros s p q; [simpl; destruct (adj s p q); reflexivity|].
  cbn [fold_left]. rewrite IH. rewrite find_edge_cons. unfold sstep. unfold has_edge.
  destruct (adj s u v) as [y|] eqn:A.
  - destruct (adj s p q) as [z|] eqn:B; [reflexivity|].
    destruct (pair_eqb u v p q) eqn:P; [|reflexivity]. rewrite (adj_pair s _ _ _ _ P) in A. congruence.
  - rewrite adj_add_edge, A. destruct (pair_eqb u v p q) eqn:P.
    + rewrite <- (adj_pair s _ _ _ _ P), A. reflexivity.
    + reflexivity.
Qed.
Lemma sstep_label es : forall (s : gr) n,
  (forall u v x, In (u, v, x) es -> has_node s u = true /\ has_node s v = true) -> label (fold_left sstep es s) n = label s n.
Proof.
  induction es as [|[[u v] x] r IH]; intros s n H; [reflexivity|]. cbn [fold_left].
  destruct (H u v x (or_introl eq_refl)) as [Hu Hv].
  assert (forall m, label (sstep s (u, v, x)) m = label s m) as E.
  { intros m. unfold sstep. destruct (has_edge s u v); [reflexivity|]. rewrite label_add_edge.
    destruct (N.eqb_spec m u) as [->|]; simpl.
    - apply has_node_label in Hu. destruct Hu as [a ->]. reflexivity.
    - destruct (N.eqb_spec m v) as [->|]; [|reflexivity]. apply has_node_label in Hv. destruct Hv as [a ->]. reflexivity. }
  rewrite IH; [apply E|]. intros a b y Hin. destruct (H a b y (or_intror Hin)) as [Ha Hb].
  unfold has_node in *. rewrite !E. auto.
Qed.
Lemma sstep_gwf es : forall s : gr, gwf s -> gwf (fold_left sstep es s).
Proof.
  induction es as [|[[u v] x] r IH]; intros s W; [exact W|]. cbn [fold_left]. apply IH. unfold sstep.
  destruct (has_edge s u v); [exact W|apply gwf_add_edge, W].
Qed.

Lemma find_edge_edges_iter (g : gr) u v : gwf g -> find_edge u v (edges_iter g) = adj g u v.
Proof. intros W. exact (adj_copy g u v W). Qed.

Lemma sync_adj_gen (ctx side : gr) u v : gwf ctx ->
  adj (sync_side ctx side) u v = match adj side u v with Some y => Some y | None => adj ctx u v end.
Proof.
  intros W. rewrite sync_side_sstep, sstep_adj, find_edge_edges_iter by exact W.
  unfold adj at 1 2. rewrite fold_nstep_gedges. reflexivity.
Qed.
Lemma sync_label_gen (ctx side : gr) n : gwf ctx ->
  label (sync_side ctx side) n =
  match label ctx n with
  | Some a => Some (match label side n with Some old => na_update a old | None => a end)
  | None => label side n
  end.
Proof.
  intros W. rewrite sync_side_sstep, sstep_label.
  - rewrite fold_nstep_label by apply (gwf_nd _ W). reflexivity.
  - intros a b x Hin. apply in_edges_from in Hin.
    assert (has_node ctx a = true /\ has_node ctx b = true) as [Ha Hb] by (destruct Hin as [H|H]; destruct (gwf_cl ctx W _ _ _ H); auto).
    unfold has_node. rewrite !fold_nstep_label by apply (gwf_nd _ W). fold (label ctx a). fold (label ctx b).
    apply has_node_label in Ha, Hb. destruct Ha as [y ->]. destruct Hb as [z ->]. auto.
Qed.

Theorem sync_side_lookups (ctx side : gr) : gwfb ctx = true ->
  (forall u v, adj (sync_side ctx side) u v = match adj side u v with Some y => Some y | None => adj ctx u v end) /\
  (forall n, label (sync_side ctx side) n =
             match label ctx n with
             | Some a => Some (match label side n with Some old => na_update a old | None => a end)
             | None => label side n
             end).
Proof.
  intros H. pose proof (gwfb_gwf ctx H) as W. split; [intros u v; apply sync_adj_gen, W|intros n; apply sync_label_gen, W].
Qed.

(** * the edge part of an explicit_hydrogen context section *)
Definition stdc (x : eatt) : bool := match e_std x with Some s => s =? 0 | None => true end.
Lemma ge_find_Fedge (g : gr) u v : gwf g ->
  ge_find u v (rev (flat_map Fedge (edges_iter g))) =
  match adj g u v with Some x => if stdc x then Some (order_label_any (e_ord x) 0) else None | None => None end.
Proof.
  intros W. destruct (ge_find u v _) as [s|] eqn:F.
  - apply ge_find_some_in in F. destruct F as (a & b & Hin & P). rewrite <- in_rev, in_flat_map in Hin.
    destruct Hin as ([[a' b'] x] & Hin & Hx). unfold Fedge in Hx. fold (stdc x) in Hx.
    destruct (stdc x) eqn:S; [|destruct Hx]. destruct Hx as [E|[]]. inversion E; subst.
    apply (edges_iter_data g a b x W) in Hin. rewrite <- (adj_pair g _ _ _ _ P), Hin, S. reflexivity.
  - destruct (adj g u v) as [x|] eqn:A; [|reflexivity]. destruct (stdc x) eqn:S; [|reflexivity]. exfalso.
    assert (has_pair u v (edges_iter g) = true) as HP by (rewrite has_pair_edges_iter, A by exact W; reflexivity).
    unfold has_pair in HP. apply existsb_exists in HP. destruct HP as ([[a b] x'] & Hin & P). simpl in P.
    pose proof (edges_iter_data g a b x' W Hin) as A'. rewrite (adj_pair g _ _ _ _ P), A in A'. injection A' as <-.
    apply (ge_find_in_some u v (rev (flat_map Fedge (edges_iter g))) a b (order_label_any (e_ord x) 0)); [|exact P|exact F].
    rewrite <- in_rev. apply in_flat_map. exists (a, b, x). split; [exact Hin|]. unfold Fedge. fold (stdc x). rewrite S. left. reflexivity.
Qed.
Lemma endp_Fedge (g : gr) n : gwf g -> endp n (rev (flat_map Fedge (edges_iter g))) = true -> has_node g n = true.
Proof.
  intros W E. unfold endp in E. apply existsb_exists in E. destruct E as (e & Hin & He). rewrite <- in_rev, in_flat_map in Hin.
  destruct Hin as ([[a b] x] & Hin & Hx). unfold Fedge in Hx.
  destruct (match e_std x with Some s => s =? 0 | None => true end); [|destruct Hx]. destruct Hx as [<-|[]]. simpl in He.
  apply in_edges_from in Hin.
  assert (has_node g a = true /\ has_node g b = true) as [Ha Hb] by (destruct Hin as [H|H]; destruct (gwf_cl g W _ _ _ H); auto).
  apply orb_true_iff in He. rewrite !N.eqb_eq in He. destruct He as [<-|<-]; assumption.
Qed.

(** * maps on edge attributes keep well-formedness *)
Lemma find_edge_emap F u v es : find_edge u v (map (emapf F) es) = option_map F (find_edge u v es).
Proof.
  induction es as [|[[a b] x] r IH]; [reflexivity|]. simpl map. rewrite !find_edge_cons, IH. destruct (pair_eqb a b u v); reflexivity.
Qed.
Lemma gwf_emap F (G : gr) : gwf G -> gwf (emap F G).
Proof.
  intros [Hnd Huq Hcl]. split.
  - exact Hnd.
  - unfold emap. simpl. induction (gedges G) as [|[[a b] x] r IH]; [reflexivity|]. simpl in *.
    rewrite find_edge_emap. destruct (find_edge a b r); [discriminate|]. simpl. apply IH. exact Huq.
  - intros a b x Hin. unfold emap in Hin. simpl in Hin. apply in_map_iff in Hin. destruct Hin as ([[a' b'] x'] & E & Hin).
    simpl in E. inversion E; subst. apply (Hcl a b x' Hin).
Qed.

(** * what [upd] (h_to_explicit on one atom, its=False) keeps *)
Lemma node_label_upd a : node_label (upd a) = node_label a.
Proof. unfold upd. destruct (0 <? cval a); reflexivity. Qed.
Lemma node_okP_upd a : node_okP a -> node_okP (upd a).
Proof.
  unfold upd. destruct (0 <? cval a); [|auto]. intros (e & ar & h & q & ar' & h' & q' & Ht & E1 & E2 & He).
  exists e, ar, (h - cval a), q, ar', h', q'. unfold dec_h. simpl. rewrite Ht. simpl. auto.
Qed.
Lemma tG_upd a : tg_el (tG_of (upd a)) = tg_el (tG_of a) /\ tg_ch (tG_of (upd a)) = tg_ch (tG_of a) /\ tH_of (upd a) = tH_of a.
Proof.
  unfold upd. destruct (0 <? cval a); [|auto]. unfold dec_h, tG_of, tH_of. simpl.
  destruct (a_tgh a) as [[[[[e ar] h] q] t2]|]; simpl; auto.
Qed.

Section Full.
Variable c : gr.
Hypothesis Hok : IOK c.
Variables sL sR : gr.
Hypothesis SL : side_like c false sL.
Hypothesis SR : side_like c true sR.
Variable K : gr.
Variable mx : N.
Variable P : list (N * N).
Hypothesis IE : EInv c K mx P.
Hypothesis LE : forall n a, label c n = Some a -> label K n = Some (upd a).
Hypothesis HP : P_ok c P.
Let W := iok_gwf c Hok.
Let WK := ei_wf _ _ _ _ IE.
Let ch := find_changed sL sR.
Let B := context_entries K ch true.
Let E := normalize_edge_orders K.

Lemma K_label_new h m : In (h, m) P -> label K h = Some H_att /\ label c h = None /\ In m (node_ids c).
Proof.
  intros Hin. destruct (ei_h _ _ _ _ IE h m Hin) as [L M]. split; [exact L|split; [|exact M]].
  destruct (proj2 HP h m Hin) as [Hh _]. apply has_node_false, not_true_is_false. intros H. apply has_node_in in H. contradiction.
Qed.
Lemma K_label_none n : label c n = None -> ~ In n (map fst P) -> label K n = None.
Proof.
  intros L Hn. apply has_node_false, not_true_is_false. intros H. apply has_node_in in H. rewrite (ei_ids _ _ _ _ IE) in H.
  apply in_app_iff in H. destruct H as [H|H]; [|contradiction]. apply has_node_in, has_node_label in H. destruct H; congruence.
Qed.
Lemma padj_ends u v : padj P u v = true -> exists h m, In (h, m) P /\ pair_eqb h m u v = true.
Proof.
  unfold padj. intros H. apply existsb_exists in H. destruct H as ([h m] & Hin & Pq). exists h, m. auto.
Qed.
Lemma padj_c_none u v : padj P u v = true -> adj c u v = None.
Proof.
  intros H. destruct (padj_ends u v H) as (h & m & Hin & Pq). destruct (proj2 HP h m Hin) as [Hh _].
  apply (adj_g_notin c W). apply pair_eqb_spec in Pq. destruct Pq as [[E1 _]|[E1 _]]; subst; [left|right]; exact Hh.
Qed.

(** E is in the domain of the record-level theorems *)
Lemma E_label n : label E n = label K n.
Proof. reflexivity. Qed.
Lemma E_adj u v : adj E u v = if padj P u v then Some (EA (Some (OP 2 2)) (Some 0)) else adj c u v.
Proof.
  unfold E. rewrite normalize_emap, adj_emap, (ei_adj _ _ _ _ IE). destruct (padj P u v); [reflexivity|].
  destruct (adj c u v) as [x|] eqn:A; [|reflexivity]. destruct (iok_edge c u v x Hok A) as (a & b & -> & _). reflexivity.
Qed.
Lemma mem_ch_new h m : In (h, m) P -> mem h ch = false.
Proof.
  intros Hin. destruct (K_label_new h m Hin) as (_ & Lc & _). unfold ch.
  rewrite mem_find_changed by apply (gwf_nd _ (sl_wf _ _ _ SL)). rewrite (sl_none _ _ _ SL h Lc). reflexivity.
Qed.
Lemma elem_H : elem_str s_H.
Proof. split; [discriminate|]. constructor; [reflexivity|constructor]. Qed.

Theorem E_IOK : IOK E.
Proof.
  split; [unfold E; rewrite normalize_emap; apply gwf_emap, WK|split].
  - intros n a L. rewrite E_label in L. destruct (label c n) as [a0|] eqn:Lc.
    + rewrite (LE n a0 Lc) in L. injection L as <-. apply node_okP_upd. apply (iok_node c n a0 Hok Lc).
    + destruct (in_dec N.eq_dec n (map fst P)) as [Hn|Hn].
      * apply in_map_iff in Hn. destruct Hn as ([h m] & <- & Hin). simpl in L. destruct (K_label_new h m Hin) as (LK & _). rewrite LK in L.
        injection L as <-. exists s_H, false, 0, 0, false, 0, 0. repeat split; try reflexivity; apply elem_H.
      * rewrite (K_label_none n Lc Hn) in L. discriminate.
  - intros u v x A. rewrite E_adj in A. destruct (padj P u v) eqn:Pa.
    + injection A as <-. exists 2, 2. repeat split; try reflexivity; [left; discriminate| |].
      * destruct (padj_ends u v Pa) as (h & m & Hin & Pq). destruct (K_label_new h m Hin) as (LK & _ & Hm).
        unfold has_node. rewrite E_label. apply pair_eqb_spec in Pq. destruct Pq as [[<- _]|[_ <-]]; [rewrite LK; reflexivity|].
        apply has_node_in, has_node_label in Hm. destruct Hm as [a La]. rewrite (LE _ a La). reflexivity.
      * destruct (padj_ends u v Pa) as (h & m & Hin & Pq). destruct (K_label_new h m Hin) as (LK & _ & Hm).
        unfold has_node. rewrite E_label. apply pair_eqb_spec in Pq. destruct Pq as [[_ <-]|[<- _]]; [|rewrite LK; reflexivity].
        apply has_node_in, has_node_label in Hm. destruct Hm as [a La]. rewrite (LE _ a La). reflexivity.
    + destruct (iok_edge c u v x Hok A) as (a & b & -> & Oa & Ob & Hne & Hu & Hv). exists a, b. repeat split; auto.
      * apply has_node_label in Hu. destruct Hu as [y Ly]. unfold has_node. rewrite E_label, (LE _ y Ly). reflexivity.
      * apply has_node_label in Hv. destruct Hv as [y Ly]. unfold has_node. rewrite E_label, (LE _ y Ly). reflexivity.
Qed.

(** the context section *)
Lemma B_gn n : gn_find n (rev B) = match label K n with Some a => if mem n ch then None else Some (node_label a) | None => None end.
Proof.
  unfold B. rewrite context_entries_eh, rev_app_distr, gn_find_app.
  rewrite gn_find_edges by (intros e He; exact (Fedge_edges _ _ He)).
  rewrite gn_find_sel by apply (gwf_nd _ WK). fold (label K n). destruct (label K n); [destruct (mem n ch)|]; reflexivity.
Qed.
Lemma B_ge u v : ge_find u v (rev B) =
  match adj K u v with Some x => if stdc x then Some (order_label_any (e_ord x) 0) else None | None => None end.
Proof.
  unfold B. rewrite context_entries_eh, rev_app_distr, ge_find_app, (ge_find_Fedge K u v WK).
  rewrite (ge_find_nodes u v (rev (flat_map (Nent _) _))) by (intros e He; exact (Nent_nodes _ _ _ He)).
  destruct (adj K u v) as [x|]; [destruct (stdc x)|]; reflexivity.
Qed.
Lemma B_endp n : endp n (rev B) = true -> has_node K n = true.
Proof.
  unfold B. rewrite context_entries_eh, rev_app_distr, endp_app.
  rewrite (endp_nodes n (rev (flat_map (Nent _) _))) by (intros e He; exact (Nent_nodes _ _ _ He)). rewrite orb_false_r.
  apply endp_Fedge, WK.
Qed.

Definition sideF (s : gr) : gr := sync_side (parse_r (rev B)) (lftg s ch).

Lemma side_endp_none (j : bool) s n : side_like c j s -> label c n = None -> endp n (rev (side_entries s ch)) = false.
Proof.
  intros SS L. destruct (endp n _) eqn:E0; [|reflexivity]. exfalso.
  rewrite side_entries_eq, rev_app_distr, endp_app in E0.
  rewrite endp_nodes in E0 by (intros e He; exact (Nent_nodes _ _ _ He)). simpl in E0.
  apply endp_edges_iter in E0; [|apply (sl_wf _ _ _ SS)]. apply has_node_label in E0. destruct E0 as [b Hb].
  rewrite (sl_none _ _ _ SS n L) in Hb. discriminate.
Qed.

Lemma sideF_label (j : bool) s n : side_like c j s ->
  (forall a, label c n = Some a -> mem n ch = false -> tg_ch (T_of j a) = tg_ch (tG_of a)) ->
  label (sideF s) n = option_map (fun a => gnode_att n (tg_el (T_of j a)) (tg_ch (T_of j a))) (label E n).
Proof.
  intros SS HT. unfold sideF. rewrite sync_label_gen by apply parse_gwf.
  rewrite (parse_label (rev B)), B_gn. unfold lftg. rewrite parse_label, (lft_gn c j s ch n SS). rewrite E_label.
  destruct (label c n) as [a|] eqn:L.
  - rewrite (LE n a L). simpl. rewrite node_label_upd.
    destruct (iok_node c n a Hok L) as (e & ar & h & q & ar' & h' & q' & Ht & E1 & E2 & He).
    destruct (tG_upd a) as (U1 & U2 & U3).
    assert (tg_el (T_of j (upd a)) = e /\ tg_ch (T_of j (upd a)) = tg_ch (T_of j a) /\ tg_el (T_of j a) = e) as (V1 & V2 & V3).
    { destruct j; unfold T_of; [rewrite U3|rewrite U1, U2]; unfold tG_of, tH_of; rewrite Ht; auto. }
    rewrite V1, V2. destruct (mem n ch) eqn:M.
    + rewrite V3. rewrite node_att_label by exact He. destruct (endp n (rev B)); simpl; reflexivity.
    + unfold node_label. rewrite E1, E2. simpl. rewrite node_att_label by exact He.
      rewrite (HT a eq_refl eq_refl). unfold tG_of. rewrite Ht. simpl.
      match goal with |- context [endp n (rev (side_entries ?x ?y))] => destruct (endp n (rev (side_entries x y))) end; reflexivity.
  - rewrite (side_endp_none j s n SS L). destruct (in_dec N.eq_dec n (map fst P)) as [Hn|Hn].
    + apply in_map_iff in Hn. destruct Hn as ([h m] & <- & Hin). simpl. destruct (K_label_new h m Hin) as (LK & _).
      rewrite LK, (mem_ch_new h m Hin). simpl.
      change (node_label H_att) with (s_H ++ charge_to_string 0). rewrite node_att_label by apply elem_H.
      destruct j; reflexivity.
    + rewrite (K_label_none n L Hn). destruct (endp n (rev B)) eqn:EB; [|reflexivity]. exfalso.
      apply B_endp, has_node_label in EB. destruct EB as [y Hy]. rewrite (K_label_none n L Hn) in Hy. discriminate.
Qed.

Lemma sideF_adj (j : bool) s u v : side_like c j s ->
  adj (sideF s) u v =
  if padj P u v then Some (EA (Some (OS 2)) None)
  else match adj c u v with
       | Some x => option_map (fun y => edge_att (order_label_any (e_ord y) 2)) (dd c j u v)
       | None => None
       end.
Proof.
  intros SS. unfold sideF. rewrite sync_adj_gen by apply parse_gwf. rewrite (lftg_adj c j s ch u v SS), parse_adj, B_ge, (ei_adj _ _ _ _ IE).
  destruct (padj P u v) eqn:Pa.
  - unfold dd. rewrite (padj_c_none u v Pa). reflexivity.
  - unfold dd. destruct (adj c u v) as [x|] eqn:A; [|reflexivity].
    destruct (iok_edge c u v x Hok A) as (a & b & -> & Oa & Ob & Hne & _). unfold ord_of, stdc. simpl.
    destruct (ord_ok_cases a Oa) as [->|[->|[->|[->| ->]]]]; destruct (ord_ok_cases b Ob) as [->|[->|[->|[->| ->]]]];
      destruct j; simpl; try reflexivity; exfalso; destruct Hne; congruence.
Qed.

Theorem gml_pipeline_full :
  let I' := snd (gml_to_nx [(SLeft, side_entries sL ch); (SContext, B); (SRight, side_entries sR ch)]) in
  (forall n, has_node I' n = has_node E n) /\
  (forall n a, label E n = Some a ->
     label I' n = Some (gml_node n (tg_el (tG_of a)) (tg_ch (tG_of a)) (tg_ch (tH_of a)))) /\
  (forall u v, adj I' u v = adj E u v).
Proof.
  intros I'.
  assert (I' = its_construct (sideF sL) (sideF sR) (union_pairs (sideF sL) (sideF sR))) as ->.
  { unfold I'. rewrite gml_to_nx_three. reflexivity. }
  apply (assemble E _ _ E_IOK).
  - intros n. apply (sideF_label false sL n SL). intros a _ _. reflexivity.
  - intros n. rewrite (sideF_label true sR n SR).
    + destruct (label E n) as [a|] eqn:L; [|reflexivity]. simpl.
      destruct (iok_node E n a E_IOK L) as (e & ar & h & q & ar' & h' & q' & Ht & _).
      unfold T_of, tG_of, tH_of. rewrite Ht. reflexivity.
    + intros a L M. unfold ch in M.
      rewrite (chg_mem c sL sR n a SL SR L) in M. apply negb_false_iff, Z.eqb_eq in M. unfold T_of. symmetry. exact M.
  - intros u v x A. rewrite E_adj in A. unfold scal_order. rewrite (sideF_adj false sL u v SL), (sideF_adj true sR u v SR).
    destruct (padj P u v) eqn:Pa.
    + injection A as <-. simpl. auto.
    + rewrite A. destruct (iok_edge c u v x Hok A) as (a & b & -> & Oa & Ob & _). unfold dd. rewrite A. unfold ord_of. simpl. split.
      * destruct (ord_ok_cases a Oa) as [->|[->|[->|[->| ->]]]]; simpl; auto.
      * destruct (ord_ok_cases b Ob) as [->|[->|[->|[->| ->]]]]; simpl; auto.
  - intros u v A. rewrite E_adj in A. rewrite (sideF_adj false sL u v SL), (sideF_adj true sR u v SR).
    destruct (padj P u v); [discriminate|]. rewrite A. auto.
Qed.
End Full.

(** * the theorem *)
Theorem gml_roundtrip_eh_full_iok c : IOK c ->
  let E := normalize_edge_orders (h_to_explicit c None false) in
  let I' := gml_to_its (its_to_gml c false false true) in
  (forall n, has_node I' n = has_node E n) /\
  (forall n a, label E n = Some a ->
     label I' n = Some (gml_node n (tg_el (tG_of a)) (tg_ch (tG_of a)) (tg_ch (tH_of a)))) /\
  (forall u v, adj I' u v = adj E u v).
Proof.
  intros Hok. pose proof (iok_gwf c Hok) as W.
  assert (lab_ok c (copy c) []) as L0.
  { intros n _. rewrite label_copy. destruct (label c n); reflexivity. }
  assert (cnt_ok c [] []) as C0 by (intros n a _; reflexivity).
  destruct (hexp_fold_inv_any c W (node_ids c) (copy c) (max_id c) [] [] (EInv0 c W) L0 C0) as (P & IE & LE & _).
  cbv zeta in IE, LE.
  assert (h_to_explicit c None false = fst (fold_left hexp_step (node_ids c) (copy c, max_id c))) as EK by apply h_to_explicit_false.
  rewrite <- EK in IE, LE. set (K := h_to_explicit c None false) in *.
  assert (P_ok c P) as HP.
  { split; [exact (ei_nd _ _ _ _ IE)|]. intros h m Hin. split; [|apply (ei_h _ _ _ _ IE h m Hin)].
    intros Hh. apply (bounded_max_id c) in Hh. pose proof (ei_rng _ _ _ _ IE h (in_map fst _ _ Hin)) as R. simpl in R. lia. }
  assert (forall n a, label c n = Some a -> label K n = Some (upd a)) as LE'.
  { intros n a La. assert (In n (node_ids c)) as Hn by (apply has_node_in, has_node_label; eauto).
    rewrite (LE n Hn), La. simpl. rewrite mem_rev_nil.
    assert (mem n (node_ids c) = true) as -> by (apply mem_spec; exact Hn). reflexivity. }
  intros E I'. unfold I', gml_to_its, its_to_gml. rewrite its_decompose_sides by exact Hok. unfold nx_to_gml. cbv iota.
  fold K.
  apply (gml_pipeline_full c Hok _ _ (side_graph_like c false Hok) (side_graph_like c true Hok) K _ P IE LE' HP).
Qed.

Theorem gml_roundtrip_eh_full c : its_ok c = true ->
  let E := normalize_edge_orders (h_to_explicit c None false) in
  let I' := gml_to_its (its_to_gml c false false true) in
  (forall n, has_node I' n = has_node E n) /\
  (forall n a, label E n = Some a ->
     label I' n = Some (gml_node n (tg_el (tG_of a)) (tg_ch (tG_of a)) (tg_ch (tH_of a)))) /\
  (forall u v, adj I' u v = adj E u v).
Proof. intros H. apply gml_roundtrip_eh_full_iok, its_ok_IOK, H. Qed.

(** non-vacuity: a full ITS C-O with three / one implicit hydrogens: the rule read back has the 2 atoms and 4 hydrogen atoms,
    each bonded (1, 1) to its heavy atom *)
Definition ex_nd_h (el : string) (h q q' : Z) : natt :=
  NA (Some (s2l el)) (Some false) (Some h) (Some q) (Some 0) (Some ((s2l el, false, h, q), (s2l el, false, h, q'))).
Definition ex_full_h : gr :=
  LG [(1%N, ex_nd_h "C" 3 0 0); (2%N, ex_nd_h "O" 1 0 (-1))] [(1%N, 2%N, EA (Some (OP 2 4)) (Some (-2)))].
Example gml_roundtrip_eh_full_ex :
  its_ok ex_full_h = true /\ hc_free ex_full_h = false /\
  List.length (gnodes (gml_to_its (its_to_gml ex_full_h false false true))) = 6%nat /\
  adj (gml_to_its (its_to_gml ex_full_h false false true)) 1%N 3%N = Some (EA (Some (OP 2 2)) (Some 0)) /\
  adj (gml_to_its (its_to_gml ex_full_h false false true)) 1%N 2%N = Some (EA (Some (OP 2 4)) (Some (-2))) /\
  label (gml_to_its (its_to_gml ex_full_h false false true)) 6%N = Some (gml_node 6%N s_H 0 0).
Proof. vm_compute. repeat split. Qed.
