(** C01 — implicit_hydrogen conserves the number of hydrogens (model/C01_HBal.v): explicit hydrogen atoms + hcounts.
    This is the conservation law the lone-hydrogen defect (/repo 3ba7a77) violated: a hydrogen without a non-hydrogen
    neighbour was deleted although no hcount had taken it up. *)
From Coq Require Import List NArith ZArith Bool Lia Arith Permutation.
From SK Require Import lib.LGraph lib.C01_GraphLemmas model.C01_Model model.C02_Model model.C01_String model.C01_HBal
  proof.C01_Proof proof.C01_StringProof proof.C01_StringHyd proof.C01_StringHydExt proof.C01_StringPipe proof.C01_StringPipeH.
Import ListNotations.
Local Open Scope Z_scope.

(** * sums *)
Lemma sumZ_cons {X} (f : X -> Z) a l : sumZ f (a :: l) = f a + sumZ f l.
Proof. reflexivity. Qed.
Lemma sumZ_ext_in {X} (f g : X -> Z) l : (forall x, In x l -> f x = g x) -> sumZ f l = sumZ g l.
Proof. induction l as [|a l IH]; intros H; [reflexivity|]. rewrite !sumZ_cons, (H a (or_introl eq_refl)), IH; [reflexivity|]. intros x I. apply H. right. exact I. Qed.
Lemma sumZ_add {X} (f g : X -> Z) l : sumZ (fun x => f x + g x) l = sumZ f l + sumZ g l.
Proof. induction l as [|a l IH]; [reflexivity|]. rewrite !sumZ_cons, IH. lia. Qed.
Lemma sumZ_filter {X} (p : X -> bool) (f : X -> Z) l : sumZ f (filter p l) = sumZ (fun x => if p x then f x else 0) l.
Proof. induction l as [|a l IH]; [reflexivity|]. cbn [filter]. rewrite sumZ_cons. destruct (p a); rewrite ?sumZ_cons, IH; reflexivity. Qed.
Lemma sumZ_indicator {X} (p : X -> bool) l : sumZ (fun x => if p x then 1 else 0) l = Z.of_nat (length (filter p l)).
Proof. induction l as [|a l IH]; [reflexivity|]. rewrite sumZ_cons, IH. cbn [filter]. destruct (p a); cbn [length]; lia. Qed.

(** double counting *)
Lemma count_swap {X Y} (r : X -> Y -> bool) (l1 : list X) (l2 : list Y) :
  sumZ (fun x => Z.of_nat (length (filter (r x) l2))) l1 = sumZ (fun y => Z.of_nat (length (filter (fun x => r x y) l1))) l2.
Proof.
  induction l1 as [|a l1 IH].
  - induction l2 as [|b l2 IH2]; [reflexivity|]. rewrite sumZ_cons, <- IH2. reflexivity.
  - rewrite sumZ_cons, IH.
    rewrite <- sumZ_indicator, <- sumZ_add. apply sumZ_ext_in. intros y _. cbn [filter]. destruct (r a y); cbn [length]; lia.
Qed.

(** a duplicate-free list inside a duplicate-free universe: counting in the list = counting in the universe *)
Lemma filter_via_universe (p : N -> bool) (L U : list N) : NoDup L -> NoDup U -> incl L U ->
  length (filter p L) = length (filter (fun h => mem h L && p h) U).
Proof.
  intros NL NU Inc. apply Permutation_length. apply NoDup_Permutation; try (apply NoDup_filter; assumption).
  intros x. rewrite !filter_In, andb_true_iff, mem_spec. split; [intros [I P]; auto|intros [_ [I P]]; auto].
Qed.

Lemma filter_split3 (a b c : N -> bool) (L : list N) :
  (forall x, In x L -> a x = b x || c x) -> (forall x, In x L -> b x = true -> c x = false) ->
  length (filter a L) = (length (filter b L) + length (filter c L))%nat.
Proof.
  induction L as [|x L IH]; intros H1 H2; [reflexivity|]. cbn [filter].
  rewrite (H1 x (or_introl eq_refl)).
  assert (length (filter a L) = (length (filter b L) + length (filter c L))%nat) as E
    by (apply IH; intros y I; [apply H1|apply H2]; right; exact I).
  specialize (H2 x (or_introl eq_refl)).
  destruct (b x); cbn [orb length].
  - rewrite (H2 eq_refl). cbn [length]. lia.
  - destruct (c x); cbn [length]; lia.
Qed.

Section Balance.
Variable g : mgraph.
Variable pres : list Z.
Hypothesis W : wf g.
Hypothesis OP : one_parent g.

Let U := node_ids g.
Let rem := ih_removed g pres.
Let heavy (n : N) := negb (is_Hn g n).

Lemma nbrs_incl n : incl (nbrs g n) U.
Proof.
  intros h I. apply in_nbrs in I. destruct (adj g n h) as [x|] eqn:A; [|congruence].
  apply (wf_adj_iff W) in A. destruct A as [A|A]; apply (wf_edge_nodes W) in A; tauto.
Qed.

(** a hydrogen bonded to a non-hydrogen atom has a non-hydrogen neighbour *)
Lemma nbr_has_heavy n h : is_Hn g n = false -> In h (nbrs g n) -> has_heavy g h = true.
Proof.
  intros Hn I. apply has_heavy_spec. exists n. split; [|exact Hn]. apply mem_spec. rewrite mem_nbrs_sym. apply mem_spec. exact I.
Qed.

(** what a non-hydrogen atom gains = the number of its hydrogen neighbours that are removed *)
Lemma gain_spec n : is_Hn g n = false ->
  count_h g n - count_pres g pres n = Z.of_nat (length (filter (fun h => mem h (nbrs g n) && rem h) U)).
Proof.
  intros Hn. unfold count_h, count_pres.
  rewrite (filter_ext (fun h => mem n (nbrs g h)) (fun h => mem h (nbrs g n))) by (intros h; apply mem_nbrs_sym).
  rewrite <- (filter_mem_swap _ _ (@nbrs_nodup _ _ g n W) (preserved_nodup g pres W)).
  rewrite <- (filter_via_universe rem (nbrs g n) U (@nbrs_nodup _ _ g n W) (proj1 W) (nbrs_incl n)).
  rewrite (filter_split3 (is_Hn g) (fun m => mem m (preserved g pres)) rem (nbrs g n)).
  - lia.
  - intros h I. unfold rem, ih_removed. rewrite (nbr_has_heavy n h Hn I), andb_true_r.
    destruct (mem h (preserved g pres)) eqn:M; cbn [negb andb orb].
    + apply mem_spec in M. rewrite (preserved_isH g pres h W M). reflexivity.
    + rewrite andb_true_r. reflexivity.
  - intros h I M. unfold rem, ih_removed. rewrite M. cbn [negb]. rewrite andb_false_r. reflexivity.
Qed.

(** a removed hydrogen has exactly one non-hydrogen neighbour *)
Lemma removed_one_parent h : rem h = true -> length (filter (fun n => heavy n && mem h (nbrs g n)) U) = 1%nat.
Proof.
  intros R. unfold rem, ih_removed in R. apply andb_true_iff in R. destruct R as [R Hh]. apply andb_true_iff in R. destruct R as [Hn _].
  rewrite (filter_ext (fun n => heavy n && mem h (nbrs g n)) (fun n => mem n (nbrs g h) && heavy n))
    by (intros n; rewrite (@mem_nbrs_sym _ _ g h n); apply andb_comm).
  rewrite <- (filter_via_universe heavy (nbrs g h) U (@nbrs_nodup _ _ g h W) (proj1 W) (nbrs_incl h)).
  pose proof (OP h Hn) as Le. unfold has_heavy in Hh. apply existsb_exists in Hh. destruct Hh as (m & Im & Hm).
  assert (In m (filter heavy (nbrs g h))) as If by (apply filter_In; split; assumption).
  unfold heavy in *. destruct (filter (fun n => negb (is_Hn g n)) (nbrs g h)) as [|x [|y l]]; [destruct If|reflexivity|cbn in Le; lia].
Qed.

Lemma gains_equal_removed :
  sumZ (fun n => if heavy n then count_h g n - count_pres g pres n else 0) U = Z.of_nat (length (filter rem U)).
Proof.
  rewrite (sumZ_ext_in _ (fun n => Z.of_nat (length (filter (fun h => heavy n && mem h (nbrs g n) && rem h) U)))).
  - rewrite (count_swap (fun n h => heavy n && mem h (nbrs g n) && rem h) U U).
    rewrite <- sumZ_indicator. apply sumZ_ext_in. intros h _. destruct (rem h) eqn:R.
    + rewrite (filter_ext (fun n => heavy n && mem h (nbrs g n) && true) (fun n => heavy n && mem h (nbrs g n)))
        by (intros n; apply andb_true_r).
      rewrite (removed_one_parent h R). reflexivity.
    + rewrite (filter_ext (fun n => heavy n && mem h (nbrs g n) && false) (fun _ => false)) by (intros n; apply andb_false_r).
      rewrite (filter_nil (fun _ : N => false)); [reflexivity|reflexivity].
  - intros n _. unfold heavy. destruct (is_Hn g n) eqn:Hn; cbn [negb].
    + rewrite (filter_nil (fun h => false && mem h (nbrs g n) && rem h)); [reflexivity|reflexivity].
    + rewrite (gain_spec n Hn). reflexivity.
Qed.

(** C01_hydrogen_balance *)
Theorem hydrogen_balance : h_total (implicit_hydrogen g pres) = h_total g.
Proof.
  destruct (implicit_hydrogen_spec g pres W) as (HL & _ & _).
  unfold h_total. rewrite ih_node_ids. fold U. rewrite sumZ_filter.
  rewrite (sumZ_ext_in _ (fun n => h_weight g n + ((if heavy n then count_h g n - count_pres g pres n else 0) + (if rem n then -1 else 0)))).
  - rewrite !sumZ_add, gains_equal_removed.
    assert (sumZ (fun n => if rem n then -1 else 0) U = - Z.of_nat (length (filter rem U))) as ->; [|lia].
    rewrite <- sumZ_indicator. induction U as [|a l IH]; [reflexivity|]. rewrite !sumZ_cons, IH. destruct (rem a); lia.
  - intros n In_. apply node_label_some in In_. destruct In_ as (a & La). unfold h_weight, heavy, rem. rewrite HL, La.
    unfold ih_removed, is_Hn. rewrite La. fold (is_H a). destruct (is_H a) eqn:Ha; cbn [negb andb].
    + destruct (mem n (preserved g pres)); cbn [negb andb orb]; [rewrite Ha; lia|].
      destruct (has_heavy g n); cbn [negb]; [lia|rewrite Ha; lia].
    + cbn [set_hc g_el g_hc]. unfold is_H. cbn [set_hc g_el]. fold (is_H a). rewrite Ha. cbn [set_hc g_hc]. lia.
Qed.
End Balance.

(** without the repair the balance fails: a lone proton next to a preserved hydrogen (the old rule removed every
    non-preserved hydrogen) - witness of the defect on the model of the OLD code *)
Definition implicit_hydrogen_old (g : mgraph) (pres : list Z) : mgraph :=
  let rm n := is_Hn g n && negb (mem n (preserved g pres)) in
  let ns := fold_left (ih_pass2_h g) (preserved g pres) (ih_pass1 g) in
  LG (filter (fun p => negb (rm (fst p))) ns)
     (filter (fun e : N * N * Z => let '(u, v, _) := e in negb (rm u) && negb (rm v)) (gedges g)).

Definition ex_bal : mgraph :=
  LG [(1%N, GN 82%N false 0 0 None 1); (2%N, GN EL_H false 0 0 None 2); (3%N, GN EL_H false 0 1 None 3); (4%N, GN EL_H false 0 0 None 4)]
     [(1%N, 2%N, 2); (1%N, 4%N, 2)].

Example C01_hydrogen_balance_nonvacuous :
  wf ex_bal /\ one_parent ex_bal /\ h_total ex_bal = 3 /\ h_total (implicit_hydrogen ex_bal [2]) = 3 /\
  h_total (implicit_hydrogen_old ex_bal [2]) = 2 /\
  label (implicit_hydrogen ex_bal [2]) 3%N <> None /\ label (implicit_hydrogen ex_bal [2]) 4%N = None /\
  option_map g_hc (label (implicit_hydrogen ex_bal [2]) 1%N) = Some 1.
Proof.
  split.
  { apply wf_intro.
    - cbn. repeat constructor; cbn; intuition discriminate.
    - intros a b x I. cbn in I. destruct I as [I|[I|[]]]; inversion I; subst; cbn; intuition discriminate.
    - cbn. repeat constructor; cbn; intuition discriminate. }
  split.
  { intros h Hh. unfold is_Hn in Hh. destruct (label ex_bal h) as [a|] eqn:L; [|discriminate].
    apply assoc_in in L. cbn in L. destruct L as [E|[E|[E|[E|[]]]]]; inversion E; subst; cbn in Hh; try discriminate; cbn; lia. }
  repeat split; try reflexivity. discriminate.
Qed.

(** ... hence what its_to_rsmi hands to GraphToMol stands for as many hydrogens, on each side, as the decomposed graphs *)
Corollary its_to_graphs_balance (I : its) : wf I ->
  (one_parent (fst (its_decompose I)) -> h_total (fst (its_to_graphs I)) = h_total (fst (its_decompose I))) /\
  (one_parent (snd (its_decompose I)) -> h_total (snd (its_to_graphs I)) = h_total (snd (its_decompose I))).
Proof.
  intros W. unfold its_to_graphs. cbn [fst snd].
  split; intros OP; (destruct (hlist I) as [|z l]; [reflexivity|]); cbn [smi_graph];
    apply hydrogen_balance; try exact OP; apply dec_wf; exact W.
Qed.

(** the hypothesis [one_parent] is needed: a hydrogen bridging two non-hydrogen atoms is taken up by BOTH hcounts (the code
    counts hydrogen neighbours per atom), so folding it creates a hydrogen.  Such graphs do not come out of a sanitised RDKit
    molecule (hydrogen with two bonds); the `ih` population contains them and model and code agree on them. *)
Definition ex_bridge : mgraph :=
  LG [(1%N, GN 82%N false 0 0 None 1); (2%N, GN EL_H false 0 0 None 2); (3%N, GN 82%N false 0 0 None 3)] [(1%N, 2%N, 2); (2%N, 3%N, 2)].
Example C01_hydrogen_balance_needs_one_parent :
  ~ one_parent ex_bridge /\ h_total ex_bridge = 1 /\ h_total (implicit_hydrogen ex_bridge []) = 2.
Proof.
  split; [|split; reflexivity]. intros OP. specialize (OP 2%N eq_refl). cbn in OP. lia.
Qed.
