(** C03 — _explicit_h for EVERY visiting order of a hydrogen-transfer group (model/C03_Order.v).

    The pairing of donors with recipients inside one group depends on the order in which the atoms of the group are
    visited (a Python set: CPython's hash-table order, not the sorted order).  Everything proved about [explicit_h]
    (accounting, shape, wiring, usage, crash condition) is proved here for [explicit_h_ord ord] with [ord] any function
    that returns a duplicate-free rearrangement of its argument; [explicit_h] is the instance [ord = sort_N] and
    [ord_of tbl] (recorded orders, the function the correspondence runs) is another one.  Stdlib lists only. *)
From Coq Require Import List NArith ZArith Bool Lia Permutation.
From SK Require Import lib.Tok lib.LGraph model.C03_Model model.C03_Order proof.C03_Proof proof.C03_Glue proof.C03_ExplicitH
                       proof.C03_ExplicitShape proof.C03_ExplicitTotal proof.C03_Wiring proof.C03_WiringCount proof.C03_Expand.
Import ListNotations.
Local Open Scope Z_scope.

(** * the instance the older theorems are about *)
Lemma apply_migrations_eq T ms :
  apply_migrations T ms =
  let '(T1, _) := fold_left addH_step ms (T, N.succ (max_id T)) in fold_left dec_step ms T1.
Proof. reflexivity. Qed.

Lemma all_migrations_ord_sort T : all_migrations_ord sort_N T = all_migrations T.
Proof. reflexivity. Qed.

Theorem explicit_h_ord_sort T : explicit_h_ord sort_N T = explicit_h T.
Proof.
  unfold explicit_h_ord, explicit_h. rewrite all_migrations_ord_sort. destruct (all_migrations T) as [ms|]; [|reflexivity].
  unfold apply_migrations. destruct (fold_left _ ms (T, N.succ (max_id T))) as [T1 h1]. reflexivity.
Qed.

(** * sums over a rearranged list *)
Lemma sumF_perm (G : N -> Z) l1 l2 : Permutation l1 l2 -> sumF G l1 = sumF G l2.
Proof. induction 1; simpl; lia. Qed.
Lemma filter_perm {A} (f : A -> bool) l1 l2 : Permutation l1 l2 -> Permutation (filter f l1) (filter f l2).
Proof.
  induction 1 as [|x l l' P IH|x y l|l l' l'' P1 IH1 P2 IH2]; simpl.
  - constructor.
  - destruct (f x); [constructor|]; exact IH.
  - destruct (f x), (f y); try apply Permutation_refl. apply perm_swap.
  - eapply perm_trans; eauto.
Qed.
Lemma comp_balancedb_perm T c1 c2 : Permutation c1 c2 -> comp_balancedb T c1 = comp_balancedb T c2.
Proof.
  intros P. unfold comp_balancedb.
  rewrite (sumF_perm (dl_of T) _ _ (filter_perm (fun n => 0 <? dl_of T n) _ _ P)).
  rewrite (sumF_perm (fun n => - dl_of T n) _ _ (filter_perm (fun n => dl_of T n <? 0) _ _ P)). reflexivity.
Qed.
Lemma comp_exactb_perm T c1 c2 : Permutation c1 c2 -> comp_exactb T c1 = comp_exactb T c2.
Proof.
  intros P. unfold comp_exactb.
  rewrite (sumF_perm (dl_of T) _ _ (filter_perm (fun n => 0 <? dl_of T n) _ _ P)).
  rewrite (sumF_perm (fun n => - dl_of T n) _ _ (filter_perm (fun n => dl_of T n <? 0) _ _ P)). reflexivity.
Qed.

Section AnyOrder.
  Variable ord : list N -> list N.
  Hypothesis ord_in : forall l x, In x (ord l) <-> In x l.
  Hypothesis ord_nodup : forall l, NoDup l -> NoDup (ord l).

  Lemma mem_ord x l : mem x (ord l) = mem x l.
  Proof.
    destruct (mem x l) eqn:E.
    - apply (proj2 (mem_spec x (ord l))). apply (proj2 (ord_in l x)). apply (proj1 (mem_spec x l)). exact E.
    - apply (mem_iff_in x (ord l) false). intros I. apply (proj1 (ord_in l x)) in I. apply (proj2 (mem_spec x l)) in I. congruence.
  Qed.

  Lemma ord_perm_sort c : NoDup c -> Permutation (ord c) (sort_N c).
  Proof.
    intros Hc. apply NoDup_Permutation; [apply ord_nodup; exact Hc|apply nodup_sort_N; exact Hc|].
    intros x. rewrite ord_in, in_sort_N_iff. tauto.
  Qed.

  Lemma comp_foldo_none T cs : fold_left (comp_step_ord ord T) cs None = None.
  Proof. induction cs; simpl; auto. Qed.

  Lemma explicit_h_ord_unfold T T' ms : explicit_h_ord ord T = Some (T', ms) ->
    all_migrations_ord ord T = Some ms /\
    exists T1 h1, fold_left addH_step ms (T, N.succ (max_id T)) = (T1, h1) /\ T' = fold_left dec_step ms T1.
  Proof.
    unfold explicit_h_ord. destruct (all_migrations_ord ord T) as [l|]; [|discriminate].
    rewrite apply_migrations_eq.
    destruct (fold_left addH_step l (T, N.succ (max_id T))) as [T1 h1] eqn:E.
    intros H. inversion H; subst. split; [reflexivity|]. exists T1, h1. split; [exact E|reflexivity].
  Qed.

  (** every migration stays inside one component, donor with a surplus, recipient with a deficit *)
  Lemma comp_foldo_in T cs : forall acc res, fold_left (comp_step_ord ord T) cs (Some acc) = Some res ->
    forall sd, In sd res -> In sd acc \/
      exists comp, In comp cs /\ In (fst sd) comp /\ In (snd sd) comp /\ 0 < dl_of T (fst sd) /\ dl_of T (snd sd) < 0.
  Proof.
    induction cs as [|c r IH]; cbn [fold_left]; intros acc res H sd I.
    - inversion H; subst. auto.
    - unfold comp_step_ord at 2 in H. destruct (migrations_of T (ord c)) as [ms|] eqn:E; [|rewrite comp_foldo_none in H; discriminate].
      destruct (IH _ _ H sd I) as [I1|(comp & I1 & R)]; [|right; exists comp; split; [right; exact I1|exact R]].
      apply in_app_or in I1. destruct I1 as [I1|I1]; [auto|]. right. exists c. split; [left; reflexivity|].
      destruct (migrations_of_in T _ ms E sd I1) as (A & B & C & D).
      split; [apply (proj1 (ord_in c _)); exact A|]. split; [apply (proj1 (ord_in c _)); exact B|auto].
  Qed.

  Lemma migrations_are_atoms_ord T ms : all_migrations_ord ord T = Some ms ->
    forall sd, In sd ms -> has_node T (fst sd) = true /\ has_node T (snd sd) = true.
  Proof.
    unfold all_migrations_ord. intros H sd I.
    destruct (comp_foldo_in T _ _ _ H sd I) as [[]|(c & _ & _ & _ & H1 & H2)]. split; apply dl_has; lia.
  Qed.

  (** * accounting *)
  Theorem explicit_h_ord_accounting T T' ms : NoDup (node_ids T) -> explicit_h_ord ord T = Some (T', ms) ->
    (forall sd, In sd ms -> has_node T (fst sd) = true /\ has_node T (snd sd) = true) /\
    (forall e, elem_count e (fst (its_decompose T')) = elem_count e (fst (its_decompose T)) /\
               elem_count e (snd (its_decompose T')) = elem_count e (snd (its_decompose T))) /\
    (total_charge (fst (its_decompose T')) = total_charge (fst (its_decompose T)) /\
     total_charge (snd (its_decompose T')) = total_charge (snd (its_decompose T))) /\
    (forall a b, In a (node_ids T) -> In b (node_ids T) -> adj T' a b = adj T a b) /\
    (forall n a, label T n = Some a -> exists a', label T' n = Some a' /\ same_but_hc a a') /\
    length (gnodes T') = (length (gnodes T) + length ms)%nat.
  Proof.
    intros Hnd H. destruct (explicit_h_ord_unfold T T' ms H) as (Hm & T1 & h1 & E1 & ->).
    pose proof (migrations_are_atoms_ord T ms Hm) as Hat.
    destruct (addH_fold ms T (N.succ (max_id T)) T1 h1 E1 Hnd) as (A1 & A2 & A3 & A4 & A5).
    { intros n I. pose proof (max_id_ge T n I). lia. }
    assert (Hat1 : forall sd, In sd ms -> has_node T1 (fst sd) = true /\ has_node T1 (snd sd) = true).
    { intros sd I. destruct (Hat sd I) as [H1 H2]. apply has_node_label in H1, H2. destruct H1 as [a Ha], H2 as [b Hb].
      split; apply has_node_label; eauto. }
    assert (SUM : forall w cG cH, (forall a, w (dec_G a) = w a - cG) -> (forall a, w (dec_H a) = w a - cH) ->
                  sumZ w (fold_left dec_step ms T1) = sumZ w T + Z.of_nat (length ms) * (w H_inode - cG - cH)).
    { intros w cG cH HG HH. rewrite (dec_fold_sum w cG cH HG HH ms T1 A1 Hat1), A2. lia. }
    split; [exact Hat|]. split; [|split; [|split; [|split]]].
    - intros e. unfold elem_count, its_decompose; cbn [fst snd]. rewrite !count_el_dec, !total_hc_dec.
      rewrite (SUM (fun a => if N.eqb (a_el (iG a)) e then 1 else 0) 0 0) by (intros; simpl; lia).
      rewrite (SUM (fun a => if N.eqb (a_el (iH a)) e then 1 else 0) 0 0) by (intros; simpl; lia).
      rewrite (SUM (fun a => a_hc (iG a)) 1 0) by (intros; simpl; lia).
      rewrite (SUM (fun a => a_hc (iH a)) 0 1) by (intros; simpl; lia).
      cbn [H_inode iG iH a_el a_hc]. destruct (N.eqb_spec e EL_H) as [->|Hne].
      + rewrite N.eqb_refl. lia.
      + destruct (N.eqb_spec EL_H e); [congruence|]. lia.
    - unfold its_decompose; cbn [fst snd]. rewrite !total_charge_dec.
      rewrite (SUM (fun a => a_ch (iG a)) 0 0) by (intros; simpl; lia).
      rewrite (SUM (fun a => a_ch (iH a)) 0 0) by (intros; simpl; lia).
      cbn [H_inode iG iH a_ch]. lia.
    - intros a b Ia Ib. unfold adj. rewrite dec_fold_edges. apply A4.
      + pose proof (max_id_ge T a Ia). lia.
      + pose proof (max_id_ge T b Ib). lia.
    - intros n a Ha. apply dec_fold_label. apply A3. exact Ha.
    - rewrite dec_fold_len. exact A5.
  Qed.

  (** * shape *)
  Theorem explicit_h_ord_shape T T' ms : NoDup (node_ids T) -> explicit_h_ord ord T = Some (T', ms) ->
    gedges T' = gedges T ++ new_edges (N.succ (max_id T)) ms /\
    node_ids T' = node_ids T ++ map fst (new_nodes (N.succ (max_id T)) ms) /\
    (forall k a, In (k, a) (new_nodes (N.succ (max_id T)) ms) -> label T' k = Some H_inode) /\
    (forall n a, label T n = Some a ->
       exists a', label T' n = Some a' /\
         a_hc (iG a') = a_hc (iG a) - occurrences n (map fst ms) /\ a_hc (iH a') = a_hc (iH a) - occurrences n (map snd ms)).
  Proof.
    intros Hnd H. destruct (explicit_h_ord_unfold T T' ms H) as (Hm & T1 & h1 & E1 & ->).
    pose proof (migrations_are_atoms_ord T ms Hm) as Hat.
    destruct (addH_fold_lists ms _ _ _ _ E1) as [N1 N2].
    destruct (addH_fold ms T (N.succ (max_id T)) T1 h1 E1 Hnd) as (A1 & _ & A3 & _ & _).
    { intros n I. pose proof (max_id_ge T n I). lia. }
    split; [|split; [|split]].
    - rewrite dec_fold_edges. exact N2.
    - rewrite dec_fold_ids. unfold node_ids. rewrite N1, map_app. reflexivity.
    - intros k a I. destruct (new_nodes_ge _ _ _ _ I) as [Hk ->]. rewrite dec_fold_label_other.
      + apply assoc_nodup_in; [exact A1|]. rewrite N1. apply in_or_app. right. exact I.
      + intros sd Isd. destruct (Hat sd Isd) as [H1 H2]. apply has_node_label in H1, H2. destruct H1 as [x Hx], H2 as [y Hy].
        unfold label in Hx, Hy. apply assoc_in in Hx, Hy.
        pose proof (max_id_ge T (fst sd) (in_map fst _ _ Hx)). pose proof (max_id_ge T (snd sd) (in_map fst _ _ Hy)).
        cbn [fst] in *. split; lia.
    - intros n a Ha. apply dec_fold_hc. apply A3. exact Ha.
  Qed.

  (** * wiring: every new hydrogen joins a donor and a recipient of ONE group, whatever the visiting order *)
  Theorem explicit_h_ord_wiring T T' ms : NoDup (node_ids T) -> explicit_h_ord ord T = Some (T', ms) ->
    gedges T' = gedges T ++ new_edges (N.succ (max_id T)) ms /\
    forall sd, In sd ms ->
      same_group T (fst sd) (snd sd) /\ 0 < dl_of T (fst sd) /\ dl_of T (snd sd) < 0.
  Proof.
    intros Hnd H. split; [exact (proj1 (explicit_h_ord_shape T T' ms Hnd H))|].
    destruct (explicit_h_ord_unfold T T' ms H) as (Hm & _). unfold all_migrations_ord in Hm.
    intros sd I. destruct (comp_foldo_in T _ _ _ Hm sd I) as [[]|(comp & Ic & A & B & C & D)].
    split; [|auto]. exact (components_same_group T comp (fst sd) (snd sd) Ic A B).
  Qed.

  (** * usage *)
  Lemma comp_foldo_count T cs : good_cs cs -> forall acc res, fold_left (comp_step_ord ord T) cs (Some acc) = Some res ->
    forall x,
      occurrences x (map fst res) = occurrences x (map fst acc) + (if existsb (mem x) cs then Z.max 0 (dl_of T x) else 0) /\
      0 <= occurrences x (map snd res) - occurrences x (map snd acc) <= (if existsb (mem x) cs then Z.max 0 (- dl_of T x) else 0).
  Proof.
    induction cs as [|c r IH]; intros [G1 G2] acc res H x.
    - simpl in H. inversion H; subst. simpl. lia.
    - cbn [fold_left] in H. unfold comp_step_ord at 2 in H.
      destruct (migrations_of T (ord c)) as [ms|] eqn:E; [|rewrite comp_foldo_none in H; discriminate].
      inversion G1 as [|? ? N1 N2]; subst. inversion G2 as [|? ? D1 D2]; subst.
      destruct (migrations_of_count T (ord c) ms (ord_nodup c N1) E) as [A B].
      destruct (IH (conj N2 D2) _ _ H x) as [A' B']. specialize (A x). specialize (B x). rewrite mem_ord in A, B.
      rewrite !map_app, !occurrences_app in A', B'. cbn [existsb].
      assert (X : mem x c = true -> existsb (mem x) r = false).
      { intros Hm. apply mem_spec in Hm. destruct (existsb (mem x) r) eqn:Ee; [|reflexivity]. exfalso.
        apply existsb_exists in Ee. destruct Ee as (c2 & I2 & M2). apply mem_spec in M2.
        rewrite Forall_forall in D1. exact (D1 c2 I2 x Hm M2). }
      destruct (mem x c) eqn:Ec.
      + rewrite (X eq_refl) in A', B'. cbn [orb]. lia.
      + cbn [orb]. destruct (existsb (mem x) r); lia.
  Qed.

  Theorem explicit_h_ord_usage T T' ms : explicit_h_ord ord T = Some (T', ms) ->
    forall x,
      occurrences x (map fst ms) = (if grouped T x then Z.max 0 (dl_of T x) else 0) /\
      0 <= occurrences x (map snd ms) <= (if grouped T x then Z.max 0 (- dl_of T x) else 0).
  Proof.
    intros H x. destruct (explicit_h_ord_unfold T T' ms H) as (Hm & _). unfold all_migrations_ord in Hm.
    destruct (comp_foldo_count T _ (components_good _ (pair_to_nodes_nodup T)) [] ms Hm x) as [A B].
    cbn [map] in A, B. rewrite occurrences_nil in A, B. unfold grouped. split; lia.
  Qed.

  Lemma comp_foldo_exact T cs : good_cs cs -> forallb (fun c => comp_exactb T (sort_N c)) cs = true ->
    forall acc res, fold_left (comp_step_ord ord T) cs (Some acc) = Some res ->
    forall x, occurrences x (map snd res) = occurrences x (map snd acc) + (if existsb (mem x) cs then Z.max 0 (- dl_of T x) else 0).
  Proof.
    induction cs as [|c r IH]; intros [G1 G2] Hex acc res H x.
    - simpl in H. inversion H; subst. simpl. lia.
    - cbn [fold_left] in H. unfold comp_step_ord at 2 in H. cbn [forallb] in Hex. apply andb_prop in Hex. destruct Hex as [Hex1 Hex2].
      destruct (migrations_of T (ord c)) as [ms|] eqn:E; [|rewrite comp_foldo_none in H; discriminate].
      inversion G1 as [|? ? N1 N2]; subst. inversion G2 as [|? ? D1 D2]; subst.
      rewrite <- (comp_exactb_perm T _ _ (ord_perm_sort c N1)) in Hex1.
      pose proof (migrations_of_exact T (ord c) ms (ord_nodup c N1) Hex1 E x) as B. rewrite mem_ord in B.
      pose proof (IH (conj N2 D2) Hex2 _ _ H x) as B'. rewrite map_app, occurrences_app in B'. cbn [existsb].
      assert (X : mem x c = true -> existsb (mem x) r = false).
      { intros Hm. apply mem_spec in Hm. destruct (existsb (mem x) r) eqn:Ee; [|reflexivity]. exfalso.
        apply existsb_exists in Ee. destruct Ee as (c2 & I2 & M2). apply mem_spec in M2.
        rewrite Forall_forall in D1. exact (D1 c2 I2 x Hm M2). }
      destruct (mem x c) eqn:Ec.
      + rewrite (X eq_refl) in B'. cbn [orb]. lia.
      + cbn [orb]. destruct (existsb (mem x) r); lia.
  Qed.

  Theorem explicit_h_ord_usage_exact T T' ms : explicit_h_ord ord T = Some (T', ms) -> pairs_exactb T = true ->
    forall x, occurrences x (map snd ms) = (if grouped T x then Z.max 0 (- dl_of T x) else 0).
  Proof.
    intros H Hex x. destruct (explicit_h_ord_unfold T T' ms H) as (Hm & _). unfold all_migrations_ord in Hm.
    pose proof (comp_foldo_exact T _ (components_good _ (pair_to_nodes_nodup T)) Hex [] ms Hm x) as B.
    cbn [map] in B. rewrite occurrences_nil in B. unfold grouped. lia.
  Qed.

  (** * the crash condition does not depend on the order *)
  Lemma comp_foldo_total T cs : Forall (@NoDup N) cs -> forall acc,
    match fold_left (comp_step_ord ord T) cs (Some acc) with
    | Some _ => forallb (fun c => comp_balancedb T (sort_N c)) cs = true
    | None => forallb (fun c => comp_balancedb T (sort_N c)) cs = false
    end.
  Proof.
    induction cs as [|c r IH]; intros Hnd acc; [reflexivity|]. inversion Hnd as [|? ? N1 N2]; subst.
    cbn [fold_left forallb]. unfold comp_step_ord at 2. pose proof (migrations_of_total T (ord c)) as Hc.
    rewrite comp_okb_balancedb, (comp_balancedb_perm T _ _ (ord_perm_sort c N1)) in Hc.
    destruct (migrations_of T (ord c)) as [ms|].
    - rewrite Hc. exact (IH N2 (acc ++ ms)).
    - rewrite Hc, comp_foldo_none. reflexivity.
  Qed.

  Theorem explicit_h_ord_crash_iff T : explicit_h_ord ord T = None <-> pairs_okb T = false.
  Proof.
    unfold explicit_h_ord, pairs_okb, all_migrations_ord.
    pose proof (comp_foldo_total T (components (pair_to_nodes T)) (proj1 (components_good _ (pair_to_nodes_nodup T))) []) as H.
    destruct (fold_left (comp_step_ord ord T) (components (pair_to_nodes T)) (Some [])) as [ms|].
    - rewrite H. split; discriminate.
    - rewrite H. split; reflexivity.
  Qed.

  (** the same atoms are used, the same number of times, as in the sorted order: only the PARTNERS may differ *)
  Theorem explicit_h_ord_same_usage T T' ms T0 ms0 :
    explicit_h_ord ord T = Some (T', ms) -> explicit_h T = Some (T0, ms0) ->
    (forall x, occurrences x (map fst ms) = occurrences x (map fst ms0)) /\
    (pairs_exactb T = true -> forall x, occurrences x (map snd ms) = occurrences x (map snd ms0)).
  Proof.
    intros H H0. split.
    - intros x. rewrite (proj1 (explicit_h_ord_usage T T' ms H x)), (proj1 (explicit_h_usage T T0 ms0 H0 x)). reflexivity.
    - intros Hex x. rewrite (explicit_h_ord_usage_exact T T' ms H Hex x), (explicit_h_usage_exact T T0 ms0 H0 Hex x). reflexivity.
  Qed.

  (** * gluing + _explicit_h *)
  Theorem explicit_h_ord_conserve host rc m T T' ms :
    wf_hostb host = true -> wf_rcb rc = true -> match_rcb host rc m = true -> glue host rc m = Some T ->
    balancedb rc = true -> explicit_h_ord ord T = Some (T', ms) ->
    (forall e, elem_count e (fst (its_decompose T')) = elem_count e (snd (its_decompose T'))) /\
    total_charge (fst (its_decompose T')) = total_charge (snd (its_decompose T')) /\
    (forall e, elem_count e (fst (its_decompose T')) = elem_count e (mol_of_host host)) /\
    (forall a b, In a (node_ids host) -> In b (node_ids host) -> bondG T' a b = adj host a b).
  Proof.
    intros Hwh Hwr Hm Hg Hb He.
    pose proof (glued_nodup host rc m T Hwh Hwr Hm Hg) as Hnd.
    destruct (explicit_h_ord_accounting T T' ms Hnd He) as (_ & B1 & (B2 & B3) & B4 & _).
    destruct (conserve_balanced host rc m T Hwh Hwr Hm Hg Hb) as (C1 & C2).
    destruct (left_is_host host rc m T Hwh Hwr Hm Hg) as (L1 & _ & L3).
    destruct (left_is_host_dec host rc m T Hwh Hwr Hm Hg) as (D1 & _).
    split; [|split; [|split]].
    - intros e. destruct (B1 e) as [E1 E2]. rewrite E1, E2. apply C1.
    - rewrite B2, B3. exact C2.
    - intros e. rewrite (proj1 (B1 e)). unfold elem_count, count_el, total_hc. rewrite D1. reflexivity.
    - intros a b Ia Ib. unfold bondG. rewrite B4 by (rewrite L1; assumption). apply L3.
  Qed.

  (** expand, glue, _explicit_h *)
  Theorem explicit_path_ord host nodes rc m T T' ms :
    wf_hostb host = true -> wf_hostb (h_to_explicit host nodes) = true -> wf_rcb rc = true ->
    match_rcb (h_to_explicit host nodes) rc m = true -> glue (h_to_explicit host nodes) rc m = Some T ->
    explicit_h_ord ord T = Some (T', ms) ->
    (forall e, elem_count e (fst (its_decompose T')) = elem_count e (mol_of_host host)) /\
    total_charge (fst (its_decompose T')) = total_charge (mol_of_host host) /\
    (forall a b, In a (node_ids host) -> In b (node_ids host) -> bondG T' a b = adj host a b) /\
    (balancedb rc = true ->
       (forall e, elem_count e (fst (its_decompose T')) = elem_count e (snd (its_decompose T'))) /\
       total_charge (fst (its_decompose T')) = total_charge (snd (its_decompose T'))).
  Proof.
    intros Hwh Hwx Hwr Hm Hg He.
    destruct (h_to_explicit_accounting host nodes (wf_host_nodup host Hwh)) as (X1 & X2 & X3 & X4 & _).
    pose proof (glued_nodup _ rc m T Hwx Hwr Hm Hg) as Hnd.
    destruct (explicit_h_ord_accounting T T' ms Hnd He) as (_ & B1 & (B2 & B3) & B4 & _).
    destruct (left_is_host _ rc m T Hwx Hwr Hm Hg) as (L1 & _ & L3).
    destruct (left_is_host_dec _ rc m T Hwx Hwr Hm Hg) as (D1 & _).
    assert (Hold : forall a, In a (node_ids host) -> In a (node_ids T)).
    { intros a Ia. rewrite L1. unfold node_ids in Ia. apply in_map_iff in Ia. destruct Ia as ([k v] & <- & Ia).
      destruct (X4 k v (assoc_nodup_in k (gnodes host) v (wf_host_nodup host Hwh) Ia)) as (a' & Hl & _).
      unfold label in Hl. apply assoc_in in Hl. exact (in_map fst _ (k, a') Hl). }
    split; [|split; [|split]].
    - intros e. rewrite (proj1 (B1 e)), <- X1. unfold elem_count, count_el, total_hc. rewrite D1. reflexivity.
    - rewrite B2, <- X2. unfold total_charge. rewrite D1. reflexivity.
    - intros a b Ia Ib. unfold bondG. rewrite B4 by (apply Hold; assumption). fold (bondG T a b). rewrite L3. apply X3; assumption.
    - intros Hb. destruct (conserve_balanced _ rc m T Hwx Hwr Hm Hg Hb) as (C1 & C2). split.
      + intros e. destruct (B1 e) as [E1 E2]. rewrite E1, E2. apply C1.
      + rewrite B2, B3. exact C2.
  Qed.
End AnyOrder.

(** * the order function the correspondence runs satisfies the two hypotheses *)
Lemma nodupb_NoDup l : nodupb l = true -> NoDup l.
Proof.
  induction l as [|x r IH]; simpl; intros H; [constructor|]. apply andb_prop in H. destruct H as [H1 H2].
  constructor; [|apply IH; exact H2]. intros I. apply mem_spec in I. rewrite I in H1. discriminate.
Qed.

Lemma same_setb_spec c o : same_setb c o = true -> NoDup o /\ forall x, In x o <-> In x c.
Proof.
  unfold same_setb. intros H. apply andb_prop in H. destruct H as [H H4]. apply andb_prop in H. destruct H as [H H3].
  apply andb_prop in H. destruct H as [H1 _]. split; [apply nodupb_NoDup; exact H1|].
  rewrite forallb_forall in H3, H4. intros x. split; intros I.
  - apply mem_spec. apply H3. exact I.
  - apply mem_spec. apply H4. exact I.
Qed.

Lemma ord_of_in tbl l x : In x (ord_of tbl l) <-> In x l.
Proof.
  unfold ord_of. destruct (find (same_setb l) tbl) as [o|] eqn:E.
  - apply find_some in E. destruct E as [_ E]. exact (proj2 (same_setb_spec l o E) x).
  - apply in_sort_N_iff.
Qed.
Lemma ord_of_nodup tbl l : NoDup l -> NoDup (ord_of tbl l).
Proof.
  unfold ord_of. destruct (find (same_setb l) tbl) as [o|] eqn:E.
  - apply find_some in E. destruct E as [_ E]. intros _. exact (proj1 (same_setb_spec l o E)).
  - apply nodup_sort_N.
Qed.
