(** C11 (round 5, after the seeded change C11-w4-1) — lone atoms are never exchanged: a component consisting of a single
    atom is an orbit of its own, however many equally labelled lone atoms the graph has (component swaps excluded), and a
    graph that consists of lone atoms only has exactly one counted automorphism.  Stdlib lists. *)
From Coq Require Import List NArith ZArith Bool Arith Lia.
From SK Require Import lib.Tok lib.LGraph lib.Mono lib.Reach model.C11_Model
     proof.C11_Aut proof.C11_WL proof.C11_Dedup proof.C11_Main proof.C11_Comp proof.C11_Extend proof.C11_Count.
Import ListNotations.

Theorem lone_atoms_fixed (fn : nlab -> N) (fe : elab -> N) (g : graph) : wf g ->
  (forall u o, In [u] (components g) -> In o (a_orbits (analyze fn fe g)) -> In u o -> forall v, In v o <-> v = u) /\
  (forall m, In m (filter (keepsb g) (auts fn fe g)) ->
     forall u, In [u] (components g) -> app_map m u = u) /\
  ((forall c, In c (components g) -> exists u, c = [u]) -> a_count (analyze fn fe g) = 1%N).
Proof.
  intros Hwf. pose proof (wf_simple g Hwf) as Hs. split; [|split].
  - intros u o Hc Ho Hu v. rewrite (orbits_no_swaps fn fe g Hwf o u v Ho Hu). split.
    + intros (s & _ & Hk & <-). specialize (Hk [u] u Hc (or_introl eq_refl)). destruct Hk as [E|[]]. symmetry. exact E.
    + intros ->. exists (fun x => x). split; [exact (proj1 (aut_group fn fe g Hs))|]. split; [intros c x _ Hx; exact Hx | reflexivity].
  - intros m Hm u Hc. apply filter_In in Hm. destruct Hm as [_ Hk]. apply keepsb_spec in Hk.
    specialize (Hk [u] u Hc (or_introl eq_refl)). destruct Hk as [E|[]]. symmetry. exact E.
  - intros Hall. destruct (count_no_swaps fn fe g Hwf) as (Hcount & Hspec). rewrite Hcount. unfold kept_auts in *.
    (* every kept automorphism is the identity on the nodes, so there is exactly one: the listing is duplicate-free *)
    assert (Hone : forall m, In m (filter (keepsb g) (auts fn fe g)) -> m = aut_pairs g (fun x => x)).
    { intros m Hm. destruct (proj1 (Hspec m) Hm) as (s & _ & Hk & ->). apply aut_pairs_ext. intros u Hu.
      destruct (components_spec g Hwf) as (_ & _ & C3). destruct (C3 u Hu) as (c & Hc & Huc).
      destruct (Hall c Hc) as (w & ->). destruct Huc as [<-|[]].
      specialize (Hk [w] w Hc (or_introl eq_refl)). destruct Hk as [E|[]]. symmetry. exact E. }
    assert (Hid : In (aut_pairs g (fun x => x)) (filter (keepsb g) (auts fn fe g))).
    { apply Hspec. exists (fun x => x). split; [exact (proj1 (aut_group fn fe g Hs))|]. split; [intros c x _ Hx; exact Hx | reflexivity]. }
    assert (Hnd : NoDup (filter (keepsb g) (auts fn fe g))) by (apply NoDup_filter, (auts_nodup fn fe g Hs)).
    destruct (filter (keepsb g) (auts fn fe g)) as [|a [|b r]] eqn:E; [destruct Hid | reflexivity|].
    exfalso. inversion Hnd as [|? ? Hnot _]; subst. apply Hnot.
    rewrite (Hone a (or_introl eq_refl)), <- (Hone b (or_intror (or_introl eq_refl))). left. reflexivity.
Qed.

(** non-vacuity: [Ca+2].[Cl-].[Cl-] - three lone atoms, two of them alike: three singleton orbits, one automorphism counted
    (the whole group, swaps included, has two) *)
Definition ex_cacl2 : graph :=
  LG [(1%N, (1%N, 1%N, 1%N)); (2%N, (2%N, 2%N, 2%N)); (3%N, (2%N, 2%N, 2%N))] [].
Example ex_lone :
  wfb ex_cacl2 = true /\ components ex_cacl2 = [[1]; [2]; [3]]%N /\
  a_orbits (analyze n_exact e_order ex_cacl2) = [[1]; [2]; [3]]%N /\ a_count (analyze n_exact e_order ex_cacl2) = 1%N /\
  length (auts n_exact e_order ex_cacl2) = 2%nat.
Proof. vm_compute. repeat split. Qed.
