(** C18 — under integer_ids=True the known finding C18:view-id-collision does not occur: species and reactions are numbered
    separately, so the numbered network is inside the domain of the network theorems WITHOUT any disjointness assumption on
    names, and clause 2 holds for EVERY injective renaming of the species (also onto reaction ids). *)
From Coq Require Import List NArith ZArith Bool Arith Lia Permutation.
From SK Require Import lib.IRSortKeys lib.IRCore lib.IRSearch lib.C18_IRValid model.C18_Model model.C18_IntIdsModel
  proof.C18_Spec proof.C18_Graph proof.C18_Canon proof.C18_View proof.C18_NetBip proof.C18_Net proof.C18_IntIds.
Import ListNotations.

(** what CRNHyperGraph guarantees structurally: species, reaction ids and the species inside one side are dict keys *)
Definition net_struct (n : net) : Prop :=
  NoDup (nspecies n) /\ NoDup (map rid (nrxns n)) /\ net_closed n /\
  forall r, In r (nrxns n) -> NoDup (map fst (lhs r)) /\ NoDup (map fst (rhs r)).

Section Num.
Variable n : net.
Hypothesis Hs : net_struct n.
Let NS := N.of_nat (length (sortN (nspecies n))).

Lemma int_sp_range s : In s (nspecies n) -> (1 <= int_sp n s <= NS)%N.
Proof. intros H. unfold int_sp, NS. pose proof (index_of_range s (sortN (nspecies n)) 0%N (proj2 (sortN_in _ _) H)). lia. Qed.
Lemma int_rx_range e : (NS < int_rx n e)%N.
Proof. unfold int_rx, NS. lia. Qed.
Lemma int_sp_inj s s' : In s (nspecies n) -> In s' (nspecies n) -> int_sp n s = int_sp n s' -> s = s'.
Proof.
  intros H H' E. unfold int_sp in E. apply (index_of_inj (sortN (nspecies n)) 0%N); try (apply sortN_in; auto). lia.
Qed.
Lemma int_rx_inj e e' : In e (map rid (nrxns n)) -> In e' (map rid (nrxns n)) -> int_rx n e = int_rx n e' -> e = e'.
Proof.
  intros H H' E. unfold int_rx in E. apply (index_of_inj (sortN (map rid (nrxns n))) 0%N); try (apply sortN_in; auto). lia.
Qed.

Lemma intids_species : nspecies (intids_net n) = map (int_sp n) (nspecies n).
Proof. reflexivity. Qed.
Lemma intids_rids : map rid (nrxns (intids_net n)) = map (int_rx n) (map rid (nrxns n)).
Proof. unfold intids_net. simpl. rewrite !map_map. reflexivity. Qed.

Lemma NoDup_app_ranges (l1 l2 : list N) (b : N) : NoDup l1 -> NoDup l2 -> (forall x, In x l1 -> (x <= b)%N) -> (forall x, In x l2 -> (b < x)%N) ->
  NoDup (l1 ++ l2).
Proof. intros H1 H2 H3 H4. apply NoDup_app_intro; auto. intros x I1 I2. specialize (H3 x I1). specialize (H4 x I2). lia. Qed.

Theorem intids_net_ok st : net_ok st (intids_net n).
Proof.
  destruct Hs as (Hsp & Hr & Hcl & Hside). split; [|split].
  - rewrite intids_species, intids_rids. apply (NoDup_app_ranges _ _ NS).
    + apply NoDup_map_inj_on; auto. intros x y Hx Hy. apply int_sp_inj; auto.
    + apply NoDup_map_inj_on; auto. intros x y Hx Hy. apply int_rx_inj; auto.
    + intros x Hx. apply in_map_iff in Hx. destruct Hx as (s & <- & Hin). apply int_sp_range; auto.
    + intros x Hx. apply in_map_iff in Hx. destruct Hx as (e & <- & Hin). apply int_rx_range.
  - intros r' Hr' sc' Hsc'. unfold intids_net in *. simpl in *. apply in_map_iff in Hr'. destruct Hr' as (r & <- & Hin).
    simpl in Hsc'. unfold int_side in Hsc'. rewrite <- map_app in Hsc'. apply in_map_iff in Hsc'. destruct Hsc' as (sc & <- & Hsc).
    simpl. apply in_map. apply (Hcl r Hin sc Hsc).
  - (* arc keys: (species number, reaction number) for reactant arcs, (reaction number, species number) for product arcs *)
    unfold arcs_of, intids_net. simpl. rewrite flat_map_concat_map, map_map, concat_map, map_map.
    assert (G : forall rs, (forall r, In r rs -> In r (nrxns n)) -> NoDup (map rid rs) ->
              NoDup (concat (map (fun r => map akey (arcs_of_rxn st (Rxn (int_rx n (rid r)) (int_side n (lhs r)) (int_side n (rhs r))))) rs))).
    { induction rs as [|r rs IH]; intros Hin Hnd; simpl; [constructor|]. simpl in Hnd. inversion Hnd as [|? ? Hni Hnd']; subst.
      apply NoDup_app_intro.
      - (* inside one reaction *)
        destruct (Hside r (Hin r (or_introl eq_refl))) as [Hl Hrr].
        unfold arcs_of_rxn. simpl. rewrite map_app, !map_map. unfold akey, asrc, adst. simpl.
        apply NoDup_app_intro.
        + unfold int_side. rewrite map_map. simpl.
          apply (NoDup_map_inj_on (fun sc : N * Z => (int_sp n (fst sc), int_rx n (rid r)))); [|eapply NoDup_map_inv; exact Hl].
          intros x y Hx Hy E. inversion E as [E1].
          assert (Ex : fst x = fst y).
          { apply int_sp_inj; auto; apply (Hcl r (Hin r (or_introl eq_refl))); apply in_or_app; auto. }
          revert Ex. clear - Hl Hx Hy. intros Ex.
          assert (Inj : forall l : list (N * Z), NoDup (map fst l) -> forall a b, In a l -> In b l -> fst a = fst b -> a = b).
          { induction l as [|c l IH]; simpl; intros Hn a b Ha Hb Eab; [contradiction|]. inversion Hn; subst.
            destruct Ha as [<-|Ha], Hb as [<-|Hb]; auto.
            - exfalso. apply H1. rewrite Eab. apply in_map. auto.
            - exfalso. apply H1. rewrite <- Eab. apply in_map. auto. }
          apply (Inj _ Hl); auto.
        + unfold int_side. rewrite map_map. simpl.
          apply (NoDup_map_inj_on (fun sc : N * Z => (int_rx n (rid r), int_sp n (fst sc)))); [|eapply NoDup_map_inv; exact Hrr].
          intros x y Hx Hy E. inversion E as [E1].
          assert (Ex : fst x = fst y).
          { apply int_sp_inj; auto; apply (Hcl r (Hin r (or_introl eq_refl))); apply in_or_app; auto. }
          revert Ex. clear - Hrr Hx Hy. intros Ex.
          assert (Inj : forall l : list (N * Z), NoDup (map fst l) -> forall a b, In a l -> In b l -> fst a = fst b -> a = b).
          { induction l as [|c l IH]; simpl; intros Hn a b Ha Hb Eab; [contradiction|]. inversion Hn; subst.
            destruct Ha as [<-|Ha], Hb as [<-|Hb]; auto.
            - exfalso. apply H1. rewrite Eab. apply in_map. auto.
            - exfalso. apply H1. rewrite <- Eab. apply in_map. auto. }
          apply (Inj _ Hrr); auto.
        + intros k I1 I2. unfold int_side in I1, I2. rewrite map_map in I1, I2. apply in_map_iff in I1, I2.
          destruct I1 as (x & <- & Hx), I2 as (y & E & Hy). simpl in E. inversion E as [[E1 E2]].
          pose proof (int_rx_range (rid r)). pose proof (int_sp_range (fst x) (Hcl r (Hin r (or_introl eq_refl)) x (in_or_app _ _ _ (or_introl Hx)))). lia.
      - apply IH; auto; intros r' I; apply Hin; right; auto.
      - (* different reactions: the reaction number differs *)
        intros k I1 I2. apply in_concat in I2. destruct I2 as (l & Hl & Ik). apply in_map_iff in Hl. destruct Hl as (r' & <- & Hr').
        assert (Hne : rid r <> rid r') by (intro E; apply Hni; rewrite E; apply in_map; auto).
        assert (Hnum : int_rx n (rid r) <> int_rx n (rid r')).
        { intro E. apply Hne. apply int_rx_inj; auto; apply in_map; apply Hin; [left|right]; auto. }
        assert (K : forall r0 k0, In r0 (nrxns n) -> In k0 (map akey (arcs_of_rxn st (Rxn (int_rx n (rid r0)) (int_side n (lhs r0)) (int_side n (rhs r0))))) ->
                    (fst k0 = int_rx n (rid r0) /\ (snd k0 <= NS)%N) \/ (snd k0 = int_rx n (rid r0) /\ (fst k0 <= NS)%N)).
        { intros r0 k0 Hr0 Hk0. unfold arcs_of_rxn in Hk0. simpl in Hk0. rewrite map_app, !map_map in Hk0. unfold int_side in Hk0.
          rewrite !map_map in Hk0. apply in_app_or in Hk0. destruct Hk0 as [Hk0|Hk0]; apply in_map_iff in Hk0; destruct Hk0 as (sc & <- & Hsc);
            unfold akey, asrc, adst; simpl; [right|left]; split; auto;
            apply int_sp_range; apply (Hcl r0 Hr0); apply in_or_app; auto. }
        destruct (K r k (Hin r (or_introl eq_refl)) I1) as [[A1 A2]|[A1 A2]], (K r' k (Hin r' (or_intror Hr')) Ik) as [[B1 B2]|[B1 B2]];
          try congruence; pose proof (int_rx_range (rid r)); pose proof (int_rx_range (rid r')); lia. }
    apply G; auto.
Qed.
End Num.

(* ---------------- clause 2 under integer_ids for every injective species renaming ---------------- *)
Lemma rename_species_struct f n : net_struct n -> inj_on f (nspecies n) -> net_struct (rename_species f n).
Proof.
  intros (Hsp & Hr & Hcl & Hside) Hf. unfold rename_species. split; [|split; [|split]]; simpl.
  - apply NoDup_map_inj_on; auto.
  - rewrite map_map. simpl. exact Hr.
  - intros r' Hr' sc' Hsc'. apply in_map_iff in Hr'. destruct Hr' as (r & <- & Hin). simpl in Hsc'.
    unfold rename_side in Hsc'. rewrite <- map_app in Hsc'. apply in_map_iff in Hsc'. destruct Hsc' as (sc & <- & Hsc). simpl.
    apply in_map. apply (Hcl r Hin sc Hsc).
  - intros r' Hr'. apply in_map_iff in Hr'. destruct Hr' as (r & <- & Hin). simpl. unfold rename_side. rewrite !map_map. simpl.
    destruct (Hside r Hin) as [H1 H2].
    assert (G : forall l : list (N * Z), (forall sc, In sc l -> In (fst sc) (nspecies n)) -> NoDup (map fst l) -> NoDup (map (fun x => f (fst x)) l)).
    { intros l Hl Hn. rewrite <- (map_map fst f). apply NoDup_map_inj_on; auto. intros x y Hx Hy. apply Hf.
      - apply in_map_iff in Hx. destruct Hx as (sc & <- & I). auto.
      - apply in_map_iff in Hy. destruct Hy as (sc & <- & I). auto. }
    split; apply G; auto; intros sc I; apply (Hcl r Hin); apply in_or_app; auto.
Qed.

Lemma coeffs_ok_intids n : coeffs_ok n -> coeffs_ok (intids_net n).
Proof.
  intros Hc r' Hr' sc' Hsc'. unfold intids_net in Hr'. simpl in Hr'. apply in_map_iff in Hr'. destruct Hr' as (r & <- & Hin).
  simpl in Hsc'. unfold int_side in Hsc'. rewrite <- map_app in Hsc'. apply in_map_iff in Hsc'. destruct Hsc' as (sc & <- & Hsc). simpl.
  apply (Hc r Hin sc Hsc).
Qed.

Section Ren.
Variables (f : N -> N) (n : net).
Hypothesis Hs : net_struct n.
Hypothesis Hf : inj_on f (nspecies n).
Let n' := rename_species f n.
Let Hs' : net_struct n' := rename_species_struct f n Hs Hf.

(** the renaming seen on the numbers *)
Definition num_map (x : N) : N :=
  if memN x (map (int_sp n) (nspecies n)) then int_sp n' (f (finv (int_sp n) (nspecies n) x))
  else int_rx n' (finv (int_rx n) (map rid (nrxns n)) x).

Lemma num_map_sp s : In s (nspecies n) -> num_map (int_sp n s) = int_sp n' (f s).
Proof.
  intros H. unfold num_map.
  assert (M : memN (int_sp n s) (map (int_sp n) (nspecies n)) = true) by (apply memN_spec; apply in_map; auto).
  rewrite M. rewrite finv_left; auto. intros x y Hx Hy. apply int_sp_inj; auto.
Qed.
Lemma num_map_rx e : In e (map rid (nrxns n)) -> num_map (int_rx n e) = int_rx n' e.
Proof.
  intros H. unfold num_map.
  destruct (memN (int_rx n e) (map (int_sp n) (nspecies n))) eqn:M.
  - apply memN_spec in M. apply in_map_iff in M. destruct M as (s & E & Hin).
    pose proof (int_sp_range n s Hin). pose proof (int_rx_range n e). lia.
  - rewrite finv_left; auto. intros x y Hx Hy. apply int_rx_inj; auto.
Qed.

Lemma same_count : length (sortN (nspecies n')) = length (sortN (nspecies n)).
Proof.
  rewrite !sortN_length; [|apply Hs|apply Hs']. unfold n', rename_species. simpl. apply map_length.
Qed.

Lemma num_map_inj : inj_on num_map (nspecies (intids_net n) ++ map rid (nrxns (intids_net n))).
Proof.
  rewrite intids_species, intids_rids. intros x y Hx Hy.
  assert (Hfs : forall s, In s (nspecies n) -> In (f s) (nspecies n')) by (intros s I; unfold n', rename_species; simpl; apply in_map; auto).
  assert (Hrid' : map rid (nrxns n') = map rid (nrxns n)) by (unfold n', rename_species; simpl; rewrite map_map; reflexivity).
  apply in_app_or in Hx. apply in_app_or in Hy.
  destruct Hx as [Hx|Hx], Hy as [Hy|Hy]; apply in_map_iff in Hx; apply in_map_iff in Hy;
    destruct Hx as (a & <- & Ha), Hy as (b & <- & Hb).
  - rewrite !num_map_sp by auto. intros E. f_equal. apply Hf; auto. apply (int_sp_inj n'); auto.
  - rewrite num_map_sp, num_map_rx by auto. intros E. exfalso.
    pose proof (int_sp_range n' (f a) (Hfs a Ha)). pose proof (int_rx_range n' b). lia.
  - rewrite num_map_sp, num_map_rx by auto. intros E. exfalso.
    pose proof (int_sp_range n' (f b) (Hfs b Hb)). pose proof (int_rx_range n' a). lia.
  - rewrite !num_map_rx by auto. intros E. f_equal. apply (int_rx_inj n'); auto; rewrite Hrid'; auto.
Qed.

Lemma num_map_variant : net_variant num_map (intids_net n) (intids_net n').
Proof.
  destruct Hs as (Hsp & Hr & Hcl & Hside). split.
  - rewrite !intids_species. unfold n' at 2, rename_species. simpl. rewrite !map_map.
    rewrite (map_ext_in (fun x => num_map (int_sp n x)) (fun x => int_sp n' (f x))) by (intros; apply num_map_sp; auto).
    apply Permutation_refl.
  - exists (nrxns (intids_net n')). split; [|apply Permutation_refl].
    unfold intids_net. simpl. unfold n' at 2, rename_species. simpl. rewrite map_map.
    assert (G : forall rs, (forall r, In r rs -> In r (nrxns n)) ->
              Forall2 (rxn_variant num_map)
                (map (fun r => Rxn (int_rx n (rid r)) (int_side n (lhs r)) (int_side n (rhs r))) rs)
                (map (fun x => Rxn (int_rx n' (rid x)) (int_side n' (rename_side f (lhs x))) (int_side n' (rename_side f (rhs x)))) rs)).
    { induction rs as [|r rs IH]; intros Hin; simpl; constructor; [|apply IH; intros; apply Hin; right; auto].
      assert (Hrin : In r (nrxns n)) by (apply Hin; left; auto).
      assert (Side : forall l, (forall sc, In sc l -> In (fst sc) (nspecies n)) ->
                rename_side num_map (int_side n l) = int_side n' (rename_side f l)).
      { intros l Hl. unfold rename_side, int_side. rewrite !map_map. apply map_ext_in. intros sc Hsc. simpl.
        rewrite num_map_sp; auto. }
      split; [|split]; simpl.
      - symmetry. apply num_map_rx. apply in_map. auto.
      - rewrite Side; [apply Permutation_refl|]. intros sc I. apply (Hcl r Hrin). apply in_or_app. auto.
      - rewrite Side; [apply Permutation_refl|]. intros sc I. apply (Hcl r Hrin). apply in_or_app. auto. }
    apply G. auto.
Qed.

(** with integer_ids=True clause 2 holds for every injective renaming of the species, also one that maps a species onto a
    reaction id *)
Theorem intids_species_renaming st lab p lab' p' : coeffs_ok n ->
  fst (canon_search (view true st (intids_net n))) = Some (lab, p) ->
  fst (canon_search (view true st (intids_net n'))) = Some (lab', p') ->
  lab' = lab /\ geq (canon_graph (view true st (intids_net n')) p') (canon_graph (view true st (intids_net n)) p).
Proof.
  intros Hc Hb Hb'.
  apply (net_canon_invariant_bip st num_map (intids_net n) (intids_net n') lab p lab' p'); auto.
  - apply intids_net_ok. exact Hs.
  - apply intids_net_ok. exact Hs'.
  - apply coeffs_ok_intids. exact Hc.
  - apply num_map_variant.
  - apply num_map_inj.
Qed.
End Ren.
