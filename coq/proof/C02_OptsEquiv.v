(** C02 — get_rc with options commutes with every injective renumbering; it is idempotent when element_key keeps
    element and typesGH. *)
From Coq Require Import List NArith ZArith Bool Lia.
From SK Require Import lib.LGraph lib.C01_GraphLemmas model.C01_Model model.C02_Model proof.C02_Proof proof.C02_Opts.
Import ListNotations.
Local Open Scope Z_scope.

Section EquivX.
Variable f : N -> N.
Hypothesis Hinj : forall a b, f a = f b -> a = b.

Definition mapnx (ns : list (N * xnode)) := map (fun p : N * xnode => (f (fst p), snd p)) ns.
Definition mapex (es : list (N * N * xedge)) := map (fun e : N * N * xedge => let '(a, b, x) := e in (f a, f b, x)) es.
Definition mapstx (st : rcx_state) : rcx_state := (mapnx (fst st), mapex (snd st)).

Lemma has_key_x_equiv n ns : has_key_x (f n) (mapnx ns) = has_key_x n ns.
Proof. unfold has_key_x, mapnx. rewrite (assoc_map_key Hinj). reflexivity. Qed.

Lemma ensure_x_equiv h (g : xits) n ns : ensure_x h (relabel f g) (f n) (mapnx ns) = mapnx (ensure_x h g n ns).
Proof.
  unfold ensure_x. rewrite has_key_x_equiv, (label_relabel Hinj).
  destruct (has_key_x n ns); [reflexivity|]. destruct (label g n); [|reflexivity]. unfold mapnx. rewrite map_app. reflexivity.
Qed.

Lemma is_hh_x_equiv (g : xits) u v : is_hh_x (relabel f g) (f u) (f v) = is_hh_x g u v.
Proof. unfold is_hh_x, is_h_x. rewrite !(label_relabel Hinj). reflexivity. Qed.

Lemma step_changed_x_equiv K m (g : xits) st u v x :
  step_changed_x K m (relabel f g) (mapstx st) (f u, f v, x) = mapstx (step_changed_x K m g st (u, v, x)).
Proof.
  unfold step_changed_x. destruct (include_x m x); [|reflexivity]. unfold mapstx. simpl.
  rewrite !ensure_x_equiv. unfold mapex. rewrite map_app. reflexivity.
Qed.

Lemma step_hh_x_equiv K (g : xits) st u v x :
  step_hh_x K (relabel f g) (mapstx st) (f u, f v, x) = mapstx (step_hh_x K g st (u, v, x)).
Proof.
  unfold step_hh_x. rewrite is_hh_x_equiv. destruct (is_hh_x g u v); [|reflexivity]. unfold mapstx. simpl.
  rewrite !ensure_x_equiv. unfold mapex at 1. rewrite (find_edge_relabel Hinj).
  destruct (find_edge u v (snd st)); [reflexivity|]. unfold mapex. rewrite map_app. reflexivity.
Qed.

Lemma fold_changed_x_equiv K m (g : xits) L : forall st,
  fold_left (step_changed_x K m (relabel f g)) (mapex L) (mapstx st) = mapstx (fold_left (step_changed_x K m g) L st).
Proof.
  induction L as [|[[u v] x] L IH]; intros st; [reflexivity|].
  change (mapex ((u, v, x) :: L)) with ((f u, f v, x) :: mapex L).
  cbn [fold_left]. rewrite step_changed_x_equiv. apply IH.
Qed.

Lemma fold_hh_x_equiv K (g : xits) L : forall st,
  fold_left (step_hh_x K (relabel f g)) (mapex L) (mapstx st) = mapstx (fold_left (step_hh_x K g) L st).
Proof.
  induction L as [|[[u v] x] L IH]; intros st; [reflexivity|].
  change (mapex ((u, v, x) :: L)) with ((f u, f v, x) :: mapex L).
  cbn [fold_left]. rewrite step_hh_x_equiv. apply IH.
Qed.

Lemma fold_charge_equiv K L : forall ns,
  fold_left (step_charge K) (mapnx L) (mapnx ns) = mapnx (fold_left (step_charge K) L ns).
Proof.
  induction L as [|[n a] L IH]; intros ns; [reflexivity|].
  change (mapnx ((n, a) :: L)) with ((f n, a) :: mapnx L). cbn [fold_left]. rewrite <- IH. f_equal.
  unfold step_charge. simpl. rewrite has_key_x_equiv.
  destruct (charge_changed a && negb (has_key_x n ns)); [|reflexivity]. unfold mapnx. rewrite map_app. reflexivity.
Qed.

Lemma fold_reconnect_equiv ns L : forall es,
  fold_left (step_reconnect (mapnx ns)) (mapex L) (mapex es) = mapex (fold_left (step_reconnect ns) L es).
Proof.
  induction L as [|[[u v] x] L IH]; intros es; [reflexivity|].
  change (mapex ((u, v, x) :: L)) with ((f u, f v, x) :: mapex L). cbn [fold_left]. rewrite <- IH. f_equal.
  unfold step_reconnect. rewrite !has_key_x_equiv. unfold mapex at 1. rewrite (find_edge_relabel Hinj).
  destruct (has_key_x u ns && has_key_x v ns && match find_edge u v es with Some _ => false | None => true end); [|reflexivity].
  unfold mapex. rewrite map_app. reflexivity.
Qed.

Theorem rcx_equivariant K d m (g : xits) : get_rc_x K d m (relabel f g) = relabel f (get_rc_x K d m g).
Proof.
  unfold get_rc_x. cbv zeta. change (gedges (relabel f g)) with (mapex (gedges g)).
  change (gnodes (relabel f g)) with (mapnx (gnodes g)).
  assert (forall L1 L2, fold_left (step_hh_x K (relabel f g)) (mapex L2) (fold_left (step_changed_x K m (relabel f g)) (mapex L1) ([], [])) =
                        mapstx (fold_left (step_hh_x K g) L2 (fold_left (step_changed_x K m g) L1 ([], [])))) as E.
  { intros L1 L2. change (@nil (N * xnode), @nil (N * N * xedge)) with (mapstx ([], [])) at 1.
    rewrite fold_changed_x_equiv, fold_hh_x_equiv. reflexivity. }
  rewrite E. unfold mapstx. cbn [fst snd].
  destruct d; [|reflexivity]. rewrite fold_charge_equiv, fold_reconnect_equiv. reflexivity.
Qed.
End EquivX.

(** * the centre under any option setting is a well-formed graph *)
Lemma nodup_snoc (l : list N) n : NoDup l -> ~ In n l -> NoDup (l ++ [n]).
Proof.
  induction l as [|y l IH]; simpl; intros Hl Hni; [constructor; [intros []|constructor]|].
  inversion Hl; subst. constructor; [rewrite in_app_iff; simpl; intuition|apply IH; intuition].
Qed.

Lemma has_key_x_false n (ns : list (N * xnode)) : has_key_x n ns = false -> ~ In n (map fst ns).
Proof. unfold has_key_x. destruct (assoc n ns) eqn:E; [discriminate|]. intros _. apply assoc_none. exact E. Qed.

Lemma ensure_x_nodup h (g : xits) n ns : NoDup (map fst ns) -> NoDup (map fst (ensure_x h g n ns)).
Proof.
  intros Hn. unfold ensure_x. destruct (has_key_x n ns) eqn:Hk; [exact Hn|]. destruct (label g n); [|exact Hn].
  rewrite map_app. simpl. apply nodup_snoc; [exact Hn|apply has_key_x_false; exact Hk].
Qed.

Lemma ins_all_nodup h (g : xits) l : forall ns, NoDup (map fst ns) -> NoDup (map fst (ins_all g h l ns)).
Proof.
  induction l as [|n l IH]; intros ns Hn; [exact Hn|]. unfold ins_all in *. simpl. apply IH, ensure_x_nodup, Hn.
Qed.

Lemma fold_charge_nodup K L : forall ns, NoDup (map fst ns) -> NoDup (map fst (fold_left (step_charge K) L ns)).
Proof.
  induction L as [|[n a] L IH]; intros ns Hn; [exact Hn|]. simpl. apply IH. unfold step_charge. simpl.
  destruct (charge_changed a); simpl; [|exact Hn]. destruct (has_key_x n ns) eqn:Hk; simpl; [exact Hn|].
  rewrite map_app. simpl. apply nodup_snoc; [exact Hn|apply has_key_x_false; exact Hk].
Qed.

Lemma in_add_absent {B} (new : list (N * N * B)) : forall es e, In e (add_absent new es) -> In e es \/ In e new.
Proof.
  induction new as [|[[a b] x] r IH]; intros es e I; [left; exact I|]. unfold add_absent in *. simpl in I.
  apply IH in I. destruct I as [I|I]; [|right; right; exact I].
  destruct (find_edge a b es); [left; exact I|]. apply in_app_iff in I. destruct I as [I|[<-|[]]]; [left; exact I|right; left; reflexivity].
Qed.

Lemma simple_add_absent {B} (new : list (N * N * B)) : forall es, simple es -> simple (add_absent new es).
Proof.
  induction new as [|[[a b] x] r IH]; intros es Hs; [exact Hs|]. unfold add_absent in *. simpl. apply IH.
  destruct (find_edge a b es) eqn:F; [exact Hs|]. apply simple_snoc; assumption.
Qed.

Lemma simple_oute o (es : list (N * N * xedge)) : simple es -> simple (map (oute o) es).
Proof. intros Hs. unfold oute. apply (simple_map_attr (fun _ _ x => o x)). exact Hs. Qed.

Lemma rcx_wf K d m (g : xits) : wf g -> wf (get_rc_x K d m g).
Proof.
  intros W. pose proof (wf_simple W) as Hs. apply wf_intro.
  - unfold node_ids. rewrite gnodes_rcx. unfold ns2.
    assert (NoDup (map fst (ins_all g (sel_attr_hh K) (ends (filter (p_hh g) (gedges g)))
                              (ins_all g (sel_attr K) (ends (filter (p_inc m) (gedges g))) [])))) as H2
        by (apply ins_all_nodup, ins_all_nodup; constructor).
    destruct d; [apply fold_charge_nodup|]; exact H2.
  - intros a b y I. rewrite gedges_rcx in I. cbv zeta in I.
    assert (forall p o, In (a, b, y) (map (oute o) (filter p (gedges g))) ->
                        exists x, In (a, b, x) (gedges g) /\ p (a, b, x) = true /\ y = o x) as Hsrc.
    { intros p o J. apply in_map_iff in J. destruct J as ([[a' b'] x] & E & J). unfold oute in E. inversion E; subst.
      apply filter_In in J. destruct J as [J P]. exists x. auto. }
    assert (forall x, In (a, b, x) (gedges g) -> (include_x m x = true \/ is_hh_x g a b = true) ->
                      In a (node_ids (get_rc_x K d m g)) /\ In b (node_ids (get_rc_x K d m g)) /\ a <> b) as Hin.
    { intros x J Hc. destruct (wf_edge_nodes W J) as (Ia & Ib & Hab). split; [|split; [|exact Hab]].
      - apply node_label_some in Ia. destruct Ia as (la & La). apply (rcx_node_ids K d m g W). exists la. split; [exact La|].
        pose proof (wf_in_adj W J) as A. destruct Hc as [Hc|Hc]; [left; exists b, x; auto|right; left; exists b, x; auto].
      - apply node_label_some in Ib. destruct Ib as (lb & Lb). apply (rcx_node_ids K d m g W). exists lb. split; [exact Lb|].
        pose proof (wf_in_adj W J) as A. rewrite adj_sym in A.
        destruct Hc as [Hc|Hc]; [left; exists a, x; auto|right; left; exists a, x; rewrite is_hh_x_sym; auto]. }
    assert (In (a, b, y) (add_absent (map (oute out_edge) (filter (p_hh g) (gedges g))) (map (oute out_edge) (filter (p_inc m) (gedges g)))) ->
            In a (node_ids (get_rc_x K d m g)) /\ In b (node_ids (get_rc_x K d m g)) /\ a <> b) as H12.
    { intros J. apply in_add_absent in J. destruct J as [J|J]; apply Hsrc in J; destruct J as (x & J & P & _).
      - apply (Hin x J). left. exact P.
      - apply (Hin x J). right. exact P. }
    destruct d; [|apply H12; exact I].
    apply in_add_absent in I. destruct I as [I|I]; [apply H12; exact I|].
    apply Hsrc in I. destruct I as (x & J & P & _). unfold p_both in P. simpl in P. apply andb_true_iff in P. destruct P as [Pa Pb].
    destruct (wf_edge_nodes W J) as (_ & _ & Hab). split; [|split; [|exact Hab]]; apply has_node_spec; assumption.
  - rewrite gedges_rcx. cbv zeta.
    assert (simple (add_absent (map (oute out_edge) (filter (p_hh g) (gedges g))) (map (oute out_edge) (filter (p_inc m) (gedges g))))) as H2
        by (apply simple_add_absent, simple_oute, simple_filter, Hs).
    destruct d; [apply simple_add_absent|]; exact H2.
Qed.

(** * idempotence when element_key keeps element and typesGH *)
Lemma include_out_edge m x : include_x m (out_edge x) = include_x m x.
Proof. destruct x as [e [b|]]; reflexivity. Qed.
Lemma out_edge_idem x : out_edge (out_edge x) = out_edge x.
Proof. destruct x as [e [b|]]; reflexivity. Qed.
Lemma include_out_edge_rec m x : include_x m (out_edge_rec x) = changed (fst x).
Proof. unfold include_x, out_edge_rec, mtg_flag. simpl. rewrite andb_false_r. apply orb_false_r. Qed.
Lemma sel_attr_idem K a : sel_attr K (sel_attr K a) = sel_attr K a.
Proof. destruct K as [[] [] [] [] [] [] []]; destruct a; reflexivity. Qed.
Lemma sel_attr_hh_idem K a : sel_attr_hh K (sel_attr_hh K a) = sel_attr_hh K a.
Proof. destruct K as [[] [] [] [] [] [] []]; destruct a; reflexivity. Qed.
Lemma cc_sel_attr K a : k_gh K = true -> charge_changed (sel_attr K a) = charge_changed a.
Proof. intros E. unfold charge_changed, sel_attr. simpl. rewrite E. reflexivity. Qed.
Lemma cc_sel_attr_hh K a : charge_changed a = true -> charge_changed (sel_attr_hh K a) = true.
Proof. unfold charge_changed, sel_attr_hh. simpl. destruct (x_gh a) as [[tg th]|]; [auto|discriminate]. Qed.

Section Idem.
Variables (K : keysel) (d m : bool) (g : xits).
Hypothesis Kel : k_el K = true.
Hypothesis Kgh : k_gh K = true.
Hypothesis W : wf g.
Local Notation R := (get_rc_x K d m g).

Lemma label_R_src n b : label R n = Some b -> exists a, label g n = Some a /\ (b = sel_attr K a \/ b = sel_attr_hh K a).
Proof. intros L. apply (rcx_nodes K d m g W) in L. destruct L as (a & L & H). exists a. split; [exact L|]. tauto. Qed.

Lemma is_h_R n : In n (node_ids R) -> is_h_x R n = is_h_x g n.
Proof.
  intros I. apply node_label_some in I. destruct I as (b & L). unfold is_h_x. rewrite L.
  apply label_R_src in L. destruct L as (a & -> & [-> | ->]); simpl; rewrite Kel; reflexivity.
Qed.

Lemma is_h_R_true n : is_h_x R n = true -> is_h_x g n = true.
Proof.
  unfold is_h_x at 1. destruct (label R n) as [b|] eqn:L; [|discriminate]. intros H. rewrite <- is_h_R; [unfold is_h_x; rewrite L; exact H|].
  eapply label_some_node; eauto.
Qed.

Lemma adj_R_nodes u v y : adj R u v = Some y -> In u (node_ids R) /\ In v (node_ids R).
Proof.
  intros A. pose proof (rcx_wf K d m g W) as WR. apply (wf_adj_iff WR) in A.
  destruct A as [A|A]; destruct (wf_edge_nodes WR A) as (P & Q & _); auto.
Qed.

Lemma is_hh_R u v y : adj R u v = Some y -> is_hh_x R u v = is_hh_x g u v.
Proof. intros A. destruct (adj_R_nodes u v y A) as [Iu Iv]. unfold is_hh_x. rewrite (is_h_R u Iu), (is_h_R v Iv). reflexivity. Qed.

Lemma inc_end_R n : inc_end m R n <-> inc_end m g n.
Proof.
  split.
  - intros (v & y & A & P). apply (rcx_edges K d m g W) in A. destruct A as (x & A & [[_ ->]|(E1 & _ & _ & _ & _ & ->)]).
    + exists v, x. rewrite include_out_edge in P. auto.
    + rewrite include_out_edge_rec in P. unfold include_x in E1. apply orb_false_iff in E1. destruct E1. congruence.
  - intros (v & x & A & P). exists v, (out_edge x). split; [|rewrite include_out_edge; exact P].
    unfold R. rewrite (adj_rcx K d m g W), A, P. reflexivity.
Qed.

Lemma hh_end_R n : hh_end R n <-> hh_end g n.
Proof.
  split.
  - intros (v & y & A & P). pose proof (is_hh_R n v y A) as E. rewrite P in E.
    apply (rcx_edges K d m g W) in A. destruct A as (x & A & _). exists v, x. auto.
  - intros (v & x & A & P). exists v, (out_edge x).
    assert (adj R n v = Some (out_edge x)) as A'.
    { unfold R. rewrite (adj_rcx K d m g W), A, P, orb_true_r. reflexivity. }
    split; [exact A'|]. rewrite (is_hh_R n v _ A'). exact P.
Qed.

Lemma ids_R_idem n : In n (node_ids R) -> In n (node_ids (get_rc_x K d m R)).
Proof.
  intros I. pose proof (rcx_wf K d m g W) as WR. apply (rcx_node_ids K d m R WR).
  pose proof I as I0. apply node_label_some in I0. destruct I0 as (b & Lb). exists b. split; [exact Lb|].
  apply (rcx_node_ids K d m g W) in I. destruct I as (a & La & [H|[H|[Hd Cc]]]).
  - left. apply inc_end_R. exact H.
  - right. left. apply hh_end_R. exact H.
  - right. right. split; [exact Hd|]. apply label_R_src in Lb. destruct Lb as (a' & La' & [-> | ->]);
      assert (a' = a) as -> by congruence; [rewrite (cc_sel_attr K a Kgh); exact Cc|apply cc_sel_attr_hh; exact Cc].
Qed.

Theorem rcx_idem : geq (get_rc_x K d m R) R.
Proof.
  pose proof (rcx_wf K d m g W) as WR. split.
  - intros n. rewrite (label_rcx K d m R WR). destruct (label R n) as [b|] eqn:L; [|reflexivity].
    pose proof (mem_L1 m R n WR) as H1. pose proof (mem_L2 R n WR) as H2.
    apply (rcx_nodes K d m g W) in L. destruct L as (a & La & [[Hi ->]|[(Hni & Hh & ->)|(Hni & Hnh & Hd & Cc & ->)]]).
    + assert (LGraph.mem n (L1 m R) = true) as -> by (apply H1, inc_end_R; exact Hi). rewrite sel_attr_idem. reflexivity.
    + assert (LGraph.mem n (L1 m R) = false) as ->.
      { destruct (LGraph.mem n (L1 m R)) eqn:M; [|reflexivity]. exfalso. apply Hni, inc_end_R, H1. reflexivity. }
      assert (LGraph.mem n (L2 R) = true) as -> by (apply H2, hh_end_R; exact Hh). rewrite sel_attr_hh_idem. reflexivity.
    + assert (LGraph.mem n (L1 m R) = false) as ->.
      { destruct (LGraph.mem n (L1 m R)) eqn:M; [|reflexivity]. exfalso. apply Hni, inc_end_R, H1. reflexivity. }
      assert (LGraph.mem n (L2 R) = false) as ->.
      { destruct (LGraph.mem n (L2 R)) eqn:M; [|reflexivity]. exfalso. apply Hnh, hh_end_R, H2. reflexivity. }
      rewrite (cc_sel_attr K a Kgh), Cc, Hd, sel_attr_idem. reflexivity.
  - intros u v. rewrite (adj_rcx K d m R WR). destruct (adj R u v) as [y|] eqn:A; [|reflexivity].
    rewrite (is_hh_R u v y A). destruct (adj_R_nodes u v y A) as [Iu Iv].
    apply (rcx_edges K d m g W) in A. destruct A as (x & A & [[Hc ->]|(E1 & E2 & Hd & _ & _ & ->)]).
    + rewrite include_out_edge, out_edge_idem.
      assert (include_x m x || is_hh_x g u v = true) as -> by (apply orb_true_iff; exact Hc). reflexivity.
    + rewrite include_out_edge_rec, E2. unfold include_x in E1. apply orb_false_iff in E1. destruct E1 as [-> _]. simpl.
      apply ids_R_idem in Iu, Iv. apply has_node_spec in Iu, Iv. rewrite Iu, Iv, Hd. reflexivity.
Qed.
End Idem.

(** keeping [element] matters: without it the H-H bonds of the centre are not H-H bonds of the centre's centre *)
Definition hh2 : xits :=
  LG [(1%N, XN (Some 2%N) (Some 0) (Some 1) None None None None); (2%N, XN (Some 2%N) (Some 0) (Some 2) None None None None)]
     [(1%N, 2%N, (IE 2 2 0, None))].
Theorem rcx_idem_needs_element : exists (K : keysel) (g : xits),
  wf g /\ k_gh K = true /\ length (gnodes (get_rc_x K false false g)) = 2%nat /\
  gnodes (get_rc_x K false false (get_rc_x K false false g)) = [].
Proof.
  exists (KS false true true true false false false), hh2. split; [|vm_compute; repeat split].
  apply wf_intro; simpl.
  - repeat constructor; simpl; intuition discriminate.
  - intros a b x [E|[]]. inversion E; subst. simpl. intuition discriminate.
  - repeat constructor.
Qed.

(** non-vacuity *)
Example C02_rcx_equivariant_nonvacuous :
  get_rc_x K_default true true (relabel (N.add 10) hh2) = relabel (N.add 10) (get_rc_x K_default true true hh2) /\
  length (gnodes (get_rc_x K_default true true hh2)) = 2%nat.
Proof. split; [apply rcx_equivariant; intros a b; apply N.add_cancel_l|reflexivity]. Qed.

Example C02_rcx_idem_nonvacuous :
  geq (get_rc_x K_default true true (get_rc_x K_default true true hh2)) (get_rc_x K_default true true hh2) /\
  length (gedges (get_rc_x K_default true true hh2)) = 1%nat.
Proof.
  split; [|reflexivity]. apply rcx_idem; try reflexivity. apply wf_intro; simpl.
  - repeat constructor; simpl; intuition discriminate.
  - intros a b x [E|[]]. inversion E; subst. simpl. intuition discriminate.
  - repeat constructor.
Qed.
