(** C03 — the explicit-hydrogen path starts from the hydrogen-EXPANDED substrate ([h_to_explicit], called by
    _get_explicit_map on the atoms of the kept match).  Proved: the expansion only re-writes implicit hydrogens as
    explicit H atoms — every element count (hydrogen = atoms + implicit counts) and the total charge are kept, bonds
    between substrate atoms are kept, substrate atoms keep everything but their hydrogen count; and the whole explicit
    path (expand, glue, _explicit_h) composed.  Stdlib lists only. *)
From Coq Require Import List NArith ZArith Bool Lia Permutation.
From SK Require Import lib.Tok lib.LGraph model.C03_Model proof.C03_Proof proof.C03_Glue proof.C03_ExplicitH.
Import ListNotations.
Local Open Scope Z_scope.

Definition H_attr : nattr := NA EL_H false 0 0 [].

(** accounting directly on a host graph *)
Definition h_count_el (e : N) (g : hostg) : Z := sumL (fun a => if N.eqb (a_el a) e then 1 else 0) (gnodes g).
Definition h_total_hc (g : hostg) : Z := sumL a_hc (gnodes g).
Definition h_total_ch (g : hostg) : Z := sumL a_ch (gnodes g).

Lemma elem_count_mol_of_host e g :
  elem_count e (mol_of_host g) = h_count_el e g + (if N.eqb e EL_H then h_total_hc g else 0).
Proof.
  unfold elem_count, count_el, total_hc, mol_of_host, h_count_el, h_total_hc; cbn [gnodes].
  rewrite (sumL_map (fun a => if N.eqb (m_el a) e then 1 else 0) dec_node), (sumL_map m_hc dec_node). reflexivity.
Qed.
Lemma total_charge_mol_of_host g : total_charge (mol_of_host g) = h_total_ch g.
Proof. unfold total_charge, mol_of_host, h_total_ch; cbn [gnodes]. apply (sumL_map m_ch dec_node). Qed.

(** * add_hs: k fresh hydrogen atoms bonded to [heavy] *)
Lemma add_hs_spec heavy k : forall (g : hostg) next g' next', add_hs g heavy next k = (g', next') ->
  NoDup (node_ids g) -> (forall n, In n (node_ids g) -> (n < next)%N) -> (heavy < next)%N ->
  NoDup (node_ids g') /\ (forall n, In n (node_ids g') -> (n < next')%N) /\ (next <= next')%N /\
  (forall w, sumL w (gnodes g') = sumL w (gnodes g) + Z.of_nat k * w H_attr) /\
  (forall n a, label g n = Some a -> label g' n = Some a) /\
  (forall a b, (a < next)%N -> (b < next)%N -> adj g' a b = adj g a b).
Proof.
  induction k as [|k IH]; intros g next g' next' H Hnd Hlt Hh.
  - simpl in H. inversion H; subst. repeat split; auto; try lia.
  - cbn [add_hs] in H.
    set (g1 := LG (gnodes g ++ [(next, NA EL_H false 0 0 [])]) (gedges g ++ [(heavy, next, 2)])) in H.
    assert (Hids : node_ids g1 = node_ids g ++ [next]) by (unfold node_ids, g1; simpl; rewrite map_app; reflexivity).
    destruct (IH g1 (N.succ next) g' next' H) as (A1 & A2 & A3 & A4 & A5 & A6).
    + rewrite Hids. apply nodup_snoc; [exact Hnd|]. intros I. specialize (Hlt _ I). lia.
    + intros n I. rewrite Hids in I. apply in_app_or in I. destruct I as [I|[<-|[]]]; [specialize (Hlt _ I)|]; lia.
    + lia.
    + split; [exact A1|]. split; [exact A2|]. split; [lia|]. split; [|split].
      * intros w. rewrite A4. unfold g1; cbn [gnodes]. rewrite sumL_app. cbn [sumL fold_right snd].
        rewrite Nat2Z.inj_succ, Z.mul_succ_l. fold H_attr. lia.
      * intros n a Hl. apply A5. unfold label, g1; simpl. apply assoc_app_some. exact Hl.
      * intros a b Ha Hb. rewrite A6 by lia. unfold adj, g1; simpl. rewrite find_edge_app.
        destruct (find_edge a b (gedges g)); [reflexivity|]. simpl.
        destruct (N.eqb_spec next a); [lia|]. destruct (N.eqb_spec next b); [lia|].
        rewrite !andb_false_r. reflexivity.
Qed.

(** * one step of the expansion and the whole fold *)
Definition expand_step (st : hostg * N) (heavy : N) : hostg * N :=
  let '(g', next) := st in
  match label g' heavy with
  | Some a => if 0 <? a_hc a
              then let '(g'', next') := add_hs g' heavy next (Z.to_nat (a_hc a)) in
                   (upd_node g'' heavy (fun a => set_hc a 0), next')
              else st
  | None => st
  end.

Lemma h_to_explicit_unfold g nodes :
  h_to_explicit g nodes = fst (fold_left expand_step (match nodes with [] => node_ids g | _ => nodes end) (g, N.succ (max_id g))).
Proof. reflexivity. Qed.

Record exp_inv (g0 : hostg) (next0 : N) (g : hostg) (next : N) : Prop := {
  ei_nodup : NoDup (node_ids g);
  ei_lt : forall n, In n (node_ids g) -> (n < next)%N;
  ei_next : (next0 <= next)%N;
  ei_el : forall e, h_count_el e g + (if N.eqb e EL_H then h_total_hc g else 0)
                    = h_count_el e g0 + (if N.eqb e EL_H then h_total_hc g0 else 0);
  ei_ch : h_total_ch g = h_total_ch g0;
  ei_adj : forall a b, (a < next0)%N -> (b < next0)%N -> adj g a b = adj g0 a b;
  ei_lab : forall n a, label g0 n = Some a -> exists a', label g n = Some a' /\ set_hc a' 0 = set_hc a 0 }.

Lemma label_lt {A B} (g : lgraph A B) n a next : (forall k, In k (node_ids g) -> (k < next)%N) -> label g n = Some a -> (n < next)%N.
Proof.
  intros H Hl. apply H. unfold label in Hl. apply assoc_in in Hl. unfold node_ids. change n with (fst (n, a)). apply in_map. exact Hl.
Qed.

Lemma expand_step_inv g0 next0 g next heavy g' next' :
  exp_inv g0 next0 g next -> expand_step (g, next) heavy = (g', next') -> exp_inv g0 next0 g' next'.
Proof.
  intros I H. unfold expand_step in H.
  destruct (label g heavy) as [a|] eqn:El; [|inversion H; subst; exact I].
  destruct (Z.ltb_spec 0 (a_hc a)) as [Hpos|]; [|inversion H; subst; exact I].
  destruct (add_hs g heavy next (Z.to_nat (a_hc a))) as [g1 next1] eqn:Ea. inversion H; subst g' next'. clear H.
  destruct I as [I1 I2 I3 I4 I5 I6 I7].
  pose proof (label_lt g heavy a next I2 El) as Hh.
  destruct (add_hs_spec heavy _ g next g1 next1 Ea I1 I2 Hh) as (A1 & A2 & A3 & A4 & A5 & A6).
  pose proof (A5 heavy a El) as El1.
  assert (SUM : forall w, sumL w (gnodes (upd_node g1 heavy (fun a => set_hc a 0)))
                          = sumL w (gnodes g) + a_hc a * w H_attr - w a + w (set_hc a 0)).
  { intros w. unfold upd_node; cbn [gnodes]. rewrite (sumL_upd w (gnodes g1) heavy (fun a => set_hc a 0) a A1 El1), A4, Z2Nat.id by lia. reflexivity. }
  constructor.
  - rewrite ids_upd. exact A1.
  - intros n. rewrite ids_upd. apply A2.
  - lia.
  - intros e. rewrite <- (I4 e). unfold h_count_el, h_total_hc. rewrite !SUM.
    cbn [set_hc H_attr a_el a_hc]. destruct (N.eqb_spec e EL_H) as [->|Hne].
    + rewrite N.eqb_refl. lia.
    + destruct (N.eqb_spec EL_H e); [congruence|]. lia.
  - rewrite <- I5. unfold h_total_ch. rewrite SUM. cbn [set_hc H_attr a_ch]. lia.
  - intros x y Hx Hy. unfold adj. rewrite edges_upd. fold (adj g1 x y). rewrite A6 by lia. apply I6; assumption.
  - intros n a0 Hl. destruct (I7 n a0 Hl) as (a1 & Hl1 & Hs). apply A5 in Hl1.
    rewrite label_upd, Hl1. destruct (N.eqb n heavy); simpl; eexists; (split; [reflexivity|]); [|exact Hs].
    rewrite <- Hs. reflexivity.
Qed.

Lemma expand_fold_inv g0 next0 nodes : forall g next g' next',
  exp_inv g0 next0 g next -> fold_left expand_step nodes (g, next) = (g', next') -> exp_inv g0 next0 g' next'.
Proof.
  induction nodes as [|h r IH]; intros g next g' next' I H; [inversion H; subst; exact I|].
  cbn [fold_left] in H. destruct (expand_step (g, next) h) as [g1 next1] eqn:E.
  eapply IH; [|exact H]. eapply expand_step_inv; eauto.
Qed.

Theorem h_to_explicit_accounting (g : hostg) (nodes : list N) : NoDup (node_ids g) ->
  (forall e, elem_count e (mol_of_host (h_to_explicit g nodes)) = elem_count e (mol_of_host g)) /\
  total_charge (mol_of_host (h_to_explicit g nodes)) = total_charge (mol_of_host g) /\
  (forall a b, In a (node_ids g) -> In b (node_ids g) -> adj (h_to_explicit g nodes) a b = adj g a b) /\
  (forall n a, label g n = Some a -> exists a', label (h_to_explicit g nodes) n = Some a' /\ set_hc a' 0 = set_hc a 0) /\
  NoDup (node_ids (h_to_explicit g nodes)).
Proof.
  intros Hnd. rewrite h_to_explicit_unfold.
  destruct (fold_left expand_step _ (g, N.succ (max_id g))) as [g' next'] eqn:E. cbn [fst].
  assert (I0 : exp_inv g (N.succ (max_id g)) g (N.succ (max_id g))).
  { constructor; auto; try lia.
    - intros n I. unfold max_id. pose proof (proj2 (fold_max_ge (node_ids g) 0%N) n I). unfold max_id. lia.
    - intros n a Hl. eauto. }
  destruct (expand_fold_inv g _ _ g _ g' next' I0 E) as [I1 I2 I3 I4 I5 I6 I7].
  split; [|split; [|split; [|split]]].
  - intros e. rewrite !elem_count_mol_of_host. apply I4.
  - rewrite !total_charge_mol_of_host. exact I5.
  - intros a b Ia Ib. apply I6.
    + pose proof (proj2 (fold_max_ge (node_ids g) 0%N) a Ia). unfold max_id. lia.
    + pose proof (proj2 (fold_max_ge (node_ids g) 0%N) b Ib). unfold max_id. lia.
  - exact I7.
  - exact I1.
Qed.

(** * the explicit path composed: expand the substrate, glue the rule along a re-match, run _explicit_h *)
Theorem explicit_path host nodes rc m T T' ms :
  wf_hostb host = true -> wf_hostb (h_to_explicit host nodes) = true -> wf_rcb rc = true ->
  match_rcb (h_to_explicit host nodes) rc m = true -> glue (h_to_explicit host nodes) rc m = Some T ->
  explicit_h T = Some (T', ms) ->
  (forall e, elem_count e (fst (its_decompose T')) = elem_count e (mol_of_host host)) /\
  total_charge (fst (its_decompose T')) = total_charge (mol_of_host host) /\
  (forall a b, In a (node_ids host) -> In b (node_ids host) -> bondG T' a b = adj host a b) /\
  (balancedb rc = true ->
     (forall e, elem_count e (fst (its_decompose T')) = elem_count e (snd (its_decompose T'))) /\
     total_charge (fst (its_decompose T')) = total_charge (snd (its_decompose T'))).
Proof.
  intros Hwh Hwx Hwr Hm Hg He.
  destruct (h_to_explicit_accounting host nodes (wf_host_nodup host Hwh)) as (X1 & X2 & X3 & X4 & _).
  pose proof (glued_nodup _ rc m T Hwx Hwr Hm Hg) as Hnd.
  destruct (explicit_h_accounting T T' ms Hnd He) as (_ & B1 & (B2 & B3) & B4 & _).
  destruct (left_is_host _ rc m T Hwx Hwr Hm Hg) as (L1 & _ & L3).
  destruct (left_is_host_dec _ rc m T Hwx Hwr Hm Hg) as (D1 & _).
  assert (Hold : forall a, In a (node_ids host) -> In a (node_ids T)).
  { intros a Ia. rewrite L1. unfold node_ids in Ia. apply in_map_iff in Ia. destruct Ia as ([k v] & <- & Ia).
    destruct (X4 k v (assoc_nodup_in k (gnodes host) v (wf_host_nodup host Hwh) Ia)) as (a' & Hl & _).
    unfold label in Hl. apply assoc_in in Hl. exact (in_map fst _ (k, a') Hl). }
  split; [|split; [|split]].
  - intros e. rewrite (proj1 (B1 e)), <- X1. unfold elem_count, count_el, total_hc. rewrite D1. reflexivity.
  - rewrite B2, <- X2. unfold total_charge. rewrite D1. reflexivity.
  - intros a b Ia Ib. unfold bondG. rewrite B4 by (apply Hold; assumption). fold (bondG T a b). rewrite L3. apply X3; assumption.
  - intros Hb. destruct (conserve_balanced _ rc m T Hwx Hwr Hm Hg Hb) as (C1 & C2). split.
    + intros e. destruct (B1 e) as [E1 E2]. rewrite E1, E2. apply C1.
    + rewrite B2, B3. exact C2.
Qed.
