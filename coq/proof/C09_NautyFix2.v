(** C09 — fixed point of [canonicalise_nauty] for EVERY reactant graph (round 6): no hypothesis on its automorphisms.
    From proof/C09_NautyFix.v: on every parsed presentation of the canonical reactant graph the exact back-end returns the
    canonical ids in increasing order, so the second run renames nothing. *)
From Coq Require Import List NArith ZArith Bool Arith Lia Permutation.
From SK Require Import lib.StrJoin lib.LGraph lib.C01_GraphLemmas model.C01_Model model.C09_Model model.C09_Strings
  proof.C09_Lists proof.C09_Canon proof.C09_Equiv proof.C09_Main proof.C09_Indep proof.C09_Indep2 proof.C09_WL
  proof.C09_Nauty proof.C09_Graph proof.C09_Backends proof.C09_NautyFix.
From SK Require model.C08_Model proof.C08_Spec proof.C08_Sort.
Import ListNotations.

(** the atom_map key of the search on a parsed graph is the node id *)
Lemma amkey_parsed (X : mgraph) (m : N) : parsed X -> In m (node_ids X) -> C08_Model.amkey (to_c08 X) m = Z.of_N m.
Proof.
  intros (W & A & _) I. destruct (node_label_some I) as (a & La).
  unfold C08_Model.amkey, C08_Model.attr_of, label, to_c08. cbn [gnodes].
  rewrite (assoc_map_val (fun _ (a : gnode) => C08_Model.NA (el_str (g_el a)) (g_arom a) (g_ch a) (g_hc a) (Some (g_amap a))) m (gnodes X)).
  unfold label in La. rewrite La. cbn [option_map C08_Model.am]. apply (A m a). exact La.
Qed.

(** the second canonical order: the canonical ids in increasing order *)
Theorem nauty_order_after (G G' : mgraph) (f1 : N -> N) :
  wf G -> (forall a b, f1 a = f1 b -> a = b) ->
  (forall n, In n (node_ids G) -> f1 n = sigma_of (nauty_order G) n) ->
  parsed G' -> presents f1 G G' ->
  nauty_order G' = map f1 (nauty_order G).
Proof.
  intros WG Finj Fs PG2 RG2. pose proof PG2 as (WG2 & _). pose proof (nauty_enumerates G WG) as (O1 & I1).
  unfold nauty_order in *. apply (nauty_perm_canonical f1 (to_c08 G) (to_c08 G') Finj).
  - apply wf_to_c08. exact WG.
  - rewrite node_ids_to_c08. apply WG2.
  - apply geq_cov_presents. exact RG2.
  - intros w Iw. rewrite node_ids_to_c08 in Iw. apply (amkey_parsed G' (f1 w) PG2).
    apply (Permutation_in _ (Permutation_sym (presents_node_ids f1 G G' RG2))). apply in_map. exact Iw.
  - rewrite (map_ext_in f1 (sigma_of (C08_Model.nauty_perm (to_c08 G)))) by (intros n I; apply Fs; apply I1; exact I).
    unfold sigma_of. apply (C08_Sort.mapping_of_map _ O1).
Qed.

(** fixed point for every reactant graph, every parsed presentation of the canonical graphs *)
Theorem fixed_point_nauty_all (G H : mgraph) :
  parsed G -> parsed H -> (exists s, In s (node_ids G) /\ In s (node_ids H)) ->
  exists (pairs1 : list (N * N)) (Gc1 Hc1 : mgraph),
    canonicalise_nauty G H = Some (Gc1, pairs1, Hc1) /\
    forall (G' H' : mgraph), parsed G' -> parsed H' -> same_graph G' Gc1 -> same_graph H' Hc1 ->
      nauty_order G' = map N.of_nat (seq 1 (length (gnodes G))) /\
      exists (pairs2 : list (N * N)) (Gc2 Hc2 : mgraph),
        canonicalise_nauty G' H' = Some (Gc2, pairs2, Hc2) /\ same_graph Gc2 Gc1 /\ same_graph Hc2 Hc1.
Proof.
  intros PG PH Hs. pose proof PG as (WG & _).
  pose proof (nauty_enumerates G WG) as En1. pose proof En1 as (O1 & I1).
  destruct (fixed_point_sg G H (canon_relabel (nauty_order G) G) (nauty_order G) PG PH Hs En1 (relabelled_exact _ G))
    as (pairs1 & Gc1 & Hc1 & f1 & E1 & Finj & Fs & Hfix).
  exists pairs1, Gc1, Hc1. split; [exact E1|].
  intros G' H' PG2 PH2 SG SH. pose proof PG2 as (WG2 & _).
  destruct (Hfix G' H' PG2 PH2 SG SH) as (RG2 & Hrun).
  pose proof (nauty_order_after G G' f1 WG Finj Fs PG2 RG2) as Ord2.
  split.
  - rewrite Ord2. rewrite (map_ext_in f1 (sigma_of (nauty_order G))) by (intros n I; apply Fs; apply I1; exact I).
    unfold sigma_of. rewrite (C08_Sort.mapping_of_map _ O1). f_equal. f_equal.
    assert (P : Permutation (nauty_order G) (node_ids G)) by (apply NoDup_Permutation; [exact O1|apply WG|exact I1]).
    rewrite (Permutation_length P). unfold node_ids. apply map_length.
  - pose proof (nauty_enumerates G' WG2) as En2.
    destruct (Hrun (nauty_order G') (canon_relabel (nauty_order G') G') En2 (relabelled_exact _ _))
      as (pairs2 & Gc2 & Hc2 & E2 & EG & S1 & S2).
    + intros n I. rewrite Ord2. apply (sigma_of_map f1 Finj).
    + exists pairs2, Gc2, Hc2. unfold canonicalise_nauty. rewrite E2. auto.
Qed.

(** string level: CanonRSMI(backend="nauty").canonical_rsmi is a fixed point for every reaction, relative to the RDKit contracts *)
Theorem canonical_rsmi_fixed_point_nauty_all (W : mgraph -> str) (P : str -> option (mgraph * mgraph)) (G H : mgraph) :
  writer_ok W ->
  parsed G -> parsed H -> (exists s, In s (node_ids G) /\ In s (node_ids H)) ->
  (forall Gc1 pairs1 Hc1, canonicalise_nauty G H = Some (Gc1, pairs1, Hc1) -> reads_back W P Gc1 Hc1) ->
  exists s G' H', canonical_rsmi W (canonicalise_nauty G H) = Some s /\ P s = Some (G', H') /\
                  canonical_rsmi W (canonicalise_nauty G' H') = Some s.
Proof.
  intros HW PG PH Hs HP.
  destruct (fixed_point_nauty_all G H PG PH Hs) as (pairs1 & Gc1 & Hc1 & E1 & Hfix).
  destruct (HP Gc1 pairs1 Hc1 E1) as (G' & H' & EP & PG2 & PH2 & SG & SH).
  destruct (Hfix G' H' PG2 PH2 SG SH) as (_ & pairs2 & Gc2 & Hc2 & E2 & S1 & S2).
  exists (W Gc1 ++ GG ++ W Hc1), G', H'. rewrite E1. split; [reflexivity|]. split; [exact EP|].
  rewrite E2. unfold canonical_rsmi. rewrite (HW _ _ S1), (HW _ _ S2). reflexivity.
Qed.

(** non-vacuity on a reactant graph WITH a non-trivial automorphism (ethane-like C-C, both atoms alike; the product
    distinguishes them): the search reports two minimal leaves, and the second run returns the canonical reaction unchanged *)
Definition sy_G : mgraph := LG [(5%N, GN 70%N false 3 0 None 5); (9%N, GN 70%N false 3 0 None 9)] [(9%N, 5%N, 2%Z)].
Definition sy_H : mgraph := LG [(9%N, GN 70%N false 2 (-1) None 9); (5%N, GN 70%N false 3 0 None 5)] [(5%N, 9%N, 2%Z)].
Definition sy_c1 := canonicalise_nauty sy_G sy_H.
Example ex_symmetric_fixed_point :
  length (snd (C08_Model.nauty_acc (to_c08 sy_G))) = 2%nat /\
  match sy_c1 with
  | Some (a, _, b) =>
      nauty_order a = [1%N; 2%N] /\
      option_map (fun r : mgraph * list (N * N) * mgraph => (fst (fst r), snd r)) (canonicalise_nauty a b) = Some (a, b)
  | None => False
  end.
Proof. vm_compute. repeat split. Qed.
Example ex_symmetric_hyps : parsed sy_G /\ parsed sy_H /\ (exists s, In s (node_ids sy_G) /\ In s (node_ids sy_H)).
Proof.
  split; [|split; [|exists 5%N; simpl; auto]].
  - split; [|split].
    + apply wf_by_compute; [unfold node_ids; simpl; nodup_N|reflexivity|apply single_edge_wf3].
    + intros n a E. unfold label in E. simpl in E.
      repeat (match type of E with context [N.eqb n ?k] => destruct (N.eqb_spec n k); [subst; inversion E; reflexivity|] end). discriminate.
    + intros n I. simpl in I. intuition (subst; discriminate).
  - split; [|split].
    + apply wf_by_compute; [unfold node_ids; simpl; nodup_N|reflexivity|apply single_edge_wf3].
    + intros n a E. unfold label in E. simpl in E.
      repeat (match type of E with context [N.eqb n ?k] => destruct (N.eqb_spec n k); [subst; inversion E; reflexivity|] end). discriminate.
    + intros n I. simpl in I. intuition (subst; discriminate).
Qed.
