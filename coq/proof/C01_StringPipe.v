(** C01 — proofs about model/C01_String.v, part 3: rsmi_to_its / its_to_rsmi end to end *)
From Coq Require Import List NArith ZArith Bool Lia Arith.
From SK Require Import lib.LGraph lib.C01_GraphLemmas model.C01_Model model.C02_Model model.C01_String
  proof.C01_Proof proof.C02_Proof proof.C01_StringProof proof.C01_StringHyd.
Import ListNotations.
Local Open Scope Z_scope.

Definition rmol_ok (m : rmol) : Prop := NoDup (map fst (mapped_nodes m)) /\ simple (mapped_bonds m).

(** * graph_of m is well formed as soon as no bond joins an atom map to itself *)
Lemma mapped_bond_ends (m : rmol) u v o : In (u, v, o) (mapped_bonds m) ->
  In u (map fst (mapped_nodes m)) /\ In v (map fst (mapped_nodes m)).
Proof.
  unfold mapped_bonds. rewrite in_flat_map. intros ([[i j] x] & _ & I). cbn [fst snd] in I.
  assert (forall k w, lookup_idx k (mapped_ix m) = Some w -> In w (map fst (mapped_nodes m))) as Hk.
  { intros k w E. rewrite mapped_ix_spec in E. destruct (nth_error (rm_atoms m) k) as [a|] eqn:Na; [|discriminate].
    destruct (is_mapped a) eqn:Ma; [|discriminate]. inversion E; subst w.
    change (ra_map a) with (fst (ra_map a, atom_node a)). apply in_map. apply mapped_nodes_in.
    exists a. repeat split; auto. eapply nth_error_In; eauto. }
  destruct (lookup_idx i (mapped_ix m)) as [a|] eqn:Ei; [|destruct I].
  destruct (lookup_idx j (mapped_ix m)) as [b|] eqn:Ej; [|destruct I].
  destruct I as [E|[]]. inversion E; subst. split; eauto.
Qed.

Lemma graph_of_wf (m : rmol) : rmol_ok m -> (forall u v o, In (u, v, o) (mapped_bonds m) -> u <> v) -> wf (graph_of m).
Proof.
  intros [Hn Hs] Hd. apply wf_intro; cbn [graph_of gedges]; [exact Hn| |exact Hs].
  intros a b x I. destruct (mapped_bond_ends m a b x I) as [Ha Hb]. repeat split; auto. eapply Hd; eauto.
Qed.

(** * its_decompose returns well-formed graphs *)
Lemma dec_edges_map sn se (I : its) :
  gedges (dec_side sn se I) =
  map (fun e : N * N * iedge => let '(u, v, x) := e in (u, v, se x))
      (filter (fun e : N * N * iedge => let '(_, _, x) := e in 0 <? se x) (gedges I)).
Proof.
  unfold dec_side. cbn [gedges]. induction (gedges I) as [|[[u v] x] r IH]; [reflexivity|].
  cbn [flat_map filter]. destruct (0 <? se x); cbn [app map]; rewrite IH; reflexivity.
Qed.

Lemma dec_wf sn se (I : its) : wf I -> wf (dec_side sn se I).
Proof.
  intros W. apply wf_intro.
  - unfold node_ids, dec_side. cbn [gnodes]. rewrite map_map. cbn [fst]. apply W.
  - intros a b x In1. apply in_dec_edges in In1. destruct In1 as (y & Iy & _ & _).
    destruct (wf_edge_nodes W Iy) as (Ha & Hb & Hab).
    unfold node_ids, dec_side. cbn [gnodes]. rewrite map_map. cbn [fst]. auto.
  - rewrite dec_edges_map. apply (simple_map_attr (fun _ _ (x : iedge) => se x)). apply simple_filter. apply wf_simple. exact W.
Qed.

(** * the preserved atom maps = atom maps of the hydrogens of the reaction centre *)
Lemma hlist_spec (I : its) z : In z (hlist I) <-> exists n b, In (n, b) (gnodes (get_rc I)) /\ i_el b = EL_H /\ z = i_amap b.
Proof.
  unfold hlist. rewrite in_map_iff. split.
  - intros ([n b] & E & F). apply filter_In in F. destruct F as [F1 F2]. cbn [snd] in *. apply N.eqb_eq in F2. eauto.
  - intros (n & b & F & E & ->). exists (n, b). split; [reflexivity|]. apply filter_In. split; [exact F|]. cbn [snd]. rewrite E. reflexivity.
Qed.

Lemma filter_nil {X} (p : X -> bool) (l : list X) : (forall x, In x l -> p x = false) -> filter p l = [].
Proof. induction l as [|a l IH]; intros H; [reflexivity|]. simpl. rewrite (H a (or_introl eq_refl)). apply IH. intros; apply H; right; assumption. Qed.

(** no hydrogen ATOM in the reactant graph  =>  nothing to preserve *)
Lemma hlist_nil_noH G H : (forall n a, label G n = Some a -> is_H a = false) -> hlist (its_construct G H) = [].
Proof.
  intros HnoH. unfold hlist. rewrite filter_nil; [reflexivity|].
  intros [n b] F. cbn [snd]. destruct (proj2 (rc_NInv (its_construct G H)) n b F) as (a & L & ->).
  cbn [rc_attr i_el]. destruct (its_label_types G H n a L) as (_ & _ & -> & _).
  unfold side_tuple. destruct (label G n) as [ag|] eqn:LG.
  - specialize (HnoH n ag LG). unfold is_H in HnoH. cbn [tuple_of a_el]. exact HnoH.
  - reflexivity.
Qed.

(** * C01_its_to_graphs: what its_to_rsmi hands to GraphToMol *)
Theorem its_to_graphs_spec (I : its) : wf I ->
  let d := its_decompose I in
  wf (fst d) /\ wf (snd d) /\ amap_id (fst d) /\ amap_id (snd d) /\
  (forall z, In z (hlist I) <-> exists n b, label (get_rc I) n = Some b /\ i_el b = EL_H /\ z = i_amap b) /\
  its_to_graphs I =
    match hlist I with
    | [] => d
    | _ => (implicit_hydrogen (fst d) (hlist I), implicit_hydrogen (snd d) (hlist I))
    end.
Proof.
  intros W d. subst d. unfold its_decompose. cbn [fst snd].
  split; [apply dec_wf; exact W|]. split; [apply dec_wf; exact W|].
  split; [apply dec_amap_id|]. split; [apply dec_amap_id|]. split.
  - intros z. rewrite hlist_spec. pose proof (rc_wf I W) as Wrc. split.
    + intros (n & b & F & E). exists n, b. split; [|exact E]. apply assoc_nodup_in; [apply Wrc|exact F].
    + intros (n & b & L & E). exists n, b. split; [|exact E]. apply assoc_in. exact L.
  - unfold its_to_graphs, smi_graph, its_decompose. cbn [fst snd]. destruct (hlist I); reflexivity.
Qed.

(** * C01_rsmi_pipeline: the string round trip relative to RDKit alone *)
Section Pipeline.
Variable str : Type.
Variable rd_read : str -> option rmol.
Variable rd_write : wmol -> option str.

(** RDKit contract R1: for a graph [g] that is, as a labelled graph, the MolToGraph reading of a molecule RDKit has parsed
    and sanitised, if RDKit accepts and writes the RWMol GraphToMol builds from [g], then reading the written string back gives
    a molecule with distinct atom maps whose MolToGraph reading is [g] again (element, aromaticity, H count, charge, bonds). *)
Definition R1 : Prop :=
  forall s0 m0 g w s, rd_read s0 = Some m0 -> wf g -> geq_sel g (graph_of m0) -> amap_id g ->
    graph_to_wmol g = Some w -> rd_write w = Some s ->
    exists m, rd_read s = Some m /\ rmol_ok m /\ geq_sel (graph_of m) g.

Theorem rsmi_pipeline : R1 ->
  forall r p mr mp, rd_read r = Some mr -> rd_read p = Some mp -> rmol_ok mr -> rmol_ok mp ->
  let G := graph_of mr in let H := graph_of mp in
  wf G -> wf H -> same_nodes G H -> orders_pos G -> orders_pos H ->
  (forall n a, label G n = Some a -> is_H a = false) ->
  forall I r' p', rsmi_to_its_s rd_read r p = Some I -> its_to_rsmi_s rd_write I = Some (r', p') ->
  I = its_construct G H /\
  exists mr' mp', rd_read r' = Some mr' /\ rd_read p' = Some mp' /\ rmol_ok mr' /\ rmol_ok mp' /\
                  geq_sel (graph_of mr') G /\ geq_sel (graph_of mp') H.
Proof.
  intros HR r p mr mp Rr Rp [Nr Sr] [Np Sp] G H WG WH S PG PH NoH I r' p' E1 E2.
  unfold rsmi_to_its_s in E1. rewrite Rr, Rp in E1. unfold rsmi_to_its_m, rsmi_to_graph_m in E1.
  rewrite (mol_to_graph_closed mr Nr Sr), (mol_to_graph_closed mp Np Sp) in E1.
  fold (graph_of mr) in E1. fold (graph_of mp) in E1. fold G in E1. fold H in E1. inversion E1; subst I. clear E1.
  split; [reflexivity|].
  unfold its_to_rsmi_s, its_to_wmols in E2.
  assert (its_to_graphs (its_construct G H) = its_decompose (its_construct G H)) as EG.
  { unfold its_to_graphs. rewrite (hlist_nil_noH G H NoH). reflexivity. }
  rewrite EG in E2.
  destruct (roundtrip G H WG WH S PG PH) as (R1g & A1 & R2h & A2).
  assert (wf (fst (its_decompose (its_construct G H))) /\ wf (snd (its_decompose (its_construct G H)))) as [Wg Wh]
    by (split; apply dec_wf; apply its_wf; assumption).
  destruct (graph_to_wmol (fst (its_decompose (its_construct G H)))) as [wr|] eqn:Wr; [|discriminate].
  destruct (graph_to_wmol (snd (its_decompose (its_construct G H)))) as [wp|] eqn:Wp; [|discriminate].
  destruct (rd_write wr) as [sr|] eqn:Ws1; [|discriminate]. destruct (rd_write wp) as [sp|] eqn:Ws2; [|discriminate].
  inversion E2; subst r' p'. clear E2.
  destruct (HR r mr _ wr sr Rr Wg R1g A1 Wr Ws1) as (mr' & Rr' & Okr & Gr).
  destruct (HR p mp _ wp sp Rp Wh R2h A2 Wp Ws2) as (mp' & Rp' & Okp & Gp).
  exists mr', mp'. split; [exact Rr'|]. split; [exact Rp'|]. split; [exact Okr|]. split; [exact Okp|].
  split; eapply geq_sel_trans; eauto.
Qed.
End Pipeline.

(** * non-vacuity *)
(** methyl bromide + hydroxide, one unmapped spectator atom (dropped), mapped atoms 1 (C), 2 (Br), 3 (O) *)
Definition ex_mr : rmol :=
  RM [RA 70%N false 3 0 1%N [17013%N]; RA 17013%N false 0 0 2%N [70%N]; RA 82%N false 1 (-1) 3%N []; RA 20000%N false 0 1 0%N []]
     [(0%nat, 1%nat, 2)].
Definition ex_mp : rmol :=
  RM [RA 70%N false 3 0 1%N [82%N]; RA 82%N false 1 0 3%N [70%N]; RA 17013%N false 0 (-1) 2%N []]
     [(0%nat, 1%nat, 2)].

Example C01_mol_to_graph_nonvacuous :
  rmol_ok ex_mr /\ rmol_ok ex_mp /\ node_ids (graph_of ex_mr) = [1; 2; 3]%N /\ gedges (graph_of ex_mr) = [(1%N, 2%N, 2)] /\
  mol_to_graph true true ex_mr = Some (graph_of ex_mr) /\
  option_map (fun g : mgraph => length (gnodes g)) (mol_to_graph false true ex_mr) = Some 4%nat /\
  mol_to_graph true false ex_mr = None.
Proof.
  assert (rmol_ok ex_mr /\ rmol_ok ex_mp) as [O1 O2].
  { split; split; cbn; repeat constructor; cbn; intuition discriminate. }
  split; [exact O1|]. split; [exact O2|]. repeat split.
Qed.

(** a graph with explicit hydrogens: C1 bonded to H2, H3 (preserved: maps 2 and 3) and H4 (folded) *)
Definition ex_gh : mgraph :=
  LG [(1%N, GN 70%N false 0 0 None 1); (2%N, GN EL_H false 0 0 None 2); (3%N, GN EL_H false 0 0 None 3); (4%N, GN EL_H false 0 0 None 4)]
     [(1%N, 2%N, 2); (3%N, 1%N, 2); (1%N, 4%N, 2)].
Lemma ex_gh_wf : wf ex_gh.
Proof.
  apply wf_intro; cbn.
  - repeat constructor; cbn; intuition discriminate.
  - intros a b x [E|[E|[E|[]]]]; inversion E; subst; cbn; intuition discriminate.
  - repeat constructor.
Qed.
Example C01_implicit_hydrogen_nonvacuous :
  wf ex_gh /\
  node_ids (implicit_hydrogen ex_gh [2; 3]) = [1; 2; 3]%N /\
  option_map g_hc (label (implicit_hydrogen ex_gh [2; 3]) 1%N) = Some 1 /\
  count_h ex_gh 1%N = 3 /\ count_pres ex_gh [2; 3] 1%N = 2 /\ count_h (implicit_hydrogen ex_gh [2; 3]) 1%N = 2 /\
  option_map (fun w : wmol => (length (fst w), snd w)) (graph_to_wmol (implicit_hydrogen ex_gh [2; 3])) =
    Some (3%nat, [(0%nat, 1%nat, 1%N); (2%nat, 0%nat, 1%N)]).
Proof. split; [apply ex_gh_wf|]. repeat split. Qed.

(** R1 is satisfiable and the pipeline hypotheses hold together: strings = molecules, read = Some, and a writer that returns
    the molecule whose atoms are the RWMol's atoms (hcount as total H) *)
Example C01_its_to_graphs_nonvacuous :
  let I := its_construct (graph_of ex_mr) (graph_of ex_mp) in
  wf I /\ hlist I = [] /\ its_to_graphs I = its_decompose I /\
  (forall n a, label (graph_of ex_mr) n = Some a -> is_H a = false) /\
  same_nodes (graph_of ex_mr) (graph_of ex_mp) /\
  exists w, its_to_wmols I = Some w.
Proof.
  cbv zeta.
  assert (forall n a, label (graph_of ex_mr) n = Some a -> is_H a = false) as NoH.
  { intros n a L. apply assoc_in in L. cbn in L. destruct L as [E|[E|[E|[]]]]; inversion E; reflexivity. }
  assert (wf (graph_of ex_mr) /\ wf (graph_of ex_mp)) as [W1 W2].
  { split; apply graph_of_wf; try (split; cbn; repeat constructor; cbn; intuition discriminate);
      intros u v o [E|[]]; inversion E; discriminate. }
  split; [apply its_wf; assumption|]. split; [apply hlist_nil_noH; exact NoH|].
  split; [unfold its_to_graphs; rewrite (hlist_nil_noH _ _ NoH); reflexivity|].
  split; [exact NoH|]. split; [intros n; cbn; tauto|]. eexists. reflexivity.
Qed.

(** R1 is satisfiable by a reader/writer pair that actually writes (strings = bool: true = the reactant molecule,
    false = the product molecule; the writer recognises the hydroxide oxygen), and then the whole pipeline theorem applies
    with a non-trivial conclusion *)
Definition ex_read (b : bool) : option rmol := Some (if b then ex_mr else ex_mp).
Definition ex_write (w : wmol) : option bool := Some (existsb (fun a => (w_map a =? 3) && (w_ch a =? -1)) (fst w)).

Lemma wmol_atoms (g : mgraph) w : wf g -> graph_to_wmol g = Some w ->
  forall wa, In wa (fst w) <-> exists n a, label g n = Some a /\ wa = watom_of a.
Proof.
  intros W E wa. destruct (graph_to_wmol_spec g) as [_ Hs]. destruct (Hs w E) as (-> & _). rewrite in_map_iff. split.
  - intros ([n a] & <- & I). exists n, a. split; [|reflexivity]. apply assoc_nodup_in; [apply W|exact I].
  - intros (n & a & L & ->). exists (n, a). split; [reflexivity|]. apply assoc_in. exact L.
Qed.

Lemma geq_sel_sym (g h : mgraph) : geq_sel g h -> geq_sel h g.
Proof. intros [A B]. split; intros; symmetry; auto. Qed.

Example C01_R1_nonvacuous :
  R1 bool ex_read ex_write /\
  exists I r' p', rsmi_to_its_s ex_read true false = Some I /\ its_to_rsmi_s ex_write I = Some (r', p') /\ r' = true /\ p' = false.
Proof.
  split.
  - intros s0 m0 g w s Rd W Gq Am Gw Wr. unfold ex_write in Wr. inversion Wr as [Es]. clear Wr. clear Es.
    pose proof (wmol_atoms g w W Gw) as Hat.
    assert (forall a, label g 3%N = Some a -> g_amap a = 3) as Am3 by (intros a L; apply (Am 3%N a L)).
    destruct Gq as [Gl Ga].
    unfold ex_read in Rd. destruct s0; inversion Rd; subst m0; clear Rd.
    + (* the reactant: node 3 is the hydroxide oxygen *)
      pose proof (Gl 3%N) as L3. cbn in L3. destruct (label g 3%N) as [a|] eqn:La; [|discriminate]. cbn in L3. unfold sel4 in L3. injection L3 as E1 E2 E3 E4.
      assert (existsb (fun a => (w_map a =? 3) && (w_ch a =? -1)) (fst w) = true) as ->.
      { apply existsb_exists. exists (watom_of a). split; [apply Hat; eauto|]. cbn. rewrite (Am3 a eq_refl), E4. reflexivity. }
      exists ex_mr. split; [reflexivity|]. split; [split; cbn; repeat constructor; cbn; intuition discriminate|].
      apply geq_sel_sym. split; assumption.
    + (* the product: no atom with map 3 carries charge -1 *)
      assert (existsb (fun a => (w_map a =? 3) && (w_ch a =? -1)) (fst w) = false) as ->.
      { destruct (existsb _ (fst w)) eqn:E; [|reflexivity]. exfalso. apply existsb_exists in E. destruct E as (wa & Iw & Ew).
        apply Hat in Iw. destruct Iw as (n & a & L & ->). cbn in Ew. apply andb_true_iff in Ew. destruct Ew as [Em Ec].
        apply Z.eqb_eq in Em, Ec. pose proof (Am n a L) as An. rewrite Em in An. assert (n = 3%N) as -> by lia.
        pose proof (Gl 3%N) as L3. rewrite L in L3. cbn in L3. unfold sel4 in L3. injection L3 as E1 E2 E3 E4. rewrite E4 in Ec. discriminate. }
      exists ex_mp. split; [reflexivity|]. split; [split; cbn; repeat constructor; cbn; intuition discriminate|].
      apply geq_sel_sym. split; assumption.
  - eexists. eexists. eexists. split; [reflexivity|]. split; [reflexivity|]. split; reflexivity.
Qed.

(** * C01_rsmi_pipeline_explicit: with its_to_rsmi(explicit_hydrogen=True) nothing is folded, so the round trip relative
    to R1 holds for every balanced reaction, explicit hydrogen atoms included *)
Theorem rsmi_pipeline_explicit (str : Type) (rd_read : str -> option rmol) (rd_write : wmol -> option str) :
  R1 str rd_read rd_write ->
  forall r p mr mp, rd_read r = Some mr -> rd_read p = Some mp -> rmol_ok mr -> rmol_ok mp ->
  let G := graph_of mr in let H := graph_of mp in
  wf G -> wf H -> same_nodes G H -> orders_pos G -> orders_pos H ->
  forall J r' p', rsmi_to_its_s rd_read r p = Some J -> its_to_rsmi_s_opt rd_write true J = Some (r', p') ->
  J = its_construct G H /\
  exists mr' mp', rd_read r' = Some mr' /\ rd_read p' = Some mp' /\ rmol_ok mr' /\ rmol_ok mp' /\
                  geq_sel (graph_of mr') G /\ geq_sel (graph_of mp') H.
Proof.
  intros HR r p mr mp Rr Rp [Nr Sr] [Np Sp] G H WG WH S PG PH J r' p' E1 E2.
  unfold rsmi_to_its_s in E1. rewrite Rr, Rp in E1. unfold rsmi_to_its_m, rsmi_to_graph_m in E1.
  rewrite (mol_to_graph_closed mr Nr Sr), (mol_to_graph_closed mp Np Sp) in E1.
  fold (graph_of mr) in E1. fold (graph_of mp) in E1. fold G in E1. fold H in E1. inversion E1; subst J. clear E1.
  split; [reflexivity|].
  unfold its_to_rsmi_s_opt, its_to_wmols_opt, its_to_graphs_opt in E2.
  destruct (roundtrip G H WG WH S PG PH) as (R1g & A1 & R2h & A2).
  assert (wf (fst (its_decompose (its_construct G H))) /\ wf (snd (its_decompose (its_construct G H)))) as [Wg Wh]
    by (split; apply dec_wf; apply its_wf; assumption).
  destruct (graph_to_wmol (fst (its_decompose (its_construct G H)))) as [wr|] eqn:Wr; [|discriminate].
  destruct (graph_to_wmol (snd (its_decompose (its_construct G H)))) as [wp|] eqn:Wp; [|discriminate].
  destruct (rd_write wr) as [sr|] eqn:Ws1; [|discriminate]. destruct (rd_write wp) as [sp|] eqn:Ws2; [|discriminate].
  inversion E2; subst r' p'. clear E2.
  destruct (HR r mr _ wr sr Rr Wg R1g A1 Wr Ws1) as (mr' & Rr' & Okr & Gr).
  destruct (HR p mp _ wp sp Rp Wh R2h A2 Wp Ws2) as (mp' & Rp' & Okp & Gp).
  exists mr', mp'. split; [exact Rr'|]. split; [exact Rp'|]. split; [exact Okr|]. split; [exact Okp|].
  split; eapply geq_sel_trans; eauto.
Qed.

Example C01_rsmi_pipeline_explicit_nonvacuous :
  exists J r' p', rsmi_to_its_s ex_read true false = Some J /\ its_to_rsmi_s_opt ex_write true J = Some (r', p') /\ r' = true /\ p' = false.
Proof. eexists. eexists. eexists. split; [reflexivity|]. split; [reflexivity|]. split; reflexivity. Qed.

Example C01_rsmi_to_its_sel_nonvacuous :
  rsmi_to_its_sel all_sel ex_mr ex_mp <> None /\
  option_map (fun J => option_map (fun b => a_hc (i_G b)) (label J 1%N)) (rsmi_to_its_sel (AS true true false true true true) ex_mr ex_mp) = Some (Some 0) /\
  option_map (fun J => option_map (fun b => a_hc (i_G b)) (label J 1%N)) (rsmi_to_its_sel all_sel ex_mr ex_mp) = Some (Some 3).
Proof. split; [discriminate|]. split; reflexivity. Qed.
