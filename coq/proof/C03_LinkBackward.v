(** C03 — the default mode BACKWARDS from the template: the reactor prepares [invert_template tpl]; every hypothesis the
    default-mode capstone puts on the prepared template transfers from [tpl] (same element on both sides, well formed,
    bonds closed, [tpl_condition]), so the property holds end to end backwards under hypotheses on the template as written.
    Stdlib lists only. *)
From Coq Require Import List NArith ZArith Bool Lia.
From SK Require Import lib.Tok lib.LGraph model.C03_Model model.C03_Order model.C03_Reactor proof.C03_Proof proof.C03_Glue
                       proof.C03_Backward proof.C03_StripExact proof.C03_StripCor proof.C03_ReactorProof proof.C03_ReactorSpec
                       proof.C03_Capstone proof.C03_LinkDefault proof.C03_LinkImplicit.
Import ListNotations.
Local Open Scope Z_scope.

Lemma flat_map_flat_map {A B C} (f : A -> list B) (g : B -> list C) l :
  flat_map g (flat_map f l) = flat_map (fun a => flat_map g (f a)) l.
Proof. induction l as [|a r IH]; simpl; [reflexivity|]. rewrite flat_map_app, IH. reflexivity. Qed.

Lemma side0_invert_G tpl : side0 iG eG (invert_template tpl) = side0 iH eH tpl.
Proof.
  assert (Hn : gnodes (side0 iG eG (invert_template tpl)) = gnodes (side0 iH eH tpl)).
  { rewrite side0_nodes_G, side0_nodes_H, invert_gnodes, map_map. reflexivity. }
  assert (He : gedges (side0 iG eG (invert_template tpl)) = gedges (side0 iH eH tpl)).
  { rewrite !side0_edges. unfold invert_template; cbn [gedges]. rewrite flat_map_flat_map. apply flat_map_ext. intros [[u v] x].
    destruct (Z.ltb_spec 0 (eH x)), (Z.ltb_spec 0 (eG x)); cbn [orb flat_map app eG fst];
      repeat match goal with |- context [0 <? ?z] => destruct (Z.ltb_spec 0 z) end; try reflexivity; try lia. }
  destruct (side0 iG eG (invert_template tpl)) as [n e], (side0 iH eH tpl) as [n' e']. cbn [gnodes gedges] in *. congruence.
Qed.
Lemma side0_invert_H tpl : side0 iH eH (invert_template tpl) = side0 iG eG tpl.
Proof.
  assert (Hn : gnodes (side0 iH eH (invert_template tpl)) = gnodes (side0 iG eG tpl)).
  { rewrite side0_nodes_G, side0_nodes_H, invert_gnodes, map_map. reflexivity. }
  assert (He : gedges (side0 iH eH (invert_template tpl)) = gedges (side0 iG eG tpl)).
  { rewrite !side0_edges. unfold invert_template; cbn [gedges]. rewrite flat_map_flat_map. apply flat_map_ext. intros [[u v] x].
    destruct (Z.ltb_spec 0 (eH x)), (Z.ltb_spec 0 (eG x)); cbn [orb flat_map app eH fst snd];
      repeat match goal with |- context [0 <? ?z] => destruct (Z.ltb_spec 0 z) end; try reflexivity; try lia. }
  destruct (side0 iH eH (invert_template tpl)) as [n e], (side0 iG eG tpl) as [n' e']. cbn [gnodes gedges] in *. congruence.
Qed.

Section Inv.
  Variable tpl : its.
  Hypothesis Hel : forall k a, In (k, a) (gnodes tpl) -> a_el (iH a) = a_el (iG a).

  Lemma isH_invert h : is_H_i (invert_template tpl) h = is_H_i tpl h.
  Proof.
    unfold is_H_i. rewrite invert_label. destruct (label tpl h) as [a|] eqn:E; [|reflexivity]. cbn [option_map inv_node iG inv_tuple a_el].
    unfold label in E. apply assoc_in in E. rewrite (Hel h a E). reflexivity.
  Qed.

  Lemma Hel_invert k a : In (k, a) (gnodes (invert_template tpl)) -> a_el (iH a) = a_el (iG a).
  Proof.
    rewrite invert_gnodes. intros I. apply in_map_iff in I. destruct I as ([k0 a0] & E & I). inversion E; subst.
    cbn [inv_node iG iH inv_tuple a_el snd]. symmetry. exact (Hel _ _ I).
  Qed.
End Inv.

(** bonds of the inverted template, side by side *)
Definition inv_edge (e : N * N * iedge) : list (N * N * iedge) :=
  let '(u, v, x) := e in
  let g := if 0 <? eH x then eH x else 0 in
  let h := if 0 <? eG x then eG x else 0 in
  if (0 <? eH x) || (0 <? eG x) then [(u, v, (g, h, g - h))] else [].
Lemma invert_gedges T : gedges (invert_template T) = flat_map inv_edge (gedges T).
Proof. reflexivity. Qed.

Lemma find_edge_inv_none k h (r : list (N * N * iedge)) :
  existsb (fun e : N * N * iedge => let '(u, v, _) := e in peq u v k h) r = false -> find_edge k h (flat_map inv_edge r) = None.
Proof.
  induction r as [|[[u v] x] r IH]; [reflexivity|]. cbn [existsb flat_map]. intros H. apply orb_false_elim in H. destruct H as [H1 H2].
  unfold inv_edge at 1. destruct ((0 <? eH x) || (0 <? eG x)); cbn [app]; [|exact (IH H2)].
  cbn [find_edge]. unfold peq in H1. rewrite H1. exact (IH H2).
Qed.

Lemma find_edge_invert (se1 se2 : iedge -> Z) (es : list (N * N * iedge)) k h :
  (forall x, (0 <? se1 (if 0 <? eH x then eH x else 0, if 0 <? eG x then eG x else 0, (if 0 <? eH x then eH x else 0) - (if 0 <? eG x then eG x else 0))) = (0 <? se2 x)) ->
  (forall x, (0 <? eH x) || (0 <? eG x) = false -> (0 <? se2 x) = false) ->
  simple_edgesb es = true ->
  match find_edge k h (flat_map inv_edge es) with Some y => 0 <? se1 y | None => false end
  = match find_edge k h es with Some x => 0 <? se2 x | None => false end.
Proof.
  intros H1 H2. induction es as [|[[u v] x] r IH]; [reflexivity|]. intros Hs. cbn [simple_edgesb] in Hs.
  apply andb_prop in Hs. destruct Hs as [Hs S3]. apply andb_prop in Hs. destruct Hs as [_ S2]. apply negb_true_iff in S2.
  cbn [flat_map find_edge]. unfold inv_edge at 1.
  destruct ((0 <? eH x) || (0 <? eG x)) eqn:Ep; cbn [app].
  - cbn [find_edge]. destruct ((N.eqb u k && N.eqb v h) || (N.eqb u h && N.eqb v k)); [apply H1|exact (IH S3)].
  - destruct ((N.eqb u k && N.eqb v h) || (N.eqb u h && N.eqb v k)) eqn:Em; [|exact (IH S3)].
    rewrite (H2 x Ep). rewrite find_edge_inv_none; [reflexivity|].
    (* no later edge joins k and h: the list is simple *)
    apply Bool.not_true_is_false. intros C. apply existsb_exists in C. destruct C as ([[u' v'] x'] & I & P).
    assert (Q : existsb (fun e : N * N * iedge => let '(a, b, _) := e in peq a b u v) r = true).
    { apply existsb_exists. exists (u', v', x'). split; [exact I|]. unfold peq in *.
      apply orb_prop in Em. apply orb_prop in P.
      destruct Em as [Em|Em], P as [P|P]; apply andb_prop in Em; apply andb_prop in P; destruct Em as [E1 E2], P as [P1 P2];
        apply N.eqb_eq in E1, E2, P1, P2; subst; rewrite !N.eqb_refl; cbn; rewrite ?orb_true_r; reflexivity. }
    congruence.
Qed.

Lemma bonded_invert_G tpl k h : simple_edgesb (gedges tpl) = true ->
  bonded eG (invert_template tpl) k h = bonded eH tpl k h.
Proof.
  intros Hs. unfold bonded, adj. rewrite invert_gedges. apply (find_edge_invert eG eH (gedges tpl) k h); [| |exact Hs].
  - intros x. cbn [eG fst]. destruct (Z.ltb_spec 0 (eH x)) as [Hp|Hp]; [destruct (Z.ltb_spec 0 (eH x)); [reflexivity|lia]|reflexivity].
  - intros x Hx. apply orb_false_elim in Hx. exact (proj1 Hx).
Qed.
Lemma bonded_invert_H tpl k h : simple_edgesb (gedges tpl) = true ->
  bonded eH (invert_template tpl) k h = bonded eG tpl k h.
Proof.
  intros Hs. unfold bonded, adj. rewrite invert_gedges. apply (find_edge_invert eH eG (gedges tpl) k h); [| |exact Hs].
  - intros x. cbn [eH fst snd]. destruct (Z.ltb_spec 0 (eG x)) as [Hp|Hp]; [destruct (Z.ltb_spec 0 (eG x)); [reflexivity|lia]|reflexivity].
  - intros x Hx. apply orb_false_elim in Hx. exact (proj2 Hx).
Qed.

Lemma sumL_dQ_invert (R : list N) tpl :
  sumL dQ (filter (keepn R) (gnodes (invert_template tpl))) = - sumL dQ (filter (keepn R) (gnodes tpl)).
Proof.
  rewrite invert_gnodes. induction (gnodes tpl) as [|[k a] r IH]; [reflexivity|]. cbn [map filter fst snd].
  change (keepn R (k, inv_node a)) with (negb (mem k R)). change (keepn R (k, a)) with (negb (mem k R)).
  destruct (negb (mem k R)); [|exact IH]. unfold sumL in *. cbn [fold_right snd]. rewrite IH. unfold dQ. cbn [inv_node iG iH inv_tuple a_ch]. lia.
Qed.

Lemma countZ_ext {A} (P Q : A -> bool) l : (forall x, P x = Q x) -> countZ P l = countZ Q l.
Proof. intros H. unfold countZ. f_equal. f_equal. induction l as [|x r IH]; simpl; [reflexivity|]. rewrite H, IH. reflexivity. Qed.

(** the template condition is symmetric in the two sides *)
Theorem tpl_condition_invert tpl :
  (forall k a, In (k, a) (gnodes tpl) -> a_el (iH a) = a_el (iG a)) -> simple_edgesb (gedges tpl) = true ->
  tpl_condition tpl -> tpl_condition (invert_template tpl).
Proof.
  intros Hel Hs Hc R K NR NK HR HK.
  assert (HR' : forall h, In h R <-> is_H_i tpl h = true /\ heavy_nbr (side0 iG eG tpl) h = true /\ heavy_nbr (side0 iH eH tpl) h = true).
  { intros h. rewrite (HR h), (isH_invert tpl Hel h), side0_invert_G, side0_invert_H. tauto. }
  assert (HK' : forall k, In k K <-> In k (node_ids tpl) /\ is_H_i tpl k = false).
  { intros k. rewrite (HK k), invert_ids, (isH_invert tpl Hel k). tauto. }
  destruct (Hc R K NR NK HR' HK') as [E Q]. split.
  - intros h Ih. rewrite (countZ_ext _ (fun k => bonded eG tpl k h)) by (intros k; apply bonded_invert_H; exact Hs).
    rewrite (countZ_ext (fun k => bonded eG (invert_template tpl) k h) (fun k => bonded eH tpl k h)) by (intros k; apply bonded_invert_G; exact Hs).
    symmetry. exact (E h Ih).
  - rewrite sumL_dQ_invert, Q. reflexivity.
Qed.

(** * the default mode BACKWARDS end to end, hypotheses on the template as written *)
Theorem its_list_default_end_to_end_backward inp tpl rc l r gs :
  i_rule inp = synrule (invert_template tpl) true -> synrule (invert_template tpl) true = Some (rc, l, r) ->
  (forall k a, In (k, a) (gnodes tpl) -> a_el (iH a) = a_el (iG a)) ->
  wf_rcb tpl = true -> edges_closedb tpl = true -> tpl_condition tpl ->
  wf_hostb (i_host inp) = true -> forallb (call_okm (i_host inp) l) (i_calls inp) = true ->
  spec_its inp = Some gs ->
  forall g, In g gs ->
    instance_of (i_host inp) rc g /\
    (forall e, elem_count e (fst (its_decompose g)) = elem_count e (snd (its_decompose g))) /\
    total_charge (fst (its_decompose g)) = total_charge (snd (its_decompose g)).
Proof.
  intros Ei Es Hel Hw Hc Hcond Hwh Hcalls Hits g Ig.
  assert (Hs : simple_edgesb (gedges tpl) = true).
  { unfold wf_rcb in Hw. apply andb_prop in Hw. destruct Hw as [Hw _]. apply andb_prop in Hw. exact (proj2 Hw). }
  exact (its_list_default_end_to_end inp (invert_template tpl) rc l r gs Ei Es (Hel_invert tpl Hel) (invert_wf tpl Hw)
           (invert_edges_closedb tpl Hc) (tpl_condition_invert tpl Hel Hs Hcond) Hwh Hcalls Hits g Ig).
Qed.

(** * a SynRule OBJECT applied backwards (SynReactor._wrap_template after /repo cc40c07): the reactor inverts the PREPARED
    rule graph rc0 and uses it without preparing it again — the implicit-template theorem applied to rc0.  Here for a rule
    object prepared in the default mode from a template: hypotheses on the template, the substrate, the matcher's contract. *)
From SK Require Import proof.C03_DefaultEnd.
Theorem its_list_synrule_object_backward (implicit_temp : bool) inp tpl rc0 l0 r0 gs :
  synrule tpl true = Some (rc0, l0, r0) ->
  i_rule inp = wrap_template_rule true implicit_temp (rc0, l0, r0) ->
  (forall k a, In (k, a) (gnodes tpl) -> a_el (iH a) = a_el (iG a)) ->
  wf_rcb tpl = true -> edges_closedb tpl = true ->
  wf_hostb (i_host inp) = true ->
  forallb (call_okm (i_host inp) (fst (its_decompose (invert_template rc0)))) (i_calls inp) = true ->
  spec_its inp = Some gs ->
  forall g, In g gs ->
    instance_of (i_host inp) (invert_template rc0) g /\
    (tpl_condition tpl ->
       (forall e, elem_count e (fst (its_decompose g)) = elem_count e (snd (its_decompose g))) /\
       total_charge (fst (its_decompose g)) = total_charge (snd (its_decompose g))).
Proof.
  intros Es Ei Hel Hw Hc Hwh Hcalls Hits g Ig.
  destruct (default_rule_hyps tpl rc0 l0 r0 Hel Hw Hc Es) as (R1 & R2 & _).
  unfold wrap_template_rule in Ei. cbn [fst] in Ei.
  destruct (its_list_implicit_end_to_end true inp rc0 gs Ei R1 R2 Hwh Hcalls Hits g Ig) as [A B]. split; [exact A|].
  intros Hcond. apply B.
  assert (Hnd : nodupb (node_ids tpl) = true /\ simple_edgesb (gedges tpl) = true).
  { unfold wf_rcb in Hw. apply andb_prop in Hw. destruct Hw as [Hw _]. apply andb_prop in Hw. exact Hw. }
  exact (default_rule_balanced tpl rc0 l0 r0 (proj1 Hnd) Hel (proj2 Hnd) Es Hcond).
Qed.

(** * the template-side hypotheses as one boolean ([default_tpl_okb], proof/C03_ReactorSpec.v) *)
From Coq Require Import Permutation.
Lemma countZ_perm' {A} (P : A -> bool) l l' : Permutation l l' -> countZ P l = countZ P l'.
Proof. unfold countZ. induction 1; simpl; try (destruct (P x)); try (destruct (P y)); simpl; try lia. Qed.

Lemma filter_keepn_ext (R R' : list N) (l : list (N * inode)) : (forall h, In h R <-> In h R') -> filter (keepn R) l = filter (keepn R') l.
Proof.
  intros H. apply filter_ext. intros p. unfold keepn. f_equal.
  destruct (mem (fst p) R) eqn:E1, (mem (fst p) R') eqn:E2; try reflexivity.
  - apply mem_spec in E1. apply H in E1. apply mem_spec in E1. congruence.
  - apply mem_spec in E2. apply H in E2. apply mem_spec in E2. congruence.
Qed.

Theorem tpl_condb_sound tpl : NoDup (node_ids tpl) -> tpl_condb tpl = true -> tpl_condition tpl.
Proof.
  intros Hnd Hb R K NR NK HR HK. unfold tpl_condb in Hb. apply andb_prop in Hb. destruct Hb as [B1 B2].
  rewrite forallb_forall in B1. apply Z.eqb_eq in B2.
  assert (ER : forall h, In h R <-> In h (removedR tpl)).
  { intros h. rewrite HR. unfold removedR. rewrite filter_In. split.
    - intros (A & B & C). split; [|rewrite A, B, C; reflexivity].
      apply has_node_in. unfold is_H_i in A. unfold has_node. destruct (label tpl h); [reflexivity|discriminate].
    - intros (_ & H). apply andb_prop in H. destruct H as [H C]. apply andb_prop in H. tauto. }
  assert (PK : Permutation K (keptK tpl)).
  { apply NoDup_Permutation; [exact NK|apply NoDup_filter; exact Hnd|].
    intros k. rewrite HK. unfold keptK. rewrite filter_In. split; intros [A B]; (split; [exact A|]).
    - rewrite B. reflexivity.
    - apply negb_true_iff in B. exact B. }
  split.
  - intros h Ih. apply ER in Ih. specialize (B1 h Ih). apply Z.eqb_eq in B1.
    rewrite (countZ_perm' _ _ _ PK), (countZ_perm' (fun k => bonded eG tpl k h) _ _ PK). exact B1.
  - rewrite (filter_keepn_ext R (removedR tpl) _ ER). exact B2.
Qed.

Theorem default_tpl_okb_sound tpl : default_tpl_okb tpl = true ->
  (forall k a, In (k, a) (gnodes tpl) -> a_el (iH a) = a_el (iG a)) /\ wf_rcb tpl = true /\ edges_closedb tpl = true /\ tpl_condition tpl.
Proof.
  unfold default_tpl_okb. intros H. apply andb_prop in H. destruct H as [H H4]. apply andb_prop in H. destruct H as [H H3].
  apply andb_prop in H. destruct H as [H1 H2]. split; [|split; [exact H1|split; [exact H2|]]].
  - intros k a I. unfold same_elb in H3. rewrite forallb_forall in H3. specialize (H3 _ I). apply N.eqb_eq in H3. exact H3.
  - apply tpl_condb_sound; [exact (wf_rc_nodup tpl H1)|exact H4].
Qed.

(** the default mode end to end, forwards and backwards, the template-side hypotheses as the evaluated boolean *)
Theorem its_list_default_bool (invert : bool) inp tpl rc l r gs :
  default_tpl_okb tpl = true ->
  i_rule inp = synrule (if invert then invert_template tpl else tpl) true ->
  synrule (if invert then invert_template tpl else tpl) true = Some (rc, l, r) ->
  wf_hostb (i_host inp) = true -> forallb (call_okm (i_host inp) l) (i_calls inp) = true ->
  spec_its inp = Some gs ->
  forall g, In g gs ->
    instance_of (i_host inp) rc g /\
    (forall e, elem_count e (fst (its_decompose g)) = elem_count e (snd (its_decompose g))) /\
    total_charge (fst (its_decompose g)) = total_charge (snd (its_decompose g)).
Proof.
  intros Hb Ei Es Hwh Hcalls Hits g Ig. destruct (default_tpl_okb_sound tpl Hb) as (Hel & Hw & Hc & Hcond).
  destruct invert.
  - exact (its_list_default_end_to_end_backward inp tpl rc l r gs Ei Es Hel Hw Hc Hcond Hwh Hcalls Hits g Ig).
  - exact (its_list_default_end_to_end inp tpl rc l r gs Ei Es Hel Hw Hc Hcond Hwh Hcalls Hits g Ig).
Qed.

