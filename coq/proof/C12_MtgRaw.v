(** C12 -- the MTG copy: the property over histories stated on the graphs THE CALLER PASSES (raw attribute dictionaries). *)
From Coq Require Import List NArith ZArith Bool Arith Lia Permutation.
From SK Require Import lib.Tok lib.LGraph lib.Mono model.C12_Model model.C12_State
     proof.C12_Search proof.C12_Proof proof.C12_State.
Import ListNotations.
Local Open Scope nat_scope.

Lemma project_mtg_label cfg g u : label (project_mtg cfg g) u = option_map (project_node cfg) (label g u).
Proof.
  unfold label, project_mtg. simpl. induction (gnodes g) as [|[k a] r IH]; simpl; [reflexivity|].
  destruct (N.eqb u k); [reflexivity|exact IH].
Qed.

Lemma project_mtg_adj cfg g u v : LGraph.adj (project_mtg cfg g) u v = option_map (project_edge_mtg cfg) (LGraph.adj g u v).
Proof.
  unfold LGraph.adj, project_mtg. simpl. induction (gedges g) as [|[[a b] x] r IH]; simpl; [reflexivity|].
  destruct ((N.eqb a u && N.eqb b v) || (N.eqb a v && N.eqb b u)); [reflexivity|exact IH].
Qed.

(** the validity clause of the MTG copy on raw graphs: configured labels equal after the defaults, and every bond between
    mapped atoms present on both sides with matching values of THE edge attribute (float() equality, == for values float()
    rejects, missing only against missing -- after repair /repo 24a0150), or absent on both sides *)
Definition raw_common_induced_mtg (cfg : config) (k : N) (ga gb : rgraph) (m : mapping) : Prop :=
  NoDup (map fst m) /\ NoDup (map snd m) /\
  (forall p h, In (p, h) m ->
     exists a b, label ga p = Some a /\ label gb h = Some b /\ node_match_raw (c_names cfg) (c_defs cfg) b a = true) /\
  (forall p h p' h', In (p, h) m -> In (p', h') m -> p <> p' ->
     match LGraph.adj ga p p', LGraph.adj gb h h' with
     | Some b, Some b' => edge_match_mtg_raw k b' b = true
     | None, None => True
     | _, _ => False
     end).

Theorem project_mtg_ci_iff cfg k ga gb m : length (c_defs cfg) = length (c_names cfg) -> c_enames cfg = [k] ->
  common_induced (node_match (c_defs cfg)) edge_match_mtg (project_mtg cfg ga) (project_mtg cfg gb) m <->
  raw_common_induced_mtg cfg k ga gb m.
Proof.
  intros EL EK. unfold common_induced, raw_common_induced_mtg.
  split; intros (A & B & C & D); (split; [exact A|split; [exact B|split]]).
  - intros p h I. destruct (C p h I) as (_ & _ & Hm). rewrite !project_mtg_label in Hm.
    destruct (label gb h) as [b|], (label ga p) as [a|]; simpl in Hm; try discriminate.
    exists a, b. split; [reflexivity|split; [reflexivity|]].
    rewrite (node_match_raw_project _ _ _ _ EL). exact Hm.
  - intros p h p' h' I I' Hne. specialize (D p h p' h' I I' Hne). rewrite !project_mtg_adj in D.
    destruct (LGraph.adj ga p p') as [b|], (LGraph.adj gb h h') as [b'|]; cbn [option_map] in D; auto.
    rewrite (edge_match_mtg_project cfg k b' b EK) in D. exact D.
  - intros p h I. destruct (C p h I) as (a & b & La & Lb & Hm).
    rewrite !project_mtg_ids, !project_mtg_label, La, Lb. simpl. split; [|split].
    + apply assoc_in in La. change p with (fst (p, a)). now apply in_map.
    + apply assoc_in in Lb. change h with (fst (h, b)). now apply in_map.
    + rewrite <- (node_match_raw_project _ _ _ _ EL). exact Hm.
  - intros p h p' h' I I' Hne. specialize (D p h p' h' I I' Hne). rewrite !project_mtg_adj.
    destruct (LGraph.adj ga p p') as [b|], (LGraph.adj gb h h') as [b'|]; cbn [option_map]; auto.
    rewrite (edge_match_mtg_project cfg k b' b EK). exact D.
Qed.

(** the MTG object after any history, on the caller's graphs (object built by its constructor) *)
Theorem mtg_history_valid_raw a st ops g1 g2 mcs rds :
  NoDup (node_ids g1) -> NoDup (node_ids g2) -> forallb t_is_read rds = true ->
  let cfg := mk_config_mtg a in
  let stf := t_run cfg st (ops ++ TFind g1 g2 mcs :: rds) in
  (forall m, In m (t_maps stf) -> raw_common_induced_mtg cfg (ma_edge a) g1 g2 m /\ 1 <= length m) /\
  (mcs = true -> (forall m, In m (t_maps stf) -> length m = t_last stf) /\
                 (forall m, raw_common_induced_mtg cfg (ma_edge a) g1 g2 m -> length m <= t_last stf)) /\
  (mcs = false -> forall m, raw_common_induced_mtg cfg (ma_edge a) g1 g2 m -> 1 <= length m ->
                  exists m', In m' (t_maps stf) /\ Permutation m m').
Proof.
  intros N1 N2 Hr cfg stf.
  assert (EL : length (c_defs cfg) = length (c_names cfg)) by apply mk_config_mtg_lengths.
  assert (EK : c_enames cfg = [ma_edge a]) by reflexivity.
  destruct (mtg_history_valid cfg st ops g1 g2 mcs rds N1 N2 Hr) as (V & Hmax & Hall). fold stf in V, Hmax, Hall.
  split; [|split].
  - intros m Hm. destruct (V m Hm) as (C & L). split; [now apply (project_mtg_ci_iff cfg _ g1 g2 m EL EK)|exact L].
  - intros Em. destruct (Hmax Em) as (M1 & M2 & _). split; [exact M1|].
    intros m Hv. apply M2. now apply (project_mtg_ci_iff cfg _ g1 g2 m EL EK).
  - intros Em m Hv L. apply (Hall Em m); [now apply (project_mtg_ci_iff cfg _ g1 g2 m EL EK)|exact L].
Qed.
