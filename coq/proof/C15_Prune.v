(** C15 (round 5, audit A3-1, the must-drop direction) — an orphaned species IS dropped.
    After remove_rxn, a species of the removed reaction is still in the species set IF AND ONLY IF it still occurs in a
    stored reaction (whether or not it was ever kept); after remove_species(x, prune_orphans=True), x is gone.
    With C15_species_shrink_only_where_allowed (nothing else is dropped) and [Inv] this is the exact reading of the species
    clause that code, model and oracle share. *)
From stdpp Require Import gmap strings sets pretty.
From SK Require Import lib.Tok model.C15_Model proof.C15_Proof.
Local Open Scope string_scope.

(** species already tested by prune_orphan: present only if occurring or still pending in an index *)
Definition QInv (Dout Din T : gset string) (s : net) : Prop :=
  ∀ x, x ∈ T → x ∈ species s → occurs (edges s) x ∨ x ∈ Dout ∪ Din.

Lemma prune_orphan_Q e Dout Din P T x s :
  PInv e Dout Din P s → QInv Dout Din T s → QInv Dout Din (T ∪ {[ x ]}) (prune_orphan x s).
Proof.
  intros HP HQ y Hy. unfold prune_orphan. destruct (decide _) as [[Hi Ho]|Hno]; cbn.
  - intros [Hys Hne]%elem_of_difference. apply HQ; [|done]. set_solver.
  - intros Hys. destruct (decide (y = x)) as [->|Hne]; [|apply HQ; [set_solver|done]].
    apply not_and_l in Hno as [Hi|Ho].
    + apply set_choose_L in Hi as [e' He']. apply (p_in _ _ _ _ _ HP) in He' as [(rx&?&?)|[-> ?]].
      * left. exists e', rx. unfold rxn_species. set_solver.
      * right. set_solver.
    + apply set_choose_L in Ho as [e' He']. apply (p_out _ _ _ _ _ HP) in He' as [(rx&?&?)|[-> ?]].
      * left. exists e', rx. unfold rxn_species. set_solver.
      * right. set_solver.
Qed.

Lemma step_out_Q e Dout Din T x s : edges s !! e = None → PInv e Dout Din ∅ s → QInv Dout Din T s →
  QInv (Dout ∖ {[ x ]}) Din (T ∪ {[ x ]}) (prune_orphan x (out_discard e x s)).
Proof.
  intros Hn HP HQ. pose proof (out_discard_PInv e Dout Din x s Hn HP) as HP1.
  assert (QInv (Dout ∖ {[ x ]}) Din (T ∖ {[ x ]}) (out_discard e x s)) as HQ1.
  { intros y [Hy Hne]%elem_of_difference Hys. cbn in Hys. destruct (HQ y Hy Hys) as [?|?]; [by left|right; set_solver]. }
  pose proof (prune_orphan_Q e _ _ _ _ x _ HP1 HQ1) as H. intros y Hy. apply H. destruct (decide (y = x)); set_solver.
Qed.
Lemma step_in_Q e Dout Din T x s : edges s !! e = None → PInv e Dout Din ∅ s → QInv Dout Din T s →
  QInv Dout (Din ∖ {[ x ]}) (T ∪ {[ x ]}) (prune_orphan x (in_discard e x s)).
Proof.
  intros Hn HP HQ. pose proof (in_discard_PInv e Dout Din x s Hn HP) as HP1.
  assert (QInv Dout (Din ∖ {[ x ]}) (T ∖ {[ x ]}) (in_discard e x s)) as HQ1.
  { intros y [Hy Hne]%elem_of_difference Hys. cbn in Hys. destruct (HQ y Hy Hys) as [?|?]; [by left|right; set_solver]. }
  pose proof (prune_orphan_Q e _ _ _ _ x _ HP1 HQ1) as H. intros y Hy. apply H. destruct (decide (y = x)); set_solver.
Qed.

Lemma fold_out_Q e Dout Din T s0 D :
  edges s0 !! e = None → PInv e Dout Din ∅ s0 → QInv Dout Din T s0 →
  let s' := set_fold (λ x acc, prune_orphan x (out_discard e x acc)) s0 D in
  PInv e (Dout ∖ D) Din ∅ s' ∧ same_frame s0 s' ∧ QInv (Dout ∖ D) Din (T ∪ D) s'.
Proof.
  intros Hn HP HQ. cbn. revert D.
  apply (set_fold_ind_L (λ acc (X : gset string), PInv e (Dout ∖ X) Din ∅ acc ∧ same_frame s0 acc ∧ QInv (Dout ∖ X) Din (T ∪ X) acc)).
  - rewrite difference_empty_L, (right_id_L ∅ (∪)). done.
  - intros x X acc Hx (IH & (HE & HO & HK & HC) & IQ).
    assert (Dout ∖ ({[x]} ∪ X) = (Dout ∖ X) ∖ {[x]}) as -> by set_solver.
    assert (T ∪ ({[x]} ∪ X) = (T ∪ X) ∪ {[x]}) as -> by set_solver.
    assert (edges acc !! e = None) as Hna by (by rewrite HE).
    split; [|split].
    + eapply prune_orphan_PInv; [|done]. by apply out_discard_PInv.
    + destruct (prune_orphan_frame x (out_discard e x acc)) as (?&?&?&?).
      unfold same_frame. cbn in *. split_and!; congruence.
    + by apply step_out_Q.
Qed.
Lemma fold_in_Q e Dout Din T s0 D :
  edges s0 !! e = None → PInv e Dout Din ∅ s0 → QInv Dout Din T s0 →
  let s' := set_fold (λ x acc, prune_orphan x (in_discard e x acc)) s0 D in
  PInv e Dout (Din ∖ D) ∅ s' ∧ same_frame s0 s' ∧ QInv Dout (Din ∖ D) (T ∪ D) s'.
Proof.
  intros Hn HP HQ. cbn. revert D.
  apply (set_fold_ind_L (λ acc (X : gset string), PInv e Dout (Din ∖ X) ∅ acc ∧ same_frame s0 acc ∧ QInv Dout (Din ∖ X) (T ∪ X) acc)).
  - rewrite difference_empty_L, (right_id_L ∅ (∪)). done.
  - intros x X acc Hx (IH & (HE & HO & HK & HC) & IQ).
    assert (Din ∖ ({[x]} ∪ X) = (Din ∖ X) ∖ {[x]}) as -> by set_solver.
    assert (T ∪ ({[x]} ∪ X) = (T ∪ X) ∪ {[x]}) as -> by set_solver.
    assert (edges acc !! e = None) as Hna by (by rewrite HE).
    split; [|split].
    + eapply prune_orphan_PInv; [|done]. by apply in_discard_PInv.
    + destruct (prune_orphan_frame x (in_discard e x acc)) as (?&?&?&?).
      unfold same_frame. cbn in *. split_and!; congruence.
    + by apply step_in_Q.
Qed.

(** remove_rxn: a species of the removed reaction stays exactly when it still occurs in a stored reaction *)
Lemma remove_rxn_prunes s e s' rx : Inv s → edges s !! e = Some rx → remove_rxn s e = (s', None) →
  ∀ x, x ∈ rxn_species rx → (x ∈ species s' ↔ occurs (edges s') x).
Proof.
  intros HI He Hr x Hx.
  pose proof (remove_rxn_full s e rx HI He) as (_ & HI' & _). rewrite Hr in HI'. cbn in HI'.
  split; [|apply (inv_occ _ HI')].
  revert Hr. unfold remove_rxn. rewrite He. intros [= <-].
  set (s1 := Net (species s) (delete e (edges s)) (filter (λ e', e' ≠ e) (order s))
                 (s_in s) (s_out s) (counters s) (mol s) (kept s)).
  assert (Hn1 : edges s1 !! e = None) by apply lookup_delete.
  assert (HP1 : PInv e (dom (r_lhs rx)) (dom (r_rhs rx)) ∅ s1).
  { split; cbn.
    - intros y e'. rewrite (inv_in _ HI), elem_of_producers. split.
      + intros (rx' & He' & Hy). destruct (decide (e' = e)) as [->|Hne].
        * right. split; [done|]. by simplify_eq.
        * left. exists rx'. by rewrite lookup_delete_ne.
      + intros [(rx' & [Hne He']%lookup_delete_Some & Hy)|[-> Hy]]; eauto.
    - intros y e'. rewrite (inv_out _ HI), elem_of_consumers. split.
      + intros (rx' & He' & Hy). destruct (decide (e' = e)) as [->|Hne].
        * right. split; [done|]. by simplify_eq.
        * left. exists rx'. by rewrite lookup_delete_ne.
      + intros [(rx' & [Hne He']%lookup_delete_Some & Hy)|[-> Hy]]; eauto.
    - intros y (e' & rx' & [Hne He']%lookup_delete_Some & Hy). apply (inv_occ _ HI). by exists e', rx'.
    - intros y Hy. destruct (inv_sp _ HI y Hy) as [(e' & rx' & He' & Hy')|?]; [|by right; left].
      destruct (decide (e' = e)) as [->|Hne].
      + right; right. simplify_eq. unfold rxn_species in Hy'. set_solver.
      + left. exists e', rx'. by rewrite lookup_delete_ne.
    - apply HI. }
  assert (HQ1 : QInv (dom (r_lhs rx)) (dom (r_rhs rx)) ∅ s1) by (by intros ? ?%elem_of_empty).
  destruct (fold_out_Q e _ _ ∅ s1 (dom (r_lhs rx)) Hn1 HP1 HQ1) as (HP2 & HF2 & HQ2).
  set (s2 := set_fold (λ x acc, prune_orphan x (out_discard e x acc)) s1 (dom (r_lhs rx))) in *.
  assert (Hn2 : edges s2 !! e = None) by (destruct HF2 as [-> _]; done).
  destruct (fold_in_Q e _ _ _ s2 (dom (r_rhs rx)) Hn2 HP2 HQ2) as (_ & _ & HQ3).
  intros Hxs. destruct (HQ3 x) as [?|Hbad]; [unfold rxn_species in Hx; set_solver|exact Hxs|done|set_solver].
Qed.

(** remove_species(x, prune_orphans=True): x is gone *)
Lemma remove_species_prunes s x s' : remove_species s x true = (s', None) → x ∉ species s'.
Proof.
  unfold remove_species. destruct (decide (x ∈ species s)); [|done]. destruct (decide _); [|done].
  intros [= <-]. unfold prune_orphan. cbn [s_in s_out].
  rewrite decide_True; [cbn; set_solver|].
  split; rewrite lookup_alter; [by destruct (s_in s !! x)|by destruct (s_out s !! x)].
Qed.

(** non-vacuity: the auditor's scenario — A -> B; remove_species A keep; add A -> C as e2; remove_rxn e2: A (ever kept, a
    species of the removed reaction, occurring nowhere) is dropped, C too, B stays *)
Definition exp_s0 : net := (remove_species (add empty_net {[ "A" := 1%positive ]} {[ "B" := 1%positive ]} "r" None).1.1 "A" false).1.
Definition exp_s1 : net := (add exp_s0 {[ "A" := 1%positive ]} {[ "C" := 1%positive ]} "r" (Some "e2")).1.1.
Definition exp_s2 : net := (remove_rxn exp_s1 "e2").1.
Example ex_prunes_nonvacuous :
  bool_decide ("A" ∈ kept exp_s1) = true ∧ bool_decide ("A" ∈ species exp_s1) = true ∧ (remove_rxn exp_s1 "e2").2 = None ∧
  bool_decide (species exp_s2 = {[ "B" ]}) = true ∧ size (edges exp_s2) = 1%nat.
Proof. split_and!; by vm_compute. Qed.
