(** C12 -- the two VF2-order dependent modes on the caller's graphs: with an ACCEPTED parameter (VF2's first mapping per host node
    set under prune_automorphisms; VF2's isomorphisms inside the matched component pairs under mcs_mol), after any history the
    G1 -> G2 answers are valid ([raw_valid]) for (G1, G2) and the G2 -> G1 answers are their inverses, valid for (G2, G1). *)
From Coq Require Import List NArith ZArith Bool Arith Lia Permutation Sorted.
From SK Require Import lib.Tok lib.LGraph lib.Mono model.C12_Model model.C12_Check model.C12_State
     proof.C12_Search proof.C12_Proof proof.C12_Prune proof.C12_Component proof.C12_Sorted proof.C12_Check proof.C12_State
     proof.C12_StateRaw proof.C12_ComponentRaw.
Import ListNotations.
Local Open Scope nat_scope.

Theorem history_auto_valid_raw a cfg st ops g1 g2 mcs choices rds kept :
  mk_config a = Some cfg -> NoDup (node_ids g1) -> NoDup (node_ids g2) -> forallb is_read rds = true ->
  apply_choices (r_maps (find_common_subgraph (c_defs cfg) (c_prune cfg) (c_wc cfg) (project cfg g1) (project cfg g2) mcs)) choices
    = Some kept ->
  let stf := m_run cfg st (ops ++ MFindAuto g1 g2 mcs choices :: rds) in
  exists l12, m_get stf D12 = Some l12 /\ m_get stf D21 = Some (map invert_mapping l12) /\ length l12 = length kept /\
    (forall m, In m l12 -> raw_valid cfg g1 g2 m) /\
    (forall m, In m (map invert_mapping l12) -> raw_valid cfg g2 g1 m).
Proof.
  intros Ea N1 N2 Hr E stf.
  assert (EL : length (c_defs cfg) = length (c_names cfg)).
  { pose proof (mk_config_spec a) as S. rewrite Ea in S. exact (proj1 (proj2 S)). }
  assert (P1 : NoDup (node_ids (project cfg g1))) by now rewrite project_ids.
  assert (P2 : NoDup (node_ids (project cfg g2))) by now rewrite project_ids.
  unfold stf. rewrite (history_auto cfg st ops g1 g2 mcs choices rds kept Hr E).
  destruct (prune_auto_choices_valid (c_defs cfg) (c_prune cfg) (c_wc cfg) _ _ mcs choices kept P1 P2 E) as (V & _).
  set (r := find_common_subgraph (c_defs cfg) (c_prune cfg) (c_wc cfg) (project cfg g1) (project cfg g2) mcs) in *.
  unfold m_get. cbn [s_flag s_maps]. destruct (r_pattern_is_g1 r) eqn:F.
  - exists kept. split; [reflexivity|split; [reflexivity|split; [reflexivity|split]]].
    + intros m Hm. destruct (V m Hm) as (C & _). now apply (pruned_ci_raw cfg g1 g2 m EL N1 N2).
    + intros m Hm. apply in_map_iff in Hm. destruct Hm as (k & <- & Hk). destruct (V k Hk) as (C & _).
      apply (pruned_ci_raw cfg g2 g1 _ EL N2 N1). apply (ci_invert _ _ (node_match_sym (c_defs cfg)) edge_match_sym). exact C.
  - exists (map invert_mapping kept). rewrite map_map.
    assert (Eid : map (fun x => invert_mapping (invert_mapping x)) kept = kept).
    { rewrite <- (map_id kept) at 2. apply map_ext. intros k. apply invert_involutive. }
    rewrite Eid. split; [reflexivity|split; [reflexivity|split; [apply map_length|split]]].
    + intros m Hm. apply in_map_iff in Hm. destruct Hm as (k & <- & Hk). destruct (V k Hk) as (C & _).
      apply (pruned_ci_raw cfg g1 g2 _ EL N1 N2). apply (ci_invert _ _ (node_match_sym (c_defs cfg)) edge_match_sym). exact C.
    + intros m Hm. destruct (V m Hm) as (C & _). now apply (pruned_ci_raw cfg g2 g1 m EL N2 N1).
Qed.

Theorem history_mol_valid_raw a cfg st ops g1 g2 choice rds r :
  mk_config a = Some cfg -> NoDup (node_ids g1) -> NoDup (node_ids g2) -> raw_wfe g1 -> raw_wfe g2 -> forallb is_read rds = true ->
  find_mcs_mol_with (c_defs cfg) (c_prune cfg) (c_wc cfg) (project cfg g1) (project cfg g2) choice = Some r ->
  let stf := m_run cfg st (ops ++ MFindMol g1 g2 choice :: rds) in
  exists m, m_get stf D12 = Some [m] /\ m_get stf D21 = Some [invert_mapping m] /\ s_flag stf = Some true /\ s_last stf = length m /\
    length m = length choice /\ (forall ph, In ph m -> In ph choice) /\
    raw_valid cfg g1 g2 m /\ raw_valid cfg g2 g1 (invert_mapping m).
Proof.
  intros Ea N1 N2 W1 W2 Hr E stf.
  assert (EL : length (c_defs cfg) = length (c_names cfg)).
  { pose proof (mk_config_spec a) as S. rewrite Ea in S. exact (proj1 (proj2 S)). }
  assert (P1 : NoDup (node_ids (project cfg g1))) by now rewrite project_ids.
  assert (P2 : NoDup (node_ids (project cfg g2))) by now rewrite project_ids.
  unfold stf. rewrite (history_mol cfg st ops g1 g2 choice rds r Hr E).
  destruct (mol_choice_valid (c_defs cfg) (c_prune cfg) (c_wc cfg) _ _ choice r P1 P2 (project_wfe cfg g1 W1) (project_wfe cfg g2 W2) E)
    as (m & Em & El & Ef & _ & Hsub & Hlen & C1 & C2).
  exists m. unfold m_get, state_of. cbn [s_flag s_maps s_last]. rewrite Em, Ef, El. simpl.
  split; [reflexivity|split; [reflexivity|split; [reflexivity|split; [reflexivity|split; [exact Hlen|split; [exact Hsub|split]]]]]].
  - now apply (pruned_ci_raw cfg g1 g2 m EL N1 N2).
  - now apply (pruned_ci_raw cfg g2 g1 _ EL N2 N1).
Qed.
