(** C03 — rule preparation in the DEFAULT mode (SynRule.__init__ with implicit_h=True) for a template that has no
    explicit hydrogen atoms: nothing is stripped, every hydrogen count of the rule becomes 0 on both sides — the rule
    keeps the template's bonds, elements and charges and ignores hydrogen changes written implicitly (they must be
    written with explicit H atoms in this mode: the API precondition the oracle applies as [tpl_mode_ok]).
    Stdlib lists only. *)
From Coq Require Import List NArith ZArith Bool Lia.
From SK Require Import lib.Tok lib.LGraph model.C03_Model proof.C03_Proof proof.C03_Glue proof.C03_Backward.
Import ListNotations.
Local Open Scope Z_scope.

Lemma filter_nil {A} (f : A -> bool) l : (forall x, In x l -> f x = false) -> filter f l = [].
Proof. induction l as [|x r IH]; simpl; intros H; [reflexivity|]. rewrite (H x) by auto. apply IH. intros; apply H; auto. Qed.

Lemma h_nodes_m_nil (g : molg) : (forall k a, In (k, a) (gnodes g) -> N.eqb (m_el a) EL_H = false) -> h_nodes_m g = [].
Proof. intros H. unfold h_nodes_m. rewrite filter_nil; [reflexivity|]. intros [k a] I. apply (H k a I). Qed.
Lemma h_nodes_i_nil (g : its) : (forall k a, In (k, a) (gnodes g) -> N.eqb (a_el (iG a)) EL_H = false) -> h_nodes_i g = [].
Proof. intros H. unfold h_nodes_i. rewrite filter_nil; [reflexivity|]. intros [k a] I. apply (H k a I). Qed.

Lemma in_map_nodes {A B} (g : lgraph A B) f k a : In (k, a) (gnodes (map_nodes g f)) -> exists a0, In (k, a0) (gnodes g) /\ a = f k a0.
Proof.
  unfold map_nodes; simpl. intros I. apply in_map_iff in I. destruct I as ([k0 a0] & E & I). inversion E; subst. eauto.
Qed.

Theorem synrule_default_noH (tpl : its) :
  nodupb (node_ids tpl) = true ->
  forallb (fun p => negb (N.eqb (a_el (iG (snd p))) EL_H) && negb (N.eqb (a_el (iH (snd p))) EL_H)) (gnodes tpl) = true ->
  exists l r, synrule tpl true = Some (default_rc tpl, l, r).
Proof.
  intros Hnd Hno. apply nodupb_NoDup in Hnd. rewrite forallb_forall in Hno.
  assert (HG : forall k a, In (k, a) (gnodes tpl) -> N.eqb (a_el (iG a)) EL_H = false /\ N.eqb (a_el (iH a)) EL_H = false).
  { intros k a I. specialize (Hno _ I). simpl in Hno. apply andb_prop in Hno. destruct Hno as [H1 H2].
    apply negb_true_iff in H1, H2. auto. }
  unfold synrule. cbn [negb]. set (rc0 := standardize_hydrogen tpl).
  assert (Hrc0 : forall k a, In (k, a) (gnodes rc0) -> exists a0, In (k, a0) (gnodes tpl) /\ a = std_h_node a0).
  { intros k a I. apply in_map_nodes in I. exact I. }
  unfold its_decompose. set (l0 := dec_side iG eG rc0). set (r0 := dec_side iH eH rc0).
  unfold strip_explicit_h. cbn [fst snd].
  assert (HL : h_nodes_m (init_m l0) = []).
  { apply h_nodes_m_nil. intros k a I. apply in_map_nodes in I. destruct I as (a1 & I & ->). simpl.
    unfold l0, dec_side in I; simpl in I. apply in_map_iff in I. destruct I as ([k2 a2] & E & I). inversion E; subst.
    destruct (Hrc0 _ _ I) as (a0 & I0 & ->). simpl. exact (proj1 (HG _ _ I0)). }
  assert (HR : h_nodes_m (init_m r0) = []).
  { apply h_nodes_m_nil. intros k a I. apply in_map_nodes in I. destruct I as (a1 & I & ->). simpl.
    unfold r0, dec_side in I; simpl in I. apply in_map_iff in I. destruct I as ([k2 a2] & E & I). inversion E; subst.
    destruct (Hrc0 _ _ I) as (a0 & I0 & ->). simpl. exact (proj2 (HG _ _ I0)). }
  assert (HI : h_nodes_i (init_i rc0) = []).
  { apply h_nodes_i_nil. intros k a I. apply in_map_nodes in I. destruct I as (a1 & I & ->). simpl.
    destruct (Hrc0 _ _ I) as (a0 & I0 & ->). simpl. exact (proj1 (HG _ _ I0)). }
  unfold shared_h. rewrite HL. cbn [fold_right sort_N]. unfold strip_shared. cbn [fold_left fst].
  unfold step3_rc. cbn [fst snd]. rewrite HI. cbn [fold_left].
  unfold step3_l. cbn [fst snd]. rewrite HL. cbn [fold_left].
  unfold step3_r. cbn [fst snd]. rewrite HR. cbn [fold_left].
  exists (init_m l0), (init_m r0).
  assert (E : refresh_types (init_i rc0) (init_m l0) (init_m r0) = Some (default_rc tpl)); [|rewrite E; reflexivity].
  unfold refresh_types.
  match goal with |- context [fold_right ?f _ _] => set (F := f) end.
  assert (H : forall ns, (forall k a, In (k, a) ns -> label tpl k = Some a) ->
            fold_right F (Some []) (map (fun p => (fst p, (fun a => IN (iG (std_h_node a)) (iH (std_h_node a)) 0
                                       (if N.eqb (a_el (iG (std_h_node a))) EL_H then i_hp (std_h_node a) else hp_default (i_hp (std_h_node a)))) (snd p))) ns)
            = Some (map (fun p => (fst p, strip0 (snd p))) ns)).
  { induction ns as [|[k a] r IH]; intros Hall; [reflexivity|].
    cbn [map fold_right fst snd]. rewrite IH by (intros; apply Hall; right; assumption).
    pose proof (Hall k a (or_introl eq_refl)) as Hk.
    unfold F, label, init_m, map_nodes, l0, r0, dec_side, rc0, standardize_hydrogen, map_nodes in *. cbn [fst snd gnodes].
    rewrite !map_map. cbn [fst snd].
    rewrite (assoc_map (fun a0 => MN (m_el (dec_node (iG (std_h_node a0)))) (m_aro (dec_node (iG (std_h_node a0)))) 0 (m_ch (dec_node (iG (std_h_node a0))))
                                   (if N.eqb (m_el (dec_node (iG (std_h_node a0)))) EL_H then m_hp (dec_node (iG (std_h_node a0))) else hp_default (m_hp (dec_node (iG (std_h_node a0))))))).
    rewrite (assoc_map (fun a0 => MN (m_el (dec_node (iH (std_h_node a0)))) (m_aro (dec_node (iH (std_h_node a0)))) 0 (m_ch (dec_node (iH (std_h_node a0))))
                                   (if N.eqb (m_el (dec_node (iH (std_h_node a0)))) EL_H then m_hp (dec_node (iH (std_h_node a0))) else hp_default (m_hp (dec_node (iH (std_h_node a0))))))).
    rewrite Hk. cbn [option_map m_hc]. f_equal. f_equal. f_equal.
    unfold strip0, std_h_node. cbn [iG iH i_hp a_el set_hc a_aro a_ch a_nb].
    assert (Ik : In (k, a) (gnodes tpl)) by (apply assoc_in; exact Hk).
    rewrite (proj1 (HG k a Ik)). unfold hp_default. destruct (i_hp a); reflexivity. }
  unfold init_i, map_nodes, rc0, standardize_hydrogen, map_nodes. cbn [gnodes gedges]. rewrite map_map. cbn [fst snd].
  rewrite H; [reflexivity|]. intros k a I. apply assoc_nodup_in; assumption.
Qed.

(** consequence: such a rule has no hydrogen change anywhere, keeps the template's bonds and charges *)
Lemma default_rc_facts tpl :
  gedges (default_rc tpl) = gedges tpl /\ node_ids (default_rc tpl) = node_ids tpl /\
  sumZ dH (default_rc tpl) = 0 /\ sumZ dQ (default_rc tpl) = sumZ dQ tpl /\
  (forall k a, In (k, a) (gnodes (default_rc tpl)) -> a_hc (iG a) = 0 /\ a_hc (iH a) = 0).
Proof.
  split; [reflexivity|]. split; [unfold node_ids, default_rc; simpl; rewrite map_map; reflexivity|]. split; [|split].
  - unfold sumZ, default_rc; cbn [gnodes]. rewrite (sumL_map dH strip0). induction (gnodes tpl) as [|[k a] r IH]; simpl; [reflexivity|].
    rewrite IH. unfold dH; simpl. lia.
  - unfold sumZ, default_rc; cbn [gnodes]. rewrite (sumL_map dQ strip0). apply sumL_ext_in. intros; reflexivity.
  - intros k a I. unfold default_rc in I; simpl in I. apply in_map_iff in I. destruct I as ([k0 a0] & E & _). inversion E; subst. split; reflexivity.
Qed.

(** * the limitation as a refuted clause: with a template that writes a hydrogen change implicitly (thioester formation,
      [SH] -> [S], [OH] -> [OH2]) the default-mode rule does not apply that change — a matched atom of the proposed
      ITS has a hydrogen-count change different from its template atom's *)
Definition rf_tpl : its :=
  LG [(2%N, IN (NA 83%N false 1 0 []) (NA 83%N false 0 0 []) 0 None); (4%N, IN (NA 67%N false 0 0 []) (NA 67%N false 0 0 []) 0 None);
      (6%N, IN (NA 79%N false 1 0 []) (NA 79%N false 2 0 []) 0 None)]
     [(2%N, 4%N, (0, 2, -2)); (4%N, 6%N, (2, 0, 2))].
Definition rf_host : hostg :=
  LG [(1%N, NA 67%N false 3 0 []); (2%N, NA 83%N false 1 0 []); (3%N, NA 67%N false 3 0 []); (4%N, NA 67%N false 0 0 []);
      (5%N, NA 79%N false 0 0 []); (6%N, NA 79%N false 1 0 [])]
     [(1%N, 2%N, 2); (3%N, 4%N, 2); (4%N, 5%N, 4); (4%N, 6%N, 2)].
Definition rf_m : mapping := [(2%N, 2%N); (4%N, 4%N); (6%N, 6%N)].
Definition rf_rc : its := default_rc rf_tpl.
Definition rf_T : its := match glue rf_host rf_rc rf_m with Some t => t | None => LG [] [] end.

Lemma default_mode_implicit_template_refuted :
  exists (tpl rc : its) (l r : molg) (host : hostg) (m : mapping) (T : its) (p h : N) (pn a : inode),
    balancedb tpl = true /\ synrule tpl true = Some (rc, l, r) /\
    wf_hostb host = true /\ wf_rcb rc = true /\ match_rcb host rc m = true /\ glue host rc m = Some T /\
    In (p, pn) (gnodes tpl) /\ mget m p = Some h /\ label T h = Some a /\ dH a <> dH pn.
Proof.
  exists rf_tpl, rf_rc, (match synrule rf_tpl true with Some t => snd (fst t) | None => LG [] [] end),
         (match synrule rf_tpl true with Some t => snd t | None => LG [] [] end), rf_host, rf_m, rf_T, 2%N, 2%N,
         (IN (NA 83%N false 1 0 []) (NA 83%N false 0 0 []) 0 None),
         (match label rf_T 2%N with Some a => a | None => H_inode end).
  vm_compute. repeat split; try reflexivity; try (left; reflexivity). discriminate.
Qed.
