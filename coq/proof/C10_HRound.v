(** C10 — proofs, part 9: h_to_implicit (h_to_explicit g) restores g (graphs without explicit hydrogens). *)
From Coq Require Import String List NArith ZArith Bool Lia.
From SK Require Import lib.Tok lib.LGraph lib.StrJoin model.C10_Model proof.C10_Views proof.C10_Build proof.C10_Copy
  proof.C10_Hydrogen.
Import ListNotations.
Local Open Scope Z_scope.

Definition padj (P : list (N * N)) (u v : N) : bool := existsb (fun p : N * N => pair_eqb (fst p) (snd p) u v) P.
Definition cnt (n : N) (P : list (N * N)) : nat := List.length (filter (fun p : N * N => N.eqb (snd p) n) P).
Definition cval (a : natt) : Z := dflt (a_hc a) 0.
Definition upd (a : natt) : natt := if 0 <? cval a then dec_h (cval a) a else a.

Lemma padj_app P Q u v : padj (P ++ Q) u v = padj P u v || padj Q u v.
Proof. apply existsb_app. Qed.
Lemma cnt_app n P Q : cnt n (P ++ Q) = (cnt n P + cnt n Q)%nat.
Proof. unfold cnt. rewrite filter_app, app_length. reflexivity. Qed.
Lemma pair_eqb_swap1 a b u v : pair_eqb a b u v = pair_eqb b a u v.
Proof. rewrite pair_eqb_sym, pair_eqb_swap, pair_eqb_sym. reflexivity. Qed.

Lemma gwfb_gwf g : gwfb g = true -> gwf g.
Proof.
  unfold gwfb. rewrite !andb_true_iff. intros [[H1 H2] H3]. split; [apply nodupb_NoDup; exact H1|exact H2|].
  intros a b x Hin. rewrite forallb_forall in H3. specialize (H3 _ Hin). simpl in H3. apply andb_true_iff in H3. exact H3.
Qed.

Section Explicit.
Variable g : gr.
Hypothesis W : gwf g.
Let ids := node_ids g.
Let mxg := max_id g.

Lemma ids_le n : In n ids -> (n <= mxg)%N.
Proof. apply bounded_max_id. Qed.
Lemma adj_g_out u v : (mxg < u)%N \/ (mxg < v)%N -> adj g u v = None.
Proof.
  intros H. destruct (adj g u v) as [x|] eqn:A; [|reflexivity]. exfalso. apply find_some_in in A.
  destruct A as (a & b & Hin & P). destruct (gwf_cl g W a b x Hin) as [Ha Hb].
  apply has_node_in, ids_le in Ha. apply has_node_in, ids_le in Hb.
  apply pair_eqb_spec in P. destruct P as [[-> ->]|[-> ->]]; lia.
Qed.

(** state invariant of the loop of h_to_explicit; [P] lists the (hydrogen id, heavy atom) pairs created so far *)
Record EInv (G : gr) (mx : N) (P : list (N * N)) : Prop := {
  ei_ids : node_ids G = ids ++ map fst P;
  ei_rng : forall h, In h (map fst P) -> (mxg < h <= mx)%N;
  ei_nd : NoDup (map fst P);
  ei_mx : (mxg <= mx)%N;
  ei_h : forall h m, In (h, m) P -> label G h = Some H_att /\ In m ids;
  ei_adj : forall u v, adj G u v = if padj P u v then Some e_single else adj g u v;
  ei_wf : gwf G }.

Lemma EInv_bounded G mx P : EInv G mx P -> bounded G mx.
Proof.
  intros I n Hn. rewrite (ei_ids _ _ _ I) in Hn. apply in_app_iff in Hn. destruct Hn as [Hn|Hn].
  - apply ids_le in Hn. pose proof (ei_mx _ _ _ I). lia.
  - apply (ei_rng _ _ _ I) in Hn. lia.
Qed.

Lemma padj_fresh P mx n h : (forall h', In h' (map fst P) -> (mxg < h' <= mx)%N) ->
  (forall h' m, In (h', m) P -> In m ids) -> In n ids -> (mx < h)%N -> (mxg <= mx)%N -> padj P n h = false.
Proof.
  intros Hr Hm Hn Hh Hmx. destruct (padj P n h) eqn:E; [|reflexivity]. exfalso.
  unfold padj in E. apply existsb_exists in E. destruct E as ([h' m'] & Hin & Pq). simpl in Pq.
  pose proof (Hr h' (in_map fst _ _ Hin)) as R. simpl in R. pose proof (ids_le _ (Hm _ _ Hin)) as M. pose proof (ids_le _ Hn).
  apply pair_eqb_spec in Pq. destruct Pq as [[-> ->]|[-> ->]]; lia.
Qed.

Lemma add_h1_inv G mx P n : EInv G mx P -> In n ids ->
  EInv (add_h1 G mx n) (N.succ mx) (P ++ [(N.succ mx, n)]) /\
  (forall m, In m (node_ids G) -> label (add_h1 G mx n) m = label G m).
Proof.
  intros I Hn. pose proof (EInv_bounded _ _ _ I) as B.
  assert (has_node G n = true) as Hh.
  { apply has_node_in. rewrite (ei_ids _ _ _ I). apply in_app_iff. left. exact Hn. }
  pose proof (gnodes_add_h1 G mx n B Hh) as EG.
  assert (forall m, In m (node_ids G) -> label (add_h1 G mx n) m = label G m) as Hlab.
  { intros m Hm. unfold label. rewrite EG, assoc_app. apply has_node_in, has_node_label in Hm. destruct Hm as [a Ha].
    unfold label in Ha. rewrite Ha. reflexivity. }
  split; [|exact Hlab]. split.
  - unfold node_ids. rewrite EG, map_app. fold (node_ids G). rewrite (ei_ids _ _ _ I), map_app, app_assoc. reflexivity.
  - intros h Hin. rewrite map_app, in_app_iff in Hin. destruct Hin as [Hin|[<-|[]]].
    + apply (ei_rng _ _ _ I) in Hin. lia.
    + pose proof (ei_mx _ _ _ I). simpl. lia.
  - rewrite map_app. apply NoDup_snoc; [exact (ei_nd _ _ _ I)|]. intros Hin. apply (ei_rng _ _ _ I) in Hin. simpl in Hin. lia.
  - pose proof (ei_mx _ _ _ I). lia.
  - intros h m Hin. apply in_app_iff in Hin. destruct Hin as [Hin|[E|[]]].
    + destruct (ei_h _ _ _ I h m Hin) as [L M]. split; [|exact M]. rewrite Hlab; [exact L|].
      apply has_node_in, has_node_label. eauto.
    + inversion E; subst. split; [|exact Hn]. unfold label. rewrite EG, assoc_app.
      pose proof (fresh_succ G mx B) as F. apply has_node_false in F. unfold label in F. rewrite F. simpl.
      rewrite N.eqb_refl. reflexivity.
  - intros u v. unfold add_h1. rewrite adj_add_edge, !adj_add_node, !(ei_adj _ _ _ I), padj_app. simpl.
    rewrite orb_false_r, (pair_eqb_swap1 (N.succ mx) n).
    rewrite (padj_fresh P mx n (N.succ mx) (ei_rng _ _ _ I) (fun h' m H => proj2 (ei_h _ _ _ I h' m H)) Hn) by (try lia; apply (ei_mx _ _ _ I)).
    rewrite adj_g_out by (right; pose proof (ei_mx _ _ _ I); lia).
    destruct (pair_eqb n (N.succ mx) u v); [rewrite orb_true_r; reflexivity|rewrite orb_false_r; reflexivity].
  - unfold add_h1. apply gwf_add_edge, gwf_add_node. exact (ei_wf _ _ _ I).
Qed.

Fixpoint newP (k : nat) (n mx : N) : list (N * N) :=
  match k with O => [] | S k' => (N.succ mx, n) :: newP k' n (N.succ mx) end.
Lemma cnt_newP k n : forall mx m, cnt m (newP k n mx) = if N.eqb n m then k else O.
Proof.
  induction k as [|k IH]; intros mx m; simpl; [destruct (N.eqb n m); reflexivity|].
  unfold cnt in *. simpl. specialize (IH (N.succ mx) m). destruct (N.eqb n m); simpl; rewrite IH; reflexivity.
Qed.

Lemma add_hs_inv k n : forall G mx P, EInv G mx P -> In n ids ->
  let st := add_hs k n (G, mx) in
  EInv (fst st) (snd st) (P ++ newP k n mx) /\ (forall m, In m (node_ids G) -> label (fst st) m = label G m).
Proof.
  induction k as [|k IH]; intros G mx P I Hn; simpl.
  - rewrite app_nil_r. split; [exact I|reflexivity].
  - fold (add_h1 G mx n). destruct (add_h1_inv G mx P n I Hn) as [I1 L1].
    destruct (IH _ _ _ I1 Hn) as [I2 L2]. cbv zeta in *. split.
    + rewrite <- app_assoc in I2. exact I2.
    + intros m Hm. rewrite L2, L1; [reflexivity|exact Hm|].
      rewrite (ei_ids _ _ _ I1), map_app, app_assoc, <- (ei_ids _ _ _ I). apply in_app_iff. left. exact Hm.
Qed.

(** the outer loop; [done] = heavy atoms already visited *)
Definition lab_ok (G : gr) (done : list N) : Prop :=
  forall n, In n ids -> label G n = option_map (fun a => if mem n done then upd a else a) (label g n).
Definition cnt_ok (P : list (N * N)) (done : list N) : Prop :=
  forall n a, label g n = Some a -> cnt n P = if mem n done then Z.to_nat (cval a) else O.

Lemma EInv_set_node G mx P n f : EInv G mx P -> In n ids -> EInv (set_node G n f) mx P.
Proof.
  intros I Hn. split.
  - rewrite node_ids_set_node. exact (ei_ids _ _ _ I).
  - exact (ei_rng _ _ _ I).
  - exact (ei_nd _ _ _ I).
  - exact (ei_mx _ _ _ I).
  - intros h m Hin. destruct (ei_h _ _ _ I h m Hin) as [L M]. split; [|exact M].
    rewrite label_set_node. destruct (N.eqb_spec h n) as [->|]; [|exact L].
    exfalso. pose proof (ei_rng _ _ _ I n (in_map fst _ _ Hin)) as R. apply ids_le in Hn. simpl in R. lia.
  - exact (ei_adj _ _ _ I).
  - apply gwf_set_node. exact (ei_wf _ _ _ I).
Qed.

Lemma hexp_step_inv G mx P done n :
  EInv G mx P -> lab_ok G done -> cnt_ok P done -> In n ids -> ~ In n done ->
  exists P', let st := hexp_step (G, mx) n in
    EInv (fst st) (snd st) P' /\ lab_ok (fst st) (n :: done) /\ cnt_ok P' (n :: done).
Proof.
  intros I HL HC Hn Hnd. unfold hexp_step.
  assert (mem n done = false) as Mn by (destruct (mem n done) eqn:E; [apply mem_spec in E; contradiction|reflexivity]).
  pose proof (HL n Hn) as Ln. rewrite Mn in Ln.
  assert (exists a, label g n = Some a) as [a La] by (apply has_node_label, has_node_in; exact Hn). rewrite La in Ln. simpl in Ln. rewrite Ln.
  fold (cval a). destruct (Z.leb_spec (cval a) 0) as [Hc|Hc].
  - exists P. cbv zeta. simpl. split; [exact I|split].
    + intros m Hm. rewrite (HL m Hm). destruct (label g m) as [b|] eqn:Lb; [|reflexivity]. simpl.
      destruct (N.eqb_spec m n) as [->|Hne]; simpl; [|reflexivity].
      rewrite Mn. assert (b = a) as -> by congruence. unfold upd. destruct (Z.ltb_spec 0 (cval a)); [lia|reflexivity].
    + intros m b Lb. rewrite (HC m b Lb). simpl. destruct (N.eqb_spec m n) as [->|]; simpl; [|reflexivity].
      rewrite Mn. assert (b = a) as -> by congruence. destruct (cval a); try reflexivity; lia.
  - pose proof (add_hs_inv (Z.to_nat (cval a)) n G mx P I Hn) as [I1 L1]. cbv zeta in I1, L1.
    destruct (add_hs (Z.to_nat (cval a)) n (G, mx)) as [G1 mx1] eqn:EA. simpl in I1, L1.
    exists (P ++ newP (Z.to_nat (cval a)) n mx). cbv zeta. simpl. split; [apply EInv_set_node; assumption|split].
    + intros m Hm. rewrite label_set_node.
      assert (In m (node_ids G)) as HmG by (rewrite (ei_ids _ _ _ I); apply in_app_iff; left; exact Hm).
      rewrite (L1 m HmG), (HL m Hm). destruct (label g m) as [b|] eqn:Lb; simpl.
      * destruct (N.eqb_spec m n) as [->|Hne]; simpl; [|reflexivity].
        rewrite Mn. assert (b = a) as -> by congruence. unfold upd. destruct (Z.ltb_spec 0 (cval a)); [reflexivity|lia].
      * destruct (N.eqb m n); reflexivity.
    + intros m b Lb. rewrite cnt_app, (HC m b Lb), cnt_newP. simpl. rewrite (N.eqb_sym n m).
      destruct (N.eqb_spec m n) as [->|]; simpl; [|lia]. rewrite Mn. assert (b = a) as -> by congruence. reflexivity.
Qed.

Lemma hexp_fold_inv ns : forall G mx P done,
  EInv G mx P -> lab_ok G done -> cnt_ok P done -> NoDup ns -> (forall n, In n ns -> In n ids /\ ~ In n done) ->
  exists P', let st := fold_left hexp_step ns (G, mx) in
    EInv (fst st) (snd st) P' /\ lab_ok (fst st) (rev ns ++ done) /\ cnt_ok P' (rev ns ++ done).
Proof.
  induction ns as [|n r IH]; intros G mx P done I HL HC Hnd Hns; cbn [fold_left rev app].
  - exists P. auto.
  - inversion Hnd as [|? ? Hnot Hnd']; subst. destruct (Hns n (or_introl eq_refl)) as [Hn Hnd0].
    destruct (hexp_step_inv G mx P done n I HL HC Hn Hnd0) as (P1 & I1 & L1 & C1). cbv zeta in *.
    destruct (hexp_step (G, mx) n) as [G1 mx1]. simpl in *.
    destruct (IH G1 mx1 P1 (n :: done) I1 L1 C1 Hnd') as (P2 & H2).
    + intros m Hm. destruct (Hns m (or_intror Hm)) as [A B]. split; [exact A|]. intros [E|E]; [subst; contradiction|contradiction].
    + exists P2. rewrite <- app_assoc. exact H2.
Qed.

(** ... for an ARBITRARY node list (duplicates, ids that are not nodes, ids of hydrogens created on the way): such entries
    leave the state alone *)
Lemma cval_upd a : cval (upd a) <= 0.
Proof.
  unfold upd. destruct (Z.ltb_spec 0 (cval a)); [|assumption]. unfold cval, dec_h. simpl. lia.
Qed.
Lemma hexp_step_skip G mx P done n :
  EInv G mx P -> lab_ok G done -> cnt_ok P done -> (~ In n ids \/ In n done) ->
  hexp_step (G, mx) n = (G, mx) /\ lab_ok G (n :: done) /\ cnt_ok P (n :: done).
Proof.
  intros I HL HC Hcase.
  destruct (in_dec N.eq_dec n ids) as [Hn|Hn].
  - destruct Hcase as [Hc|Hd]; [contradiction|]. apply mem_spec in Hd.
    assert (exists a, label g n = Some a) as [a La] by (apply has_node_label, has_node_in; exact Hn).
    pose proof (HL n Hn) as Ln. rewrite Hd, La in Ln. simpl in Ln. split; [|split].
    + unfold hexp_step. rewrite Ln. fold (cval (upd a)). pose proof (cval_upd a). destruct (Z.leb_spec (cval (upd a)) 0); [reflexivity|lia].
    + intros m Hm. rewrite (HL m Hm). simpl. destruct (N.eqb_spec m n) as [->|]; [rewrite Hd|]; reflexivity.
    + intros m b Lb. rewrite (HC m b Lb). simpl. destruct (N.eqb_spec m n) as [->|]; [rewrite Hd|]; reflexivity.
  - split; [|split].
    + unfold hexp_step. destruct (label G n) as [a|] eqn:L; [|reflexivity].
      assert (In n (map fst P)) as HP.
      { assert (In n (node_ids G)) as HG by (apply has_node_in, has_node_label; eauto).
        rewrite (ei_ids _ _ _ I) in HG. apply in_app_iff in HG. tauto. }
      apply in_map_iff in HP. destruct HP as ([h m] & E & Hin). simpl in E. subst h.
      destruct (ei_h _ _ _ I n m Hin) as [LH _]. rewrite LH in L. injection L as <-. reflexivity.
    + intros m Hm. rewrite (HL m Hm). simpl. destruct (N.eqb_spec m n) as [->|]; [contradiction|reflexivity].
    + intros m b Lb. rewrite (HC m b Lb). simpl.
      destruct (N.eqb_spec m n) as [->|]; [|reflexivity]. exfalso. apply Hn. apply has_node_in, has_node_label. eauto.
Qed.

Lemma hexp_step_inv_any G mx P done n :
  EInv G mx P -> lab_ok G done -> cnt_ok P done ->
  exists P', let st := hexp_step (G, mx) n in
    EInv (fst st) (snd st) P' /\ lab_ok (fst st) (n :: done) /\ cnt_ok P' (n :: done).
Proof.
  intros I HL HC. destruct (in_dec N.eq_dec n ids) as [Hn|Hn]; [destruct (in_dec N.eq_dec n done) as [Hd|Hd]|].
  - destruct (hexp_step_skip G mx P done n I HL HC (or_intror Hd)) as (E & L & C). exists P. rewrite E. auto.
  - apply (hexp_step_inv G mx P done n I HL HC Hn Hd).
  - destruct (hexp_step_skip G mx P done n I HL HC (or_introl Hn)) as (E & L & C). exists P. rewrite E. auto.
Qed.

Lemma hexp_fold_inv_any ns : forall G mx P done,
  EInv G mx P -> lab_ok G done -> cnt_ok P done ->
  exists P', let st := fold_left hexp_step ns (G, mx) in
    EInv (fst st) (snd st) P' /\ lab_ok (fst st) (rev ns ++ done) /\ cnt_ok P' (rev ns ++ done).
Proof.
  induction ns as [|n r IH]; intros G mx P done I HL HC; cbn [fold_left rev app].
  - exists P. auto.
  - destruct (hexp_step_inv_any G mx P done n I HL HC) as (P1 & I1 & L1 & C1). cbv zeta in *.
    destruct (hexp_step (G, mx) n) as [G1 mx1]. simpl in *.
    destruct (IH G1 mx1 P1 (n :: done) I1 L1 C1) as (P2 & H2). exists P2. rewrite <- app_assoc. exact H2.
Qed.
End Explicit.

(** ** the implicit direction on the graph produced by the explicit one *)
Fixpoint iter_inc (k : nat) (a : natt) : natt := match k with O => a | S k' => inc_h (iter_inc k' a) end.
Lemma el_iter_inc k a : el_is_H (iter_inc k a) = el_is_H a.
Proof. induction k as [|k IH]; simpl; [reflexivity|]. rewrite <- IH. reflexivity. Qed.
Lemma el_upd a : el_is_H (upd a) = el_is_H a.
Proof. unfold upd. destruct (0 <? cval a); reflexivity. Qed.
Lemma cnt_cons n p P : cnt n (p :: P) = ((if N.eqb (snd p) n then 1 else 0) + cnt n P)%nat.
Proof. unfold cnt. simpl. destruct (N.eqb (snd p) n); reflexivity. Qed.

Lemma find_edge_filter_none (p : N * N * eatt -> bool) u v es : find_edge u v es = None -> find_edge u v (filter p es) = None.
Proof.
  induction es as [|[[a b] x] r IH]; [reflexivity|]. rewrite find_edge_cons. destruct (pair_eqb a b u v) eqn:P; [discriminate|].
  intros H. simpl. destruct (p (a, b, x)); [rewrite find_edge_cons, P|]; apply IH; exact H.
Qed.
Lemma uniq_filter (p : N * N * eatt -> bool) es : uniq_pairs es = true -> uniq_pairs (filter p es) = true.
Proof.
  induction es as [|[[a b] x] r IH]; [reflexivity|]. simpl. destruct (find_edge a b r) eqn:F; [discriminate|]. intros U.
  destruct (p (a, b, x)); [|apply IH; exact U]. simpl. rewrite (find_edge_filter_none p a b r F). apply IH. exact U.
Qed.
Lemma filter_ne_notin h l : ~ In h l -> filter (fun m => negb (N.eqb m h)) l = l.
Proof.
  induction l as [|x r IH]; intros H; [reflexivity|]. simpl. destruct (N.eqb_spec x h) as [->|].
  - exfalso. apply H. left. reflexivity.
  - simpl. rewrite IH; [reflexivity|]. intros Hin. apply H. right. exact Hin.
Qed.
Lemma NoDup_fst_inj (P : list (N * N)) h m m' : NoDup (map fst P) -> In (h, m) P -> In (h, m') P -> m = m'.
Proof.
  induction P as [|[h0 m0] r IH]; [intros _ []|]. simpl. intros Hnd. inversion Hnd as [|? ? Hnot Hnd']; subst.
  intros [E|H] [E'|H'].
  - congruence.
  - inversion E; subst. exfalso. apply Hnot. apply (in_map fst _ _ H').
  - inversion E'; subst. exfalso. apply Hnot. apply (in_map fst _ _ H).
  - apply IH; assumption.
Qed.

Section Implicit.
Variable g : gr.
Hypothesis W : gwf g.
Hypothesis noH : forall n a, label g n = Some a -> el_is_H a = false.
Let ids := node_ids g.
(** what h_to_explicit left at the old nodes (hcount lowered on the atoms that were expanded, untouched elsewhere) *)
Variable base : N -> natt -> natt.
Hypothesis base_el : forall n a, el_is_H (base n a) = el_is_H a.

Lemma adj_g_notin u v : ~ In u ids \/ ~ In v ids -> adj g u v = None.
Proof.
  intros H. destruct (adj g u v) as [x|] eqn:A; [|reflexivity]. exfalso. apply find_some_in in A.
  destruct A as (a & b & Hin & P). destruct (gwf_cl g W a b x Hin) as [Ha Hb]. apply has_node_in in Ha, Hb.
  apply pair_eqb_spec in P. destruct P as [[-> ->]|[-> ->]]; tauto.
Qed.

Record IInv (G : gr) (Pd Pr : list (N * N)) : Prop := {
  ii_ids : node_ids G = ids ++ map fst Pr;
  ii_lab : forall n, In n ids -> label G n = option_map (fun a => iter_inc (cnt n Pd) (base n a)) (label g n);
  ii_h : forall h m, In (h, m) Pr -> label G h = Some H_att;
  ii_adj : forall u v, adj G u v = if padj Pr u v then Some e_single else adj g u v;
  ii_uq : uniq_pairs (gedges G) = true }.

Definition P_ok (Pr : list (N * N)) : Prop :=
  NoDup (map fst Pr) /\ forall h m, In (h, m) Pr -> ~ In h ids /\ In m ids.

Lemma padj_with_h Pr h w : P_ok Pr -> ~ In h ids -> padj Pr h w = true -> In (h, w) Pr.
Proof.
  intros [_ Hp] Hh E. unfold padj in E. apply existsb_exists in E. destruct E as ([h' m'] & Hin & Pq). simpl in Pq.
  apply pair_eqb_spec in Pq. destruct Pq as [[-> ->]|[-> ->]]; [exact Hin|].
  exfalso. apply Hh. apply (Hp _ _ Hin).
Qed.

Lemma himp_at G Pd h m Pr : IInv G Pd ((h, m) :: Pr) -> P_ok ((h, m) :: Pr) ->
  himp_step G h = fold1 G m h /\ IInv (fold1 G m h) ((h, m) :: Pd) Pr.
Proof.
  intros I [Hnd Hp]. destruct (Hp h m (or_introl eq_refl)) as [Hh Hm].
  assert (P_ok Pr) as HPr.
  { split; [inversion Hnd; assumption|]. intros h' m' Hin. apply Hp. right. exact Hin. }
  assert (~ In h (map fst Pr)) as Hhr by (inversion Hnd; assumption).
  assert (forall w, padj Pr h w = false /\ padj Pr w h = false) as Hpadj.
  { intros w. split.
    - destruct (padj Pr h w) eqn:E; [|reflexivity]. exfalso. apply Hhr.
      apply (in_map fst _ _ (padj_with_h Pr h w HPr Hh E)).
    - destruct (padj Pr w h) eqn:E; [|reflexivity]. exfalso. apply Hhr.
      unfold padj in E. apply existsb_exists in E. destruct E as ([h' m'] & Hin & Pq). simpl in Pq.
      rewrite pair_eqb_swap in Pq. fold (pair_eqb h' m' h w) in Pq.
      assert (padj Pr h w = true) as E' by (unfold padj; apply existsb_exists; exists (h', m'); auto).
      apply (in_map fst _ _ (padj_with_h Pr h w HPr Hh E')). }
  assert (nbrs G h = [m]) as Hn.
  { apply singleton_list; [apply NoDup_nbrs, (ii_uq _ _ _ I)|]. intros w. rewrite in_nbrs_adj, (ii_adj _ _ _ I).
    simpl. fold (padj Pr h w). rewrite (proj1 (Hpadj w)), orb_false_r.
    rewrite (adj_g_notin h w) by (left; exact Hh). split.
    - destruct (pair_eqb h m h w) eqn:Pq; [|congruence]. intros _. apply pair_eqb_spec in Pq.
      destruct Pq as [[_ ->]|[-> <-]]; reflexivity.
    - intros ->. rewrite pair_eqb_refl. discriminate. }
  assert (is_H G m = false) as HmH.
  { unfold is_H. rewrite (ii_lab _ _ _ I m Hm). destruct (label g m) as [a|] eqn:La; [|reflexivity]. simpl.
    rewrite el_iter_inc, base_el. apply (noH m a La). }
  split.
  { apply himp_step_single. unfold heavy_nbrs. rewrite Hn. simpl. rewrite HmH. reflexivity. }
  assert (m <> h) as Hmh by (intros ->; contradiction).
  split.
  - unfold fold1. rewrite node_ids_remove_node, node_ids_set_node, (ii_ids _ _ _ I). simpl map.
    rewrite filter_app. simpl. rewrite N.eqb_refl. simpl. rewrite !filter_ne_notin by assumption. reflexivity.
  - intros n Hn'. unfold fold1. rewrite label_remove_node. destruct (N.eqb_spec n h) as [->|]; [contradiction|].
    rewrite label_set_node, (ii_lab _ _ _ I n Hn'), cnt_cons. simpl snd. rewrite (N.eqb_sym n m).
    destruct (N.eqb m n); destruct (label g n); reflexivity.
  - intros h' m' Hin. destruct (Hp h' m' (or_intror Hin)) as [Hh' _].
    unfold fold1. rewrite label_remove_node.
    destruct (N.eqb_spec h' h) as [->|]; [exfalso; apply Hhr, (in_map fst _ _ Hin)|].
    rewrite label_set_node. destruct (N.eqb_spec h' m) as [->|]; [contradiction|].
    apply (ii_h _ _ _ I h' m'). right. exact Hin.
  - intros u v. unfold fold1. rewrite adj_remove_node, adj_set_node, (ii_adj _ _ _ I). simpl. fold (padj Pr u v).
    destruct (N.eqb_spec u h) as [->|Hu]; simpl.
    + rewrite (proj1 (Hpadj v)), (adj_g_notin h v) by (left; exact Hh). reflexivity.
    + destruct (N.eqb_spec v h) as [->|Hv]; simpl.
      * rewrite (proj2 (Hpadj u)), (adj_g_notin u h) by (right; exact Hh). reflexivity.
      * assert (pair_eqb h m u v = false) as ->; [|reflexivity].
        destruct (pair_eqb h m u v) eqn:Pq; [|reflexivity]. apply pair_eqb_spec in Pq. destruct Pq as [[? ?]|[? ?]]; congruence.
  - unfold fold1, remove_node. simpl. apply uniq_filter. exact (ii_uq _ _ _ I).
Qed.

Lemma himp_fold_round Pr : forall G Pd, IInv G Pd Pr -> P_ok Pr ->
  let F := fold_left himp_step (map fst Pr) G in
  node_ids F = ids /\
  (forall n, In n ids -> label F n = option_map (fun a => iter_inc (cnt n Pr + cnt n Pd) (base n a)) (label g n)) /\
  (forall u v, adj F u v = adj g u v).
Proof.
  induction Pr as [|[h m] Pr IH]; intros G Pd I HP; cbn [map fold_left fst].
  - cbv zeta. split; [rewrite (ii_ids _ _ _ I); apply app_nil_r|split].
    + intros n Hn. apply (ii_lab _ _ _ I n Hn).
    + intros u v. rewrite (ii_adj _ _ _ I). reflexivity.
  - destruct (himp_at G Pd h m Pr I HP) as [E I']. rewrite E.
    assert (P_ok Pr) as HPr.
    { destruct HP as [Hnd Hp]. split; [inversion Hnd; assumption|]. intros h' m' Hin. apply Hp. right. exact Hin. }
    destruct (IH _ _ I' HPr) as (A & B & C). cbv zeta. split; [exact A|split; [|exact C]].
    intros n Hn. rewrite (B n Hn), !cnt_cons. simpl snd.
    replace (cnt n Pr + ((if N.eqb m n then 1 else 0) + cnt n Pd))%nat with ((if N.eqb m n then 1 else 0) + cnt n Pr + cnt n Pd)%nat by lia.
    reflexivity.
Qed.
End Implicit.

(** ** the round trip *)
Lemma iter_inc_some k el ar z ch am t :
  iter_inc k (NA el ar (Some z) ch am t) = NA el ar (Some (z + Z.of_nat k)) ch am t.
Proof.
  induction k as [|k IH]; [simpl; rewrite Z.add_0_r; reflexivity|].
  cbn [iter_inc]. rewrite IH. unfold inc_h. simpl. f_equal. f_equal. lia.
Qed.
Lemma iter_upd a : iter_inc (Z.to_nat (cval a)) (upd a) = h_restore a.
Proof.
  unfold upd, h_restore. fold (cval a). destruct (Z.ltb_spec 0 (cval a)) as [Hc|Hc].
  - unfold dec_h. rewrite iter_inc_some. fold (cval a). unfold cval in *. destruct (a_hc a) as [c|]; simpl in *; [|lia].
    f_equal. f_equal. lia.
  - destruct (cval a); try reflexivity; lia.
Qed.

Lemma filter_all {A} (p : A -> bool) l : (forall x, In x l -> p x = true) -> filter p l = l.
Proof. induction l as [|x r IH]; intros H; [reflexivity|]. simpl. rewrite H by (left; reflexivity). f_equal. apply IH. intros y Hy. apply H. right. exact Hy. Qed.
Lemma filter_none {A} (p : A -> bool) l : (forall x, In x l -> p x = false) -> filter p l = [].
Proof. induction l as [|x r IH]; intros H; [reflexivity|]. simpl. rewrite H by (left; reflexivity). apply IH. intros y Hy. apply H. right. exact Hy. Qed.

Lemma mem_rev_nil n l : mem n (rev l ++ []) = mem n l.
Proof.
  apply eq_true_iff_eq. rewrite !mem_spec, app_nil_r, <- in_rev. reflexivity.
Qed.

(** the general statement: any node list (a subset, a staged expansion, duplicates, ids that are not atoms) *)
Theorem h_roundtrip_nodes (g : gr) (nodes : option (list N)) : gwfb g = true -> no_H g = true ->
  let g' := h_to_implicit (h_to_explicit g nodes false) in
  node_ids g' = node_ids g /\
  (forall n a, label g n = Some a ->
     label g' n = Some (if mem n (exp_nodes g nodes) then h_restore a else a)) /\
  (forall u v, adj g' u v = adj g u v).
Proof.
  intros Hw HnoH. pose proof (gwfb_gwf g Hw) as W.
  assert (forall n a, label g n = Some a -> el_is_H a = false) as noH.
  { intros n a L. apply assoc_in in L. unfold no_H in HnoH. rewrite forallb_forall in HnoH. specialize (HnoH _ L).
    simpl in HnoH. apply negb_true_iff in HnoH. exact HnoH. }
  assert (EInv g (copy g) (max_id g) []) as I0.
  { split; simpl; try (intros; contradiction).
    - rewrite app_nil_r. reflexivity.
    - constructor.
    - lia.
    - intros u v. apply adj_copy. exact W.
    - apply gwf_copy. exact W. }
  assert (lab_ok g (copy g) []) as L0.
  { intros n _. rewrite label_copy. destruct (label g n); reflexivity. }
  assert (cnt_ok g [] []) as C0 by (intros n a _; reflexivity).
  set (ns := exp_nodes g nodes).
  destruct (hexp_fold_inv_any g W ns (copy g) (max_id g) [] [] I0 L0 C0) as (P & IE & LE & CE).
  cbv zeta in IE, LE, CE. intros g'. unfold g'. rewrite h_to_explicit_false. fold ns.
  set (E := fst (fold_left hexp_step ns (copy g, max_id g))) in *.
  set (base := fun (n : N) (a : natt) => if mem n (rev ns ++ []) then upd a else a).
  assert (forall n a, el_is_H (base n a) = el_is_H a) as base_el.
  { intros n a. unfold base. destruct (mem n _); [apply el_upd|reflexivity]. }
  assert (P_ok g P) as HP.
  { split; [exact (ei_nd _ _ _ _ IE)|]. intros h m Hin. split; [|apply (ei_h _ _ _ _ IE h m Hin)].
    intros Hh. apply (bounded_max_id g) in Hh. pose proof (ei_rng _ _ _ _ IE h (in_map fst _ _ Hin)) as R. simpl in R. lia. }
  assert (IInv g base (copy E) [] P) as II.
  { split.
    - exact (ei_ids _ _ _ _ IE).
    - intros n Hn. rewrite label_copy, (LE n Hn). destruct (label g n); reflexivity.
    - intros h m Hin. rewrite label_copy. apply (ei_h _ _ _ _ IE h m Hin).
    - intros u v. rewrite adj_copy by exact (ei_wf _ _ _ _ IE). apply (ei_adj _ _ _ _ IE).
    - apply (gwf_uq _ (gwf_copy E (ei_wf _ _ _ _ IE))). }
  assert (filter (is_H (copy E)) (node_ids (copy E)) = map fst P) as Hhs.
  { change (node_ids (copy E)) with (node_ids E). rewrite (ei_ids _ _ _ _ IE), filter_app.
    rewrite filter_none, filter_all; [reflexivity| |].
    - intros h Hh. apply in_map_iff in Hh. destruct Hh as ([h' m] & <- & Hin). simpl fst. unfold is_H. rewrite label_copy.
      rewrite (proj1 (ei_h _ _ _ _ IE h' m Hin)). reflexivity.
    - intros n Hn. unfold is_H. rewrite label_copy, (LE n Hn). destruct (label g n) as [a|] eqn:La; [|reflexivity]. simpl.
      fold (base n a). rewrite base_el. apply (noH n a La). }
  unfold h_to_implicit. cbv zeta. rewrite Hhs.
  destruct (himp_fold_round g W noH base base_el P (copy E) [] II HP) as (A & B & C). cbv zeta in A, B, C.
  split; [exact A|split; [|exact C]].
  intros n a La. assert (In n (node_ids g)) as Hn by (apply has_node_in, has_node_label; eauto).
  rewrite (B n Hn), La. simpl. rewrite Nat.add_0_r, (CE n a La). unfold base. rewrite mem_rev_nil.
  destruct (mem n ns); [rewrite iter_upd|]; reflexivity.
Qed.

Theorem h_roundtrip (g : gr) : gwfb g = true -> no_H g = true ->
  let g' := h_to_implicit (h_to_explicit g None false) in
  node_ids g' = node_ids g /\
  (forall n a, label g n = Some a -> label g' n = Some (h_restore a)) /\
  (forall u v, adj g' u v = adj g u v).
Proof.
  intros Hw Hh. destruct (h_roundtrip_nodes g None Hw Hh) as (A & B & C). cbv zeta in *. split; [exact A|split; [|exact C]].
  intros n a La. rewrite (B n a La). simpl.
  assert (mem n (node_ids g) = true) as -> by (apply mem_spec, has_node_in, has_node_label; eauto). reflexivity.
Qed.

(** molecule graphs (no typesGH): every node dictionary is restored exactly *)
Corollary h_roundtrip_mol (g : gr) : gwfb g = true -> no_H g = true -> no_tgh g = true ->
  let g' := h_to_implicit (h_to_explicit g None false) in
  node_ids g' = node_ids g /\ (forall n, label g' n = label g n) /\ (forall u v, adj g' u v = adj g u v).
Proof.
  intros Hw Hh Ht. destruct (h_roundtrip g Hw Hh) as (A & B & C). cbv zeta in *. split; [exact A|split; [|exact C]].
  intros n. destruct (label g n) as [a|] eqn:La.
  - rewrite (B n a La). f_equal. unfold h_restore. apply assoc_in in La. unfold no_tgh in Ht. rewrite forallb_forall in Ht.
    specialize (Ht _ La). simpl in Ht. destruct a as [el ar hc ch am [t|]]; [discriminate|]. simpl. destruct (0 <? _); reflexivity.
  - apply has_node_false in La. apply has_node_false. apply not_true_is_false. intros E.
    apply has_node_in in E. rewrite A in E. apply has_node_in in E. congruence.
Qed.

(** the explicit direction keeps the heavy skeleton, for every networkx graph (explicit hydrogens allowed) *)
Theorem h_explicit_skeleton_nodes (g : gr) (nodes : option (list N)) : gwfb g = true ->
  let E := h_to_explicit g nodes false in
  (forall n a, label g n = Some a -> label E n = Some (if mem n (exp_nodes g nodes) then h_lowered a else a)) /\
  (forall u v, In u (node_ids g) -> In v (node_ids g) -> adj E u v = adj g u v) /\
  (forall h, In h (node_ids E) -> ~ In h (node_ids g) ->
     (max_id g < h)%N /\ label E h = Some H_att /\
     exists m, In m (node_ids g) /\ forall w, adj E h w = if N.eqb w m then Some e_single else None).
Proof.
  intros Hw. pose proof (gwfb_gwf g Hw) as W.
  assert (EInv g (copy g) (max_id g) []) as I0.
  { split; simpl; try (intros; contradiction).
    - rewrite app_nil_r. reflexivity.
    - constructor.
    - lia.
    - intros u v. apply adj_copy. exact W.
    - apply gwf_copy. exact W. }
  assert (lab_ok g (copy g) []) as L0.
  { intros n _. rewrite label_copy. destruct (label g n); reflexivity. }
  assert (cnt_ok g [] []) as C0 by (intros n a _; reflexivity).
  set (ns := exp_nodes g nodes).
  destruct (hexp_fold_inv_any g W ns (copy g) (max_id g) [] [] I0 L0 C0) as (P & IE & LE & _).
  cbv zeta in IE, LE. intros E. unfold E. rewrite h_to_explicit_false. fold ns.
  set (E' := fst (fold_left hexp_step ns (copy g, max_id g))) in *.
  assert (P_ok g P) as HP.
  { split; [exact (ei_nd _ _ _ _ IE)|]. intros h m Hin. split; [|apply (ei_h _ _ _ _ IE h m Hin)].
    intros Hh. apply (bounded_max_id g) in Hh. pose proof (ei_rng _ _ _ _ IE h (in_map fst _ _ Hin)) as R. simpl in R. lia. }
  split; [|split].
  - intros n a La. assert (In n (node_ids g)) as Hn by (apply has_node_in, has_node_label; eauto).
    rewrite (LE n Hn), La. simpl. rewrite mem_rev_nil. reflexivity.
  - intros u v Hu Hv. rewrite (ei_adj _ _ _ _ IE). destruct (padj P u v) eqn:E1; [|reflexivity]. exfalso.
    unfold padj in E1. apply existsb_exists in E1. destruct E1 as ([h m] & Hin & Pq). simpl in Pq.
    destruct (proj2 HP h m Hin) as [Hh _]. apply pair_eqb_spec in Pq. destruct Pq as [[-> _]|[-> _]]; contradiction.
  - intros h Hh Hnot. rewrite (ei_ids _ _ _ _ IE) in Hh. apply in_app_iff in Hh. destruct Hh as [Hh|Hh]; [contradiction|].
    pose proof (ei_rng _ _ _ _ IE h Hh) as R.
    apply in_map_iff in Hh. destruct Hh as ([h' m] & <- & Hin). simpl fst in *.
    destruct (ei_h _ _ _ _ IE h' m Hin) as [L M]. split; [apply R|]. split; [exact L|]. exists m. split; [exact M|].
    intros w. rewrite (ei_adj _ _ _ _ IE). rewrite (adj_g_notin g W h' w) by (left; exact Hnot).
    destruct (N.eqb_spec w m) as [->|Hne].
    + assert (padj P h' m = true) as ->; [|reflexivity]. unfold padj. apply existsb_exists. exists (h', m). split; [exact Hin|apply pair_eqb_refl].
    + destruct (padj P h' w) eqn:E1; [|reflexivity]. exfalso. apply Hne.
      apply (NoDup_fst_inj P h' w m (proj1 HP)); [|exact Hin]. apply (padj_with_h g P h' w HP Hnot E1).
Qed.

Theorem h_explicit_skeleton (g : gr) : gwfb g = true ->
  let E := h_to_explicit g None false in
  (forall n a, label g n = Some a -> label E n = Some (h_lowered a)) /\
  (forall u v, In u (node_ids g) -> In v (node_ids g) -> adj E u v = adj g u v) /\
  (forall h, In h (node_ids E) -> ~ In h (node_ids g) ->
     label E h = Some H_att /\
     exists m, In m (node_ids g) /\ forall w, adj E h w = if N.eqb w m then Some e_single else None).
Proof.
  intros Hw. destruct (h_explicit_skeleton_nodes g None Hw) as (A & B & C). cbv zeta in *. split; [|split; [exact B|]].
  - intros n a La. rewrite (A n a La). simpl.
    assert (mem n (node_ids g) = true) as -> by (apply mem_spec, has_node_in, has_node_label; eauto). reflexivity.
  - intros h H1 H2. destruct (C h H1 H2) as (_ & L & M). auto.
Qed.

(** ** non-vacuity, and the case outside the domain *)
Example h_roundtrip_ex :
  gwfb ex_methylamine = true /\ no_H ex_methylamine = true /\ no_tgh ex_methylamine = true /\
  List.length (gnodes (h_to_explicit ex_methylamine None false)) = 7%nat /\
  gnodes (h_to_implicit (h_to_explicit ex_methylamine None false)) = gnodes ex_methylamine.
Proof. vm_compute. auto. Qed.
(** with typesGH the reactant-half hcount stays lowered: [h_restore] is not the identity there *)
Definition ex_tgh : gr :=
  LG [(1%N, NA (Some (s2l "C")) (Some false) (Some 2) (Some 0) (Some 1) (Some ((s2l "C", false, 2, 0), (s2l "C", false, 1, 0))))] [].
Example h_roundtrip_tgh_ex :
  gwfb ex_tgh = true /\ no_H ex_tgh = true /\
  option_map a_tgh (label (h_to_implicit (h_to_explicit ex_tgh None false)) 1%N)
  = Some (Some ((s2l "C", false, 0, 0), (s2l "C", false, 1, 0))) /\
  option_map a_hc (label (h_to_implicit (h_to_explicit ex_tgh None false)) 1%N) = Some (Some 2).
Proof. vm_compute. auto. Qed.
(** outside the domain (a hydrogen already explicit) the round trip folds that hydrogen too: the graph is not
    restored, only the molecule and the total count are *)
Example h_roundtrip_outside :
  no_H ex_ch4_partial = false /\
  node_ids (h_to_implicit (h_to_explicit ex_ch4_partial None false)) = [5%N] /\
  total_h (h_to_implicit (h_to_explicit ex_ch4_partial None false)) = total_h ex_ch4_partial.
Proof. vm_compute. auto. Qed.
Example h_explicit_skeleton_ex :
  gwfb ex_ch4_partial = true /\
  label (h_to_explicit ex_ch4_partial None false) 5%N = Some (mk "C" 0) /\
  node_ids (h_to_explicit ex_ch4_partial None false) = [5; 7; 8; 9; 10]%N.
Proof. vm_compute. auto. Qed.

(** ** the implicit direction keeps the heavy skeleton, for every networkx graph (any hydrogens, also outside h_dom) *)
Lemma fold_inc_label l : forall (G : gr) n,
  match label (fold_left (fun acc x => set_node acc x inc_h) l G) n, label G n with
  | Some a', Some a => same_but_hc a' a
  | None, None => True
  | _, _ => False
  end.
Proof.
  induction l as [|x r IH]; intros G n; simpl.
  - destruct (label G n) as [a|]; [unfold same_but_hc; auto 10|exact Logic.I].
  - specialize (IH (set_node G x inc_h) n). rewrite label_set_node in IH.
    destruct (label (fold_left _ r (set_node G x inc_h)) n) as [a'|]; destruct (N.eqb n x); destruct (label G n) as [a|];
      simpl in IH; exact IH.
Qed.

Lemma gedges_fold_inc l : forall G : gr, gedges (fold_left (fun acc x => set_node acc x inc_h) l G) = gedges G.
Proof. induction l as [|y r IH]; intros G; [reflexivity|]. simpl. rewrite IH. reflexivity. Qed.

Theorem h_implicit_skeleton (g : gr) : gwfb g = true ->
  let F := h_to_implicit g in
  (forall n a, label g n = Some a -> el_is_H a = false -> exists a', label F n = Some a' /\ same_but_hc a' a) /\
  (forall u v, is_H g u = false -> is_H g v = false -> adj F u v = adj g u v).
Proof.
  intros Hw. pose proof (gwfb_gwf g Hw) as W. intros F. unfold F, h_to_implicit. cbv zeta.
  set (hs := filter (is_H (copy g)) (node_ids (copy g))).
  assert (forall h, In h hs -> is_H g h = true) as Hhs by (intros h Hin; apply filter_In in Hin; apply Hin).
  assert (forall G,
            (forall n a, label g n = Some a -> el_is_H a = false -> exists a', label G n = Some a' /\ same_but_hc a' a) ->
            (forall u v, is_H g u = false -> is_H g v = false -> adj G u v = adj g u v) ->
            (forall n a, label g n = Some a -> el_is_H a = false ->
               exists a', label (fold_left himp_step hs G) n = Some a' /\ same_but_hc a' a) /\
            (forall u v, is_H g u = false -> is_H g v = false -> adj (fold_left himp_step hs G) u v = adj g u v)) as Hfold.
  { induction hs as [|h r IH]; intros G HL HA; [split; assumption|]. cbn [fold_left].
    apply IH; [intros h' Hh'; apply Hhs; right; exact Hh'| |].
    - intros n a La Hel. destruct (HL n a La Hel) as (a1 & L1 & S1). unfold himp_step.
      destruct (filter _ (nbrs G h)) as [|x l] eqn:E; [eauto|].
      assert (n <> h) as Hnh.
      { intros ->. pose proof (Hhs h (or_introl eq_refl)) as HH. unfold is_H in HH. rewrite La, Hel in HH. discriminate. }
      rewrite label_remove_node. destruct (N.eqb_spec n h); [contradiction|].
      pose proof (fold_inc_label (x :: l) G n) as FI. rewrite L1 in FI.
      match type of FI with match ?X with _ => _ end => destruct X as [a2|] end; [|contradiction]. exists a2. split; [reflexivity|].
      destruct FI as (F1 & F2 & F3 & F4 & F5). destruct S1 as (S1 & S2 & S3 & S4 & S5). repeat split; congruence.
    - intros u v Hu Hv. rewrite <- (HA u v Hu Hv). unfold himp_step.
      destruct (filter _ (nbrs G h)) as [|x l] eqn:E; [reflexivity|].
      rewrite adj_remove_node.
      assert (u <> h /\ v <> h) as [Huh Hvh].
      { pose proof (Hhs h (or_introl eq_refl)) as HH. split; intros ->; congruence. }
      destruct (N.eqb_spec u h); [contradiction|]. destruct (N.eqb_spec v h); [contradiction|]. simpl.
      unfold adj. rewrite gedges_fold_inc. reflexivity. }
  apply Hfold.
  - intros n a La _. exists a. split; [rewrite label_copy; exact La|repeat split].
  - intros u v _ _. apply adj_copy. exact W.
Qed.

Example h_implicit_skeleton_ex :
  gwfb ex_bridge = true /\ h_dom (copy ex_bridge) = false /\
  option_map a_el (label (h_to_implicit ex_bridge) 1%N) = Some (Some (s2l "B")) /\ node_ids (h_to_implicit ex_bridge) = [1; 3]%N.
Proof. vm_compute. repeat split. Qed.

(** ** [h_dom] does not depend on the adjacency order: on a networkx graph it can be evaluated on g itself *)
From Coq Require Import Permutation.
Lemma heavy_nbrs_copy_perm (g : gr) h : gwf g -> Permutation (heavy_nbrs (copy g) h) (heavy_nbrs g h).
Proof.
  intros W. apply NoDup_Permutation.
  - unfold heavy_nbrs. apply NoDup_filter, NoDup_nbrs, (gwf_uq _ (gwf_copy g W)).
  - unfold heavy_nbrs. apply NoDup_filter, NoDup_nbrs, (gwf_uq g W).
  - intros w. unfold heavy_nbrs. rewrite !filter_In, !in_nbrs_adj, adj_copy by exact W.
    unfold is_H. rewrite label_copy. reflexivity.
Qed.
Lemma forallb_ext' {A} (f g : A -> bool) l : (forall x, f x = g x) -> forallb f l = forallb g l.
Proof. intros H. induction l as [|x r IH]; simpl; [reflexivity|]. rewrite H, IH. reflexivity. Qed.
Lemma h_dom_copy (g : gr) : gwf g -> h_dom (copy g) = h_dom g.
Proof.
  intros W. unfold h_dom. change (gnodes (copy g)) with (gnodes g). apply forallb_ext'. intros [n a].
  unfold h_ok_node. simpl. f_equal. f_equal.
  pose proof (heavy_nbrs_copy_perm g n W) as P.
  destruct (heavy_nbrs (copy g) n) as [|x [|y r]] eqn:E1; destruct (heavy_nbrs g n) as [|x' [|y' r']] eqn:E2;
    try reflexivity; try (apply Permutation_length in P; simpl in P; discriminate).
  apply Permutation_length_1 in P. subst. reflexivity.
Qed.

Corollary h_total_implicit_wf (g : gr) : gwfb g = true -> h_dom g = true -> total_h (h_to_implicit g) = total_h g.
Proof.
  intros Hw Hd. pose proof (gwfb_gwf g Hw) as W. apply h_total_implicit; [exact (gwf_nd g W)|].
  rewrite h_dom_copy by exact W. exact Hd.
Qed.

Example h_total_implicit_wf_ex :
  gwfb ex_ch4_partial = true /\ h_dom ex_ch4_partial = true /\ total_h (h_to_implicit ex_ch4_partial) = 4.
Proof. vm_compute. repeat split. Qed.

(** staged use: only atom 1 of CH3-NH2 is expanded; the three new hydrogens are numbered 3, 4, 5 — above EVERY id of
    the graph, not above the ids of the selected atoms — and folding them back restores the graph *)
Example h_roundtrip_nodes_ex :
  node_ids (h_to_explicit ex_methylamine (Some [1%N]) false) = [1; 2; 3; 4; 5]%N /\
  option_map a_hc (label (h_to_explicit ex_methylamine (Some [1%N]) false) 2%N) = Some (Some 2) /\
  gnodes (h_to_implicit (h_to_explicit ex_methylamine (Some [1%N]) false)) = gnodes ex_methylamine /\
  gnodes (h_to_implicit (h_to_explicit (h_to_explicit ex_methylamine (Some [1%N]) false) (Some [2%N]) false))
  = gnodes ex_methylamine.
Proof. vm_compute. repeat split. Qed.
