(** C09 — the CanonRSMI state machine (model/C09_State.v): a call never sees the previous state; the properties after a
    successful call are exactly the result of [canonicalise_with]; after a failing call nothing of a canonical product is left. *)
From Coq Require Import List NArith ZArith Bool.
From SK Require Import lib.LGraph model.C01_Model model.C09_Model model.C09_State proof.C09_Main.
Import ListNotations.

(** no stale state: whatever the object went through before (earlier reactions, failing calls, results edited in place by the
    caller), the state after canonicalise depends on the input of THIS call only *)
Theorem cstep_fresh canonG parsed st st' : cstep canonG parsed st = cstep canonG parsed st'.
Proof. reflexivity. Qed.
Theorem cstep_after_anything canonG parsed (hist : list (cstate -> cstate)) (st : cstate) :
  cstep canonG parsed (fold_left (fun s f => f s) hist st) = cstep canonG parsed cs_init.
Proof. reflexivity. Qed.

(** a successful call: the stored properties are exactly the result of canonicalise_with on the canonical reactant graph *)
Theorem cstep_done canonG G H st : cs_done (cstep canonG (Some (G, H)) st) = true <->
  exists Gc' prs Hc', canonicalise_with (canonG G) H = Some (Gc', prs, Hc') /\
    cstep canonG (Some (G, H)) st = CS (Some G) (Some H) (Some Gc') (Some prs) (Some Hc') true.
Proof.
  unfold cstep, canonicalise_with. destruct (remap_graph H (node_map_of (canonG G) H (aam_pairs (canonG G) H))) as [Hc|]; simpl; split.
  - intros _. eexists _, _, _. split; reflexivity.
  - intros _. reflexivity.
  - discriminate.
  - intros (? & ? & ? & E & _). discriminate.
Qed.

(** a failing call (no shared atom map): no canonical product graph, no canonical_rsmi, mapping_pairs = [], and the raw graphs
    of THIS call are stored *)
Theorem cstep_failed canonG G H st : canonicalise_with (canonG G) H = None ->
  cstep canonG (Some (G, H)) st = CS (Some G) (Some H) (Some (canonG G)) (Some []) None false.
Proof.
  unfold cstep, canonicalise_with. destruct (remap_graph H (node_map_of (canonG G) H (aam_pairs (canonG G) H))) as [Hc|] eqn:E; [discriminate|].
  intros _. f_equal. f_equal. unfold remap_graph, node_map_of in E.
  destruct (aam_pairs (canonG G) H); [reflexivity|discriminate].
Qed.

(** the three back-ends the histories run are the functions of the canonicaliser theorems *)
Theorem cstep_backends ranks G H :
  (cs_done (cstep (canonG_wl ranks) (Some (G, H)) cs_init) = true ->
     option_map (fun r => (Some (fst (fst r)), Some (snd (fst r)), Some (snd r))) (canonicalise_wl ranks G H)
     = Some (cs_Gc (cstep (canonG_wl ranks) (Some (G, H)) cs_init), cs_pairs (cstep (canonG_wl ranks) (Some (G, H)) cs_init),
             cs_Hc (cstep (canonG_wl ranks) (Some (G, H)) cs_init))) /\
  (cs_done (cstep canonG_nauty (Some (G, H)) cs_init) = true ->
     option_map (fun r => (Some (fst (fst r)), Some (snd (fst r)), Some (snd r))) (canonicalise_nauty G H)
     = Some (cs_Gc (cstep canonG_nauty (Some (G, H)) cs_init), cs_pairs (cstep canonG_nauty (Some (G, H)) cs_init),
             cs_Hc (cstep canonG_nauty (Some (G, H)) cs_init))).
Proof.
  split; intros D; apply cstep_done in D; destruct D as (Gc' & prs & Hc' & E & S); rewrite S; simpl.
  - unfold canonicalise_wl. unfold canonG_wl in E. rewrite E. reflexivity.
  - unfold canonicalise_nauty. unfold canonG_nauty in E. rewrite E. reflexivity.
Qed.

(** non-vacuity: a successful and a failing call (the product side shares no number with the reactant side) *)
Definition ex_Hx : mgraph := LG [(8%N, GN 70%N false 4 0 None 8)] [].
Example ex_cstep :
  cs_done (cstep canonG_nauty (Some (ex_G, ex_H)) cs_init) = true /\
  cs_done (cstep canonG_nauty (Some (ex_G, ex_Hx)) (cstep canonG_nauty (Some (ex_G, ex_H)) cs_init)) = false /\
  cs_Hc (cstep canonG_nauty (Some (ex_G, ex_Hx)) (cstep canonG_nauty (Some (ex_G, ex_H)) cs_init)) = None /\
  cs_pairs (cstep canonG_nauty (Some (ex_G, ex_Hx)) cs_init) = Some [].
Proof. vm_compute. repeat split. Qed.
