(** C09 — the CanonRSMI state machine (model/C09_State.v): a call never sees the previous state; the properties after a
    successful call are exactly the result of [canonicalise_with]; after a failing call nothing of a canonical product is left. *)
From Coq Require Import List NArith ZArith Bool.
From SK Require Import lib.LGraph model.C01_Model model.C09_Model model.C09_State proof.C09_Main.
Import ListNotations.

(** no stale state: whatever the object went through before (earlier reactions, failing calls, results edited in place by the
    caller), the state after canonicalise depends on the input of THIS call only *)
Theorem cstep_fresh canonG parsed st st' : cstep canonG parsed st = cstep canonG parsed st'.
Proof. reflexivity. Qed.
Theorem cstep_after_anything canonG parsed (hist : list (cstate -> cstate)) (st : cstate) :
  cstep canonG parsed (fold_left (fun s f => f s) hist st) = cstep canonG parsed cs_init.
Proof. reflexivity. Qed.

(** a successful call: the stored properties are exactly the result of canonicalise_with on the canonical reactant graph *)
Theorem cstep_done canonG G H st : cs_done (cstep canonG (Some (G, H)) st) = true <->
  exists Gc' prs Hc', canonicalise_with (canonG G) H = Some (Gc', prs, Hc') /\
    cstep canonG (Some (G, H)) st = CS (Some G) (Some H) (Some Gc') (Some prs) (Some Hc') true.
Proof.
  unfold cstep, canonicalise_with. destruct (remap_graph H (node_map_of (canonG G) H (aam_pairs (canonG G) H))) as [Hc|]; simpl; split.
  - intros _. eexists _, _, _. split; reflexivity.
  - intros _. reflexivity.
  - discriminate.
  - intros (? & ? & ? & E & _). discriminate.
Qed.

(** a failing call (no shared atom map): no canonical product graph, no canonical_rsmi, mapping_pairs = [], and the raw graphs
    of THIS call are stored *)
Theorem cstep_failed canonG G H st : canonicalise_with (canonG G) H = None ->
  cstep canonG (Some (G, H)) st = CS (Some G) (Some H) (Some (canonG G)) (Some []) None false.
Proof.
  unfold cstep, canonicalise_with. destruct (remap_graph H (node_map_of (canonG G) H (aam_pairs (canonG G) H))) as [Hc|] eqn:E; [discriminate|].
  intros _. f_equal. f_equal. unfold remap_graph, node_map_of in E.
  destruct (aam_pairs (canonG G) H); [reflexivity|discriminate].
Qed.

(** the three back-ends the histories run are the functions of the canonicaliser theorems *)
Theorem cstep_backends ranks G H :
  (cs_done (cstep (canonG_wl ranks) (Some (G, H)) cs_init) = true ->
     option_map (fun r => (Some (fst (fst r)), Some (snd (fst r)), Some (snd r))) (canonicalise_wl ranks G H)
     = Some (cs_Gc (cstep (canonG_wl ranks) (Some (G, H)) cs_init), cs_pairs (cstep (canonG_wl ranks) (Some (G, H)) cs_init),
             cs_Hc (cstep (canonG_wl ranks) (Some (G, H)) cs_init))) /\
  (cs_done (cstep canonG_nauty (Some (G, H)) cs_init) = true ->
     option_map (fun r => (Some (fst (fst r)), Some (snd (fst r)), Some (snd r))) (canonicalise_nauty G H)
     = Some (cs_Gc (cstep canonG_nauty (Some (G, H)) cs_init), cs_pairs (cstep canonG_nauty (Some (G, H)) cs_init),
             cs_Hc (cstep canonG_nauty (Some (G, H)) cs_init))).
Proof.
  split; intros D; apply cstep_done in D; destruct D as (Gc' & prs & Hc' & E & S); rewrite S; simpl.
  - unfold canonicalise_wl. unfold canonG_wl in E. rewrite E. reflexivity.
  - unfold canonicalise_nauty. unfold canonG_nauty in E. rewrite E. reflexivity.
Qed.

(** non-vacuity: a successful and a failing call (the product side shares no number with the reactant side) *)
Definition ex_Hx : mgraph := LG [(8%N, GN 70%N false 4 0 None 8)] [].
Example ex_cstep :
  cs_done (cstep canonG_nauty (Some (ex_G, ex_H)) cs_init) = true /\
  cs_done (cstep canonG_nauty (Some (ex_G, ex_Hx)) (cstep canonG_nauty (Some (ex_G, ex_H)) cs_init)) = false /\
  cs_Hc (cstep canonG_nauty (Some (ex_G, ex_Hx)) (cstep canonG_nauty (Some (ex_G, ex_H)) cs_init)) = None /\
  cs_pairs (cstep canonG_nauty (Some (ex_G, ex_Hx)) cs_init) = Some [].
Proof. vm_compute. repeat split. Qed.

(** exactly when does CanonRSMI.canonicalise raise ValueError("node_map must be non-empty")?  When the two sides share no atom
    map - in particular for every reaction without any map number, because expand_aam gives all atoms different fresh numbers
    (C09_expand_sides_spec). *)
Theorem canonicalise_fails_iff (G H Gc : mgraph) (order : list N) :
  parsed G -> parsed H -> enumerates order G -> C09_Canon.relabelled_by (sigma_of order) G Gc ->
  (canonicalise_with Gc H = None <-> ~ exists s, In s (node_ids G) /\ In s (node_ids H)).
Proof.
  intros (WG & AG & PG) (WH & AH & PH) (O1 & I1) R1. split.
  - intros E Hs. destruct (C09_Canon.canonicalise_with_spec G H Gc order WG WH AG AH PG PH O1 I1 R1 Hs) as (Hc & E' & _). congruence.
  - intros Hn. unfold canonicalise_with.
    assert (P : aam_pairs Gc H = []).
    { destruct (aam_pairs Gc H) as [|[a b] l] eqn:E; [reflexivity|]. exfalso. apply Hn. exists b.
      assert (I : In (a, b) (aam_pairs Gc H)) by (rewrite E; left; reflexivity).
      apply (C09_Canon.pairs_in G H Gc order WG WH AG AH PG PH R1) in I. tauto. }
    rewrite P. reflexivity.
Qed.
Example ex_fails : canonicalise_with (canonG_nauty ex_G) ex_Hx = None /\ ~ exists s, In s (node_ids ex_G) /\ In s (node_ids ex_Hx).
Proof. split; [vm_compute; reflexivity|]. intros (s & I1 & I2). simpl in I1, I2. intuition (subst; discriminate). Qed.
