(** C07 — specification-level definitions (what "contained", "isomorphic", "valid embedding" mean) and the bridge
    between them and the verified enumerator lib/Mono.v / the decision procedure [has_mono] the correspondence runs.
    Stdlib lists. *)
From Coq Require Import List NArith Bool Arith Lia Permutation.
From SK Require Import lib.Tok lib.LGraph lib.Mono model.C07_Model.
Import ListNotations.

(** well-formed simple undirected graph: distinct node ids, every edge joins two distinct nodes, every unordered pair stored once *)
Definition gwf (g : graph) : Prop := LGraph.wf g.

(** [emb ind nm em H P f]: f is a label-preserving monomorphism of the pattern P into the host H
    (induced when [ind = true]: pattern non-edges go to host non-edges).  nm / em receive (host attrs, pattern attrs). *)
Definition emb (ind : bool) (nm em : attrs -> attrs -> bool) (H P : graph) (f : N -> N) : Prop :=
  (forall u, In u (node_ids P) -> In (f u) (node_ids H) /\ nm (nlabel H (f u)) (nlabel P u) = true) /\
  (forall u v, In u (node_ids P) -> In v (node_ids P) -> f u = f v -> u = v) /\
  (forall u v, In u (node_ids P) -> In v (node_ids P) -> u <> v ->
     match LGraph.adj P u v, LGraph.adj H (f u) (f v) with
     | Some b, Some b' => em b' b = true
     | Some _, None => False
     | None, Some _ => ind = false
     | None, None => True
     end).

Definition contained (ind : bool) (nm em : attrs -> attrs -> bool) (H P : graph) : Prop := exists f, emb ind nm em H P f.

(** an isomorphism G2 -> G1: an induced embedding that is onto (adjacency is preserved in both directions) *)
Definition iso_map (nm em : attrs -> attrs -> bool) (G1 G2 : graph) (f : N -> N) : Prop :=
  emb true nm em G1 G2 f /\ (forall h, In h (node_ids G1) -> exists u, In u (node_ids G2) /\ f u = h).

(** a mapping given as a list of (pattern node, host node) pairs *)
Definition mfun (m : mapping) (u : N) : N := match assoc u m with Some h => h | None => 0%N end.
Definition mapping_valid (ind : bool) (nm em : attrs -> attrs -> bool) (H P : graph) (m : mapping) : Prop :=
  NoDup (map fst m) /\ (forall u, In u (map fst m) <-> In u (node_ids P)) /\ emb ind nm em H P (mfun m).

(** the VF2 oracle contracts (premises of the theorems; the harness monitors them on every case) *)
Definition vf2b_contract (vf2b : bool -> (attrs -> attrs -> bool) -> (attrs -> attrs -> bool) -> graph -> graph -> bool) : Prop :=
  forall ind nm em G1 G2, gwf G1 -> gwf G2 -> (vf2b ind nm em G1 G2 = true <-> contained ind nm em G1 G2).
Definition enum_contract (enum : (attrs -> attrs -> bool) -> (attrs -> attrs -> bool) -> graph -> graph -> list mapping) : Prop :=
  forall nm em H P, gwf H -> gwf P ->
    (forall m, In m (enum nm em H P) -> mapping_valid true nm em H P m) /\
    (contained true nm em H P -> enum nm em H P <> []).

(* ------------------------------------------------------------------ small list facts *)
Lemma combine_map_self (f : N -> N) l : combine l (map f l) = map (fun u => (u, f u)) l.
Proof. induction l; simpl; congruence. Qed.

Lemma map_fst_combine (l : list N) : forall hs : list N, length hs = length l -> map fst (combine l hs) = l.
Proof. induction l; intros [|h hs] E; simpl in *; try discriminate; auto. f_equal. apply IHl. lia. Qed.

Lemma in_two_split {X} (a b : X) m : In a m -> In b m -> a <> b ->
  (exists l1 l2 l3, m = l1 ++ a :: l2 ++ b :: l3) \/ (exists l1 l2 l3, m = l1 ++ b :: l2 ++ a :: l3).
Proof.
  intros Ia Ib Hne. apply in_split in Ia. destruct Ia as (l1 & r & ->).
  apply in_app_or in Ib. destruct Ib as [Ib|[Ib|Ib]]; [|congruence|].
  - right. apply in_split in Ib. destruct Ib as (k1 & k2 & ->). exists k1, k2, r. rewrite <- app_assoc. reflexivity.
  - left. apply in_split in Ib. destruct Ib as (k1 & k2 & ->). exists l1, k1, k2. reflexivity.
Qed.

Lemma nodup_snd_inj (m : mapping) u v h : NoDup (map snd m) -> In (u, h) m -> In (v, h) m -> u = v.
Proof.
  induction m as [|[a b] m IH]; simpl; [intros _ []|]. intros Hnd. inversion Hnd as [|? ? Hn Hnd']; subst.
  intros [E1|I1] [E2|I2].
  - congruence.
  - inversion E1; subst. exfalso. apply Hn. change h with (snd (v, h)). apply in_map. exact I2.
  - inversion E2; subst. exfalso. apply Hn. change h with (snd (u, h)). apply in_map. exact I1.
  - auto.
Qed.

Lemma mfun_in (m : mapping) u : NoDup (map fst m) -> In u (map fst m) -> In (u, mfun m u) m.
Proof.
  intros Hnd I. apply in_map_iff in I. destruct I as ([a h] & E & I). simpl in E. subst a.
  unfold mfun. rewrite (assoc_nodup_in u m h Hnd I). exact I.
Qed.

Lemma any_spec {X} (f : X -> bool) l : any f l = true <-> exists x, In x l /\ f x = true.
Proof.
  induction l as [|x l IH]; simpl.
  - split; [discriminate|intros (x & [] & _)].
  - destruct (f x) eqn:E.
    + split; auto. intros _. exists x. auto.
    + rewrite IH. split; intros (y & I & Hy); [exists y; auto|]. destruct I as [->|I]; [congruence|exists y; auto].
Qed.

(* ------------------------------------------------------------------ bridge to lib/Mono.v *)
Section Bridge.
Variable ind : bool.
Variables nm em : attrs -> attrs -> bool.
Variables H P : graph.

Definition mvalid := valid (node_ids H) (nlabel P) (nlabel H) (LGraph.adj P) (LGraph.adj H) nm em ind.

Lemma edge_ok_emb u v hu hv :
  edge_ok (LGraph.adj P) (LGraph.adj H) em ind u hu (v, hv) = true <->
  match LGraph.adj P u v, LGraph.adj H hu hv with
  | Some b, Some b' => em b' b = true
  | Some _, None => False
  | None, Some _ => ind = false
  | None, None => True
  end.
Proof.
  unfold edge_ok; simpl. destruct (LGraph.adj P u v), (LGraph.adj H hu hv); try tauto.
  - split; [discriminate|tauto].
  - rewrite negb_true_iff. tauto.
Qed.

Lemma emb_valid_list f : emb ind nm em H P f ->
  forall l, NoDup l -> incl l (node_ids P) -> mvalid (map (fun u => (u, f u)) l).
Proof.
  intros (E1 & E2 & E3). induction l as [|p l IH]; intros Hnd Hin; simpl; [constructor|].
  inversion Hnd as [|? ? Hp Hnd']; subst.
  assert (Ip : In p (node_ids P)) by (apply Hin; left; reflexivity).
  assert (Hl : incl l (node_ids P)) by (intros x Ix; apply Hin; right; exact Ix).
  constructor; [apply IH; auto | apply E1; auto |].
  unfold ok. rewrite (proj2 (E1 p Ip)). simpl. apply andb_true_intro. split.
  - apply fresh_spec. rewrite map_map. simpl. intros I. apply in_map_iff in I. destruct I as (v & Ev & Iv).
    apply Hp. rewrite <- (E2 v p (Hl v Iv) Ip Ev). exact Iv.
  - apply forallb_forall. intros [v hv] I. apply in_map_iff in I. destruct I as (w & Ew & Iw). inversion Ew; subst.
    apply edge_ok_emb. apply E3; auto. intros ->. contradiction.
Qed.

Lemma emb_valid f : NoDup (node_ids P) -> emb ind nm em H P f -> mvalid (rev (combine (node_ids P) (map f (node_ids P)))).
Proof.
  intros Hnd He. rewrite combine_map_self, <- map_rev. apply emb_valid_list; auto.
  - apply NoDup_rev. exact Hnd.
  - intros x I. apply in_rev. exact I.
Qed.

Lemma valid_emb m : mvalid m -> NoDup (map fst m) -> (forall u, In u (map fst m) <-> In u (node_ids P)) -> emb ind nm em H P (mfun m).
Proof.
  intros Hv Hnd Hdom. destruct (valid_pointwise Hv) as (V1 & V2 & V3).
  assert (Hin : forall u, In u (node_ids P) -> In (u, mfun m u) m) by (intros u Iu; apply mfun_in; auto; apply Hdom; exact Iu).
  split; [|split].
  - intros u Iu. apply (V1 u (mfun m u)). auto.
  - intros u v Iu Iv E. apply (nodup_snd_inj m u v (mfun m u) V2); auto. rewrite E. auto.
  - intros u v Iu Iv Hne. apply edge_ok_emb.
    destruct (in_two_split (u, mfun m u) (v, mfun m v) m (Hin u Iu) (Hin v Iv)) as [(l1 & l2 & l3 & E)|(l1 & l2 & l3 & E)].
    + congruence.
    + eapply V3. exact E.
    + rewrite edge_ok_sym; [eapply V3; exact E | apply adj_sym | apply adj_sym].
Qed.

Lemma ext_any_spec ps : forall acc,
  ext_any H P nm em ind ps acc = true <->
  exists m, In m (extend (node_ids H) (nlabel P) (nlabel H) (LGraph.adj P) (LGraph.adj H) nm em ind ps acc).
Proof.
  induction ps as [|p ps IH]; intros acc; simpl.
  - split; auto. intros _. exists acc. left. reflexivity.
  - rewrite any_spec. split.
    + intros (h & Ih & Hh). destruct (ok _ _ _ _ _ _ _ p h acc) eqn:Eo; [|discriminate].
      apply IH in Hh. destruct Hh as (m & Im). exists m. apply in_flat_map. exists h. split; auto. rewrite Eo. exact Im.
    + intros (m & Im). apply in_flat_map in Im. destruct Im as (h & Ih & Im). exists h. split; auto.
      destruct (ok _ _ _ _ _ _ _ p h acc); [|destruct Im]. apply IH. exists m. exact Im.
Qed.

Lemma has_mono_monos : has_mono ind nm em H P = true <-> exists m, In m (monos_g ind nm em H P).
Proof. apply ext_any_spec. Qed.

Lemma monos_g_sound m : NoDup (node_ids P) -> In m (monos_g ind nm em H P) -> mapping_valid ind nm em H P m.
Proof.
  intros Hnd I. apply monos_only_such in I. destruct I as (hs & Hl & -> & Hv).
  assert (Ef : map fst (rev (combine (node_ids P) hs)) = rev (node_ids P)) by (rewrite map_rev, map_fst_combine; auto).
  assert (D1 : NoDup (map fst (rev (combine (node_ids P) hs)))) by (rewrite Ef; apply NoDup_rev; exact Hnd).
  assert (D2 : forall u, In u (map fst (rev (combine (node_ids P) hs))) <-> In u (node_ids P)) by (intros u; rewrite Ef; symmetry; apply in_rev).
  split; [exact D1|]. split; [exact D2|]. apply valid_emb; auto.
Qed.

Lemma monos_g_complete : NoDup (node_ids P) -> contained ind nm em H P -> exists m, In m (monos_g ind nm em H P).
Proof.
  intros Hnd (f & He). exists (rev (combine (node_ids P) (map f (node_ids P)))).
  apply monos_spec; [apply map_length | apply emb_valid; auto].
Qed.

Theorem has_mono_spec : NoDup (node_ids P) -> (has_mono ind nm em H P = true <-> contained ind nm em H P).
Proof.
  intros Hnd. rewrite has_mono_monos. split.
  - intros (m & I). exists (mfun m). apply (monos_g_sound m Hnd I).
  - apply monos_g_complete. exact Hnd.
Qed.
End Bridge.

Lemma gwf_nodup g : gwf g -> NoDup (node_ids g).
Proof. intros (A & _). exact A. Qed.

(** the instances the correspondence run uses satisfy the contracts *)
Theorem has_mono_contract : vf2b_contract has_mono.
Proof. intros ind nm em G1 G2 _ W2. apply has_mono_spec. apply gwf_nodup. exact W2. Qed.

Theorem monos_g_contract : enum_contract (monos_g true).
Proof.
  intros nm em H P _ WP. split.
  - intros m I. apply monos_g_sound; auto. apply gwf_nodup. exact WP.
  - intros C E. destruct (monos_g_complete true nm em H P (gwf_nodup P WP) C) as (m & I). rewrite E in I. destruct I.
Qed.
