(** C14 — SynCRN.build: parallel network expansion equals serial expansion, and every result that reaches
    the integration step carries the index of the rule that produced it. *)
From Coq Require Import NArith ZArith List Bool Arith Lia.
Import ListNotations.
From SK Require Import lib.Tok model.C14_CrnModel.
Local Open Scope nat_scope.

(** ** executor.map as a chunked map *)

Lemma chunks_fuel_concat {A} fuel c : forall l : list A, concat (chunks_fuel fuel c l) = l.
Proof.
  induction fuel as [|fuel IH]; intros l; simpl.
  - apply app_nil_r.
  - destruct l as [|x l']; [reflexivity|].
    cbn [concat]. rewrite IH. apply firstn_skipn.
Qed.

Lemma chunks_concat {A} c (l : list A) : concat (chunks c l) = l.
Proof. apply chunks_fuel_concat. Qed.

Lemma par_map_eq_map {A B} c (f : A -> B) l : par_map c f l = map f l.
Proof. unfold par_map. rewrite <- concat_map, chunks_concat. reflexivity. Qed.

Lemma run_tasks_eq parallel workers t tasks :
  run_tasks parallel workers t tasks = map (apply_rule_worker t) tasks.
Proof.
  unfold run_tasks. destruct (parallel && (1 <? length tasks)); [apply par_map_eq_map|reflexivity].
Qed.

(** ** parallel build = serial build *)

Lemma build_loop_parallel c parallel workers t n : forall step st fr nt,
  build_loop c parallel workers t n step st fr nt = build_loop c false 0 t n step st fr nt.
Proof.
  induction n as [|n IH]; intros step st fr nt; simpl; [reflexivity|].
  destruct (cc_use_frontier c && match fr with [] => true | _ :: _ => false end); [reflexivity|].
  destruct (tasks_of_rules c (s_index st) (s_pool st) fr 0 (cc_rules c) (s_seen st) (cc_max_tasks c) []) as [seen' tasks].
  destruct tasks as [|tk tasks]; [reflexivity|].
  rewrite !run_tasks_eq.
  destruct (fold_left (integrate_result c step) (map (apply_rule_worker t) (tk :: tasks)) (with_seen st seen', [])) as [st1 nf].
  apply IH.
Qed.

Lemma build_from_parallel c parallel workers t st0 seeds :
  build_from c parallel workers t st0 seeds = build_from c false 0 t st0 seeds.
Proof.
  unfold build_from. destruct (s_pool (init_pool st0 seeds)); [reflexivity|apply build_loop_parallel].
Qed.

Lemma main_crn_parallel_equals_serial :
  forall (c : crn_cfg) (parallel : bool) (workers : nat) (t : exec_table) (seeds : list (option N)),
  build c parallel workers t seeds = build c false 0 t seeds.
Proof. intros. apply build_from_parallel. Qed.

Lemma main_crn_builds_parallel_equals_serial :
  forall (c : crn_cfg) (parallel : bool) (workers : nat) (t : exec_table) (calls : list (list (option N))) (st0 : crn_state),
  builds_from c parallel workers t st0 calls = builds_from c false 0 t st0 calls.
Proof.
  intros c parallel workers t calls. induction calls as [|seeds calls IH]; intros st0; simpl; [reflexivity|].
  rewrite build_from_parallel. destruct (build_from c false 0 t st0 seeds) as [st1 n1]. rewrite IH. reflexivity.
Qed.

(** ** every task carries the rule of its index; every result the index and mixture of its task *)

Definition task_ok (rules : list (nat * N)) (tk : task) : Prop :=
  exists ar, nth_error rules (t_idx tk) = Some (ar, t_rule tk).

Lemma tasks_of_mixes_ok rules index ridx ar cid mixes : forall seen budget acc,
  nth_error rules ridx = Some (ar, cid) ->
  Forall (task_ok rules) acc ->
  Forall (task_ok rules) (snd (tasks_of_mixes index ridx cid mixes seen budget acc)).
Proof.
  induction mixes as [|m ms IH]; intros seen budget acc Hn Hacc; simpl; [exact Hacc|].
  destruct (budget =? 0)%N; [exact Hacc|].
  destruct (seen_mem ridx m seen); [apply IH; assumption|].
  destruct (forallb (has_key index) m); apply IH; try assumption.
  apply Forall_app. split; [exact Hacc|]. constructor; [|constructor]. exists ar. exact Hn.
Qed.

Lemma tasks_of_rules_ok c all index pool fr rs : forall ridx seen budget acc,
  (forall k rc, nth_error rs k = Some rc -> nth_error all (ridx + k) = Some rc) ->
  Forall (task_ok all) acc ->
  Forall (task_ok all) (snd (tasks_of_rules c index pool fr ridx rs seen budget acc)).
Proof.
  induction rs as [|[ar cid] rs IH]; intros ridx seen budget acc Hrs Hacc; simpl; [exact Hacc|].
  assert (Hrs' : forall k rc, nth_error rs k = Some rc -> nth_error all (S ridx + k) = Some rc).
  { intros k rc Hk. replace (S ridx + k) with (ridx + S k) by lia. apply Hrs. exact Hk. }
  destruct (budget =? 0)%N; [exact Hacc|].
  destruct (cc_max_components c <? ar); [apply IH; assumption|].
  destruct (tasks_of_mixes index ridx cid _ seen budget acc) as [[seen' budget'] acc'] eqn:E.
  apply IH; [exact Hrs'|].
  replace acc' with (snd (tasks_of_mixes index ridx cid
     (capped (N.min (cc_max_mix c) budget) (mixtures (cc_use_frontier c) ar pool fr)) seen budget acc)) by (rewrite E; reflexivity).
  apply tasks_of_mixes_ok with (ar := ar); [|exact Hacc].
  specialize (Hrs 0 (ar, cid) eq_refl). now rewrite Nat.add_0_r in Hrs.
Qed.

Lemma main_crn_results_attributed :
  forall (c : crn_cfg) (parallel : bool) (workers : nat) (t : exec_table)
         (index : list (N * N)) (pool frontier : list N) (seen : list (nat * mixt)) (r : result),
  In r (run_tasks parallel workers t
          (snd (tasks_of_rules c index pool frontier 0 (cc_rules c) seen (cc_max_tasks c) []))) ->
  exists ar cid,
    nth_error (cc_rules c) (fst (fst r)) = Some (ar, cid) /\
    snd r = exec_lookup t cid (snd (fst r)).
Proof.
  intros c parallel workers t index pool fr seen r Hin.
  rewrite run_tasks_eq in Hin. apply in_map_iff in Hin. destruct Hin as (tk & <- & Htk).
  assert (H : Forall (task_ok (cc_rules c))
                (snd (tasks_of_rules c index pool fr 0 (cc_rules c) seen (cc_max_tasks c) []))).
  { apply tasks_of_rules_ok; [intros k rc Hk; exact Hk|constructor]. }
  rewrite Forall_forall in H. destruct (H tk Htk) as (ar & Har).
  exists ar, (t_rule tk). split; [exact Har|reflexivity].
Qed.

(** ** Non-vacuity: three rules (a three-component rule that cannot produce a task under max_components = 2, then
    two two-component rules), species 0,1,2 as seeds; rule 1 turns {0,1} into {3}, rule 2 turns {1,2} into {4,0}:
    the parallel build attributes the two events to rule indices 1 and 2 (not to the slots 0 and 1). *)
Definition ex_cfg : crn_cfg := CrnCfg [(3, 0%N); (2, 1%N); (2, 2%N)] 2 2 true false 50000%N 200000%N true false true.
Definition ex_tbl : exec_table :=
  [ ((1%N, [0%N; 1%N]), [[3%N]]); ((2%N, [1%N; 2%N]), [[4%N; 0%N]]) ].
Definition ex_seeds : list (option N) := [Some 0%N; Some 1%N; None; Some 2%N].
Definition ex_events (parallel : bool) (w : nat) : list gnode :=
  filter (fun g => match g with GEvent _ _ _ _ _ _ _ => true | _ => false end)
         (s_nodes (fst (build ex_cfg parallel w ex_tbl ex_seeds))).

Example ex_crn_parallel_events :
  ex_events true 2 = [GEvent 5 1 1 1 0 [1; 2] [4]; GEvent 7 1 2 2 0 [2; 3] [6; 1]]%N /\
  ex_events true 2 = ex_events false 0 /\
  snd (build ex_cfg true 3 ex_tbl ex_seeds) = [6; 14].
Proof. vm_compute. repeat split. Qed.

(** ** joblib.Parallel over rows: validate_smiles / dicts_balance_check *)

Lemma rows_parallel_eq {A B} n_jobs (f : A -> B) rows : rows_parallel n_jobs f rows = map f rows.
Proof. unfold rows_parallel. destruct (1 <? n_jobs); [apply par_map_eq_map|reflexivity]. Qed.

Lemma main_validate_workers :
  forall (A : Type) (n_jobs : nat) (check : A -> bool) (rows : list A),
  validate_column n_jobs check rows = validate_column 1 check rows /\
  fst (validate_column n_jobs check rows) = map check rows.
Proof. intros. unfold validate_column. rewrite !rows_parallel_eq. split; reflexivity. Qed.

Lemma filter_map_fst {A} (check : A -> bool) (want : bool) rows :
  map fst (filter (fun p : A * bool => if want then snd p else negb (snd p)) (map (fun r => (r, check r)) rows)) =
  filter (fun r => if want then check r else negb (check r)) rows.
Proof.
  induction rows as [|r rows IH]; simpl; [reflexivity|].
  destruct want; destruct (check r); simpl; now rewrite IH.
Qed.

Lemma main_balance_workers :
  forall (A : Type) (n_jobs : nat) (check : A -> bool) (rows : list A),
  balance_split n_jobs check rows = (filter check rows, filter (fun r => negb (check r)) rows).
Proof.
  intros. unfold balance_split. rewrite rows_parallel_eq. f_equal.
  - apply (filter_map_fst check true).
  - apply (filter_map_fst check false).
Qed.

Example ex_rows_parallel :
  fst (validate_column 3 Nat.even [1; 2; 3; 4; 5; 6; 7]) = [false; true; false; true; false; true; false] /\
  balance_split 2 Nat.even [1; 2; 3; 4; 5] = ([2; 4], [1; 3; 5]).
Proof. vm_compute. split; reflexivity. Qed.
