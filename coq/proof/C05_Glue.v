(** C05 — part 2: gluing commutes with relabelling of the substrate (pi) and of the rule (sg):
      glue (pi . host) (sg . rc) (pi o m o sg^-1) = pi . glue host rc m          (literal equality of list graphs)
    where [relabel] renames node ids and keeps insertion order. Stdlib lists. *)
From Coq Require Import List NArith ZArith Bool Arith Lia.
From SK Require Import lib.Tok lib.LGraph lib.Mono.
From SK Require Import model.C03_Model model.C05_Model proof.C05_Proof.
Import ListNotations.

Section WithThr.
Context {TH : Thr}.


Section GlueEquiv.
  Variables sg pi : N -> N.
  Hypothesis sg_inj : inj sg.
  Hypothesis pi_inj : inj pi.

  Lemma its_of_host_relabel (host : hostg) : its_of_host (relabel pi host) = relabel pi (its_of_host host).
  Proof.
    unfold its_of_host, relabel; simpl. rewrite !map_map. f_equal.
    apply map_ext. intros [[u v] o]. reflexivity.
  Qed.

  Lemma upd_node_relabel {A B} (g : lgraph A B) n (f : A -> A) :
    upd_node (relabel pi g) (pi n) f = relabel pi (upd_node g n f).
  Proof.
    unfold upd_node, relabel; simpl. f_equal. rewrite !map_map. apply map_ext. intros [k a]; simpl.
    rewrite (inj_eqb pi k n pi_inj). destruct (N.eqb k n); reflexivity.
  Qed.

  Lemma mget_mv (m : mapping) u : mget (mv sg pi m) (sg u) = option_map pi (mget m u).
  Proof.
    unfold mget, mv. induction m as [|[p h] r IH]; simpl; [reflexivity|].
    rewrite (inj_eqb sg u p sg_inj). destruct (N.eqb u p); [reflexivity | apply IH].
  Qed.

  Lemma glue_nodes_relabel (rc : its) (m : mapping) : forall T : its,
    glue_nodes (relabel pi T) (relabel sg rc) (mv sg pi m) = relabel pi (glue_nodes T rc m).
  Proof.
    unfold glue_nodes. induction m as [|[p h] r IH]; intros T; simpl; [reflexivity|].
    rewrite (label_relabel _ _ sg sg_inj rc p).
    destruct (label rc p) as [pn|]; [|apply IH].
    rewrite (has_node_relabel _ _ pi pi_inj T h).
    destruct (has_node T h); [|apply IH].
    rewrite upd_node_relabel. apply IH.
  Qed.

  Lemma set_edge_relabel (T : its) u v x : set_edge (relabel pi T) (pi u) (pi v) x = relabel pi (set_edge T u v x).
  Proof.
    unfold set_edge, relabel; simpl. f_equal. rewrite !map_map. apply map_ext. intros [[a b] y].
    rewrite !(inj_eqb pi _ _ pi_inj).
    destruct ((N.eqb a u && N.eqb b v) || (N.eqb a v && N.eqb b u)); reflexivity.
  Qed.

  Lemma glue_edge_relabel (m : mapping) (st : option its) u v x :
    glue_edge (mv sg pi m) (option_map (relabel pi) st) (sg u, sg v, x)
    = option_map (relabel pi) (glue_edge m st (u, v, x)).
  Proof.
    destruct st as [T|]; [|reflexivity]. simpl.
    rewrite !mget_mv.
    destruct (mget m u) as [hu|]; simpl; [|reflexivity].
    destruct (mget m v) as [hv|]; simpl; [|reflexivity].
    rewrite (adj_relabel _ _ pi pi_inj T hu hv).
    destruct (LGraph.adj T hu hv) as [y|].
    - destruct (Z.eqb (eG x) 0).
      + destruct (Z.odd (eH y + eH x)); [reflexivity|]. simpl. rewrite set_edge_relabel. reflexivity.
      + simpl. rewrite set_edge_relabel. reflexivity.
    - simpl. unfold relabel; simpl. rewrite map_app. reflexivity.
  Qed.

  Lemma fold_glue_edge_relabel (m : mapping) (es : list (N * N * iedge)) : forall st : option its,
    fold_left (glue_edge (mv sg pi m)) (map (fun e => let '(a, b, x) := e in (sg a, sg b, x)) es) (option_map (relabel pi) st)
    = option_map (relabel pi) (fold_left (glue_edge m) es st).
  Proof.
    induction es as [|[[a b] x] r IH]; intros st; simpl; [reflexivity|].
    rewrite glue_edge_relabel. apply IH.
  Qed.

  (** gluing the relabelled rule onto the relabelled substrate along the transported match gives the relabelled ITS *)
  Lemma glue_equivariant (host : hostg) (rc : its) (m : mapping) :
    glue (relabel pi host) (relabel sg rc) (mv sg pi m) = option_map (relabel pi) (glue host rc m).
  Proof.
    unfold glue. rewrite its_of_host_relabel, glue_nodes_relabel.
    change (gedges (relabel sg rc)) with (map (fun e : N * N * iedge => let '(a, b, x) := e in (sg a, sg b, x)) (gedges rc)).
    apply (fold_glue_edge_relabel m (gedges rc) (Some (glue_nodes (its_of_host host) rc m))).
  Qed.
End GlueEquiv.

(** non-vacuity: a two-atom rule glued on a three-atom chain, renumbered on both sides; the glued graph is defined *)
Definition ex_host : hostg :=
  LG [(1%N, NA 67%N false 3%Z 0%Z []); (2%N, NA 67%N false 2%Z 0%Z []); (3%N, NA 35%N false 0%Z 0%Z [])]
     [(1%N, 2%N, 2%Z); (2%N, 3%N, 2%Z)].
Definition ex_rc : its :=
  LG [(5%N, IN (NA 67%N false 0%Z 0%Z []) (NA 67%N false 0%Z 0%Z []) 0%Z None);
      (6%N, IN (NA 35%N false 0%Z 0%Z []) (NA 35%N false 0%Z (-1)%Z []) 0%Z None)]
     [(5%N, 6%N, (2%Z, 0%Z, 2%Z))].
Definition ex_m : mapping := [(5, 2); (6, 3)]%N.
Definition ex_pi (n : N) : N := (n + 10)%N.
Definition ex_sg (n : N) : N := (2 * n + 1)%N.
Example glue_equivariant_nonvacuous :
  glue (relabel ex_pi ex_host) (relabel ex_sg ex_rc) (mv ex_sg ex_pi ex_m) = option_map (relabel ex_pi) (glue ex_host ex_rc ex_m)
  /\ glue ex_host ex_rc ex_m <> None.
Proof. split; [vm_compute; reflexivity | vm_compute; discriminate]. Qed.

End WithThr.
