(** C13 -- documentation of the defect repaired in round 1 (/repo 6f9daf3): BatchCluster.lib_check compared list-valued
    pre-grouping attributes in RAW order while GraphCluster compares sorted(value).  [lib_check_before] is the model of
    the code before the repair; the witness shows batched clustering <> one-shot clustering on two items that the
    one-shot path (correctly) puts together.  After the repair [bc_key = gc_key] (proof/C13_Proof.bc_key_gc_key) and
    C13_batch_equals_oneshot holds. *)
From Coq Require Import List NArith ZArith Bool Arith Lia.
From SK Require Import lib.LGraph model.C13_Model proof.C13_Proof.
Import ListNotations.

Definition bc_key_before (mode : attr_mode) (x : item) : list Z :=
  match mode with ANone => [] | AStr => it_attr x | AList => it_attr x | AMixed => it_attr x end.

Definition lib_check_before (iso : item -> item -> bool) (mode : attr_mode) (x : item) (ts : list template)
  : Z * list template :=
  let sub := filter (fun t => zlist_eqb (bc_key_before mode (fst t)) (bc_key_before mode x)) ts in
  match find (fun t => iso (fst t) x) sub with
  | Some t => (snd t, ts)
  | None => let c := (fold_right Z.max (-1) (map snd ts) + 1)%Z in (c, ts ++ [(x, c)])
  end.

Fixpoint cluster_before (iso : item -> item -> bool) (mode : attr_mode) (data : list item) (ts : list template)
  : list Z * list template :=
  match data with
  | [] => ([], ts)
  | x :: r =>
      let '(c, ts1) := lib_check_before iso mode x ts in
      let '(cs, ts2) := cluster_before iso mode r ts1 in
      (c :: cs, ts2)
  end.

Definition wit_x : item := MkItem 0 [67; 79]%Z (LG [] []).
Definition wit_y : item := MkItem 1 [79; 67]%Z (LG [] []).

Lemma unsorted_attribute_before_repair :
  exists (iso : item -> item -> bool) (data : list item),
    (forall x y, iso x y = true) /\
    (forall x y, In x data -> In y data -> gc_key AList x = gc_key AList y) /\
    gc_fit iso AList data = [Some 0; Some 0] /\
    fst (cluster_before iso AList data []) = [0; 1]%Z /\
    fst (cluster iso AList data []) = [0; 0]%Z.
Proof.
  exists (fun _ _ => true), [wit_x; wit_y]. split; [reflexivity|]. split.
  - intros x y [<-|[<-|[]]] [<-|[<-|[]]]; reflexivity.
  - repeat split; vm_compute; reflexivity.
Qed.

(** Round 4 (/repo 3659dfd): GraphCluster chose the normalisation by the type of the FIRST attribute.  With a str first,
    every value of the list was compared raw -- which is mode [AStr] applied to the whole list; the repaired code
    normalises every value on its own -- mode [AMixed].  Witness: a str-tagged first item followed by two "isomorphic"
    items whose list-tagged attributes are permutations of each other. *)
Definition mix_a : item := MkItem 0 [0; 97]%Z (LG [] []).           (* str "a" *)
Definition mix_b : item := MkItem 1 [1; 67; 79]%Z (LG [] []).       (* list [67, 79] *)
Definition mix_c : item := MkItem 2 [1; 79; 67]%Z (LG [] []).       (* list [79, 67] *)
Definition mix_iso (x y : item) : bool :=
  Z.eqb (hd 0%Z (it_attr x)) (hd 0%Z (it_attr y)).                  (* b ~ c, a alone *)

Lemma first_item_normalisation_before_repair :
  gc_key AMixed mix_b = gc_key AMixed mix_c /\
  gc_fit mix_iso AMixed [mix_a; mix_b; mix_c] = [Some 0; Some 1; Some 1] /\
  gc_fit mix_iso AStr [mix_a; mix_b; mix_c] = [Some 0; Some 1; Some 2] /\
  fst (cluster mix_iso AMixed [mix_a; mix_b; mix_c] []) = [0; 1; 1]%Z.
Proof. repeat split; vm_compute; reflexivity. Qed.

Lemma norm_value_meaning (r : list Z) (t : Z) :
  norm_value (1%Z :: r) = 1%Z :: sortZ r /\ norm_value (3%Z :: r) = 3%Z :: sortZ r /\
  (t <> 1%Z -> t <> 3%Z -> norm_value (t :: r) = t :: r) /\ norm_value [] = [].
Proof.
  repeat split; try reflexivity. intros H1 H3. unfold norm_value.
  destruct t as [|p|p]; try reflexivity. destruct p as [p|p|]; try reflexivity; [destruct p; try reflexivity; congruence|congruence].
Qed.
