(** C03 — clause (c) as one equation between finite sets: the changed bonds of the glued ITS, each as
    (unordered atom pair, order change), are a permutation of the images under the match of the rule's changed bonds.
    Stdlib lists only. *)
From Coq Require Import List NArith ZArith Bool Lia Permutation.
From SK Require Import lib.Tok lib.LGraph model.C03_Model proof.C03_Proof proof.C03_Glue.
Import ListNotations.
Local Open Scope Z_scope.

Lemma norm_pair_peq a b u v : norm_pair a b = norm_pair u v <-> peq a b u v = true.
Proof.
  unfold norm_pair, peq. split.
  - intros H. inversion H as [[H1 H2]]. apply orb_true_iff.
    destruct (N.eqb_spec a u), (N.eqb_spec b v), (N.eqb_spec a v), (N.eqb_spec b u); simpl; auto; lia.
  - intros H. apply orb_prop in H. destruct H as [H|H]; apply andb_prop in H; destruct H as [H1 H2];
      apply N.eqb_eq in H1; apply N.eqb_eq in H2; subst; [reflexivity|]. f_equal; lia.
Qed.

(** simple edge lists: distinct normalised pairs; membership = lookup *)
Lemma simple_nodup_pairs {B} (es : list (N * N * B)) : simpleP (pairs es) ->
  NoDup (map (fun e => norm_pair (fst (fst e)) (snd (fst e))) es).
Proof.
  induction es as [|[[a b] x] r IH]; simpl; intros H; [constructor|]. destruct H as (_ & H2 & H3). constructor; [|auto].
  intros I. apply in_map_iff in I. destruct I as ([[u v] y] & E & I). simpl in E.
  apply norm_pair_peq in E. rewrite (H2 u v) in E; [discriminate|].
  unfold pairs. change (u, v) with (fst (u, v, y)). apply in_map. exact I.
Qed.
Lemma simple_in_find {B} (es : list (N * N * B)) a b x : simpleP (pairs es) -> In (a, b, x) es -> find_edge a b es = Some x.
Proof.
  induction es as [|[[p q] y] r IH]; simpl; intros H I; [destruct I|]. destruct H as (_ & H2 & H3).
  change ((N.eqb p a && N.eqb q b) || (N.eqb p b && N.eqb q a)) with (peq p q a b).
  destruct I as [I|I].
  - inversion I; subst. rewrite peq_refl. reflexivity.
  - assert (E : peq p q a b = false).
    { rewrite peq_swap. apply H2. unfold pairs. change (a, b) with (fst (a, b, x)). apply in_map. exact I. }
    rewrite E. apply IH; assumption.
Qed.

Lemma nodup_map_fst {A K V} (f : A -> K) (g : A -> K * V) l : (forall x, fst (g x) = f x) -> NoDup (map f l) -> NoDup (map g l).
Proof.
  intros Hf. induction l as [|x r IH]; simpl; intros H; [constructor|]. inversion H as [|? ? H1 H2]; subst. constructor; [|auto].
  intros I. apply H1. apply in_map_iff in I. destruct I as (y & E & I). apply in_map_iff. exists y. split; [|exact I].
  rewrite <- !Hf, E. reflexivity.
Qed.
Lemma nodup_map_filter {A K} (f : A -> K) (c : A -> bool) l : NoDup (map f l) -> NoDup (map f (filter c l)).
Proof.
  induction l as [|x r IH]; simpl; intros H; [constructor|]. inversion H as [|? ? H1 H2]; subst.
  destruct (c x); simpl; [constructor|]; auto.
  intros I. apply H1. apply in_map_iff in I. destruct I as (y & E & I). apply filter_In in I. apply in_map_iff. exists y. tauto.
Qed.

(** images of distinct rule edges are distinct host pairs *)
Lemma image_nodup m (es : list (N * N * iedge)) : distinct_images m es -> forall c, NoDup (flat_map (image_key m) (filter c es)).
Proof.
  intros Hd c. induction es as [|e r IH]; simpl; [constructor|]. destruct Hd as [Hd1 Hd2].
  destruct (c e); [|auto]. simpl. unfold image_key at 1. destruct e as [[u v] x]; cbn [fst snd].
  destruct (mget m u) as [hu|] eqn:E1; [|simpl; auto]. destruct (mget m v) as [hv|] eqn:E2; [|simpl; auto].
  simpl. constructor; [|auto]. intros I. apply in_flat_map in I. destruct I as ([[u' v'] x'] & I & I').
  apply filter_In in I. destruct I as [I _]. unfold image_key in I'. cbn [fst snd] in I'.
  destruct (mget m u') as [hu'|] eqn:E3; [|destruct I']. destruct (mget m v') as [hv'|] eqn:E4; [|destruct I'].
  destruct I' as [I'|[]]. inversion I' as [[H1 H2 H3]].
  assert (Hp : peq hu' hv' hu hv = true) by (apply norm_pair_peq; unfold norm_pair; congruence).
  assert (Hh : hits m (u, v, x) hu hv = true) by (unfold hits, img; rewrite E1, E2; apply peq_refl).
  pose proof (find_hit_none_in m r hu hv (u', v', x') (Hd1 hu hv Hh) I) as Hn.
  unfold hits, img in Hn. rewrite E3, E4, Hp in Hn. discriminate.
Qed.

Section Iso.
  Variables (host : hostg) (rc : its) (m : mapping) (T : its).
  Hypothesis Hwh : wf_hostb host = true.
  Hypothesis Hwr : wf_rcb rc = true.
  Hypothesis Hm : match_rcb host rc m = true.
  Hypothesis Hg : glue host rc m = Some T.

  Theorem changed_bonds_perm : Permutation (changed_bonds T) (image_changed_bonds m rc).
  Proof.
    pose proof (match_rcb_sound host rc m (wf_rc_nodup rc Hwr) Hm) as MO.
    pose proof (distinct_images_of m (gedges rc) (mo_vals _ _ _ MO) (wf_rc_simple rc Hwr)) as DI.
    pose proof (glued_simple host rc m T Hwh Hwr Hm Hg) as Hs.
    destruct (changes_exact host rc m T Hwr Hm Hg) as (_ & C1 & C2 & _).
    apply NoDup_Permutation.
    - unfold changed_bonds. apply (nodup_map_fst (fun e => norm_pair (fst (fst e)) (snd (fst e)))); [reflexivity|].
      apply nodup_map_filter. apply simple_nodup_pairs. exact Hs.
    - apply image_nodup. exact DI.
    - intros k. split.
      + intros I. unfold changed_bonds in I. apply in_map_iff in I. destruct I as ([[a b] y] & <- & I).
        apply filter_In in I. destruct I as [I Hc]. unfold is_changed in Hc. cbn [snd] in Hc.
        apply negb_true_iff in Hc. apply Z.eqb_neq in Hc.
        pose proof (simple_in_find (gedges T) a b y Hs I) as Ha.
        destruct (C2 a b y Ha Hc) as (u & v & x & hu & hv & Ix & E1 & E2 & Ep & Ed).
        unfold image_changed_bonds. apply in_flat_map. exists (u, v, x). split.
        * apply filter_In. split; [exact Ix|]. unfold is_changed. cbn [snd]. apply negb_true_iff. apply Z.eqb_neq. lia.
        * unfold image_key, bond_key. cbn [fst snd]. rewrite E1, E2. left.
          rewrite (proj2 (norm_pair_peq hu hv a b) Ep), Ed. reflexivity.
      + intros I. unfold image_changed_bonds in I. apply in_flat_map in I. destruct I as ([[u v] x] & I & I').
        apply filter_In in I. destruct I as [I Hc]. unfold is_changed in Hc. cbn [snd] in Hc.
        apply negb_true_iff in Hc. apply Z.eqb_neq in Hc.
        destruct (C1 u v x I) as (hu & hv & y & E1 & E2 & Ea & Ed).
        unfold image_key in I'. cbn [fst snd] in I'. rewrite E1, E2 in I'. destruct I' as [<-|[]].
        unfold adj in Ea. apply find_edge_in in Ea. destruct Ea as (p & q & Iy & Ep).
        unfold changed_bonds. apply in_map_iff. exists (p, q, y). split.
        * unfold bond_key. cbn [fst snd]. rewrite (proj2 (norm_pair_peq p q hu hv) Ep), Ed. reflexivity.
        * apply filter_In. split; [exact Iy|]. unfold is_changed. cbn [snd]. apply negb_true_iff. apply Z.eqb_neq. lia.
  Qed.
End Iso.
