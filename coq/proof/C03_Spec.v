(** C03 — the vocabulary of the theorem statements in props/C03.v (definitions only, no lemmas).
    Everything here is a plain function of the graphs of model/C03_Model.v. *)
From Coq Require Import List NArith ZArith Bool.
From SK Require Import lib.Tok lib.LGraph model.C03_Model.
Import ListNotations.
Local Open Scope Z_scope.

(** an unchanged bond of order [o] in an ITS graph *)
Definition lift (o : Z) : iedge := (o, o, 0).

(** reactant-side / product-side bond of an ITS between two atoms (None = no bond on that side) *)
Definition bondG (T : its) (a b : N) : option Z :=
  match adj T a b with Some x => if 0 <? eG x then Some (eG x) else None | None => None end.
Definition bondH (T : its) (a b : N) : option Z :=
  match adj T a b with Some x => if 0 <? eH x then Some (eH x) else None | None => None end.

(** product-minus-reactant hydrogen count / charge of one ITS node *)
Definition dH (a : inode) : Z := a_hc (iH a) - a_hc (iG a).
Definition dQ (a : inode) : Z := a_ch (iH a) - a_ch (iG a).

(** sums over the nodes of a graph *)
Definition sumL {V} (w : V -> Z) (l : list (N * V)) : Z := fold_right (fun p acc => w (snd p) + acc) 0 l.
Definition sumZ (w : inode -> Z) (T : its) : Z := sumL w (gnodes T).

(** a rule is balanced when it neither creates nor destroys hydrogens or charge (explicit H atoms of a template are
    ordinary atoms present on both sides) *)
Definition balancedb (rc : its) : bool := Z.eqb (sumZ dH rc) 0 && Z.eqb (sumZ dQ rc) 0.

(** accounting on one side of a reaction (a molecule graph as [its_decompose] returns it):
    number of atoms of element [e], plus — for hydrogen — the implicit hydrogens; total charge *)
Definition count_el (e : N) (g : molg) : Z := sumL (fun a => if N.eqb (m_el a) e then 1 else 0) (gnodes g).
Definition total_hc (g : molg) : Z := sumL m_hc (gnodes g).
Definition total_charge (g : molg) : Z := sumL m_ch (gnodes g).
Definition elem_count (e : N) (g : molg) : Z := count_el e g + (if N.eqb e EL_H then total_hc g else 0).

(** the substrate as a molecule graph (what [its_decompose] would return for it) *)
Definition mol_of_host (host : hostg) : molg :=
  LG (map (fun p => (fst p, dec_node (snd p))) (gnodes host)) (gedges host).

(** every bond of a rule joins two atoms of the rule *)
Definition edges_closedb (rc : its) : bool :=
  forallb (fun e => mem (fst (fst e)) (node_ids rc) && mem (snd (fst e)) (node_ids rc)) (gedges rc).

(** what _explicit_h appends for its list of migrations (donor, recipient), first new atom id [h]: one explicit H
    atom per migration, bonded (1,0) to the donor and (0,1) to the recipient *)
Fixpoint new_edges (h : N) (ms : list (N * N)) : list (N * N * iedge) :=
  match ms with
  | [] => []
  | sd :: r => (fst sd, h, (2, 0, 2)) :: (h, snd sd, (0, 2, -2)) :: new_edges (N.succ h) r
  end.
Fixpoint new_nodes (h : N) (ms : list (N * N)) : list (N * inode) :=
  match ms with
  | [] => []
  | _ :: r => (h, H_inode) :: new_nodes (N.succ h) r
  end.
Definition occurrences (n : N) (l : list N) : Z := Z.of_nat (length (filter (N.eqb n) l)).

