(** C03 — the vocabulary of the theorem statements in props/C03.v (definitions only, no lemmas).
    Everything here is a plain function of the graphs of model/C03_Model.v. *)
From Coq Require Import List NArith ZArith Bool.
From SK Require Import lib.Tok lib.LGraph model.C03_Model.
Import ListNotations.
Local Open Scope Z_scope.

(** an unchanged bond of order [o] in an ITS graph *)
Definition lift (o : Z) : iedge := (o, o, 0).

(** reactant-side / product-side bond of an ITS between two atoms (None = no bond on that side) *)
Definition bondG (T : its) (a b : N) : option Z :=
  match adj T a b with Some x => if 0 <? eG x then Some (eG x) else None | None => None end.
Definition bondH (T : its) (a b : N) : option Z :=
  match adj T a b with Some x => if 0 <? eH x then Some (eH x) else None | None => None end.

(** product-minus-reactant hydrogen count / charge of one ITS node *)
Definition dH (a : inode) : Z := a_hc (iH a) - a_hc (iG a).
Definition dQ (a : inode) : Z := a_ch (iH a) - a_ch (iG a).

(** sums over the nodes of a graph *)
Definition sumL {V} (w : V -> Z) (l : list (N * V)) : Z := fold_right (fun p acc => w (snd p) + acc) 0 l.
Definition sumZ (w : inode -> Z) (T : its) : Z := sumL w (gnodes T).

(** a rule is balanced when it neither creates nor destroys hydrogens or charge (explicit H atoms of a template are
    ordinary atoms present on both sides) *)
Definition balancedb (rc : its) : bool := Z.eqb (sumZ dH rc) 0 && Z.eqb (sumZ dQ rc) 0.

(** accounting on one side of a reaction (a molecule graph as [its_decompose] returns it):
    number of atoms of element [e], plus — for hydrogen — the implicit hydrogens; total charge *)
Definition count_el (e : N) (g : molg) : Z := sumL (fun a => if N.eqb (m_el a) e then 1 else 0) (gnodes g).
Definition total_hc (g : molg) : Z := sumL m_hc (gnodes g).
Definition total_charge (g : molg) : Z := sumL m_ch (gnodes g).
Definition elem_count (e : N) (g : molg) : Z := count_el e g + (if N.eqb e EL_H then total_hc g else 0).

(** the substrate as a molecule graph (what [its_decompose] would return for it) *)
Definition mol_of_host (host : hostg) : molg :=
  LG (map (fun p => (fst p, dec_node (snd p))) (gnodes host)) (gedges host).

(** every bond of a rule joins two atoms of the rule *)
Definition edges_closedb (rc : its) : bool :=
  forallb (fun e => mem (fst (fst e)) (node_ids rc) && mem (snd (fst e)) (node_ids rc)) (gedges rc).

(** what _explicit_h appends for its list of migrations (donor, recipient), first new atom id [h]: one explicit H
    atom per migration, bonded (1,0) to the donor and (0,1) to the recipient *)
Fixpoint new_edges (h : N) (ms : list (N * N)) : list (N * N * iedge) :=
  match ms with
  | [] => []
  | sd :: r => (fst sd, h, (2, 0, 2)) :: (h, snd sd, (0, 2, -2)) :: new_edges (N.succ h) r
  end.
Fixpoint new_nodes (h : N) (ms : list (N * N)) : list (N * inode) :=
  match ms with
  | [] => []
  | _ :: r => (h, H_inode) :: new_nodes (N.succ h) r
  end.
Definition occurrences (n : N) (l : list N) : Z := Z.of_nat (length (filter (N.eqb n) l)).


(** default-mode rule preparation of a template without explicit hydrogen atoms: what becomes of one template node *)
Definition strip0 (a : inode) : inode :=
  IN (set_hc (iG a) 0) (set_hc (iH a) 0) 0 (Some (match i_hp a with Some l => l | None => [] end)).
Definition default_rc (tpl : its) : its := LG (map (fun p => (fst p, strip0 (snd p))) (gnodes tpl)) (gedges tpl).


(** _explicit_h: reactant-minus-product hydrogen count of atom [n]; a connected component of the h_pairs relation can
    be paired off when its donors (positive) have no more hydrogens to give than its recipients (negative) can take *)
Definition sumF (G : N -> Z) (l : list N) : Z := fold_right (fun p acc => G p + acc) 0 l.
Definition dl_of (T : its) (n : N) : Z := match label T n with Some a => delta_h a | None => 0 end.
Definition comp_balancedb (T : its) (comp : list N) : bool :=
  sumF (dl_of T) (filter (fun n => 0 <? dl_of T n) comp) <=? sumF (fun n => - dl_of T n) (filter (fun n => dl_of T n <? 0) comp).
Definition pairs_okb (T : its) : bool := forallb (fun c => comp_balancedb T (sort_N c)) (components (pair_to_nodes T)).

(** clause (c) as finite sets: a bond as (unordered atom pair, product-minus-reactant order); the changed bonds of an
    ITS; the images under a match of the changed bonds of a rule *)
Definition norm_pair (a b : N) : N * N := (N.min a b, N.max a b).
Definition is_changed (e : N * N * iedge) : bool := negb (Z.eqb (eG (snd e)) (eH (snd e))).
Definition bond_key (e : N * N * iedge) : (N * N) * Z := (norm_pair (fst (fst e)) (snd (fst e)), eH (snd e) - eG (snd e)).
Definition changed_bonds (T : its) : list ((N * N) * Z) := map bond_key (filter is_changed (gedges T)).
Definition image_key (m : mapping) (e : N * N * iedge) : list ((N * N) * Z) :=
  match mget m (fst (fst e)), mget m (snd (fst e)) with
  | Some hu, Some hv => [(norm_pair hu hv, eH (snd e) - eG (snd e))]
  | _, _ => []
  end.
Definition image_changed_bonds (m : mapping) (rc : its) : list ((N * N) * Z) :=
  flat_map (image_key m) (filter is_changed (gedges rc)).


(** default-mode rule preparation, general templates: two nodes with the same id and the same tuples up to the hydrogen
    count; keeping the nodes / edges that avoid a list of removed atoms *)
Definition same_core (p q : N * inode) : Prop :=
  fst p = fst q /\ set_hc (iG (snd p)) 0 = set_hc (iG (snd q)) 0 /\ set_hc (iH (snd p)) 0 = set_hc (iH (snd q)) 0.
Definition keepn (removed : list N) (p : N * inode) : bool := negb (mem (fst p) removed).
Definition keepe (removed : list N) (e : N * N * iedge) : bool :=
  negb (mem (fst (fst e)) removed) && negb (mem (snd (fst e)) removed).


(** default-mode rule preparation, hydrogen counts of a side graph: [cnt es h x] = number of bonds of [es] joining [h]
    and [x]; [sum_cnt es R x] = number of bonds joining [x] to the atoms of [R]; [mrel d p q]: node [p] is node [q]
    with the hcount of a non-hydrogen atom raised by [d (id)] *)
Definition is_Hm (a : mnode) : bool := N.eqb (m_el a) EL_H.
Definition cnt (es : list (N * N * Z)) (h x : N) : Z :=
  Z.of_nat (length (filter (fun e => peq (fst (fst e)) (snd (fst e)) h x) es)).
Definition sum_cnt (es : list (N * N * Z)) (R : list N) (x : N) : Z := fold_right (fun h acc => cnt es h x + acc) 0 R.
Definition mkeepn (R : list N) (p : N * mnode) : bool := negb (mem (fst p) R).
Definition mkeepe (R : list N) (e : N * N * Z) : bool := negb (mem (fst (fst e)) R) && negb (mem (snd (fst e)) R).

(** [p] is [q] with the hcount of a heavy atom raised by [d (id)] *)
Definition mrel (d : N -> Z) (p q : N * mnode) : Prop :=
  fst p = fst q /\ m_el (snd p) = m_el (snd q) /\ m_aro (snd p) = m_aro (snd q) /\ m_ch (snd p) = m_ch (snd q) /\
  m_hc (snd p) = m_hc (snd q) + (if is_Hm (snd q) then 0 else d (fst q)).


(** _explicit_h, the wiring: two atoms carry a common pair id; the groups are the classes of the closure *)
Definition hp_of (a : inode) : list N := match i_hp a with Some l => l | None => [] end.
Definition share_pair (T : its) (a b : N) : Prop :=
  exists pid A B, In (a, A) (gnodes T) /\ In (b, B) (gnodes T) /\ In pid (hp_of A) /\ In pid (hp_of B).
Inductive same_group (T : its) : N -> N -> Prop :=
| sg_refl a : same_group T a a
| sg_step a b c : share_pair T a b -> same_group T b c -> same_group T a c.


(** an atom is grouped when it belongs to one of the components the pairing works on; a group is exact when its
    donors have exactly as many hydrogens to give as its recipients can take *)
Definition grouped (T : its) (x : N) : bool := existsb (mem x) (components (pair_to_nodes T)).
Definition comp_exactb (T : its) (comp : list N) : bool :=
  Z.eqb (sumF (dl_of T) (filter (fun n => 0 <? dl_of T n) comp)) (sumF (fun n => - dl_of T n) (filter (fun n => dl_of T n <? 0) comp)).
Definition pairs_exactb (T : its) : bool := forallb (fun c => comp_exactb T (sort_N c)) (components (pair_to_nodes T)).


(** default-mode rule preparation, exactly: [side0 iG eG tpl] / [side0 iH eH tpl] = the left / right side graph of the
    template at the start of _strip_explicit_h (hydrogen counts standardised, then reset to 0); [heavy_nbr g h] = atom h
    has a non-hydrogen neighbour in g (what _removable_on asks) *)
Definition heavy_nbr (g : molg) (h : N) : bool := existsb (fun x => negb (is_H_m g x)) (nbrs g h).
Definition side0 (sn : inode -> nattr) (se : iedge -> Z) (tpl : its) : molg := init_m (dec_side sn se (standardize_hydrogen tpl)).

(** counting; [bonded se tpl k h] = the template has a bond between k and h on the side selected by [se] *)
Definition countZ {A} (P : A -> bool) (l : list A) : Z := Z.of_nat (length (filter P l)).
Definition bonded (se : iedge -> Z) (tpl : its) (k h : N) : bool := match adj tpl k h with Some x => 0 <? se x | None => false end.

(** the prepared rule is balanced when, for the removed hydrogens R and the kept non-hydrogen atoms K (both determined by
    the template), every removed hydrogen keeps its number of bonds to K and the kept atoms keep the total charge *)
Definition tpl_condition (tpl : its) : Prop :=
  forall R K, NoDup R -> NoDup K ->
    (forall h, In h R <-> is_H_i tpl h = true /\ heavy_nbr (side0 iG eG tpl) h = true /\ heavy_nbr (side0 iH eH tpl) h = true) ->
    (forall k, In k K <-> In k (node_ids tpl) /\ is_H_i tpl k = false) ->
    (forall h, In h R -> countZ (fun k => bonded eH tpl k h) K = countZ (fun k => bonded eG tpl k h) K) /\
    sumL dQ (filter (keepn R) (gnodes tpl)) = 0.


(** two template atoms are bonded (on either side) to one explicit hydrogen of the template; the transfer groups of the
    template are the classes of the closure *)
Definition tpl_linked (tpl : its) (x y : N) : Prop := exists h, is_H_i tpl h = true /\ In x (nbrs tpl h) /\ In y (nbrs tpl h).
Inductive tpl_group (tpl : its) : N -> N -> Prop :=
| tg_refl x : tpl_group tpl x x
| tg_step x y z : tpl_linked tpl x y -> tpl_group tpl y z -> tpl_group tpl x z.

