(** C08 — the search of nauty.py as an instance of the generic individualisation-refinement theory
    (lib/IRCore.v, lib/IRSearch.v), extended by the two things the code does differently from the library
    prototype: children are visited in the order [ord cell] (sorted by atom_map) and a leaf is
    [mkleaf pre cells] = prefix followed by the remaining nodes.  Proved here, generically:
      gsearch_is_fold : the pruned accumulator search = fold_left visit over the unpruned leaf enumeration
      leaves2_rel     : the leaf enumeration is equivariant under an injective relabelling (up to order)
      valid-partition invariants, fuel sufficiency, "every leaf is a permutation of the nodes". *)
From Coq Require Import List NArith ZArith Bool Arith Lia Permutation.
From SK Require Import lib.IRSortKeys lib.IRCore lib.IRSearch model.C08_Model.
From SK Require lib.IRInst.
Import ListNotations.

(* ---------------- mkleaf ---------------- *)
Lemma memN_spec x c : memN x c = true <-> In x c.
Proof.
  unfold IRInst.memN. rewrite existsb_exists. split.
  - intros (y & I & E). apply N.eqb_eq in E. subst. auto.
  - intros I. exists x. split; auto. apply N.eqb_refl.
Qed.
Lemma memN_map pi (pi_inj : forall x y : N, pi x = pi y -> x = y) x c : memN (pi x) (map pi c) = memN x c.
Proof.
  apply eq_true_iff_eq. rewrite !memN_spec, in_map_iff. split.
  - intros (y & E & I). apply pi_inj in E. subst. auto.
  - intros I. exists x. auto.
Qed.
Lemma mkleaf_map pi (pi_inj : forall x y : N, pi x = pi y -> x = y) pre c :
  mkleaf (map pi pre) (map pi c) = map pi (mkleaf pre c).
Proof.
  unfold mkleaf. rewrite map_app. f_equal.
  induction c as [|x c IH]; simpl; auto.
  rewrite (memN_map pi pi_inj). destruct (memN x pre); simpl; rewrite IH; auto.
Qed.

(* ---------------- the generic search with ordered children ---------------- *)
Section Gen.
Variable S : Type.
Variable sleb : S -> S -> bool.
Variable sig : partition -> N -> S.
Variable rf : nat.
Variable ord : cell -> list N.

Fixpoint leaves2 (fuel : nat) (P : partition) (pre : list N) : list (list N) :=
  match fuel with
  | 0 => []
  | Datatypes.S f =>
      let P' := refine sleb sig rf P in
      match first_big P' with
      | None => [mkleaf pre (concat P')]
      | Some i => flat_map (fun v => leaves2 f (individualise P' i v) (pre ++ [v])) (ord (nth i P' []))
      end
  end.

Variable L : Type.
Variable leb : L -> L -> bool.
Hypothesis leb_total : forall a b, leb a b = true \/ leb b a = true.
Hypothesis leb_trans : forall a b c, leb a b = true -> leb b c = true -> leb a c = true.
Hypothesis leb_antisym : forall a b, leb a b = true -> leb b a = true -> a = b.
Variable label : list N -> L.
Variable partial : list N -> L.

Fixpoint gsearch (fuel : nat) (P : partition) (pre : list N) (a : acc L) : acc L :=
  match fuel with
  | 0 => a
  | Datatypes.S f =>
      let P' := refine sleb sig rf P in
      match first_big P' with
      | None => visit leb label a (mkleaf pre (concat P'))
      | Some i => fold_left (fun a v => if pruned leb partial a (pre ++ [v]) then a
                                        else gsearch f (individualise P' i v) (pre ++ [v]) a)
                            (ord (nth i P' [])) a
      end
  end.

Hypothesis partial_lb : forall fuel P pre p, pre <> [] -> In p (leaves2 fuel P pre) -> leb (partial pre) (label p) = true.

Theorem gsearch_is_fold fuel : forall P pre a,
  gsearch fuel P pre a = fold_left (visit leb label) (leaves2 fuel P pre) a.
Proof.
  induction fuel as [|f IH]; intros P pre a; simpl; auto.
  destruct (first_big (refine sleb sig rf P)) as [i|]; [|reflexivity].
  rewrite fold_left_flat_map. apply fold_left_ext_in. intros a' v _.
  destruct (pruned leb partial a' (pre ++ [v])) eqn:Ep; [|apply IH].
  unfold pruned in Ep. destruct (fst a') as [[bl bp]|] eqn:Ea; [|discriminate].
  symmetry. eapply (fold_visit_noop leb leb_total leb_antisym); eauto.
  intros p I. eapply (ltb_leb_trans leb leb_total leb_trans leb_antisym); [exact Ep|]. eapply partial_lb; [|exact I].
  destruct pre; discriminate.
Qed.
End Gen.

(* ---------------- equivariance of the leaf enumeration ---------------- *)
Section Equiv.
Variable S : Type.
Variable leb : S -> S -> bool.
Hypothesis leb_total : forall a b, leb a b = true \/ leb b a = true.
Hypothesis leb_trans : forall a b c, leb a b = true -> leb b c = true -> leb a c = true.
Hypothesis leb_antisym : forall a b, leb a b = true -> leb b a = true -> a = b.
Variable pi : N -> N.
Hypothesis pi_inj : forall x y, pi x = pi y -> x = y.
Variables sig1 sig2 : partition -> N -> S.
Hypothesis sig_rel : forall P P' v, partR pi P P' -> sig2 P' (pi v) = sig1 P v.
Variables ord1 ord2 : cell -> list N.
Hypothesis ord1_perm : forall c, Permutation (ord1 c) c.
Hypothesis ord2_perm : forall c, Permutation (ord2 c) c.
Variable rf : nat.

Theorem leaves2_rel fuel : forall P P' pre, partR pi P P' ->
  Permutation (map (map pi) (leaves2 _ leb sig1 rf ord1 fuel P pre)) (leaves2 _ leb sig2 rf ord2 fuel P' (map pi pre)).
Proof.
  induction fuel as [|f IH]; intros P P' pre HP; simpl; auto.
  pose proof (refine_rel leb leb_total leb_trans leb_antisym sig1 sig2 sig_rel rf HP) as HR.
  rewrite (first_big_rel HR).
  destruct (first_big (refine leb sig1 rf P)) as [i|] eqn:Efb.
  - rewrite map_flat_map.
    set (F' := fun v' => leaves2 _ leb sig2 rf ord2 f (individualise (refine leb sig2 rf P') i v') (map pi pre ++ [v'])).
    apply perm_trans with (flat_map (fun v => F' (pi v)) (ord1 (nth i (refine leb sig1 rf P) []))).
    + apply flat_map_perm_pointwise. intros v _. unfold F'.
      pose proof (IH _ _ (pre ++ [v]) (individualise_rel pi_inj i v HR)) as H. rewrite map_app in H. exact H.
    + rewrite <- (flat_map_map pi F'). apply Permutation_flat_map.
      assert (Hc : cellR pi (nth i (refine leb sig1 rf P) []) (nth i (refine leb sig2 rf P') [])).
      { apply (@Forall2_nth _ _ (cellR pi) [] [] i _ _ HR). unfold cellR. simpl. auto. }
      unfold cellR in Hc.
      eapply perm_trans; [apply Permutation_map; apply ord1_perm|].
      eapply perm_trans; [exact Hc|]. apply Permutation_sym, ord2_perm.
  - simpl. rewrite (discrete_concat HR Efb), (mkleaf_map pi pi_inj). auto.
Qed.
End Equiv.

(* ---------------- ordered partitions of the node set ---------------- *)
Section Valid.
Variable S : Type.
Variable leb : S -> S -> bool.
Hypothesis leb_total : forall a b, leb a b = true \/ leb b a = true.
Hypothesis leb_trans : forall a b c, leb a b = true -> leb b c = true -> leb a c = true.
Hypothesis leb_antisym : forall a b, leb a b = true -> leb b a = true -> a = b.
Variable sig : partition -> N -> S.

Lemma ssorted_NoDup l : ssorted leb l -> NoDup l.
Proof.
  induction 1 as [|x l Hs IH Hx]; constructor; auto.
  intro I. specialize (Hx _ I). rewrite (ltb_irrefl leb leb_total) in Hx. discriminate.
Qed.

Lemma groups_one (key : N -> S) (F : S -> list N) x ks :
  NoDup ks -> In (key x) ks ->
  Permutation (flat_map (fun k => if eqb leb (key x) k then x :: F k else F k) ks) (x :: flat_map F ks).
Proof.
  induction ks as [|k ks IH]; intros Hnd Hin; [contradiction|].
  inversion Hnd as [|? ? Hk Hnd']; subst. simpl.
  destruct (eqb leb (key x) k) eqn:E.
  - apply (eqb_eq leb leb_total leb_antisym) in E. subst k. simpl. apply perm_skip. apply Permutation_app_head.
    assert (H : forall ks', ~ In (key x) ks' ->
               flat_map (fun k => if eqb leb (key x) k then x :: F k else F k) ks' = flat_map F ks').
    { induction ks' as [|k' ks' IH']; simpl; intros Hn; auto.
      destruct (eqb leb (key x) k') eqn:E'.
      - apply (eqb_eq leb leb_total leb_antisym) in E'. exfalso. apply Hn. left. auto.
      - f_equal. apply IH'. intro I. apply Hn. right. auto. }
    rewrite H by auto. apply Permutation_refl.
  - destruct Hin as [->|Hin].
    + rewrite (proj2 (eqb_eq leb leb_total leb_antisym (key x) (key x)) eq_refl) in E. discriminate.
    + eapply perm_trans; [apply Permutation_app_head; apply IH; auto|].
      apply Permutation_sym. apply Permutation_middle.
Qed.

Lemma groups_perm (key : N -> S) c : forall ks, NoDup ks -> (forall v, In v c -> In (key v) ks) ->
  Permutation (flat_map (fun k => filter (fun v => eqb leb (key v) k) c) ks) c.
Proof.
  induction c as [|x c IH]; intros ks Hnd Hcov; simpl.
  - clear. induction ks; simpl; auto.
  - eapply perm_trans; [apply (groups_one key (fun k => filter (fun v => eqb leb (key v) k) c) x ks Hnd); apply Hcov; left; auto|].
    apply perm_skip. apply IH; auto. intros; apply Hcov; right; auto.
Qed.

Lemma concat_map_flat_map {X Y} (f : X -> list Y) l : concat (map f l) = flat_map f l.
Proof. induction l; simpl; auto. f_equal; auto. Qed.

Lemma split_cell_perm P c : Permutation (concat (split_cell leb sig P c)) c.
Proof.
  unfold split_cell. cbv zeta. destruct (length c <=? 1); [simpl; rewrite app_nil_r; auto|].
  destruct (length (keys leb sig P c) <=? 1); [simpl; rewrite app_nil_r; auto|].
  rewrite <- flat_map_concat_map. unfold group.
  apply (groups_perm (sig P)).
  - apply ssorted_NoDup. apply sort_dedup_sorted; auto.
  - intros v Hv. unfold keys. apply sort_dedup_in; auto. apply in_map. auto.
Qed.

Lemma split_cell_nonempty P c : c <> [] -> Forall (fun d => d <> []) (split_cell leb sig P c).
Proof.
  intros Hc. unfold split_cell. destruct (length c <=? 1); [constructor; auto|].
  destruct (length (keys leb sig P c) <=? 1); [constructor; auto|].
  apply Forall_forall. intros d Hd. apply in_map_iff in Hd. destruct Hd as (k & <- & Hk).
  unfold keys in Hk. apply sort_dedup_in in Hk; auto. apply in_map_iff in Hk. destruct Hk as (v & <- & Hv).
  unfold group. intro E.
  assert (I : In v (filter (fun v0 => eqb leb (sig P v0) (sig P v)) c)).
  { apply filter_In. split; auto. apply (eqb_eq leb leb_total leb_antisym). auto. }
  rewrite E in I. contradiction.
Qed.

Lemma split_cell_length P c : 1 <= length (split_cell leb sig P c).
Proof.
  unfold split_cell. cbv zeta. destruct (length c <=? 1); [simpl; lia|].
  destruct (length (keys leb sig P c) <=? 1) eqn:E; [simpl; lia|].
  rewrite map_length. apply Nat.leb_gt in E. lia.
Qed.

Lemma split_cell_single P x : split_cell leb sig P [x] = [[x]].
Proof. reflexivity. Qed.

Definition vpart (nodes : list N) (P : partition) : Prop :=
  Permutation (concat P) nodes /\ Forall (fun c => c <> []) P.

Lemma refine_step_concat P : Permutation (concat (refine_step leb sig P)) (concat P).
Proof.
  unfold refine_step. generalize P at 1 as Q. intros Q. induction P as [|c P IH]; simpl; auto.
  rewrite concat_app. apply Permutation_app; auto. apply split_cell_perm.
Qed.
Lemma refine_step_nonempty P : Forall (fun c => c <> []) P -> Forall (fun c => c <> []) (refine_step leb sig P).
Proof.
  unfold refine_step. generalize P at 2 as Q. intros Q. induction 1 as [|c P Hc HP IH]; simpl; auto.
  apply Forall_app. split; auto. apply split_cell_nonempty; auto.
Qed.
Lemma refine_step_length P : length P <= length (refine_step leb sig P).
Proof.
  unfold refine_step. generalize P at 2 as Q. intros Q. induction P as [|c P IH]; simpl; auto.
  rewrite app_length. pose proof (split_cell_length Q c). lia.
Qed.
Lemma refine_step_single P x : In [x] P -> In [x] (refine_step leb sig P).
Proof.
  intros H. unfold refine_step. apply in_flat_map. exists [x]. split; auto. left. auto.
Qed.

Lemma refine_vpart nodes fuel : forall P, vpart nodes P -> vpart nodes (refine leb sig fuel P).
Proof.
  induction fuel as [|f IH]; intros P HP; simpl; auto.
  assert (H1 : vpart nodes (refine_step leb sig P)).
  { destruct HP as [Hc Hn]. split; [eapply perm_trans; [apply refine_step_concat|auto]|apply refine_step_nonempty; auto]. }
  destruct (_ =? _); auto.
Qed.
Lemma refine_length fuel : forall P, length P <= length (refine leb sig fuel P).
Proof.
  induction fuel as [|f IH]; intros P; simpl; auto.
  pose proof (refine_step_length P). destruct (_ =? _); auto. specialize (IH (refine_step leb sig P)). lia.
Qed.
Lemma refine_single fuel x : forall P, In [x] P -> In [x] (refine leb sig fuel P).
Proof.
  induction fuel as [|f IH]; intros P H; simpl; auto.
  pose proof (refine_step_single P x H). destruct (_ =? _); auto.
Qed.
End Valid.

(* ---------------- individualisation ---------------- *)
Lemma first_big_spec P i : first_big P = Some i -> i < length P /\ 1 < length (nth i P []).
Proof.
  revert i. induction P as [|c P IH]; simpl; intros i H; [discriminate|].
  destruct (1 <? length c) eqn:E.
  - inversion H; subst. simpl. apply Nat.ltb_lt in E. lia.
  - destruct (first_big P) as [j|]; [|discriminate]. inversion H; subst. simpl.
    destruct (IH j eq_refl). lia.
Qed.

Lemma split_nth {X} (l : list X) i d : i < length l -> l = firstn i l ++ nth i l d :: skipn (Datatypes.S i) l.
Proof.
  revert i. induction l as [|x l IH]; simpl; intros i H; [lia|].
  destruct i as [|i]; simpl; auto. f_equal. apply IH. lia.
Qed.

Lemma rest_perm v c : NoDup c -> In v c -> Permutation (v :: rest v c) c.
Proof.
  intros Hnd Hin. apply NoDup_Permutation; auto.
  - constructor.
    + unfold rest. intro I. apply filter_In in I. destruct I as [_ I]. rewrite N.eqb_refl in I. discriminate.
    + unfold rest. apply NoDup_filter. auto.
  - intros x. simpl. unfold rest. rewrite filter_In. split.
    + intros [<-|[I _]]; auto.
    + intros I. destruct (N.eqb_spec x v) as [->|Hne]; [left; reflexivity|]. right. split; [exact I|].
      reflexivity.
Qed.

Lemma NoDup_app_l {X} (l1 l2 : list X) : NoDup (l1 ++ l2) -> NoDup l1.
Proof.
  induction l1 as [|x l1 IH]; simpl; intros H; [constructor|].
  inversion H; subst. constructor; auto. intro I. apply H2. apply in_or_app. auto.
Qed.
Lemma NoDup_app_r {X} (l1 l2 : list X) : NoDup (l1 ++ l2) -> NoDup l2.
Proof. induction l1 as [|x l1 IH]; simpl; intros H; auto. inversion H; auto. Qed.
Lemma NoDup_app_disj {X} (l1 l2 : list X) x : NoDup (l1 ++ l2) -> In x l1 -> In x l2 -> False.
Proof.
  induction l1 as [|y l1 IH]; simpl; intros H H1 H2; [contradiction|].
  inversion H; subst. destruct H1 as [->|H1]; [apply H4; apply in_or_app; auto|eauto].
Qed.

Lemma NoDup_app_intro {X} (l1 l2 : list X) : NoDup l1 -> NoDup l2 -> (forall x, In x l1 -> In x l2 -> False) -> NoDup (l1 ++ l2).
Proof.
  induction l1 as [|y l1 IH]; simpl; intros H1 H2 Hd; auto.
  inversion H1; subst. constructor.
  - intro I. apply in_app_or in I. destruct I as [I|I]; auto. apply (Hd y); auto.
  - apply IH; auto. intros x Hx1 Hx2. apply (Hd x); auto.
Qed.

Lemma NoDup_concat_cell (P : partition) c : NoDup (concat P) -> In c P -> NoDup c.
Proof.
  intros Hnd Hin. apply in_split in Hin. destruct Hin as (l1 & l2 & ->).
  rewrite concat_app in Hnd. simpl in Hnd. apply NoDup_app_r in Hnd. apply NoDup_app_l in Hnd. auto.
Qed.

Lemma individualise_props nodes P i v :
  NoDup nodes -> vpart nodes P -> first_big P = Some i -> In v (nth i P []) ->
  vpart nodes (individualise P i v) /\ length (individualise P i v) = Datatypes.S (length P).
Proof.
  intros Hnd [Hc Hne] Hfb Hv. destruct (first_big_spec P i Hfb) as [Hi Hbig].
  set (c := nth i P []) in *.
  assert (HP : P = firstn i P ++ c :: skipn (Datatypes.S i) P) by (apply split_nth; auto).
  assert (Hndc : NoDup c).
  { apply (NoDup_concat_cell P); [eapply Permutation_NoDup; [apply Permutation_sym; exact Hc|auto]|].
    rewrite HP. apply in_or_app. right. left. auto. }
  pose proof (rest_perm v c Hndc Hv) as Hr.
  assert (Hrne : rest v c <> []).
  { intro E. rewrite E in Hr. apply Permutation_length in Hr. simpl in Hr. lia. }
  unfold individualise. fold c.
  set (hd := firstn i P) in *. set (tl := skipn (Datatypes.S i) P) in *. clearbody hd tl.
  destruct (rest v c) as [|r0 rr] eqn:Er; [congruence|].
  split; [split|].
  - eapply perm_trans; [|exact Hc]. rewrite HP.
    rewrite !concat_app. apply Permutation_app_head. cbn [concat app]. rewrite app_nil_r.
    exact (Permutation_app_tail (concat tl) Hr).
  - rewrite HP in Hne. apply Forall_app in Hne. destruct Hne as [H1 H2]. inversion H2 as [|? ? Hcne Htl].
    apply Forall_app. split; auto. cbn [app]. constructor; [discriminate|]. constructor; [discriminate|]. exact Htl.
  - rewrite HP. repeat (rewrite app_length || cbn [length app]). unfold cell in *. lia.
Qed.

Lemma individualise_single P i v x : first_big P = Some i -> In [x] P -> In [x] (individualise P i v).
Proof.
  intros Hfb Hx. destruct (first_big_spec P i Hfb) as [Hi Hbig].
  rewrite (split_nth P i [] Hi) in Hx. unfold individualise.
  apply in_app_or in Hx. destruct Hx as [Hx|[Hx|Hx]].
  - apply in_or_app. left. auto.
  - rewrite Hx in Hbig. simpl in Hbig. lia.
  - rewrite !in_app_iff. right. right. right. exact Hx.
Qed.
Lemma individualise_new P i v : In [v] (individualise P i v).
Proof. unfold individualise. apply in_or_app. right. left. auto. Qed.

(* ---------------- leaves are permutations of the node set; fuel suffices ---------------- *)
Lemma in_concat_cell (P : partition) c x : In c P -> In x c -> In x (concat P).
Proof. intros H1 H2. apply in_concat. exists c. auto. Qed.

Lemma single_cell_unique (P : partition) x c : NoDup (concat P) -> In [x] P -> In c P -> In x c -> c = [x].
Proof.
  intros Hnd Hs Hc Hx. apply in_split in Hc. destruct Hc as (l1 & l2 & ->).
  rewrite concat_app in Hnd. simpl in Hnd.
  apply in_app_or in Hs. destruct Hs as [Hs|[Hs|Hs]]; auto.
  - exfalso. apply (NoDup_app_disj _ _ x Hnd).
    + apply (in_concat_cell l1 [x]); simpl; auto.
    + apply in_or_app. left. auto.
  - exfalso. apply NoDup_app_r in Hnd. apply (NoDup_app_disj _ _ x Hnd); auto.
    apply (in_concat_cell l2 [x]); simpl; auto.
Qed.

Lemma mkleaf_perm pre c : NoDup pre -> NoDup c -> incl pre c -> Permutation (mkleaf pre c) c.
Proof.
  intros Hp Hc Hi. unfold mkleaf. apply NoDup_Permutation; auto.
  - apply NoDup_app_intro; auto.
    + apply NoDup_filter. auto.
    + intros x H1 H2. apply filter_In in H2. destruct H2 as [_ H2].
      apply negb_true_iff in H2. apply (proj2 (memN_spec x pre)) in H1. congruence.
  - intros x. rewrite in_app_iff, filter_In. split.
    + intros [H|[H _]]; auto.
    + intros H. destruct (memN x pre) eqn:E; [left; apply memN_spec; auto|right; split; auto].
Qed.

Lemma vpart_length nodes P : vpart nodes P -> length P <= length nodes.
Proof.
  intros [Hc Hn]. rewrite <- (Permutation_length Hc). clear Hc.
  induction Hn as [|c P Hc HP IH]; simpl; auto. rewrite app_length.
  destruct c; [congruence|]. simpl. lia.
Qed.

Section LeafProps.
Variable S : Type.
Variable sleb : S -> S -> bool.
Hypothesis sleb_total : forall a b, sleb a b = true \/ sleb b a = true.
Hypothesis sleb_trans : forall a b c, sleb a b = true -> sleb b c = true -> sleb a c = true.
Hypothesis sleb_antisym : forall a b, sleb a b = true -> sleb b a = true -> a = b.
Variable sig : partition -> N -> S.
Variable rf : nat.
Variable ord : cell -> list N.
Hypothesis ord_perm : forall c, Permutation (ord c) c.
Variable nodes : list N.
Hypothesis nodes_nd : NoDup nodes.

Definition pre_ok (P : partition) (pre : list N) : Prop := NoDup pre /\ forall x, In x pre -> In [x] P.

Lemma vpart_nodup P : vpart nodes P -> NoDup (concat P).
Proof. intros [Hc _]. eapply Permutation_NoDup; [apply Permutation_sym; exact Hc|auto]. Qed.

Theorem leaves2_perm fuel : forall P pre p, vpart nodes P -> pre_ok P pre ->
  In p (leaves2 S sleb sig rf ord fuel P pre) -> Permutation p nodes.
Proof.
  induction fuel as [|f IH]; intros P pre p HP [Hnd Hpre] Hin; simpl in Hin; [contradiction|].
  pose proof (refine_vpart S sleb sleb_total sleb_trans sleb_antisym sig nodes rf P HP) as HP'.
  assert (Hpre' : forall x, In x pre -> In [x] (refine sleb sig rf P)) by (intros; apply refine_single; auto).
  destruct (first_big (refine sleb sig rf P)) as [i|] eqn:Efb.
  - apply in_flat_map in Hin. destruct Hin as (v & Hv & Hin).
    apply (Permutation_in _ (ord_perm _)) in Hv.
    destruct (individualise_props nodes _ i v nodes_nd HP' Efb Hv) as [HPi _].
    eapply IH; [exact HPi| |exact Hin]. split.
    + apply NoDup_app_intro; auto; [constructor; [intros []|constructor]|].
      intros x H1 [E0|[]]. subst v. destruct (first_big_spec _ _ Efb) as [Hi Hbig].
      assert (E : nth i (refine sleb sig rf P) [] = [x]).
      { apply (single_cell_unique (refine sleb sig rf P)); auto; [apply vpart_nodup; auto|apply nth_In; auto]. }
      rewrite E in Hbig. simpl in Hbig. lia.
    + intros x Hx. apply in_app_or in Hx. destruct Hx as [Hx|[<-|[]]].
      * apply individualise_single; auto.
      * apply individualise_new.
  - destruct Hin as [<-|[]]. eapply perm_trans; [|apply (proj1 HP')].
    apply mkleaf_perm; auto; [apply vpart_nodup; auto|].
    intros x Hx. apply (in_concat_cell _ [x]); simpl; auto.
Qed.

Lemma leaves2_prefix fuel : forall P pre p, In p (leaves2 S sleb sig rf ord fuel P pre) -> exists r, p = pre ++ r.
Proof.
  induction fuel as [|f IH]; intros P pre p Hin; simpl in Hin; [contradiction|].
  destruct (first_big (refine sleb sig rf P)) as [i|].
  - apply in_flat_map in Hin. destruct Hin as (v & _ & Hin). destruct (IH _ _ _ Hin) as (r & ->).
    exists (v :: r). rewrite <- app_assoc. reflexivity.
  - destruct Hin as [<-|[]]. unfold mkleaf. eauto.
Qed.

(* fuel sufficiency of the accumulator search *)
Variable L : Type.
Variable leb : L -> L -> bool.
Variable label : list N -> L.
Variable partial : list N -> L.

Lemma visit_some a p : fst (visit leb label a p) <> None.
Proof.
  unfold visit. destruct (fst a) as [[bl bp]|] eqn:E; simpl; [|discriminate].
  destruct (ltb leb (label p) bl); simpl; [discriminate|].
  destruct (eqb leb (label p) bl); simpl; rewrite ?E; discriminate.
Qed.

Lemma fold_some {X} (step : acc L -> X -> acc L) l :
  (forall a v, fst a <> None -> fst (step a v) <> None) -> forall a, fst a <> None -> fst (fold_left step l a) <> None.
Proof. intros H. induction l as [|v l IH]; simpl; auto. Qed.

Lemma gsearch_some fuel : forall P pre a, fst a <> None ->
  fst (gsearch S sleb sig rf ord L leb label partial fuel P pre a) <> None.
Proof.
  induction fuel as [|f IH]; intros P pre a Ha; simpl; auto.
  destruct (first_big (refine sleb sig rf P)) as [i|]; [|apply visit_some].
  apply fold_some; auto. intros a' v Ha'. destruct (pruned leb partial a' (pre ++ [v])); auto.
Qed.

Theorem gsearch_finds fuel : forall P pre a, vpart nodes P -> length nodes < fuel + length P ->
  fst (gsearch S sleb sig rf ord L leb label partial fuel P pre a) <> None.
Proof.
  induction fuel as [|f IH]; intros P pre a HP Hlen.
  - pose proof (vpart_length nodes P HP). simpl in Hlen. lia.
  - simpl.
    pose proof (refine_vpart S sleb sleb_total sleb_trans sleb_antisym sig nodes rf P HP) as HP'.
    pose proof (refine_length S sleb sig rf P) as Hl.
    destruct (first_big (refine sleb sig rf P)) as [i|] eqn:Efb; [|apply visit_some].
    destruct (first_big_spec _ _ Efb) as [Hi Hbig].
    set (c := nth i (refine sleb sig rf P) []) in *.
    pose proof (Permutation_length (ord_perm c)) as Hlo.
    destruct (ord c) as [|v l] eqn:Eo; [simpl in Hlo; lia|].
    simpl. apply fold_some.
    + intros a' w Ha'. destruct (pruned leb partial a' (pre ++ [w])); auto. apply gsearch_some. auto.
    + destruct (pruned leb partial a (pre ++ [v])) eqn:Ep.
      * unfold pruned in Ep. destruct (fst a); [discriminate|discriminate].
      * assert (Hv : In v c) by (apply (Permutation_in _ (ord_perm c)); rewrite Eo; left; auto).
        destruct (individualise_props nodes _ i v nodes_nd HP' Efb Hv) as [HPi Hli].
        apply IH; auto. rewrite Hli. lia.
Qed.
End LeafProps.

Print Assumptions gsearch_is_fold.
Print Assumptions leaves2_rel.
Print Assumptions leaves2_perm.
Print Assumptions gsearch_finds.
