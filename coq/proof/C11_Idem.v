(** C11 (round 3) — de-duplicating twice changes nothing: both de-duplicators are idempotent (a caller that prunes an
    already pruned list, or reads a re-pruned attribute, gets the same list).  Stdlib lists. *)
From Coq Require Import List NArith ZArith Bool Arith Lia.
From SK Require Import lib.LGraph lib.Mono lib.Reach model.C11_Model proof.C11_Aut proof.C11_Dedup proof.C11_Main
                       proof.C11_Sig proof.C11_PruneClass.
Import ListNotations.

Lemma subseq_split {X} (a xs : list X) : subseq a xs ->
  forall l1 x l2, a = l1 ++ x :: l2 -> exists m1 m2, xs = m1 ++ x :: m2 /\ incl l1 m1.
Proof.
  induction 1 as [|y l l' Hs IH|y l l' Hs IH]; intros l1 x l2 E.
  - destruct l1; discriminate.
  - destruct (IH l1 x l2 E) as (m1 & m2 & -> & Hi). exists (y :: m1), m2. split; [reflexivity|].
    intros z Hz. right. apply Hi. exact Hz.
  - destruct l1 as [|a0 l1]; simpl in E; inversion E; subst.
    + exists [], l'. split; [reflexivity | intros z []].
    + destruct (IH l1 x l2 eq_refl) as (m1 & m2 & -> & Hi). exists (a0 :: m1), m2. split; [reflexivity|].
      intros z [<-|Hz]; [left; reflexivity | right; apply Hi; exact Hz].
Qed.

Lemma subseq_all_eq {X} (a b : list X) : subseq a b -> NoDup b -> (forall x, In x b -> In x a) -> a = b.
Proof.
  induction 1 as [|y l l' Hs IH|y l l' Hs IH]; intros Hnd Hall.
  - reflexivity.
  - exfalso. inversion Hnd as [|? ? Hn _]; subst. apply Hn. apply (subseq_in _ _ _ Hs). apply Hall. left. reflexivity.
  - inversion Hnd as [|? ? Hn Hnd']; subst. f_equal. apply IH; [exact Hnd'|].
    intros x Hx. destruct (Hall x (or_intror Hx)) as [<-|H]; [contradiction | exact H].
Qed.

Lemma subseq_nodup {X} (a b : list X) : subseq a b -> NoDup b -> NoDup a.
Proof.
  induction 1 as [|y l l' Hs IH|y l l' Hs IH]; intros Hnd; [constructor| |].
  - inversion Hnd; auto.
  - inversion Hnd as [|? ? Hn Hnd']; subst. constructor; [|auto]. intros Hin. apply Hn. eapply subseq_in; eauto.
Qed.

Section Idem.
Variable X : Type.
Variable R : X -> X -> Prop.

Definition firsts (xs : list X) (x : X) : Prop :=
  In x xs /\ forall l1 l2, xs = l1 ++ x :: l2 -> forall z, In z l1 -> ~ R x z.

Lemma firsts_idempotent xs out out2 : NoDup xs ->
  subseq out xs -> (forall x, In x out <-> firsts xs x) ->
  subseq out2 out -> (forall x, In x out2 <-> firsts out x) -> out2 = out.
Proof.
  intros Hnd Hs1 H1 Hs2 H2. apply subseq_all_eq; [exact Hs2 | eapply subseq_nodup; eauto |].
  intros x Hx. apply H2. split; [exact Hx|].
  intros l1 l2 E z Hz. destruct (subseq_split out xs Hs1 l1 x l2 E) as (m1 & m2 & Exs & Hi).
  apply H1 in Hx. destruct Hx as [_ Hf]. apply (Hf m1 m2 Exs z). apply Hi. exact Hz.
Qed.
End Idem.

Lemma dedup_sig_go_total {X} (key : X -> mapping) (sg : mapping -> option sig) (xs : list X) :
  (forall x, In x xs -> sg (key x) <> None) -> forall seen, exists out, dedup_sig_go key sg xs seen = Some out.
Proof.
  induction xs as [|h r IH]; intros Hd seen; simpl; [eauto|].
  destruct (sg (key h)) as [s|] eqn:Es; [|exfalso; apply (Hd h); [left; reflexivity | exact Es]].
  assert (Hr : forall x, In x r -> sg (key x) <> None) by (intros; apply Hd; right; assumption).
  destruct (existsb (sig_eqb s) seen); [apply IH; exact Hr|].
  destruct (IH Hr (s :: seen)) as (o & ->). eauto.
Qed.

(** deduplicate_matches_with_anchor *)
Lemma dedup_anchor_idempotent (X : Type) (key : X -> mapping) (xs : list X) porbs anchor horbs hanchor out :
  NoDup xs -> dedup_anchor_h key xs porbs anchor horbs hanchor = Some out ->
  dedup_anchor_h key out porbs anchor horbs hanchor = Some out.
Proof.
  intros Hnd H.
  destruct (dedup_anchor_first_all X key xs porbs anchor horbs hanchor out Hnd H) as (Hsub & _ & [(-> & -> & ->)|(Hne & Hdef & Hspec)]).
  - reflexivity.
  - assert (Hnd' : NoDup out) by (eapply subseq_nodup; eauto).
    unfold dedup_anchor_h in *. rewrite dedup_anchor_sig in *.
    assert (Hgo : exists out2, dedup_sig_go key (anchor_signature porbs anchor horbs) out [] = Some out2).
    { apply dedup_sig_go_total. intros x Hx. apply Hdef. eapply subseq_in; eauto. }
    destruct Hgo as (out2 & Hgo).
    assert (E : out2 = out).
    { apply (firsts_idempotent X (fun x z => anchor_signature porbs anchor horbs (key z) = anchor_signature porbs anchor horbs (key x))
               xs out out2 Hnd Hsub).
      - intros x. rewrite Hspec. unfold firsts. tauto.
      - eapply dedup_sig_go_subseq; eauto.
      - intros x. rewrite (dedup_sig_go_first X key _ out [] out2 Hnd' Hgo x). unfold firsts, first_of_its_class, unseen.
        split; [intros (A & B & _); auto | intros (A & B); split; [exact A | split; [exact B | intros s _ []]]]. }
    destruct porbs, horbs; try (rewrite Hgo, E; reflexivity). destruct Hne as [Hc|Hc]; congruence.
Qed.

(** the pruning step of SynReactor.mappings() *)
Lemma prune_idempotent (X : Type) (key : X -> mapping) (rc : graph) (raw : list X) :
  simple_graph rc -> NoDup raw -> (forall x, In x raw -> on_nodes rc (key x)) ->
  prune key rc (prune key rc raw) = prune key rc raw.
Proof.
  intros Hg Hnd HD.
  pose proof (prune_subseq X key rc raw) as Hs1.
  assert (Hnd' : NoDup (prune key rc raw)) by (eapply subseq_nodup; eauto).
  assert (HD' : forall x, In x (prune key rc raw) -> on_nodes rc (key x)) by (intros x Hx; apply HD; eapply subseq_in; eauto).
  apply (firsts_idempotent X
           (fun x z => exists s, is_automorphism n_full e_full rc s /\
                                 forall p h, In (p, h) (key x) <-> exists p', In (p', h) (key z) /\ p = s p')
           raw (prune key rc raw) (prune key rc (prune key rc raw)) Hnd Hs1).
  - intros x. apply (prune_first_of_class X key rc raw Hg Hnd HD x).
  - apply prune_subseq.
  - intros x. apply (prune_first_of_class X key rc (prune key rc raw) Hg Hnd' HD' x).
Qed.

Lemma idempotent_all (X : Type) (key : X -> mapping) :
  (forall (xs : list X) porbs anchor horbs hanchor out, NoDup xs ->
     dedup_anchor_h key xs porbs anchor horbs hanchor = Some out ->
     dedup_anchor_h key out porbs anchor horbs hanchor = Some out) /\
  (forall (rc : graph) (raw : list X), simple_graph rc -> NoDup raw ->
     (forall x, In x raw -> forall p h, In (p, h) (key x) -> In p (node_ids rc)) ->
     prune key rc (prune key rc raw) = prune key rc raw).
Proof.
  split.
  - intros. eapply dedup_anchor_idempotent; eauto.
  - intros rc raw Hg Hnd HD. apply prune_idempotent; auto.
Qed.

Example ex_idempotent :
  prune (fun m : mapping => m) ex_path (prune (fun m : mapping => m) ex_path ex_raw) = prune (fun m : mapping => m) ex_path ex_raw /\
  length (prune (fun m : mapping => m) ex_path ex_raw) = 2%nat /\ length ex_raw = 3%nat.
Proof. repeat split; vm_compute; reflexivity. Qed.
