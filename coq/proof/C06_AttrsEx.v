(** C06 — non-vacuity examples for the attribute-selection theorems (section 6 of props/C06.v). *)
From Coq Require Import List NArith Bool Arith Lia Permutation SetoidList.
From SK Require Import lib.LGraph lib.Mono model.C06_Model model.C06_Attrs lib.C06_Spec lib.C06_SelSpec
  proof.C06_Attrs proof.C06_AttrsSpec.
Import ListNotations.
Local Open Scope N_scope.

(** names: 1 element, 2 charge, 3 hcount, 4 order, 5 aromatic; values: 1 "C", 2 "O", 3 = 0 (charge), 4 = 1 (order),
    5 = 2 (order), 6 = 1 (hcount), 7 True.
    host: ethanol-like C1(H1)-C2-O3(H1) with a double bond variant edge, plus an isolated O4; pattern: C-O *)
Definition Hr : rgraph :=
  LG [ (1, ([(1, 1); (2, 3); (3, 6)], Some 1)); (2, ([(1, 1); (2, 3)], None));
       (3, ([(1, 2); (2, 3); (3, 6); (5, 7)], Some 1)); (4, ([(1, 2)], None)) ]
     [ (1, 2, [(4, 4)]); (2, 3, [(4, 5)]) ].
Definition Pr : rgraph :=
  LG [ (10, ([(1, 1); (2, 3)], None)); (11, ([(1, 2); (2, 3)], Some 1)) ]
     [ (10, 11, [(4, 4)]) ].

Lemma Hr_wf : rgwf Hr.
Proof.
  split.
  - apply NoDup_cons; [simpl; intuition discriminate|]. apply NoDup_cons; [simpl; intuition discriminate|].
    apply NoDup_cons; [simpl; intuition discriminate|]. apply NoDup_cons; [simpl; intuition|]. constructor.
  - intros a b x [E|[E|[]]]; inversion E; subst; simpl; repeat split; auto; discriminate.
Qed.
Lemma Pr_wf : rgwf Pr.
Proof.
  split.
  - apply NoDup_cons; [simpl; intuition discriminate|]. apply NoDup_cons; [simpl; intuition|]. constructor.
  - intros a b x [E|[]]; inversion E; subst; simpl; repeat split; auto; discriminate.
Qed.

(** C06_sel_closures is not vacuous: both verdicts occur *)
Example ex_closure_true : node_match_sel [1; 2] (rlab Hr 3) (rlab Pr 11) = true.
Proof. vm_compute. reflexivity. Qed.
Example ex_closure_false_hcount : node_match_sel [1; 2] (rlab Hr 4) (rlab Pr 11) = false.
Proof. vm_compute. reflexivity. Qed.
Example ex_closure_absent_is_none : node_match_sel [1; 2] (rlab Hr 4) (rlab Pr 10) = false
                                    /\ node_match_sel [5] (rlab Hr 4) (rlab Pr 10) = true.
Proof. vm_compute. split; reflexivity. Qed.

(** with the bond order selected the pattern C-O (order 1) does not fit C2=O3; without it, one match *)
Definition R_order := find_sel (monos_sel [1; 2] [4] Hr Pr) (Cfg 0 0 5000 true false) [1; 2] [4] Hr Pr.
Definition R_skel := find_sel (monos_sel [1; 2] [] Hr Pr) (Cfg 0 0 5000 true false) [1; 2] [] Hr Pr.
Example ex_sel_values : R_order = [] /\ R_skel = [[(11, 3); (10, 2)]].
Proof. vm_compute. split; reflexivity. Qed.

(** premises of C06_sel_all_exact / C06_sel_refines hold for this pair, conclusions are not trivial *)
Example ex_sel_all_exact :
  (forall m, In m R_skel -> is_mono_sel [1; 2] [] Hr Pr m) /\
  (forall m, is_mono_sel [1; 2] [] Hr Pr m -> exists m', In m' R_skel /\ Permutation m m') /\
  NoDupA (@Permutation (N * N)) R_skel.
Proof. apply (sel_all_exact [1; 2] [] 5000 true Hr Pr Hr_wf Pr_wf). vm_compute. discriminate. Qed.

Example ex_sel_refines : forall m, In m R_order -> exists m', In m' R_skel /\ Permutation m m'.
Proof.
  apply (sel_refines [1; 2] [1; 2] [] [4] 5000 5000 true true Hr Pr Hr_wf Pr_wf).
  - apply incl_refl.
  - intros x [].
  - vm_compute. discriminate.
  - vm_compute. discriminate.
Qed.

(** C06_sel_same_members: permuted selection with repetitions, limits and the pre-filter on *)
Example ex_sel_same_members :
  find_sel (monos_sel [2; 1; 2] [] Hr Pr) (Cfg 2 1 3 false true) [2; 1; 2] [] Hr Pr =
  find_sel (monos_sel [1; 2] [] Hr Pr) (Cfg 2 1 3 false true) [1; 2] [] Hr Pr
  /\ find_sel (monos_sel [1; 2] [] Hr Pr) (Cfg 2 1 3 false true) [1; 2] [] Hr Pr = [[(11, 3); (10, 2)]].
Proof.
  split.
  - apply sel_same_members; intros x Hx; simpl in *; intuition.
  - vm_compute. reflexivity.
Qed.

(** C06_sel_projection / C06_enum_calls_inside: the two sides are the same non-empty list here *)
Example ex_sel_projection :
  monos_sel [1] [] Hr Pr (node_ids Hr) (node_ids Pr) = monos_on (project [1] [] Hr) (project [1] [] Pr) (node_ids Hr) (node_ids Pr)
  /\ length (monos_sel [1] [] Hr Pr (node_ids Hr) (node_ids Pr)) = 1%nat
  /\ quick_pre_filter_sel [1; 2] Hr Pr 5000 = false.
Proof. vm_compute. repeat split; reflexivity. Qed.
