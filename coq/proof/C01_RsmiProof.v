(** C01 — proofs about the whole-string level (model/C01_Rsmi.v): str.split(">>") and its inverse, the failure modes of
    rsmi_to_graph / rsmi_to_its / its_to_rsmi, and the string round trip for the WHOLE reaction string relative to the
    RDKit contract of theorem C01_rsmi_pipeline_hydrogens plus "the writer never emits '>'". *)
From Coq Require Import List NArith ZArith Bool Lia Arith String Ascii.
From SK Require Import lib.LGraph lib.C01_GraphLemmas model.C01_Model model.C02_Model model.C01_String model.C01_CleanWc model.C01_Rsmi
  proof.C01_Proof proof.C01_StringProof proof.C01_StringPipe proof.C01_StringPipeH.
Import ListNotations.
Local Open Scope string_scope.

(** * split / join *)
Lemma split_arrow_cons2 c d r :
  split_arrow (String c (String d r)) = if is_gt c && is_gt d then EmptyString :: split_arrow r else cons_head c (split_arrow (String d r)).
Proof. reflexivity. Qed.
Lemma cons_head_nonempty c l : cons_head c l <> [].
Proof. destruct l; discriminate. Qed.

Lemma split_arrow_nonempty s : split_arrow s <> [].
Proof.
  destruct s as [|c [|d r]]; [discriminate|discriminate|]. rewrite split_arrow_cons2.
  destruct (is_gt c && is_gt d); [discriminate|apply cons_head_nonempty].
Qed.

Lemma join_cons_head c l : l <> [] -> join_arrow (cons_head c l) = String c (join_arrow l).
Proof. destruct l as [|h [|k t]]; [congruence| |]; intros _; reflexivity. Qed.

Lemma join_empty_head l : l <> [] -> join_arrow (EmptyString :: l) = String ">" (String ">" (join_arrow l)).
Proof. destruct l; [congruence|]. intros _. reflexivity. Qed.

Lemma is_gt_eq c : is_gt c = true -> c = ">"%char.
Proof. unfold is_gt. apply Ascii.eqb_eq. Qed.

(** ">>".join(s.split(">>")) == s, for every string *)
Lemma join_split_aux s : join_arrow (split_arrow s) = s /\ forall c, join_arrow (split_arrow (String c s)) = String c s.
Proof.
  induction s as [|d r [IH1 IH2]].
  - split; [reflexivity|]. intros c. reflexivity.
  - split; [apply IH2|]. intros c. rewrite split_arrow_cons2.
    destruct (is_gt c && is_gt d) eqn:E.
    + apply andb_true_iff in E. destruct E as [Ec Ed]. apply is_gt_eq in Ec, Ed. subst.
      rewrite join_empty_head by apply split_arrow_nonempty. rewrite IH1. reflexivity.
    + rewrite join_cons_head by apply split_arrow_nonempty. rewrite IH2. reflexivity.
Qed.
Theorem join_split s : join_arrow (split_arrow s) = s.
Proof. apply join_split_aux. Qed.

Lemma split_cons_notgt c r : is_gt c = false -> r <> EmptyString -> split_arrow (String c r) = cons_head c (split_arrow r).
Proof. intros E N. destruct r as [|d r]; [congruence|]. rewrite split_arrow_cons2. rewrite E. reflexivity. Qed.

Lemma split_no_gt b : has_gt b = false -> split_arrow b = [b].
Proof.
  induction b as [|c b IH]; [reflexivity|]. cbn [has_gt]. intros E. apply orb_false_iff in E. destruct E as [Ec Eb].
  destruct b as [|d b]; [reflexivity|]. rewrite split_cons_notgt by (auto; discriminate). rewrite (IH Eb). reflexivity.
Qed.

Lemma append_arrow_nonempty a b : (a ++ ">>" ++ b) <> EmptyString.
Proof. destruct a; cbn; discriminate. Qed.

(** a side without '>' is cut off exactly at the first ">>" *)
Lemma split_append a b : has_gt a = false -> split_arrow (a ++ ">>" ++ b) = a :: split_arrow b.
Proof.
  induction a as [|c a IH]; intros E.
  - reflexivity.
  - cbn [has_gt] in E. apply orb_false_iff in E. destruct E as [Ec Ea].
    change (String c a ++ ">>" ++ b) with (String c (a ++ ">>" ++ b)).
    rewrite split_cons_notgt by (auto using append_arrow_nonempty). rewrite (IH Ea). reflexivity.
Qed.

(** s.split(">>") of ">>".join(l) is l again when no part contains '>' *)
Theorem split_join l : l <> [] -> Forall (fun a => has_gt a = false) l -> split_arrow (join_arrow l) = l.
Proof.
  induction l as [|a l IH]; [congruence|]. intros _ F. inversion F as [|? ? Fa Fl]; subst.
  destruct l as [|b l].
  - cbn. apply split_no_gt. exact Fa.
  - change (join_arrow (a :: b :: l)) with (a ++ ">>" ++ join_arrow (b :: l)).
    rewrite split_append by exact Fa. rewrite IH by (auto; discriminate). reflexivity.
Qed.

Lemma rsmi_parts_join a b : has_gt a = false -> has_gt b = false -> rsmi_parts (a ++ ">>" ++ b) = Some (a, b).
Proof. intros Ea Eb. unfold rsmi_parts. rewrite split_append by exact Ea. rewrite split_no_gt by exact Eb. reflexivity. Qed.

Lemma rsmi_parts_spec s a b : rsmi_parts s = Some (a, b) -> s = a ++ ">>" ++ b.
Proof.
  unfold rsmi_parts. intros E. rewrite <- (join_split s).
  destruct (split_arrow s) as [|x [|y [|z t]]]; try discriminate. inversion E; subst. reflexivity.
Qed.

(** no part of a split contains ">>" *)
Fixpoint has_arrow (s : string) : bool :=
  match s with
  | EmptyString => false
  | String c r => match r with String d _ => (is_gt c && is_gt d) || has_arrow r | EmptyString => false end
  end.

Lemma has_arrow_cons_head c l : l <> [] -> Forall (fun p => has_arrow p = false) l ->
  (is_gt c && match hd EmptyString l with String d _ => is_gt d | EmptyString => false end = false) ->
  Forall (fun p => has_arrow p = false) (cons_head c l).
Proof.
  destruct l as [|h t]; [congruence|]. intros _ F E. inversion F; subst. cbn. constructor; [|assumption].
  cbn in E. destruct h as [|d h]; [reflexivity|]. cbn [has_arrow]. rewrite E. assumption.
Qed.

Lemma hd_split_gt d r : is_gt d = false \/ True ->
  match hd EmptyString (split_arrow (String d r)) with String x _ => is_gt x | EmptyString => false end = true -> is_gt d = true.
Proof.
  intros _. destruct r as [|e r]; [cbn; auto|]. rewrite split_arrow_cons2.
  destruct (is_gt d && is_gt e) eqn:E; [cbn; discriminate|].
  destruct (split_arrow (String e r)) as [|h t]; cbn; auto.
Qed.

Lemma split_parts_no_arrow_aux s :
  Forall (fun p => has_arrow p = false) (split_arrow s) /\ forall c, Forall (fun p => has_arrow p = false) (split_arrow (String c s)).
Proof.
  induction s as [|d r [IH1 IH2]].
  - split; [repeat constructor|]. intros c. repeat constructor.
  - split; [apply IH2|]. intros c. rewrite split_arrow_cons2.
    destruct (is_gt c && is_gt d) eqn:E.
    + constructor; [reflexivity|exact IH1].
    + apply has_arrow_cons_head; [apply split_arrow_nonempty|apply IH2|].
      destruct (is_gt c) eqn:Ec; [|reflexivity]. cbn in E. cbn [andb].
      destruct (match hd EmptyString (split_arrow (String d r)) with String x _ => is_gt x | EmptyString => false end) eqn:K; [|reflexivity].
      apply hd_split_gt in K; [congruence|auto].
Qed.
Theorem split_parts_no_arrow s : Forall (fun p => has_arrow p = false) (split_arrow s).
Proof. apply split_parts_no_arrow_aux. Qed.

(** * failure modes *)
Section Fail.
Variable rd_read : bool -> string -> option rmol.
Variable rd_write : bool -> wmol -> option string.

(** a string that does not split into exactly two parts: rsmi_to_graph returns (None, None), rsmi_to_its raises *)
Lemma rsmi_malformed o s : rsmi_parts s = None ->
  rsmi_to_graph_s rd_read (ro_drop o) (ro_san o) (ro_use o) s = (None, None) /\ rsmi_to_its_str rd_read o s = Raise.
Proof. intros E. unfold rsmi_to_its_str, rsmi_to_graph_s. rewrite E. split; reflexivity. Qed.

(** drop_non_aam without use_index_as_atom_map: both sides None whatever the string, rsmi_to_its raises *)
Lemma rsmi_drop_without_use san core eh s :
  rsmi_to_graph_s rd_read true san false s = (None, None) /\ rsmi_to_its_str rd_read (RO true san false core eh) s = Raise.
Proof.
  unfold rsmi_to_its_str, rsmi_to_graph_s, smiles_to_graph_s. cbn [ro_drop ro_san ro_use].
  destruct (rsmi_parts s) as [[a b]|]; [|split; reflexivity].
  assert (forall x, match rd_read san x with Some m => mol_to_graph true false m | None => None end = None) as K
    by (intros x; destruct (rd_read san x); reflexivity).
  rewrite !K. split; reflexivity.
Qed.

(** rsmi_to_its never returns None; its_to_rsmi without clean_wildcards never raises, with it never returns None *)
Lemma rsmi_to_its_not_none o s : rsmi_to_its_str rd_read o s <> RNone.
Proof. unfold rsmi_to_its_str. destruct (rsmi_to_graph_s rd_read (ro_drop o) (ro_san o) (ro_use o) s) as [[g|] [h|]]; discriminate. Qed.
Lemma its_to_rsmi_modes san eh J :
  its_to_rsmi_str rd_write san eh false J <> Raise /\ (forall cw, cw = true -> its_to_rsmi_str rd_write san eh cw J <> RNone).
Proof.
  unfold its_to_rsmi_str, clean_wc_s. split.
  - destruct (graph_to_rsmi_s _ _ _ _ _ _); discriminate.
  - intros cw ->. destruct (graph_to_rsmi_s _ _ _ _ _ _) as [s|]; [|discriminate]. destruct (rsmi_parts s) as [[a b]|]; discriminate.
Qed.
End Fail.

(** * the whole-string functions are the two-sided functions of model/C01_String.v around split and join *)
Section Lift.
Variable rd_read : bool -> string -> option rmol.
Variable rd_write : bool -> wmol -> option string.

Ltac case_matches :=
  repeat match goal with
         | H : context [match ?x with _ => _ end] |- _ => destruct x eqn:?; try discriminate
         | |- context [match ?x with _ => _ end] => destruct x eqn:?; try discriminate
         end.

Lemma rsmi_to_its_str_default s J :
  rsmi_to_its_str rd_read default_ropts s = Ok J <->
  exists a b, rsmi_parts s = Some (a, b) /\ rsmi_to_its_s (rd_read true) a b = Some J.
Proof.
  unfold rsmi_to_its_str, rsmi_to_graph_s, smiles_to_graph_s, rsmi_to_its_s, rsmi_to_its_m, rsmi_to_graph_m, default_ropts.
  cbn [ro_drop ro_san ro_use ro_core ro_eh].
  split.
  - intros E. destruct (rsmi_parts s) as [[a b]|]; [|discriminate]. exists a, b. split; [reflexivity|].
    case_matches. congruence.
  - intros (a & b & -> & E). case_matches. congruence.
Qed.

Lemma its_to_rsmi_str_plain eh J s' :
  its_to_rsmi_str rd_write true eh false J = Ok s' <->
  exists a b, its_to_rsmi_s_opt (rd_write true) eh J = Some (a, b) /\ s' = a ++ ">>" ++ b.
Proof.
  unfold its_to_rsmi_str, graph_to_rsmi_s, graph_to_smi_s, its_to_rsmi_s_opt, its_to_wmols_opt, its_to_graphs_opt, its_to_graphs.
  destruct eh; cbn [smi_graph fst snd].
  - split.
    + intros E. case_matches; eexists; eexists; (split; [reflexivity|congruence]).
    + intros (a & b & E & ->). case_matches; congruence.
  - split.
    + intros E. case_matches; eexists; eexists; (split; [reflexivity|congruence]).
    + intros (a & b & E & ->). case_matches; congruence.
Qed.

Lemma its_to_rsmi_s_is_opt (I : its) : its_to_rsmi_s (rd_write true) I = its_to_rsmi_s_opt (rd_write true) false I.
Proof. reflexivity. Qed.

(** ** the round trip of the WHOLE reaction string *)
Variable ok : mgraph -> Prop.

Theorem rsmi_string_roundtrip :
  (forall w s, rd_write true w = Some s -> has_gt s = false) ->
  R2 string (rd_read true) (rd_write true) ok ->
  forall s r p mr mp, rsmi_parts s = Some (r, p) -> rd_read true r = Some mr -> rd_read true p = Some mp -> rmol_ok mr -> rmol_ok mp ->
  let G := graph_of mr in let H := graph_of mp in
  wf G -> wf H -> same_nodes G H -> orders_pos G -> orders_pos H ->
  forall J s', rsmi_to_its_str rd_read default_ropts s = Ok J -> its_to_rsmi_str rd_write true false false J = Ok s' ->
  J = its_construct G H /\
  exists r' p', rsmi_parts s' = Some (r', p') /\
  exists mr' mp', rd_read true r' = Some mr' /\ rd_read true p' = Some mp' /\ rmol_ok mr' /\ rmol_ok mp' /\
                  geq_sel (graph_of mr') (smi_graph G (hlist J)) /\ geq_sel (graph_of mp') (smi_graph H (hlist J)).
Proof.
  intros W0 HR s r p mr mp Ps Rr Rp Okr Okp G H WG WH S PG PH J s' E1 E2.
  apply rsmi_to_its_str_default in E1. destruct E1 as (a & b & Pa & E1). rewrite Ps in Pa. inversion Pa; subst a b. clear Pa.
  apply its_to_rsmi_str_plain in E2. destruct E2 as (r' & p' & E2 & ->).
  destruct (rsmi_pipeline_hydrogens string (rd_read true) (rd_write true) ok HR r p mr mp Rr Rp Okr Okp WG WH S PG PH J r' p' E1 E2)
    as (EJ & mr' & mp' & K).
  split; [exact EJ|]. exists r', p'. split; [|exists mr', mp'; exact K].
  unfold its_to_rsmi_s_opt in E2. destruct (its_to_wmols_opt false J) as [[wr wp]|]; [|discriminate].
  destruct (rd_write true wr) as [x|] eqn:X; [|discriminate]. destruct (rd_write true wp) as [y|] eqn:Y; [|discriminate].
  inversion E2; subst. apply rsmi_parts_join; eapply W0; eauto.
Qed.

(** the same with the writer option explicit_hydrogen=True, relative to R1 *)
Theorem rsmi_string_roundtrip_explicit :
  (forall w s, rd_write true w = Some s -> has_gt s = false) ->
  R1 string (rd_read true) (rd_write true) ->
  forall s r p mr mp, rsmi_parts s = Some (r, p) -> rd_read true r = Some mr -> rd_read true p = Some mp -> rmol_ok mr -> rmol_ok mp ->
  let G := graph_of mr in let H := graph_of mp in
  wf G -> wf H -> same_nodes G H -> orders_pos G -> orders_pos H ->
  forall J s', rsmi_to_its_str rd_read default_ropts s = Ok J -> its_to_rsmi_str rd_write true true false J = Ok s' ->
  J = its_construct G H /\
  exists r' p', rsmi_parts s' = Some (r', p') /\
  exists mr' mp', rd_read true r' = Some mr' /\ rd_read true p' = Some mp' /\ rmol_ok mr' /\ rmol_ok mp' /\
                  geq_sel (graph_of mr') G /\ geq_sel (graph_of mp') H.
Proof.
  intros W0 HR s r p mr mp Ps Rr Rp Okr Okp G H WG WH S PG PH J s' E1 E2.
  apply rsmi_to_its_str_default in E1. destruct E1 as (a & b & Pa & E1). rewrite Ps in Pa. inversion Pa; subst a b. clear Pa.
  apply its_to_rsmi_str_plain in E2. destruct E2 as (r' & p' & E2 & ->).
  destruct (rsmi_pipeline_explicit string (rd_read true) (rd_write true) HR r p mr mp Rr Rp Okr Okp WG WH S PG PH J r' p' E1 E2)
    as (EJ & mr' & mp' & K).
  split; [exact EJ|]. exists r', p'. split; [|exists mr', mp'; exact K].
  unfold its_to_rsmi_s_opt in E2. destruct (its_to_wmols_opt true J) as [[wr wp]|]; [|discriminate].
  destruct (rd_write true wr) as [x|] eqn:X; [|discriminate]. destruct (rd_write true wp) as [y|] eqn:Y; [|discriminate].
  inversion E2; subst. apply rsmi_parts_join; eapply W0; eauto.
Qed.
End Lift.

(** * non-vacuity: the contracts transfer along any encoding of the abstract strings as real strings, so the reader/writer
    pair of C01_R1_nonvacuous / C01_R2_nonvacuous gives a pair over Coq strings that satisfies every premise *)
Section Transfer.
Variable A : Type.
Variable rdA : A -> option rmol.
Variable wrA : wmol -> option A.
Variable enc : A -> string.
Variable dec : string -> option A.
Hypothesis dec_enc : forall a, dec (enc a) = Some a.
Definition rd_of (s : string) : option rmol := match dec s with Some a => rdA a | None => None end.
Definition wr_of (w : wmol) : option string := option_map enc (wrA w).

Lemma R1_transfer : R1 A rdA wrA -> R1 string rd_of wr_of.
Proof.
  intros HR s0 m0 g w s Rd W Gq Am Gw Wr. unfold rd_of in Rd. destruct (dec s0) as [a0|] eqn:D; [|discriminate].
  unfold wr_of in Wr. destruct (wrA w) as [a|] eqn:Wa; [|discriminate]. inversion Wr; subst s.
  destruct (HR a0 m0 g w a Rd W Gq Am Gw Wa) as (m & Rm & K). exists m. split; [|exact K]. unfold rd_of. rewrite dec_enc. exact Rm.
Qed.

Lemma R2_transfer ok : R2 A rdA wrA ok -> R2 string rd_of wr_of ok.
Proof.
  intros (P1 & P2 & P3 & P4). split; [|split; [|split]].
  - intros s m Rd. unfold rd_of in Rd. destruct (dec s) as [a|]; [|discriminate]. eapply P1; eauto.
  - exact P2.
  - exact P3.
  - intros g w s Og W Am Gw Wr. unfold wr_of in Wr. destruct (wrA w) as [a|] eqn:Wa; [|discriminate]. inversion Wr; subst s.
    destruct (P4 g w a Og W Am Gw Wa) as (m & Rm & K). exists m. split; [|exact K]. unfold rd_of. rewrite dec_enc. exact Rm.
Qed.
End Transfer.

Definition ex_enc (b : bool) : string := if b then "R" else "P".
Definition ex_dec (s : string) : option bool := if String.eqb s "R" then Some true else if String.eqb s "P" then Some false else None.
Definition ex_sread (san : bool) (s : string) : option rmol := rd_of bool ex_read ex_dec s.
Definition ex_swrite (san : bool) (w : wmol) : option string := wr_of bool ex_write ex_enc w.

Example C01_split_nonvacuous :
  split_arrow "A.B>>C" = ["A.B"; "C"] /\ split_arrow "A>B>C" = ["A>B>C"] /\ split_arrow "A>>>B" = ["A"; ">B"] /\
  split_arrow "A>>B>>C" = ["A"; "B"; "C"] /\ split_arrow "" = [""] /\ split_arrow ">>" = [""; ""] /\
  rsmi_parts "A>>B>>C" = None /\ rsmi_parts "A>B>C" = None /\ rsmi_parts ">>" = Some ("", "").
Proof. repeat split; reflexivity. Qed.

Example C01_rsmi_string_nonvacuous :
  (forall w s, ex_swrite true w = Some s -> has_gt s = false) /\
  R2 string (ex_sread true) (ex_swrite true) ex_ok /\ R1 string (ex_sread true) (ex_swrite true) /\
  rsmi_parts "R>>P" = Some ("R", "P") /\ ex_sread true "R" = Some ex_mr /\ ex_sread true "P" = Some ex_mp /\
  exists J, rsmi_to_its_str ex_sread default_ropts "R>>P" = Ok J /\
            its_to_rsmi_str ex_swrite true false false J = Ok "R>>P" /\ its_to_rsmi_str ex_swrite true true false J = Ok "R>>P" /\
            its_to_rsmi_str ex_swrite true false true J = Ok "R>>P".
Proof.
  assert (forall a, ex_dec (ex_enc a) = Some a) as DE by (intros [|]; reflexivity).
  split; [|split; [|split]].
  - intros w s E. unfold ex_swrite, wr_of, ex_write in E. cbn in E. inversion E. destruct (existsb _ _); reflexivity.
  - apply R2_transfer; [exact DE|exact C01_R2_nonvacuous].
  - apply R1_transfer; [exact DE|apply C01_R1_nonvacuous].
  - split; [reflexivity|]. split; [reflexivity|]. split; [reflexivity|].
    eexists. split; [reflexivity|]. split; [vm_compute; reflexivity|]. split; vm_compute; reflexivity.
Qed.

Example C01_rsmi_fail_nonvacuous :
  rsmi_to_its_str ex_sread default_ropts "R>P" = Raise /\ rsmi_to_its_str ex_sread default_ropts "R>>X" = Raise /\
  rsmi_to_graph_s ex_sread true true true "R>>X" = (Some (graph_of ex_mr), None) /\
  clean_wc_s "R" = Raise.
Proof. repeat split; reflexivity. Qed.
