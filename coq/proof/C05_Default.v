(** C05 — part 14: the DEFAULT configuration (explicit_h=True, implicit_temp=False) for templates without hydrogen atoms:
    rule preparation is a pointwise function of the template ([default_rc]: hydrogen counts reset, empty h_pairs), the
    pattern has no explicit X-H bond, and the _explicit_h stage leaves every glued graph as it is (no hydrogen pairs, no
    migration).  Hence the whole [pipeline ... explicit_stage := true] is covered by the invariance theorems. *)
From Coq Require Import List NArith ZArith Bool Arith Lia Permutation.
From SK Require Import lib.Tok lib.LGraph lib.Mono.
From SK Require Import model.C03_Model proof.C03_Spec proof.C03_Proof proof.C03_Glue proof.C03_Iso proof.C03_Backward proof.C03_Default.
From SK Require Import model.C05_Model proof.C05_Proof proof.C05_Glue proof.C05_Pipe proof.C05_Prep proof.C05_Order proof.C05_PrepOrder.
Import ListNotations.
Local Open Scope Z_scope.

Section WithThr.
Context {TH : Thr}.


(** no hydrogen atom on either side *)
Definition noHb (T : its) : bool :=
  forallb (fun p => negb (N.eqb (a_el (iG (snd p))) EL_H) && negb (N.eqb (a_el (iH (snd p))) EL_H)) (gnodes T).

Definition left_default (T : its) : molg := init_m (dec_side iG eG (standardize_hydrogen T)).
Definition right_default (T : its) : molg := init_m (dec_side iH eH (standardize_hydrogen T)).

(** [C03_Default.synrule_default_noH] with its witnesses made explicit (same proof) *)
Lemma synrule_default_explicit (tpl : its) :
  nodupb (node_ids tpl) = true -> noHb tpl = true ->
  synrule tpl true = Some (default_rc tpl, left_default tpl, right_default tpl).
Proof.
  intros Hnd Hno. unfold noHb in Hno. apply nodupb_NoDup in Hnd. rewrite forallb_forall in Hno.
  assert (HG : forall k a, In (k, a) (gnodes tpl) -> N.eqb (a_el (iG a)) EL_H = false /\ N.eqb (a_el (iH a)) EL_H = false).
  { intros k a I. specialize (Hno _ I). simpl in Hno. apply andb_prop in Hno. destruct Hno as [H1 H2].
    apply negb_true_iff in H1, H2. auto. }
  unfold left_default, right_default, synrule. cbn [negb]. set (rc0 := standardize_hydrogen tpl).
  assert (Hrc0 : forall k a, In (k, a) (gnodes rc0) -> exists a0, In (k, a0) (gnodes tpl) /\ a = std_h_node a0).
  { intros k a I. apply in_map_nodes in I. exact I. }
  unfold its_decompose. set (l0 := dec_side iG eG rc0). set (r0 := dec_side iH eH rc0).
  unfold strip_explicit_h. cbn [fst snd].
  assert (HL : h_nodes_m (init_m l0) = []).
  { apply h_nodes_m_nil. intros k a I. apply in_map_nodes in I. destruct I as (a1 & I & ->). simpl.
    unfold l0, dec_side in I; simpl in I. apply in_map_iff in I. destruct I as ([k2 a2] & E & I). inversion E; subst.
    destruct (Hrc0 _ _ I) as (a0 & I0 & ->). simpl. exact (proj1 (HG _ _ I0)). }
  assert (HR : h_nodes_m (init_m r0) = []).
  { apply h_nodes_m_nil. intros k a I. apply in_map_nodes in I. destruct I as (a1 & I & ->). simpl.
    unfold r0, dec_side in I; simpl in I. apply in_map_iff in I. destruct I as ([k2 a2] & E & I). inversion E; subst.
    destruct (Hrc0 _ _ I) as (a0 & I0 & ->). simpl. exact (proj2 (HG _ _ I0)). }
  assert (HI : h_nodes_i (init_i rc0) = []).
  { apply h_nodes_i_nil. intros k a I. apply in_map_nodes in I. destruct I as (a1 & I & ->). simpl.
    destruct (Hrc0 _ _ I) as (a0 & I0 & ->). simpl. exact (proj1 (HG _ _ I0)). }
  unfold shared_h. rewrite HL. cbn [fold_right sort_N]. unfold strip_shared. cbn [fold_left fst].
  unfold step3_rc. cbn [fst snd]. rewrite HI. cbn [fold_left].
  unfold step3_l. cbn [fst snd]. rewrite HL. cbn [fold_left].
  unfold step3_r. cbn [fst snd]. rewrite HR. cbn [fold_left].
  assert (E : refresh_types (init_i rc0) (init_m l0) (init_m r0) = Some (default_rc tpl)); [|rewrite E; reflexivity].
  unfold refresh_types.
  match goal with |- context [fold_right ?f _ _] => set (F := f) end.
  assert (H : forall ns, (forall k a, In (k, a) ns -> label tpl k = Some a) ->
            fold_right F (Some []) (map (fun p => (fst p, (fun a => IN (iG (std_h_node a)) (iH (std_h_node a)) 0
                                       (if N.eqb (a_el (iG (std_h_node a))) EL_H then i_hp (std_h_node a) else hp_default (i_hp (std_h_node a)))) (snd p))) ns)
            = Some (map (fun p => (fst p, strip0 (snd p))) ns)).
  { induction ns as [|[k a] r IH]; intros Hall; [reflexivity|].
    cbn [map fold_right fst snd]. rewrite IH by (intros; apply Hall; right; assumption).
    pose proof (Hall k a (or_introl eq_refl)) as Hk.
    unfold F, label, init_m, map_nodes, l0, r0, dec_side, rc0, standardize_hydrogen, map_nodes in *. cbn [fst snd gnodes].
    rewrite !map_map. cbn [fst snd].
    rewrite (assoc_map (fun a0 => MN (m_el (dec_node (iG (std_h_node a0)))) (m_aro (dec_node (iG (std_h_node a0)))) 0 (m_ch (dec_node (iG (std_h_node a0))))
                                   (if N.eqb (m_el (dec_node (iG (std_h_node a0)))) EL_H then m_hp (dec_node (iG (std_h_node a0))) else hp_default (m_hp (dec_node (iG (std_h_node a0))))))).
    rewrite (assoc_map (fun a0 => MN (m_el (dec_node (iH (std_h_node a0)))) (m_aro (dec_node (iH (std_h_node a0)))) 0 (m_ch (dec_node (iH (std_h_node a0))))
                                   (if N.eqb (m_el (dec_node (iH (std_h_node a0)))) EL_H then m_hp (dec_node (iH (std_h_node a0))) else hp_default (m_hp (dec_node (iH (std_h_node a0))))))).
    rewrite Hk. cbn [option_map m_hc]. f_equal. f_equal. f_equal.
    unfold strip0, std_h_node. cbn [iG iH i_hp a_el set_hc a_aro a_ch a_nb].
    assert (Ik : In (k, a) (gnodes tpl)) by (apply assoc_in; exact Hk).
    rewrite (proj1 (HG k a Ik)). unfold hp_default. destruct (i_hp a); reflexivity. }
  unfold init_i, map_nodes, rc0, standardize_hydrogen, map_nodes. cbn [gnodes gedges]. rewrite map_map. cbn [fst snd].
  rewrite H; [reflexivity|]. intros k a I. apply assoc_nodup_in; assumption.
Qed.

Lemma label_map_nodes {A B} (g : lgraph A B) (f : A -> A) u : label (map_nodes g (fun _ => f)) u = option_map f (label g u).
Proof.
  unfold label, map_nodes; simpl. induction (gnodes g) as [|[k a] r IH]; simpl; [reflexivity|].
  destruct (N.eqb u k); [reflexivity | exact IH].
Qed.

Lemma left_default_label (T : its) u :
  label (left_default T) u = option_map (fun a : inode => MN (a_el (iG a)) (a_aro (iG a)) 0 (a_ch (iG a)) (if N.eqb (a_el (iG a)) EL_H then None else Some [])) (label T u).
Proof.
  unfold left_default, init_m. rewrite (label_map_nodes _ (fun a : mnode => MN (m_el a) (m_aro a) 0 (m_ch a) (if N.eqb (m_el a) EL_H then m_hp a else hp_default (m_hp a)))).
  unfold label at 1. rewrite dec_gnodes, (assoc_map (fun a => dec_node (iG a))).
  change (assoc u (gnodes (standardize_hydrogen T))) with (label (standardize_hydrogen T) u).
  unfold standardize_hydrogen. rewrite (label_map_nodes T std_h_node).
  destruct (label T u) as [a|]; [|reflexivity]. simpl. destruct (N.eqb (a_el (iG a)) EL_H); reflexivity.
Qed.

Lemma noH_isH (T : its) : NoDup (node_ids T) -> noHb T = true -> forall u, is_H_m (left_default T) u = false.
Proof.
  intros Hnd Hno u. unfold is_H_m. rewrite left_default_label. destruct (label T u) as [a|] eqn:E; [|reflexivity]. simpl.
  unfold noHb in Hno. rewrite forallb_forall in Hno. unfold label in E. apply assoc_in in E. specialize (Hno _ E). simpl in Hno.
  apply andb_prop in Hno. destruct Hno as [H1 _]. apply negb_true_iff in H1. exact H1.
Qed.

Lemma noH_has_XH (T : its) : NoDup (node_ids T) -> noHb T = true -> has_XH (left_default T) = false.
Proof.
  intros Hnd Hno. unfold has_XH. apply not_true_iff_false. intros H. apply existsb_exists in H.
  destruct H as ([[u v] x] & _ & Hx). rewrite !(noH_isH T Hnd Hno) in Hx. discriminate.
Qed.

Lemma invert_noH (T : its) : noHb (invert_template T) = noHb T.
Proof.
  unfold noHb. rewrite invert_gnodes. induction (gnodes T) as [|[k a] r IH]; simpl; [reflexivity|].
  rewrite IH. f_equal. apply andb_comm.
Qed.

(** ** the prepared rule of the default mode, explicitly *)
Definition prep_default (inv : bool) (T : its) : prepared :=
  let U := if inv then invert_template T else T in
  Prep (default_rc U) (left_default U) (right_default U) false (left_default U).

Lemma prepare_default inv (T : its) : nodupb (node_ids T) = true -> noHb T = true ->
  prepare inv false T = Some (prep_default inv T).
Proof.
  intros Hnd Hno. unfold prepare, prep_default. change (negb false) with true.
  set (U := if inv then invert_template T else T).
  assert (HU : nodupb (node_ids U) = true) by (unfold U; destruct inv; [rewrite invert_ids|]; exact Hnd).
  assert (HN : noHb U = true) by (unfold U; destruct inv; [rewrite invert_noH|]; exact Hno).
  rewrite (synrule_default_explicit U HU HN).
  rewrite (noH_has_XH U (nodupb_NoDup _ HU) HN). reflexivity.
Qed.

(** ** renumbering *)
Lemma map_nodes_relabel {A B} (sg : N -> N) (g : lgraph A B) (f : A -> A) :
  map_nodes (relabel sg g) (fun _ => f) = relabel sg (map_nodes g (fun _ => f)).
Proof. unfold map_nodes, relabel; simpl. rewrite !map_map. reflexivity. Qed.

Lemma default_rc_map (T : its) : default_rc T = map_nodes T (fun _ => strip0).
Proof. reflexivity. Qed.

Lemma prep_default_relabel_core sg (U : its) :
  Prep (default_rc (relabel sg U)) (left_default (relabel sg U)) (right_default (relabel sg U)) false (left_default (relabel sg U))
  = relabel_prep sg (Prep (default_rc U) (left_default U) (right_default U) false (left_default U)).
Proof.
  unfold relabel_prep. cbn [p_rc p_l p_r p_flag p_pat].
  assert (EL : forall sn se, init_m (dec_side sn se (standardize_hydrogen (relabel sg U))) = relabel sg (init_m (dec_side sn se (standardize_hydrogen U)))).
  { intros sn se. unfold standardize_hydrogen, init_m. rewrite (map_nodes_relabel sg U std_h_node), dec_side_relabel.
    apply (map_nodes_relabel sg (dec_side sn se (map_nodes U (fun _ => std_h_node)))
             (fun a : mnode => MN (m_el a) (m_aro a) 0 (m_ch a) (if N.eqb (m_el a) EL_H then m_hp a else hp_default (m_hp a)))). }
  assert (ER : default_rc (relabel sg U) = relabel sg (default_rc U))
    by (unfold default_rc, relabel; simpl; rewrite !map_map; reflexivity).
  unfold left_default, right_default. rewrite !EL, ER. reflexivity.
Qed.

Lemma prep_default_relabel sg (Hs : inj sg) inv (T : its) : prep_default inv (relabel sg T) = relabel_prep sg (prep_default inv T).
Proof.
  unfold prep_default. destruct inv; cbv zeta.
  - rewrite invert_template_relabel. apply prep_default_relabel_core.
  - apply prep_default_relabel_core.
Qed.

(** ** re-ordering *)
Lemma map_nodes_same {A B} (g g' : lgraph A B) (f : A -> A) :
  same_graph g g' -> same_graph (map_nodes g (fun _ => f)) (map_nodes g' (fun _ => f)).
Proof.
  intros (L & Ad & Ids & N1 & N2).
  assert (Eids : forall h : lgraph A B, node_ids (map_nodes h (fun _ => f)) = node_ids h)
    by (intros h; unfold node_ids, map_nodes; simpl; rewrite map_map; reflexivity).
  split; [|split; [|split; [|split]]].
  - intros u. rewrite !label_map_nodes, L. reflexivity.
  - intros u v. exact (Ad u v).
  - intros u. rewrite !Eids. apply Ids.
  - rewrite Eids. exact N1.
  - rewrite Eids. exact N2.
Qed.

Lemma prep_default_same inv (T T' : its) : same_graph T T' ->
  simple_edgesb (gedges T) = true -> simple_edgesb (gedges T') = true ->
  same_graph (p_rc (prep_default inv T)) (p_rc (prep_default inv T')) /\
  same_graph (p_pat (prep_default inv T)) (p_pat (prep_default inv T')).
Proof.
  intros HS Hw Hw'. unfold prep_default. cbn [p_rc p_pat].
  set (U := if inv then invert_template T else T). set (U' := if inv then invert_template T' else T').
  assert (HSU : same_graph U U') by (unfold U, U'; destruct inv; [apply invert_same; assumption | exact HS]).
  assert (HwU : simple_edgesb (gedges U) = true).
  { unfold U. destruct inv; [|exact Hw]. unfold invert_template; simpl.
    exact (simple_flat_sub (fun x => (0 <? eH x) || (0 <? eG x))
             (fun x => let g := if 0 <? eH x then eH x else 0 in let h := if 0 <? eG x then eG x else 0 in (g, h, g - h)) (gedges T) Hw). }
  assert (HwU' : simple_edgesb (gedges U') = true).
  { unfold U'. destruct inv; [|exact Hw']. unfold invert_template; simpl.
    exact (simple_flat_sub (fun x => (0 <? eH x) || (0 <? eG x))
             (fun x => let g := if 0 <? eH x then eH x else 0 in let h := if 0 <? eG x then eG x else 0 in (g, h, g - h)) (gedges T') Hw'). }
  split.
  - rewrite !default_rc_map. apply map_nodes_same. exact HSU.
  - unfold left_default, init_m. apply map_nodes_same.
    apply dec_side_same; [unfold standardize_hydrogen; apply map_nodes_same; exact HSU | exact HwU | exact HwU'].
Qed.

(** ** the _explicit_h stage does nothing when no atom carries a hydrogen pair *)
Definition nohp (T : its) : Prop := forall k a, In (k, a) (gnodes T) -> i_hp a = None \/ i_hp a = Some [].

Lemma pair_to_nodes_nohp (T : its) : nohp T -> pair_to_nodes T = [].
Proof.
  unfold nohp, pair_to_nodes. intros H.
  assert (G : forall ns pt, (forall k a, In (k, a) ns -> i_hp a = None \/ i_hp a = Some []) ->
          fold_left (fun pt (p : N * inode) =>
                       fold_left (fun pt' pid => pt_add pt' pid (fst p)) (match i_hp (snd p) with Some l => l | None => [] end) pt) ns pt = pt).
  { induction ns as [|[k a] r IH]; intros pt Hall; simpl; [reflexivity|].
    destruct (Hall k a (or_introl eq_refl)) as [E|E]; rewrite E; simpl; apply IH; intros; eapply Hall; right; eassumption. }
  apply G. exact H.
Qed.

Lemma explicit_h_nohp (T : its) : nohp T -> explicit_h T = Some (T, []).
Proof.
  intros H. unfold explicit_h, all_migrations. rewrite (pair_to_nodes_nohp T H). reflexivity.
Qed.

Lemma nohp_upd (T : its) h (f : inode -> inode) :
  nohp T -> (forall a, i_hp a = None \/ i_hp a = Some [] -> i_hp (f a) = None \/ i_hp (f a) = Some []) -> nohp (upd_node T h f).
Proof.
  intros H Hf k a I. unfold upd_node in I; simpl in I. apply in_map_iff in I. destruct I as ([k0 a0] & E & I).
  simpl in E. destruct (N.eqb k0 h); inversion E; subst; [apply Hf|]; eapply H; eassumption.
Qed.

Lemma glue_nodes_nohp (rc : its) (m : mapping) : nohp rc -> forall T, nohp T -> nohp (glue_nodes T rc m).
Proof.
  intros Hrc. unfold glue_nodes. induction m as [|[p h] r IH]; intros T HT; simpl; [exact HT|].
  destruct (label rc p) as [pn|] eqn:E; [|apply IH; exact HT].
  destruct (has_node T h); [|apply IH; exact HT].
  apply IH. apply nohp_upd; [exact HT|]. intros a Ha. unfold node_glue; simpl.
  unfold label in E. apply assoc_in in E. destruct (Hrc p pn E) as [E1|E1]; rewrite E1; [exact Ha | right; reflexivity].
Qed.

Lemma its_of_host_nohp (host : hostg) : nohp (its_of_host host).
Proof.
  intros k a I. unfold its_of_host in I; simpl in I. apply in_map_iff in I. destruct I as ([k0 a0] & E & _). inversion E; subst. left; reflexivity.
Qed.

Lemma glue_nohp host rc m T : nohp rc -> glue host rc m = Some T -> nohp T.
Proof.
  intros Hrc Hg. unfold glue in Hg. intros k a I. rewrite (fold_glue_nodes _ _ _ _ Hg) in I.
  exact (glue_nodes_nohp rc m Hrc (its_of_host host) (its_of_host_nohp host) k a I).
Qed.

Lemma default_rc_nohp (U : its) : (forall k a, In (k, a) (gnodes U) -> i_hp a = None \/ i_hp a = Some []) -> nohp (default_rc U).
Proof.
  intros H k a I. unfold default_rc in I; simpl in I. apply in_map_iff in I. destruct I as ([k0 a0] & E & I). inversion E; subst.
  unfold strip0; simpl. right. destruct (H k a0 I) as [E1|E1]; rewrite E1; reflexivity.
Qed.

Lemma invert_nohp (T : its) : nohp (invert_template T).
Proof.
  intros k a I. rewrite invert_gnodes in I. apply in_map_iff in I. destruct I as ([k0 a0] & E & _). inversion E; subst. left; reflexivity.
Qed.

(** in the default configuration with a hydrogen-free template the result list is the list of glued graphs *)
Lemma results_default strat host inv (T : its) : nohp T ->
  results_of true strat host (prep_default inv T) = Some (glued_of strat host (prep_default inv T)).
Proof.
  intros HT. unfold results_of.
  assert (Hrc : nohp (p_rc (prep_default inv T))).
  { unfold prep_default; cbn [p_rc]. apply default_rc_nohp. destruct inv; [apply invert_nohp | exact HT]. }
  assert (Hall : forall G, In G (glued_of strat host (prep_default inv T)) -> nohp G).
  { intros G HG. unfold glued_of in HG. apply in_flat_map in HG. destruct HG as (k & _ & HG).
    unfold glue_all, glue_base in HG.
    assert (Hf : p_flag (prep_default inv T) = false) by reflexivity. rewrite Hf in HG. cbn [flat_map app] in HG.
    destruct (glue host (p_rc (prep_default inv T)) k) as [G0|] eqn:E; [|destruct HG].
    cbn [app] in HG. destruct HG as [<-|[]]. exact (glue_nohp _ _ _ _ Hrc E). }
  induction (glued_of strat host (prep_default inv T)) as [|G r IH]; simpl; [reflexivity|].
  rewrite (explicit_h_nohp G (Hall G (or_introl eq_refl))), IH; [reflexivity|]. intros G' I. apply Hall. right. exact I.
Qed.

End WithThr.
