(** C08 — specification vocabulary used by the theorem statements (definitions only). *)
From Coq Require Import List NArith ZArith Bool Arith Permutation.
From SK Require Import lib.LGraph lib.IRCore lib.StrJoin model.C08_Model.
Import ListNotations.

Definition inj_on (f : N -> N) (l : list N) : Prop := forall x y, In x l -> In y l -> f x = f y -> x = y.

(** [cg] is [g] relabelled by a map that is injective on the nodes of [g]; [relabel] keeps every node and
    edge attribute record unchanged, so "all attributes preserved" is part of the statement.
    Node lists are compared up to order (networkx insertion order is not part of the property). *)
Definition faithful (g cg : graph) : Prop :=
  exists f, inj_on f (node_ids g) /\ Permutation (gnodes cg) (gnodes (relabel f g)) /\ gedges cg = gedges (relabel f g).

(** the canonical node ids are exactly 1..N *)
Definition onto_1N (g cg : graph) : Prop :=
  Permutation (node_ids cg) (map N.of_nat (seq 1 (length (gnodes g)))).

(** well-formed simple undirected graph (lib/LGraph.v): distinct node ids, edges join two distinct nodes,
    at most one edge per unordered pair — what a networkx.Graph without self-loops always is *)
Definition wfg (g : graph) : Prop := wf g.

(** element symbols: ASCII letters, digits, '*' (no quote, separator or bracket characters) *)
Definition elc (c : N) : bool :=
  ((48 <=? c) && (c <=? 57) || (65 <=? c) && (c <=? 90) || (97 <=? c) && (c <=? 122) || (c =? 42))%N.
Definition el_ok (s : str) : Prop := forallb elc s = true.
Definition els_ok (g : graph) : Prop := forall p, In p (gnodes g) -> el_ok (el (snd p)).

(** the attributes the signature covers: (element, charge, aromatic, hcount) and (order, standard_order);
    a missing standard_order is rendered differently from 0.0 by the signature and by the nauty label, so
    presence is part of the covered value *)
Definition ncov (a : nattr) : list N * Z * bool * Z := (el a, ch a, ar a, hc a).
(* (order, after-order of a tuple-valued order or None, standard_order or None) *)
Definition ecv : Type := (Z * option Z * option Z)%type.
Definition ecov (a : eattr) : ecv := (eo a, et a, es a).
Definition covn (p : N * nattr) : N * (list N * Z * bool * Z) := (fst p, ncov (snd p)).
Definition cove (e : N * N * eattr) : N * N * ecv := let '(u, v, a) := e in (N.min u v, N.max u v, ecov a).
Definition cov_nodes (g : graph) : list (N * (list N * Z * bool * Z)) := map covn (gnodes g).
Definition cov_edges (g : graph) : list (N * N * ecv) := map cove (gedges g).
(** same graph on the covered attributes: same labelled node set, same labelled set of unordered edges *)
Definition geq_cov (g h : graph) : Prop :=
  Permutation (cov_nodes g) (cov_nodes h) /\ Permutation (cov_edges g) (cov_edges h).
(** isomorphic on the covered attributes *)
Definition iso_cov (g h : graph) : Prop :=
  exists f, inj_on f (node_ids g) /\ geq_cov (relabel f g) h.

(** the same abstract graph presented with other insertion order / edge orientation (all attributes) *)
Definition flip (e : N * N * eattr) : N * N * eattr := let '(u, v, a) := e in (N.min u v, N.max u v, a).
Definition geq (g h : graph) : Prop :=
  Permutation (gnodes g) (gnodes h) /\ Permutation (map flip (gedges g)) (map flip (gedges h)).

