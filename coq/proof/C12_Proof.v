(** C12 -- proofs about the model of MCSMatcher (model/C12_Model.v): find_common_subgraph / get_mappings
    (orientation swap, wildcard pruning, the three directions) and the MTG copy, on top of proof/C12_Search.v. *)
From Coq Require Import List NArith ZArith Bool Arith Lia Permutation.
From SK Require Import lib.LGraph lib.Mono lib.C12_MonoPw model.C12_Model proof.C12_Search.
Import ListNotations.

(* ------------------------------------------------------------------ inversion of mappings *)
Lemma invert_involutive m : invert_mapping (invert_mapping m) = m.
Proof.
  unfold invert_mapping. rewrite map_map. simpl.
  induction m as [|[a b] r IH]; simpl; [reflexivity|]. now rewrite IH.
Qed.

Lemma in_invert a b m : In (a, b) (invert_mapping m) <-> In (b, a) m.
Proof.
  unfold invert_mapping. rewrite in_map_iff. split.
  - intros ([x y] & E & I). simpl in E. inversion E; subst. exact I.
  - intros I. exists (b, a). split; [reflexivity|exact I].
Qed.

Lemma map_fst_invert m : map fst (invert_mapping m) = map snd m.
Proof. unfold invert_mapping. rewrite map_map. reflexivity. Qed.
Lemma map_snd_invert m : map snd (invert_mapping m) = map fst m.
Proof. unfold invert_mapping. rewrite map_map. reflexivity. Qed.
Lemma invert_length m : length (invert_mapping m) = length m.
Proof. apply map_length. Qed.

Lemma map_invert_involutive (l : list mapping) : map invert_mapping (map invert_mapping l) = l.
Proof. rewrite map_map. rewrite <- (map_id l) at 2. apply map_ext. apply invert_involutive. Qed.

(* ------------------------------------------------------------------ the matchers are symmetric *)
Lemma attrs_match_sym defs : forall h p, attrs_match defs h p = attrs_match defs p h.
Proof.
  induction defs as [|d ds IH]; intros [|a hs] [|b ps]; simpl; try reflexivity.
  now rewrite N.eqb_sym, IH.
Qed.

Lemma node_match_sym defs h p : node_match defs h p = node_match defs p h.
Proof. destruct h as [[? ?]|], p as [[? ?]|]; simpl; auto using attrs_match_sym. Qed.

Lemma edge_match_sym : forall h p, edge_match h p = edge_match p h.
Proof.
  induction h as [|hv hs IH]; intros [|pv ps]; simpl; try reflexivity.
  destruct hv, pv; try reflexivity; [now rewrite Z.eqb_sym, IH|apply IH].
Qed.

Lemma edge_match_mtg_sym h p : edge_match_mtg h p = edge_match_mtg p h.
Proof. destruct h as [|[a|] ?], p as [|[b|] ?]; simpl; try reflexivity. apply Z.eqb_sym. Qed.

(* ------------------------------------------------------------------ common_induced is symmetric under inversion *)
Section Invert.
Variable nm : option nattr -> option nattr -> bool.
Variable em : eattr -> eattr -> bool.
Hypothesis nm_sym : forall a b, nm a b = nm b a.
Hypothesis em_sym : forall a b, em a b = em b a.

Lemma ci_invert ga gb m : common_induced nm em ga gb m -> common_induced nm em gb ga (invert_mapping m).
Proof.
  intros (H1 & H2 & H3 & H4). split; [now rewrite map_fst_invert|]. split; [now rewrite map_snd_invert|]. split.
  - intros p h I. apply (proj1 (in_invert _ _ _)) in I. destruct (H3 h p I) as (Ha & Hb & Hn). rewrite nm_sym. auto.
  - intros p h p' h' I I' Hp. apply (proj1 (in_invert _ _ _)) in I. apply (proj1 (in_invert _ _ _)) in I'.
    assert (Hh : h <> h').
    { intros ->. apply Hp. pose proof (NoDup_map_fst_eq m (h', p) (h', p') H1 I I' eq_refl) as E. now inversion E. }
    specialize (H4 h p h' p' I I' Hh).
    destruct (LGraph.adj ga h h'), (LGraph.adj gb p p'); auto. now rewrite em_sym.
Qed.

(** what [search_mcs_spec] / [search_all_spec] say, as predicates on (graph a, graph b, result list, size) *)
Definition MaxSpec (ga gb : graph) (maps : list mapping) (last : nat) : Prop :=
  (forall m, In m maps -> common_induced nm em ga gb m /\ length m = last) /\
  (forall m, common_induced nm em ga gb m -> length m <= last) /\
  (forall m, common_induced nm em ga gb m -> length m = last -> 1 <= last ->
             exists m', In m' maps /\ Permutation m m') /\
  (maps = [] <-> last = 0).

Definition AllSpec (ga gb : graph) (maps : list mapping) : Prop :=
  (forall m, In m maps -> common_induced nm em ga gb m /\ 1 <= length m) /\
  (forall m, common_induced nm em ga gb m -> 1 <= length m -> exists m', In m' maps /\ Permutation m m').

Lemma perm_invert m m' : Permutation (invert_mapping m) m' -> Permutation m (invert_mapping m').
Proof.
  intros P. rewrite <- (invert_involutive m). unfold invert_mapping at 1 3. now apply Permutation_map.
Qed.

Lemma MaxSpec_invert ga gb maps last : MaxSpec ga gb maps last -> MaxSpec gb ga (map invert_mapping maps) last.
Proof.
  intros (S1 & S2 & S3 & S4). split; [|split; [|split]].
  - intros m I. apply in_map_iff in I. destruct I as (m0 & <- & I0). destruct (S1 m0 I0) as (Hc & Hl).
    split; [now apply ci_invert|now rewrite invert_length].
  - intros m Hm. rewrite <- invert_length. apply S2. now apply ci_invert.
  - intros m Hm Hl H1. destruct (S3 (invert_mapping m) (ci_invert _ _ _ Hm)) as (m' & I' & P); [now rewrite invert_length|exact H1|].
    exists (invert_mapping m'). split; [now apply in_map|now apply perm_invert].
  - rewrite <- S4. split; [intros E; now apply map_eq_nil in E|intros ->; reflexivity].
Qed.

Lemma AllSpec_invert ga gb maps : AllSpec ga gb maps -> AllSpec gb ga (map invert_mapping maps).
Proof.
  intros (S1 & S2). split.
  - intros m I. apply in_map_iff in I. destruct I as (m0 & <- & I0). destruct (S1 m0 I0) as (Hc & Hl).
    split; [now apply ci_invert|now rewrite invert_length].
  - intros m Hm Hl. destruct (S2 (invert_mapping m) (ci_invert _ _ _ Hm)) as (m' & I' & P); [now rewrite invert_length|].
    exists (invert_mapping m'). split; [now apply in_map|now apply perm_invert].
Qed.

(** a result exists iff some pair of atoms matches *)
Lemma ci_single ga gb p h : In p (node_ids ga) -> In h (node_ids gb) -> nm (label gb h) (label ga p) = true ->
  common_induced nm em ga gb [(p, h)].
Proof.
  intros Hp Hh Hn. split; [repeat constructor; intros []|]. split; [repeat constructor; intros []|]. split.
  - intros p0 h0 [E|[]]. inversion E; subst. auto.
  - intros p0 h0 p1 h1 [E|[]] [E'|[]] Hne. inversion E; inversion E'; subst. now elim Hne.
Qed.

Lemma ci_pair_matches ga gb m : common_induced nm em ga gb m -> 1 <= length m ->
  exists p h, In p (node_ids ga) /\ In h (node_ids gb) /\ nm (label gb h) (label ga p) = true.
Proof.
  intros (_ & _ & H3 & _) Hl. destruct m as [|[p h] r]; [simpl in Hl; lia|].
  exists p, h. apply H3. now left.
Qed.

Lemma MaxSpec_nonempty ga gb maps last : MaxSpec ga gb maps last ->
  (maps <> [] <-> exists p h, In p (node_ids ga) /\ In h (node_ids gb) /\ nm (label gb h) (label ga p) = true).
Proof.
  intros (S1 & S2 & S3 & S4). split.
  - intros Hne. destruct maps as [|m r]; [now elim Hne|]. destruct (S1 m (or_introl eq_refl)) as (Hc & Hl).
    apply (ci_pair_matches ga gb m Hc). destruct last; [|lia]. assert (m :: r = []) by (now apply S4). discriminate.
  - intros (p & h & Hp & Hh & Hn) E. apply S4 in E. pose proof (S2 _ (ci_single ga gb p h Hp Hh Hn)) as Hl. simpl in Hl. lia.
Qed.

Lemma AllSpec_nonempty ga gb maps : AllSpec ga gb maps ->
  (maps <> [] <-> exists p h, In p (node_ids ga) /\ In h (node_ids gb) /\ nm (label gb h) (label ga p) = true).
Proof.
  intros (S1 & S2). split.
  - intros Hne. destruct maps as [|m r]; [now elim Hne|]. destruct (S1 m (or_introl eq_refl)) as (Hc & Hl).
    exact (ci_pair_matches ga gb m Hc Hl).
  - intros (p & h & Hp & Hh & Hn) E.
    destruct (S2 _ (ci_single ga gb p h Hp Hh Hn) (le_n 1)) as (m' & I & _). rewrite E in I. destruct I.
Qed.

End Invert.

(* ------------------------------------------------------------------ _prune_graph keeps node ids distinct *)
Lemma NoDup_map_fst_filter {V} (f : N * V -> bool) (l : list (N * V)) :
  NoDup (map fst l) -> NoDup (map fst (filter f l)).
Proof.
  induction l as [|a r IH]; simpl; intros H; [constructor|].
  inversion H as [|? ? Hn Hr]; subst. destruct (f a); simpl; [|auto].
  constructor; [|auto]. intros I. apply Hn. apply in_map_iff in I. destruct I as (x & E & Ix).
  apply filter_In in Ix. rewrite <- E. apply in_map. tauto.
Qed.

Lemma prune_nodup prune wc (g : graph) : NoDup (node_ids g) -> NoDup (node_ids (prune_graph prune wc g)).
Proof.
  unfold prune_graph. destruct prune; [|auto]. unfold node_ids, induced_sub. simpl. apply NoDup_map_fst_filter.
Qed.

(* ------------------------------------------------------------------ _search_subgraphs, either mode, as the predicates *)
Section Generic.
Variable nm : option nattr -> option nattr -> bool.
Variable em : eattr -> eattr -> bool.

Lemma search_MaxSpec pattern host maps last tried :
  NoDup (node_ids pattern) -> NoDup (node_ids host) ->
  search_subgraphs nm em pattern host true = (maps, last, tried) -> MaxSpec nm em pattern host maps last.
Proof. intros Hp Hh E. exact (search_mcs_spec nm em pattern host Hp maps last tried E). Qed.

Lemma search_AllSpec pattern host maps last tried :
  NoDup (node_ids pattern) -> NoDup (node_ids host) ->
  search_subgraphs nm em pattern host false = (maps, last, tried) -> AllSpec nm em pattern host maps.
Proof. intros Hp Hh E. exact (search_all_spec nm em pattern host Hp maps last tried E). Qed.

End Generic.

(* ------------------------------------------------------------------ find_common_subgraph / get_mappings *)
Lemma directions_inverse (r : result) :
  get_mappings G2toG1 r = map invert_mapping (get_mappings G1toG2 r) /\
  get_mappings G1toG2 r = map invert_mapping (get_mappings G2toG1 r).
Proof.
  unfold get_mappings. destruct (r_pattern_is_g1 r); split; try reflexivity; now rewrite map_invert_involutive.
Qed.

Section Matcher.
Variable defs : list N.
Variable prune : bool.
Variable wc : N.
Variables g1 g2 : graph.
Hypothesis g1_nodup : NoDup (node_ids g1).
Hypothesis g2_nodup : NoDup (node_ids g2).

Notation g1u := (prune_graph prune wc g1).
Notation g2u := (prune_graph prune wc g2).
Notation nm := (node_match defs).

Lemma fcs_le mcs : (n_nodes g1u <=? n_nodes g2u) = true ->
  find_common_subgraph defs prune wc g1 g2 mcs =
  {| r_maps := fst (fst (search_subgraphs nm edge_match g1u g2u mcs));
     r_last := snd (fst (search_subgraphs nm edge_match g1u g2u mcs));
     r_tried := snd (search_subgraphs nm edge_match g1u g2u mcs);
     r_pattern_is_g1 := true |}.
Proof.
  intros H. unfold find_common_subgraph, prepare_orientation. rewrite H.
  destruct (search_subgraphs nm edge_match g1u g2u mcs) as [[maps last] tried]. reflexivity.
Qed.

Lemma fcs_gt mcs : (n_nodes g1u <=? n_nodes g2u) = false ->
  find_common_subgraph defs prune wc g1 g2 mcs =
  {| r_maps := fst (fst (search_subgraphs nm edge_match g2u g1u mcs));
     r_last := snd (fst (search_subgraphs nm edge_match g2u g1u mcs));
     r_tried := snd (search_subgraphs nm edge_match g2u g1u mcs);
     r_pattern_is_g1 := false |}.
Proof.
  intros H. unfold find_common_subgraph, prepare_orientation. rewrite H.
  destruct (search_subgraphs nm edge_match g2u g1u mcs) as [[maps last] tried]. reflexivity.
Qed.

Lemma triple_eta {X Y Z} (t : X * Y * Z) : t = (fst (fst t), snd (fst t), snd t).
Proof. destruct t as [[? ?] ?]. reflexivity. Qed.

(** maximum mode, both directions *)
Theorem fcs_maximum :
  MaxSpec nm edge_match g1u g2u (get_mappings G1toG2 (find_common_subgraph defs prune wc g1 g2 true))
          (r_last (find_common_subgraph defs prune wc g1 g2 true)) /\
  MaxSpec nm edge_match g2u g1u (get_mappings G2toG1 (find_common_subgraph defs prune wc g1 g2 true))
          (r_last (find_common_subgraph defs prune wc g1 g2 true)).
Proof.
  pose proof (prune_nodup prune wc g1 g1_nodup) as N1. pose proof (prune_nodup prune wc g2 g2_nodup) as N2.
  destruct (n_nodes g1u <=? n_nodes g2u) eqn:Eo.
  - rewrite (fcs_le true Eo). unfold get_mappings. simpl.
    pose proof (search_MaxSpec nm edge_match g1u g2u _ _ _ N1 N2 (triple_eta _)) as S.
    split; [exact S|]. apply MaxSpec_invert; [apply node_match_sym|apply edge_match_sym|exact S].
  - rewrite (fcs_gt true Eo). unfold get_mappings. simpl.
    pose proof (search_MaxSpec nm edge_match g2u g1u _ _ _ N2 N1 (triple_eta _)) as S.
    split; [|exact S]. apply MaxSpec_invert; [apply node_match_sym|apply edge_match_sym|exact S].
Qed.

(** all-sizes mode, both directions *)
Theorem fcs_all :
  AllSpec nm edge_match g1u g2u (get_mappings G1toG2 (find_common_subgraph defs prune wc g1 g2 false)) /\
  AllSpec nm edge_match g2u g1u (get_mappings G2toG1 (find_common_subgraph defs prune wc g1 g2 false)).
Proof.
  pose proof (prune_nodup prune wc g1 g1_nodup) as N1. pose proof (prune_nodup prune wc g2 g2_nodup) as N2.
  destruct (n_nodes g1u <=? n_nodes g2u) eqn:Eo.
  - rewrite (fcs_le false Eo). unfold get_mappings. simpl.
    pose proof (search_AllSpec nm edge_match g1u g2u _ _ _ N1 N2 (triple_eta _)) as S.
    split; [exact S|]. apply AllSpec_invert; [apply node_match_sym|apply edge_match_sym|exact S].
  - rewrite (fcs_gt false Eo). unfold get_mappings. simpl.
    pose proof (search_AllSpec nm edge_match g2u g1u _ _ _ N2 N1 (triple_eta _)) as S.
    split; [|exact S]. apply AllSpec_invert; [apply node_match_sym|apply edge_match_sym|exact S].
Qed.

(** validity in either mode, all three directions *)
Theorem fcs_valid mcs m :
  (In m (get_mappings G1toG2 (find_common_subgraph defs prune wc g1 g2 mcs)) ->
     common_induced nm edge_match g1u g2u m /\ 1 <= length m) /\
  (In m (get_mappings G2toG1 (find_common_subgraph defs prune wc g1 g2 mcs)) ->
     common_induced nm edge_match g2u g1u m /\ 1 <= length m) /\
  (In m (get_mappings PatternToHost (find_common_subgraph defs prune wc g1 g2 mcs)) ->
     if r_pattern_is_g1 (find_common_subgraph defs prune wc g1 g2 mcs)
     then common_induced nm edge_match g1u g2u m else common_induced nm edge_match g2u g1u m).
Proof.
  assert (G : forall ga gb maps last, MaxSpec nm edge_match ga gb maps last ->
              forall m, In m maps -> common_induced nm edge_match ga gb m /\ 1 <= length m).
  { intros ga gb maps last (S1 & _ & _ & S4) m0 I. destruct (S1 m0 I) as (Hc & Hl). split; [exact Hc|].
    destruct last; [|lia]. assert (maps = []) by (now apply S4). subst. destruct I. }
  destruct mcs.
  - destruct fcs_maximum as (S12 & S21). split; [apply (G _ _ _ _ S12)|]. split; [apply (G _ _ _ _ S21)|].
    unfold get_mappings in *. destruct (r_pattern_is_g1 (find_common_subgraph defs prune wc g1 g2 true)).
    + intros I. now apply (G _ _ _ _ S12).
    + intros I. now apply (G _ _ _ _ S21).
  - destruct fcs_all as ((A12 & _) & (A21 & _)). split; [apply A12|]. split; [apply A21|].
    unfold get_mappings in *. destruct (r_pattern_is_g1 (find_common_subgraph defs prune wc g1 g2 false)).
    + intros I. now apply A12.
    + intros I. now apply A21.
Qed.

Theorem fcs_nonempty_iff mcs :
  get_mappings G1toG2 (find_common_subgraph defs prune wc g1 g2 mcs) <> [] <->
  exists p h, In p (node_ids g1u) /\ In h (node_ids g2u) /\ nm (label g2u h) (label g1u p) = true.
Proof.
  destruct mcs.
  - exact (MaxSpec_nonempty nm edge_match _ _ _ _ (proj1 fcs_maximum)).
  - exact (AllSpec_nonempty nm edge_match _ _ _ (proj1 fcs_all)).
Qed.

End Matcher.

(** the orientation swap: with graphs of different size, calling the matcher with the arguments exchanged runs the
    very same search, and the two direction requests exchange their answers *)
Theorem orientation_swap defs prune wc (g1 g2 : graph) mcs :
  n_nodes (prune_graph prune wc g1) <> n_nodes (prune_graph prune wc g2) ->
  get_mappings G1toG2 (find_common_subgraph defs prune wc g1 g2 mcs) =
  get_mappings G2toG1 (find_common_subgraph defs prune wc g2 g1 mcs) /\
  r_last (find_common_subgraph defs prune wc g1 g2 mcs) = r_last (find_common_subgraph defs prune wc g2 g1 mcs) /\
  r_pattern_is_g1 (find_common_subgraph defs prune wc g1 g2 mcs) =
  negb (r_pattern_is_g1 (find_common_subgraph defs prune wc g2 g1 mcs)).
Proof.
  intros Hne.
  destruct (n_nodes (prune_graph prune wc g1) <=? n_nodes (prune_graph prune wc g2)) eqn:E12.
  - assert (E21 : (n_nodes (prune_graph prune wc g2) <=? n_nodes (prune_graph prune wc g1)) = false).
    { apply Nat.leb_le in E12. apply Nat.leb_gt. lia. }
    rewrite (fcs_le defs prune wc g1 g2 mcs E12), (fcs_gt defs prune wc g2 g1 mcs E21). repeat split; reflexivity.
  - assert (E21 : (n_nodes (prune_graph prune wc g2) <=? n_nodes (prune_graph prune wc g1)) = true).
    { apply Nat.leb_gt in E12. apply Nat.leb_le. lia. }
    rewrite (fcs_gt defs prune wc g1 g2 mcs E12), (fcs_le defs prune wc g2 g1 mcs E21). repeat split; reflexivity.
Qed.

(** the MTG copy (no orientation swap, no pruning, its own edge matcher) *)
Theorem mtg_spec defs (g1 g2 : graph) : NoDup (node_ids g1) -> NoDup (node_ids g2) ->
  MaxSpec (node_match defs) edge_match_mtg g1 g2
          (fst (fst (find_common_subgraph_mtg defs g1 g2 true))) (snd (fst (find_common_subgraph_mtg defs g1 g2 true))) /\
  AllSpec (node_match defs) edge_match_mtg g1 g2 (fst (fst (find_common_subgraph_mtg defs g1 g2 false))).
Proof.
  intros N1 N2. unfold find_common_subgraph_mtg. split.
  - exact (search_MaxSpec _ _ g1 g2 _ _ _ N1 N2 (triple_eta _)).
  - exact (search_AllSpec _ _ g1 g2 _ _ _ N1 N2 (triple_eta _)).
Qed.
