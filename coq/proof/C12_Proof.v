(** C12 -- proofs about the model of MCSMatcher (model/C12_Model.v). *)
From Coq Require Import List NArith ZArith Bool Arith Lia Permutation.
From SK Require Import lib.LGraph lib.Mono model.C12_Model.
Import ListNotations.

Lemma invert_involutive m : invert_mapping (invert_mapping m) = m.
Proof.
  unfold invert_mapping. rewrite map_map. simpl.
  induction m as [|[a b] r IH]; simpl; [reflexivity|]. now rewrite IH.
Qed.
