(** C06 — proofs, part 2: the component-aware strategy as a program.  Its loops with
    early exits ([cc_inner]/[cc_outer]/[per_cc_all]/[bt]) are shown equal to "prefix of the
    limit-free computation" ([percc], [bt_unl], [comp_unl]); the public entry point then
    satisfies the [limit] formula, up to the per-component enumeration guard.  Stdlib lists. *)
From Coq Require Import List NArith Bool Arith Lia Permutation.
From SK Require Import lib.LGraph lib.Mono lib.Reach model.C06_Model lib.C06_Spec proof.C06_All.
Import ListNotations.

(** ---------- generic list facts ---------- *)
Lemma firstn_short {X} k (l : list X) : length (firstn k l) < k -> firstn k l = l.
Proof.
  intros Hlt. rewrite firstn_length in Hlt. apply firstn_all2. lia.
Qed.

Lemma firstn_app_full {X} k (l1 l2 : list X) : k <= length l1 -> firstn k (l1 ++ l2) = firstn k l1.
Proof.
  intros Hle. rewrite firstn_app. replace (k - length l1) with 0 by lia. simpl. apply app_nil_r.
Qed.

Lemma flat_map_all_nil {X Y} (f : X -> list Y) l : (forall x, In x l -> f x = []) -> flat_map f l = [].
Proof.
  induction l as [|x l IH]; simpl; intros Hf; [reflexivity|].
  rewrite (Hf x) by (left; reflexivity). apply IH. intros y I. apply Hf. right. exact I.
Qed.

(** ---------- the stop bound of the back-tracking ---------- *)
Definition lim (maxr thr : N) : N := if (maxr =? 0)%N then N.succ thr else N.min maxr (N.succ thr).

Lemma stop_spec maxr thr n : stop maxr thr n = (lim maxr thr <=? n)%N.
Proof.
  unfold stop, lim, capped. destruct (N.eqb_spec maxr 0) as [->|Hne].
  - simpl. destruct (N.ltb_spec thr n), (N.leb_spec (N.succ thr) n); auto; lia.
  - destruct (N.ltb_spec 0 maxr); [|lia]. simpl.
    destruct (N.leb_spec maxr n), (N.ltb_spec thr n), (N.leb_spec (N.min maxr (N.succ thr)) n); auto; lia.
Qed.

Lemma guard_firstn_lim {X} maxr thr (U : list X) :
  guard thr (firstn (N.to_nat (lim maxr thr)) U) = limit maxr thr U.
Proof.
  unfold guard, limit, lim, lenN. rewrite firstn_length.
  destruct (N.eqb_spec maxr 0) as [->|Hne].
  - destruct (N.ltb_spec thr (N.of_nat (Nat.min (N.to_nat (N.succ thr)) (length U)))),
             (N.ltb_spec thr (N.of_nat (length U))); try lia; auto.
    rewrite Nat2N.id. rewrite firstn_all. apply firstn_all2. lia.
  - destruct (N.ltb_spec thr (N.of_nat (Nat.min (N.to_nat (N.min maxr (N.succ thr))) (length U)))),
             (N.ltb_spec thr (N.min maxr (N.of_nat (length U)))); try lia; auto.
    destruct (Nat.le_ge_cases (length U) (N.to_nat maxr)).
    + rewrite !firstn_all2 by lia. reflexivity.
    + f_equal. lia.
Qed.

(** ---------- limit-free back-tracking ---------- *)
Fixpoint bt_unl (ordered : list (list (nat * mapping))) (used : list nat) (acc : mapping) : list mapping :=
  match ordered with
  | [] => [acc]
  | lvl :: rest =>
      flat_map (fun hm => if memnat (fst hm) used || clash (snd hm) acc then []
                          else bt_unl rest (fst hm :: used) (snd hm ++ acc)) lvl
  end.

Definition bt_loop (maxr thr : N) (rest : list (list (nat * mapping))) (used : list nat) (acc : mapping) :=
  fix loop (cs : list (nat * mapping)) (res : list mapping * N) {struct cs} : list mapping * N :=
    match cs with
    | [] => res
    | (hi, m) :: cs' =>
        if memnat hi used || clash m acc then loop cs' res
        else let res' := bt maxr thr rest (hi :: used) (m ++ acc) res in
             if stop maxr thr (snd res') then res' else loop cs' res'
    end.

Lemma bt_cons maxr thr lvl rest used acc res :
  bt maxr thr (lvl :: rest) used acc res =
  if stop maxr thr (snd res) then res else bt_loop maxr thr rest used acc lvl res.
Proof. reflexivity. Qed.

Lemma bt_nil maxr thr used acc res :
  bt maxr thr [] used acc res =
  if stop maxr thr (snd res) then res else (acc :: fst res, N.succ (snd res)).
Proof. reflexivity. Qed.

Definition bt_post (maxr thr : N) (L : list mapping) (res : list mapping) (n : N) : list mapping * N :=
  let add := firstn (N.to_nat (lim maxr thr - n)) L in (rev add ++ res, (n + lenN add)%N).

Lemma bt_spec maxr thr : forall ordered used acc res n,
  bt maxr thr ordered used acc (res, n) = bt_post maxr thr (bt_unl ordered used acc) res n.
Proof.
  induction ordered as [|lvl rest IH]; intros used acc res n.
  - rewrite bt_nil. cbn [snd fst]. rewrite stop_spec. unfold bt_post. cbn [bt_unl].
    destruct (N.leb_spec (lim maxr thr) n).
    + replace (N.to_nat (lim maxr thr - n)) with 0 by lia. simpl. f_equal. unfold lenN. simpl. lia.
    + destruct (N.to_nat (lim maxr thr - n)) eqn:E; [lia|]. simpl. rewrite firstn_nil. simpl. f_equal. unfold lenN. simpl. lia.
  - rewrite bt_cons. cbn [snd]. rewrite stop_spec. cbn [bt_unl].
    destruct (N.leb_spec (lim maxr thr) n) as [Hstop|Hgo].
    + unfold bt_post. replace (N.to_nat (lim maxr thr - n)) with 0 by lia. simpl. f_equal. unfold lenN. simpl. lia.
    + clear Hgo. revert res n. induction lvl as [|[hi m] cs IHcs]; intros res n.
      * simpl. unfold bt_post. rewrite firstn_nil. simpl. f_equal. unfold lenN. simpl. lia.
      * cbn [bt_loop flat_map fst snd]. fold (bt_loop maxr thr rest used acc).
        destruct (memnat hi used || clash m acc).
        -- simpl app. apply IHcs.
        -- rewrite IH. set (L1 := bt_unl rest (hi :: used) (m ++ acc)).
           set (L2 := flat_map _ cs) in *.
           unfold bt_post. cbn [snd]. rewrite stop_spec.
           set (k := N.to_nat (lim maxr thr - n)).
           destruct (N.leb_spec (lim maxr thr) (n + lenN (firstn k L1))) as [Hs|Hc].
           ++ rewrite firstn_app_full; [reflexivity|].
              unfold lenN in Hs. rewrite firstn_length in Hs. lia.
           ++ assert (Hall : firstn k L1 = L1).
              { apply firstn_short. unfold lenN in Hc. lia. }
              rewrite Hall in *. rewrite IHcs. unfold bt_post. fold L2.
              rewrite firstn_app. fold k. rewrite Hall.
              replace (N.to_nat (lim maxr thr - (n + lenN L1))) with (k - length L1) by (unfold lenN; lia).
              rewrite rev_app_distr, <- app_assoc. f_equal. rewrite lenN_app. lia.
Qed.

Lemma bt_unl_empty_level ordered : In [] ordered -> forall used acc, bt_unl ordered used acc = [].
Proof.
  induction ordered as [|lvl rest IH]; intros I used acc; [destruct I|].
  destruct I as [->|I]; [reflexivity|]. simpl. apply flat_map_all_nil. intros hm _.
  destruct (memnat (fst hm) used || clash (snd hm) acc); [reflexivity|]. apply IH. exact I.
Qed.

Section Oracle.
Variable enum : list N -> list N -> list mapping.

(** ---------- per-component embedding lists ---------- *)
Definition percc (cands : list (nat * list N)) (pc : list N) : list (nat * mapping) :=
  flat_map (fun ih => map (pair (fst ih)) (enum (snd ih) pc)) cands.

Definition cands (hcs : list (nat * list N)) (pc : list N) : list (nat * list N) :=
  filter (fun ih => length pc <=? length (snd ih)) hcs.

Fixpoint cc_flat (cap thr : N) (it : list (nat * mapping)) (maps : list (nat * mapping)) (n : N)
  : option (list (nat * mapping)) :=
  match it with
  | [] => Some (rev maps)
  | x :: it' =>
      let n' := N.succ n in
      let maps' := x :: maps in
      if capped cap n' then Some (rev maps') else if (thr <? n')%N then None else cc_flat cap thr it' maps' n'
  end.

Lemma cc_inner_flat cap thr i rest : forall it maps n, capped cap n = false ->
  match cc_inner cap thr i it maps n with
  | None => cc_flat cap thr (map (pair i) it ++ rest) maps n = None
  | Some (maps', n') =>
      if capped cap n' then cc_flat cap thr (map (pair i) it ++ rest) maps n = Some (rev maps')
      else cc_flat cap thr (map (pair i) it ++ rest) maps n = cc_flat cap thr rest maps' n'
  end.
Proof.
  induction it as [|m it IH]; intros maps n Hc.
  - simpl. rewrite Hc. reflexivity.
  - cbn [cc_inner map app cc_flat]. destruct (capped cap (N.succ n)) eqn:Hc'.
    + rewrite Hc'. reflexivity.
    + destruct (thr <? N.succ n)%N; [reflexivity|]. apply IH. exact Hc'.
Qed.

Lemma cc_outer_flat cap thr pc : forall cs maps n, capped cap n = false ->
  cc_outer enum cap thr pc cs maps n = cc_flat cap thr (percc cs pc) maps n.
Proof.
  induction cs as [|[i hc] r IH]; intros maps n Hc; [reflexivity|].
  cbn [cc_outer percc flat_map fst snd]. fold (percc r pc).
  pose proof (cc_inner_flat cap thr i (percc r pc) (enum hc pc) maps n Hc) as Hx.
  destruct (cc_inner cap thr i (enum hc pc) maps n) as [[maps' n']|]; [|symmetry; exact Hx].
  destruct (capped cap n') eqn:Hc'; [symmetry; exact Hx|].
  rewrite Hx. apply IH. exact Hc'.
Qed.

Definition cc_result {X} (cap thr : N) (L : list X) : option (list X) :=
  if (thr <? lenN L)%N && ((cap =? 0)%N || (N.succ thr <? cap)%N) then None
  else Some (firstn (N.to_nat (if (cap =? 0)%N then lenN L else N.min cap (lenN L))) L).

Lemma cc_flat_spec cap thr : forall it maps n,
  n = lenN maps -> (n <= thr)%N -> capped cap n = false ->
  cc_flat cap thr it maps n = cc_result cap thr (rev maps ++ it).
Proof.
  induction it as [|x it IH]; intros maps n Hn Hthr Hc; cbn [cc_flat].
  - rewrite app_nil_r. unfold cc_result. rewrite lenN_rev, <- Hn. apply capped_false in Hc.
    destruct (N.ltb_spec thr n); [lia|]. simpl. f_equal.
    replace (if (cap =? 0)%N then n else N.min cap n) with n by (destruct (N.eqb_spec cap 0); lia).
    rewrite Hn. unfold lenN. rewrite Nat2N.id, <- (rev_length maps). symmetry. apply firstn_all.
  - assert (HU : lenN (rev maps ++ x :: it) = (N.succ n + lenN it)%N).
    { rewrite lenN_app, lenN_rev, lenN_cons. lia. }
    destruct (capped cap (N.succ n)) eqn:Hc'.
    + apply capped_spec in Hc'. apply capped_false in Hc. assert (Em : cap = N.succ n) by lia.
      unfold cc_result. rewrite HU. destruct (N.eqb_spec cap 0); [lia|].
      destruct (N.ltb_spec (N.succ thr) cap); [lia|]. rewrite andb_false_r. f_equal.
      replace (N.min cap (N.succ n + lenN it)) with (N.succ n) by lia.
      cbn [rev]. replace (rev maps ++ x :: it) with ((rev maps ++ [x]) ++ it) by (rewrite <- app_assoc; reflexivity).
      replace (N.to_nat (N.succ n)) with (length (rev maps ++ [x])).
      * rewrite firstn_all_app. reflexivity.
      * rewrite app_length, rev_length. simpl. rewrite Hn. unfold lenN. lia.
    + destruct (N.ltb_spec thr (N.succ n)) as [Hlt|Hge].
      * unfold cc_result. rewrite HU. apply capped_false in Hc'.
        destruct (N.ltb_spec thr (N.succ n + lenN it)); [|lia].
        destruct (N.eqb_spec cap 0); [reflexivity|].
        destruct (N.ltb_spec (N.succ thr) cap); [reflexivity|lia].
      * rewrite (IH (x :: maps) (N.succ n)); auto.
        -- cbn [rev]. rewrite <- app_assoc. reflexivity.
        -- rewrite lenN_cons. lia.
Qed.

Lemma cc_outer_spec cap thr pc cs :
  cc_outer enum cap thr pc cs [] 0%N = cc_result cap thr (percc cs pc).
Proof.
  rewrite cc_outer_flat by (apply capped_false; lia).
  rewrite cc_flat_spec; auto; try lia. apply capped_false; lia.
Qed.

(** the loop over the pattern components *)
Fixpoint per_all (cap thr : N) (hcs : list (nat * list N)) (pcs : list (list N)) : option (list (list (nat * mapping))) :=
  match pcs with
  | [] => Some []
  | pc :: r =>
      match cc_result cap thr (percc (cands hcs pc) pc) with
      | None | Some [] => None
      | Some maps => match per_all cap thr hcs r with None => None | Some rest => Some (maps :: rest) end
      end
  end.

Lemma per_cc_all_spec cap thr hcs pcs : per_cc_all enum cap thr hcs pcs = per_all cap thr hcs pcs.
Proof.
  induction pcs as [|pc r IH]; [reflexivity|]. cbn [per_cc_all per_all]. fold (cands hcs pc).
  rewrite IH. destruct (cands hcs pc) as [|c cs] eqn:Ec.
  - unfold cc_result. cbn [percc flat_map]. destruct ((thr <? lenN [])%N && _); [reflexivity|].
    rewrite firstn_nil. reflexivity.
  - rewrite cc_outer_spec. reflexivity.
Qed.

(** no cap on the per-component lists (several pattern components) *)
Lemma per_all_nocap thr hcs pcs :
  match per_all 0 thr hcs pcs with
  | Some per => per = map (fun pc => percc (cands hcs pc) pc) pcs /\ ~ In [] per
  | None => (exists pc, In pc pcs /\ (thr < lenN (percc (cands hcs pc) pc))%N) \/
            In [] (map (fun pc => percc (cands hcs pc) pc) pcs)
  end.
Proof.
  induction pcs as [|pc r IH]; cbn [per_all map]; [split; [reflexivity|intros []]|].
  unfold cc_result at 1. cbn [N.eqb orb]. rewrite andb_true_r.
  destruct (N.ltb_spec thr (lenN (percc (cands hcs pc) pc))) as [Hlt|Hge].
  - left. exists pc. split; [left; reflexivity|exact Hlt].
  - unfold lenN. rewrite Nat2N.id, firstn_all.
    destruct (percc (cands hcs pc) pc) as [|x L] eqn:EL.
    + right. left. reflexivity.
    + destruct (per_all 0 thr hcs r) as [rest|].
      * destruct IH as [-> Hne]. split; [reflexivity|]. intros [E|I]; [discriminate|contradiction].
      * destruct IH as [(pc' & I & Hlt)|I].
        -- left. exists pc'. split; [right; exact I|exact Hlt].
        -- right. right. exact I.
Qed.

(** ---------- the limit-free component-aware result ---------- *)
Definition percc_of (H : graph) (pc : list N) : list (nat * mapping) :=
  percc (cands (index_from 0 (comps H)) pc) pc.

Definition comp_unl (strict : bool) (H P : graph) : list mapping :=
  let hcc := length (comps H) in
  let pcc := length (comps P) in
  if pcc =? 0 then [[]]
  else if hcc <? pcc then enum (node_ids H) (node_ids P)
  else if (pcc <? hcc) && strict then []
  else bt_unl (sort_len (map (percc_of H) (comps P))) [] [].

Lemma sort_len_perm {X} (l : list (list X)) : Permutation (sort_len l) l.
Proof.
  induction l as [|x l IH]; [constructor|]. simpl.
  assert (Hi : forall s, Permutation (insert_len x s) (x :: s)).
  { induction s as [|y s IHs]; simpl; [repeat constructor|].
    destruct (length x <=? length y); [apply Permutation_refl|].
    eapply Permutation_trans; [apply perm_skip; exact IHs|apply perm_swap]. }
  eapply Permutation_trans; [apply Hi|]. constructor. exact IH.
Qed.

Lemma sort_len_single {X} (x : list X) : sort_len [x] = [x].
Proof. reflexivity. Qed.

Lemma clash_nil m : clash m [] = false.
Proof. unfold clash. induction m as [|x m IH]; simpl; auto. Qed.

Definition snd0 (hm : nat * mapping) : mapping := snd hm ++ [].
Lemma bt_unl_single L : bt_unl [L] [] [] = map snd0 L.
Proof.
  unfold snd0. simpl. induction L as [|[h m] L IH]; simpl; [reflexivity|]. rewrite clash_nil. simpl. f_equal. exact IH.
Qed.

(** the engine of the component-aware strategy before the final guard *)
Lemma find_comp_engine maxr thr H P :
  let pcs := comps P in
  2 <= length pcs ->
  match per_cc_all enum 0 thr (index_from 0 (comps H)) pcs with
  | None => (exists pc, In pc pcs /\ (thr < lenN (percc_of H pc))%N) \/
            bt_unl (sort_len (map (percc_of H) pcs)) [] [] = []
  | Some per =>
      rev (fst (bt maxr thr (sort_len per) [] [] ([], 0%N))) =
      firstn (N.to_nat (lim maxr thr)) (bt_unl (sort_len (map (percc_of H) pcs)) [] [])
  end.
Proof.
  intros pcs _. rewrite per_cc_all_spec.
  pose proof (per_all_nocap thr (index_from 0 (comps H)) pcs) as Hx.
  destruct (per_all 0 thr (index_from 0 (comps H)) pcs) as [per|].
  - destruct Hx as [-> _]. rewrite bt_spec. unfold bt_post. cbn [fst].
    rewrite app_nil_r, rev_involutive. rewrite N.sub_0_r. reflexivity.
  - destruct Hx as [Hx|Hx]; [left; exact Hx|]. right. apply bt_unl_empty_level.
    eapply Permutation_in; [apply Permutation_sym, sort_len_perm|exact Hx].
Qed.

Lemma limit_nil {X} maxr thr : @limit X maxr thr [] = [].
Proof. unfold limit. simpl. destruct (thr <? _)%N; [reflexivity|apply firstn_nil]. Qed.

Lemma map_firstn {X Y} (f : X -> Y) k l : map f (firstn k l) = firstn k (map f l).
Proof. revert l. induction k; intros [|x l]; simpl; auto. f_equal. auto. Qed.

(** single pattern component: the per-component list is capped by max_results *)
Lemma find_comp_single maxr thr H pc :
  guard thr
    match per_cc_all enum maxr thr (index_from 0 (comps H)) [pc] with
    | None => []
    | Some per => rev (fst (bt maxr thr (sort_len per) [] [] ([], 0%N)))
    end = limit maxr thr (bt_unl (sort_len [percc_of H pc]) [] []).
Proof.
  rewrite per_cc_all_spec. cbn [per_all]. fold (percc_of H pc). set (L := percc_of H pc).
  rewrite sort_len_single, bt_unl_single.
  set (f := snd0).
  unfold cc_result.
  destruct ((thr <? lenN L)%N && ((maxr =? 0)%N || (N.succ thr <? maxr)%N)) eqn:Eg.
  - rewrite guard_nil. unfold limit. replace (lenN (map f L)) with (lenN L) by (unfold lenN; rewrite map_length; reflexivity).
    apply andb_prop in Eg. destruct Eg as [E1 E2]. apply N.ltb_lt in E1.
    destruct (N.eqb_spec maxr 0).
    + destruct (N.ltb_spec thr (lenN L)); [reflexivity|lia].
    + simpl in E2. apply N.ltb_lt in E2. destruct (N.ltb_spec thr (N.min maxr (lenN L))); [reflexivity|lia].
  - set (kk := N.to_nat (if (maxr =? 0)%N then lenN L else N.min maxr (lenN L))).
    destruct (firstn kk L) as [|x l] eqn:Ef.
    + rewrite guard_nil.
      assert (HL : L = [] \/ kk = 0) by (destruct L, kk; simpl in Ef; auto; discriminate).
      assert (HL' : L = []).
      { destruct HL as [HL|Hk]; [exact HL|]. subst kk.
        assert (lenN L = 0%N) by (destruct (N.eqb_spec maxr 0); lia).
        destruct L; [reflexivity|unfold lenN in H0; simpl in H0; lia]. }
      rewrite HL'. simpl. rewrite limit_nil. reflexivity.
    + rewrite <- Ef. rewrite sort_len_single, bt_spec. unfold bt_post. cbn [fst].
      rewrite app_nil_r, rev_involutive, N.sub_0_r, bt_unl_single. fold f.
      rewrite map_firstn, firstn_firstn. subst kk.
      (* arithmetic: guard thr (firstn (min lim kk) U) = limit maxr thr U *)
      set (U := map f L). assert (HlU : lenN U = lenN L) by (unfold U, lenN; rewrite map_length; reflexivity).
      rewrite <- HlU in *. clearbody U. clear Ef x l.
      apply andb_false_iff in Eg.
      unfold guard, limit, lim, lenN in *. rewrite firstn_length.
      destruct (N.eqb_spec maxr 0) as [->|Hne].
      * simpl in Eg. destruct Eg as [Eg|Eg]; [|discriminate]. apply N.ltb_ge in Eg.
        destruct (N.ltb_spec thr (N.of_nat (Nat.min (Nat.min (N.to_nat (N.succ thr)) (N.to_nat (N.of_nat (length U)))) (length U))));
          destruct (N.ltb_spec thr (N.of_nat (length U))); try lia.
        f_equal. lia.
      * destruct (N.ltb_spec thr (N.of_nat (Nat.min (Nat.min (N.to_nat (N.min maxr (N.succ thr))) (N.to_nat (N.min maxr (N.of_nat (length U))))) (length U))));
          destruct (N.ltb_spec thr (N.min maxr (N.of_nat (length U)))); try lia; auto.
        f_equal. lia.
Qed.

Lemma lim_pos maxr thr : exists k, N.to_nat (lim maxr thr) = S k.
Proof.
  unfold lim. destruct (N.eqb_spec maxr 0).
  - exists (N.to_nat thr). lia.
  - exists (N.to_nat (N.min maxr (N.succ thr)) - 1). lia.
Qed.

Lemma firstn_lim_nil {X} maxr thr (U : list X) : firstn (N.to_nat (lim maxr thr)) U = [] -> U = [].
Proof. destruct (lim_pos maxr thr) as (k & ->). destruct U; [reflexivity|discriminate]. Qed.

Lemma find_comp_single_nil maxr thr H pc :
  match per_cc_all enum maxr thr (index_from 0 (comps H)) [pc] with
  | None => []
  | Some per => rev (fst (bt maxr thr (sort_len per) [] [] ([], 0%N)))
  end = [] -> percc_of H pc = [] \/ (thr < lenN (percc_of H pc))%N.
Proof.
  rewrite per_cc_all_spec. cbn [per_all]. fold (percc_of H pc). set (L := percc_of H pc).
  unfold cc_result.
  destruct ((thr <? lenN L)%N && ((maxr =? 0)%N || (N.succ thr <? maxr)%N)) eqn:Eg.
  - intros _. right. apply andb_prop in Eg. destruct Eg as [E1 _]. apply N.ltb_lt in E1. exact E1.
  - set (kk := N.to_nat (if (maxr =? 0)%N then lenN L else N.min maxr (lenN L))).
    destruct (firstn kk L) as [|x l] eqn:Ef.
    + intros _. left.
      assert (HL : L = [] \/ kk = 0) by (destruct L, kk; simpl in Ef; auto; discriminate).
      destruct HL as [HL|Hk]; [exact HL|]. subst kk.
      assert (lenN L = 0%N) by (destruct (N.eqb_spec maxr 0); lia).
      destruct L; [reflexivity|unfold lenN in H0; simpl in H0; lia].
    + rewrite sort_len_single, bt_spec. unfold bt_post. cbn [fst].
      rewrite app_nil_r, rev_involutive, N.sub_0_r, bt_unl_single.
      intros E. apply firstn_lim_nil in E. discriminate.
Qed.

Lemma find_comp_single_nil2 maxr thr H pc : percc_of H pc = [] ->
  match per_cc_all enum maxr thr (index_from 0 (comps H)) [pc] with
  | None => []
  | Some per => rev (fst (bt maxr thr (sort_len per) [] [] ([], 0%N)))
  end = [].
Proof.
  intros E. rewrite per_cc_all_spec. cbn [per_all]. fold (percc_of H pc). rewrite E.
  unfold cc_result. destruct ((thr <? lenN [])%N && _); [reflexivity|]. rewrite firstn_nil. reflexivity.
Qed.

(** ---------- the public entry point, component-aware strategy ---------- *)
Definition cc_guard (thr : N) (H P : graph) : Prop :=
  exists pc, In pc (comps P) /\ (thr < lenN (percc_of H pc))%N.

(** before the final guard *)
Lemma find_comp_pre maxr thr strict H P :
  let r := find_comp enum maxr thr strict H P in
  (r = [] /\ cc_guard thr H P) \/
  (guard thr r = limit maxr thr (comp_unl strict H P) /\
   (r = [] -> comp_unl strict H P = [] \/ cc_guard thr H P \/
              comp_unl strict H P = enum (node_ids H) (node_ids P)) /\
   (comp_unl strict H P = [] -> r = [])).
Proof.
  cbv zeta. unfold find_comp, comp_unl.
  destruct (length (comps P) =? 0) eqn:E0.
  { right. split; [|split; discriminate]. unfold guard, limit, lenN. simpl. destruct maxr; simpl; [reflexivity|].
    destruct (thr <? N.min (N.pos p) 1)%N eqn:E1, (thr <? 1)%N eqn:E2; auto;
      try apply N.ltb_lt in E1; try apply N.ltb_lt in E2; try apply N.ltb_ge in E1; try apply N.ltb_ge in E2; try lia.
    replace (N.to_nat (N.min (N.pos p) 1)) with 1 by lia. reflexivity. }
  destruct (length (comps H) <? length (comps P)) eqn:E1.
  { right. split; [|split; [auto|]].
    - unfold find_all. apply (all_loop_limit maxr thr _ [] 0%N); auto; try lia. apply capped_false. lia.
    - intros E. unfold find_all. rewrite E. reflexivity. }
  destruct ((length (comps P) <? length (comps H)) && strict) eqn:E2.
  { right. split; [|split; auto]. rewrite guard_nil, limit_nil. reflexivity. }
  unfold cc_cap. destruct (length (comps P) =? 1) eqn:E3.
  - right. apply Nat.eqb_eq in E3. destruct (comps P) as [|pc [|pc' r]] eqn:Ec; try discriminate.
    split; [apply find_comp_single|]. cbn [map]. rewrite sort_len_single, bt_unl_single. split.
    + intros E. apply find_comp_single_nil in E.
      destruct E as [->|E]; [left; reflexivity|].
      right. left. exists pc. split; [rewrite Ec; left; reflexivity|exact E].
    + intros E. apply find_comp_single_nil2. destruct (percc_of H pc); [reflexivity|discriminate].
  - assert (Hp : 2 <= length (comps P)).
    { apply Nat.eqb_neq in E0. apply Nat.eqb_neq in E3. lia. }
    pose proof (find_comp_engine maxr thr H P Hp) as Hx. cbv zeta in Hx.
    destruct (per_cc_all enum 0 thr (index_from 0 (comps H)) (comps P)) as [per|].
    + right. rewrite Hx. split; [apply guard_firstn_lim|]. split.
      * intros E. left. exact (firstn_lim_nil _ _ _ E).
      * intros ->. apply firstn_nil.
    + destruct Hx as [Hx|Hx].
      * left. split; [reflexivity|exact Hx].
      * right. rewrite Hx, guard_nil, limit_nil. auto.
Qed.

Theorem find_comp_limits maxr thr strict H P :
  find enum (Cfg 1 maxr thr strict false) H P = limit maxr thr (comp_unl strict H P) \/
  (find enum (Cfg 1 maxr thr strict false) H P = [] /\ cc_guard thr H P).
Proof.
  unfold find. cbn [c_pref c_strat c_maxr c_thr c_strict andb].
  change (if (thr <? lenN ?r)%N then [] else ?r) with (guard thr r).
  destruct (find_comp_pre maxr thr strict H P) as [[E G]|[E _]]; cbv zeta in E.
  - right. rewrite E. split; [apply guard_nil|exact G].
  - left. exact E.
Qed.

(** with a threshold that is large enough the result is the limit-free one *)
Definition comp_bound (strict : bool) (H P : graph) : N :=
  fold_right N.max (lenN (comp_unl strict H P)) (map (fun pc => lenN (percc_of H pc)) (comps P)).

Lemma fold_max_ge (b : N) (l : list N) : (b <= fold_right N.max b l)%N /\ forall x, In x l -> (x <= fold_right N.max b l)%N.
Proof.
  induction l as [|y l [IH1 IH2]]; simpl; [split; [lia|intros ? []]|].
  split; [lia|]. intros x [->|I]; [lia|]. specialize (IH2 x I). lia.
Qed.

Theorem find_comp_unlimited T strict H P : (comp_bound strict H P <= T)%N ->
  find enum (Cfg 1 0 T strict false) H P = comp_unl strict H P.
Proof.
  intros HT. destruct (fold_max_ge (lenN (comp_unl strict H P)) (map (fun pc => lenN (percc_of H pc)) (comps P))) as [B1 B2].
  fold (comp_bound strict H P) in B1, B2.
  destruct (find_comp_limits 0 T strict H P) as [E|[_ (pc & I & Hlt)]].
  - rewrite E. apply limit_none. lia.
  - exfalso. assert (lenN (percc_of H pc) <= comp_bound strict H P)%N.
    { apply B2. apply in_map_iff. exists pc. auto. }
    lia.
Qed.

(** ---------- fallback strategy ---------- *)
Definition bt_unl_result (strict : bool) (H P : graph) : list mapping :=
  match comp_unl strict H P with [] => enum (node_ids H) (node_ids P) | r => r end.

Theorem find_bt_limits maxr thr strict H P :
  let R := find enum (Cfg 2 maxr thr strict false) H P in
  R = limit maxr thr (bt_unl_result strict H P) \/
  (cc_guard thr H P /\ R = limit maxr thr (enum (node_ids H) (node_ids P))).
Proof.
  cbv zeta. unfold find. cbn [c_pref c_strat c_maxr c_thr c_strict andb].
  change (if (thr <? lenN ?r)%N then [] else ?r) with (guard thr r).
  unfold find_bt, bt_unl_result.
  pose proof (find_comp_pre maxr thr strict H P) as Hc. cbv zeta in Hc.
  pose proof (find_all_limits enum maxr thr strict H P) as Ha.
  unfold find in Ha. cbn [c_pref c_strat c_maxr c_thr c_strict andb] in Ha.
  change (if (thr <? lenN ?r)%N then [] else ?r) with (guard thr r) in Ha.
  destruct (find_comp enum maxr thr strict H P) as [|x l] eqn:Ef.
  - rewrite Ha. destruct Hc as [[_ G]|(_ & Hn & _)]; [right; split; [exact G|reflexivity]|].
    destruct (Hn eq_refl) as [->|[G| ->]].
    + left. reflexivity.
    + right. split; [exact G|reflexivity].
    + left. destruct (enum (node_ids H) (node_ids P)); reflexivity.
  - destruct Hc as [[E _]|(E & _ & Hn)]; [discriminate|]. left. rewrite E.
    destruct (comp_unl strict H P) as [|u U] eqn:EU; [|reflexivity].
    specialize (Hn eq_refl). discriminate.
Qed.

Theorem find_bt_unlimited T strict H P :
  (comp_bound strict H P <= T)%N -> (lenN (enum (node_ids H) (node_ids P)) <= T)%N ->
  find enum (Cfg 2 0 T strict false) H P = bt_unl_result strict H P.
Proof.
  intros HT Ha.
  destruct (fold_max_ge (lenN (comp_unl strict H P)) (map (fun pc => lenN (percc_of H pc)) (comps P))) as [B1 B2].
  fold (comp_bound strict H P) in B1, B2.
  assert (Hb : (lenN (bt_unl_result strict H P) <= T)%N).
  { unfold bt_unl_result. destruct (comp_unl strict H P); [exact Ha|lia]. }
  destruct (find_bt_limits 0 T strict H P) as [E|[(pc & I & Hlt) _]]; cbv zeta in *.
  - rewrite E. apply limit_none. exact Hb.
  - exfalso. assert (lenN (percc_of H pc) <= comp_bound strict H P)%N.
    { apply B2. apply in_map_iff. exists pc. auto. }
    lia.
Qed.
End Oracle.
