(** Uniform observable type printed by the correspondence stage.
    Every model exposes [run : case -> tok]; the harness parses the printed
    term (only brackets and integers matter) and diffs it with the
    implementation's observable. *)
From Coq Require Import ZArith List String Ascii.
Import ListNotations.
Open Scope Z_scope.

Inductive tok := I (z : Z) | L (l : list tok).

Definition tN (n : N) : tok := I (Z.of_N n).
Definition tnat (n : nat) : tok := I (Z.of_nat n).
Definition tbool (b : bool) : tok := I (if b then 1 else 0).
Definition tlist {A} (f : A -> tok) (l : list A) : tok := L (map f l).
Definition tpair {A B} (f : A -> tok) (g : B -> tok) (p : A * B) : tok := L [f (fst p); g (snd p)].
Definition topt {A} (f : A -> tok) (o : option A) : tok :=
  match o with None => L [] | Some a => L [f a] end.
Definition tstr (s : string) : tok :=
  L (map (fun a => I (Z.of_N (N_of_ascii a))) (list_ascii_of_string s)).

(** Unordered collections: the harness sorts every list that starts with this
    marker (on both sides) before diffing, so the model need not reproduce
    Python's set/dict iteration order where that order is not observable. *)
Definition SETMARK : Z := -7777777.
Definition tset {A} (f : A -> tok) (l : list A) : tok := L (I SETMARK :: map f l).

(** Order-insensitive (for marked lists) 63-bit digest, computed with Coq's
    primitive machine integers so that the correspondence stage prints one
    number per case instead of the whole observable (printing a large normal
    form dominates the run time otherwise).  harness/tok.py computes the same
    function on the implementation's observable.  The digest is harness
    plumbing: no theorem mentions it; on a digest mismatch the full observable
    is printed and diffed. *)
From Coq Require Import Uint63.
Definition mix (t v : int) : int :=
  let x := (v + t * 0x1E3779B97F4A7C15)%uint63 in
  let x := ((x lxor (x >> 29)) * 0x3F58476D1CE4E5B9)%uint63 in
  let x := ((x lxor (x >> 32)) * 0x14D049BB133111EB)%uint63 in
  (x lxor (x >> 31))%uint63.

Fixpoint hash (t : tok) : int :=
  match t with
  | I z => mix 1 (Uint63.of_Z z)
  | L l =>
      let hsum := (fix go (l : list tok) : int :=
                     match l with [] => 0%uint63 | x :: r => (mix 5 (hash x) + go r)%uint63 end) in
      let hseq := (fix go (acc : int) (l : list tok) : int :=
                     match l with [] => acc | x :: r => go (mix acc (hash x)) r end) in
      match l with
      | I m :: rest => if (m =? SETMARK)%Z then mix 3 (hsum rest) else mix 2 (hseq 7%uint63 l)
      | _ => mix 2 (hseq 7%uint63 l)
      end
  end.
