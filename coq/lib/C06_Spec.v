(** C06 — specification vocabulary (definitions only; no reference to the search code).
    [is_mono_on H P hn pn m]: the list of pairs [m] is an injective total map from the
    pattern nodes [pn] into the host nodes [hn] that preserves the selected node
    attributes, has host hcount >= pattern hcount, and sends every pattern edge (between
    mapped nodes) onto a host edge with equal selected edge attributes.
    [gconn g]: connectivity = reflexive-transitive closure of adjacency.
    [separating]: different pattern components go to different host components.
    [vf2_contract]: what the theorems assume about one call of the networkx VF2
    enumeration (sound, complete, duplicate-free; mappings are compared as sets of pairs,
    i.e. up to [Permutation] of the pair list, as Python dicts are). *)
From Coq Require Import List NArith Bool Arith Lia Permutation SetoidList Relations.
From SK Require Import lib.LGraph model.C06_Model.
Import ListNotations.

(** structural sanity of an input graph (weaker than [LGraph.wf]: repeated edge
    entries are allowed, the first one counts, as in [adj]) *)
Definition gwf (g : graph) : Prop :=
  NoDup (node_ids g) /\
  forall a b x, In (a, b, x) (gedges g) -> In a (node_ids g) /\ In b (node_ids g) /\ a <> b.

Definition adjacent (g : graph) (a b : N) : Prop := LGraph.adj g a b <> None.
Definition gconn (g : graph) : N -> N -> Prop := clos_refl_trans N (adjacent g).

Definition is_mono_on (H P : graph) (hn pn : list N) (m : mapping) : Prop :=
  NoDup (map fst m) /\
  (forall p, In p (map fst m) <-> In p pn) /\
  NoDup (map snd m) /\
  (forall p h, In (p, h) m -> In h hn /\ nm (lab H h) (lab P p) = true) /\
  (forall p h p' h' b, In (p, h) m -> In (p', h') m -> LGraph.adj P p p' = Some b ->
     exists b', LGraph.adj H h h' = Some b' /\ em b' b = true).

Definition is_mono (H P : graph) : mapping -> Prop := is_mono_on H P (node_ids H) (node_ids P).

Definition separating (H P : graph) (m : mapping) : Prop :=
  forall p h p' h', In (p, h) m -> In (p', h') m -> gconn H h h' -> gconn P p p'.

Definition vf2_contract (enum : list N -> list N -> list mapping) (H P : graph) (hn pn : list N) : Prop :=
  (forall m, In m (enum hn pn) -> is_mono_on H P hn pn m) /\
  (forall m, is_mono_on H P hn pn m -> exists m', In m' (enum hn pn) /\ Permutation m m') /\
  NoDupA (@Permutation (N * N)) (enum hn pn).

(** the calls the search code can make: whole host x whole pattern, and pattern component x
    host component that is large enough *)
Definition oracle_ok (enum : list N -> list N -> list mapping) (H P : graph) : Prop :=
  vf2_contract enum H P (node_ids H) (node_ids P) /\
  forall hc pc, In hc (comps H) -> In pc (comps P) -> length pc <= length hc -> vf2_contract enum H P hc pc.

(** result limits as the property text states them: [max_results] keeps a prefix,
    a (kept) list longer than [threshold] is emptied.  [maxr = 0] encodes None. *)
Definition limit {X} (maxr thr : N) (U : list X) : list X :=
  let k := if (maxr =? 0)%N then lenN U else N.min maxr (lenN U) in
  if (thr <? k)%N then [] else firstn (N.to_nat k) U.

(** the threshold [T] is not binding for strategy [strat] on this input: raising it further
    does not change the (max_results-free) result *)
Definition not_binding (enum : list N -> list N -> list mapping) (strat : N) (strict : bool) (H P : graph) (T : N) : Prop :=
  forall T', (T <= T')%N -> find enum (Cfg strat 0 T' strict false) H P = find enum (Cfg strat 0 T strict false) H P.
