(* Design-time probe for lib/IR.v, part 1: sorted duplicate-free key lists are canonical. Stdlib only. *)
From Coq Require Import List Arith Bool Lia Permutation.
Import ListNotations.
Set Implicit Arguments.

Section SortKeys.
Variable S : Type.
Variable leb : S -> S -> bool.
Hypothesis leb_total : forall a b, leb a b = true \/ leb b a = true.
Hypothesis leb_trans : forall a b c, leb a b = true -> leb b c = true -> leb a c = true.
Hypothesis leb_antisym : forall a b, leb a b = true -> leb b a = true -> a = b.

Definition eqb (a b : S) : bool := leb a b && leb b a.
Lemma eqb_eq a b : eqb a b = true <-> a = b.
Proof.
  unfold eqb. split.
  - intros H. apply andb_prop in H. destruct H. auto.
  - intros ->. destruct (leb_total b b) as [H|H]; rewrite H; reflexivity.
Qed.
Lemma leb_refl a : leb a a = true.
Proof. destruct (leb_total a a); auto. Qed.

Definition ltb (a b : S) : bool := leb a b && negb (leb b a).
Lemma ltb_spec a b : ltb a b = true <-> leb a b = true /\ a <> b.
Proof.
  unfold ltb. rewrite andb_true_iff, negb_true_iff. split; intros [H1 H2]; split; auto.
  - intros ->. rewrite leb_refl in H2. discriminate.
  - destruct (leb b a) eqn:E; auto. exfalso. apply H2. auto.
Qed.

Fixpoint ins (x : S) (l : list S) : list S :=
  match l with
  | [] => [x]
  | y :: l' => if leb x y then (if leb y x then l else x :: l) else y :: ins x l'
  end.
Definition sort_dedup (l : list S) : list S := fold_right ins [] l.

Inductive ssorted : list S -> Prop :=
| ss_nil : ssorted []
| ss_cons x l : ssorted l -> (forall y, In y l -> ltb x y = true) -> ssorted (x :: l).

Lemma ltb_trans a b c : ltb a b = true -> ltb b c = true -> ltb a c = true.
Proof.
  rewrite !ltb_spec. intros [H1 N1] [H2 N2]. split; [eauto|].
  intros ->. apply N1. apply leb_antisym; auto.
Qed.

Lemma ins_in x l y : In y (ins x l) <-> y = x \/ In y l.
Proof.
  induction l as [|z l IH]; simpl.
  - intuition.
  - destruct (leb x z) eqn:E1.
    + destruct (leb z x) eqn:E2.
      * assert (x = z) by auto. subst. simpl. intuition.
      * simpl. intuition.
    + simpl. rewrite IH. intuition.
Qed.

Lemma ins_sorted x l : ssorted l -> ssorted (ins x l).
Proof.
  induction 1 as [|z l Hs IH Hz]; simpl.
  - constructor; [constructor|]. intros y [].
  - destruct (leb x z) eqn:E1.
    + destruct (leb z x) eqn:E2.
      * constructor; auto.
      * constructor; [constructor; auto|].
        assert (Hxz : ltb x z = true) by (unfold ltb; rewrite E1, E2; reflexivity).
        intros y [<-|I]; auto. eapply ltb_trans; eauto.
    + constructor; auto. intros y I. apply ins_in in I. destruct I as [->|I]; auto.
      unfold ltb. destruct (leb_total x z) as [H|H]; [congruence|]. rewrite H, E1. reflexivity.
Qed.

Lemma sort_dedup_sorted l : ssorted (sort_dedup l).
Proof. induction l; simpl; [constructor|apply ins_sorted; auto]. Qed.
Lemma sort_dedup_in l y : In y (sort_dedup l) <-> In y l.
Proof. induction l as [|x l IH]; simpl; [tauto|]. rewrite ins_in, IH. intuition. Qed.

Lemma ltb_irrefl a : ltb a a = false.
Proof. unfold ltb. rewrite leb_refl. reflexivity. Qed.

Lemma ssorted_unique l : ssorted l -> forall l', ssorted l' -> (forall y, In y l <-> In y l') -> l = l'.
Proof.
  induction 1 as [|x l Hs IH Hx]; intros l' Hs' Hiff.
  - destruct l' as [|z l']; auto. exfalso. apply (Hiff z). left; reflexivity.
  - destruct Hs' as [|z l' Hs' Hz].
    + exfalso. apply (Hiff x). left; reflexivity.
    + assert (x = z).
      { assert (Ix : In x (z :: l')) by (apply Hiff; left; reflexivity).
        assert (Iz : In z (x :: l)) by (apply Hiff; left; reflexivity).
        destruct Ix as [E|Ix]; auto. destruct Iz as [E|Iz]; auto.
        assert (C : ltb z z = true) by (eapply ltb_trans; [apply (Hz _ Ix)|apply (Hx _ Iz)]). rewrite ltb_irrefl in C. discriminate. }
      subst z. f_equal. apply IH; auto.
      intros y. split; intros I.
      * assert (I' : In y (x :: l')) by (apply Hiff; right; exact I). destruct I' as [<-|]; auto.
        specialize (Hx _ I). rewrite ltb_irrefl in Hx. discriminate.
      * assert (I' : In y (x :: l)) by (apply Hiff; right; exact I). destruct I' as [<-|]; auto.
        specialize (Hz _ I). rewrite ltb_irrefl in Hz. discriminate.
Qed.

Theorem sort_dedup_ext l l' : (forall y, In y l <-> In y l') -> sort_dedup l = sort_dedup l'.
Proof.
  intros H. apply ssorted_unique; try apply sort_dedup_sorted.
  intros y. rewrite !sort_dedup_in. apply H.
Qed.
End SortKeys.
