(** C06 — vocabulary for the history theorems (definitions only). *)
From Coq Require Import List NArith Bool.
From SK Require Import lib.LGraph model.C06_Model model.C06_Attrs model.C06_Hist.
Import ListNotations.

(** a Python dict has one entry per key *)
Definition dict_ok (d : rattrs) : Prop := NoDup (map fst d).

(** two states of a graph object that agree on everything except possibly the value of the node-attribute
    name [k]: same node ids in the same order, same numeric hcounts, well-formed dictionaries, the same
    [dict.get] for every other name; the same edges *)
Definition agree_off (k : N) (g1 g2 : rgraph) : Prop :=
  gedges g1 = gedges g2 /\
  Forall2 (fun p1 p2 : N * rnlab =>
             fst p1 = fst p2 /\ snd (snd p1) = snd (snd p2) /\
             dict_ok (fst (snd p1)) /\ dict_ok (fst (snd p2)) /\
             forall k', k' <> k -> aget k' (fst (snd p1)) = aget k' (fst (snd p2)))
          (gnodes g1) (gnodes g2).

(** every node dictionary has one entry per key *)
Definition state_ok (g : rgraph) : Prop := Forall (fun p : N * rnlab => dict_ok (fst (snd p))) (gnodes g).

(** a step the non-interference theorem allows: any edit (a created node comes with a well-formed
    dictionary), result mutations, and searches that do not select [k] *)
Definition step_off (k : N) (s : hstep) : Prop :=
  match s with
  | HEdit _ (EAddNode _ l) => dict_ok (fst l)
  | HEdit _ _ => True
  | HSearch _ na _ _ => ~ In k na
  | HMutateResult => True
  end.
