(** Easy direction of Stiemke / Gordan on integer matrices given as lists of rows.
    Executable certificate checkers and their soundness, for EVERY matrix:

      check_pos  n S y = true  ->  conservative n S          (y > 0,  y^T S = 0)
      check_neg  n S x = true  ->  ~ conservative n S        (S x >= 0, S x <> 0)
      check_fpos n S v = true  ->  consistent n S            (v > 0,  S v = 0)
      check_fneg n S y = true  ->  ~ consistent n S          (y^T S >= 0, y^T S <> 0)

    [n] is the number of columns; rows shorter than [n] are read as zero-padded and entries beyond
    column [n] are ignored (so no well-formedness side condition is needed).
    Style: stdlib lists + Z.  The certificate FINDER (exact simplex in harness/gen/c17_exact.py) is untrusted. *)
From Coq Require Import List ZArith Lia Bool Arith.
Import ListNotations.
Open Scope Z_scope.

Fixpoint dot (u v : list Z) : Z :=
  match u, v with
  | x :: u', y :: v' => x * y + dot u' v'
  | _, _ => 0
  end.

Definition col (j : nat) (S : list (list Z)) : list Z := map (fun row => nth j row 0) S.
Definition matvec (S : list (list Z)) (x : list Z) : list Z := map (fun row => dot row x) S.
Definition vecmat (n : nat) (y : list Z) (S : list (list Z)) : list Z := map (fun j => dot y (col j S)) (seq 0 n).

Definition all_pos (v : list Z) : bool := forallb (fun t => 0 <? t) v.
Definition all_nonneg (v : list Z) : bool := forallb (fun t => 0 <=? t) v.
Definition all_zero (v : list Z) : bool := forallb (fun t => t =? 0) v.
Definition some_nonzero (v : list Z) : bool := existsb (fun t => negb (t =? 0)) v.

(** a strictly positive conservation law exists *)
Definition conservative (n : nat) (S : list (list Z)) : Prop :=
  exists y, length y = length S /\ Forall (fun t => 0 < t) y /\ Forall (fun t => t = 0) (vecmat n y S).
(** a strictly positive steady flux exists *)
Definition consistent (n : nat) (S : list (list Z)) : Prop :=
  exists v, length v = n /\ Forall (fun t => 0 < t) v /\ Forall (fun t => t = 0) (matvec S v).

Definition check_pos (n : nat) (S : list (list Z)) (y : list Z) : bool :=
  (length y =? length S)%nat && all_pos y && all_zero (vecmat n y S).
Definition check_neg (n : nat) (S : list (list Z)) (x : list Z) : bool :=
  (length x =? n)%nat && all_nonneg (matvec S x) && some_nonzero (matvec S x).
Definition check_fpos (n : nat) (S : list (list Z)) (v : list Z) : bool :=
  (length v =? n)%nat && all_pos v && all_zero (matvec S v).
Definition check_fneg (n : nat) (S : list (list Z)) (y : list Z) : bool :=
  (length y =? length S)%nat && all_nonneg (vecmat n y S) && some_nonzero (vecmat n y S).

(** certificates and the decision they justify *)
Inductive fcert := FPos (v : list Z) | FNeg (v : list Z).
Definition decide_conservative (n : nat) (S : list (list Z)) (c : fcert) : option bool :=
  match c with
  | FPos y => if check_pos n S y then Some true else None
  | FNeg x => if check_neg n S x then Some false else None
  end.
Definition decide_consistent (n : nat) (S : list (list Z)) (c : fcert) : option bool :=
  match c with
  | FPos v => if check_fpos n S v then Some true else None
  | FNeg y => if check_fneg n S y then Some false else None
  end.

(* ------------------------------------------------------------------ lemmas *)

Lemma all_pos_spec v : all_pos v = true <-> Forall (fun t => 0 < t) v.
Proof. unfold all_pos. rewrite forallb_forall, Forall_forall. split; intros H x I; specialize (H x I); lia. Qed.
Lemma all_nonneg_spec v : all_nonneg v = true <-> Forall (fun t => 0 <= t) v.
Proof. unfold all_nonneg. rewrite forallb_forall, Forall_forall. split; intros H x I; specialize (H x I); lia. Qed.
Lemma all_zero_spec v : all_zero v = true <-> Forall (fun t => t = 0) v.
Proof. unfold all_zero. rewrite forallb_forall, Forall_forall. split; intros H x I; specialize (H x I); lia. Qed.
Lemma some_nonzero_spec v : some_nonzero v = true <-> Exists (fun t => t <> 0) v.
Proof.
  unfold some_nonzero. rewrite existsb_exists, Exists_exists.
  split; intros (x & I & H); exists x; split; auto.
  - destruct (Z.eqb_spec x 0); [discriminate|auto].
  - destruct (Z.eqb_spec x 0); [contradiction|auto].
Qed.

Lemma dot_nil_r u : dot u [] = 0.
Proof. destruct u; reflexivity. Qed.

Lemma dot_zero_l u v : Forall (fun t => t = 0) u -> dot u v = 0.
Proof.
  intros H; revert v; induction H as [|x u Hx _ IH]; intros v; [reflexivity|].
  destruct v as [|y v]; [reflexivity|]. simpl. rewrite IH. subst. lia.
Qed.
Lemma dot_zero_r u v : Forall (fun t => t = 0) v -> dot u v = 0.
Proof.
  intros H; revert u; induction H as [|y v Hy _ IH]; intros u; [apply dot_nil_r|].
  destruct u as [|x u]; [reflexivity|]. simpl. rewrite IH. subst. lia.
Qed.

(** y > 0, t >= 0, t <> 0, same length  ->  y.t > 0 *)
Lemma dot_nonneg y : forall t, Forall (fun a => 0 < a) y -> Forall (fun a => 0 <= a) t -> 0 <= dot y t.
Proof.
  induction y as [|a y IH]; intros t Hy Ht; [simpl; lia|].
  destruct t as [|b t]; [simpl; lia|].
  apply Forall_cons_iff in Hy. destruct Hy as [Ha Hy]. apply Forall_cons_iff in Ht. destruct Ht as [Hb Ht].
  simpl. specialize (IH t Hy Ht). nia.
Qed.
Lemma dot_pos y : forall t, length y = length t -> Forall (fun a => 0 < a) y -> Forall (fun a => 0 <= a) t ->
  Exists (fun a => a <> 0) t -> 0 < dot y t.
Proof.
  induction y as [|a y IH]; intros t L Hy Ht He.
  - destruct t; [inversion He|discriminate].
  - destruct t as [|b t]; [discriminate|].
    apply Forall_cons_iff in Hy. destruct Hy as [Ha Hy]. apply Forall_cons_iff in Ht. destruct Ht as [Hb Ht].
    simpl. injection L as L. apply Exists_cons in He. destruct He as [He|He].
    + pose proof (@dot_nonneg y t Hy Ht). nia.
    + specialize (IH t L Hy Ht He). nia.
Qed.
Lemma dot_comm u : forall v, dot u v = dot v u.
Proof. induction u as [|x u IH]; intros [|y v]; simpl; auto. rewrite IH. lia. Qed.

(** duality:  y . (S x) = (y^T S) . x   whenever x has exactly n entries *)
Lemma dot_seq_expand (x : list Z) : forall (f : nat -> Z) k,
  dot (map f (seq k (length x))) x = dot (map (fun j => f (k + j)%nat) (seq 0 (length x))) x.
Proof.
  intros f k. rewrite <- (Nat.add_0_r k) at 1. generalize 0%nat as o.
  induction x as [|a x IH]; intros o; [reflexivity|]. simpl. f_equal.
  rewrite <- Nat.add_succ_r. rewrite IH. reflexivity.
Qed.

Lemma dot_row_as_sum (row : list Z) : forall x, dot row x = dot (map (fun j => nth j row 0) (seq 0 (length x))) x.
Proof.
  induction row as [|a row IH]; intros x.
  - simpl. symmetry. apply dot_zero_l. apply Forall_forall. intros t I. apply in_map_iff in I.
    destruct I as (j & <- & _). destruct j; reflexivity.
  - destruct x as [|b x]; [reflexivity|]. simpl. f_equal. rewrite IH.
    rewrite <- seq_shift, map_map. reflexivity.
Qed.

Lemma dot_add_l u u' : forall v, length u = length u' ->
  dot (map (fun p => fst p + snd p) (combine u u')) v = dot u v + dot u' v.
Proof.
  revert u'; induction u as [|a u IH]; intros [|a' u'] v L; try discriminate; [reflexivity|].
  destruct v as [|b v]; [reflexivity|]. simpl. injection L as L. rewrite IH by auto. lia.
Qed.
Lemma dot_scale_l c u : forall v, dot (map (Z.mul c) u) v = c * dot u v.
Proof. induction u as [|a u IH]; intros [|b v]; simpl; try lia. rewrite IH. lia. Qed.

Lemma duality n (S : list (list Z)) : forall y x, length x = n ->
  dot y (matvec S x) = dot (vecmat n y S) x.
Proof.
  intros y x L. subst n. revert y. induction S as [|row S IH]; intros y.
  - unfold vecmat, matvec, col. simpl. rewrite dot_nil_r. symmetry. apply dot_zero_l.
    apply Forall_forall. intros t I. apply in_map_iff in I. destruct I as (j & <- & _). first [apply dot_nil_r | reflexivity].
  - destruct y as [|a y].
    + simpl. symmetry. apply dot_zero_l. apply Forall_forall. intros t I. apply in_map_iff in I.
      destruct I as (j & <- & _). reflexivity.
    + simpl. rewrite IH. rewrite (dot_row_as_sum row x).
      rewrite <- dot_scale_l.
      rewrite <- dot_add_l by (unfold vecmat; rewrite !map_length; reflexivity).
      f_equal. unfold vecmat.
      set (l := seq 0 (length x)). clearbody l. induction l as [|j l IHl]; [reflexivity|].
      simpl. f_equal; auto.
Qed.

(* ------------------------------------------------------------------ soundness *)

Theorem pos_cert_sound n S y : check_pos n S y = true -> conservative n S.
Proof.
  unfold check_pos. intros H. apply andb_prop in H. destruct H as [H Hz]. apply andb_prop in H. destruct H as [Hl Hp].
  exists y. split; [apply Nat.eqb_eq; auto|]. split; [apply all_pos_spec; auto | apply all_zero_spec; auto].
Qed.

Theorem neg_cert_sound n S x : check_neg n S x = true -> ~ conservative n S.
Proof.
  unfold check_neg. intros H (y & Ly & Py & Zy).
  apply andb_prop in H. destruct H as [H Hs]. apply andb_prop in H. destruct H as [Hl Hn].
  apply Nat.eqb_eq in Hl. apply all_nonneg_spec in Hn. apply some_nonzero_spec in Hs.
  assert (P : 0 < dot y (matvec S x)).
  { apply dot_pos; auto. unfold matvec. rewrite map_length. auto. }
  rewrite (@duality n S y x Hl) in P. rewrite (@dot_zero_l _ x Zy) in P. lia.
Qed.

Theorem fpos_cert_sound n S v : check_fpos n S v = true -> consistent n S.
Proof.
  unfold check_fpos. intros H. apply andb_prop in H. destruct H as [H Hz]. apply andb_prop in H. destruct H as [Hl Hp].
  exists v. split; [apply Nat.eqb_eq; auto|]. split; [apply all_pos_spec; auto | apply all_zero_spec; auto].
Qed.

Theorem fneg_cert_sound n S y : check_fneg n S y = true -> ~ consistent n S.
Proof.
  unfold check_fneg. intros H (v & Lv & Pv & Zv).
  apply andb_prop in H. destruct H as [H Hs]. apply andb_prop in H. destruct H as [Hl Hn].
  apply all_nonneg_spec in Hn. apply some_nonzero_spec in Hs.
  assert (P : 0 < dot v (vecmat n y S)).
  { apply dot_pos; auto. unfold vecmat. rewrite map_length, seq_length. auto. }
  rewrite dot_comm, <- (@duality n S y v Lv) in P. rewrite (@dot_zero_r y _ Zv) in P. lia.
Qed.

Theorem decide_conservative_sound n S c b : decide_conservative n S c = Some b -> (b = true <-> conservative n S).
Proof.
  destruct c as [y|x]; simpl.
  - destruct (check_pos n S y) eqn:E; [|discriminate]. intros [= <-]. split; auto. intros _. eapply pos_cert_sound; eauto.
  - destruct (check_neg n S x) eqn:E; [|discriminate]. intros [= <-]. split; [discriminate|].
    intros C. exfalso. eapply neg_cert_sound; eauto.
Qed.

Theorem decide_consistent_sound n S c b : decide_consistent n S c = Some b -> (b = true <-> consistent n S).
Proof.
  destruct c as [v|y]; simpl.
  - destruct (check_fpos n S v) eqn:E; [|discriminate]. intros [= <-]. split; auto. intros _. eapply fpos_cert_sound; eauto.
  - destruct (check_fneg n S y) eqn:E; [|discriminate]. intros [= <-]. split; [discriminate|].
    intros C. exfalso. eapply fneg_cert_sound; eauto.
Qed.

(* non-vacuity *)
Example farkas_ex1 : decide_conservative 2 [[-1; 1]; [-1; 1]; [1; -1]] (FPos [1; 1; 2]) = Some true.   (* A+B <-> C *)
Proof. reflexivity. Qed.
Example farkas_ex2 : decide_conservative 1 [[1]] (FNeg [1]) = Some false.                               (* 0 -> A *)
Proof. reflexivity. Qed.
Example farkas_ex3 : decide_consistent 2 [[1; 2]] (FNeg [1]) = Some false.                              (* 0 -> A, 0 -> 2A *)
Proof. reflexivity. Qed.
Example farkas_ex4 : decide_consistent 2 [[-1; 1]; [1; -1]] (FPos [1; 1]) = Some true.                  (* A <-> B *)
Proof. reflexivity. Qed.
