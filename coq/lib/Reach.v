(* Design-time probe for lib/Reach.v: reachability closure by saturation with fuel; the result, when the
   saturation test succeeds, is exactly the set of nodes connected to a seed; fuel |nodes| always suffices. *)
From Coq Require Import List Arith NArith Bool Lia.
Import ListNotations.
Set Implicit Arguments.

Section Reach.
Variable nodes : list N.
Variable nbr : N -> list N.                       (* successors / neighbours *)
Hypothesis nbr_in : forall u v, In v (nbr u) -> In v nodes.

Definition mem (x : N) (l : list N) : bool := existsb (N.eqb x) l.
Lemma mem_spec x l : mem x l = true <-> In x l.
Proof.
  unfold mem. rewrite existsb_exists. split.
  - intros (y & I & E). apply N.eqb_eq in E. subst. auto.
  - intros I. exists x. split; auto. apply N.eqb_refl.
Qed.

(* add the elements of l that are not yet in S (keeps S duplicate-free) *)
Fixpoint add_all (l S : list N) : list N :=
  match l with
  | [] => S
  | x :: l' => if mem x S then add_all l' S else add_all l' (x :: S)
  end.
Lemma add_all_in l : forall S y, In y (add_all l S) <-> In y l \/ In y S.
Proof.
  induction l as [|x l IH]; intros S y; simpl; [tauto|].
  destruct (mem x S) eqn:E; rewrite IH; simpl.
  - apply mem_spec in E. intuition. subst. auto.
  - intuition.
Qed.
Lemma add_all_nodup l : forall S, NoDup S -> NoDup (add_all l S).
Proof.
  induction l as [|x l IH]; intros S H; simpl; auto.
  destruct (mem x S) eqn:E; auto. apply IH. constructor; auto.
  intro I. apply mem_spec in I. congruence.
Qed.
Lemma add_all_length l : forall S, length S <= length (add_all l S).
Proof.
  induction l as [|x l IH]; intros S; simpl; auto.
  destruct (mem x S); auto. specialize (IH (x :: S)). simpl in IH. lia.
Qed.

Definition step (S : list N) : list N := add_all (flat_map nbr S) S.

Fixpoint saturate (fuel : nat) (S : list N) : option (list N) :=
  match fuel with
  | 0 => None
  | Datatypes.S f => let S' := step S in if length S' =? length S then Some S else saturate f S'
  end.

Inductive conn (seeds : list N) : N -> Prop :=
| conn_seed x : In x seeds -> conn seeds x
| conn_step u v : conn seeds u -> In v (nbr u) -> conn seeds v.

Lemma step_in S y : In y (step S) <-> In y S \/ exists u, In u S /\ In y (nbr u).
Proof.
  unfold step. rewrite add_all_in, in_flat_map. tauto.
Qed.

(* equal length + inclusion + NoDup => no new element *)
Lemma add_all_same_length l : forall S, length (add_all l S) = length S -> forall y, In y l -> In y S.
Proof.
  induction l as [|x l IH]; intros S H y I; [destruct I|].
  simpl in H. destruct (mem x S) eqn:E.
  - destruct I as [<-|I]; [apply mem_spec; auto | eauto].
  - exfalso. pose proof (add_all_length l (x :: S)) as L. simpl in L. lia.
Qed.

Theorem saturate_spec seeds fuel : forall S R,
  (forall x, In x S -> conn seeds x) -> (forall x, In x seeds -> In x S) ->
  saturate fuel S = Some R -> forall x, In x R <-> conn seeds x.
Proof.
  induction fuel as [|f IH]; intros S R Hs Hseed E x; [discriminate|].
  simpl in E. destruct (length (step S) =? length S) eqn:L.
  - inversion E; subst R. apply Nat.eqb_eq in L. split; auto.
    induction 1 as [y I|u v Hu IHu I]; auto.
    apply (add_all_same_length _ _ L). apply in_flat_map. exists u. auto.
  - eapply IH; [| |exact E].
    + intros y I. apply step_in in I. destruct I as [I|(u & Iu & Iy)]; auto. eapply conn_step; eauto.
    + intros y I. apply step_in. auto.
Qed.

(* fuel: a duplicate-free subset of [nodes] grows at every unsuccessful round *)
Lemma NoDup_incl_len (l l' : list N) : NoDup l -> incl l l' -> length l <= length l'.
Proof. apply NoDup_incl_length. Qed.

Lemma step_nodup S : NoDup S -> NoDup (step S).
Proof. apply add_all_nodup. Qed.
Lemma step_incl S : incl S nodes -> incl (step S) nodes.
Proof.
  intros H y I. apply step_in in I. destruct I as [I|(u & _ & Iy)]; auto. eapply nbr_in; eauto.
Qed.

Theorem saturate_fuel : forall fuel S, NoDup S -> incl S nodes ->
  length nodes - length S < fuel -> saturate fuel S <> None.
Proof.
  induction fuel as [|f IH]; intros S Hn Hi Hf; [lia|].
  simpl. destruct (length (step S) =? length S) eqn:L; [discriminate|].
  apply Nat.eqb_neq in L. apply IH.
  - apply step_nodup; auto.
  - apply step_incl; auto.
  - pose proof (add_all_length (flat_map nbr S) S) as G. fold (step S) in G.
    pose proof (NoDup_incl_len (step_nodup Hn) (step_incl Hi)). lia.
Qed.
End Reach.
Print Assumptions saturate_spec.
Print Assumptions saturate_fuel.
