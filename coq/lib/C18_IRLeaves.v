(** C18 — more generic facts about the leaf enumeration of lib/IRCore.v: leaves are pairwise distinct, and a leaf is
    determined by its tail (the flattened discrete partition), because the tail of every leaf below a partition
    permutes each cell in place and an individualised node comes first in its cell. *)
From Coq Require Import List NArith ZArith Bool Arith Lia Permutation.
From SK Require Import lib.IRSortKeys lib.IRCore lib.IRSearch lib.C18_IRValid.
Import ListNotations.

Definition cover (Q : partition) (r : list N) : Prop := exists Rs, r = concat Rs /\ Forall2 (@Permutation N) Q Rs.

Lemma cover_refl Q : cover Q (concat Q).
Proof. exists Q. split; auto. induction Q; constructor; auto. Qed.

Lemma Forall2_perm_concat (Q Rs : list (list N)) : Forall2 (@Permutation N) Q Rs -> Permutation (concat Q) (concat Rs).
Proof. induction 1; simpl; auto. apply Permutation_app; auto. Qed.
Lemma Forall2_perm_length (Q Rs : list (list N)) : Forall2 (@Permutation N) Q Rs -> length (concat Q) = length (concat Rs).
Proof. intros H. apply Permutation_length. apply Forall2_perm_concat. auto. Qed.

Lemma cover_flat_map (F : cell -> list cell) Q : (forall c, Permutation (concat (F c)) c) ->
  forall r, cover (flat_map F Q) r -> cover Q r.
Proof.
  intros HF. induction Q as [|c Q IH]; intros r (Rs & -> & H); simpl in H.
  - inversion H; subst. exists []. split; auto.
  - apply Forall2_app_inv_l in H. destruct H as (R1 & R2 & H1 & H2 & ->).
    destruct (IH (concat R2) (ex_intro _ R2 (conj eq_refl H2))) as (Rs2 & E2 & H2').
    exists (concat R1 :: Rs2). split.
    + simpl. rewrite concat_app, E2. reflexivity.
    + constructor; auto. eapply perm_trans; [apply Permutation_sym, HF|]. apply Forall2_perm_concat. auto.
Qed.

Section Leaves.
Variable S : Type.
Variable sleb : S -> S -> bool.
Hypothesis sleb_total : forall a b, sleb a b = true \/ sleb b a = true.
Hypothesis sleb_trans : forall a b c, sleb a b = true -> sleb b c = true -> sleb a c = true.
Hypothesis sleb_antisym : forall a b, sleb a b = true -> sleb b a = true -> a = b.
Variable sig : partition -> N -> S.
Variable rf : nat.
Variable nodes : list N.
Hypothesis nodes_nd : NoDup nodes.

Lemma cover_refine_step Q r : cover (refine_step sleb sig Q) r -> cover Q r.
Proof.
  unfold refine_step. apply cover_flat_map. intros c. apply (split_cell_perm S sleb sleb_total sleb_trans sleb_antisym).
Qed.
Lemma cover_refine fuel : forall Q r, cover (refine sleb sig fuel Q) r -> cover Q r.
Proof.
  induction fuel as [|f IH]; intros Q r H; simpl in H; auto.
  destruct (_ =? _); [apply cover_refine_step; auto|apply cover_refine_step, IH; auto].
Qed.

Lemma cover_individualise P i v r : vpart nodes P -> first_big P = Some i -> In v (nth i P []) ->
  cover (individualise P i v) r -> cover P r /\ nth (length (concat (firstn i P))) r 0%N = v.
Proof.
  intros [Hc Hne] Hfb Hv (Rs & -> & H). destruct (first_big_spec P i Hfb) as [Hi Hbig].
  unfold individualise in H.
  remember (firstn i P) as hd. remember (skipn (Datatypes.S i) P) as tl. remember (nth i P []) as c.
  assert (HP : P = hd ++ c :: tl) by (subst; apply split_nth; auto).
  clear Heqhd Heqtl Heqc Hfb Hi. subst P.
  assert (Hndc : NoDup c).
  { apply (NoDup_concat_cell (hd ++ c :: tl)); [eapply Permutation_NoDup; [apply Permutation_sym; exact Hc|auto]|].
    apply in_or_app. right. left. auto. }
  pose proof (rest_perm v c Hndc Hv) as Hr.
  assert (Hrne : rest v c <> []).
  { intro E. rewrite E in Hr. apply Permutation_length in Hr. simpl in Hr. lia. }
  destruct (rest v c) as [|r0 rr] eqn:Er; [congruence|].
  apply Forall2_app_inv_l in H. destruct H as (R1 & R2 & H1 & H2 & ->).
  cbn [app] in H2. inversion H2 as [|? rv ? R3 Hv' H3]; subst. inversion H3 as [|? rr' ? R4 Hrr H4]; subst.
  apply Permutation_length_1_inv in Hv'. subst rv.
  split.
  - exists (R1 ++ (v :: rr') :: R4). split.
    + rewrite !concat_app. simpl. reflexivity.
    + apply Forall2_app; auto. constructor; auto.
      eapply perm_trans; [apply Permutation_sym; exact Hr|]. apply perm_skip. auto.
  - rewrite concat_app. rewrite (Forall2_perm_length _ _ H1). rewrite app_nth2 by lia. rewrite Nat.sub_diag. reflexivity.
Qed.

Theorem leaves_cover fuel : forall P pre p, vpart nodes P -> In p (leaves sleb sig rf fuel P pre) ->
  exists ext r, p = (pre ++ ext) ++ r /\ Permutation r nodes /\ cover P r.
Proof.
  induction fuel as [|f IH]; intros P pre p HP Hin; simpl in Hin; [contradiction|].
  pose proof (refine_vpart S sleb sleb_total sleb_trans sleb_antisym sig nodes rf P HP) as HP'.
  destruct (first_big (refine sleb sig rf P)) as [i|] eqn:Efb.
  - apply in_flat_map in Hin. destruct Hin as (v & Hv & Hin).
    destruct (individualise_props nodes _ i v nodes_nd HP' Efb Hv) as [HPi _].
    destruct (IH _ _ _ HPi Hin) as (ext & r & -> & Hr & Hcv). exists (v :: ext), r. split; [|split]; auto.
    + rewrite <- (app_assoc pre [v] ext). reflexivity.
    + apply (cover_refine rf). apply (cover_individualise _ i v r HP' Efb Hv Hcv).
  - destruct Hin as [<-|[]]. exists [], (concat (refine sleb sig rf P)). split; [rewrite app_nil_r; auto|].
    split; [apply (proj1 HP')|]. apply (cover_refine rf). apply cover_refl.
Qed.

Lemma app_inv_length_r {A} (a a' b b' : list A) : length b = length b' -> a ++ b = a' ++ b' -> a = a' /\ b = b'.
Proof.
  intros Hl E. assert (Hla : length a = length a').
  { pose proof (f_equal (@length A) E) as El. rewrite !app_length in El. lia. }
  revert a' Hla E. induction a as [|x a IH]; intros [|x' a'] Hla E; simpl in *; try discriminate; auto.
  inversion E; subst. destruct (IH a' ltac:(lia) H1) as [-> ->]. auto.
Qed.

(** a leaf is determined by its tail *)
Theorem leaves_tail_inj fuel : forall P pre p q, vpart nodes P ->
  In p (leaves sleb sig rf fuel P pre) -> In q (leaves sleb sig rf fuel P pre) ->
  (exists e e' r, p = (pre ++ e) ++ r /\ q = (pre ++ e') ++ r /\ length r = length nodes) -> p = q.
Proof.
  induction fuel as [|f IH]; intros P pre p q HP Hp Hq Hsame; simpl in Hp, Hq; [contradiction|].
  pose proof (refine_vpart S sleb sleb_total sleb_trans sleb_antisym sig nodes rf P HP) as HP'.
  destruct (first_big (refine sleb sig rf P)) as [i|] eqn:Efb.
  - apply in_flat_map in Hp, Hq. destruct Hp as (v & Hv & Hp), Hq as (w & Hw & Hq).
    destruct (individualise_props nodes _ i v nodes_nd HP' Efb Hv) as [HPv _].
    destruct (individualise_props nodes _ i w nodes_nd HP' Efb Hw) as [HPw _].
    destruct (leaves_cover f _ _ _ HPv Hp) as (e1 & r1 & E1 & Hr1 & C1).
    destruct (leaves_cover f _ _ _ HPw Hq) as (e2 & r2 & E2 & Hr2 & C2).
    destruct Hsame as (e & e' & r & Ep & Eq & Hlr).
    assert (r1 = r).
    { rewrite Ep in E1. apply app_inv_length_r in E1; [symmetry; tauto|]. rewrite (Permutation_length Hr1). auto. }
    assert (r2 = r).
    { rewrite Eq in E2. apply app_inv_length_r in E2; [symmetry; tauto|]. rewrite (Permutation_length Hr2). auto. }
    subst r1 r2.
    destruct (cover_individualise _ i v r HP' Efb Hv C1) as [_ Nv].
    destruct (cover_individualise _ i w r HP' Efb Hw C2) as [_ Nw].
    assert (Evw : w = v) by congruence. clear Nv Nw. subst w.
    apply (IH _ _ p q HPv Hp Hq). exists e1, e2, r. auto.
  - destruct Hp as [<-|[]], Hq as [<-|[]]. reflexivity.
Qed.

(** leaves are pairwise distinct *)
Lemma leaves_prefix fuel : forall P pre p, In p (leaves sleb sig rf fuel P pre) -> exists t, p = pre ++ t.
Proof.
  induction fuel as [|f IH]; intros P pre p Hin; simpl in Hin; [contradiction|].
  destruct (first_big (refine sleb sig rf P)) as [i|].
  - apply in_flat_map in Hin. destruct Hin as (v & _ & Hin). destruct (IH _ _ _ Hin) as (t & ->).
    exists (v :: t). rewrite <- app_assoc. reflexivity.
  - destruct Hin as [<-|[]]. eauto.
Qed.

Lemma NoDup_flat_map_disj {A B} (F : A -> list B) l : NoDup l -> (forall x, In x l -> NoDup (F x)) ->
  (forall x y z, In x l -> In y l -> x <> y -> In z (F x) -> In z (F y) -> False) -> NoDup (flat_map F l).
Proof.
  induction 1 as [|x l Hx Hl IH]; simpl; intros H1 H2; [constructor|].
  apply NoDup_app_intro; auto.
  - apply IH; auto. intros a b z Ha Hb. apply H2; auto.
  - intros z Hz1 Hz2. apply in_flat_map in Hz2. destruct Hz2 as (y & Hy & Hz2).
    apply (H2 x y z); auto. intro; subst. auto.
Qed.

Theorem leaves_nodup fuel : forall P pre, vpart nodes P -> NoDup (leaves sleb sig rf fuel P pre).
Proof.
  induction fuel as [|f IH]; intros P pre HP; simpl; [constructor|].
  pose proof (refine_vpart S sleb sleb_total sleb_trans sleb_antisym sig nodes rf P HP) as HP'.
  destruct (first_big (refine sleb sig rf P)) as [i|] eqn:Efb; [|constructor; [intros []|constructor]].
  destruct (first_big_spec _ _ Efb) as [Hi _].
  apply NoDup_flat_map_disj.
  - apply (NoDup_concat_cell (refine sleb sig rf P)); [|apply nth_In; auto].
    eapply Permutation_NoDup; [apply Permutation_sym; apply (proj1 HP')|auto].
  - intros v Hv. apply IH. apply (individualise_props nodes _ i v nodes_nd HP' Efb Hv).
  - intros v w z Hv Hw Hne Hz1 Hz2.
    destruct (leaves_prefix _ _ _ _ Hz1) as (t1 & E1). destruct (leaves_prefix _ _ _ _ Hz2) as (t2 & E2).
    rewrite E1, <- !app_assoc in E2. apply app_inv_head in E2. simpl in E2. inversion E2. auto.
Qed.
End Leaves.
