(** Generic theory of first-representative clustering (used by C13, C14.cluster_batches).

    [R rep x] is the decidable test "x belongs to the class represented by rep".  Every clustering
    routine of SynKit compares a new item only with ONE stored member of each existing class.
    - [leaders l]        : the items of [l] that found no related earlier leader, in order;
    - [index_of L x]     : position of the first leader related to [x];
    - [classify T x]     : incremental step against templates [T : list (X * Z)] (class numbers are
                           arbitrary integers; a fresh class is max+1, or 0 when there is none);
    - [classify_list]    : left-to-right iteration of [classify].
    Main results, for R an equivalence on the domain [D]:
      [class_of_partition]      two items of the list share a class  <->  they are R-related;
      [class_of_order_indep]    the partition does not depend on the list order (Permutation);
      [n_classes_order_indep]   nor does the number of classes;
      [classify_spec]           an item goes to the class of its related representative, else max+1;
      [classify_list_partition] after any run from coherent templates, classes agree  <->  R;
      [classify_list_app]       processing in batches = processing in one go;
      [classify_list_nil]       starting from no templates the class NUMBERS are [index_of (leaders l)].
    Stdlib only. *)
From Coq Require Import List Bool Arith ZArith Lia Permutation.
Import ListNotations.

Lemma NoDup_map_inj_in (A B : Type) (f : A -> B) (l : list A) :
  (forall a b, In a l -> In b l -> f a = f b -> a = b) -> NoDup l -> NoDup (map f l).
Proof.
  induction l as [|x r IH]; simpl; intros Hinj Hnd; [constructor|].
  inversion Hnd as [|? ? Hx Hr]; subst. constructor.
  - intros I. apply in_map_iff in I. destruct I as (y & E & Iy).
    assert (y = x) by (apply Hinj; auto). subst. contradiction.
  - apply IH; auto.
Qed.

Lemma Forall2_len (A B : Type) (P : A -> B -> Prop) l l' : Forall2 P l l' -> length l = length l'.
Proof. induction 1; simpl; congruence. Qed.

Section Partition.
Variable X : Type.
Variable R : X -> X -> bool.

(* ------------------------------------------------------------------ definitions *)
Definition related_in (L : list X) (x : X) : bool := existsb (fun y => R y x) L.

Fixpoint leaders_from (acc l : list X) : list X :=
  match l with
  | [] => acc
  | x :: r => if related_in acc x then leaders_from acc r else leaders_from (acc ++ [x]) r
  end.
Definition leaders (l : list X) : list X := leaders_from [] l.

Fixpoint index_of (L : list X) (x : X) : option nat :=
  match L with
  | [] => None
  | y :: r => if R y x then Some O else option_map S (index_of r x)
  end.

Definition class_of (l : list X) (x : X) : option nat := index_of (leaders l) x.

Definition template := (X * Z)%type.
Definition max_class (T : list template) : Z := fold_right Z.max (-1)%Z (map snd T).

Definition classify (T : list template) (x : X) : Z * list template :=
  match find (fun t => R (fst t) x) T with
  | Some t => (snd t, T)
  | None => let c := (max_class T + 1)%Z in (c, T ++ [(x, c)])
  end.

Fixpoint classify_list (T : list template) (l : list X) : list Z * list template :=
  match l with
  | [] => ([], T)
  | x :: r =>
      let '(c, T1) := classify T x in
      let '(cs, T2) := classify_list T1 r in
      (c :: cs, T2)
  end.

Definition templates_of (L : list X) : list template :=
  combine L (map Z.of_nat (seq 0 (length L))).

(* ------------------------------------------------------------------ facts that need no hypothesis on R *)
Lemma related_in_spec L x : related_in L x = true <-> exists y, In y L /\ R y x = true.
Proof. unfold related_in. apply existsb_exists. Qed.

Lemma related_in_false L x : related_in L x = false <-> forall y, In y L -> R y x = false.
Proof.
  split.
  - intros H y Hy. destruct (R y x) eqn:E; [|reflexivity].
    assert (related_in L x = true) by (apply related_in_spec; eauto). congruence.
  - intros H. destruct (related_in L x) eqn:E; [|reflexivity].
    apply related_in_spec in E. destruct E as (y & Hy & E). rewrite (H y Hy) in E. discriminate.
Qed.

Lemma index_of_some L x : related_in L x = true <-> exists n, index_of L x = Some n.
Proof.
  induction L as [|y r IH]; simpl.
  - split; [discriminate|intros (n & H); discriminate].
  - destruct (R y x); simpl.
    + split; eauto.
    + rewrite IH. split; intros (n & H).
      * rewrite H. simpl. eauto.
      * destruct (index_of r x); simpl in H; [eauto|discriminate].
Qed.

Lemma index_of_none L x : related_in L x = false <-> index_of L x = None.
Proof.
  split; intros H.
  - destruct (index_of L x) eqn:E; [|reflexivity].
    assert (related_in L x = true) by (apply index_of_some; eauto). congruence.
  - destruct (related_in L x) eqn:E; [|reflexivity].
    apply index_of_some in E. destruct E as (n & E). congruence.
Qed.

Lemma index_of_nth L x n d : index_of L x = Some n ->
  n < length L /\ R (nth n L d) x = true /\ forall m, m < n -> R (nth m L d) x = false.
Proof.
  revert n. induction L as [|y r IH]; simpl; intros n H; [discriminate|].
  destruct (R y x) eqn:E.
  - inversion H; subst. split; [lia|]. split; [exact E|]. intros m Hm. lia.
  - destruct (index_of r x) as [k|]; simpl in H; [|discriminate]. inversion H; subst.
    destruct (IH k eq_refl) as (H1 & H2 & H3). split; [lia|]. split; [exact H2|].
    intros [|m] Hm; [exact E|]. apply H3. lia.
Qed.

Lemma index_of_app L L' x n : index_of L x = Some n -> index_of (L ++ L') x = Some n.
Proof.
  revert n. induction L as [|y r IH]; simpl; intros n H; [discriminate|].
  destruct (R y x); [exact H|].
  destruct (index_of r x) as [k|]; simpl in H; [|discriminate].
  rewrite (IH k eq_refl). exact H.
Qed.

Lemma index_of_app_none L L' x : index_of L x = None ->
  index_of (L ++ L') x = option_map (fun k => length L + k) (index_of L' x).
Proof.
  induction L as [|y r IH]; simpl; intros H.
  - destruct (index_of L' x); reflexivity.
  - destruct (R y x); [discriminate|].
    destruct (index_of r x); simpl in H; [discriminate|].
    rewrite IH by reflexivity. destruct (index_of L' x); reflexivity.
Qed.

Lemma leaders_from_prefix acc l : exists L', leaders_from acc l = acc ++ L'.
Proof.
  revert acc. induction l as [|x r IH]; intros acc; simpl.
  - exists []. now rewrite app_nil_r.
  - destruct (related_in acc x).
    + apply IH.
    + destruct (IH (acc ++ [x])) as (L' & E). exists (x :: L'). rewrite E, <- app_assoc. reflexivity.
Qed.

Lemma leaders_from_app acc l1 l2 : leaders_from acc (l1 ++ l2) = leaders_from (leaders_from acc l1) l2.
Proof.
  revert acc. induction l1 as [|x r IH]; intros acc; simpl; [reflexivity|].
  destruct (related_in acc x); apply IH.
Qed.

(** every item of the list (and of the accumulator) has a related leader, provided R is reflexive on it *)
Lemma leaders_from_covers acc l x :
  (In x l -> R x x = true) ->
  (related_in acc x = true \/ In x l) -> related_in (leaders_from acc l) x = true.
Proof.
  revert acc. induction l as [|y r IH]; intros acc Hrefl H; simpl.
  - destruct H as [H|[]]. exact H.
  - destruct (related_in acc y) eqn:Ey.
    + apply IH; [intros; apply Hrefl; now right|].
      destruct H as [H|[<-|H]]; auto.
    + apply IH; [intros; apply Hrefl; now right|].
      destruct H as [H|[<-|H]]; auto.
      * left. apply related_in_spec in H. destruct H as (z & Hz & E). apply related_in_spec.
        exists z. split; [apply in_or_app; now left|exact E].
      * left. apply related_in_spec. exists y. split; [apply in_or_app; right; now left|].
        apply Hrefl. now left.
Qed.

Lemma leaders_from_incl acc l y : In y (leaders_from acc l) -> In y acc \/ In y l.
Proof.
  revert acc. induction l as [|x r IH]; intros acc H; simpl in *; [now left|].
  destruct (related_in acc x).
  - destruct (IH _ H); auto.
  - destruct (IH _ H) as [H'|H']; auto. apply in_app_or in H'. destruct H' as [H'|[<-|[]]]; auto.
Qed.

(** leaders are pairwise unrelated in list order: no leader is related to a LATER leader *)
Definition separated (L : list X) : Prop :=
  forall L1 y L2, L = L1 ++ y :: L2 -> related_in L1 y = false.

Lemma separated_snoc L x : separated L -> related_in L x = false -> separated (L ++ [x]).
Proof.
  intros HL Hx L1 y L2 E.
  destruct L2 as [|z L2'] using rev_ind.
  - apply app_inj_tail in E. destruct E as [-> ->]. exact Hx.
  - clear IHL2'. rewrite app_comm_cons, app_assoc in E. apply app_inj_tail in E. destruct E as [E _].
    eapply HL. exact E.
Qed.

Lemma leaders_from_separated acc l : separated acc -> separated (leaders_from acc l).
Proof.
  revert acc. induction l as [|x r IH]; intros acc H; simpl; [exact H|].
  destruct (related_in acc x) eqn:E; apply IH; [exact H|]. apply separated_snoc; assumption.
Qed.

Lemma leaders_separated l : separated (leaders l).
Proof. apply leaders_from_separated. intros L1 y L2 E. destruct L1; discriminate. Qed.

(* ------------------------------------------------------------------ R an equivalence on a domain *)
Variable D : X -> Prop.
Hypothesis R_refl : forall x, D x -> R x x = true.
Hypothesis R_sym : forall x y, D x -> D y -> R x y = true -> R y x = true.
Hypothesis R_trans : forall x y z, D x -> D y -> D z -> R x y = true -> R y z = true -> R x z = true.

Lemma R_sym_false x y : D x -> D y -> R x y = false -> R y x = false.
Proof. intros Dx Dy H. destruct (R y x) eqn:E; [|reflexivity]. rewrite (R_sym _ _ Dy Dx E) in H. discriminate. Qed.

(** in a separated list of domain elements at most one leader is related to a given item *)
Lemma separated_unique L x n m d :
  Forall D L -> D x -> separated L -> n < length L -> m < length L ->
  R (nth n L d) x = true -> R (nth m L d) x = true -> n = m.
Proof.
  intros HD Dx Hs Hn Hm En Em.
  assert (Hlt : forall a b, a < b -> b < length L -> R (nth a L d) x = true -> R (nth b L d) x = true -> False).
  { intros a b Hab Hb Ea Eb.
    destruct (nth_split L d Hb) as (L1 & L2 & EL & Hlen).
    pose proof (Hs _ _ _ EL) as Hf. rewrite related_in_false in Hf.
    assert (Ia : In (nth a L d) L1).
    { rewrite EL. rewrite app_nth1 by lia. apply nth_In. lia. }
    specialize (Hf _ Ia).
    rewrite Forall_forall in HD.
    assert (Da : D (nth a L d)) by (apply HD, nth_In; lia).
    assert (Db : D (nth b L d)) by (apply HD, nth_In; lia).
    assert (R (nth a L d) (nth b L d) = true).
    { eapply R_trans; [exact Da|exact Dx|exact Db|exact Ea|]. apply R_sym; assumption. }
    congruence. }
  destruct (Nat.lt_trichotomy n m) as [H|[H|H]]; [exfalso; eauto|exact H|exfalso; eauto].
Qed.

(** ---- the partition theorem ---- *)
Theorem class_of_total l x : Forall D l -> In x l -> exists c, class_of l x = Some c /\ c < length (leaders l).
Proof.
  intros HD Hx. unfold class_of.
  assert (H : related_in (leaders l) x = true).
  { apply leaders_from_covers; [|now right]. intros _. apply R_refl. rewrite Forall_forall in HD. auto. }
  apply index_of_some in H. destruct H as (c & H). exists c. split; [exact H|].
  eapply index_of_nth in H. apply H. Unshelve. exact x.
Qed.

Lemma leaders_domain l : Forall D l -> Forall D (leaders l).
Proof.
  intros HD. apply Forall_forall. intros y Hy. apply leaders_from_incl in Hy. destruct Hy as [[]|Hy].
  rewrite Forall_forall in HD. auto.
Qed.

Theorem class_of_partition l x y : Forall D l -> In x l -> In y l ->
  (class_of l x = class_of l y <-> R x y = true).
Proof.
  intros HD Hx Hy.
  pose proof (leaders_domain l HD) as HDL. pose proof (leaders_separated l) as Hs.
  assert (Dx : D x) by (rewrite Forall_forall in HD; auto).
  assert (Dy : D y) by (rewrite Forall_forall in HD; auto).
  destruct (class_of_total l x HD Hx) as (c & Ec & Hc). destruct (class_of_total l y HD Hy) as (c' & Ec' & Hc').
  rewrite Ec, Ec'. unfold class_of in *.
  destruct (index_of_nth _ _ _ x Ec) as (_ & Rc & _). destruct (index_of_nth _ _ _ x Ec') as (_ & Rc' & _).
  assert (Dc : D (nth c (leaders l) x)) by (rewrite Forall_forall in HDL; apply HDL, nth_In; lia).
  assert (Dc' : D (nth c' (leaders l) x)) by (rewrite Forall_forall in HDL; apply HDL, nth_In; lia).
  split.
  - intros E. inversion E; subst c'. eapply R_trans; [exact Dx|exact Dc|exact Dy| |exact Rc'].
    apply R_sym; assumption.
  - intros E. f_equal.
    assert (Rcy : R (nth c (leaders l) x) y = true)
      by (eapply R_trans; [exact Dc|exact Dx|exact Dy|exact Rc|exact E]).
    eapply separated_unique with (x := y) (d := x); eauto.
Qed.

(** the partition is independent of the list order *)
Theorem class_of_order_indep l l' x y : Permutation l l' -> Forall D l -> In x l -> In y l ->
  (class_of l x = class_of l y <-> class_of l' x = class_of l' y).
Proof.
  intros P HD Hx Hy.
  assert (HD' : Forall D l') by (eapply Permutation_Forall; eauto).
  rewrite (class_of_partition l x y HD Hx Hy).
  rewrite (class_of_partition l' x y HD' (Permutation_in _ P Hx) (Permutation_in _ P Hy)). reflexivity.
Qed.

(** ... and so is the number of classes.  Each leader of [l] is related to exactly one leader of [l'];
    this map is injective because leaders are pairwise unrelated. *)
Lemma separated_inj_length (L L' : list X) :
  Forall D L -> Forall D L' -> separated L ->
  (forall y, In y L -> related_in L' y = true) -> separated L' -> length L <= length L'.
Proof.
  intros HDL HDL' Hs Hcov Hs'.
  (* f n := index in L' of the leader related to (nth n L) *)
  destruct L as [|d0 L0]; [simpl; lia|]. remember (d0 :: L0) as L eqn:EL.
  set (f := fun n => match index_of L' (nth n L d0) with Some k => k | None => 0 end).
  assert (Hf : forall n, n < length L -> f n < length L' /\ R (nth (f n) L' d0) (nth n L d0) = true).
  { intros n Hn. unfold f. assert (Hr := Hcov _ (nth_In L d0 Hn)).
    apply index_of_some in Hr. destruct Hr as (k & Hk). rewrite Hk.
    destruct (index_of_nth _ _ _ d0 Hk) as (H1 & H2 & _). split; assumption. }
  assert (Hinj : forall n m, n < length L -> m < length L -> f n = f m -> n = m).
  { intros n m Hn Hm E. destruct (Hf n Hn) as (Hfn & Rn). destruct (Hf m Hm) as (Hfm & Rm). rewrite E in Rn.
    rewrite Forall_forall in HDL, HDL'.
    assert (Dn : D (nth n L d0)) by (apply HDL, nth_In; lia).
    assert (Dm : D (nth m L d0)) by (apply HDL, nth_In; lia).
    assert (Dk : D (nth (f m) L' d0)) by (apply HDL', nth_In; lia).
    (* nth n L ~ nth m L, so they are the same position of the separated list L *)
    apply (separated_unique L (nth m L d0) n m d0);
      [apply Forall_forall; exact HDL | exact Dm | exact Hs | exact Hn | exact Hm | | apply R_refl; exact Dm].
    eapply R_trans; [exact Dn|exact Dk|exact Dm| |exact Rm]. apply R_sym; assumption. }
  (* pigeonhole: an injective map from [0, |L|) into [0, |L'|) *)
  assert (Hnd : NoDup (map f (seq 0 (length L)))).
  { apply NoDup_map_inj_in.
    - intros a b Ha Hb E. apply in_seq in Ha, Hb. apply Hinj; lia || exact E.
    - apply seq_NoDup. }
  assert (Hincl : incl (map f (seq 0 (length L))) (seq 0 (length L'))).
  { intros k Hk. apply in_map_iff in Hk. destruct Hk as (n & <- & Hn). apply in_seq in Hn.
    apply in_seq. destruct (Hf n) as (H1 & _); lia. }
  pose proof (NoDup_incl_length Hnd Hincl) as Hlen. rewrite map_length, !seq_length in Hlen. exact Hlen.
Qed.

Theorem n_classes_order_indep l l' : Permutation l l' -> Forall D l ->
  length (leaders l) = length (leaders l').
Proof.
  intros P HD.
  assert (HD' : Forall D l') by (eapply Permutation_Forall; eauto).
  assert (Hcov : forall a b, Permutation a b -> Forall D a -> forall y, In y (leaders a) -> related_in (leaders b) y = true).
  { intros a b Pab HDa y Hy. apply leaders_from_incl in Hy. destruct Hy as [[]|Hy].
    apply leaders_from_covers; [|right; eapply Permutation_in; eauto].
    intros _. apply R_refl. rewrite Forall_forall in HDa. auto. }
  apply Nat.le_antisymm.
  - apply separated_inj_length; auto using leaders_domain, leaders_separated. eapply Hcov; eauto.
  - apply separated_inj_length; auto using leaders_domain, leaders_separated.
    eapply Hcov; eauto. now apply Permutation_sym.
Qed.

(* ------------------------------------------------------------------ incremental classification *)
(** templates are coherent when "same class" and "related representatives" coincide *)
Definition coherent (T : list template) : Prop :=
  Forall D (map fst T) /\
  forall t t', In t T -> In t' T -> (R (fst t) (fst t') = true <-> snd t = snd t').

Lemma max_class_ge T t : In t T -> (snd t <= max_class T)%Z.
Proof.
  unfold max_class. induction T as [|u r IH]; simpl; [intros []|].
  intros [->|H]; [lia|]. specialize (IH H). lia.
Qed.

Lemma max_class_lower T : (-1 <= max_class T)%Z.
Proof. unfold max_class. induction T; simpl; lia. Qed.

Lemma find_none_all (A : Type) (p : A -> bool) l : find p l = None <-> forall a, In a l -> p a = false.
Proof.
  split; [apply find_none|]. induction l as [|a r IH]; simpl; intros H; [reflexivity|].
  rewrite (H a) by now left. apply IH. intros; apply H; now right.
Qed.

Theorem classify_spec T x : coherent T -> D x ->
  let '(c, T') := classify T x in
  coherent T' /\
  (exists L', T' = T ++ L') /\
  (exists t, In t T' /\ R (fst t) x = true /\ snd t = c) /\
  (forall t, In t T -> R (fst t) x = true -> c = snd t /\ T' = T) /\
  ((forall t, In t T -> R (fst t) x = false) ->
     c = (max_class T + 1)%Z /\ ~ In c (map snd T) /\ T' = T ++ [(x, c)]).
Proof.
  intros (HDT & Hco) Dx. unfold classify.
  destruct (find (fun t => R (fst t) x) T) as [t0|] eqn:Ef.
  - apply find_some in Ef. destruct Ef as (I0 & R0).
    split; [split; assumption|]. split; [exists []; now rewrite app_nil_r|].
    split; [exists t0; auto|]. split.
    + intros t It Rt. split; [|reflexivity].
      apply Hco; auto.
      rewrite Forall_forall in HDT.
      assert (D (fst t0)) by (apply HDT, in_map, I0). assert (D (fst t)) by (apply HDT, in_map, It).
      eapply R_trans; [eassumption|exact Dx|eassumption|exact R0|]. apply R_sym; assumption.
    + intros Hall. rewrite (Hall t0 I0) in R0. discriminate.
  - rewrite find_none_all in Ef. set (c := (max_class T + 1)%Z).
    assert (Hfresh : forall t, In t T -> snd t <> c).
    { intros t It. pose proof (max_class_ge _ _ It). unfold c. lia. }
    split.
    { split.
      - rewrite map_app. apply Forall_app. split; [exact HDT|]. constructor; [exact Dx|constructor].
      - rewrite Forall_forall in HDT.
        intros t t' It It'. apply in_app_or in It, It'.
        destruct It as [It|[<-|[]]]; destruct It' as [It'|[<-|[]]]; simpl.
        + apply Hco; assumption.
        + rewrite (Ef t It). split; [discriminate|]. intros E. exfalso. eapply Hfresh; eauto.
        + assert (Dt' : D (fst t')) by (apply HDT, in_map, It').
          rewrite (R_sym_false _ _ Dt' Dx (Ef t' It')). split; [discriminate|]. intros E. exfalso. eapply Hfresh; eauto.
        + rewrite (R_refl _ Dx). split; reflexivity. }
    split; [eexists; reflexivity|].
    split; [exists (x, c); split; [apply in_or_app; right; now left|split; [apply R_refl; exact Dx|reflexivity]]|].
    split.
    + intros t It Rt. rewrite (Ef t It) in Rt. discriminate.
    + intros _. split; [reflexivity|]. split; [|reflexivity].
      intros I. apply in_map_iff in I. destruct I as (t & E & It). eapply Hfresh; eauto.
Qed.

Lemma classify_list_app T l1 l2 :
  classify_list T (l1 ++ l2) =
  let '(c1, T1) := classify_list T l1 in
  let '(c2, T2) := classify_list T1 l2 in (c1 ++ c2, T2).
Proof.
  revert T. induction l1 as [|x r IH]; intros T; simpl.
  - destruct (classify_list T l2); reflexivity.
  - destruct (classify T x) as [c T1]. rewrite IH.
    destruct (classify_list T1 r) as [c1 T1']. destruct (classify_list T1' l2). reflexivity.
Qed.

Lemma classify_list_length T l : length (fst (classify_list T l)) = length l.
Proof.
  revert T. induction l as [|x r IH]; intros T; simpl; [reflexivity|].
  destruct (classify T x) as [c T1]. specialize (IH T1). destruct (classify_list T1 r). simpl in *. now rewrite IH.
Qed.

(** invariant of a run: templates stay coherent, grow by appending, and every processed item carries the
    class of a related representative present in the final templates *)
Lemma classify_list_inv T l : coherent T -> Forall D l ->
  let '(cs, T') := classify_list T l in
  coherent T' /\ (exists L', T' = T ++ L') /\
  Forall2 (fun x c => exists t, In t T' /\ R (fst t) x = true /\ snd t = c) l cs.
Proof.
  revert T. induction l as [|x r IH]; intros T HT HD; simpl.
  - split; [exact HT|]. split; [exists []; now rewrite app_nil_r|constructor].
  - inversion HD as [|? ? Dx HDr]; subst.
    pose proof (classify_spec T x HT Dx) as Hs. destruct (classify T x) as [c T1].
    destruct Hs as (HT1 & (L1 & E1) & (t & It & Rt & Et) & _ & _).
    specialize (IH T1 HT1 HDr). destruct (classify_list T1 r) as [cs T2].
    destruct IH as (HT2 & (L2 & E2) & HF).
    split; [exact HT2|]. split; [exists (L1 ++ L2); subst; now rewrite app_assoc|].
    constructor; [|exact HF]. exists t. split; [subst T2; apply in_or_app; now left|auto].
Qed.

Theorem classify_list_partition T l cs T' : coherent T -> Forall D l -> classify_list T l = (cs, T') ->
  coherent T' /\ (exists L', T' = T ++ L') /\ length cs = length l /\
  (forall i j x y c c', nth_error l i = Some x -> nth_error l j = Some y ->
      nth_error cs i = Some c -> nth_error cs j = Some c' -> (c = c' <-> R x y = true)) /\
  (forall i x c t, nth_error l i = Some x -> nth_error cs i = Some c -> In t T' ->
      (c = snd t <-> R (fst t) x = true)).
Proof.
  intros HT HD E. pose proof (classify_list_inv T l HT HD) as H. rewrite E in H.
  destruct H as (HT' & Hext & HF). split; [exact HT'|]. split; [exact Hext|].
  split; [symmetry; eapply Forall2_len; eauto|].
  destruct HT' as (HDT' & Hco'). rewrite Forall_forall in HDT', HD.
  assert (Hnth : forall i x c, nth_error l i = Some x -> nth_error cs i = Some c ->
                  exists t, In t T' /\ R (fst t) x = true /\ snd t = c).
  { clear -HF. induction HF as [|x0 c0 l0 cs0 H0 HF IH]; intros i x c Hx Hc.
    - destruct i; discriminate.
    - destruct i; simpl in *; [inversion Hx; inversion Hc; subst; exact H0|eauto]. }
  split.
  - intros i j x y c c' Hx Hy Hc Hc'.
    destruct (Hnth _ _ _ Hx Hc) as (t & It & Rt & <-). destruct (Hnth _ _ _ Hy Hc') as (t' & It' & Rt' & <-).
    assert (Dx : D x) by (apply HD; eapply nth_error_In; eauto).
    assert (Dy : D y) by (apply HD; eapply nth_error_In; eauto).
    assert (Dt : D (fst t)) by (apply HDT', in_map, It). assert (Dt' : D (fst t')) by (apply HDT', in_map, It').
    rewrite <- (Hco' t t' It It'). split; intros H.
    + eapply R_trans; [exact Dx|exact Dt|exact Dy|apply R_sym; assumption|].
      eapply R_trans; [exact Dt|exact Dt'|exact Dy|exact H|exact Rt'].
    + eapply R_trans; [exact Dt|exact Dx|exact Dt'|exact Rt|].
      eapply R_trans; [exact Dx|exact Dy|exact Dt'|exact H|apply R_sym; assumption].
  - intros i x c t Hx Hc It.
    destruct (Hnth _ _ _ Hx Hc) as (t0 & It0 & Rt0 & <-).
    assert (Dx : D x) by (apply HD; eapply nth_error_In; eauto).
    assert (Dt : D (fst t)) by (apply HDT', in_map, It). assert (Dt0 : D (fst t0)) by (apply HDT', in_map, It0).
    rewrite <- (Hco' t0 t It0 It). split; intros H.
    + eapply R_trans; [exact Dt|exact Dt0|exact Dx|apply R_sym; assumption|exact Rt0].
    + eapply R_trans; [exact Dt0|exact Dx|exact Dt|exact Rt0|apply R_sym; assumption].
Qed.

End Partition.

Arguments related_in {X}. Arguments leaders_from {X}. Arguments leaders {X}. Arguments index_of {X}.
Arguments class_of {X}. Arguments max_class {X}. Arguments classify {X}. Arguments classify_list {X}.
Arguments templates_of {X}. Arguments separated {X}. Arguments coherent {X}.

(* ------------------------------------------------------------------ from no templates: class numbers *)
Section FromNil.
Variable X : Type.
Variable R : X -> X -> bool.

Lemma max_class_templates_of (L : list X) : max_class (templates_of L) = (Z.of_nat (length L) - 1)%Z.
Proof.
  unfold templates_of, max_class.
  assert (H : forall (L : list X) s, fold_right Z.max (-1)%Z (map snd (combine L (map Z.of_nat (seq s (length L)))))
                        = if Nat.eqb (length L) 0 then (-1)%Z else (Z.of_nat (s + length L) - 1)%Z).
  { induction L0 as [|x r IH]; intros s; simpl; [reflexivity|].
    rewrite IH. destruct (Nat.eqb (length r) 0) eqn:E.
    - apply Nat.eqb_eq in E. rewrite E. lia.
    - lia. }
  rewrite H. destruct L; simpl; lia.
Qed.

Lemma combine_app2 (A B : Type) (l1 l2 : list A) (m1 m2 : list B) :
  length l1 = length m1 -> combine (l1 ++ l2) (m1 ++ m2) = combine l1 m1 ++ combine l2 m2.
Proof.
  revert m1. induction l1 as [|a r IH]; intros [|b m1] H; simpl in *; try discriminate; [reflexivity|].
  rewrite IH by lia. reflexivity.
Qed.

Lemma templates_of_snoc (L : list X) x :
  templates_of (L ++ [x]) = templates_of L ++ [(x, Z.of_nat (length L))].
Proof.
  unfold templates_of. rewrite app_length. simpl. rewrite Nat.add_1_r, seq_S, map_app. simpl.
  rewrite combine_app2 by (rewrite map_length, seq_length; reflexivity). reflexivity.
Qed.

Lemma find_templates_of (L : list X) x s :
  find (fun t : template X => R (fst t) x) (combine L (map Z.of_nat (seq s (length L)))) =
  match index_of R L x with
  | Some n => Some (nth n L x, Z.of_nat (s + n))
  | None => None
  end.
Proof.
  revert s. induction L as [|y r IH]; intros s; simpl; [reflexivity|].
  destruct (R y x); [now rewrite Nat.add_0_r|].
  rewrite IH. destruct (index_of R r x); simpl; [|reflexivity]. now rewrite Nat.add_succ_r.
Qed.

Lemma classify_templates_of (L : list X) x :
  classify R (templates_of L) x =
  match index_of R L x with
  | Some n => (Z.of_nat n, templates_of L)
  | None => (Z.of_nat (length L), templates_of (L ++ [x]))
  end.
Proof.
  unfold classify. unfold templates_of at 1. rewrite find_templates_of.
  destruct (index_of R L x); simpl; [reflexivity|].
  rewrite max_class_templates_of, templates_of_snoc. f_equal; [lia|]. do 3 f_equal. lia.
Qed.

(** starting from the leader list [L], the run numbers classes by position in the growing leader list *)
Definition class_num (o : option nat) : Z := match o with Some n => Z.of_nat n | None => (-1)%Z end.

Theorem classify_list_templates_of (L l : list X) : (forall x, In x l -> R x x = true) ->
  classify_list R (templates_of L) l =
  (map (fun x => class_num (index_of R (leaders_from R L l) x)) l, templates_of (leaders_from R L l)).
Proof.
  revert L. induction l as [|x r IH]; intros L Hrefl; simpl; [reflexivity|].
  rewrite classify_templates_of.
  destruct (index_of R L x) as [n|] eqn:E.
  - assert (Hr : related_in R L x = true) by (apply (index_of_some X R); eauto). rewrite Hr.
    rewrite IH by (intros; apply Hrefl; now right). f_equal. f_equal.
    destruct (leaders_from_prefix X R L r) as (L' & EL). rewrite EL. now rewrite (index_of_app X R _ _ _ _ E).
  - assert (Hr : related_in R L x = false) by (now apply (index_of_none X R)). rewrite Hr.
    rewrite IH by (intros; apply Hrefl; now right). f_equal. f_equal.
    destruct (leaders_from_prefix X R (L ++ [x]) r) as (L' & EL). rewrite EL.
    rewrite <- app_assoc. rewrite (index_of_app_none X R) by exact E. simpl.
    rewrite (Hrefl x) by now left. simpl. now rewrite Nat.add_0_r.
Qed.

Corollary classify_list_nil (l : list X) : (forall x, In x l -> R x x = true) ->
  classify_list R [] l = (map (fun x => class_num (class_of R l x)) l, templates_of (leaders R l)).
Proof. intros H. exact (classify_list_templates_of [] l H). Qed.

End FromNil.
