(** Labelled graphs as insertion-ordered association lists (DESIGN.md section 3).
    Shared by the graph-side models.  Stdlib only.  Node ids are [N]; node and
    edge attribute types are parameters.  Undirected lookups are symmetric by
    construction; directed graphs use [arc]. *)
From Coq Require Import List NArith ZArith Bool Lia.
Import ListNotations.
Set Implicit Arguments.

Record lgraph (A B : Type) := LG { gnodes : list (N * A); gedges : list (N * N * B) }.
Arguments LG {A B}.

Section LGraph.
Variables A B : Type.
Implicit Type g : lgraph A B.

Definition node_ids g : list N := map fst (gnodes g).

Fixpoint assoc {V} (k : N) (l : list (N * V)) : option V :=
  match l with
  | [] => None
  | (k', v) :: r => if N.eqb k k' then Some v else assoc k r
  end.

Definition label g (u : N) : option A := assoc u (gnodes g).
Definition has_node g (u : N) : bool := match label g u with Some _ => true | None => false end.

(** first stored edge joining u and v in either orientation (networkx Graph: one
    attribute dict per unordered pair) *)
Fixpoint find_edge (u v : N) (es : list (N * N * B)) : option B :=
  match es with
  | [] => None
  | (a, b, x) :: r =>
      if (N.eqb a u && N.eqb b v) || (N.eqb a v && N.eqb b u) then Some x else find_edge u v r
  end.
Definition adj g (u v : N) : option B := find_edge u v (gedges g).

(** directed lookup (networkx DiGraph) *)
Fixpoint find_arc (u v : N) (es : list (N * N * B)) : option B :=
  match es with
  | [] => None
  | (a, b, x) :: r => if N.eqb a u && N.eqb b v then Some x else find_arc u v r
  end.
Definition arc g (u v : N) : option B := find_arc u v (gedges g).

Lemma find_edge_sym u v es : find_edge u v es = find_edge v u es.
Proof.
  induction es as [|[[a b] x] r IH]; simpl; [reflexivity|].
  rewrite IH. rewrite (orb_comm (N.eqb a u && N.eqb b v)). reflexivity.
Qed.
Lemma adj_sym g u v : adj g u v = adj g v u.
Proof. apply find_edge_sym. Qed.

(** neighbours in edge-list order (may repeat if the edge list repeats a pair) *)
Definition nbrs g (u : N) : list N :=
  flat_map (fun e => let '(a, b, _) := e in
                     if N.eqb a u then [b] else if N.eqb b u then [a] else []) (gedges g).
Definition succs g (u : N) : list N :=
  flat_map (fun e => let '(a, b, _) := e in if N.eqb a u then [b] else []) (gedges g).
Definition preds g (u : N) : list N :=
  flat_map (fun e => let '(a, b, _) := e in if N.eqb b u then [a] else []) (gedges g).

Definition mem (x : N) (l : list N) : bool := existsb (N.eqb x) l.
Lemma mem_spec x l : mem x l = true <-> In x l.
Proof.
  unfold mem. rewrite existsb_exists. split.
  - intros (y & Hy & E). apply N.eqb_eq in E. subst. exact Hy.
  - intros H. exists x. split; [exact H|apply N.eqb_refl].
Qed.

Lemma assoc_in {V} k (l : list (N * V)) v : assoc k l = Some v -> In (k, v) l.
Proof.
  induction l as [|[k' v'] r IH]; simpl; [discriminate|].
  destruct (N.eqb_spec k k') as [->|Hne].
  - intros [= ->]. left. reflexivity.
  - intros H. right. apply IH. exact H.
Qed.

Lemma assoc_nodup_in {V} k (l : list (N * V)) v : NoDup (map fst l) -> In (k, v) l -> assoc k l = Some v.
Proof.
  induction l as [|[k' v'] r IH]; simpl; [intros _ []|].
  intros Hnd Hin. inversion Hnd as [|? ? Hnotin Hnd']; subst.
  destruct Hin as [E|Hin].
  - inversion E; subst. rewrite N.eqb_refl. reflexivity.
  - destruct (N.eqb_spec k k') as [->|Hne].
    + exfalso. apply Hnotin. change k' with (fst (k', v)). apply in_map. exact Hin.
    + apply IH; assumption.
Qed.

(** well-formedness of an undirected simple graph *)
Definition wf g : Prop :=
  NoDup (node_ids g) /\
  (forall a b x, In (a, b, x) (gedges g) -> In a (node_ids g) /\ In b (node_ids g) /\ a <> b) /\
  (forall l1 a b x l2, gedges g = l1 ++ (a, b, x) :: l2 -> find_edge a b l1 = None /\ find_edge a b l2 = None).

(** induced subgraph on a node list (keeps insertion order of the parent) *)
Definition induced_sub g (keep : list N) : lgraph A B :=
  LG (filter (fun p => mem (fst p) keep) (gnodes g))
     (filter (fun e => let '(a, b, _) := e in mem a keep && mem b keep) (gedges g)).

(** relabelling by a function on node ids *)
Definition relabel (f : N -> N) g : lgraph A B :=
  LG (map (fun p => (f (fst p), snd p)) (gnodes g))
     (map (fun e => let '(a, b, x) := e in (f a, f b, x)) (gedges g)).

End LGraph.

Arguments assoc {V} k l.
