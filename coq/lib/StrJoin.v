(* Design-time probe for lib/StrCodes.v: strings as lists of code points; join with a one-character
   separator is injective on separator-free pieces. Stdlib only. *)
From Coq Require Import List Arith NArith Bool Lia.
Import ListNotations.
Set Implicit Arguments.

Definition str := list N.

Fixpoint join (sep : N) (xs : list str) : str :=
  match xs with
  | [] => []
  | [x] => x
  | x :: xs' => x ++ sep :: join sep xs'
  end.

Definition nosep (sep : N) (x : str) : Prop := ~ In sep x.

(* split at the first separator *)
Fixpoint split1 (sep : N) (s : str) : str * option str :=
  match s with
  | [] => ([], None)
  | c :: s' => if N.eqb c sep then ([], Some s')
               else let '(a, r) := split1 sep s' in (c :: a, r)
  end.

Lemma split1_app sep x rest : nosep sep x -> split1 sep (x ++ sep :: rest) = (x, Some rest).
Proof.
  induction x as [|c x IH]; simpl; intros H.
  - rewrite N.eqb_refl. reflexivity.
  - destruct (N.eqb_spec c sep) as [->|Hne]; [exfalso; apply H; left; reflexivity|].
    rewrite IH; auto. intro I. apply H. right. exact I.
Qed.
Lemma split1_nosep sep x : nosep sep x -> split1 sep x = (x, None).
Proof.
  induction x as [|c x IH]; simpl; intros H; auto.
  destruct (N.eqb_spec c sep) as [->|Hne]; [exfalso; apply H; left; reflexivity|].
  rewrite IH; auto. intro I. apply H. right. exact I.
Qed.

Theorem join_inj sep : forall xs ys, Forall (nosep sep) xs -> Forall (nosep sep) ys ->
  xs <> [] -> ys <> [] -> join sep xs = join sep ys -> xs = ys.
Proof.
  induction xs as [|x xs IH]; intros ys Hx Hy Nx Ny E; [congruence|].
  destruct ys as [|y ys]; [congruence|].
  inversion Hx as [|? ? Hx1 Hx2]; subst. inversion Hy as [|? ? Hy1 Hy2]; subst.
  destruct xs as [|x2 xs]; destruct ys as [|y2 ys].
  - simpl in E. congruence.
  - simpl in E. pose proof (f_equal (split1 sep) E) as E'.
    rewrite (split1_nosep Hx1) in E'. change (y ++ sep :: join sep (y2 :: ys)) with (y ++ sep :: join sep (y2 :: ys)) in E'.
    rewrite (split1_app _ Hy1) in E'. discriminate.
  - simpl in E. pose proof (f_equal (split1 sep) E) as E'.
    rewrite (split1_nosep Hy1) in E'. rewrite (split1_app _ Hx1) in E'. discriminate.
  - change (join sep (x :: x2 :: xs)) with (x ++ sep :: join sep (x2 :: xs)) in E.
    change (join sep (y :: y2 :: ys)) with (y ++ sep :: join sep (y2 :: ys)) in E.
    pose proof (f_equal (split1 sep) E) as E'.
    rewrite (split1_app _ Hx1), (split1_app _ Hy1) in E'. inversion E'; subst.
    f_equal. apply IH; auto; discriminate.
Qed.

(* the matching parser: split_all is a left inverse of join on separator-free, non-empty lists *)
Fixpoint split_all (fuel : nat) (sep : N) (s : str) : list str :=
  match fuel with
  | 0 => [s]
  | S f => match split1 sep s with
           | (a, None) => [a]
           | (a, Some r) => a :: split_all f sep r
           end
  end.
Lemma split_all_join sep : forall xs, Forall (nosep sep) xs -> xs <> [] ->
  forall fuel, length (join sep xs) <= fuel -> split_all fuel sep (join sep xs) = xs.
Proof.
  induction xs as [|x xs IH]; intros Hx Nx fuel Hf; [congruence|].
  inversion Hx as [|? ? Hx1 Hx2]; subst.
  destruct xs as [|x2 xs].
  - simpl. destruct fuel; simpl; [reflexivity|].
    rewrite (split1_nosep Hx1). reflexivity.
  - change (join sep (x :: x2 :: xs)) with (x ++ sep :: join sep (x2 :: xs)) in *.
    destruct fuel as [|f]; [rewrite app_length in Hf; cbn [length] in Hf; lia|].
    simpl. rewrite (split1_app _ Hx1). f_equal. apply IH; auto; [discriminate|].
    rewrite app_length in Hf. cbn [length] in Hf. lia.
Qed.
Print Assumptions join_inj.
Print Assumptions split_all_join.
