(** C19 — a fold-based rank-certificate checker that implies lib/RankBridge.check_rank (MathComp / ssreflect style).

    RankBridge.mmulz reads every entry with nth (cost i + j per access): a product of an m x k by a k x n matrix costs
    O(m n k (k + n)).  Here rows are consumed by folds (dot products against the transposed right factor): O(m n k).
    The fast checker also checks the shapes; whenever it accepts, check_rank accepts (check_rank_f_sound), so
    RankBridge.check_rank_sound applies. *)
From mathcomp Require Import all_ssreflect.
From Coq Require Import ZArith.
From SK Require Import lib.RankBridge.
Set Implicit Arguments. Unset Strict Implicit. Unset Printing Implicit Defensive.

Definition dotz (u v : seq Z) : Z := foldr (fun p acc => (p.1 * p.2 + acc)%Z) 0%Z (zip u v).
Definition colz (B : seq (seq Z)) (j : nat) : seq Z := map (fun row => nth 0%Z row j) B.
Definition transpz (n : nat) (B : seq (seq Z)) : seq (seq Z) := mkseq (colz B) n.
Definition mmul_f (A Bt : seq (seq Z)) : seq (seq Z) := map (fun a => map (dotz a) Bt) A.
Definition wfz (m n : nat) (M : seq (seq Z)) : bool := (size M == m) && all (fun row => size row == n) M.
Fixpoint eqseqz (u v : seq Z) : bool :=
  match u, v with
  | [::], [::] => true
  | x :: u', y :: v' => Z.eqb x y && eqseqz u' v'
  | _, _ => false
  end.
Fixpoint eqmatz (A B : seq (seq Z)) : bool :=
  match A, B with
  | [::], [::] => true
  | a :: A', b :: B' => eqseqz a b && eqmatz A' B'
  | _, _ => false
  end.

Definition check_rank_f (m n r : nat) (S A B A' B' : seq (seq Z)) (d : Z) : bool :=
  [&& wfz m n S, wfz m r A, wfz r n B, wfz r m A', wfz n r B',
      eqmatz S (mmul_f A (transpz n B)), ~~ Z.eqb d 0 &
      eqmatz (mmul_f (mmul_f A' (transpz n S)) (transpz r B')) (scalarz r d)].

(* ---------- equal sequences ---------- *)
Lemma eqseqzP u v : eqseqz u v -> u = v.
Proof. by elim: u v => [|x u IH] [|y v] //= /andP [/Z.eqb_spec -> /IH ->]. Qed.
Lemma eqmatzP A B : eqmatz A B -> A = B.
Proof. by elim: A B => [|a A IH] [|b B] //= /andP [/eqseqzP -> /IH ->]. Qed.

Lemma eqmz_refl m n A : eqmz m n A A.
Proof. by apply/allP => i _; apply/allP => j _; apply/Z.eqb_spec. Qed.

(* ---------- dot product = sumz ---------- *)
Lemma sumz_shift k s (f : nat -> Z) :
  foldr (fun l acc => (f l + acc)%Z) 0%Z (iota s.+1 k) = foldr (fun l acc => (f l.+1 + acc)%Z) 0%Z (iota s k).
Proof. by elim: k s => [|k IH] s //=; rewrite IH. Qed.

Lemma sumz_ext k (f g : nat -> Z) : (forall l, l < k -> f l = g l) -> sumz k f = sumz k g.
Proof.
rewrite /sumz => H.
have: forall l, l \in iota 0 k -> f l = g l by move=> l; rewrite mem_iota add0n => /andP [_]; exact: H.
by elim: (iota 0 k) => [|a s IH] //= E; rewrite E ?mem_head // IH // => l ls; apply: E; rewrite inE ls orbT.
Qed.

Lemma dotz_sumz k : forall u v, size u = k -> size v = k ->
  dotz u v = sumz k (fun l => (nth 0%Z u l * nth 0%Z v l)%Z).
Proof.
elim: k => [|k IH] [|x u] [|y v] //= [su] [sv].
rewrite /dotz /= -/(dotz u v) (IH u v su sv) /sumz /=; congr (_ + _)%Z.
by rewrite (sumz_shift k 0 (fun l => (nth 0%Z (x :: u) l * nth 0%Z (y :: v) l)%Z)).
Qed.

Lemma size_colz B j : size (colz B j) = size B.
Proof. by rewrite /colz size_map. Qed.
Lemma nth_colz B j l : l < size B -> nth 0%Z (colz B j) l = getz B l j.
Proof. by move=> H; rewrite /colz (nth_map [::]). Qed.

(** the fold-based product of well-formed factors is RankBridge's product *)
Lemma mmul_f_mmulz m k n A B : wfz m k A -> wfz k n B -> mmul_f A (transpz n B) = mmulz m k n A B.
Proof.
move=> /andP [/eqP sA rA'] /andP [/eqP sB _]; have rA := all_nthP [::] rA'.
apply: (@eq_from_nth _ [::]); first by rewrite /mmul_f /mmulz size_map size_mkseq.
move=> i; rewrite /mmul_f size_map sA => im.
rewrite (nth_map [::]) ?sA // /mmulz nth_mkseq //.
apply: (@eq_from_nth _ 0%Z); first by rewrite size_map /transpz !size_mkseq.
move=> j; rewrite size_map /transpz size_mkseq => jn.
rewrite (nth_map [::]) ?size_mkseq // nth_mkseq // nth_mkseq //.
have si : size (nth [::] A i) = k by apply/eqP; apply: rA; rewrite sA.
rewrite (@dotz_sumz k) // ?size_colz //.
apply: sumz_ext => l lk.
by rewrite nth_colz ?sB.
Qed.

Lemma wfz_mmulz m k n A B : wfz m n (mmulz m k n A B).
Proof.
rewrite /wfz /mmulz size_mkseq eqxx /=.
by apply/(all_nthP [::]) => i; rewrite size_mkseq => im; rewrite nth_mkseq // size_mkseq.
Qed.

Theorem check_rank_f_sound m n r S A B A' B' d :
  check_rank_f m n r S A B A' B' d -> check_rank m n r S A B A' B' d.
Proof.
case/and5P => wS wA wB wA' /and4P [wB' /eqmatzP eS dn0 /eqmatzP eI].
rewrite /check_rank dn0 /=.
rewrite -(mmul_f_mmulz wA wB) -eS eqmz_refl /=.
rewrite -(mmul_f_mmulz wA' wS).
have w2 : wfz r n (mmul_f A' (transpz n S)) by rewrite (mmul_f_mmulz wA' wS); exact: wfz_mmulz.
by rewrite -(mmul_f_mmulz w2 wB') eI eqmz_refl.
Qed.

Print Assumptions check_rank_f_sound.
