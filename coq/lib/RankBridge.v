(* Design-time probe: executable rank-certificate checker over list-of-lists of Z, proved sound
   against MathComp's \rank over rat.  Imports: mathcomp ssreflect/algebra + mathcomp.zify.ssrZ. *)
From mathcomp Require Import all_ssreflect all_algebra.
From mathcomp Require Import ssrZ.
From Coq Require Import ZArith.
Set Implicit Arguments. Unset Strict Implicit. Unset Printing Implicit Defensive.
Import GRing.Theory.
Local Open Scope ring_scope.

Lemma rank_cert (F : fieldType) m n r (S : 'M[F]_(m,n)) (A : 'M[F]_(m,r)) (B : 'M[F]_(r,n))
   (A' : 'M[F]_(r,m)) (B' : 'M[F]_(n,r)) (d : F) :
  S = A *m B -> d != 0 -> A' *m S *m B' = d%:M -> \rank S = r.
Proof.
move=> eS dn0 H; apply/eqP; rewrite eqn_leq; apply/andP; split.
- rewrite eS; apply: leq_trans (mulmx_max_rank _ _) _; exact: leqnn.
- have: \rank (d%:M : 'M[F]_r) = r by rewrite -scalemx1 mxrank_scale_nz // mxrank1.
  move=> <-; rewrite -H. apply: leq_trans (mxrankM_maxl _ _) _. exact: mxrankM_maxr.
Qed.

(* ---------- list land (executable, extractable) ---------- *)
Definition getz (M : seq (seq Z)) (i j : nat) : Z := nth 0%Z (nth [::] M i) j.
Definition sumz (k : nat) (f : nat -> Z) : Z := foldr (fun l acc => (f l + acc)%Z) 0%Z (iota 0 k).
Definition mmulz (m k n : nat) (A B : seq (seq Z)) : seq (seq Z) :=
  mkseq (fun i => mkseq (fun j => sumz k (fun l => (getz A i l * getz B l j)%Z)) n) m.
Definition eqmz (m n : nat) (A B : seq (seq Z)) : bool :=
  all (fun i => all (fun j => Z.eqb (getz A i j) (getz B i j)) (iota 0 n)) (iota 0 m).
Definition scalarz (r : nat) (d : Z) : seq (seq Z) := mkseq (fun i => mkseq (fun j => if i == j then d else 0%Z) r) r.
Definition check_rank (m n r : nat) (S A B A' B' : seq (seq Z)) (d : Z) : bool :=
  [&& eqmz m n S (mmulz m r n A B), ~~ Z.eqb d 0 &
      eqmz r r (mmulz r n r (mmulz r m n A' S) B') (scalarz r d)].

(* ---------- bridge ---------- *)
Definition zr (z : Z) : rat := (int_of_Z z)%:~R.
Definition toM (m n : nat) (M : seq (seq Z)) : 'M[rat]_(m,n) := \matrix_(i, j) zr (getz M i j).

Lemma zrD x y : zr (x + y)%Z = zr x + zr y.
Proof. by rewrite /zr rmorphD /= rmorphD. Qed.
Lemma zrM x y : zr (x * y)%Z = zr x * zr y.
Proof. by rewrite /zr rmorphM /= rmorphM. Qed.
Lemma zr0 : zr 0%Z = 0. Proof. by []. Qed.
Lemma zr_eq0 d : (zr d == 0) = Z.eqb d 0.
Proof.
rewrite /zr intr_eq0. case: Z.eqb_spec => [->//|ne]. apply/negbTE/eqP => e.
by apply: ne; rewrite -(int_of_ZK d) e.
Qed.

Lemma zr_sumz k (f : nat -> Z) : zr (sumz k f) = \sum_(l < k) zr (f l).
Proof.
rewrite /sumz -(big_mkord xpredT (fun l => zr (f l))) /index_iota subn0.
elim: (iota 0 k) => [|a s IH]; first by rewrite big_nil.
by rewrite /= zrD IH big_cons.
Qed.

Lemma getz_mmulz m k n A B (i : 'I_m) (j : 'I_n) :
  getz (mmulz m k n A B) i j = sumz k (fun l => (getz A i l * getz B l j)%Z).
Proof. by rewrite /getz /mmulz (nth_mkseq _ _ (ltn_ord i)) (nth_mkseq _ _ (ltn_ord j)). Qed.

Lemma toM_mul m k n A B : toM m n (mmulz m k n A B) = toM m k A *m toM k n B.
Proof.
apply/matrixP => i j; rewrite !mxE getz_mmulz zr_sumz.
by apply: eq_bigr => l _; rewrite !mxE zrM.
Qed.

Lemma eqmzP m n A B : eqmz m n A B -> toM m n A = toM m n B.
Proof.
move=> /allP H; apply/matrixP => i j; rewrite !mxE.
have ii : (i : nat) \in iota 0 m by rewrite mem_iota /= add0n.
have jj : (j : nat) \in iota 0 n by rewrite mem_iota /= add0n.
have /allP Hi := H _ ii.
by have /Z.eqb_spec -> := Hi _ jj.
Qed.

Lemma toM_scalar r d : toM r r (scalarz r d) = (zr d)%:M.
Proof.
apply/matrixP => i j; rewrite !mxE /getz /scalarz (nth_mkseq _ _ (ltn_ord i)) (nth_mkseq _ _ (ltn_ord j)).
by rewrite -val_eqE; case: eqP => // _; rewrite ?mulr1n ?mulr0n.
Qed.

Theorem check_rank_sound m n r S A B A' B' d :
  check_rank m n r S A B A' B' d -> \rank (toM m n S) = r.
Proof.
case/and3P => /eqmzP eS dn0 /eqmzP eI.
apply: (@rank_cert _ m n r _ (toM m r A) (toM r n B) (toM r m A') (toM n r B') (zr d)).
- by rewrite eS toM_mul.
- by rewrite zr_eq0.
- by rewrite -!toM_mul eI toM_scalar.
Qed.

Print Assumptions check_rank_sound.

(* executable sanity: S = [[1,2],[2,4]] has rank 1: A=[[1],[2]], B=[[1,2]], A'=[[1,0]], B'=[[1],[0]], d=1 *)
Eval vm_compute in check_rank 2 2 1 [:: [:: 1; 2]; [:: 2; 4]]%Z [:: [:: 1]; [:: 2]]%Z [:: [:: 1; 2]]%Z [:: [:: 1; 0]]%Z [:: [:: 1]; [:: 0]]%Z 1%Z.
