(* Design-time feasibility probe for lib/Mono.v: verified enumerator of label-preserving
   (induced or not) monomorphisms, sound + complete + duplicate-free.  Stdlib only. *)
From Coq Require Import List Arith NArith Bool Lia.
Import ListNotations.
Set Implicit Arguments.

Section Mono.
Variables A B : Type.
Variable pn hn : list N.              (* pattern / host node lists *)
Variable pl hl : N -> A.              (* node labels *)
Variable pe he : N -> N -> option B.  (* symmetric adjacency with edge labels *)
Variable nm : A -> A -> bool.         (* nm host pattern *)
Variable em : B -> B -> bool.         (* em host pattern *)
Variable induced : bool.
Hypothesis pe_sym : forall u v, pe u v = pe v u.
Hypothesis he_sym : forall u v, he u v = he v u.
Hypothesis hn_nodup : NoDup hn.

Definition mapping := list (N * N).   (* (pattern node, host node), most recent first *)

Definition edge_ok (p h : N) (ph : N * N) : bool :=
  match pe p (fst ph), he h (snd ph) with
  | Some b, Some b' => em b' b
  | Some _, None => false
  | None, Some _ => negb induced
  | None, None => true
  end.

Definition fresh (h : N) (acc : mapping) : bool := negb (existsb (fun ph => N.eqb (snd ph) h) acc).

Definition ok (p h : N) (acc : mapping) : bool :=
  nm (hl h) (pl p) && fresh h acc && forallb (edge_ok p h) acc.

Fixpoint extend (ps : list N) (acc : mapping) : list mapping :=
  match ps with
  | [] => [acc]
  | p :: ps' => flat_map (fun h => if ok p h acc then extend ps' ((p, h) :: acc) else []) hn
  end.

Definition monos : list mapping := extend pn [].

(* ---------- specification ---------- *)
Inductive valid : mapping -> Prop :=
| valid_nil : valid []
| valid_cons p h acc : valid acc -> In h hn -> ok p h acc = true -> valid ((p, h) :: acc).

(* the inductive reading coincides with the pointwise one *)
Lemma fresh_spec h acc : fresh h acc = true <-> ~ In h (map snd acc).
Proof.
  unfold fresh. rewrite negb_true_iff, <- not_true_iff_false, existsb_exists. split.
  - intros H I. apply H. apply in_map_iff in I. destruct I as (ph & E & I). exists ph. split; auto. subst. apply N.eqb_refl.
  - intros H (ph & I & E). apply H. apply N.eqb_eq in E. subst. apply in_map. exact I.
Qed.

Lemma edge_ok_sym p h p' h' : edge_ok p h (p', h') = edge_ok p' h' (p, h).
Proof. unfold edge_ok; simpl. rewrite (pe_sym p p'), (he_sym h h'). reflexivity. Qed.

Lemma valid_pointwise m : valid m ->
  (forall p h, In (p, h) m -> In h hn /\ nm (hl h) (pl p) = true) /\
  NoDup (map snd m) /\
  (forall l1 p h l2 p' h' l3, m = l1 ++ (p, h) :: l2 ++ (p', h') :: l3 -> edge_ok p h (p', h') = true).
Proof.
  induction 1 as [|p h acc Hv (IH1 & IH2 & IH3) Hh Hok]; simpl.
  - split; [intros ? ? []|]. split; [constructor|]. intros l1 p h l2 p' h' l3 E. destruct l1; discriminate.
  - unfold ok in Hok. apply andb_prop in Hok. destruct Hok as [Hok He]. apply andb_prop in Hok. destruct Hok as [Hnm Hf].
    split; [|split].
    + intros p0 h0 [E|I]; [inversion E; subst; auto | eauto].
    + constructor; auto. apply fresh_spec; auto.
    + intros l1 p0 h0 l2 p' h' l3 E. destruct l1 as [|x l1]; simpl in E.
      * inversion E; subst. rewrite forallb_forall in He. apply He. apply in_or_app. right. left. reflexivity.
      * inversion E; subst. eapply IH3. reflexivity.
Qed.

(* ---------- shape of results ---------- *)
Lemma extend_shape ps acc m : In m (extend ps acc) ->
  exists hs, length hs = length ps /\ m = rev (combine ps hs) ++ acc.
Proof.
  revert acc m. induction ps as [|p ps IH]; intros acc m Hin; simpl in *.
  - destruct Hin as [<-|[]]. exists []. auto.
  - apply in_flat_map in Hin. destruct Hin as (h & Hh & Hin).
    destruct (ok p h acc); [|destruct Hin].
    apply IH in Hin. destruct Hin as (hs & Hl & ->). exists (h :: hs). split; [simpl; lia|].
    simpl. rewrite <- app_assoc. reflexivity.
Qed.

(* ---------- soundness ---------- *)
Lemma extend_sound ps acc m : valid acc -> In m (extend ps acc) -> valid m.
Proof.
  revert acc m. induction ps as [|p ps IH]; intros acc m Hv Hin; simpl in *.
  - destruct Hin as [<-|[]]. exact Hv.
  - apply in_flat_map in Hin. destruct Hin as (h & Hh & Hin).
    destruct (ok p h acc) eqn:Hok; [|destruct Hin].
    eapply IH; [|exact Hin]. constructor; auto.
Qed.

(* ---------- completeness ---------- *)
Lemma valid_app_inv l acc : valid (l ++ acc) -> valid acc.
Proof. induction l as [|[p h] l IH]; simpl; auto. intros H. inversion H; subst. auto. Qed.

Lemma extend_complete ps : forall hs acc, length hs = length ps ->
  valid (rev (combine ps hs) ++ acc) -> In (rev (combine ps hs) ++ acc) (extend ps acc).
Proof.
  induction ps as [|p ps IH]; intros hs acc Hl Hv.
  - destruct hs; [|discriminate]. simpl. left. reflexivity.
  - destruct hs as [|h hs]; [discriminate|]. simpl in *. rewrite <- app_assoc in *. simpl in *.
    assert (Hv' : valid ((p, h) :: acc)) by (eapply valid_app_inv; exact Hv).
    inversion Hv'; subst. apply in_flat_map. exists h. split; auto.
    match goal with H : ok p h acc = true |- _ => rewrite H end.
    apply IH; [lia | exact Hv].
Qed.

Theorem monos_spec hs : length hs = length pn ->
  (In (rev (combine pn hs)) monos <-> valid (rev (combine pn hs))).
Proof.
  intros Hl. unfold monos. split.
  - intros H. eapply extend_sound; [constructor | exact H].
  - intros H. rewrite <- (app_nil_r (rev (combine pn hs))). apply extend_complete; auto.
    rewrite app_nil_r. exact H.
Qed.

Theorem monos_only_such m : In m monos -> exists hs, length hs = length pn /\ m = rev (combine pn hs) /\ valid m.
Proof.
  intros H. destruct (extend_shape _ _ _ H) as (hs & Hl & E). rewrite app_nil_r in E.
  exists hs. split; auto. split; auto. eapply extend_sound; [constructor | exact H].
Qed.

(* ---------- no duplicates ---------- *)
Lemma nodup_app (Y : Type) (l1 l2 : list Y) :
  NoDup l1 -> NoDup l2 -> (forall y, In y l1 -> In y l2 -> False) -> NoDup (l1 ++ l2).
Proof.
  induction l1 as [|y l1 IH]; simpl; intros H1 H2 Hd; auto.
  inversion H1; subst. constructor.
  - intro I. apply in_app_or in I. destruct I as [I|I]; [contradiction|]. eapply Hd; eauto.
  - apply IH; auto. intros; eapply Hd; eauto.
Qed.

Lemma NoDup_flat_map (X Y : Type) (f : X -> list Y) l :
  NoDup l -> (forall x, In x l -> NoDup (f x)) ->
  (forall x x' y, In x l -> In x' l -> In y (f x) -> In y (f x') -> x = x') ->
  NoDup (flat_map f l).
Proof.
  induction l as [|x l IH]; simpl; intros Hnd Hf Hd; [constructor|].
  inversion Hnd; subst.
  apply nodup_app.
  - apply Hf. left; reflexivity.
  - apply IH; auto. intros; eapply Hd; eauto.
  - intros y I1 I2. apply in_flat_map in I2. destruct I2 as (x' & Ix' & Iy).
    assert (x = x') by (eapply Hd; eauto). subst. contradiction.
Qed.

Lemma extend_nodup ps acc : NoDup (extend ps acc).
Proof.
  revert acc. induction ps as [|p ps IH]; intros acc; simpl.
  - constructor; [intros []|constructor].
  - apply NoDup_flat_map; auto.
    + intros h _. destruct (ok p h acc); [apply IH|constructor].
    + intros h h' m Hh Hh' I I'.
      destruct (ok p h acc); [|destruct I]. destruct (ok p h' acc); [|destruct I'].
      apply extend_shape in I. apply extend_shape in I'.
      destruct I as (hs & Hl & E). destruct I' as (hs' & Hl' & E').
      rewrite E in E'. apply (f_equal (@rev _)) in E'. rewrite !rev_app_distr in E'. simpl in E'.
      rewrite <- !app_assoc in E'. simpl in E'.
      apply (f_equal (fun l => nth (length (rev acc)) l (p, h))) in E'.
      rewrite !app_nth2 in E' by lia. rewrite Nat.sub_diag in E'. simpl in E'. congruence.
Qed.

Theorem monos_nodup : NoDup monos.
Proof. apply extend_nodup. Qed.
End Mono.

Print Assumptions monos_spec.
Print Assumptions monos_nodup.

(* executable sanity: path P3 (1-2-3) into triangle, all labels equal *)
Definition adj (es : list (N*N)) (u v : N) : option unit :=
  if existsb (fun e => (N.eqb (fst e) u && N.eqb (snd e) v) || (N.eqb (fst e) v && N.eqb (snd e) u)) es then Some tt else None.
Eval vm_compute in length (monos [1;2;3]%N [7;8;9]%N (fun _ => tt) (fun _ => tt)
   (adj [(1,2);(2,3)]%N) (adj [(7,8);(8,9);(7,9)]%N) (fun _ _ => true) (fun _ _ => true) false).
Eval vm_compute in length (monos [1;2;3]%N [7;8;9]%N (fun _ => tt) (fun _ => tt)
   (adj [(1,2);(2,3)]%N) (adj [(7,8);(8,9);(7,9)]%N) (fun _ _ => true) (fun _ _ => true) true).
