(* Design-time probe for lib/IR.v, part 3: the accumulator search with branch pruning computes exactly
   fold_left visit over the unpruned leaf enumeration, and the best label it returns is the minimum label. *)
From Coq Require Import List Arith NArith Bool Lia Permutation.
From SK Require Import lib.IRSortKeys lib.IRCore.
Import ListNotations.
Set Implicit Arguments.

Section Search.
Variable S : Type.
Variable sleb : S -> S -> bool.
Variable sig : partition -> N -> S.
Variable rfuel : nat.

Variable L : Type.
Variable leb : L -> L -> bool.
Hypothesis leb_total : forall a b, leb a b = true \/ leb b a = true.
Hypothesis leb_trans : forall a b c, leb a b = true -> leb b c = true -> leb a c = true.
Hypothesis leb_antisym : forall a b, leb a b = true -> leb b a = true -> a = b.
Variable label : list N -> L.
Variable partial : list N -> L.

Notation ltb := (ltb leb).
Notation leqb := (eqb leb).

Definition acc := (option (L * list N) * list (list N))%type.

Definition visit (a : acc) (p : list N) : acc :=
  match fst a with
  | None => (Some (label p, p), [p])
  | Some (bl, bp) =>
      if ltb (label p) bl then (Some (label p, p), [p])
      else if leqb (label p) bl then (fst a, snd a ++ [p])
      else a
  end.

Definition pruned (a : acc) (pre : list N) : bool :=
  match fst a with Some (bl, _) => ltb bl (partial pre) | None => false end.

Fixpoint search (fuel : nat) (P : partition) (pre : list N) (a : acc) : acc :=
  match fuel with
  | 0 => a
  | Datatypes.S f =>
      let P' := refine sleb sig rfuel P in
      match first_big P' with
      | None => visit a (pre ++ concat P')
      | Some i => fold_left (fun a v => if pruned a (pre ++ [v]) then a
                                        else search f (individualise P' i v) (pre ++ [v]) a)
                            (nth i P' []) a
      end
  end.

(* the lower bound that justifies pruning: every leaf below a prefix has a label >= the partial label *)
Hypothesis partial_lb : forall fuel P pre p, pre <> [] -> In p (leaves sleb sig rfuel fuel P pre) -> leb (partial pre) (label p) = true.

Lemma ltb_leb_trans a b c : ltb a b = true -> leb b c = true -> ltb a c = true.
Proof.
  rewrite !(ltb_spec leb leb_total leb_antisym). intros [H1 N1] H2. split; [eauto|].
  intros ->. apply N1. apply leb_antisym; auto.
Qed.

Lemma visit_noop a bl bp p : fst a = Some (bl, bp) -> ltb bl (label p) = true -> visit a p = a.
Proof.
  intros E H. unfold visit. rewrite E.
  apply (ltb_spec leb leb_total leb_antisym) in H. destruct H as [H Hne].
  assert (H1 : ltb (label p) bl = false).
  { destruct (ltb (label p) bl) eqn:E1; auto. apply (ltb_spec leb leb_total leb_antisym) in E1. destruct E1 as [E1 _].
    exfalso. apply Hne. apply leb_antisym; auto. }
  assert (H2 : leqb (label p) bl = false).
  { destruct (leqb (label p) bl) eqn:E2; auto. apply (eqb_eq leb leb_total leb_antisym) in E2. congruence. }
  rewrite H1, H2. reflexivity.
Qed.

Lemma fold_visit_noop l : forall a bl bp, fst a = Some (bl, bp) ->
  (forall p, In p l -> ltb bl (label p) = true) -> fold_left visit l a = a.
Proof.
  induction l as [|p l IH]; intros a bl bp E H; simpl; auto.
  rewrite (@visit_noop a bl bp p E) by (apply H; left; reflexivity). eapply IH; eauto. intros; apply H; right; auto.
Qed.

Lemma fold_left_flat_map (X Y A : Type) (g : A -> Y -> A) (F : X -> list Y) l :
  forall a, fold_left g (flat_map F l) a = fold_left (fun a x => fold_left g (F x) a) l a.
Proof. induction l as [|x l IH]; intros a; simpl; auto. rewrite fold_left_app. apply IH. Qed.

Lemma fold_left_ext_in (X A : Type) (g g' : A -> X -> A) l :
  (forall a x, In x l -> g a x = g' a x) -> forall a, fold_left g l a = fold_left g' l a.
Proof. induction l as [|x l IH]; intros H a; simpl; auto. rewrite H by (left; reflexivity). apply IH. intros; apply H; right; auto. Qed.

Theorem search_is_fold fuel : forall P pre a,
  search fuel P pre a = fold_left visit (leaves sleb sig rfuel fuel P pre) a.
Proof.
  induction fuel as [|f IH]; intros P pre a; simpl; auto.
  destruct (first_big (refine sleb sig rfuel P)) as [i|]; [|reflexivity].
  rewrite fold_left_flat_map. apply fold_left_ext_in. intros a' v _.
  destruct (pruned a' (pre ++ [v])) eqn:Ep; [|apply IH].
  unfold pruned in Ep. destruct (fst a') as [[bl bp]|] eqn:Ea; [|discriminate].
  symmetry. eapply fold_visit_noop; eauto.
  intros p I. eapply ltb_leb_trans; [exact Ep|]. eapply partial_lb; [|exact I].
  destruct pre; discriminate.
Qed.

(* the best label after folding is the minimum *)
Definition best_label (a : acc) : option L := option_map fst (fst a).
Definition minl (o : option L) (x : L) : option L :=
  match o with None => Some x | Some b => if ltb x b then Some x else Some b end.

Lemma best_label_visit a p : best_label (visit a p) = minl (best_label a) (label p).
Proof.
  destruct a as [[[bl bp]|] au]; unfold visit, best_label, minl; simpl; auto.
  destruct (ltb (label p) bl); simpl; auto.
  destruct (leqb (label p) bl); simpl; auto.
Qed.
Lemma best_label_fold l : forall a, best_label (fold_left visit l a) = fold_left minl (map label l) (best_label a).
Proof. induction l as [|p l IH]; intros a; simpl; auto. rewrite IH, best_label_visit. reflexivity. Qed.

(* fold_left minl is invariant under permutation of the labels *)
Lemma minl_comm o x y : minl (minl o x) y = minl (minl o y) x.
Proof.
  assert (T : forall a b, ltb a b = true -> ltb b a = false).
  { intros a b H. destruct (ltb b a) eqn:E; auto. apply (ltb_spec leb leb_total leb_antisym) in H, E.
    destruct H as [H N1], E as [E _]. exfalso. apply N1. apply leb_antisym; auto. }
  assert (Tot : forall a b, ltb a b = false -> ltb b a = false -> a = b).
  { intros a b H1 H2. unfold IRSortKeys.ltb in *. destruct (leb_total a b) as [H|H]; rewrite H in *; simpl in *.
    - apply negb_false_iff in H1. apply leb_antisym; auto.
    - apply negb_false_iff in H2. apply leb_antisym; auto. }
  assert (Tr : forall a b c, ltb a b = true -> ltb b c = true -> ltb a c = true) by (intros a0 b0 c0 H1 H2; exact (ltb_trans leb leb_total leb_trans leb_antisym a0 b0 c0 H1 H2)).
  unfold minl. destruct o as [b|].
  - destruct (ltb x b) eqn:Exb, (ltb y b) eqn:Eyb; simpl;
    try rewrite Exb; try rewrite Eyb; simpl;
    destruct (ltb y x) eqn:Eyx, (ltb x y) eqn:Exy; simpl; try rewrite Exb; try rewrite Eyb; auto;
    try (rewrite (T _ _ Eyx) in Exy; discriminate);
    try (f_equal; apply Tot; auto; fail);
    try (rewrite (Tr _ _ _ Eyx Exb) in Eyb; discriminate);
    try (rewrite (Tr _ _ _ Exy Eyb) in Exb; discriminate).
  - destruct (ltb y x) eqn:Eyx, (ltb x y) eqn:Exy; simpl; auto.
    + rewrite (T _ _ Eyx) in Exy. discriminate.
    + f_equal. apply Tot; auto.
Qed.
Lemma fold_minl_perm l l' : Permutation l l' -> forall o, fold_left minl l o = fold_left minl l' o.
Proof.
  induction 1; intros o; simpl; auto.
  - rewrite minl_comm. reflexivity.
  - rewrite IHPermutation1. apply IHPermutation2.
Qed.
End Search.
Print Assumptions search_is_fold.
Print Assumptions fold_minl_perm.
