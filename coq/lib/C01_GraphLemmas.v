(** Lemmas about lib/LGraph.v used by the ITS properties (C01, C02; reusable by C03-C05, C09, C10):
    association lists, undirected edge lookup, the inductive form [simple] of "no duplicate unordered
    pair", extensional graph equality [geq], injective relabelling, induced subgraphs.  Stdlib only. *)
From Coq Require Import List NArith ZArith Bool Lia FinFun.
From SK Require Import lib.LGraph.
Import ListNotations.
Set Implicit Arguments.

(** * options *)
Lemma option_ext {A} (o1 o2 : option A) : (forall x, o1 = Some x <-> o2 = Some x) -> o1 = o2.
Proof.
  intros H. destruct o1 as [a|].
  - symmetry. apply H. reflexivity.
  - destruct o2 as [b|]; [|reflexivity]. apply H. reflexivity.
Qed.

(** * association lists *)
Section Assoc.
Variable V : Type.
Implicit Type l : list (N * V).

Lemma assoc_app k l1 l2 :
  assoc k (l1 ++ l2) = match assoc k l1 with Some v => Some v | None => assoc k l2 end.
Proof.
  induction l1 as [|[k' v] r IH]; simpl; [reflexivity|].
  destruct (N.eqb k k'); [reflexivity|exact IH].
Qed.

Lemma assoc_none k l : assoc k l = None <-> ~ In k (map fst l).
Proof.
  induction l as [|[k' v] r IH]; simpl; [tauto|].
  destruct (N.eqb_spec k k') as [->|Hne].
  - split; [discriminate|]. intros H. exfalso. apply H. left. reflexivity.
  - rewrite IH. split; [intros H [E|I]; [congruence|tauto]|tauto].
Qed.

Lemma assoc_some_key k l v : assoc k l = Some v -> In k (map fst l).
Proof.
  intros H. apply assoc_in in H. change k with (fst (k, v)). apply in_map. exact H.
Qed.

Lemma assoc_is_some k l : In k (map fst l) -> exists v, assoc k l = Some v.
Proof.
  intros H. destruct (assoc k l) eqn:E; [eauto|]. apply assoc_none in E. contradiction.
Qed.

Lemma assoc_filter (f : N -> bool) k l :
  assoc k (filter (fun p => f (fst p)) l) = if f k then assoc k l else None.
Proof.
  induction l as [|[k' v] r IH]; simpl; [destruct (f k); reflexivity|].
  destruct (f k') eqn:Fk'; simpl.
  - destruct (N.eqb_spec k k') as [->|Hne]; [rewrite Fk'; reflexivity|exact IH].
  - destruct (N.eqb_spec k k') as [->|Hne]; [rewrite IH, Fk'; reflexivity|exact IH].
Qed.
End Assoc.

Lemma assoc_map_val {V W} (f : N -> V -> W) k (l : list (N * V)) :
  assoc k (map (fun p => (fst p, f (fst p) (snd p))) l) = option_map (f k) (assoc k l).
Proof.
  induction l as [|[k' v] r IH]; simpl; [reflexivity|].
  destruct (N.eqb_spec k k') as [->|Hne]; [reflexivity|exact IH].
Qed.

Lemma map_fst_map_val {V W} (f : N -> V -> W) (l : list (N * V)) :
  map fst (map (fun p => (fst p, f (fst p) (snd p))) l) = map fst l.
Proof. rewrite map_map. apply map_ext. reflexivity. Qed.

(** relabelled association lists (injective key map) *)
Lemma assoc_map_key {V} (f : N -> N) (Hinj : forall a b, f a = f b -> a = b) k (l : list (N * V)) :
  assoc (f k) (map (fun p => (f (fst p), snd p)) l) = assoc k l.
Proof.
  induction l as [|[k' v] r IH]; simpl; [reflexivity|].
  destruct (N.eqb_spec k k') as [->|Hne].
  - rewrite N.eqb_refl. reflexivity.
  - destruct (N.eqb_spec (f k) (f k')) as [E|_]; [apply Hinj in E; contradiction|exact IH].
Qed.

Lemma mem_map_inj (f : N -> N) (Hinj : forall a b, f a = f b -> a = b) x l :
  mem (f x) (map f l) = mem x l.
Proof.
  induction l as [|y r IH]; simpl; [reflexivity|]. rewrite IH. f_equal.
  destruct (N.eqb_spec x y) as [->|Hne]; [apply N.eqb_refl|].
  apply N.eqb_neq. intros E. apply Hinj in E. contradiction.
Qed.

(** * undirected edge lookup *)
Section Edges.
Variable B : Type.
Implicit Type es : list (N * N * B).

Lemma find_edge_app u v es1 es2 :
  find_edge u v (es1 ++ es2) = match find_edge u v es1 with Some x => Some x | None => find_edge u v es2 end.
Proof.
  induction es1 as [|[[a b] x] r IH]; simpl; [reflexivity|].
  destruct ((N.eqb a u && N.eqb b v) || (N.eqb a v && N.eqb b u)); [reflexivity|exact IH].
Qed.

Lemma match_pair_spec a b u v :
  (N.eqb a u && N.eqb b v) || (N.eqb a v && N.eqb b u) = true <-> (a = u /\ b = v) \/ (a = v /\ b = u).
Proof.
  rewrite orb_true_iff, !andb_true_iff, !N.eqb_eq. tauto.
Qed.

Lemma find_edge_some_in u v es x : find_edge u v es = Some x -> In (u, v, x) es \/ In (v, u, x) es.
Proof.
  induction es as [|[[a b] y] r IH]; simpl; [discriminate|].
  destruct ((N.eqb a u && N.eqb b v) || (N.eqb a v && N.eqb b u)) eqn:E.
  - intros [= ->]. apply match_pair_spec in E. destruct E as [[-> ->]|[-> ->]]; auto.
  - intros H. destruct (IH H); auto.
Qed.

Lemma find_edge_none u v es :
  find_edge u v es = None <-> forall x, ~ In (u, v, x) es /\ ~ In (v, u, x) es.
Proof.
  induction es as [|[[a b] y] r IH]; simpl; [tauto|].
  destruct ((N.eqb a u && N.eqb b v) || (N.eqb a v && N.eqb b u)) eqn:E.
  - split; [discriminate|]. intros H. exfalso. apply match_pair_spec in E.
    destruct E as [[-> ->]|[-> ->]]; destruct (H y) as [H1 H2]; [apply H1|apply H2]; left; reflexivity.
  - rewrite IH. split.
    + intros H x. destruct (H x) as [H1 H2]. split; intros [F|F]; try tauto; inversion F; subst;
        rewrite !N.eqb_refl in E; simpl in E; try discriminate; rewrite orb_true_r in E; discriminate.
    + intros H x. destruct (H x). tauto.
Qed.

Lemma find_edge_not_none u v es x : In (u, v, x) es \/ In (v, u, x) es -> find_edge u v es <> None.
Proof. intros H E. rewrite find_edge_none in E. destruct (E x). tauto. Qed.

(** every stored entry for an unordered pair carries the same attribute *)
Definition consistent es : Prop :=
  forall a b x y, In (a, b, x) es \/ In (b, a, x) es -> In (a, b, y) es \/ In (b, a, y) es -> x = y.

Lemma find_edge_iff es : consistent es ->
  forall u v x, find_edge u v es = Some x <-> In (u, v, x) es \/ In (v, u, x) es.
Proof.
  intros Hc u v x. split; [apply find_edge_some_in|].
  intros H. destruct (find_edge u v es) as [y|] eqn:E.
  - f_equal. apply find_edge_some_in in E. eapply Hc; eauto.
  - exfalso. eapply find_edge_not_none; eauto.
Qed.

(** no duplicate unordered pair, inductive form *)
Inductive simple : list (N * N * B) -> Prop :=
| simple_nil : simple []
| simple_cons a b x es : find_edge a b es = None -> simple es -> simple ((a, b, x) :: es).

Lemma simple_consistent es : simple es -> consistent es.
Proof.
  induction 1 as [|a b x es Hn Hs IH]; intros u v y z Hy Hz; simpl in *.
  - tauto.
  - rewrite find_edge_none in Hn.
    assert (forall w, In (u, v, w) ((a, b, x) :: es) \/ In (v, u, w) ((a, b, x) :: es) ->
                      (w = x /\ ((a = u /\ b = v) \/ (a = v /\ b = u))) \/ (In (u, v, w) es \/ In (v, u, w) es)) as Hcase.
    { intros w [[F|F]|[F|F]]; try (inversion F; subst; left; tauto); tauto. }
    destruct (Hcase y Hy) as [[-> Py]|Iy], (Hcase z Hz) as [[-> Pz]|Iz]; auto.
    + exfalso. destruct Py as [[-> ->]|[-> ->]]; destruct (Hn z); tauto.
    + exfalso. destruct Pz as [[-> ->]|[-> ->]]; destruct (Hn y); tauto.
    + eapply IH; eauto.
Qed.

Lemma simple_app es1 es2 :
  simple es1 -> simple es2 -> (forall a b x, In (a, b, x) es1 -> find_edge a b es2 = None) -> simple (es1 ++ es2).
Proof.
  induction 1 as [|a b x es Hn Hs IH]; intros H2 Hd; simpl; [exact H2|].
  constructor.
  - rewrite find_edge_app, Hn. apply (Hd a b x). left. reflexivity.
  - apply IH; [exact H2|]. intros a' b' x' I. apply (Hd a' b' x'). right. exact I.
Qed.

Lemma simple_filter (p : N * N * B -> bool) es : simple es -> simple (filter p es).
Proof.
  induction 1 as [|a b x es Hn Hs IH]; simpl; [constructor|].
  destruct (p (a, b, x)); [|exact IH]. constructor; [|exact IH].
  rewrite find_edge_none in *. intros y. destruct (Hn y) as [H1 H2].
  split; intros F; apply filter_In in F; tauto.
Qed.

Lemma simple_snoc es a b x : simple es -> find_edge a b es = None -> simple (es ++ [(a, b, x)]).
Proof.
  intros Hs Hn. apply simple_app; [exact Hs|constructor; [reflexivity|constructor]|].
  intros a' b' x' I. simpl.
  destruct ((N.eqb a a' && N.eqb b b') || (N.eqb a b' && N.eqb b a')) eqn:E; [|reflexivity].
  exfalso. apply match_pair_spec in E. rewrite find_edge_none in Hn. destruct (Hn x') as [H1 H2].
  destruct E as [[-> ->]|[-> ->]]; tauto.
Qed.
End Edges.

Lemma simple_map_attr {B C} (f : N -> N -> B -> C) (es : list (N * N * B)) :
  simple es -> simple (map (fun e => let '(a, b, x) := e in (a, b, f a b x)) es).
Proof.
  induction 1 as [|a b x es Hn Hs IH]; simpl; constructor; [|exact IH].
  rewrite find_edge_none in *. intros y.
  split; intros F; apply in_map_iff in F; destruct F as ([[a' b'] x'] & E & I); inversion E; subst.
  - destruct (Hn x'). tauto.
  - destruct (Hn x'). tauto.
Qed.

(** * well-formed graphs *)
Section WF.
Variables A B : Type.
Implicit Type g : lgraph A B.

Lemma wf_simple g : wf g -> simple (gedges g).
Proof.
  intros (_ & _ & H3). revert H3. generalize (gedges g) as es.
  induction es as [|[[a b] x] r IH]; intros H; constructor.
  - destruct (H [] a b x r eq_refl) as [_ H2]. exact H2.
  - apply IH. intros l1 a' b' x' l2 E. destruct (H ((a, b, x) :: l1) a' b' x' l2) as [H1 H2].
    + simpl. rewrite E. reflexivity.
    + split; [|exact H2]. simpl in H1.
      destruct ((N.eqb a a' && N.eqb b b') || (N.eqb a b' && N.eqb b a')); [discriminate|exact H1].
Qed.

Lemma simple_wf3 (es : list (N * N * B)) : simple es ->
  forall l1 a b x l2, es = l1 ++ (a, b, x) :: l2 -> find_edge a b l1 = None /\ find_edge a b l2 = None.
Proof.
  induction 1 as [|a0 b0 x0 es Hn Hs IH]; intros l1 a b x l2 E.
  - destruct l1; discriminate.
  - destruct l1 as [|e l1]; simpl in E; inversion E; subst.
    + split; [reflexivity|exact Hn].
    + destruct (IH l1 a b x l2 eq_refl) as [H1 H2]. split; [|exact H2]. simpl.
      destruct ((N.eqb a0 a && N.eqb b0 b) || (N.eqb a0 b && N.eqb b0 a)) eqn:M; [|exact H1].
      exfalso. apply match_pair_spec in M. rewrite find_edge_none in Hn. destruct (Hn x) as [N1 N2].
      destruct M as [[-> ->]|[-> ->]]; [apply N1|apply N2]; apply in_or_app; right; left; reflexivity.
Qed.

Lemma wf_intro g :
  NoDup (node_ids g) ->
  (forall a b x, In (a, b, x) (gedges g) -> In a (node_ids g) /\ In b (node_ids g) /\ a <> b) ->
  simple (gedges g) -> wf g.
Proof. intros H1 H2 H3. split; [exact H1|split; [exact H2|apply simple_wf3; exact H3]]. Qed.

Lemma wf_consistent g : wf g -> consistent (gedges g).
Proof. intros H. apply simple_consistent, wf_simple, H. Qed.

Lemma wf_adj_iff g : wf g -> forall u v x, adj g u v = Some x <-> In (u, v, x) (gedges g) \/ In (v, u, x) (gedges g).
Proof. intros H. apply find_edge_iff, wf_consistent, H. Qed.

Lemma wf_in_adj g a b x : wf g -> In (a, b, x) (gedges g) -> adj g a b = Some x.
Proof. intros H I. apply wf_adj_iff; auto. Qed.

Lemma wf_edge_nodes g a b x : wf g -> In (a, b, x) (gedges g) -> In a (node_ids g) /\ In b (node_ids g) /\ a <> b.
Proof. intros (_ & H & _). apply H. Qed.

Lemma label_some_node g n a : label g n = Some a -> In n (node_ids g).
Proof. apply assoc_some_key. Qed.

Lemma node_label_some g n : In n (node_ids g) -> exists a, label g n = Some a.
Proof. apply assoc_is_some. Qed.

Lemma has_node_spec g n : has_node g n = true <-> In n (node_ids g).
Proof.
  unfold has_node. destruct (label g n) eqn:E.
  - split; [intros _; eapply label_some_node; eauto|reflexivity].
  - split; [discriminate|]. intros I. apply assoc_none in E. contradiction.
Qed.

(** neighbours = adjacent nodes *)
Lemma in_nbrs g u v : In v (nbrs g u) <-> adj g u v <> None.
Proof.
  unfold nbrs, adj. induction (gedges g) as [|[[a b] x] r IH]; simpl; [tauto|].
  rewrite in_app_iff, IH.
  destruct (N.eqb_spec a u), (N.eqb_spec b v), (N.eqb_spec a v), (N.eqb_spec b u); subst; simpl;
    intuition (subst; try congruence; try discriminate).
Qed.
End WF.

(** * extensional equality *)
Definition geq {A B} (g h : lgraph A B) : Prop :=
  (forall n, label g n = label h n) /\ (forall u v, adj g u v = adj h u v).

Lemma geq_refl {A B} (g : lgraph A B) : geq g g.
Proof. split; reflexivity. Qed.
Lemma geq_sym {A B} (g h : lgraph A B) : geq g h -> geq h g.
Proof. intros [H1 H2]. split; intros; symmetry; auto. Qed.
Lemma geq_trans {A B} (g h k : lgraph A B) : geq g h -> geq h k -> geq g k.
Proof. intros [H1 H2] [H3 H4]. split; intros; etransitivity; eauto. Qed.

(** * injective relabelling *)
Section Relabel.
Variables A B : Type.
Variable f : N -> N.
Hypothesis Hinj : forall a b, f a = f b -> a = b.
Implicit Type g : lgraph A B.

Lemma find_edge_relabel u v (es : list (N * N * B)) :
  find_edge (f u) (f v) (map (fun e => let '(a, b, x) := e in (f a, f b, x)) es) = find_edge u v es.
Proof.
  induction es as [|[[a b] x] r IH]; simpl; [reflexivity|]. rewrite IH.
  assert (forall p q, N.eqb (f p) (f q) = N.eqb p q) as E.
  { intros p q. destruct (N.eqb_spec p q) as [->|Hne]; [apply N.eqb_refl|].
    apply N.eqb_neq. intros F. apply Hinj in F. contradiction. }
  rewrite !E. reflexivity.
Qed.

Lemma label_relabel g n : label (relabel f g) (f n) = label g n.
Proof. unfold label, relabel. simpl. apply assoc_map_key. exact Hinj. Qed.

Lemma adj_relabel g u v : adj (relabel f g) (f u) (f v) = adj g u v.
Proof. unfold adj, relabel. simpl. apply find_edge_relabel. Qed.

Lemma has_node_relabel g n : has_node (relabel f g) (f n) = has_node g n.
Proof. unfold has_node. rewrite label_relabel. reflexivity. Qed.

Lemma node_ids_relabel g : node_ids (relabel f g) = map f (node_ids g).
Proof. unfold node_ids, relabel. simpl. rewrite !map_map. reflexivity. Qed.

Lemma nbrs_relabel g u : nbrs (relabel f g) (f u) = map f (nbrs g u).
Proof.
  unfold nbrs, relabel. simpl. induction (gedges g) as [|[[a b] x] r IH]; simpl; [reflexivity|].
  rewrite map_app, IH. f_equal.
  assert (forall p q, N.eqb (f p) (f q) = N.eqb p q) as E.
  { intros p q. destruct (N.eqb_spec p q) as [->|Hne]; [apply N.eqb_refl|].
    apply N.eqb_neq. intros F. apply Hinj in F. contradiction. }
  rewrite !E. destruct (N.eqb a u); [reflexivity|]. destruct (N.eqb b u); reflexivity.
Qed.

Lemma simple_relabel (es : list (N * N * B)) :
  simple es -> simple (map (fun e => let '(a, b, x) := e in (f a, f b, x)) es).
Proof.
  induction 1 as [|a b x es Hn Hs IH]; simpl; constructor; [|exact IH].
  rewrite find_edge_relabel. exact Hn.
Qed.

Lemma wf_relabel g : wf g -> wf (relabel f g).
Proof.
  intros Hw. pose proof (wf_simple Hw) as Hs. destruct Hw as (H1 & H2 & _).
  apply wf_intro.
  - rewrite node_ids_relabel. apply Injective_map_NoDup; [exact Hinj|exact H1].
  - intros a b x I. unfold relabel in I. simpl in I. apply in_map_iff in I.
    destruct I as ([[a' b'] x'] & E & I). inversion E; subst. destruct (H2 _ _ _ I) as (Ha & Hb & Hab).
    rewrite node_ids_relabel. split; [apply in_map; exact Ha|split; [apply in_map; exact Hb|]].
    intros F. apply Hinj in F. contradiction.
  - unfold relabel. simpl. apply simple_relabel. exact Hs.
Qed.
End Relabel.

(** * induced subgraphs *)
Section Induced.
Variables A B : Type.
Implicit Type g : lgraph A B.

Lemma label_induced g keep n : label (induced_sub g keep) n = if mem n keep then label g n else None.
Proof. unfold label, induced_sub. simpl. apply (assoc_filter (fun k => mem k keep)). Qed.

Lemma node_ids_induced g keep n :
  In n (node_ids (induced_sub g keep)) <-> In n (node_ids g) /\ In n keep.
Proof.
  unfold node_ids, induced_sub. simpl. rewrite in_map_iff. split.
  - intros ([k a] & E & I). simpl in E. subst. apply filter_In in I. destruct I as [I M]. simpl in M.
    split; [change n with (fst (n, a)); apply in_map; exact I|apply mem_spec; exact M].
  - intros [I M]. apply in_map_iff in I. destruct I as ([k a] & E & I). simpl in E. subst.
    exists (n, a). split; [reflexivity|]. apply filter_In. split; [exact I|]. simpl. apply mem_spec. exact M.
Qed.

Lemma in_edges_induced g keep a b x :
  In (a, b, x) (gedges (induced_sub g keep)) <-> In (a, b, x) (gedges g) /\ In a keep /\ In b keep.
Proof.
  unfold induced_sub. simpl. rewrite filter_In, andb_true_iff, !mem_spec. tauto.
Qed.

Lemma adj_induced g keep u v : wf g ->
  adj (induced_sub g keep) u v = if mem u keep && mem v keep then adj g u v else None.
Proof.
  intros Hw. apply option_ext. intros x.
  assert (consistent (gedges (induced_sub g keep))) as Hc.
  { apply simple_consistent. unfold induced_sub. simpl. apply simple_filter. apply wf_simple. exact Hw. }
  unfold adj at 1. rewrite (find_edge_iff Hc), !in_edges_induced.
  destruct (mem u keep && mem v keep) eqn:M.
  - apply andb_true_iff in M. rewrite !mem_spec in M. rewrite (wf_adj_iff Hw). tauto.
  - split; [|discriminate]. intros H. exfalso.
    assert (In u keep /\ In v keep) as [Iu Iv] by tauto.
    apply mem_spec in Iu, Iv. rewrite Iu, Iv in M. discriminate.
Qed.

Lemma wf_induced g keep : wf g -> wf (induced_sub g keep).
Proof.
  intros Hw. pose proof (wf_simple Hw) as Hs. destruct Hw as (H1 & H2 & _). apply wf_intro.
  - unfold node_ids, induced_sub. simpl.
    assert (forall l : list (N * A), NoDup (map fst l) -> NoDup (map fst (filter (fun p => mem (fst p) keep) l))) as G.
    { induction l as [|[k a] r IH]; simpl; intros Hn; [constructor|]. inversion Hn; subst.
      destruct (mem k keep); simpl; [constructor|]; auto.
      intros F. apply in_map_iff in F. destruct F as ([k' a'] & E & F). simpl in E. subst.
      apply filter_In in F. destruct F as [F _]. apply H3. change k with (fst (k, a')). apply in_map. exact F. }
    apply G. exact H1.
  - intros a b x I. apply in_edges_induced in I. destruct I as (I & Ia & Ib).
    destruct (H2 _ _ _ I) as (Na & Nb & Hab). rewrite !node_ids_induced. tauto.
  - unfold induced_sub. simpl. apply simple_filter. exact Hs.
Qed.
End Induced.

(** uniform calling conventions: the data are inferred from the hypotheses *)
Arguments wf_in_adj [A B g a b x] _ _.
Arguments wf_edge_nodes [A B g a b x] _ _.
Arguments label_some_node [A B g n a] _.
Arguments node_label_some [A B g n] _.
Arguments assoc_map_key [V f] Hinj k l.
Arguments mem_map_inj [f] Hinj x l.
Arguments find_edge_relabel [B f] Hinj u v es.
Arguments label_relabel [A B f] Hinj g n.
Arguments adj_relabel [A B f] Hinj g u v.
Arguments has_node_relabel [A B f] Hinj g n.
Arguments node_ids_relabel [A B] f g.
Arguments nbrs_relabel [A B f] Hinj g u.
Arguments simple_relabel [B f] Hinj [es] _.
Arguments wf_relabel [A B f] Hinj [g] _.
