(** C06 — specification vocabulary on the caller's graphs (attribute dictionaries + selections);
    definitions only, no reference to the search code.  Written out in [C06_sel_spec_meaning]. *)
From Coq Require Import List NArith Bool Arith Permutation.
From SK Require Import lib.LGraph model.C06_Model model.C06_Attrs.
Import ListNotations.

(** distinct node ids; every edge joins two different nodes of the graph *)
Definition rgwf (g : rgraph) : Prop :=
  NoDup (node_ids g) /\
  forall a b x, In (a, b, x) (gedges g) -> In a (node_ids g) /\ In b (node_ids g) /\ a <> b.

(** [m] is a label-preserving monomorphism P -> H for the selections [na] / [ea]: a function defined
    exactly on the pattern nodes, injective, into the host nodes; for every SELECTED node attribute
    name the two dictionaries give the same value ([dict.get]: absent = None), the host hcount
    (default 0) is at least the pattern's; every pattern edge lands on a host edge whose dictionary
    agrees on every SELECTED edge attribute name *)
Definition is_mono_sel (na ea : list N) (H P : rgraph) (m : mapping) : Prop :=
  NoDup (map fst m) /\
  (forall p, In p (map fst m) <-> In p (node_ids P)) /\
  NoDup (map snd m) /\
  (forall p h, In (p, h) m ->
     In h (node_ids H) /\
     (forall k, In k na -> aget k (fst (rlab H h)) = aget k (fst (rlab P p))) /\
     (hc (rlab P p) <= hc (rlab H h))%N) /\
  (forall p h p' h' b, In (p, h) m -> In (p', h') m -> LGraph.adj P p p' = Some b ->
     exists b', LGraph.adj H h h' = Some b' /\ forall k, In k ea -> aget k b' = aget k b).
