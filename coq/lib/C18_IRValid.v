(** C18 — generic facts about ordered partitions in the individualisation-refinement search of lib/IRCore.v:
    refinement and individualisation keep "ordered partition of the node list", leaves are prefix ++ permutation of
    the nodes, the fuel [|nodes| + 1] always reaches a leaf.  (The partition part follows proof/C08_IR.v, which proves the
    same facts for the molecular back-end's variant of the search; copied here so that C18 does not depend on C08 files.) *)
From Coq Require Import List NArith ZArith Bool Arith Lia Permutation.
From SK Require Import lib.IRSortKeys lib.IRCore lib.IRSearch.
Import ListNotations.

(* ---------------- ordered partitions of the node set ---------------- *)
Section Valid.
Variable S : Type.
Variable leb : S -> S -> bool.
Hypothesis leb_total : forall a b, leb a b = true \/ leb b a = true.
Hypothesis leb_trans : forall a b c, leb a b = true -> leb b c = true -> leb a c = true.
Hypothesis leb_antisym : forall a b, leb a b = true -> leb b a = true -> a = b.
Variable sig : partition -> N -> S.

Lemma ssorted_NoDup l : ssorted leb l -> NoDup l.
Proof.
  induction 1 as [|x l Hs IH Hx]; constructor; auto.
  intro I. specialize (Hx _ I). rewrite (ltb_irrefl leb leb_total) in Hx. discriminate.
Qed.

Lemma groups_one (key : N -> S) (F : S -> list N) x ks :
  NoDup ks -> In (key x) ks ->
  Permutation (flat_map (fun k => if eqb leb (key x) k then x :: F k else F k) ks) (x :: flat_map F ks).
Proof.
  induction ks as [|k ks IH]; intros Hnd Hin; [contradiction|].
  inversion Hnd as [|? ? Hk Hnd']; subst. simpl.
  destruct (eqb leb (key x) k) eqn:E.
  - apply (eqb_eq leb leb_total leb_antisym) in E. subst k. simpl. apply perm_skip. apply Permutation_app_head.
    assert (H : forall ks', ~ In (key x) ks' ->
               flat_map (fun k => if eqb leb (key x) k then x :: F k else F k) ks' = flat_map F ks').
    { induction ks' as [|k' ks' IH']; simpl; intros Hn; auto.
      destruct (eqb leb (key x) k') eqn:E'.
      - apply (eqb_eq leb leb_total leb_antisym) in E'. exfalso. apply Hn. left. auto.
      - f_equal. apply IH'. intro I. apply Hn. right. auto. }
    rewrite H by auto. apply Permutation_refl.
  - destruct Hin as [->|Hin].
    + rewrite (proj2 (eqb_eq leb leb_total leb_antisym (key x) (key x)) eq_refl) in E. discriminate.
    + eapply perm_trans; [apply Permutation_app_head; apply IH; auto|].
      apply Permutation_sym. apply Permutation_middle.
Qed.

Lemma groups_perm (key : N -> S) c : forall ks, NoDup ks -> (forall v, In v c -> In (key v) ks) ->
  Permutation (flat_map (fun k => filter (fun v => eqb leb (key v) k) c) ks) c.
Proof.
  induction c as [|x c IH]; intros ks Hnd Hcov; simpl.
  - clear. induction ks; simpl; auto.
  - eapply perm_trans; [apply (groups_one key (fun k => filter (fun v => eqb leb (key v) k) c) x ks Hnd); apply Hcov; left; auto|].
    apply perm_skip. apply IH; auto. intros; apply Hcov; right; auto.
Qed.

Lemma concat_map_flat_map {X Y} (f : X -> list Y) l : concat (map f l) = flat_map f l.
Proof. induction l; simpl; auto. f_equal; auto. Qed.

Lemma split_cell_perm P c : Permutation (concat (split_cell leb sig P c)) c.
Proof.
  unfold split_cell. cbv zeta. destruct (length c <=? 1); [simpl; rewrite app_nil_r; auto|].
  destruct (length (keys leb sig P c) <=? 1); [simpl; rewrite app_nil_r; auto|].
  rewrite <- flat_map_concat_map. unfold group.
  apply (groups_perm (sig P)).
  - apply ssorted_NoDup. apply sort_dedup_sorted; auto.
  - intros v Hv. unfold keys. apply sort_dedup_in; auto. apply in_map. auto.
Qed.

Lemma split_cell_nonempty P c : c <> [] -> Forall (fun d => d <> []) (split_cell leb sig P c).
Proof.
  intros Hc. unfold split_cell. destruct (length c <=? 1); [constructor; auto|].
  destruct (length (keys leb sig P c) <=? 1); [constructor; auto|].
  apply Forall_forall. intros d Hd. apply in_map_iff in Hd. destruct Hd as (k & <- & Hk).
  unfold keys in Hk. apply sort_dedup_in in Hk; auto. apply in_map_iff in Hk. destruct Hk as (v & <- & Hv).
  unfold group. intro E.
  assert (I : In v (filter (fun v0 => eqb leb (sig P v0) (sig P v)) c)).
  { apply filter_In. split; auto. apply (eqb_eq leb leb_total leb_antisym). auto. }
  rewrite E in I. contradiction.
Qed.

Lemma split_cell_length P c : 1 <= length (split_cell leb sig P c).
Proof.
  unfold split_cell. cbv zeta. destruct (length c <=? 1); [simpl; lia|].
  destruct (length (keys leb sig P c) <=? 1) eqn:E; [simpl; lia|].
  rewrite map_length. apply Nat.leb_gt in E. lia.
Qed.

Lemma split_cell_single P x : split_cell leb sig P [x] = [[x]].
Proof. reflexivity. Qed.

Definition vpart (nodes : list N) (P : partition) : Prop :=
  Permutation (concat P) nodes /\ Forall (fun c => c <> []) P.

Lemma refine_step_concat P : Permutation (concat (refine_step leb sig P)) (concat P).
Proof.
  unfold refine_step. generalize P at 1 as Q. intros Q. induction P as [|c P IH]; simpl; auto.
  rewrite concat_app. apply Permutation_app; auto. apply split_cell_perm.
Qed.
Lemma refine_step_nonempty P : Forall (fun c => c <> []) P -> Forall (fun c => c <> []) (refine_step leb sig P).
Proof.
  unfold refine_step. generalize P at 2 as Q. intros Q. induction 1 as [|c P Hc HP IH]; simpl; auto.
  apply Forall_app. split; auto. apply split_cell_nonempty; auto.
Qed.
Lemma refine_step_length P : length P <= length (refine_step leb sig P).
Proof.
  unfold refine_step. generalize P at 2 as Q. intros Q. induction P as [|c P IH]; simpl; auto.
  rewrite app_length. pose proof (split_cell_length Q c). lia.
Qed.
Lemma refine_step_single P x : In [x] P -> In [x] (refine_step leb sig P).
Proof.
  intros H. unfold refine_step. apply in_flat_map. exists [x]. split; auto. left. auto.
Qed.

Lemma refine_vpart nodes fuel : forall P, vpart nodes P -> vpart nodes (refine leb sig fuel P).
Proof.
  induction fuel as [|f IH]; intros P HP; simpl; auto.
  assert (H1 : vpart nodes (refine_step leb sig P)).
  { destruct HP as [Hc Hn]. split; [eapply perm_trans; [apply refine_step_concat|auto]|apply refine_step_nonempty; auto]. }
  destruct (_ =? _); auto.
Qed.
Lemma refine_length fuel : forall P, length P <= length (refine leb sig fuel P).
Proof.
  induction fuel as [|f IH]; intros P; simpl; auto.
  pose proof (refine_step_length P). destruct (_ =? _); auto. specialize (IH (refine_step leb sig P)). lia.
Qed.
Lemma refine_single fuel x : forall P, In [x] P -> In [x] (refine leb sig fuel P).
Proof.
  induction fuel as [|f IH]; intros P H; simpl; auto.
  pose proof (refine_step_single P x H). destruct (_ =? _); auto.
Qed.
End Valid.

(* ---------------- individualisation ---------------- *)
Lemma first_big_spec P i : first_big P = Some i -> i < length P /\ 1 < length (nth i P []).
Proof.
  revert i. induction P as [|c P IH]; simpl; intros i H; [discriminate|].
  destruct (1 <? length c) eqn:E.
  - inversion H; subst. simpl. apply Nat.ltb_lt in E. lia.
  - destruct (first_big P) as [j|]; [|discriminate]. inversion H; subst. simpl.
    destruct (IH j eq_refl). lia.
Qed.

Lemma split_nth {X} (l : list X) i d : i < length l -> l = firstn i l ++ nth i l d :: skipn (Datatypes.S i) l.
Proof.
  revert i. induction l as [|x l IH]; simpl; intros i H; [lia|].
  destruct i as [|i]; simpl; auto. f_equal. apply IH. lia.
Qed.

Lemma rest_perm v c : NoDup c -> In v c -> Permutation (v :: rest v c) c.
Proof.
  intros Hnd Hin. apply NoDup_Permutation; auto.
  - constructor.
    + unfold rest. intro I. apply filter_In in I. destruct I as [_ I]. rewrite N.eqb_refl in I. discriminate.
    + unfold rest. apply NoDup_filter. auto.
  - intros x. simpl. unfold rest. rewrite filter_In. split.
    + intros [<-|[I _]]; auto.
    + intros I. destruct (N.eqb_spec x v) as [->|Hne]; [left; reflexivity|]. right. split; [exact I|].
      reflexivity.
Qed.

Lemma NoDup_app_l {X} (l1 l2 : list X) : NoDup (l1 ++ l2) -> NoDup l1.
Proof.
  induction l1 as [|x l1 IH]; simpl; intros H; [constructor|].
  inversion H; subst. constructor; auto. intro I. apply H2. apply in_or_app. auto.
Qed.
Lemma NoDup_app_r {X} (l1 l2 : list X) : NoDup (l1 ++ l2) -> NoDup l2.
Proof. induction l1 as [|x l1 IH]; simpl; intros H; auto. inversion H; auto. Qed.
Lemma NoDup_app_disj {X} (l1 l2 : list X) x : NoDup (l1 ++ l2) -> In x l1 -> In x l2 -> False.
Proof.
  induction l1 as [|y l1 IH]; simpl; intros H H1 H2; [contradiction|].
  inversion H; subst. destruct H1 as [->|H1]; [apply H4; apply in_or_app; auto|eauto].
Qed.

Lemma NoDup_app_intro {X} (l1 l2 : list X) : NoDup l1 -> NoDup l2 -> (forall x, In x l1 -> In x l2 -> False) -> NoDup (l1 ++ l2).
Proof.
  induction l1 as [|y l1 IH]; simpl; intros H1 H2 Hd; auto.
  inversion H1; subst. constructor.
  - intro I. apply in_app_or in I. destruct I as [I|I]; auto. apply (Hd y); auto.
  - apply IH; auto. intros x Hx1 Hx2. apply (Hd x); auto.
Qed.

Lemma NoDup_concat_cell (P : partition) c : NoDup (concat P) -> In c P -> NoDup c.
Proof.
  intros Hnd Hin. apply in_split in Hin. destruct Hin as (l1 & l2 & ->).
  rewrite concat_app in Hnd. simpl in Hnd. apply NoDup_app_r in Hnd. apply NoDup_app_l in Hnd. auto.
Qed.

Lemma individualise_props nodes P i v :
  NoDup nodes -> vpart nodes P -> first_big P = Some i -> In v (nth i P []) ->
  vpart nodes (individualise P i v) /\ length (individualise P i v) = Datatypes.S (length P).
Proof.
  intros Hnd [Hc Hne] Hfb Hv. destruct (first_big_spec P i Hfb) as [Hi Hbig].
  set (c := nth i P []) in *.
  assert (HP : P = firstn i P ++ c :: skipn (Datatypes.S i) P) by (apply split_nth; auto).
  assert (Hndc : NoDup c).
  { apply (NoDup_concat_cell P); [eapply Permutation_NoDup; [apply Permutation_sym; exact Hc|auto]|].
    rewrite HP. apply in_or_app. right. left. auto. }
  pose proof (rest_perm v c Hndc Hv) as Hr.
  assert (Hrne : rest v c <> []).
  { intro E. rewrite E in Hr. apply Permutation_length in Hr. simpl in Hr. lia. }
  unfold individualise. fold c.
  set (hd := firstn i P) in *. set (tl := skipn (Datatypes.S i) P) in *. clearbody hd tl.
  destruct (rest v c) as [|r0 rr] eqn:Er; [congruence|].
  split; [split|].
  - eapply perm_trans; [|exact Hc]. rewrite HP.
    rewrite !concat_app. apply Permutation_app_head. cbn [concat app]. rewrite app_nil_r.
    exact (Permutation_app_tail (concat tl) Hr).
  - rewrite HP in Hne. apply Forall_app in Hne. destruct Hne as [H1 H2]. inversion H2 as [|? ? Hcne Htl].
    apply Forall_app. split; auto. cbn [app]. constructor; [discriminate|]. constructor; [discriminate|]. exact Htl.
  - rewrite HP. repeat (rewrite app_length || cbn [length app]). unfold cell in *. lia.
Qed.

Lemma individualise_single P i v x : first_big P = Some i -> In [x] P -> In [x] (individualise P i v).
Proof.
  intros Hfb Hx. destruct (first_big_spec P i Hfb) as [Hi Hbig].
  rewrite (split_nth P i [] Hi) in Hx. unfold individualise.
  apply in_app_or in Hx. destruct Hx as [Hx|[Hx|Hx]].
  - apply in_or_app. left. auto.
  - rewrite Hx in Hbig. simpl in Hbig. lia.
  - rewrite !in_app_iff. right. right. right. exact Hx.
Qed.
Lemma individualise_new P i v : In [v] (individualise P i v).
Proof. unfold individualise. apply in_or_app. right. left. auto. Qed.

(* ---------------- leaves of lib/IRCore: shape and fuel ---------------- *)
Lemma vpart_length nodes P : vpart nodes P -> length P <= length nodes.
Proof.
  intros [Hc Hn]. rewrite <- (Permutation_length Hc). clear Hc.
  induction Hn as [|c P Hc HP IH]; simpl; auto. rewrite app_length.
  destruct c; [congruence|]. simpl. lia.
Qed.

Lemma vpart_cell_in nodes P i v : vpart nodes P -> In v (nth i P []) -> In v nodes.
Proof.
  intros [Hc _] Hv. apply (Permutation_in _ Hc). apply in_concat. exists (nth i P []). split; auto.
  destruct (Nat.lt_ge_cases i (length P)); [apply nth_In; auto|]. rewrite nth_overflow in Hv by auto. contradiction.
Qed.

Section LeafProps.
Variable S : Type.
Variable sleb : S -> S -> bool.
Hypothesis sleb_total : forall a b, sleb a b = true \/ sleb b a = true.
Hypothesis sleb_trans : forall a b c, sleb a b = true -> sleb b c = true -> sleb a c = true.
Hypothesis sleb_antisym : forall a b, sleb a b = true -> sleb b a = true -> a = b.
Variable sig : partition -> N -> S.
Variable rf : nat.
Variable nodes : list N.
Hypothesis nodes_nd : NoDup nodes.

Theorem leaves_shape fuel : forall P pre p, vpart nodes P ->
  In p (leaves sleb sig rf fuel P pre) -> exists ext r, p = (pre ++ ext) ++ r /\ Permutation r nodes /\ incl ext nodes.
Proof.
  induction fuel as [|f IH]; intros P pre p HP Hin; simpl in Hin; [contradiction|].
  pose proof (refine_vpart S sleb sleb_total sleb_trans sleb_antisym sig nodes rf P HP) as HP'.
  destruct (first_big (refine sleb sig rf P)) as [i|] eqn:Efb.
  - apply in_flat_map in Hin. destruct Hin as (v & Hv & Hin).
    destruct (individualise_props nodes _ i v nodes_nd HP' Efb Hv) as [HPi _].
    destruct (IH _ _ _ HPi Hin) as (ext & r & -> & Hr & Hi). exists (v :: ext), r. split; [|split]; auto.
    + rewrite <- (app_assoc pre [v] ext). reflexivity.
    + intros x [<-|Hx]; [eapply vpart_cell_in; [exact HP'|exact Hv]|apply Hi; auto].
  - destruct Hin as [<-|[]]. exists [], (concat (refine sleb sig rf P)). split; [rewrite app_nil_r; auto|].
    split; [apply (proj1 HP')|intros x []].
Qed.

Theorem leaves_nonempty fuel : forall P pre, vpart nodes P -> length nodes < fuel + length P ->
  leaves sleb sig rf fuel P pre <> [].
Proof.
  induction fuel as [|f IH]; intros P pre HP Hlen.
  - pose proof (vpart_length nodes P HP). simpl in Hlen. lia.
  - simpl.
    pose proof (refine_vpart S sleb sleb_total sleb_trans sleb_antisym sig nodes rf P HP) as HP'.
    pose proof (refine_length S sleb sig rf P) as Hl.
    destruct (first_big (refine sleb sig rf P)) as [i|] eqn:Efb; [|discriminate].
    destruct (first_big_spec _ _ Efb) as [Hi Hbig].
    destruct (nth i (refine sleb sig rf P) []) as [|v l] eqn:Ec; [simpl in Hbig; lia|].
    simpl. intro E. apply app_eq_nil in E. destruct E as [E _]. revert E.
    assert (Hv : In v (nth i (refine sleb sig rf P) [])) by (rewrite Ec; left; auto).
    destruct (individualise_props nodes _ i v nodes_nd HP' Efb Hv) as [HPi Hli].
    apply IH; auto. rewrite Hli. lia.
Qed.
End LeafProps.

(* ---------------- a partition-independent part of the signature is constant along every leaf position ---------------- *)
Section KeySeq.
Variable S : Type.
Variable sleb : S -> S -> bool.
Hypothesis sleb_total : forall a b, sleb a b = true \/ sleb b a = true.
Hypothesis sleb_trans : forall a b c, sleb a b = true -> sleb b c = true -> sleb a c = true.
Hypothesis sleb_antisym : forall a b, sleb a b = true -> sleb b a = true -> a = b.
Variable sig : partition -> N -> S.
Variable K : Type.
Variable key : N -> K.
Hypothesis sig_key : forall P v w, sig P v = sig P w -> key v = key w.
Variable nodes : list N.
Hypothesis nodes_nd : NoDup nodes.

Definition hom (c : cell) : Prop := forall v w, In v c -> In w c -> key v = key w.
Definition homP (P : partition) : Prop := Forall hom P.
Definition kseq (P : partition) : list K := map key (concat P).

Lemma hom_repeat c x : (forall y, In y c -> key y = key x) -> map key c = repeat (key x) (length c).
Proof. induction c as [|y c IH]; simpl; intros H; auto. rewrite H by auto. f_equal. apply IH. auto. Qed.
Lemma hom_perm_map c c' : hom c -> Permutation c c' -> map key c' = map key c.
Proof.
  intros Hh Hp. destruct c as [|x c].
  - apply Permutation_nil in Hp. subst. auto.
  - rewrite (hom_repeat (x :: c) x) by (intros y Hy; apply Hh; simpl; auto).
    rewrite (hom_repeat c' x).
    + rewrite (Permutation_length Hp). reflexivity.
    + intros y Hy. apply Hh; [|left; auto]. eapply Permutation_in; [apply Permutation_sym; exact Hp|auto].
Qed.
Lemma hom_incl c c' : hom c -> incl c' c -> hom c'.
Proof. intros H Hi v w Hv Hw. apply H; apply Hi; auto. Qed.

Lemma split_cell_hom P c : Forall hom (split_cell sleb sig P c).
Proof.
  unfold split_cell. destruct (length c <=? 1) eqn:E1.
  - constructor; auto. apply Nat.leb_le in E1. intros v w Hv Hw.
    destruct c as [|a [|b c]]; simpl in *; try lia; try contradiction. destruct Hv as [<-|[]], Hw as [<-|[]]. auto.
  - destruct (length (keys sleb sig P c) <=? 1) eqn:E2.
    + constructor; auto. apply Nat.leb_le in E2. intros v w Hv Hw. apply (sig_key P).
      assert (Iv : In (sig P v) (keys sleb sig P c)) by (apply sort_dedup_in; auto; apply in_map; auto).
      assert (Iw : In (sig P w) (keys sleb sig P c)) by (apply sort_dedup_in; auto; apply in_map; auto).
      destruct (keys sleb sig P c) as [|a [|b l]]; simpl in *; try lia; try contradiction.
      destruct Iv as [<-|[]], Iw as [<-|[]]. auto.
    + apply Forall_forall. intros d Hd. apply in_map_iff in Hd. destruct Hd as (s & <- & _).
      intros v w Hv Hw. unfold group in *. apply filter_In in Hv, Hw. destruct Hv as [_ Hv], Hw as [_ Hw].
      apply (eqb_eq sleb sleb_total sleb_antisym) in Hv, Hw. apply (sig_key P). congruence.
Qed.
Lemma refine_step_hom P : homP (refine_step sleb sig P).
Proof.
  unfold refine_step, homP. generalize P at 1 as Q. intros Q. induction P as [|c P IH]; simpl; [constructor|].
  apply Forall_app. split; auto. apply split_cell_hom.
Qed.
Lemma refine_step_kseq P : homP P -> kseq (refine_step sleb sig P) = kseq P.
Proof.
  unfold refine_step, kseq. generalize P at 2 as Q. intros Q. induction 1 as [|c P Hc HP IH]; simpl; auto.
  rewrite concat_app, !map_app. f_equal; auto.
  apply hom_perm_map; auto. apply Permutation_sym. apply (split_cell_perm S sleb sleb_total sleb_trans sleb_antisym).
Qed.
Lemma refine_hom fuel : forall P, homP P -> homP (refine sleb sig fuel P).
Proof. induction fuel as [|f IH]; intros P HP; simpl; auto. destruct (_ =? _); [apply refine_step_hom|apply IH, refine_step_hom]. Qed.
Lemma refine_hom1 fuel P : homP (refine sleb sig (Datatypes.S fuel) P).
Proof. simpl. destruct (_ =? _); [apply refine_step_hom|apply refine_hom, refine_step_hom]. Qed.
Lemma refine_kseq fuel : forall P, homP P -> kseq (refine sleb sig fuel P) = kseq P.
Proof.
  induction fuel as [|f IH]; intros P HP; simpl; auto.
  destruct (_ =? _); [apply refine_step_kseq; auto|]. rewrite IH; [apply refine_step_kseq; auto|apply refine_step_hom].
Qed.

Lemma individualise_hom_kseq P i v : vpart nodes P -> homP P -> first_big P = Some i -> In v (nth i P []) ->
  homP (individualise P i v) /\ kseq (individualise P i v) = kseq P.
Proof.
  intros [Hc Hne] Hh Hfb Hv. destruct (first_big_spec P i Hfb) as [Hi Hbig].
  unfold individualise.
  remember (firstn i P) as hd. remember (skipn (Datatypes.S i) P) as tl. remember (nth i P []) as c.
  assert (HP : P = hd ++ c :: tl) by (subst; apply split_nth; auto).
  clear Heqhd Heqtl Heqc Hfb Hi. subst P.
  assert (Hndc : NoDup c).
  { apply (NoDup_concat_cell (hd ++ c :: tl)); [eapply Permutation_NoDup; [apply Permutation_sym; exact Hc|auto]|].
    apply in_or_app. right. left. auto. }
  pose proof (rest_perm v c Hndc Hv) as Hr.
  unfold homP in *. apply Forall_app in Hh. destruct Hh as [Hh1 Hh2].
  pose proof (Forall_inv Hh2) as Hhc. pose proof (Forall_inv_tail Hh2) as Hh3.
  assert (Hrne : rest v c <> []).
  { intro E. rewrite E in Hr. apply Permutation_length in Hr. simpl in Hr. lia. }
  unfold kseq.
  destruct (rest v c) as [|r0 rr] eqn:Er; [congruence|]. split.
  - apply Forall_app. split; auto. cbn [app]. constructor.
    + intros a b [<-|[]] [<-|[]]. auto.
    + constructor; auto. apply (hom_incl c); auto. intros x Hx. rewrite <- Er in Hx. unfold rest in Hx. apply filter_In in Hx. tauto.
  - rewrite !concat_app, !map_app. f_equal.
    change (concat (c :: tl)) with (c ++ concat tl). rewrite map_app, app_assoc, <- map_app. f_equal.
    cbn [concat app]. rewrite app_nil_r.
    apply hom_perm_map; auto. apply Permutation_sym. auto.
Qed.

Variable rf : nat.
Theorem leaves_kseq fuel : forall P pre p, vpart nodes P -> homP P ->
  In p (leaves sleb sig rf fuel P pre) ->
  exists ext r, p = (pre ++ ext) ++ r /\ Permutation r nodes /\ map key r = kseq P /\ incl ext nodes.
Proof.
  induction fuel as [|f IH]; intros P pre p HP Hh Hin; simpl in Hin; [contradiction|].
  pose proof (refine_vpart S sleb sleb_total sleb_trans sleb_antisym sig nodes rf P HP) as HP'.
  pose proof (refine_hom rf P Hh) as Hh'. pose proof (refine_kseq rf P Hh) as Hk.
  destruct (first_big (refine sleb sig rf P)) as [i|] eqn:Efb.
  - apply in_flat_map in Hin. destruct Hin as (v & Hv & Hin).
    destruct (individualise_props nodes _ i v nodes_nd HP' Efb Hv) as [HPi _].
    destruct (individualise_hom_kseq _ i v HP' Hh' Efb Hv) as [Hhi Hki].
    destruct (IH _ _ _ HPi Hhi Hin) as (ext & r & -> & Hr & Hkr & Hi). exists (v :: ext), r. split; [|split; [|split]]; auto.
    + rewrite <- (app_assoc pre [v] ext). reflexivity.
    + rewrite Hkr, Hki. auto.
    + intros x [<-|Hx]; [eapply vpart_cell_in; [exact HP'|exact Hv]|apply Hi; auto].
  - destruct Hin as [<-|[]]. exists [], (concat (refine sleb sig rf P)). split; [rewrite app_nil_r; auto|].
    split; [apply (proj1 HP')|split; [exact Hk|intros x []]].
Qed.
End KeySeq.

Theorem leaves_kseq_top S sleb (sleb_total : forall a b, sleb a b = true \/ sleb b a = true)
  (sleb_trans : forall a b c, sleb a b = true -> sleb b c = true -> sleb a c = true)
  (sleb_antisym : forall a b, sleb a b = true -> sleb b a = true -> a = b)
  (sig : partition -> N -> S) K (key : N -> K) (sig_key : forall P v w, sig P v = sig P w -> key v = key w)
  nodes (nodes_nd : NoDup nodes) rf fuel P pre p : vpart nodes P ->
  In p (leaves sleb sig (Datatypes.S rf) fuel P pre) ->
  exists ext r, p = (pre ++ ext) ++ r /\ Permutation r nodes /\
                map key r = kseq K key (refine sleb sig (Datatypes.S rf) P) /\ incl ext nodes.
Proof.
  intros HP Hin. destruct fuel as [|f]; [contradiction|]. cbn [leaves] in Hin. cbv zeta in Hin.
  pose proof (refine_vpart S sleb sleb_total sleb_trans sleb_antisym sig nodes (Datatypes.S rf) P HP) as HP'.
  assert (Hh' : homP K key (refine sleb sig (Datatypes.S rf) P)) by (eapply refine_hom1; eauto).
  destruct (first_big (refine sleb sig (Datatypes.S rf) P)) as [i|] eqn:Efb.
  - apply in_flat_map in Hin. destruct Hin as (v & Hv & Hin).
    destruct (individualise_props nodes _ i v nodes_nd HP' Efb Hv) as [HPi _].
    assert (Hik : homP K key (individualise (refine sleb sig (Datatypes.S rf) P) i v) /\
                  kseq K key (individualise (refine sleb sig (Datatypes.S rf) P) i v) = kseq K key (refine sleb sig (Datatypes.S rf) P)).
    { eapply individualise_hom_kseq; eauto. }
    destruct Hik as [Hhi Hki].
    assert (Hl : exists ext r, p = ((pre ++ [v]) ++ ext) ++ r /\ Permutation r nodes /\
                   map key r = kseq K key (individualise (refine sleb sig (Datatypes.S rf) P) i v) /\ incl ext nodes).
    { eapply leaves_kseq; eauto. }
    destruct Hl as (ext & r & -> & Hr & Hkr & Hi).
    exists (v :: ext), r. split; [|split; [|split]]; auto.
    + rewrite <- (app_assoc pre [v] ext). reflexivity.
    + rewrite Hkr, Hki. auto.
    + intros x [<-|Hx]; [eapply vpart_cell_in; [exact HP'|exact Hv]|apply Hi; auto].
  - destruct Hin as [<-|[]]. exists [], (concat (refine sleb sig (Datatypes.S rf) P)). split; [rewrite app_nil_r; auto|].
    split; [apply (proj1 HP')|split; [reflexivity|intros x []]].
Qed.
