(* Design-time probe for lib/IR.v, part 2: refinement and the leaf enumeration of an
   individualisation-refinement search are equivariant under an injective relabelling,
   modulo the order inside cells and the order in which children are visited.  Stdlib only. *)
From Coq Require Import List Arith NArith Bool Lia Permutation.
From SK Require Import lib.IRSortKeys.
Import ListNotations.
Set Implicit Arguments.

Definition cell := list N.
Definition partition := list cell.

(* ---------------- one IR system ---------------- *)
Section Sys.
Variable S : Type.
Variable leb : S -> S -> bool.
Variable sig : partition -> N -> S.

Definition keys (P : partition) (c : cell) : list S := sort_dedup leb (map (sig P) c).
Definition group (P : partition) (c : cell) (s : S) : cell := filter (fun v => eqb leb (sig P v) s) c.
Definition split_cell (P : partition) (c : cell) : list cell :=
  if length c <=? 1 then [c]
  else let ks := keys P c in if length ks <=? 1 then [c] else map (group P c) ks.
Definition refine_step (P : partition) : partition := flat_map (split_cell P) P.
Fixpoint refine (fuel : nat) (P : partition) : partition :=
  match fuel with
  | 0 => P
  | Datatypes.S f => let P1 := refine_step P in if length P1 =? length P then P1 else refine f P1
  end.

Fixpoint first_big (P : partition) : option nat :=
  match P with
  | [] => None
  | c :: P' => if 1 <? length c then Some 0 else option_map Datatypes.S (first_big P')
  end.
Definition rest (v : N) (c : cell) : cell := filter (fun x => negb (N.eqb x v)) c.
Definition individualise (P : partition) (i : nat) (v : N) : partition :=
  firstn i P ++ [[v]] ++ (match rest v (nth i P []) with [] => [] | r => [r] end) ++ skipn (Datatypes.S i) P.

Variable rfuel : nat.
Fixpoint leaves (fuel : nat) (P : partition) (pre : list N) : list (list N) :=
  match fuel with
  | 0 => []
  | Datatypes.S f =>
      let P' := refine rfuel P in
      match first_big P' with
      | None => [pre ++ concat P']
      | Some i => flat_map (fun v => leaves f (individualise P' i v) (pre ++ [v])) (nth i P' [])
      end
  end.
End Sys.

(* ---------------- two systems related by an injective relabelling ---------------- *)
Section Equivariance.
Variable S : Type.
Variable leb : S -> S -> bool.
Hypothesis leb_total : forall a b, leb a b = true \/ leb b a = true.
Hypothesis leb_trans : forall a b c, leb a b = true -> leb b c = true -> leb a c = true.
Hypothesis leb_antisym : forall a b, leb a b = true -> leb b a = true -> a = b.
Variable pi : N -> N.
Hypothesis pi_inj : forall x y, pi x = pi y -> x = y.
Variables sig1 sig2 : partition -> N -> S.

Definition cellR (c c' : cell) : Prop := Permutation (map pi c) c'.
Definition partR : partition -> partition -> Prop := Forall2 cellR.

Hypothesis sig_rel : forall P P' v, partR P P' -> sig2 P' (pi v) = sig1 P v.

(* generic list facts *)
Lemma Permutation_filter (X : Type) (f : X -> bool) l l' : Permutation l l' -> Permutation (filter f l) (filter f l').
Proof.
  induction 1; simpl; auto.
  - destruct (f x); auto.
  - destruct (f x), (f y); auto. apply perm_swap.
  - eapply perm_trans; eauto.
Qed.
Lemma map_filter_comm (X Y : Type) (g : X -> Y) (f : X -> bool) (f' : Y -> bool) l :
  (forall x, In x l -> f' (g x) = f x) -> map g (filter f l) = filter f' (map g l).
Proof.
  induction l as [|x l IH]; simpl; intros H; auto.
  rewrite (H x) by auto. destruct (f x); simpl; rewrite IH; auto.
Qed.
Lemma Forall2_flat_map (X X' Y Y' : Type) (R : X -> X' -> Prop) (Q : Y -> Y' -> Prop) f f' l l' :
  Forall2 R l l' -> (forall x x', R x x' -> Forall2 Q (f x) (f' x')) -> Forall2 Q (flat_map f l) (flat_map f' l').
Proof. induction 1; simpl; intros H'; auto. apply Forall2_app; auto. Qed.
Lemma Forall2_map_same (X Y Y' : Type) (Q : Y -> Y' -> Prop) (f : X -> Y) (f' : X -> Y') l :
  (forall x, In x l -> Q (f x) (f' x)) -> Forall2 Q (map f l) (map f' l).
Proof. induction l; simpl; intros H; constructor; auto. Qed.
Lemma Forall2_firstn (X Y : Type) (R : X -> Y -> Prop) n l l' : Forall2 R l l' -> Forall2 R (firstn n l) (firstn n l').
Proof. intros H. revert n. induction H; intros [|n]; simpl; auto. Qed.
Lemma Forall2_skipn (X Y : Type) (R : X -> Y -> Prop) n l l' : Forall2 R l l' -> Forall2 R (skipn n l) (skipn n l').
Proof. intros H. revert n. induction H; intros [|n]; simpl; auto. Qed.
Lemma Forall2_nth (X Y : Type) (R : X -> Y -> Prop) dx dy n l l' : Forall2 R l l' -> R dx dy -> R (nth n l dx) (nth n l' dy).
Proof. intros H Hd. revert n. induction H; intros [|n]; simpl; auto. Qed.

Lemma cellR_length c c' : cellR c c' -> length c' = length c.
Proof. intros H. apply Permutation_length in H. rewrite map_length in H. auto. Qed.

Lemma keys_rel P P' c c' : partR P P' -> cellR c c' -> keys leb sig2 P' c' = keys leb sig1 P c.
Proof.
  intros HP Hc. unfold keys. apply sort_dedup_ext; auto.
  intros s. rewrite !in_map_iff. split.
  - intros (v' & E & I). apply (Permutation_in _ (Permutation_sym Hc)) in I.
    apply in_map_iff in I. destruct I as (v & <- & I). exists v. split; auto. rewrite <- E. symmetry. apply sig_rel; auto.
  - intros (v & E & I). exists (pi v). split; [rewrite <- E; apply sig_rel; auto|].
    apply (Permutation_in _ Hc). apply in_map. auto.
Qed.

Lemma group_rel P P' c c' s : partR P P' -> cellR c c' -> cellR (group leb sig1 P c s) (group leb sig2 P' c' s).
Proof.
  intros HP Hc. unfold cellR, group.
  rewrite (@map_filter_comm _ _ pi _ (fun v' => eqb leb (sig2 P' v') s)).
  - apply Permutation_filter. exact Hc.
  - intros x _. rewrite (sig_rel x HP). reflexivity.
Qed.

Lemma split_rel P P' c c' : partR P P' -> cellR c c' -> partR (split_cell leb sig1 P c) (split_cell leb sig2 P' c').
Proof.
  intros HP Hc. unfold split_cell. rewrite (cellR_length Hc).
  destruct (length c <=? 1); [constructor; auto; constructor|].
  rewrite (keys_rel HP Hc).
  destruct (length (keys leb sig1 P c) <=? 1); [constructor; auto; constructor|].
  apply Forall2_map_same. intros s _. apply group_rel; auto.
Qed.

Lemma refine_step_rel P P' : partR P P' -> partR (refine_step leb sig1 P) (refine_step leb sig2 P').
Proof. intros HP. unfold refine_step. eapply Forall2_flat_map; [exact HP|]. intros c c' Hc. apply split_rel; auto. Qed.

Lemma partR_length P P' : partR P P' -> length P' = length P.
Proof. induction 1; simpl; auto. Qed.

Lemma refine_rel fuel : forall P P', partR P P' -> partR (refine leb sig1 fuel P) (refine leb sig2 fuel P').
Proof.
  induction fuel as [|f IH]; intros P P' HP; simpl; auto.
  pose proof (refine_step_rel HP) as H1.
  rewrite (partR_length H1), (partR_length HP).
  destruct (_ =? _); auto.
Qed.

Lemma first_big_rel P P' : partR P P' -> first_big P' = first_big P.
Proof.
  induction 1 as [|c c' P P' Hc HP IH]; simpl; auto.
  rewrite (cellR_length Hc), IH. reflexivity.
Qed.

Lemma rest_rel v c c' : cellR c c' -> cellR (rest v c) (rest (pi v) c').
Proof.
  intros Hc. unfold cellR, rest.
  rewrite (@map_filter_comm _ _ pi _ (fun x' => negb (N.eqb x' (pi v)))).
  - apply Permutation_filter. exact Hc.
  - intros x _. f_equal. destruct (N.eqb_spec x v) as [->|Hne].
    + apply N.eqb_refl.
    + apply N.eqb_neq. intro E. apply Hne. apply pi_inj. exact E.
Qed.

Lemma individualise_rel P P' i v : partR P P' -> partR (individualise P i v) (individualise P' i (pi v)).
Proof.
  intros HP. unfold individualise.
  apply Forall2_app; [apply Forall2_firstn; auto|].
  apply Forall2_app; [constructor; [unfold cellR; simpl; auto|constructor]|].
  apply Forall2_app; [|apply Forall2_skipn; auto].
  assert (Hr : cellR (rest v (nth i P [])) (rest (pi v) (nth i P' []))).
  { apply rest_rel. apply Forall2_nth; auto. unfold cellR. simpl. auto. }
  pose proof (cellR_length Hr) as Hl.
  destruct (rest v (nth i P [])), (rest (pi v) (nth i P' [])); simpl in Hl; try discriminate; constructor; auto.
Qed.

Lemma discrete_concat P P' : partR P P' -> first_big P = None -> concat P' = map pi (concat P).
Proof.
  induction 1 as [|c c' P P' Hc HP IH]; simpl; auto.
  destruct (1 <? length c) eqn:E; [discriminate|]. intros Hn.
  destruct (first_big P) eqn:E'; [discriminate|]. rewrite map_app, IH by auto. f_equal.
  apply Nat.ltb_ge in E. unfold cellR in Hc.
  destruct c as [|x [|y c]]; simpl in *; try lia.
  - apply Permutation_nil in Hc. auto.
  - apply Permutation_length_1_inv in Hc. auto.
Qed.

Lemma flat_map_perm_pointwise (X Y : Type) (f g : X -> list Y) l :
  (forall x, In x l -> Permutation (f x) (g x)) -> Permutation (flat_map f l) (flat_map g l).
Proof. induction l; simpl; intros H; auto. apply Permutation_app; auto. Qed.
Lemma map_flat_map (X Y Z : Type) (h : Y -> Z) (f : X -> list Y) l : map h (flat_map f l) = flat_map (fun x => map h (f x)) l.
Proof. induction l; simpl; auto. rewrite map_app. f_equal; auto. Qed.
Lemma flat_map_map (X Y Z : Type) (g : X -> Y) (f : Y -> list Z) l : flat_map f (map g l) = flat_map (fun x => f (g x)) l.
Proof. induction l; simpl; auto. f_equal; auto. Qed.

Variable rfuel : nat.

Theorem leaves_rel fuel : forall P P' pre, partR P P' ->
  Permutation (map (map pi) (leaves leb sig1 rfuel fuel P pre)) (leaves leb sig2 rfuel fuel P' (map pi pre)).
Proof.
  induction fuel as [|f IH]; intros P P' pre HP; simpl; auto.
  pose proof (refine_rel rfuel HP) as HR.
  rewrite (first_big_rel HR).
  destruct (first_big (refine leb sig1 rfuel P)) as [i|] eqn:Efb.
  - rewrite map_flat_map.
    set (F' := fun v' => leaves leb sig2 rfuel f (individualise (refine leb sig2 rfuel P') i v') (map pi pre ++ [v'])).
    apply perm_trans with (flat_map (fun v => F' (pi v)) (nth i (refine leb sig1 rfuel P) [])).
    + apply flat_map_perm_pointwise. intros v _. unfold F'.
      pose proof (IH _ _ (pre ++ [v]) (individualise_rel i v HR)) as H. rewrite map_app in H. exact H.
    + rewrite <- (flat_map_map pi F'). apply Permutation_flat_map.
      apply (@Forall2_nth _ _ cellR [] [] i _ _ HR). unfold cellR. simpl. auto.
  - simpl. rewrite map_app, (discrete_concat HR Efb). auto.
Qed.
End Equivariance.

Print Assumptions leaves_rel.
