(** C12 -- order-free ("pointwise") reading of Mono.valid, and its invariance under permutation.
    [Mono.valid] is stated along the order in which the enumerator assigned the nodes; the MCS matcher
    re-sorts every mapping, so the theorems need a characterisation that does not mention the order.
    Stdlib only; Mono.v is used read-only. *)
From Coq Require Import List NArith Bool Arith Lia Permutation.
From SK Require Import lib.Mono.
Import ListNotations.

Section Pw.
Variables A B : Type.
Variable hn : list N.
Variable pl hl : N -> A.
Variable pe he : N -> N -> option B.
Variable nm : A -> A -> bool.
Variable em : B -> B -> bool.
Variable induced : bool.
Hypothesis pe_sym : forall u v, pe u v = pe v u.
Hypothesis he_sym : forall u v, he u v = he v u.

Definition pw (m : list (N * N)) : Prop :=
  (forall p h, In (p, h) m -> In h hn /\ nm (hl h) (pl p) = true) /\
  NoDup (map snd m) /\
  (forall x y, In x m -> In y m -> x <> y -> edge_ok pe he em induced (fst x) (snd x) y = true).

Lemma valid_pw m : valid hn pl hl pe he nm em induced m -> pw m.
Proof.
  induction 1 as [|p h acc Hv (IH1 & IH2 & IH3) Hh Hok].
  - split; [intros ? ? []|]. split; [constructor|intros ? ? []].
  - unfold ok in Hok. apply andb_prop in Hok. destruct Hok as [Hok He]. apply andb_prop in Hok. destruct Hok as [Hnm Hf].
    rewrite forallb_forall in He. apply fresh_spec in Hf.
    split; [|split].
    + intros p0 h0 [E|I]; [inversion E; subst; auto|eauto].
    + simpl. constructor; assumption.
    + intros x y [<-|Ix] [<-|Iy] Hne; simpl.
      * now elim Hne.
      * now apply He.
      * destruct x as [px hx]. simpl. rewrite (edge_ok_sym pe he em induced pe_sym he_sym). now apply He.
      * now apply IH3.
Qed.

Lemma pw_valid m : pw m -> valid hn pl hl pe he nm em induced m.
Proof.
  induction m as [|[p h] acc IH]; intros (H1 & H2 & H3); [constructor|].
  simpl in H2. inversion H2 as [|? ? Hnotin Hnd]; subst.
  destruct (H1 p h (or_introl eq_refl)) as (Hh & Hnm).
  constructor.
  - apply IH. split; [intros; apply H1; now right|]. split; [exact Hnd|].
    intros x y Ix Iy. apply H3; now right.
  - exact Hh.
  - unfold ok. rewrite Hnm. simpl. apply andb_true_intro. split.
    + now apply fresh_spec.
    + apply forallb_forall. intros y Iy. apply (H3 (p, h) y); [now left|now right|].
      intros <-. apply Hnotin. change h with (snd (p, h)). now apply in_map.
Qed.

Lemma pw_perm m m' : Permutation m m' -> pw m -> pw m'.
Proof.
  intros P (H1 & H2 & H3). split; [|split].
  - intros p h I. apply H1. eapply Permutation_in; [apply Permutation_sym; exact P|exact I].
  - eapply Permutation_NoDup; [apply Permutation_map; exact P|exact H2].
  - intros x y Ix Iy. apply H3; (eapply Permutation_in; [apply Permutation_sym; exact P|assumption]).
Qed.

End Pw.

Arguments pw {A B}. Arguments valid_pw {A B}. Arguments pw_valid {A B}. Arguments pw_perm {A B}.
