(* Design-time probe for lib/IR.v, part 4: a concrete signature function in the style of nauty.py
   (attribute codes, degree, per-cell neighbour counts, sorted multiset of incident edge orders) satisfies the
   hypothesis sig_rel of IRCore for a literally relabelled graph, and lexicographic order on list Z is a total order. *)
From Coq Require Import List Arith NArith ZArith Bool Lia Permutation.
From SK Require Import lib.IRSortKeys lib.IRCore.
Import ListNotations.
Set Implicit Arguments.

(* ---------- lexicographic order on list Z ---------- *)
Fixpoint lexleb (a b : list Z) : bool :=
  match a, b with
  | [], _ => true
  | _ :: _, [] => false
  | x :: a', y :: b' => if Z.ltb x y then true else if Z.ltb y x then false else lexleb a' b'
  end.
Lemma lexleb_total a : forall b, lexleb a b = true \/ lexleb b a = true.
Proof.
  induction a as [|x a IH]; intros [|y b]; simpl; auto.
  destruct (Z.ltb_spec x y), (Z.ltb_spec y x); auto; try lia.
Qed.
Lemma lexleb_antisym a : forall b, lexleb a b = true -> lexleb b a = true -> a = b.
Proof.
  induction a as [|x a IH]; intros [|y b]; simpl; auto; try discriminate.
  destruct (Z.ltb_spec x y), (Z.ltb_spec y x); try discriminate; try lia.
  intros Ha Hb. assert (x = y) by lia. subst. f_equal. auto.
Qed.
Lemma lexleb_trans a : forall b c, lexleb a b = true -> lexleb b c = true -> lexleb a c = true.
Proof.
  induction a as [|x a IH]; intros [|y b] [|z c]; simpl; auto; try discriminate.
  destruct (Z.ltb_spec x y), (Z.ltb_spec y x), (Z.ltb_spec y z), (Z.ltb_spec z y), (Z.ltb_spec x z), (Z.ltb_spec z x);
    try discriminate; try lia; auto.
  intros Ha Hb. eapply IH; eauto.
Qed.

(* ---------- graphs with coded attributes ---------- *)
Record lgraph := { gnodes : list (N * list Z); gedges : list (N * N * Z) }.
Definition attr (g : lgraph) (v : N) : list Z :=
  match find (fun p => N.eqb (fst p) v) (gnodes g) with Some p => snd p | None => [] end.
Definition inc1 (v : N) (e : N * N * Z) : list (N * Z) :=
  let '(a, b, o) := e in (if N.eqb a v then [(b, o)] else []) ++ (if N.eqb b v then [(a, o)] else []).
Definition inc (g : lgraph) (v : N) : list (N * Z) := flat_map (inc1 v) (gedges g).
Definition memN (x : N) (c : list N) : bool := existsb (N.eqb x) c.
Definition cnt (c : list N) (ns : list N) : Z := Z.of_nat (length (filter (fun n => memN n c) ns)).

Section WithSort.
Variable sortZ : list Z -> list Z.      (* any function of the multiset; instantiated by insertion sort in the build phase *)

Definition sigG (g : lgraph) (P : partition) (v : N) : list Z :=
  attr g v ++ [Z.of_nat (length (inc g v))] ++ map (fun c => cnt c (map fst (inc g v))) P ++ sortZ (map snd (inc g v)).

Definition relabel (pi : N -> N) (g : lgraph) : lgraph :=
  {| gnodes := map (fun p => (pi (fst p), snd p)) (gnodes g);
     gedges := map (fun e => let '(a, b, o) := e in (pi a, pi b, o)) (gedges g) |}.

Section Inst.
Variable pi : N -> N.
Hypothesis pi_inj : forall x y, pi x = pi y -> x = y.

Lemma eqb_pi x y : N.eqb (pi x) (pi y) = N.eqb x y.
Proof.
  destruct (N.eqb_spec x y) as [->|H]; [apply N.eqb_refl|].
  apply N.eqb_neq. intro E. apply H. apply pi_inj. exact E.
Qed.

Lemma attr_relabel g v : attr (relabel pi g) (pi v) = attr g v.
Proof.
  unfold attr, relabel; simpl. induction (gnodes g) as [|[n a] l IH]; simpl; auto.
  rewrite eqb_pi. destruct (N.eqb n v); auto.
Qed.

Lemma inc_relabel g v : inc (relabel pi g) (pi v) = map (fun p => (pi (fst p), snd p)) (inc g v).
Proof.
  unfold inc, relabel; simpl. induction (gedges g) as [|[[a b] o] l IH]; simpl; auto.
  rewrite map_app, <- IH. f_equal. unfold inc1. rewrite !eqb_pi.
  destruct (N.eqb a v), (N.eqb b v); reflexivity.
Qed.

Lemma memN_spec x c : memN x c = true <-> In x c.
Proof.
  unfold memN. rewrite existsb_exists. split.
  - intros (y & I & E). apply N.eqb_eq in E. subst. auto.
  - intros I. exists x. split; auto. apply N.eqb_refl.
Qed.

Lemma memN_rel c c' x : cellR pi c c' -> memN (pi x) c' = memN x c.
Proof.
  intros H. apply eq_true_iff_eq. rewrite !memN_spec. split.
  - intros I. apply (Permutation_in _ (Permutation_sym H)) in I. apply in_map_iff in I.
    destruct I as (y & E & I). apply pi_inj in E. subst. auto.
  - intros I. apply (Permutation_in _ H). apply in_map. auto.
Qed.

Lemma cnt_rel c c' ns : cellR pi c c' -> cnt c' (map pi ns) = cnt c ns.
Proof.
  intros H. unfold cnt. f_equal. induction ns as [|n ns IH]; simpl; auto.
  rewrite (memN_rel n H). destruct (memN n c); simpl; auto.
Qed.

Theorem sigG_rel g P P' v : partR pi P P' -> sigG (relabel pi g) P' (pi v) = sigG g P v.
Proof.
  intros HP. unfold sigG. rewrite attr_relabel, inc_relabel, !map_length, !map_map. simpl.
  f_equal. f_equal. f_equal.
  induction HP as [|c c' P P' Hc HP IH]; simpl; auto.
  f_equal; auto. rewrite <- (cnt_rel _ Hc). f_equal. rewrite map_map. reflexivity.
Qed.
End Inst.

(* putting the pieces together: leaf enumeration of the relabelled graph *)
Theorem nauty_leaves_equivariant (pi : N -> N) (pi_inj : forall x y, pi x = pi y -> x = y) g rfuel fuel P P' pre :
  partR pi P P' ->
  Permutation (map (map pi) (leaves lexleb (sigG g) rfuel fuel P pre))
              (leaves lexleb (sigG (relabel pi g)) rfuel fuel P' (map pi pre)).
Proof.
  intros HP. apply leaves_rel; auto.
  - apply lexleb_total.
  - intros; eapply lexleb_trans; eauto.
  - apply lexleb_antisym.
  - intros Q Q' v HQ. apply sigG_rel; auto.
Qed.
End WithSort.
Print Assumptions nauty_leaves_equivariant.
