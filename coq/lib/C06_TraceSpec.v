(** C06 — vocabulary for the trace theorems (definitions only). *)
From Coq Require Import List NArith.
From SK Require Import model.C06_Model model.C06_Trace.
Import ListNotations.

(** the items pulled by the VF2 calls of ONE pattern component [pc], in call order, each tagged with
    the index of the host component it was found in: for the k-th candidate (i, hc) and the k-th call
    (_, _, n), the first n entries of the enumeration [enum hc pc] *)
Fixpoint pulled_items (enum : list N -> list N -> list mapping) (pc : list N)
         (cands : list (nat * list N)) (calls : list call) : list (nat * mapping) :=
  match cands, calls with
  | (i, hc) :: r, (_, _, k) :: cs => map (pair i) (firstn (N.to_nat k) (enum hc pc)) ++ pulled_items enum pc r cs
  | _, _ => []
  end.
