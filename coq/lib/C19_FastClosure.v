(** C19 — a frontier-based saturation that computes EXACTLY the list computed by lib/Reach.saturate, in O(|S| + arcs met)
    per round instead of re-expanding the whole set every round.

    Reach.step S = add_all (flat_map nbr S) S  re-examines the neighbours of every member of S in every round.  When
    S = F ++ Old and the neighbours of Old are already in S (they were added in an earlier round), the neighbours of Old add
    nothing, so  step S = add_all (flat_map nbr F) S : only the frontier F (the members added in the previous round, which
    add_all puts at the FRONT of the list) has to be expanded.  Same list, same termination test. *)
From Coq Require Import List Arith NArith Bool Lia.
From SK Require Import lib.Reach.
Import ListNotations.

Section Fast.
Variable nbr : N -> list N.

Fixpoint sat_f (fuel : nat) (F S : list N) : option (list N) :=
  match fuel with
  | 0 => None
  | Datatypes.S f =>
      let S' := add_all (flat_map nbr F) S in
      if length S' =? length S then Some S else sat_f f (firstn (length S' - length S) S') S'
  end.

Lemma add_all_subset l : forall S, (forall x, In x l -> In x S) -> add_all l S = S.
Proof.
  induction l as [|a l IH]; intros S H; simpl; auto.
  assert (M : mem a S = true) by (apply mem_spec; apply H; left; reflexivity).
  rewrite M. apply IH. intros x I. apply H. right. exact I.
Qed.

Lemma add_all_app l1 l2 S : add_all (l1 ++ l2) S = add_all l2 (add_all l1 S).
Proof. revert S. induction l1 as [|a l1 IH]; intros S; simpl; auto. destruct (mem a S); apply IH. Qed.

(** add_all only conses: the result is a prefix followed by the old list *)
Lemma add_all_prefix l : forall S, exists P, add_all l S = P ++ S.
Proof.
  induction l as [|a l IH]; intros S; simpl; [exists []; reflexivity|].
  destruct (mem a S); [apply IH|]. destruct (IH (a :: S)) as (P & E). exists (P ++ [a]). rewrite E, <- app_assoc. reflexivity.
Qed.

Lemma add_all_firstn l S : add_all l S = firstn (length (add_all l S) - length S) (add_all l S) ++ S.
Proof.
  destruct (add_all_prefix l S) as (P & E). rewrite E at 2 3. rewrite E at 1.
  rewrite app_length. replace (length P + length S - length S) with (length P) by lia.
  rewrite firstn_app, firstn_all, Nat.sub_diag. simpl. rewrite app_nil_r. reflexivity.
Qed.

(** one round: expanding the frontier is enough *)
Lemma step_frontier F Old : (forall u v, In u Old -> In v (nbr u) -> In v (F ++ Old)) ->
  step nbr (F ++ Old) = add_all (flat_map nbr F) (F ++ Old).
Proof.
  intros H. unfold step. rewrite flat_map_app, add_all_app. apply add_all_subset.
  intros x I. apply in_flat_map in I. destruct I as (u & Iu & Ix). apply add_all_in. right. eapply H; eauto.
Qed.

Theorem sat_f_eq fuel : forall F Old, (forall u v, In u Old -> In v (nbr u) -> In v (F ++ Old)) ->
  sat_f fuel F (F ++ Old) = saturate nbr fuel (F ++ Old).
Proof.
  induction fuel as [|f IH]; intros F Old H; simpl; auto.
  rewrite (step_frontier F Old H). remember (F ++ Old) as S eqn:HS. remember (add_all (flat_map nbr F) S) as S' eqn:HS'.
  destruct (length S' =? length S); auto.
  assert (E : S' = firstn (length S' - length S) S' ++ S) by (rewrite HS'; apply add_all_firstn).
  remember (firstn (length S' - length S) S') as P eqn:HP. clear HP. rewrite E. apply IH.
  intros u v Iu Iv. rewrite <- E, HS'. apply add_all_in. rewrite HS in Iu. apply in_app_or in Iu. destruct Iu as [Iu|Iu].
  - left. apply in_flat_map. eauto.
  - right. eapply H; eauto.
Qed.

Corollary sat_f_seed fuel u : sat_f fuel [u] [u] = saturate nbr fuel [u].
Proof. apply (sat_f_eq fuel [u] []). intros ? ? []. Qed.
End Fast.
