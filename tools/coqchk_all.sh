#!/bin/bash
# Independent re-check of every compiled property file with coqchk; axiom summary into notes/coqchk.txt.
#   tools/coqchk_all.sh [jobs]
cd "$(dirname "$0")/../coq"
J=${1:-4}
mkdir -p ../.work/coqchk
ls props/*.vo | sed 's|props/\(.*\)\.vo|\1|' | xargs -P "$J" -I{} bash -c 'timeout 7200 coqchk -o -silent -Q . SK SK.props.{} > ../.work/coqchk/{}.log 2>&1; rc=$?; echo $rc > ../.work/coqchk/{}.rc; echo "{} rc=$rc"' | sort
{
  echo "coqchk -o -silent -Q . SK SK.props.Cxx   (Coq 8.16.1), $(date -u +%FT%TZ)"
  for f in ../.work/coqchk/C*.log; do
    p=$(basename "$f" .log)
    echo "== $p: coqchk exit status $(cat ../.work/coqchk/$p.rc 2>/dev/null) (0 = every module of the property file and of everything it depends on was re-checked), context summary printed: $(grep -c 'CONTEXT SUMMARY' "$f"); axioms other than primitive int/float/array declarations:"
    awk '/\* Axioms:/{a=1;next} /^\* /{a=0} a&&NF' "$f" | grep -v 'Coq.Numbers.Cyclic.Int63\|Coq.Floats\|PrimInt63\|PrimFloat\|PArray\|Coq.Array' | sed 's/^/     /' | sort -u
  done
} > ../notes/coqchk.txt
tail -n +1 ../notes/coqchk.txt | head -60
