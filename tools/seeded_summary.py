#!/usr/bin/env python3
"""Per-wave summary of the seeded changes (seeded/<name>/meta.json): first-run and current verdicts of the quick check.
   tools/seeded_summary.py          -> markdown table (used by tools/update_design.py for DESIGN.md 11.3)
"""
import glob, json, os, re, collections
ROOT = os.path.dirname(os.path.dirname(os.path.abspath(__file__)))
WAVES = [("r2", "wave 1 (`-r2-`, `C15-copy-rebuild`, `C15-merge-alias`)"), ("w2", "wave 2 (`-w2-`)"), ("w3", "wave 3 (`-w3-`)"), ("w4", "wave 4 (`-w4-`)")]


def verdict(c):
    if not c:
        return "not run"
    if c.get("inconclusive"):
        return "inconclusive"
    if not c.get("detected"):
        return "missed"
    if "no-failing-input-found" in (c.get("first_line") or ""):
        return "corr"
    return "concrete"


def wave_of(name):
    m = re.search(r"-(r2|w2|w3|w4)-", name)
    return m.group(1) if m else "r2"


rows = collections.OrderedDict((w, collections.Counter()) for w, _ in WAVES)
for d in sorted(glob.glob(os.path.join(ROOT, "seeded", "*", ""))):
    p = os.path.join(d, "meta.json")
    if not os.path.exists(p):
        continue
    m = json.load(open(p))
    w = wave_of(os.path.basename(d.rstrip("/")))
    first = verdict(m.get("first_run") or m.get("checks", {}).get("quick"))
    cur = "superseded" if m.get("no_longer_valid") else verdict(m.get("checks", {}).get("quick"))
    rows[w]["n"] += 1
    rows[w]["first_" + first] += 1
    rows[w]["cur_" + cur] += 1

print("| wave | changes | first run: concrete input / correspondence break only / missed / inconclusive | latest run: concrete / correspondence break only / missed / no longer a violation after a later fix |")
print("|---|---|---|---|")
tot = collections.Counter()
for w, label in WAVES:
    c = rows[w]
    tot.update(c)
    print("| %s | %d | %d / %d / %d / %d | %d / %d / %d / %d |" % (label, c["n"], c["first_concrete"], c["first_corr"], c["first_missed"], c["first_inconclusive"],
                                                      c["cur_concrete"], c["cur_corr"], c["cur_missed"] + c["cur_inconclusive"] + c["cur_not run"], c["cur_superseded"]))
c = tot
print("| **all** | %d | %d / %d / %d / %d | %d / %d / %d / %d |" % (c["n"], c["first_concrete"], c["first_corr"], c["first_missed"], c["first_inconclusive"],
                                                        c["cur_concrete"], c["cur_corr"], c["cur_missed"] + c["cur_inconclusive"] + c["cur_not run"], c["cur_superseded"]))
