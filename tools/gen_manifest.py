#!/usr/bin/env python3
"""Regenerate MANIFEST.json from the metadata of harness/props/Cxx.py (run from /verif)."""
import importlib, json, os, sys
sys.path.insert(0, os.path.dirname(os.path.dirname(os.path.abspath(__file__))))
IDS = ["C%02d" % i for i in range(1, 21)]
BASE = "cd /repo && /venv/bin/python -m pytest -ra -q -p no:cacheprovider --timeout=900 --continue-on-collection-errors"
checks, na = [], []
for pid in IDS:
    path = os.path.join("harness", "props", pid + ".py")
    if not os.path.exists(path):
        na.append(dict(property_id=pid, reason="no check registered yet: model/correspondence for this property is not built (see DESIGN.md section 11 for status)"))
        continue
    if not os.path.exists(os.path.join("coq", "props", pid + ".v")):
        na.append(dict(property_id=pid, reason="check under construction: harness module exists but the theorem file coq/props/%s.v is not written yet" % pid))
        continue
    m = importlib.import_module("harness.props." + pid)
    if getattr(m, "NOT_READY", False):
        na.append(dict(property_id=pid, reason=m.NOT_READY))
        continue
    checks.append(dict(
        property_id=pid,
        quick_cmd="./check %s --tier quick" % pid,
        thorough_cmd="./check %s --tier thorough" % pid,
        evidence_file="evidence/%s.json" % pid,
        replay_cmd_template="./check %s --replay {path}" % pid,
        engine="coq-model+correspondence",
        level_claimed=dict(category="proof", text=m.LEVEL_TEXT, design_ref=getattr(m, "DESIGN_REF", "DESIGN.md section 5 / 11, " + pid)),
        level_note=m.LEVEL_NOTE,
        technique=getattr(m, "TECHNIQUE", "Coq 8.16 theorems about a hand-written Gallina model + per-run model/implementation correspondence (vm_compute) + property oracle for failing-input search"),
    ))
man = dict(
    version=1,
    setup_cmd="cd /verif && ./check --setup",
    hooks=dict(guard="SYNKIT_VERIF", enable="none needed: the harness wraps functions at import time; no source hook was added to /repo",
               baseline_off_cmd=BASE, source_commits=[], add_only=True),
    engines=[dict(name="coq-model+correspondence", path="check", serves_properties=[c["property_id"] for c in checks],
                  kind_free_text="Coq 8.16.1 project under coq/ (lib, model, proof, props) + Python harness (harness/) that evaluates the Gallina models with vm_compute on the same cases as the implementation in /repo and runs an independent property oracle")],
    checks=checks,
    notes="See DESIGN.md. Repairs of genuine defects are the 'fix:' commits in /repo listed in known_findings.json.",
    not_applicable=na,
)
json.dump(man, open("MANIFEST.json", "w"), indent=1)
print("checks:", [c["property_id"] for c in checks], "not_applicable:", len(na))
