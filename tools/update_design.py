#!/usr/bin/env python3
"""Fill the generated tables of DESIGN.md section 11 (status table, seeded-change table)."""
import os, re, subprocess, sys
ROOT = os.path.dirname(os.path.dirname(os.path.abspath(__file__)))
py = sys.executable
def run(*a):
    return subprocess.check_output([py] + list(a), cwd=ROOT, text=True).strip()
s = open(os.path.join(ROOT, "DESIGN.md")).read()
for tag, out in (("status-table", run("tools/status_table.py")), ("seeded-table", run("tools/seeded_table.py", "table")), ("seeded-summary", run("tools/seeded_summary.py"))):
    s = re.sub(r"(<!-- BEGIN %s -->\n).*?(<!-- END %s -->)" % (tag, tag), lambda m: m.group(1) + out + "\n" + m.group(2), s, flags=re.S)
open(os.path.join(ROOT, "DESIGN.md"), "w").write(s)
print("DESIGN.md tables updated")
