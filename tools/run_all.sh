#!/bin/bash
# Run every registered check (MANIFEST.json) for one tier; summary at the end.
#   tools/run_all.sh quick [seed] [jobs]
cd "$(dirname "$0")/.."
TIER=${1:-quick}; SEED=${2:-0}; JOBS=${3:-2}
mkdir -p .work/runall
IDS=$(/venv/bin/python -c "import json; print(' '.join(c['property_id'] for c in json.load(open('MANIFEST.json'))['checks']))")
echo "$IDS" | tr ' ' '\n' | xargs -P "$JOBS" -I{} bash -c "start=\$(date +%s); VERIF_SEED=$SEED ./check {} --tier $TIER > .work/runall/{}.$TIER.$SEED.log 2>&1; echo \"{} rc=\$? \$(( \$(date +%s) - start ))s  \$(grep -c '^VIOLATION' .work/runall/{}.$TIER.$SEED.log) violations  \$(tail -1 .work/runall/{}.$TIER.$SEED.log)\""
