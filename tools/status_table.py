#!/usr/bin/env python3
"""Per-property status table for DESIGN.md section 11.2 (generated from coq/props, evidence/, known findings)."""
import glob, json, os, re, sys
ROOT = os.path.dirname(os.path.dirname(os.path.abspath(__file__)))
sys.path.insert(0, ROOT)
from harness import coqrun  # noqa
fs = json.load(open(os.path.join(ROOT, "known_findings.json")))["findings"]
for f in sorted(glob.glob(os.path.join(ROOT, "known_findings.d", "*.json"))):
    fs += json.load(open(f))["findings"]
print("| id | theorems in `props/` | of which `_partial` / `_refuted` | quick: cases (model) / wall | fixed in /repo | known findings | notes |")
print("|---|---|---|---|---|---|---|")
for i in range(1, 21):
    pid = "C%02d" % i
    p = os.path.join(ROOT, "coq", "props", pid + ".v")
    names = []
    if os.path.exists(p):
        src = coqrun._strip_comments(open(p).read())
        names = [m.group(2) for m in coqrun.THM_RE.finditer(src) if m.group(1) == "Theorem"]
    part = [n for n in names if n.endswith("_partial")]
    ref = [n for n in names if "refuted" in n]
    ev = {}
    try:
        ev = json.load(open(os.path.join(ROOT, "evidence", pid + ".json")))
    except Exception:
        pass
    c = ev.get("coverage", {})
    fixed = sorted({f.get("commit", "")[:7] for f in fs if f["property"] == pid and f.get("status") == "fixed"})
    known = [f for f in fs if f["property"] == pid and f.get("status") == "known"]
    print("| %s | %d | %d / %d | %s (%s) / %s s | %s | %d | `notes/%s.md` |" % (
        pid, len(names), len(part), len(ref), c.get("evaluations", "-"), c.get("model_evaluations", "-"), ev.get("wall_s", "-"),
        ", ".join(fixed) or "–", len(known), pid))
