#!/usr/bin/env python3
"""seeded/<name>/meta.json bookkeeping.
  tools/seeded_table.py snapshot   -> copy checks.quick into first_run where absent (call after the FIRST run of a change)
  tools/seeded_table.py table      -> markdown table for DESIGN.md section 11.3
"""
import glob, json, os, sys
ROOT = os.path.dirname(os.path.dirname(os.path.abspath(__file__)))


def metas():
    for d in sorted(glob.glob(os.path.join(ROOT, "seeded", "*", ""))):
        p = os.path.join(d, "meta.json")
        if os.path.exists(p):
            yield os.path.basename(d.rstrip("/")), p, json.load(open(p))


def verdict(c):
    if not c:
        return "not run"
    if c.get("inconclusive"):
        return "inconclusive"
    if not c.get("detected"):
        return "MISSED"
    if "no-failing-input-found" in (c.get("first_line") or ""):
        return "detected (correspondence break, no-failing-input-found)"
    return "detected (concrete failing input)"


if sys.argv[1] == "snapshot":
    for n, p, m in metas():
        if "first_run" not in m and m.get("checks", {}).get("quick"):
            m["first_run"] = dict(m["checks"]["quick"])
            json.dump(m, open(p, "w"), indent=1)
            print("snapshot", n, verdict(m["first_run"]))
else:
    print("| change | property | what the change does | needs, to manifest | first run of the quick check | current quick check |")
    print("|---|---|---|---|---|---|")
    for n, p, m in metas():
        s = (m.get("summary") or "").replace("|", "/").replace("\n", " ")
        nd = (m.get("needs") or "").replace("|", "/").replace("\n", " ")
        note = m.get("note", "")
        cur = ("n/a — " + m["no_longer_valid"]) if m.get("no_longer_valid") else verdict(m.get("checks", {}).get("quick"))
        print("| `%s` | %s | %s | %s | %s | %s%s |" % (n, m.get("property"), s[:330], nd[:260], verdict(m.get("first_run") or m.get("checks", {}).get("quick")),
                                                      cur, (" — " + note[:400]) if note else ""))
