"""Builds the committed corpus tables used by the C03 / C04 generators (run by hand, never at check time):

  corpus/C03_corpus_index.json   {"usp": [[i, mode], ...], "eco": [...]}  well-formed corpus reactions usable as
                                 templates (both sides parse, no wildcard atom, Standardize.fit works) with the hydrogen
                                 mode the way the reaction is written calls for ("E" explicit centre hydrogens / none
                                 changing, "I" implicit hydrogen changes).
  corpus/C03_pairs.json          {"pairs": [[tpl corpus, i, invert, substrate corpus, j, side, mode], ...]}
                                 foreign (centre template, substrate) pairs with at least one match.

usage: cd /verif && PYTHONPATH=/repo:/verif PYTHONHASHSEED=0 /venv/bin/python tools/c03_build_corpus.py
"""
import json
import multiprocessing as mp
import os
import random
import sys

sys.path.insert(0, "/verif")
from harness.gen import c03_common as K  # noqa: E402


def classify(args):
    name, i = args
    K.quiet()
    from synkit.IO.chem_converter import rsmi_to_graph
    r = K.corpus()[name][i]
    try:
        g, h = rsmi_to_graph(r)
        if g is None or h is None:
            return None
        if K.std_fit(r) is None:
            return None
        full = K.tpl_graph(dict(rsmi=r, core=False))
        core = K.tpl_graph(dict(rsmi=r, core=True))
        if not (K.in_domain_tpl(full) and K.in_domain_tpl(core)) or core.number_of_nodes() == 0:
            return None
        return [i, "E" if K.tpl_mode_ok(full, "E") else "I"]
    except Exception:
        return None


def probe(args):
    name, i, mode, inv, cands = args
    K.quiet()
    import synkit.Synthesis.Reactor.syn_reactor as SR
    C = K.corpus()
    out = []
    tpl = K.tpl_graph(dict(rsmi=C[name][i], core=True))
    for sname, j, side in cands:
        try:
            s = K.std_fit(C[sname][j]).split(">>")[side]
            R = SR.SynReactor(s, tpl.copy(), invert=bool(inv), **K.MODES[mode])
            if 0 < len(R.mappings) <= 60:
                out.append([name, i, inv, sname, j, side, mode])
        except Exception:
            pass
        if len(out) >= 12:
            break
    return out


if __name__ == "__main__":
    K.quiet()
    C = K.corpus()
    rng = random.Random(20260926)
    with mp.Pool(16) as pool:
        idx = {}
        for name in ("usp", "eco"):
            res = pool.map(classify, [(name, i) for i in range(len(C[name]))])
            idx[name] = [x for x in res if x]
        json.dump(idx, open(os.path.join(K.VERIF, "corpus", "C03_corpus_index.json"), "w"))
        print({k: len(v) for k, v in idx.items()}, {k: sum(1 for x in v if x[1] == "E") for k, v in idx.items()})
        subs = [(n, i, s) for n in ("usp", "eco") for i, _ in idx[n] for s in (0, 1)]
        jobs = []
        for name in ("usp", "eco"):
            for i, mode in idx[name]:
                for inv in (0, 1):
                    cands = [c for c in rng.sample(subs, 70) if not (c[0] == name and c[1] == i)]
                    jobs.append((name, i, mode, inv, cands))
        pairs = [p for ps in pool.map(probe, jobs, chunksize=2) for p in ps]
    json.dump({"pairs": pairs}, open(os.path.join(K.VERIF, "corpus", "C03_pairs.json"), "w"))
    print("pairs", len(pairs), "templates with a foreign match", len({(p[0], p[1]) for p in pairs}))
