#!/bin/bash
# Final integration pass on an idle machine (orchestrator only).
#   tools/final_pass.sh stage1   baseline tests of /repo, clean rebuild in a fresh worktree of HEAD (catches untracked files),
#                                 manifest, quick seed 0 for all properties (jobs 3), evidence validation
#   tools/final_pass.sh stage2   quick seed 1 (jobs 3)
#   tools/final_pass.sh thorough thorough tier for all properties (jobs 2), seed 0
#   tools/final_pass.sh docs      status / seeded tables, coqchk
cd "$(dirname "$0")/.."
case "$1" in
stage1)
  (cd /repo && git status --short | head -5; /venv/bin/python -m pytest -q -p no:cacheprovider --timeout=900 --continue-on-collection-errors 2>&1 | tail -1)
  rm -rf /tmp/vfinal; git worktree prune; git worktree add -q --detach /tmp/vfinal HEAD && (cd /tmp/vfinal && ./check --setup 2>&1 | tail -1); git worktree remove --force /tmp/vfinal
  ./check --setup 2>&1 | tail -1
  /venv/bin/python tools/gen_manifest.py | tail -1
  tools/run_all.sh quick 0 3
  ;;
stage2)
  tools/run_all.sh quick 1 3
  ;;
thorough)
  VERIF_TIMEOUT_SCALE=2 tools/run_all.sh thorough 0 2
  ;;
docs)
  tools/coqchk_all.sh 4 | tail -25
  /venv/bin/python tools/update_design.py
  ;;
esac
python3-vt - <<'EOF'
import json, jsonschema, glob
m = json.load(open('MANIFEST.json')); jsonschema.validate(m, json.load(open('/root/.vp/MANIFEST.schema.json')))
es = json.load(open('/root/.vp/EVIDENCE.schema.json'))
bad = 0
for f in sorted(glob.glob('evidence/*.json')):
    try:
        e = json.load(open(f)); jsonschema.validate(e, es)
        if e.get('violations'): print(f, 'violations', e['violations'])
        c = e['coverage']
        if c.get('obligations') != c.get('discharged'): print(f, 'obligations', c.get('obligations'), 'discharged', c.get('discharged')); bad += 1
    except Exception as ex:
        print(f, 'INVALID', str(ex)[:200]); bad += 1
print('manifest valid; evidence files checked, problems:', bad)
EOF
