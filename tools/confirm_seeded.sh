#!/bin/bash
# Confirm a seeded change produced by a sub-agent and run our check against it.
#   tools/confirm_seeded.sh <name> <property> <dir with patch.diff demo.py meta.json> [tier]
# Uses a fresh scratch worktree of /repo under /tmp (removed afterwards); /repo itself is never modified.
set -u
NAME=$1; PID=$2; SRC=$3; TIER=${4:-quick}
cd "$(dirname "$0")/.."
OUT=seeded/$NAME; mkdir -p "$OUT"
cp "$SRC/patch.diff" "$OUT/patch.diff"; cp "$SRC/demo.py" "$OUT/demo.py"; cp "$SRC/meta.json" "$OUT/agent_meta.json" 2>/dev/null
WT=/tmp/seedchk-$NAME-$$
git -C /repo worktree add -q --detach "$WT" HEAD || exit 2
run_demo() { (cd "$WT" && PYTHONPATH="$WT" PYTHONHASHSEED=0 timeout 600 /venv/bin/python "$OLDPWD/$OUT/demo.py" > /dev/null 2>&1; echo $?); }
DEMO_CLEAN=$(run_demo)
if ! git -C "$WT" apply "$PWD/$OUT/patch.diff"; then echo "patch does not apply"; git -C /repo worktree remove --force "$WT"; exit 2; fi
DEMO_MUT=$(run_demo)
TESTS=$(cd "$WT" && /venv/bin/python -m pytest -q -p no:cacheprovider --timeout=900 --continue-on-collection-errors 2>&1 | tail -1)
START=$(date +%s)
VERIF_REPO="$WT" ./check "$PID" --tier "$TIER" > "$OUT/check_$TIER.log" 2>&1; RC=$?
DUR=$(( $(date +%s) - START ))
NV=$(grep -c '^VIOLATION' "$OUT/check_$TIER.log")
FIRST=$(grep '^VIOLATION' "$OUT/check_$TIER.log" | head -1)
git -C /repo worktree remove --force "$WT"
/venv/bin/python - "$OUT" "$NAME" "$PID" "$TIER" "$DEMO_CLEAN" "$DEMO_MUT" "$TESTS" "$RC" "$NV" "$DUR" "$FIRST" <<'PY'
import json, sys, os
out, name, pid, tier, dc, dm, tests, rc, nv, dur, first = sys.argv[1:]
am = {}
try: am = json.load(open(os.path.join(out, "agent_meta.json")))
except Exception: pass
p = os.path.join(out, "meta.json")
meta = json.load(open(p)) if os.path.exists(p) else {}
meta.update(name=name, property=pid, summary=am.get("summary"), needs=am.get("needs"), files=am.get("files"),
            confirmed=dict(demo_exit_without_change=int(dc), demo_exit_with_change=int(dm), full_test_suite_with_change=tests,
                           valid=(int(dc) == 0 and int(dm) != 0 and "failed" not in tests and "error" not in tests.lower())))
meta.setdefault("checks", {})[tier] = dict(cmd="VERIF_REPO=<worktree with patch> ./check %s --tier %s" % (pid, tier), exit=int(rc),
                                          violation_lines=int(nv), seconds=int(dur), first_line=first, detected=(int(rc) == 1 and int(nv) > 0))
json.dump(meta, open(p, "w"), indent=1)
print(json.dumps(meta["confirmed"]), json.dumps(meta["checks"][tier]))
PY
