"""Design-time probe: C11.4 / C05 — does orbit pruning change the set of distinct results?  Does renumbering the template?"""
import warnings; warnings.filterwarnings("ignore")
import logging; logging.disable(logging.CRITICAL)
import random, re, sys, time
import networkx as nx
from synkit.IO.chem_converter import rsmi_to_its
from synkit.IO.data_io import load_from_pickle
import synkit.Synthesis.Reactor.syn_reactor as SR
from synkit.Chem.Reaction.standardize import Standardize
std=Standardize(); rng=random.Random(2)
rx=[d['smart'] for d in load_from_pickle('/repo/Data/Testcase/graph.pkl.gz')]
orig=SR.deduplicate_matches_with_anchor
def results(sub,tpl,invert,prune=True):
    SR.deduplicate_matches_with_anchor = orig if prune else (lambda ms,**k: list(ms))
    try:
        r=SR.SynReactor(sub,tpl,invert=invert)
        return {std.fit(s) for s in r.smarts_list}
    finally:
        SR.deduplicate_matches_with_anchor=orig
def renumber_tpl(g):
    ns=list(g.nodes); p=ns[:]; rng.shuffle(p); m=dict(zip(ns,p))
    h=nx.relabel_nodes(g,m,copy=True)
    for n,d in h.nodes(data=True):
        if 'atom_map' in d: d['atom_map']=n
    return h
lost=0; numdep=0; n=0; t0=time.time()
for r in rx[:60]:
    try:
        tgt=std.fit(r); a,b=tgt.split('>>')
        for inv,sub in ((False,a),(True,b)):
            tpl=rsmi_to_its(r,core=True)
            R1=results(sub,tpl,inv,True); R0=results(sub,rsmi_to_its(r,core=True),inv,False); n+=1
            if R1!=R0:
                lost+=1
                if lost<=3: print('PRUNE CHANGES RESULT SET',inv,len(R1),len(R0),r[:120])
            R2=results(sub,renumber_tpl(rsmi_to_its(r,core=True)),inv,True)
            if R2!=R1:
                numdep+=1
                if numdep<=3: print('NUMBERING DEPENDENCE',inv,len(R1),len(R2),r[:120])
    except Exception as e:
        print('ERR',repr(e)[:100])
print('pairs',n,'prune changes',lost,'numbering dependent',numdep,'t',round(time.time()-t0))
