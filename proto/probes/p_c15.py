"""Design-time probe: C15 — random operation histories vs the invariant of the property (no reference to ids generated: we track what was added)."""
import warnings; warnings.filterwarnings("ignore")
import random, copy
from collections import Counter
from synkit.CRN.Hypergraph.hypergraph import CRNHyperGraph
rng=random.Random(23)
SP=['A','B','C']; RULES=['r','q']
RXNS=[({'A':1},{'B':1}),({'B':1},{'A':1}),({'A':1,'B':1},{'C':2}),({'A':2},{}),({},{'C':1}),({'A':1,'C':1},{'B':1,'C':1})]
def check(H, added, kept, tag, hist):
    errs=[]
    # every added-not-removed reaction present with own stoichiometry
    for eid,(rule,l,r) in added.items():
        e=H.edges.get(eid)
        if e is None: errs.append(f'{eid} missing'); continue
        if e.rule!=rule or e.reactants.to_dict()!=l or e.products.to_dict()!=r: errs.append(f'{eid} changed: {e!r} expected {rule} {l} {r}')
    if set(H.edges)-set(added): errs.append('extra edges '+str(set(H.edges)-set(added)))
    occ={s for e in H.edges.values() for s in e.species()}
    if not (occ<=H.species<=occ|kept): errs.append(f'species {sorted(H.species)} vs occurring {sorted(occ)} kept {sorted(kept)}')
    for s in H.species|set(H.species_to_in_edges)|set(H.species_to_out_edges):
        pin={eid for eid,e in H.edges.items() if s in e.products.keys()}
        pout={eid for eid,e in H.edges.items() if s in e.reactants.keys()}
        if set(H.species_to_in_edges.get(s,()))!=pin or set(H.species_to_out_edges.get(s,()))!=pout: errs.append(f'index {s}: in {set(H.species_to_in_edges.get(s,()))} vs {pin}; out {set(H.species_to_out_edges.get(s,()))} vs {pout}')
    if not set(H.species_to_mol)<=H.species: errs.append('mol on absent species')
    so,eo,mp=H.incidence_matrix(sparse=True)
    for eid,e in H.edges.items():
        for s in H.species:
            v=e.products.get(s,0)-e.reactants.get(s,0)
            if mp.get((s,eid),0)!=v: errs.append('incidence')
    return errs
viol=Counter(); examples={}
for trial in range(3000):
    H=CRNHyperGraph(); added={}; kept=set(); hist=[]
    snaps=[]
    for step in range(rng.randint(1,12)):
        op=rng.choice(['add','add','add_id','rm','rmsp','copycheck','mol','merge'])
        try:
            if op in ('add','add_id'):
                l,r=rng.choice(RXNS); rule=rng.choice(RULES)
                eid=rng.choice(['r_1','q_2','x']) if op=='add_id' else None
                hist.append(('add',l,r,rule,eid))
                e=H.add_rxn(dict(l),dict(r),rule=rule,edge_id=eid)
                if e.id in added:
                    viol['id-collision overwrite']+=1; examples.setdefault('id-collision overwrite',list(hist)); break
                added[e.id]=(rule,dict(l),dict(r))
            elif op=='rm' and H.edges:
                eid=rng.choice(sorted(H.edges)); hist.append(('rm',eid)); H.remove_rxn(eid); added.pop(eid,None)
            elif op=='rmsp' and H.species:
                s=rng.choice(sorted(H.species)); pr=rng.random()<0.5; hist.append(('rmsp',s,pr)); H.remove_species(s,prune_orphans=pr)
                for eid in list(added):
                    rule,l,r=added[eid]; l.pop(s,None); r.pop(s,None)
                    if not l and not r: added.pop(eid)
                if not pr: kept.add(s)
                else: kept.discard(s)
            elif op=='mol' and H.species:
                s=rng.choice(sorted(H.species)); hist.append(('mol',s)); H.assign_mol(s,'m')
            elif op=='copycheck':
                snaps.append((H.copy(),copy.deepcopy(added),set(kept),len(hist)))
            elif op=='merge':
                O=CRNHyperGraph(); l,r=rng.choice(RXNS); O.add_rxn(dict(l),dict(r),rule=rng.choice(RULES)); pe=rng.random()<0.5
                hist.append(('merge',l,r,pe)); before=set(H.edges)
                H.merge(O,prefix_edges=pe)
                new=set(H.edges)-before
                if not new: viol['merge overwrote an existing id']+=1; examples.setdefault('merge overwrote an existing id',list(hist)); break
                for eid in new:
                    e=H.edges[eid]; added[eid]=(e.rule,dict(l),dict(r))
        except (KeyError,ValueError) as ex:
            hist.append(('exc',type(ex).__name__))
        kept &= H.species | kept
        errs=check(H,added,kept,'',hist)
        if errs:
            k=errs[0].split(':')[0].split(' ')[0]
            viol['inv:'+errs[0][:40]]+=1; examples.setdefault('inv:'+errs[0][:40],(list(hist),errs[:2]))
            break
    for C,a,kp,n in snaps:
        errs=check(C,a,kp,'copy',hist)
        if errs: viol['copy affected']+=1; examples.setdefault('copy affected',(list(hist),errs[:2]))
print(dict(viol))
for k,v in list(examples.items())[:6]: print(k,'=>',str(v)[:600])
