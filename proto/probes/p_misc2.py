"""Design-time probe, second batch: C01 string round trip on corpus, C10 SMILES->graph->SMILES on corpus molecules,
C07 boolean subgraph test (filter off) vs brute force, C12 orientation / disconnected, C14 validator & balance n_jobs."""
import warnings; warnings.filterwarnings("ignore")
import logging; logging.disable(logging.CRITICAL)
import itertools, random, json, gzip
import networkx as nx
from rdkit import Chem
from synkit.IO.chem_converter import rsmi_to_its, its_to_rsmi, smiles_to_graph, graph_to_smi
from synkit.IO.data_io import load_from_pickle
from synkit.Chem.Reaction.standardize import Standardize
from synkit.Chem.Reaction.aam_validator import AAMValidator
from synkit.Chem.Reaction.balance_check import BalanceReactionCheck
from synkit.Graph.Matcher.subgraph_matcher import SubgraphMatch
from synkit.Graph.Matcher.mcs_matcher import MCSMatcher
std=Standardize(); rng=random.Random(41)
usp=[d['smart'] for d in load_from_pickle('/repo/Data/Testcase/graph.pkl.gz')]
raw=open('/repo/Data/ecoli.json.gz','rb').read()
try: raw=gzip.decompress(raw)
except Exception: pass
eco=[d['smart'] for d in json.loads(raw)]
# C01 string level
n=bad_eq=bad_un=err=0
for r in usp+eco:
    try:
        its=rsmi_to_its(r)
    except Exception: err+=1; continue
    try:
        back=its_to_rsmi(its); n+=1
        if not AAMValidator.smiles_check(back,r,'ITS'): bad_eq+=1
        if std.fit(back)!=std.fit(r): bad_un+=1
    except Exception as e: err+=1
print('C01 rsmi round trip: n',n,'not equivalent',bad_eq,'unmapped differs',bad_un,'errors/malformed',err)
# C10 molecules
mols=set()
for r in usp+eco:
    try: mols|=set(std.fit(r).replace('>>','.').split('.'))
    except Exception: pass
mols=sorted(m for m in mols if m)
bad=0; rad=0
for s in mols:
    m=Chem.MolFromSmiles(s)
    if m is None: continue
    if any(a.GetNumRadicalElectrons() for a in m.GetAtoms()): rad+=1; continue
    g=smiles_to_graph(s)
    if g is None: bad+=1; continue
    back=graph_to_smi(g)
    ref=Chem.MolToSmiles(Chem.MolFromSmiles(Chem.MolToSmiles(m,isomericSmiles=False)))
    if back is None or Chem.MolToSmiles(Chem.MolFromSmiles(back),isomericSmiles=False)!=ref: bad+=1; print('   C10 mol',s,back)
print('C10 SMILES->graph->SMILES molecules',len(mols),'radicals skipped',rad,'bad',bad)
# C07 boolean subgraph test without filter
def rg(n,p):
    g=nx.Graph(); ids=rng.sample(range(1,40),n)
    for i in ids: g.add_node(i,element=rng.choice('CCO'),charge=0)
    for a,b in itertools.combinations(ids,2):
        if rng.random()<p: g.add_edge(a,b,order=rng.choice([1.0,1.0,2.0]))
    return g
def contained(pat,host,induced):
    pn=list(pat.nodes)
    for img in itertools.permutations(list(host.nodes),len(pn)):
        m=dict(zip(pn,img))
        if any(host.nodes[m[p]]['element']!=pat.nodes[p]['element'] for p in pn): continue
        ok=True
        for a,b in itertools.combinations(pn,2):
            e1=pat.get_edge_data(a,b); e2=host.get_edge_data(m[a],m[b])
            if e1 is not None and (e2 is None or e1['order']!=e2['order']): ok=False;break
            if induced and e1 is None and e2 is not None: ok=False;break
        if ok: return True
    return False
b7=0
for t in range(800):
    host=rg(rng.randint(1,6),0.5); pat=rg(rng.randint(1,4),0.5)
    for ct,ind in (('induced',True),('mono',False)):
        if SubgraphMatch.subgraph_isomorphism(pat,host,use_filter=False,check_type=ct)!=contained(pat,host,ind): b7+=1
print('C07 boolean containment (filter off) bad',b7)
# C12 orientation + disconnected
def valid(m,g1,g2):
    if len(set(m.values()))!=len(m): return False
    if any(g1.nodes[a]['element']!=g2.nodes[b]['element'] for a,b in m.items()): return False
    for a,b in itertools.combinations(list(m),2):
        e1=g1.get_edge_data(a,b); e2=g2.get_edge_data(m[a],m[b])
        if (e1 is None)!=(e2 is None) or (e1 and e1['order']!=e2['order']): return False
    return True
def brute_max(g1,g2):
    n1=list(g1.nodes); n2=list(g2.nodes)
    for k in range(min(len(n1),len(n2)),0,-1):
        for s_ in itertools.combinations(n1,k):
            for t_ in itertools.permutations(n2,k):
                if valid(dict(zip(s_,t_)),g1,g2): return k
    return 0
b12=0
for t in range(200):
    g1=rg(rng.randint(3,6),0.3); g2=rg(rng.randint(1,4),0.4)   # first larger, often disconnected
    M=MCSMatcher(node_attrs=['element'],edge_attrs=['order']).find_common_subgraph(g1,g2,mcs=True)
    a=M.get_mappings('G1_to_G2'); b=M.get_mappings('G2_to_G1'); k=brute_max(g1,g2)
    ok=all(valid(m,g1,g2) for m in a) and all(len(m)==k for m in a) and (len(a)>0)==(k>0) and all({v:u for u,v in x.items()}==y for x,y in zip(a,b))
    if not ok: b12+=1
print('C12 (first graph larger / disconnected) bad',b12)
# C14: validator / balance serial vs parallel
data=[{'gt':r,'m':r if i%3 else usp[(i+1)%len(usp)]} for i,r in enumerate(usp[:24])]
r1=AAMValidator.validate_smiles(data,'gt',['m'],'RC',n_jobs=1)[0]['results']; r4=AAMValidator.validate_smiles(data,'gt',['m'],'RC',n_jobs=4)[0]['results']
b1=BalanceReactionCheck(n_jobs=1).dicts_balance_check([std.fit(r) for r in usp[:24]]); b4=BalanceReactionCheck(n_jobs=4).dicts_balance_check([std.fit(r) for r in usp[:24]])
print('C14 validator serial==parallel',r1==r4,'balance serial==parallel',b1==b4)
