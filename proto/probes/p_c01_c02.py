"""Design-time probe: C01 round trip + C02 centre/context on synthetic and corpus ITS graphs."""
import warnings; warnings.filterwarnings("ignore")
import logging; logging.disable(logging.CRITICAL)
import itertools, random, sys
import networkx as nx
from synkit.Graph.ITS.its_construction import ITSConstruction
from synkit.Graph.ITS.its_decompose import its_decompose, get_rc
from synkit.Graph.Context.radius_expand import RadiusExpand
rng=random.Random(0)
def mk(n,labels,orders):
    g=nx.Graph()
    for i in range(n):
        e,h,c=labels[i]; g.add_node(i+1,element=e,aromatic=False,hcount=h,charge=c,neighbors=[],atom_map=i+1)
    for (i,j),o in orders.items():
        if o>0: g.add_edge(i+1,j+1,order=float(o))
    return g
def same(g1,g2):
    if set(g1.nodes)!=set(g2.nodes): return False
    for n in g1.nodes:
        for k in ('element','aromatic','hcount','charge','atom_map'):
            if g1.nodes[n].get(k)!=g2.nodes[n].get(k): return False
    e1={frozenset(e):g1.edges[e]['order'] for e in g1.edges}; e2={frozenset(e):g2.edges[e]['order'] for e in g2.edges}
    return e1==e2
bad=0; tot=0
for n in (1,2,3,4):
    pairs=[(i,j) for i in range(n) for j in range(i+1,n)]
    for t in range(3000 if n>2 else 600):
        labs=[(rng.choice('CH'),rng.randint(0,1),rng.choice([0,0,1,-1])) for _ in range(n)]
        labsH=[(l[0],rng.randint(0,1),rng.choice([0,0,1,-1])) for l in labs]
        oG={p:rng.choice([0,0,1,1.5,2]) for p in pairs}; oH={p:rng.choice([0,0,1,1.5,2]) for p in pairs}
        G=mk(n,labs,oG); H=mk(n,labsH,oH)
        its=ITSConstruction().ITSGraph(G,H)
        g2,h2=its_decompose(its); tot+=1
        ok=same(G,g2) and same(H,h2)
        # union / order pair / std
        for p in pairs:
            a,b=oG[p],oH[p]; u,v=p[0]+1,p[1]+1
            if a==0 and b==0: ok&= not its.has_edge(u,v)
            else: ok&= its.has_edge(u,v) and tuple(its[u][v]['order'])==(float(a),float(b)) and its[u][v]['standard_order']==a-b
        # C02
        rc=get_rc(its)
        exp_edges={frozenset((p[0]+1,p[1]+1)) for p in pairs if (oG[p]!=oH[p]) or ((oG[p]>0 or oH[p]>0) and labs[p[0]][0]=='H' and labs[p[1]][0]=='H')}
        ok&= {frozenset(e) for e in rc.edges}==exp_edges
        ok&= set(rc.nodes)=={x for e in exp_edges for x in e}
        rc2=get_rc(rc); ok&= set(rc2.nodes)==set(rc.nodes) and {frozenset(e) for e in rc2.edges}=={frozenset(e) for e in rc.edges}
        prev=set(rc.nodes)
        for k in (1,2,3):
            ctx=RadiusExpand.extract_k(its,k)
            dist=set(rc.nodes)
            for _ in range(k): dist|={m for x in dist for m in its.neighbors(x)}
            ok&= set(ctx.nodes)==dist and prev<=set(ctx.nodes); prev=set(ctx.nodes)
        if not ok:
            bad+=1
            if bad<4: print('BAD',n,labs,labsH,oG,oH)
print('C01/C02 synthetic',tot,'bad',bad)
