"""Design-time blueprint for the Gallina models of SynRule.__init__ (standardize_hydrogen + its_decompose + _strip_explicit_h +
typesGH refresh) and SynReactor._explicit_h, as pure functions on plain dict graphs, compared with the real code on corpus templates
and on the glued ITS graphs of corpus applications."""
import warnings; warnings.filterwarnings("ignore")
import logging; logging.disable(logging.CRITICAL)
import copy, random
import networkx as nx
from synkit.IO.chem_converter import rsmi_to_its
from synkit.IO.data_io import load_from_pickle
from synkit.Rule.syn_rule import SynRule
from synkit.Synthesis.Reactor.syn_reactor import SynReactor
from synkit.Chem.Reaction.standardize import Standardize
std=Standardize(); rng=random.Random(59)
usp=[d['smart'] for d in load_from_pickle('/repo/Data/Testcase/graph.pkl.gz')]
# ---------- plain representation: nodes: {n: dict(attrs)}, edges: {frozenset: dict(attrs)}, node order = list ----------
def plain(g): return ([n for n in g.nodes],{n:copy.deepcopy(dict(d)) for n,d in g.nodes(data=True)},{frozenset((u,v)):copy.deepcopy(dict(d)) for u,v,d in g.edges(data=True)})
def nbrs(E,n): return [next(iter(k-{n})) for k in E if n in k]
def ref_synrule(rc_g):
    order,N,E=plain(rc_g)
    # standardize_hydrogen: shift typesGH hcounts so that min becomes 0
    for n in order:
        t=N[n].get('typesGH')
        if not t: continue
        off=min(t[0][2],t[1][2])
        if off!=0: N[n]['typesGH']=(t[0][:2]+(t[0][2]-off,)+t[0][3:],t[1][:2]+(t[1][2]-off,)+t[1][3:])
    # its_decompose
    def side(i):
        SN={n:dict(element=N[n]['typesGH'][i][0],aromatic=N[n]['typesGH'][i][1],hcount=N[n]['typesGH'][i][2],charge=N[n]['typesGH'][i][3],atom_map=n) for n in order}
        SE={k:dict(order=d['order'][i]) for k,d in E.items() if d['order'][i]>0}
        return SN,SE
    LN,LE=side(0); RN,RE=side(1)
    graphs={'rc':(N,E),'left':(LN,LE),'right':(RN,RE)}
    def removable_on(GN,GE,h):
        nb=nbrs(GE,h)
        if not nb: return False
        if all(GN[x].get('element')=='H' for x in nb): return False
        return True
    def fully(h): return removable_on(LN,LE,h) and removable_on(RN,RE,h)
    for key in ('rc','left','right'):
        GN,GE=graphs[key]
        for n,d in GN.items():
            d['hcount']=0
            if d.get('element')!='H': d.setdefault('h_pairs',[])
    shared=sorted(n for n,d in LN.items() if d.get('element')=='H' and n in RN and fully(n))
    pid=1
    for h in shared:
        for key in ('left','right','rc'):
            GN,GE=graphs[key]
            if h not in GN: continue
            for x in nbrs(GE,h):
                if GN[x].get('element')!='H':
                    GN[x]['hcount']+=1; GN[x].setdefault('h_pairs',[]).append(pid)
            for k in [k for k in GE if h in k]: del GE[k]
            del GN[h]
        pid+=1
    for key in ('rc','left','right'):
        GN,GE=graphs[key]
        for h in [n for n,d in GN.items() if d.get('element')=='H']:
            if not fully(h): continue
            for x in nbrs(GE,h):
                if GN[x].get('element')!='H': GN[x]['hcount']+=1
            for k in [k for k in GE if h in k]: del GE[k]
            del GN[h]
    for n,d in N.items():
        t0,t1=d['typesGH']
        d['typesGH']=((t0[0],t0[1],LN[n]['hcount'],t0[3],t0[4]),(t1[0],t1[1],RN[n]['hcount'],t1[3],t1[4]))
    return graphs
def same(plainref,g):
    RN,RE=plainref; _,N,E=plain(g)
    return RN==N and RE==E
b_rule=0
for r in usp:
    rc=rsmi_to_its(r,core=True)
    R=SynRule(rc.copy())
    ref=ref_synrule(rc)
    if not (same(ref['rc'],R.rc.raw) and same(ref['left'],R.left.raw) and same(ref['right'],R.right.raw)):
        b_rule+=1
        if b_rule<3:
            _,N,E=plain(R.left.raw); print('DIFF left',[(n,ref['left'][0].get(n),N.get(n)) for n in set(N)|set(ref['left'][0]) if ref['left'][0].get(n)!=N.get(n)][:3])
print('SynRule blueprint: templates',len(usp),'mismatches',b_rule)
# ---------- _explicit_h ----------
def ref_explicit_h(g):
    order,N,E=plain(g)
    next_id=max((n for n in order if isinstance(n,int)),default=-1)+1
    delta={}; pair_nodes={}
    for n in order:
        d=N[n]; hl,hr=d['typesGH'][0][2],d['typesGH'][1][2]; delta[n]=hl-hr
        for p in d.get('h_pairs',[]):
            pair_nodes.setdefault(p,[])
            if n not in pair_nodes[p]: pair_nodes[p].append(n)
    conn=nx.Graph()
    for ns in pair_nodes.values():
        conn.add_nodes_from(ns); conn.add_edges_from((u,v) for i,u in enumerate(ns) for v in ns[i+1:])
    donors_total=[]; recips_total=[]
    for comp in nx.connected_components(conn):
        donors_total+= [(n,delta[n]) for n in comp if delta[n]>0]; recips_total+=[(n,-delta[n]) for n in comp if delta[n]<0]
    affected=[n for ns in pair_nodes.values() for n in ns]
    for n in affected:
        t0,t1=N[n]['typesGH']; dh=t0[2]-t1[2]
        if dh>=0: t0=t0[:2]+(t0[2]-1,)+t0[3:]
        else: t1=t1[:2]+(t1[2]-1,)+t1[3:]
        N[n]['typesGH']=(t0,t1)
    return sorted(donors_total),sorted(recips_total),{n:N[n]['typesGH'] for n in order}
b_eh=0; n_eh=0; multi=0
for r in usp[:60]:
    tgt=std.fit(r); a,b=tgt.split('>>')
    for inv,sub in ((False,a),(True,b)):
        try:
            R=SynReactor(sub,rsmi_to_its(r,core=True),invert=inv,explicit_h=False)   # its_list without the explicit-H stage
            for its in R.its_list:
                before=copy.deepcopy(its); n_eh+=1
                don,rec,types=ref_explicit_h(before)
                after=SynReactor._explicit_h(copy.deepcopy(its))
                newH=[n for n in after.nodes if n not in its.nodes]
                gd=sorted((next(u for u in after.neighbors(h) if after[u][h]['order']==(1,0)),1) for h in newH)
                gr=sorted((next(u for u in after.neighbors(h) if after[u][h]['order']==(0,1)),1) for h in newH)
                from collections import Counter
                ok= Counter(x for x,_ in gd)==Counter({n:c for n,c in don}) and Counter(x for x,_ in gr)==Counter({n:c for n,c in rec})
                ok&= all(after.nodes[n]['typesGH']==types[n] for n in its.nodes)
                if len(don)>1 and len(rec)>1: multi+=1
                if not ok: b_eh+=1
        except Exception as e:
            print('ERR',repr(e)[:100])
print('_explicit_h blueprint: ITS graphs',n_eh,'mismatches',b_eh,'(cases with several donors and recipients:',multi,')')
