"""Design-time probe: C17 — rank vs exact Fraction elimination; is_conservative / is_consistent vs a well-posed reference LP (max t: S^T m = 0, m >= t, sum m = 1)."""
import warnings; warnings.filterwarnings("ignore")
import logging; logging.disable(logging.CRITICAL)
import random
from fractions import Fraction
import numpy as np
from scipy.optimize import linprog
from synkit.CRN.Hypergraph.hypergraph import CRNHyperGraph
from synkit.CRN.Props import stoich
rng=random.Random(17)
SP=list('ABCDEFG')
def rnet(ns,nr,maxc=3):
    H=CRNHyperGraph()
    for _ in range(nr):
        while True:
            l={s:rng.randint(1,maxc) for s in rng.sample(SP[:ns],min(ns,rng.randint(0,2)))}
            r={s:rng.randint(1,maxc) for s in rng.sample(SP[:ns],min(ns,rng.randint(0,2)))}
            if (l or r) and l!=r: break
        H.add_rxn(l,r,rule=rng.choice(['r','q']))
    return H
def exact_rank(M):
    M=[[Fraction(x) for x in row] for row in M]; r=0; rows=len(M); cols=len(M[0]) if M else 0
    for c in range(cols):
        p=next((i for i in range(r,rows) if M[i][c]!=0),None)
        if p is None: continue
        M[r],M[p]=M[p],M[r]
        for i in range(rows):
            if i!=r and M[i][c]!=0:
                f=M[i][c]/M[r][c]; M[i]=[a-f*b for a,b in zip(M[i],M[r])]
        r+=1
    return r
def pos_kernel(A):  # exists x>0 with A x = 0 ?
    m,n=A.shape
    if n==0: return True
    # variables x(n), t ; maximize t
    c=np.zeros(n+1); c[-1]=-1
    A_eq=np.vstack([np.hstack([A,np.zeros((m,1))]), np.hstack([np.ones((1,n)),np.zeros((1,1))])]) if m>0 else np.hstack([np.ones((1,n)),np.zeros((1,1))])
    b_eq=np.concatenate([np.zeros(m),[1.0]])
    A_ub=np.hstack([-np.eye(n),np.ones((n,1))]); b_ub=np.zeros(n)
    res=linprog(c,A_ub=A_ub,b_ub=b_ub,A_eq=A_eq,b_eq=b_eq,bounds=[(None,None)]*(n+1),method='highs')
    return bool(res.success and -res.fun>1e-9)
N=800; br=bc=bs=bk=binc=0; nc=0
for t in range(N):
    H=rnet(rng.randint(1,7),rng.randint(1,6))
    sp,rx,S=stoich.build_S(H)
    # incidence agreement (as multiset of columns)
    so,eo,mat=H.incidence_matrix(sparse=False)
    if sp!=so or sorted(map(tuple,S.T.astype(int).tolist()))!=sorted(map(tuple,mat.T.tolist())): binc+=1
    r=stoich.stoichiometric_rank(H); er=exact_rank(S.astype(int).tolist())
    if r!=er: br+=1
    L=stoich.left_nullspace(H); R=stoich.right_nullspace(H)
    if L.shape[1]!=S.shape[0]-er or R.shape[1]!=S.shape[1]-er or (L.size and np.abs(L.T@S).max()>1e-9) or (R.size and np.abs(S@R).max()>1e-9): bk+=1
    cons=stoich.is_conservative(H); tc=pos_kernel(S.T); nc+=tc
    if cons!=tc: bc+=1
    cs=stoich.is_consistent(H); ts=pos_kernel(S)
    if cs!=ts: bs+=1
print('C17 N',N,'incidence mismatch',binc,'rank bad',br,'kernel bad',bk,'conservative wrong',bc,'(truly conservative:',nc,') consistent wrong',bs)
