"""Design-time probe: are there further defects in C19/C20 hidden behind the directed edge-walk?  The walk is repaired by monkeypatching
(MultiGraph view at the iteration sites) and the definitions are checked by brute force."""
import warnings; warnings.filterwarnings("ignore")
import logging; logging.disable(logging.CRITICAL)
import itertools, random
from fractions import Fraction
import networkx as nx
from synkit.CRN.Hypergraph.hypergraph import CRNHyperGraph
import synkit.CRN.Props.deficiency as D
import synkit.CRN.Petri.structure as S
def MG(G):
    M=nx.MultiGraph(); M.add_nodes_from(G.nodes(data=True))
    for u,v,d in G.edges(data=True): M.add_edge(u,v,**d)
    return M
o_cv=D.DeficiencyAnalyzer._complex_vectors
D.DeficiencyAnalyzer._complex_vectors=lambda self,G: o_cv(self,MG(G))
o_s,o_t=S._is_siphon_indices,S._is_trap_indices
S._is_siphon_indices=lambda G,a,b,c: o_s(MG(G),a,b,c)
S._is_trap_indices=lambda G,a,b,c: o_t(MG(G),a,b,c)
rng=random.Random(29); SP=list('ABCDEF')
def rnet(ns,nr,maxc=2):
    H=CRNHyperGraph()
    for _ in range(nr):
        while True:
            l={s:rng.randint(1,maxc) for s in rng.sample(SP[:ns],min(ns,rng.randint(0,2)))}
            r={s:rng.randint(1,maxc) for s in rng.sample(SP[:ns],min(ns,rng.randint(0,2)))}
            if (l or r): break
        H.add_rxn(l,r)
    return H
def exact_rank(M):
    M=[[Fraction(x) for x in row] for row in M]; r=0; rows=len(M); cols=len(M[0]) if M else 0
    for c in range(cols):
        p=next((i for i in range(r,rows) if M[i][c]!=0),None)
        if p is None: continue
        M[r],M[p]=M[p],M[r]
        for i in range(rows):
            if i!=r and M[i][c]!=0:
                f=M[i][c]/M[r][c]; M[i]=[a-f*b for a,b in zip(M[i],M[r])]
        r+=1
    return r
b19=0; b20=0; N=600; neg=0; lsum=0
for t in range(N):
    H=rnet(rng.randint(1,5),rng.randint(1,5))
    sp=sorted(H.species); es=H.edge_list()
    cx=lambda side: tuple(side.get(s,0) for s in sp)
    comps=[]; arcs=set()
    for e in es:
        y,yp=cx(e.reactants),cx(e.products)
        for c in (y,yp):
            if c not in comps: comps.append(c)
        arcs.add((comps.index(y),comps.index(yp)))
    CG=nx.DiGraph(); CG.add_nodes_from(range(len(comps))); CG.add_edges_from(arcs)
    l=nx.number_connected_components(CG.to_undirected())
    wr=all(nx.is_strongly_connected(CG.subgraph(c)) for c in nx.connected_components(CG.to_undirected()))
    Smat=[[e.products.get(s,0)-e.reactants.get(s,0) for e in es] for s in sp]
    rk=exact_rank(Smat); delta=len(comps)-l-rk
    a=D.DeficiencyAnalyzer(H).compute_crn_deficiency(); su=a.summary
    ok = su.n_complexes==len(comps) and su.n_linkage_classes==l and su.stoich_rank==rk and su.deficiency==delta and su.weakly_reversible==wr
    if delta<0: neg+=1
    if sum(a.linkage_deficiencies)>delta: lsum+=1
    if not ok:
        b19+=1
        if b19<4: print('BAD19',[repr(e) for e in es],su,len(comps),l,rk,delta,wr)
    # siphons / traps brute force
    def is_siphon(X): return all((not (set(e.products.keys())&X)) or (set(e.reactants.keys())&X) for e in es)
    def is_trap(X): return all((not (set(e.reactants.keys())&X)) or (set(e.products.keys())&X) for e in es)
    def minimal(pred):
        sets=[set(c) for k in range(1,len(sp)+1) for c in itertools.combinations(sp,k) if pred(set(c))]
        return {frozenset(x) for x in sets if not any(y<x for y in sets)}
    fs={frozenset(x) for x in S.find_siphons(H)}; ft={frozenset(x) for x in S.find_traps(H)}
    if fs!=minimal(is_siphon) or ft!=minimal(is_trap):
        b20+=1
        if b20<4: print('BAD20',[repr(e) for e in es],fs,minimal(is_siphon),ft,minimal(is_trap))
print('after edge-walk repair: C19 bad',b19,'(negative deficiency',neg,', linkage sum > delta',lsum,') C20 siphon/trap bad',b20,'of',N)
