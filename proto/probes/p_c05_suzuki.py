"""Design-time probe: C05 numbering dependence / C11.4 pruning loss on a Suzuki-type template applied backwards."""
import warnings; warnings.filterwarnings("ignore")
import logging; logging.disable(logging.CRITICAL)
from synkit.IO.chem_converter import rsmi_to_its
import synkit.Synthesis.Reactor.syn_reactor as SR
from synkit.Chem.Reaction.standardize import Standardize
std=Standardize()
orig=SR.deduplicate_matches_with_anchor
def run(tpl,sub,prune=True):
    SR.deduplicate_matches_with_anchor = orig if prune else (lambda ms,**k: list(ms))
    try:
        r=SR.SynReactor(sub,rsmi_to_its(tpl,core=True),invert=True)
        return sorted({std.fit(s) for s in r.smarts_list})
    finally: SR.deduplicate_matches_with_anchor=orig
t1="[CH3:1][Br:2].[BH2:3][CH3:4]>>[CH3:1][CH3:4].[BH2:3][Br:2]"
t2="[CH3:3][Br:1].[BH2:2][CH3:4]>>[CH3:3][CH3:4].[BH2:2][Br:1]"   # same rule, B/Br get the small numbers
sub="CCC(C)C.OB(O)Br"
for name,t in (('t1',t1),('t2',t2)):
    a=run(t,sub,True); b=run(t,sub,False)
    print(name,'pruned',len(a),'raw',len(b))
    for x in b: print('   ','*' if x in a else ' ',x)
