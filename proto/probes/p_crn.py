"""Design-time probe: C16 round trips, C18 canonical invariance, C20 realizability vs exhaustive reachability."""
import warnings; warnings.filterwarnings("ignore")
import logging; logging.disable(logging.CRITICAL)
import itertools, random
import networkx as nx
from collections import Counter
from synkit.CRN.Hypergraph.hypergraph import CRNHyperGraph
from synkit.CRN.Hypergraph.conversion import *
from synkit.CRN.Topo.canon import CRNCanonicalizer
from synkit.CRN.Topo.automorphism import CRNAutomorphism
from synkit.CRN.Path.realizability import PathwayRealizability, hypergraph_to_pr_inputs
rng=random.Random(5)
SP=['A','B','C','D','Ee','F1']
def rnet(ns,nr,maxc=3,two_sided=False):
    H=CRNHyperGraph()
    for _ in range(nr):
        while True:
            l={s:rng.randint(1,maxc) for s in rng.sample(SP[:ns],min(ns,rng.randint(0 if not two_sided else 1,2)))}
            r={s:rng.randint(1,maxc) for s in rng.sample(SP[:ns],min(ns,rng.randint(0 if not two_sided else 1,2)))}
            if l or r: break
        if rng.random()<0.2: l={k:v*12 for k,v in l.items()}
        H.add_rxn(l,r,rule=rng.choice(['R1','R2','r']))
    return H
def edges_of(H,with_id=True):
    return sorted(((e.id if with_id else ''),e.rule,tuple(sorted(e.reactants.to_dict().items())),tuple(sorted(e.products.to_dict().items()))) for e in H.edge_list())
b1=b2=b3=b4=0; N=600
for t in range(N):
    H=rnet(rng.randint(1,6),rng.randint(1,6))
    if rng.random()<0.5 and H.species: H.species_to_mol[sorted(H.species)[0]]='mol0'
    for ints in (True,False):
        B=hypergraph_to_bipartite(H,integer_ids=ints,include_edge_id_attr=True,include_mol=True)
        H2=bipartite_to_hypergraph(B)
        if edges_of(H2)!=edges_of(H) or H2.species_to_mol!=H.species_to_mol or H2.species!=H.species: b1+=1
    L=hypergraph_to_rxn_strings(H); H3=rxns_to_hypergraph(L)
    if Counter(x[1:] for x in edges_of(H3))!=Counter(x[1:] for x in edges_of(H)): b2+=1; 
    Ht=rnet(rng.randint(1,6),rng.randint(1,6),two_sided=True)
    S=hypergraph_to_species_graph(Ht); H4=species_graph_to_hypergraph(S)
    if [(x[0],x[2],x[3]) for x in edges_of(H4)]!=[(x[0],x[2],x[3]) for x in edges_of(Ht)]: b3+=1; 
print('C16 N',N,'bipartite bad',b1,'strings bad',b2,'species-graph bad',b3)
# C18 invariance under renaming + reaction reorder
def canon_key(H,inc):
    G=CRNCanonicalizer(H,include_rule=inc).summary()['canon_graph']
    lo=min(G.nodes)
    nodes=sorted((n-lo,d.get('kind')) for n,d in G.nodes(data=True))
    edges=sorted((u-lo,v-lo,d.get('role'),d.get('stoich')) for u,v,d in G.edges(data=True))
    return (tuple(nodes),tuple(edges))
bad18=0; cnt_mis=0; M=300
for t in range(M):
    H=rnet(rng.randint(2,5),rng.randint(1,4),maxc=2)
    perm=dict(zip(SP,rng.sample(SP,len(SP))))
    H2=CRNHyperGraph(); es=H.edge_list(); rng.shuffle(es)
    for e in es: H2.add_rxn({perm[k]:v for k,v in e.reactants.items()},{perm[k]:v for k,v in e.products.items()},rule=e.rule)
    for inc in (True,False):
        if canon_key(H,inc)!=canon_key(H2,inc): bad18+=1
        a=CRNCanonicalizer(H,include_rule=inc).summary()['automorphism_count']; b=CRNAutomorphism(H,include_rule=inc).summary(max_count=10**6,timeout_sec=None)['automorphism_count']
        if a!=b: cnt_mis+=1
print('C18 M',M,'canon not invariant',bad18,'count mismatch canon vs vf2',cnt_mis)
# C20 realizability vs exhaustive search
def exhaustive(H,flow):
    es={e.id:(e.reactants.to_dict(),e.products.to_dict()) for e in H.edge_list()}
    start=(tuple(sorted(flow.items())),tuple()); 
    from collections import deque
    sp=sorted(H.species); init=(tuple(flow[k] for k in sorted(flow)),tuple(0 for _ in sp)); ids=sorted(flow)
    seen={init}; q=deque([init])
    while q:
        rem,mk=q.popleft()
        if all(x==0 for x in rem) and all(x==0 for x in mk): return True
        for i,eid in enumerate(ids):
            if rem[i]==0: continue
            l,r=es[eid]; m=dict(zip(sp,mk))
            if any(m[s]<c for s,c in l.items()): continue
            for s,c in l.items(): m[s]-=c
            for s,c in r.items(): m[s]+=c
            st=(rem[:i]+(rem[i]-1,)+rem[i+1:],tuple(m[s] for s in sp))
            if st not in seen: seen.add(st); q.append(st)
    return False
bad20=0; K=300; pos=0
for t in range(K):
    H=rnet(rng.randint(1,4),rng.randint(1,4),maxc=2)
    flow={e.id:rng.randint(0,2) for e in H.edge_list()}
    v,e,f=hypergraph_to_pr_inputs(H,flow)
    pr=PathwayRealizability().load_hypergraph_and_flow(v,e,f).build_petri_net_from_flow()
    ok,cert=pr.is_realizable()
    truth=exhaustive(H,flow); pos+=truth
    good = ok==truth
    if ok:
        # replay certificate
        m={s:0 for s in H.species}; cnt=Counter(cert)
        good&= all(cnt[k]==flow[k] for k in flow)
        for eid in cert:
            l,r=e[eid]
            for s,c in l.items():
                m[s]-=c
                if m[s]<0: good=False
            for s,c in r.items(): m[s]=m.get(s,0)+c
        good&= all(x==0 for x in m.values())
    if not good: bad20+=1; print('BAD20',edges_of(H),flow,ok,truth,cert)
print('C20 K',K,'realizable',pos,'bad',bad20)
