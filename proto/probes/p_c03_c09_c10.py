"""Design-time probe: C03 (substrate preserved, balance), C09 (validator vs centre-atom transposition), C10 (GML / H round trips) on the corpus."""
import warnings; warnings.filterwarnings("ignore")
import logging; logging.disable(logging.CRITICAL)
import random, re, itertools
import networkx as nx
from rdkit import Chem
from rdkit.Chem.rdMolDescriptors import CalcMolFormula
from synkit.IO.chem_converter import rsmi_to_its, its_to_gml, gml_to_its, smart_to_gml, smiles_to_graph, graph_to_smi, rsmi_to_graph
from synkit.IO.data_io import load_from_pickle
from synkit.Graph.ITS.its_decompose import get_rc, its_decompose
from synkit.Graph.Hyrogen._misc import h_to_explicit, h_to_implicit
from synkit.Synthesis.Reactor.syn_reactor import SynReactor
from synkit.Chem.Reaction.standardize import Standardize
from synkit.Chem.Reaction.aam_validator import AAMValidator
from synkit.Chem.Reaction.balance_check import BalanceReactionCheck
std=Standardize(); rng=random.Random(7)
rx=[d['smart'] for d in load_from_pickle('/repo/Data/Testcase/graph.pkl.gz')]
# ---- C03: foreign + own templates
def formula(s):
    m=Chem.MolFromSmiles(s); return CalcMolFormula(m)
n=bad_sub=bad_bal=0
tpls=[rsmi_to_its(r,core=True) for r in rx[:25]]
for r in rx[:40]:
    tgt=std.fit(r); a,b=tgt.split('>>')
    for inv,sub in ((False,a),(True,b)):
        for ti in rng.sample(range(len(tpls)),4)+[None]:
            tpl = rsmi_to_its(r,core=True) if ti is None else tpls[ti].copy()
            try: out=SynReactor(sub,tpl,invert=inv).smarts_list
            except Exception as e: continue
            for s in out:
                n+=1
                ss=std.fit(s)
                if ss is None: bad_sub+=1; continue
                l,rr=ss.split('>>')
                side = rr if inv else l
                if side!=std.fit(sub+'>>'+sub).split('>>')[0]: bad_sub+=1
                if formula(l)!=formula(rr): bad_bal+=1
print('C03 results',n,'substrate changed',bad_sub,'unbalanced',bad_bal)
# ---- C09 validator: transposition of two centre atoms
acc=rej=tot=eq_ok=0
for r in rx[:60]:
    its=rsmi_to_its(r); rc=get_rc(its); cn=[x for x in rc.nodes if rc.nodes[x]['element']!='H']
    maps=sorted({int(m) for m in re.findall(r':(\d+)\]',r)})
    # renumbering accepted
    p=maps[:]; rng.shuffle(p); d=dict(zip(maps,p))
    r2=re.sub(r':(\d+)\]',lambda m: ':%d]'%d[int(m.group(1))],r)
    eq_ok+= AAMValidator.smiles_check(r2,r,'ITS') and AAMValidator.smiles_check(r2,r,'RC')
    if len(cn)<2: continue
    x,y=rng.sample(cn,2)
    # swap maps x,y on product side only
    a,b=r.split('>>')
    b2=re.sub(r':(%d|%d)\]'%(x,y),lambda m: ':%d]'%(y if int(m.group(1))==x else x),b)
    wrong=a+'>>'+b2
    # is swap an automorphism-equivalent mapping? brute: compare ITS iso via nx
    tot+=1
    v=AAMValidator.smiles_check(wrong,r,'ITS')
    if v: acc+=1
    else: rej+=1
print('C09 renumbering accepted',eq_ok,'/60; swapped mappings: rejected',rej,'accepted',acc,'of',tot)
print('C09 balance', sum(BalanceReactionCheck.rsmi_balance_check(std.fit(r)) for r in rx),'/',len(rx))
# ---- C10
bad_gml=bad_routes=bad_h=0
def rc_key(g):
    lo=sorted(g.nodes); idx={n:i for i,n in enumerate(lo)}
    return (tuple(sorted((g.nodes[n].get('element'),g.nodes[n]['typesGH'][0][3],g.nodes[n]['typesGH'][1][3]) for n in g.nodes)),)
from networkx.algorithms.isomorphism import GraphMatcher
def iso_rc(g1,g2):
    nm=lambda a,b: a.get('element')==b.get('element') and a['typesGH'][0][3]==b['typesGH'][0][3] and a['typesGH'][1][3]==b['typesGH'][1][3]
    em=lambda a,b: tuple(a['order'])==tuple(b['order'])
    return GraphMatcher(g1,g2,node_match=nm,edge_match=em).is_isomorphic()
for r in rx:
    its=rsmi_to_its(r); rc=get_rc(its)
    back=gml_to_its(its_to_gml(rc,core=True))
    if not iso_rc(rc,back): bad_gml+=1
    g_a=gml_to_its(smart_to_gml(r,core=True)); g_b=gml_to_its(its_to_gml(rc,core=True)); g_c=gml_to_its(its_to_gml(its,core=True))
    if not (iso_rc(g_a,g_b) and iso_rc(g_b,g_c)): bad_routes+=1
mols=sorted({s for r in rx for s in std.fit(r).replace('>>','.').split('.')})
for s in mols:
    g=smiles_to_graph(s)
    if g is None: continue
    gi=h_to_implicit(h_to_explicit(g))
    same=set(g.nodes)==set(gi.nodes) and all(g.nodes[n]['hcount']==gi.nodes[n]['hcount'] for n in g.nodes) and {frozenset(e) for e in g.edges}=={frozenset(e) for e in gi.edges}
    smi_ok = graph_to_smi(g)==Chem.CanonSmiles(s)==graph_to_smi(h_to_explicit(g)) if same else False
    if not (same and smi_ok): bad_h+=1; print('   H/SMILES',s,graph_to_smi(g),graph_to_smi(h_to_explicit(g)))
print('C10 gml roundtrip bad',bad_gml,'routes differ',bad_routes,'of',len(rx),'; molecules',len(mols),'H/SMILES roundtrip bad',bad_h)
