"""Design-time blueprint for the Gallina model of SubgraphSearchEngine (C06) including limits.  The VF2 enumeration order is an
oracle: every call of subgraph_monomorphisms_iter is wrapped, its *complete* enumeration is recorded, and the pure-Python
reference recomputes ALL / COMPONENT / BACKTRACK results with max_results / threshold / strict_cc_count from those lists."""
import warnings; warnings.filterwarnings("ignore")
import logging; logging.disable(logging.CRITICAL)
import itertools, random
import networkx as nx
import synkit.Graph.Matcher.subgraph_matcher as SM
rng=random.Random(53)
REC=[]
class RecGM(SM.GraphMatcher):
    def subgraph_monomorphisms_iter(self):
        full=[dict(m) for m in super().subgraph_monomorphisms_iter()]
        REC.append((tuple(self.G1.nodes),tuple(self.G2.nodes),full))
        return iter(full)
SM.GraphMatcher=RecGM
def comps(g):     # components in order of first node (nx.connected_components order), each as node list in BFS order irrelevant -> set
    return [set(c) for c in nx.connected_components(g)]
def ref_all(enum,maxr,thr):
    res=[]
    for iso in enum:
        res.append({p:h for h,p in iso.items()})
        if maxr and len(res)>=maxr: break
        if len(res)>thr: return []
    return res
def ref_comp(host,pat,oracle,maxr,strict,thr):
    hcs=comps(host); pcs=comps(pat); hcc,pcc=len(hcs),len(pcs)
    if pcc==0: return [{}]
    if hcc<pcc: return ref_all(oracle(tuple(host.nodes),tuple(pat.nodes)),maxr,thr)
    if hcc>pcc and strict: return []
    per=[]
    for pc in pcs:
        sz=len(pc); cand=[i for i,hc in enumerate(hcs) if len(hc)>=sz]
        if not cand: return []
        maps=[]
        for i in cand:
            hn=tuple(n for n in host.nodes if n in hcs[i]); pn=tuple(n for n in pat.nodes if n in pc)
            stop=False
            for iso in oracle(hn,pn):
                maps.append((i,{p:h for h,p in iso.items()}))
                if maxr and len(maps)>=maxr: break
                if len(maps)>thr: return []
            if maxr and len(maps)>=maxr: break
        if not maps: return []
        per.append(maps)
    order=sorted(range(pcc),key=lambda i: len(per[i])); ordered=[per[i] for i in order]
    results=[]; used=set()
    def bt(level,acc):
        if maxr and len(results)>=maxr: return
        if len(results)>thr: return
        if level==pcc: results.append(dict(acc)); return
        for hi,m in ordered[level]:
            if hi in used or any(p in acc for p in m): continue
            used.add(hi); acc.update(m); bt(level+1,acc)
            for p in m: acc.pop(p)
            used.remove(hi)
            if maxr and len(results)>=maxr: return
            if len(results)>thr: return
    bt(0,{})
    return results
def rg(n,p):
    g=nx.Graph(); ids=rng.sample(range(1,40),n)
    for i in ids: g.add_node(i,element=rng.choice('CCO'),charge=0,hcount=rng.randint(0,1))
    for a,b in itertools.combinations(ids,2):
        if rng.random()<p: g.add_edge(a,b,order=rng.choice([1.0,1.0,2.0]))
    return g
bad=0; n=0
for t in range(2500):
    host=rg(rng.randint(1,7),rng.choice([0.15,0.3,0.6])); pat=rg(rng.randint(1,4),rng.choice([0.0,0.3,0.8]))
    maxr=rng.choice([None,None,1,2,3,5]); thr=rng.choice([None,None,1,2,4]); strict=rng.random()<0.5; st=rng.choice(['all','comp','bt'])
    REC.clear()
    got=SM.SubgraphSearchEngine.find_subgraph_mappings(host,pat,node_attrs=['element','charge'],edge_attrs=['order'],strategy=st,max_results=maxr,strict_cc_count=strict,threshold=thr)
    rec={ (frozenset(a),frozenset(b)):full for a,b,full in REC }
    # an oracle lookup that was never issued by the implementation would be a structural disagreement
    missing=[]
    def oracle(hn,pn):
        k=(frozenset(hn),frozenset(pn))
        if k not in rec: missing.append((hn,pn)); return []
        return rec[k]
    T=thr if thr is not None else 5000
    if st=='all': exp=ref_all(oracle(tuple(host.nodes),tuple(pat.nodes)),maxr,T)
    elif st=='comp': exp=ref_comp(host,pat,oracle,maxr,strict,T)
    else:
        exp=ref_comp(host,pat,oracle,maxr,strict,T)
        if not exp: exp=ref_all(oracle(tuple(host.nodes),tuple(pat.nodes)),maxr,T)
    if len(exp)>T: exp=[]
    n+=1
    if exp!=got or missing:
        bad+=1
        if bad<4: print('MISMATCH',st,maxr,thr,strict,len(exp),len(got),missing[:1])
print('C06 blueprint: cases',n,'mismatches',bad)
