"""Design-time probe: C08 — faithful relabelling, signature soundness, nauty invariance of the canonical graph (as a graph, ignoring insertion order)."""
import warnings; warnings.filterwarnings("ignore")
import logging; logging.disable(logging.CRITICAL)
import itertools, random
import networkx as nx
from synkit.Graph.canon_graph import GraphCanonicaliser
rng=random.Random(13)
def rg(n,p):
    g=nx.Graph(); ids=rng.sample(range(1,40),n)
    for i in ids: g.add_node(i,element=rng.choice('CCO'),charge=0,aromatic=False,hcount=rng.randint(0,1),atom_map=i)
    for a,b in itertools.combinations(ids,2):
        if rng.random()<p: g.add_edge(a,b,order=rng.choice([1.0,1.0,2.0]))
    return g
def fam():
    out=[]
    for n in range(3,8):
        c=nx.cycle_graph(n); out.append(c)
    out+= [nx.complete_bipartite_graph(2,3),nx.complete_bipartite_graph(3,3),nx.hypercube_graph(3),nx.petersen_graph(),nx.path_graph(5),nx.star_graph(4)]
    res=[]
    for g in out:
        g=nx.convert_node_labels_to_integers(g,first_label=1)
        for n in g.nodes: g.nodes[n].update(element='C',charge=0,aromatic=False,hcount=0,atom_map=n)
        for e in g.edges: g.edges[e]['order']=1.0
        res.append(g)
    return res
def relabel(g):
    ns=list(g.nodes); new=rng.sample(range(100,200),len(ns)); m=dict(zip(ns,new))
    h=nx.Graph(); order=ns[:]; rng.shuffle(order)
    for n in order: h.add_node(m[n],**{**g.nodes[n],'atom_map':m[n]})
    es=list(g.edges(data=True)); rng.shuffle(es)
    for u,v,d in es:
        if rng.random()<0.5: u,v=v,u
        h.add_edge(m[u],m[v],**d)
    return h
def gkey(g):
    return (tuple(sorted((n,d['element'],d['charge'],d['aromatic'],d['hcount']) for n,d in g.nodes(data=True))), tuple(sorted((min(u,v),max(u,v),d['order']) for u,v,d in g.edges(data=True))))
def iso(g1,g2):
    nm=lambda a,b: all(a[k]==b[k] for k in ('element','charge','aromatic','hcount'))
    em=lambda a,b: a['order']==b['order']
    return nx.is_isomorphic(g1,g2,node_match=nm,edge_match=em)
graphs=[rg(rng.randint(1,7),rng.choice([0.3,0.5,0.8])) for _ in range(400)]+fam()
res={}
for be in ('generic','wl','morgan','nauty'):
    c=GraphCanonicaliser(backend=be); faith=onto=inv=siginv=0
    for g in graphs:
        cg=c.make_canonical_graph(g)
        if not iso(g,cg) or cg.number_of_nodes()!=g.number_of_nodes(): faith+=1
        if sorted(cg.nodes)!=list(range(1,g.number_of_nodes()+1)): onto+=1
        h=relabel(g); ch=c.make_canonical_graph(h)
        if gkey(cg)!=gkey(ch): inv+=1
        if c.canonical_signature(g)!=c.canonical_signature(h): siginv+=1
    res[be]=(faith,onto,inv,siginv)
    print(be,'not faithful',faith,'not onto 1..N',onto,'canonical graph differs under relabel',inv,'signature differs under relabel',siginv,'of',len(graphs))
# soundness: equal signature => isomorphic (random pairs)
for be in ('generic','wl','morgan','nauty'):
    c=GraphCanonicaliser(backend=be); sig={}
    uns=0
    for g in graphs:
        s=c.canonical_signature(g)
        if s in sig and not iso(sig[s],g): uns+=1
        sig.setdefault(s,g)
    print(be,'unsound equal-signature pairs',uns)
