"""Design-time blueprint: a pure-Python reference of the planned Gallina `glue` (implicit-H path of SynReactor._glue_graph)
compared with the real `_glue_graph` on every raw match of corpus (template, substrate) pairs.  Validates the reading
of the code that DESIGN.md C03 is built on, before any Coq is written."""
import warnings; warnings.filterwarnings("ignore")
import logging; logging.disable(logging.CRITICAL)
import random
import networkx as nx
from synkit.IO.chem_converter import rsmi_to_its, smiles_to_graph
from synkit.IO.data_io import load_from_pickle
from synkit.Synthesis.Reactor.syn_reactor import SynReactor
from synkit.Chem.Reaction.standardize import Standardize
std=Standardize(); rng=random.Random(31)
rx=[d['smart'] for d in load_from_pickle('/repo/Data/Testcase/graph.pkl.gz')]
def py_round_half_even(x):  # x multiple of 0.5
    return round(x)
def ref_glue(host, rc, m):
    """host: nx graph (element, aromatic, hcount, charge, neighbors; edges order o). rc: ITS-shaped (typesGH, order pair, standard_order). m: rc node -> host node."""
    nodes={}
    for n,d in host.nodes(data=True):
        t=(d.get('element','*'),d.get('aromatic',False),d.get('hcount',0),d.get('charge',0),d.get('neighbors',[]))
        nodes[n]=[t,t,None]
    edges={frozenset((u,v)):[(d.get('order',1.0),d.get('order',1.0)),0.0] for u,v,d in host.edges(data=True)}
    for r,h in m.items():
        if h not in nodes: continue
        hr,hp,_=nodes[h]; pr,pp=rc.nodes[r]['typesGH']
        delta=pr[2]-pp[2]
        new_r=hr if pr[0]!='*' else ('*',)+hr[1:]
        base=hp if pp[0]!='*' else None
        assert pp[0]!='*' and pr[0]!='*'
        new_p=hp[:2]+(hr[2]-delta,)+(pp[3],)+hp[4:]
        nodes[h]=[new_r,new_p,rc.nodes[r].get('h_pairs')]
    for u,v,a in rc.edges(data=True):
        hu,hv=m.get(u),m.get(v)
        if hu is None or hv is None: continue
        k=frozenset((hu,hv)); o=a.get('order',(0,0))
        if k not in edges: edges[k]=[tuple(o),a.get('standard_order')]
        elif o[0]==0:
            ho=edges[k][0]; edges[k]=[(ho[0],py_round_half_even(ho[1]+o[1])),edges[k][1]+a.get('standard_order',0.0)]
        else: edges[k]=[tuple(o),a.get('standard_order')]
    return nodes,edges
def obs(its):
    nodes={n:[d['typesGH'][0],d['typesGH'][1],d.get('h_pairs')] for n,d in its.nodes(data=True)}
    edges={frozenset((u,v)):[tuple(d['order']),d.get('standard_order')] for u,v,d in its.edges(data=True)}
    return nodes,edges
n=bad=0
for r in rx[:50]:
    tgt=std.fit(r); a,b=tgt.split('>>')
    for inv,sub in ((False,a),(True,b)):
        for src in [r]+rng.sample(rx,2):
            try:
                R=SynReactor(sub,rsmi_to_its(src,core=True),invert=inv)
                host=R.graph.raw; rc=R.rule.rc.raw
                for m in R.mappings:
                    if R._flag_pattern_has_explicit_H: continue      # explicit re-matching path: separate blueprint
                    got=SynReactor._glue_graph(host,rc,m,False,R.rule.left.raw)
                    assert len(got)==1
                    exp=ref_glue(host,rc,m); o=obs(got[0]); n+=1
                    if exp[0]!=o[0] or exp[1]!=o[1]:
                        bad+=1
                        if bad<3:
                            dn=[(k,exp[0][k],o[0][k]) for k in exp[0] if exp[0][k]!=o[0].get(k)][:2]; de=[(k,exp[1].get(k),o[1].get(k)) for k in set(exp[1])|set(o[1]) if exp[1].get(k)!=o[1].get(k)][:2]
                            print('DIFF',dn,de)
            except Exception as e:
                print('ERR',repr(e)[:120])
print('glue blueprint: raw matches compared',n,'disagreements',bad)
