"""Design-time probe: C06 exactness (all / comp / bt, no limits) vs brute force; C07 isomorphic() vs brute force; C13 clustering vs brute-force classes."""
import warnings; warnings.filterwarnings("ignore")
import logging; logging.disable(logging.CRITICAL)
import itertools, random
import networkx as nx
from synkit.Graph.Matcher.subgraph_matcher import SubgraphSearchEngine as SSE, SubgraphMatch
from synkit.Graph.Matcher.graph_matcher import GraphMatcherEngine
from synkit.Graph.Matcher.graph_cluster import GraphCluster
from synkit.Graph.Matcher.batch_cluster import BatchCluster
rng=random.Random(11)
def rg(n,p=0.5,ids=None):
    g=nx.Graph(); ids=ids or rng.sample(range(1,40),n)
    for i in ids: g.add_node(i,element=rng.choice('CCO'),charge=0,hcount=rng.randint(0,1))
    for a,b in itertools.combinations(ids,2):
        if rng.random()<p: g.add_edge(a,b,order=rng.choice([1.0,1.0,2.0]))
    return g
def brute(host,pat):
    hn=list(host.nodes); pn=list(pat.nodes); out=[]
    for img in itertools.permutations(hn,len(pn)):
        m=dict(zip(pn,img))
        if any(host.nodes[m[p]]['element']!=pat.nodes[p]['element'] or host.nodes[m[p]]['charge']!=pat.nodes[p]['charge'] or host.nodes[m[p]]['hcount']<pat.nodes[p]['hcount'] for p in pn): continue
        if any((not host.has_edge(m[u],m[v])) or host[m[u]][m[v]]['order']!=d['order'] for u,v,d in pat.edges(data=True)): continue
        out.append(m)
    return out
def comp_of(g):
    c={}
    for i,cc in enumerate(nx.connected_components(g)):
        for n in cc: c[n]=i
    return c
key=lambda ms: sorted(tuple(sorted(m.items())) for m in ms)
bad={'all':0,'comp':0,'bt':0}; n=0
for t in range(1500):
    host=rg(rng.randint(1,6),rng.choice([0.2,0.4,0.7])); pat=rg(rng.randint(1,3),rng.choice([0.0,0.5,1.0]))
    B=brute(host,pat); n+=1
    hc=comp_of(host); pc=comp_of(pat); nh=len(set(hc.values())); npc=len(set(pc.values()))
    if nh<npc: C=B
    else: C=[m for m in B if len({hc[m[p]] for p in pat.nodes})==npc and all((pc[a]==pc[b])==(hc[m[a]]==hc[m[b]]) for a in pat.nodes for b in pat.nodes)]
    exp={'all':B,'comp':C,'bt':C if C else B}
    for st in ('all','comp','bt'):
        r=SSE.find_subgraph_mappings(host,pat,node_attrs=['element','charge'],edge_attrs=['order'],strategy=st,strict_cc_count=False)
        if key(r)!=key(exp[st]):
            bad[st]+=1
            if bad[st]<3: print('BAD',st,len(r),len(exp[st]),list(host.nodes(data=True)),list(host.edges(data='order')),list(pat.nodes(data=True)),list(pat.edges(data='order')))
print('C06 cases',n,'bad',bad)
# C07 isomorphic vs brute
def iso_brute(g1,g2):
    if g1.number_of_nodes()!=g2.number_of_nodes() or g1.number_of_edges()!=g2.number_of_edges(): return False
    n1=list(g1.nodes)
    for img in itertools.permutations(list(g2.nodes)):
        m=dict(zip(n1,img))
        if any(g1.nodes[a]['element']!=g2.nodes[m[a]]['element'] for a in n1): continue
        if all(g2.has_edge(m[u],m[v]) and g2[m[u]][m[v]]['order']==d['order'] for u,v,d in g1.edges(data=True)): return True
    return False
b7=0; m7=0
for t in range(1500):
    g1=rg(rng.randint(1,5),0.5)
    if rng.random()<0.5:
        ids=rng.sample(range(50,90),g1.number_of_nodes()); g2=nx.relabel_nodes(g1,dict(zip(g1.nodes,ids)))
        if rng.random()<0.4 and g2.number_of_edges():
            e=rng.choice(list(g2.edges)); g2[e[0]][e[1]]['order']=3.0-g2[e[0]][e[1]]['order'] if g2[e[0]][e[1]]['order'] in (1.0,2.0) else 1.0
    else: g2=rg(g1.number_of_nodes(),0.5)
    for n_ in list(g1.nodes): g1.nodes[n_]['hcount']=0
    for n_ in list(g2.nodes): g2.nodes[n_]['hcount']=0
    truth=iso_brute(g1,g2)
    for wl in (False,True):
        e=GraphMatcherEngine(node_attrs=['element'],edge_attrs=['order'],wl1_filter=wl)
        if e.isomorphic(g1,g2)!=truth or e.isomorphic(g2,g1)!=truth: b7+=1
    if truth:
        mm=GraphMatcherEngine(node_attrs=['element'],edge_attrs=['order']).get_mappings(g2,g1)
        if not mm: m7+=1
print('C07 iso bad',b7,'equal-size mappings missing',m7)
# C13
b13=0
for t in range(60):
    base=[rg(rng.randint(2,4),0.6) for _ in range(4)]
    items=[]
    for _ in range(12):
        g=rng.choice(base); ids=rng.sample(range(100,200),g.number_of_nodes()); h=nx.relabel_nodes(g,dict(zip(g.nodes,ids)))
        if rng.random()<0.25 and h.number_of_edges():
            e=rng.choice(list(h.edges)); h[e[0]][e[1]]['order']=2.0 if h[e[0]][e[1]]['order']==1.0 else 1.0
        items.append(h)
    def classes(lst,labels):
        return {frozenset(i for i in range(len(lst)) if labels[i]==c) for c in set(labels)}
    truth=[]
    for g in items:
        for ci,rep in enumerate(truth):
            if iso_brute(g,rep): break
        else: truth.append(g)
    tl=[next(i for i,rep in enumerate(truth) if iso_brute(g,rep)) for g in items]
    data=[{'gml':g,'WLHash':'w'} for g in items]
    out=GraphCluster(node_label_names=['element','charge'],node_label_default=['*',0]).fit(data,'gml','WLHash')
    if classes(items,[d['class'] for d in out])!=classes(items,tl): b13+=1
    perm=list(range(len(items))); rng.shuffle(perm)
    data2=[{'gml':items[i],'WLHash':'w'} for i in perm]
    out2,_=BatchCluster().fit(data2,[],'gml','WLHash',batch_size=rng.choice([1,3,5]))
    lab2=[None]*len(items)
    for d,i in zip(out2,perm): lab2[i]=d['class']
    if classes(items,lab2)!=classes(items,tl): b13+=1
print('C13 bad',b13)
