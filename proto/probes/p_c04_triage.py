"""Design-time probe: triage of C04 misses (own template does not regenerate the reaction)."""
import warnings; warnings.filterwarnings("ignore")
import logging; logging.disable(logging.CRITICAL)
import json, gzip
from collections import Counter
from rdkit import Chem
from synkit.IO.chem_converter import rsmi_to_its, rsmi_to_graph
from synkit.IO.data_io import load_from_pickle
from synkit.Graph.ITS.its_decompose import get_rc, its_decompose
import synkit.Synthesis.Reactor.syn_reactor as SR
from synkit.Chem.Reaction.standardize import Standardize
std=Standardize()
orig=SR.deduplicate_matches_with_anchor
def run(sub,tpl,inv,cfg,prune=True):
    SR.deduplicate_matches_with_anchor = orig if prune else (lambda ms,**k: list(ms))
    try:
        R=SR.SynReactor(sub,tpl,invert=inv,**cfg)
        sm=R.smarts_list
        return {std.fit(s) for s in sm}, len(R.mappings), len(R.its_list), len(sm)
    finally: SR.deduplicate_matches_with_anchor=orig
def classify(r):
    its=rsmi_to_its(r); rc=get_rc(its)
    eH=any(d.get('element')=='H' for _,d in rc.nodes(data=True))
    # atoms outside rc that change charge or hcount
    outside=[n for n,d in its.nodes(data=True) if n not in rc and (d['typesGH'][0][2]!=d['typesGH'][1][2] or d['typesGH'][0][3]!=d['typesGH'][1][3])]
    inside_h=[n for n,d in rc.nodes(data=True) if d['typesGH'][0][2]!=d['typesGH'][1][2]]
    return eH, bool(outside), bool(inside_h)
raw=open('Data/ecoli.json.gz','rb').read()
try: raw=gzip.decompress(raw)
except Exception: pass
eco=[d['smart'] for d in json.loads(raw)]
usp=[d['smart'] for d in load_from_pickle('Data/Testcase/graph.pkl.gz')]
C=Counter(); ex={}
for name,rx in (('uspto',usp),('ecoli',eco)):
    for r in rx:
        try:
            g,h=rsmi_to_graph(r)
            if g is None or h is None: C[(name,'malformed')]+=1; continue
            eH,outside,inside_h=classify(r)
            cfg=dict() if eH else dict(explicit_h=False,implicit_temp=True)
            tgt=std.fit(r); a,b=tgt.split('>>')
            for core in (True,False):
                for inv,sub in ((False,a),(True,b)):
                    res,nm,ni,ns=run(sub,rsmi_to_its(r,core=core),inv,cfg)
                    if tgt in res: C[(name,core,'ok')]+=1; continue
                    res2,nm2,ni2,ns2=run(sub,rsmi_to_its(r,core=core),inv,cfg,prune=False)
                    if tgt in res2: cat='pruned'
                    elif core and outside: cat='outside-centre change'
                    elif ns2<ni2: cat='rdkit-drop(%d of %d)'%(ni2-ns2,ni2)
                    elif nm2==0: cat='no-match'
                    else: cat='other'
                    C[(name,core,cat)]+=1; ex.setdefault((name,core,cat,inv),r)
        except Exception as e:
            C[(name,'ERR '+repr(e)[:50])]+=1
for k,v in sorted(C.items(),key=str): print(k,v)
for k,v in list(ex.items())[:12]: print(k,v[:260])
