"""Design-time blueprint for the Gallina model of CRN/Topo/canon.py (C18): IR search without pruning on the directed view
(bipartite or species graph), signatures flattened to integer lists, compared with CRNCanonicalizer: refine traces, best label,
canonical permutation, number of minimal leaves."""
import warnings; warnings.filterwarnings("ignore")
import logging; logging.disable(logging.CRITICAL)
import random
import networkx as nx
from synkit.CRN.Hypergraph.hypergraph import CRNHyperGraph
from synkit.CRN.Topo.canon import CRNCanonicalizer
rng=random.Random(61); SP=list('ABCDEF')
def rnet(ns,nr,maxc=2):
    H=CRNHyperGraph()
    for _ in range(nr):
        while True:
            l={s:rng.randint(1,maxc) for s in rng.sample(SP[:ns],min(ns,rng.randint(0,2)))}
            r={s:rng.randint(1,maxc) for s in rng.sample(SP[:ns],min(ns,rng.randint(0,2)))}
            if l or r: break
        H.add_rxn(l,r,rule=rng.choice(['r','q']))
    return H
KIND={'reaction':0,'species':1}; ROLE={None:-1,'product':0,'reactant':1}     # order-preserving interning ('product' < 'reactant', None only in the species view where it is constant)
def enc(G):
    nodes=list(G.nodes)
    attr={n:(KIND[G.nodes[n].get('kind')],) for n in nodes}
    show={n:(G.nodes[n].get('kind'),) for n in nodes}
    succ={n:{m:(G[n][m].get('role'),G[n][m].get('stoich')) for m in G.successors(n)} for n in nodes}
    pred={n:set(G.predecessors(n)) for n in nodes}
    return nodes,attr,show,succ,pred
def sig(e,P,v):
    nodes,attr,show,succ,pred=e
    nb=set(succ[v])|pred[v]
    counts=[sum(1 for m in nb if m in cell) for cell in P]
    em=sorted((ROLE[r],(-1 if s is None else s)) for r,s in succ[v].values())
    return list(attr[v])+[len(pred[v]),len(succ[v])]+counts+[x for t in em for x in t]
def refine(e,P):
    while True:
        new=[]; ch=False
        for c in P:
            if len(c)<=1: new.append(c); continue
            g={}
            for v in c: g.setdefault(tuple(sig(e,P,v)),[]).append(v)
            if len(g)>1:
                ch=True
                for k in sorted(g): new.append(sorted(g[k]))
            else: new.append(sorted(c))
        P=new
        if not ch: return P
def label(e,perm):
    nodes,attr,show,succ,pred=e
    ns='|'.join(':'.join(str(x) for x in show[v]) for v in perm); bits=[]
    for i,a in enumerate(perm):
        for j,b in enumerate(perm):
            if i==j: continue
            if b in succ[a]: bits.append('1:'+':'.join(str(x) for x in succ[a][b]))
            else: bits.append('0:'+':'.join('' for _ in range(2)))
    return ns+'||'+'|'.join(bits)
def search(e,P,prefix,best,perms,log):
    P=refine(e,P); log.append([list(c) for c in P])
    if all(len(c)==1 for c in P):
        perm=prefix+[v for c in P for v in c]; lab=label(e,perm)
        if best[0] is None or lab<best[0]: best[0],best[1]=lab,perm; perms.clear(); perms.append(perm)
        elif lab==best[0]: perms.append(perm)
        return
    idx=next(i for i,c in enumerate(P) if len(c)>1); cell=sorted(P[idx])
    for v in cell:
        rest=[w for w in cell if w!=v]
        search(e,P[:idx]+[[v]]+([sorted(rest)] if rest else [])+P[idx+1:],prefix+[v],best,perms,log)
def canon_ref(G):
    e=enc(G); nodes,attr=e[0],e[1]
    b={}
    for v in nodes: b.setdefault(attr[v],[]).append(v)
    P=[sorted(x) for _,x in sorted(b.items())]
    best=[None,None]; perms=[]; log=[]
    search(e,P,[],best,perms,log); return best,perms,log
bad=0; n=0; calls=0
for t in range(400):
    H=rnet(rng.randint(1,5),rng.randint(1,4))
    for inc in (True,False):
        C=CRNCanonicalizer(H,include_rule=inc); G=C.G
        rlog=[]; orig=CRNCanonicalizer._refine
        def wrapped(self,G_,P,_o=orig,_l=rlog):
            out=_o(self,G_,P); _l.append([list(c) for c in out]); return out
        CRNCanonicalizer._refine=wrapped
        try: s=C.summary()
        finally: CRNCanonicalizer._refine=orig
        best,perms,log=canon_ref(G); n+=1; calls+=len(rlog)
        if best[1]!=s['canonical_perm'] or len(perms)!=s['automorphism_count'] or log!=rlog: 
            bad+=1
            if bad<3: print('MISMATCH',inc,best[1],s['canonical_perm'],len(perms),s['automorphism_count'],log==rlog)
print('CRN canon blueprint: views',n,'refine calls',calls,'mismatches',bad)
