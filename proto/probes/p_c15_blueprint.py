"""Design-time blueprint for the Gallina model of CRNHyperGraph (C15): a pure-Python state machine (dict/set state,
structured ids, error enum) that follows the code AS IT IS (including the id collision), compared with the real class
after every operation of random histories: species, edges, both indices, mol map, counters, errors."""
import warnings; warnings.filterwarnings("ignore")
import random, copy
from synkit.CRN.Hypergraph.hypergraph import CRNHyperGraph
rng=random.Random(47)
RXNS=[({'A':1},{'B':1}),({'B':1},{'A':1}),({'A':1,'B':1},{'C':2}),({'A':2},{}),({},{'C':1}),({'A':1,'C':1},{'B':1,'C':1}),({},{})]
RULES=['r','q']
def new(): return dict(species=set(),edges={},sin={},sout={},cnt={},mol={})
def next_id(s,rule):
    c=s['cnt'].get(rule,0)+1; s['cnt'][rule]=c; return f'{rule}_{c}'
def add(s,l,r,rule,eid):
    rule=rule or 'r'
    if eid is None: eid=next_id(s,rule)
    elif eid in s['edges']: return 'KeyError'
    if not l and not r: return 'ValueError'
    s['edges'][eid]=(rule,dict(l),dict(r))
    for x in set(l)|set(r):
        s['species'].add(x); s['sin'].setdefault(x,set()); s['sout'].setdefault(x,set())
    for x in l: s['sout'][x].add(eid)
    for x in r: s['sin'][x].add(eid)
    return eid
def prune(s,x):
    if not s['sin'].get(x) and not s['sout'].get(x):
        s['species'].discard(x); s['sin'].pop(x,None); s['sout'].pop(x,None); s['mol'].pop(x,None)
def remove_rxn(s,eid):
    if eid not in s['edges']: return 'KeyError'
    rule,l,r=s['edges'].pop(eid)
    for x in list(l):
        s['sout'].setdefault(x,set()).discard(eid); prune(s,x)
    for x in list(r):
        s['sin'].setdefault(x,set()).discard(eid); prune(s,x)
def remove_species(s,x,pr):
    if x not in s['species']: return 'KeyError'
    dead=set()
    for eid in list(s['sin'].get(x,[])):
        rule,l,r=s['edges'][eid]; r.pop(x,None); s['sin'][x].discard(eid)
        if not l and not r: dead.add(eid)
    for eid in list(s['sout'].get(x,[])):
        rule,l,r=s['edges'][eid]; l.pop(x,None); s['sout'][x].discard(eid)
        if not l and not r: dead.add(eid)
    for eid in dead: remove_rxn(s,eid)
    if pr: prune(s,x)
def merge(s,o,prefix):
    for eid,(rule,l,r) in list(o['edges'].items()):
        nid=eid
        if prefix or nid in s['edges']: nid=next_id(s,rule)
        res=add(s,l,r,rule,nid)          # NB: the real code passes the other network's side objects by reference (aliasing) — modelled separately
        if res in ('KeyError','ValueError'): return res
def obs_model(s):
    return (sorted(s['species']),sorted((k,v[0],sorted(v[1].items()),sorted(v[2].items())) for k,v in s['edges'].items()),
            sorted((k,sorted(v)) for k,v in s['sin'].items()),sorted((k,sorted(v)) for k,v in s['sout'].items()),sorted(s['cnt'].items()),sorted(s['mol'].items()))
def obs_impl(H):
    return (sorted(H.species),sorted((k,e.rule,sorted(e.reactants.to_dict().items()),sorted(e.products.to_dict().items())) for k,e in H.edges.items()),
            sorted((k,sorted(v)) for k,v in H.species_to_in_edges.items()),sorted((k,sorted(v)) for k,v in H.species_to_out_edges.items()),sorted(H._rule_counters.items()),sorted(H.species_to_mol.items()))
def mcall(f):
    try: return f()
    except KeyError: return 'KeyError'   # a stale index entry makes the code itself raise KeyError mid-way; same partial state
def call(f):
    try: f(); return None
    except KeyError: return 'KeyError'
    except ValueError: return 'ValueError'
bad=0; steps=0
for trial in range(4000):
    H=CRNHyperGraph(); s=new(); hist=[]
    for step in range(rng.randint(1,14)):
        op=rng.choice(['add','add','add_id','rm','rm_bad','rmsp','rmsp_bad','mol','merge'])
        if op in ('add','add_id'):
            l,r=rng.choice(RXNS); rule=rng.choice(RULES+[None]); eid=rng.choice(['r_1','q_2','x']) if op=='add_id' else None
            hist.append((op,l,r,rule,eid))
            e1=call(lambda: H.add_rxn(dict(l),dict(r),rule=rule,edge_id=eid)); e2=add(s,l,r,rule,eid); e2=e2 if e2 in ('KeyError','ValueError') else None
        elif op=='rm':
            if not s['edges']: continue
            eid=rng.choice(sorted(s['edges'])); hist.append((op,eid)); e1=call(lambda: H.remove_rxn(eid)); e2=mcall(lambda: remove_rxn(s,eid))
        elif op=='rm_bad':
            hist.append((op,)); e1=call(lambda: H.remove_rxn('nope')); e2=remove_rxn(s,'nope')
        elif op=='rmsp':
            if not s['species']: continue
            x=rng.choice(sorted(s['species'])); pr=rng.random()<0.5; hist.append((op,x,pr)); e1=call(lambda: H.remove_species(x,prune_orphans=pr)); e2=mcall(lambda: remove_species(s,x,pr))
        elif op=='rmsp_bad':
            hist.append((op,)); e1=call(lambda: H.remove_species('Z')); e2=remove_species(s,'Z',True)
        elif op=='mol':
            if not s['species']: continue
            x=rng.choice(sorted(s['species'])); hist.append((op,x)); H.assign_mol(x,'m'); s['mol'][x]='m'; e1=e2=None
        else:
            O=CRNHyperGraph(); o=new()
            for _ in range(rng.randint(1,2)):
                l,r=rng.choice(RXNS[:-1]); rule=rng.choice(RULES); eid=rng.choice([None,'r_1','x'])
                if call(lambda: O.add_rxn(dict(l),dict(r),rule=rule,edge_id=eid)) is None: add(o,l,r,rule,eid)
            pe=rng.random()<0.5; hist.append((op,obs_model(o)[1],pe)); e1=call(lambda: H.merge(O,prefix_edges=pe)); e2=merge(s,copy.deepcopy(o),pe)
        steps+=1
        if e1!=e2 or obs_impl(H)!=obs_model(s):
            bad+=1
            if bad<4: print('MISMATCH',hist,e1,e2); print(obs_impl(H)); print(obs_model(s))
            break
print('C15 blueprint: histories 4000 steps',steps,'mismatching histories',bad)
