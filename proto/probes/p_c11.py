"""Design-time probe: C11 exact automorphisms/orbits vs brute force; AutoEst coarser than truth; dedup sublist."""
import warnings; warnings.filterwarnings("ignore")
import logging; logging.disable(logging.CRITICAL)
import itertools, random
import networkx as nx
from synkit.Graph.Matcher.automorphism import Automorphism
from synkit.Graph.Matcher.auto_est import AutoEst
from synkit.Graph.Matcher.dedup_matches import deduplicate_matches_with_anchor
from synkit.Graph.Matcher.subgraph_matcher import SubgraphSearchEngine as SSE
rng=random.Random(1)
def rg(n,p=0.5):
    g=nx.Graph()
    ids=rng.sample(range(1,30),n)
    for i in ids: g.add_node(i,element=rng.choice('CCO'),charge=0,aromatic=False,hcount=0)
    for a,b in itertools.combinations(ids,2):
        if rng.random()<p: g.add_edge(a,b,order=rng.choice([1.0,1.0,2.0]))
    return g
def brute_auts(g):
    ns=list(g.nodes); out=[]
    for perm in itertools.permutations(ns):
        m=dict(zip(ns,perm)); ok=True
        for a in ns:
            if g.nodes[a]['element']!=g.nodes[m[a]]['element']: ok=False;break
        if not ok: continue
        for a,b in itertools.combinations(ns,2):
            e1=g.get_edge_data(a,b); e2=g.get_edge_data(m[a],m[b])
            if (e1 is None)!=(e2 is None) or (e1 and e1['order']!=e2['order']): ok=False;break
        if ok: out.append(m)
    return out
def orbits_of(auts,ns):
    orb={n:frozenset(m[n] for m in auts) for n in ns}
    return set(orb.values())
bad=0;badw=0;tot=0
for t in range(400):
    g=rg(rng.randint(1,6),rng.choice([0.3,0.5,0.8]))
    conn = nx.is_connected(g) if g.number_of_nodes()>0 else True
    A=Automorphism(g)
    if conn:
        auts=brute_auts(g); tot+=1
        if A.n_automorphisms!=len(auts) or set(A.orbits)!=orbits_of(auts,list(g.nodes)):
            bad+=1; print('BAD exact',g.nodes(data='element'),list(g.edges(data='order')),A.n_automorphisms,len(auts),A.orbits)
        est=AutoEst(g,node_attrs=['element','charge','aromatic','hcount'],edge_attrs=['order']).fit()
        idx=est.orbit_index
        for o in orbits_of(auts,list(g.nodes)):
            if len({idx[n] for n in o})!=1: badw+=1; print('BAD wl separates true orbit',o)
    else:
        # per component
        cnt=1; orbs=set()
        for c in nx.connected_components(g):
            sub=g.subgraph(c).copy(); a=brute_auts(sub); cnt*=len(a); orbs|=orbits_of(a,list(sub.nodes))
        tot+=1
        if A.n_automorphisms!=cnt or set(A.orbits)!=orbs: bad+=1; print('BAD disc',A.n_automorphisms,cnt)
print('C11 cases',tot,'bad exact',bad,'bad wl',badw)
# dedup sublist
bd=0
for t in range(200):
    host=rg(rng.randint(3,6),0.5); pat=rg(rng.randint(1,3),0.6)
    ms=SSE.find_subgraph_mappings(host,pat,node_attrs=['element','charge'],edge_attrs=['order'],strategy='all')
    est=AutoEst(pat,node_attrs=['element','charge','aromatic','hcount'],edge_attrs=['order']).fit()
    out=deduplicate_matches_with_anchor(ms,pattern_orbits=est.orbits,pattern_anchor=est.anchor_component)
    it=iter(ms)
    if not all(any(o is m or o==m for m in it) for o in out): bd+=1
print('dedup sublist bad',bd)
