"""Design-time blueprint for the Gallina model of Graph/Canon/nauty.py (C08) — pure functions over
(node list, attribute table, adjacency), signatures flattened to integer lists (elements interned in sorted
order, orders in half-units), labels as strings.  Compared with NautyCanonicalizer on random and symmetric graphs:
same `_refine` results (as ordered partitions of sorted cells), same best label, same canonical permutation."""
import warnings; warnings.filterwarnings("ignore")
import logging; logging.disable(logging.CRITICAL)
import itertools, random
import networkx as nx
from synkit.Graph.Canon.nauty import NautyCanonicalizer
NA=['element','aromatic','charge','hcount']; EA=['order']
rng=random.Random(43)
def encode(G):
    els=sorted({d['element'] for _,d in G.nodes(data=True)})
    rank={e:i for i,e in enumerate(els)}
    nodes=list(G.nodes)                                   # insertion order
    attr={n:(rank[G.nodes[n]['element']],int(G.nodes[n]['aromatic']),G.nodes[n]['charge'],G.nodes[n]['hcount']) for n in nodes}
    show={n:(G.nodes[n]['element'],G.nodes[n]['aromatic'],G.nodes[n]['charge'],G.nodes[n]['hcount']) for n in nodes}
    adj={n:{m:int(round(2*G[n][m]['order'])) for m in G.neighbors(n)} for n in nodes}   # neighbour order = nx adjacency order (irrelevant: sorted/multiset use only)
    amap={n:G.nodes[n].get('atom_map',n) for n in nodes}
    return nodes,attr,show,adj,amap
def sig(attr,adj,P,v):
    counts=[sum(1 for m in adj[v] if m in cell) for cell in P]
    em=sorted(adj[v].values())
    return list(attr[v])+[len(adj[v])]+counts+em       # flat integer list; lengths agree whenever the prefix agrees
def refine(attr,adj,P):
    while True:
        new=[]; changed=False
        for cell in P:
            if len(cell)<=1: new.append(cell); continue
            groups={}
            for v in cell: groups.setdefault(tuple(sig(attr,adj,P,v)),[]).append(v)
            if len(groups)>1:
                changed=True
                for k in sorted(groups): new.append(sorted(groups[k]))
            else: new.append(cell)
        P=new
        if not changed: return P
def fmt_order(h): return repr(h/2.0)
def label(show,adj,perm):
    ns='|'.join(':'.join(str(x) for x in show[v]) for v in perm)
    bits=[]
    for i in range(len(perm)):
        for j in range(i+1,len(perm)):
            a,b=perm[i],perm[j]
            bits.append('1:'+fmt_order(adj[a][b]) if b in adj[a] else '0:')
    return ns+'||'+'|'.join(bits)
def partial(show,prefix): return '|'.join(':'.join(str(x) for x in show[v]) for v in prefix)+'{'*1000
def search(enc,P,prefix,best,log):
    nodes,attr,show,adj,amap=enc
    P=refine(attr,adj,P); log.append([list(c) for c in P])
    if all(len(c)==1 for c in P):
        perm=prefix+[v for c in P for v in c]; lab=label(show,adj,perm)
        if best[0] is None or lab<best[0]: best[0],best[1]=lab,perm
        return
    idx=next(i for i,c in enumerate(P) if len(c)>1); cell=P[idx]
    for v in sorted(cell,key=lambda n: amap[n]):
        rest=[w for w in cell if w!=v]
        newP=P[:idx]+[[v]]+([sorted(rest)] if rest else [])+P[idx+1:]
        if best[0] is not None and partial(show,prefix+[v])>best[0]: continue
        search(enc,newP,prefix+[v],best,log)
def canon_ref(G):
    enc=encode(G); nodes,attr,show,adj,amap=enc
    buckets={}
    for v in nodes: buckets.setdefault(attr[v],[]).append(v)
    P=[sorted(b) for _,b in sorted(buckets.items())]
    best=[None,None]; log=[]
    search(enc,P,[],best,log)
    return best,log
def rg(n,p):
    g=nx.Graph(); ids=rng.sample(range(1,40),n)
    for i in ids: g.add_node(i,element=rng.choice(['C','C','O','Cl','N']),charge=rng.choice([0,0,0,1,-1]),aromatic=rng.random()<0.2,hcount=rng.randint(0,3),atom_map=i)
    for a,b in itertools.combinations(ids,2):
        if rng.random()<p: g.add_edge(a,b,order=rng.choice([1.0,1.0,2.0,1.5,3.0]))
    return g
def fam():
    out=[nx.cycle_graph(n) for n in range(3,8)]+[nx.complete_bipartite_graph(2,3),nx.complete_bipartite_graph(3,3),nx.hypercube_graph(3),nx.petersen_graph(),nx.star_graph(4)]
    res=[]
    for g in out:
        g=nx.convert_node_labels_to_integers(g,first_label=1)
        for n in g.nodes: g.nodes[n].update(element='C',charge=0,aromatic=False,hcount=0,atom_map=n)
        for e in g.edges: g.edges[e]['order']=1.0
        res.append(g)
    return res
graphs=[rg(rng.randint(1,8),rng.choice([0.2,0.4,0.7])) for _ in range(500)]+fam()
bad_lab=bad_perm=bad_ref=0; calls=0
for G in graphs:
    C=NautyCanonicalizer(node_attrs=NA,edge_attrs=EA)
    rlog=[]; orig=C.__class__._refine
    def wrapped(self,G_,P,_o=orig,_l=rlog):
        out=_o(self,G_,P); _l.append([list(c) for c in out]); return out
    C.__class__._refine=wrapped
    try:
        best={'label':None,'perm':None}; aut=[]
        C._search(G,C._initial_partition(G),[],best,aut)
    finally: C.__class__._refine=orig
    ref,log=canon_ref(G); calls+=len(rlog)
    if ref[0]!=best['label']: bad_lab+=1
    if ref[1]!=best['perm']: bad_perm+=1
    if log!=rlog: bad_ref+=1
print('nauty blueprint: graphs',len(graphs),'refine calls',calls,'label mismatches',bad_lab,'perm mismatches',bad_perm,'refine-trace mismatches',bad_ref)
