From stdpp Require Import gmap strings sets.
Local Open Scope string_scope.

Definition sp := string.
Definition eid := string.
Record rxn := Rxn { r_rule : string; r_lhs : gmap sp positive; r_rhs : gmap sp positive }.
Record st := St {
  species : gset sp;
  edges : gmap eid rxn;
  s_in : gmap sp (gset eid);
  s_out : gmap sp (gset eid);
  counters : gmap string nat;
  mol : gmap sp string }.

Definition rxn_species (r : rxn) : gset sp := dom (r_lhs r) ∪ dom (r_rhs r).

Definition idx_add (e : eid) (ks : gset sp) (m : gmap sp (gset eid)) : gmap sp (gset eid) :=
  set_fold (fun s acc => <[ s := {[e]} ∪ default ∅ (acc !! s) ]> acc) m ks.
Definition idx_touch (ks : gset sp) (m : gmap sp (gset eid)) : gmap sp (gset eid) :=
  set_fold (fun s acc => <[ s := default ∅ (acc !! s) ]> acc) m ks.

Definition register (s : st) (e : eid) (r : rxn) : st :=
  let sps := rxn_species r in
  St (species s ∪ sps) (<[e := r]> (edges s))
     (idx_add e (dom (r_rhs r)) (idx_touch sps (s_in s)))
     (idx_add e (dom (r_lhs r)) (idx_touch sps (s_out s)))
     (counters s) (mol s).

Inductive res := Ok (s : st) | ErrKey | ErrValue.

Definition add_explicit (s : st) (e : eid) (r : rxn) : res :=
  if decide (is_Some (edges s !! e)) then ErrKey
  else if decide (r_lhs r = ∅ ∧ r_rhs r = ∅) then ErrValue
  else Ok (register s e r).

(* invariant *)
Definition produces (s : st) (x : sp) : gset eid :=
  dom (filter (fun '(_, r) => x ∈ dom (r_rhs r)) (edges s)).
Definition consumes (s : st) (x : sp) : gset eid :=
  dom (filter (fun '(_, r) => x ∈ dom (r_lhs r)) (edges s)).

Record Inv (s : st) : Prop := {
  inv_in : forall x, default ∅ (s_in s !! x) = produces s x;
  inv_out : forall x, default ∅ (s_out s !! x) = consumes s x;
  inv_sp : forall x e r, edges s !! e = Some r -> x ∈ rxn_species r -> x ∈ species s;
  inv_mol : dom (mol s) ⊆ species s }.
