From stdpp Require Import gmap strings sets.
Require Import C15_Model_proto.

Lemma idx_add_lookup e ks m x :
  default ∅ (idx_add e ks m !! x) = (if decide (x ∈ ks) then {[e]} ∪ default ∅ (m !! x) else default ∅ (m !! x)).
Proof.
  unfold idx_add. revert ks. apply (set_fold_ind_L (fun acc (ks : gset sp) => default ∅ (acc !! x) = if decide (x ∈ ks) then {[e]} ∪ default ∅ (m !! x) else default ∅ (m !! x))).
  - destruct (decide _) as [H|H]; [set_solver|done].
  - intros y X acc Hy IH. destruct (decide (x = y)) as [->|Hne].
    + rewrite lookup_insert. simpl. rewrite IH. destruct (decide (y ∈ X)); [set_solver|].
      destruct (decide (y ∈ {[y]} ∪ X)); [done|set_solver].
    + rewrite lookup_insert_ne by done. rewrite IH.
      destruct (decide (x ∈ X)), (decide (x ∈ {[y]} ∪ X)); try done; set_solver.
Qed.

Lemma idx_touch_lookup ks m x : default ∅ (idx_touch ks m !! x) = default ∅ (m !! x).
Proof.
  unfold idx_touch. revert ks. apply (set_fold_ind_L (fun acc (_ : gset sp) => default ∅ (acc !! x) = default ∅ (m !! x))); [done|].
  intros y X acc Hy IH. destruct (decide (x = y)) as [->|Hne].
  - rewrite lookup_insert. simpl. done.
  - rewrite lookup_insert_ne by done. done.
Qed.

Lemma produces_register s e r x : edges s !! e = None ->
  produces (register s e r) x = (if decide (x ∈ dom (r_rhs r)) then {[e]} ∪ produces s x else produces s x).
Proof.
  intros Hn. unfold produces, register; simpl.
  rewrite map_filter_insert. destruct (decide _) as [H|H].
  - destruct (decide (x ∈ dom (r_rhs r))); [|done]. rewrite dom_insert_L. done.
  - destruct (decide (x ∈ dom (r_rhs r))); [done|]. rewrite map_filter_delete. 
    rewrite delete_notin; [done|]. apply map_filter_lookup_None. left. done.
Qed.

Lemma add_explicit_inv s e r s' : Inv s -> add_explicit s e r = Ok s' -> Inv s'.
Proof.
  intros [Hin Hout Hsp Hmol]. unfold add_explicit.
  destruct (decide (is_Some _)) as [|Hn]; [done|]. destruct (decide _); [done|].
  intros [= <-]. apply eq_None_not_Some in Hn.
  split.
  - intros x. rewrite produces_register by done. cbn [register s_in].
    rewrite idx_add_lookup, idx_touch_lookup, Hin. done.
  - intros x. unfold consumes, register; cbn.
    rewrite idx_add_lookup, idx_touch_lookup, Hout. unfold consumes.
    rewrite map_filter_insert. destruct (decide (x ∈ dom (r_lhs r))).
    + rewrite dom_insert_L. done.
    + rewrite map_filter_delete, delete_notin; [done|]. apply map_filter_lookup_None; left; done.
  - intros x e' r' He' Hx. cbn in *. destruct (decide (e' = e)) as [->|Hne].
    + rewrite lookup_insert in He'. injection He' as <-. set_solver.
    + rewrite lookup_insert_ne in He' by done. apply elem_of_union_l. eauto.
  - cbn. set_solver.
Qed.
Print Assumptions add_explicit_inv.
