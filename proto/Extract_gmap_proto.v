From stdpp Require Import gmap sets.
Require Import ExtrOcamlBasic.
Definition m0 : gmap N (gset N) := ∅.
Definition ins (k v : N) (m : gmap N (gset N)) : gmap N (gset N) := <[k := {[v]} ∪ default ∅ (m !! k)]> m.
Definition dump (m : gmap N (gset N)) : list (N * list N) := (fun '(k,s) => (k, elements s)) <$> map_to_list m.
Definition run (ops : list (N*N)) := dump (fold_left (fun m '(k,v) => ins k v m) ops m0).
Eval vm_compute in run [(1,2);(3,4);(1,5)]%N.
Extraction "ex.ml" run.
