From mathcomp Require Import all_ssreflect all_algebra.
Set Implicit Arguments. Unset Strict Implicit. Unset Printing Implicit Defensive.
Import GRing.Theory.
Local Open Scope ring_scope.
Section RankCert.
Variable F : fieldType.
Lemma rank_cert m n r (S : 'M[F]_(m,n)) (A : 'M[F]_(m,r)) (B : 'M[F]_(r,n))
   (A' : 'M[F]_(r,m)) (B' : 'M[F]_(n,r)) (d : F) :
  S = A *m B -> d != 0 -> A' *m S *m B' = d%:M -> \rank S = r.
Proof.
move=> eS dn0 H; apply/eqP; rewrite eqn_leq; apply/andP; split.
- rewrite eS; apply: leq_trans (mulmx_max_rank _ _) _. exact: leqnn.
- have: \rank (d%:M : 'M[F]_r) = r by rewrite -scalemx1 mxrank_scale_nz // mxrank1.
  move=> <-; rewrite -H. apply: leq_trans (mxrankM_maxl _ _) _. exact: mxrankM_maxr.
Qed.
End RankCert.
Print Assumptions rank_cert.
