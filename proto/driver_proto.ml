let rec pos_of_int n = if n = 1 then Ex.XH else if n land 1 = 0 then Ex.XO (pos_of_int (n lsr 1)) else Ex.XI (pos_of_int (n lsr 1))
let n_of_int n = if n = 0 then Ex.N0 else Ex.Npos (pos_of_int n)
let rec int_of_pos = function Ex.XH -> 1 | Ex.XO p -> 2 * int_of_pos p | Ex.XI p -> 2 * int_of_pos p + 1
let int_of_n = function Ex.N0 -> 0 | Ex.Npos p -> int_of_pos p
let () =
  let ops = List.map (fun (a,b) -> (n_of_int a, n_of_int b)) [(1,2);(3,4);(1,5)] in
  List.iter (fun (k, vs) -> Printf.printf "%d: %s\n" (int_of_n k) (String.concat "," (List.map (fun v -> string_of_int (int_of_n v)) vs))) (Ex.run ops)
